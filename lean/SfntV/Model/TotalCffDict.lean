/-
C02 — checked-index model of cff `decodeDict` (cff/dict.go:36-136) and `decodeFloat`
(cff/dict.go:195-241) with cost counters.  Every `buf[k]`, `buf[n:]`, `stack[i]` of the Go code is
a checked operation labelled with its source position.  Three things are external to the two
functions and are taken as arbitrary TOTAL parameters (`Env`): the number `strconv.ParseFloat`
(+ the three clamps) makes of the decimal string that `decodeFloat` builds out of the nibbles
(`fv`, `none` = ParseFloat error), the conversion `int32(x)` / `float64(idx) == x` of a real
operand used as a SID (`asIdx`), and the string table `ss.get` (`get`, `none` = errNoString).
Values use the operand type and the map representation of the value-level model of C13
(`SfntV.Cff`, Model/CffDict.lean) so that the bridging lemma is an equality.
There is NO limit on the number of operands on the stack (the CFF limit of 48 is not enforced);
the cost is linear all the same because every operand consumes at least one byte.
Error classes as in C13: "invalid" (errCorruptDict) / "other".  Core-only.
-/
import SfntV.Model.TotalBase
import SfntV.Model.CffDict

namespace SfntV.Total.CffDict
open SfntV SfntV.Total

abbrev Operand := SfntV.Cff.Operand
abbrev Dict := List (Nat × List Operand)
/-- a real operand as held by C13's model: sign, mantissa, decimal exponent -/
abbrev Real := Bool × Nat × Int

/-- what the two functions call but do not define -/
structure Env where
  /-- `strconv.ParseFloat(string(s), 64)` followed by the clamps of dict.go:228-235; the string
  is given as character codes (digit, 10 `.`, 11 `e`, 14 `-`); `none` = `err != nil` -/
  fv : List Nat → Option Real
  /-- dict.go:52-55 `idx = int32(x); if float64(idx) != x {return errNoString}` -/
  asIdx : Bool → Nat → Int → Option Int
  /-- `ss.get(idx)`; `none` = errNoString -/
  get : Int → Option String

/-- Go `xs[a:]`: panics unless `a ≤ len(xs)` -/
def sliceFrom (site : String) (xs : List α) (a : Nat) : Outcome (List α) :=
  if a ≤ xs.length then .ok (xs.drop a) else .panic site

def addCost (c d : Cost) : Cost := ⟨c.steps + d.steps, c.alloc + d.alloc⟩

/-! ## `decodeFloat` -/

/-- the loop dict.go:200-240, one nibble per iteration.  State as in Go: `buf`, `s` (character
codes), `first`, `next`.  One step per iteration; `append` charged one element per character;
`string(s)` charged `len(s)` at the terminator.  The result is the remaining buffer and the
decimal string handed to `strconv.ParseFloat`.  Fuel: `2·len(buf)+1` iterations suffice. -/
def floatLoop : Nat → Bytes → List Nat → Bool → Nat → Cost → Outcome ((Bytes × List Nat) × Cost)
  | 0, _, _, _, _, _ => .err "fuel"
  | fuel+1, buf, s, first, next, c =>
    (if first then
        if buf.length = 0 then (.err "other" : Outcome (Nat × Bytes × Nat × Bool))  -- "incomplete float"
        else do
          let b ← idx "dict.go:206#buf[0]" buf 0
          let buf' ← sliceFrom "dict.go:206#buf[1:]" buf 1
          pure (b.toNat / 16, buf', b.toNat % 16, false)
      else pure (next, buf, next, true)) >>= fun st =>
    let nibble := st.1
    let buf := st.2.1
    let next := st.2.2.1
    let first := st.2.2.2
    let c := c.tick
    if nibble = 10 then floatLoop fuel buf (s ++ [10]) first next (c.mem 1)
    else if nibble = 11 then floatLoop fuel buf (s ++ [11]) first next (c.mem 1)
    else if nibble = 12 then floatLoop fuel buf (s ++ [11, 14]) first next (c.mem 2)
    else if nibble = 13 then .err "other"                 -- "unsupported float format"
    else if nibble = 14 then floatLoop fuel buf (s ++ [14]) first next (c.mem 1)
    else if nibble = 15 then .ok ((buf, s), c.mem s.length)
    else floatLoop fuel buf (s ++ [nibble]) first next (c.mem 1)

/-- `decodeFloat(buf)`: remaining bytes, the decimal string, and the number the external
`ParseFloat`+clamps make of it (error if that fails) -/
def decodeFloat (E : Env) (buf : Bytes) : Outcome ((Bytes × List Nat × Real) × Cost) := do
  let ((rest, s), c) ← floatLoop (2 * buf.length + 1) buf [] true 0 Cost.zero
  match E.fv s with
  | none => .err "other"
  | some v => .ok ((rest, s, v), c)

/-! ## `decodeDict` -/

/-- the loop dict.go:46-64 inside `flush`: `n` iterations left, index `i` -/
def flushLoop (E : Env) : Nat → Nat → List Operand → Cost → Outcome (List Operand × Cost)
  | 0, _, stack, c => .ok (stack, c)
  | n+1, i, stack, c => do
    let x ← idx "dict.go:48#stack[i]" stack i
    let c := c.tick
    match (match x with
           | .int v => some v
           | .real neg m e => E.asIdx neg m e
           | .str _ => none) with
    | none => .err "other"
    | some id =>
      if i ≥ stack.length then .panic "dict.go:60#stack[i]" else
      match E.get id with
      | none => .err "other"
      | some str => flushLoop E n (i + 1) (stack.set i (.str str)) (c.mem 1)

/-- the closure `flush` dict.go:40-69; `res[op] = stack` (a map write cannot panic) is charged
one map entry -/
def flush (E : Env) (op : Nat) (stack : List Operand) (res : Dict) (c : Cost) : Outcome (Dict × Cost) :=
  (if Cff.isStringOp op then
      let l := stack.length
      let l := if op = Cff.opROS ∧ l > 2 then 2 else l
      flushLoop E l 0 stack c
    else .ok (stack, c)) >>= fun r => .ok (Cff.dictSet res op r.1, r.2.mem 1)

/-- `err = flush(op); buf = buf[n:]` followed by `if err != nil {return}`: the slice expression is
evaluated before the error is looked at -/
def flushThen (E : Env) (site : String) (op : Nat) (buf : Bytes) (n : Nat) (stack : List Operand)
    (res : Dict) (c : Cost) : Outcome ((Bytes × List Operand × Dict) × Cost) :=
  match flush E op stack res c with
  | .panic s => .panic s
  | fr => do
    let buf' ← sliceFrom site buf n
    let (res', c') ← fr
    .ok ((buf', [], res'), c')

/-! The eleven `case`s of the `switch` dict.go:74-125, one definition each; `c` is the cost after
the iteration has been charged.  `append(stack, x)` is charged one element. -/

/-- `case b0 == 12` (dict.go:75-80) -/
def iterEscape (E : Env) (buf : Bytes) (stack : List Operand) (res : Dict) (c : Cost) :
    Outcome ((Bytes × List Operand × Dict) × Cost) :=
  if buf.length < 2 then .err "invalid" else do
  let b1 ← idx "dict.go:79#buf[1]" buf 1
  flushThen E "dict.go:80#buf[2:]" (12 * 256 + b1.toNat) buf 2 stack res c

/-- `case b0 == 28` (dict.go:86-91) -/
def iterInt16 (buf : Bytes) (stack : List Operand) (res : Dict) (c : Cost) :
    Outcome ((Bytes × List Operand × Dict) × Cost) :=
  if buf.length < 3 then .err "invalid" else do
  let b1 ← idx "dict.go:90#buf[1]" buf 1
  let b2 ← idx "dict.go:90#buf[2]" buf 2
  let buf' ← sliceFrom "dict.go:91#buf[3:]" buf 3
  .ok ((buf', stack ++ [.int (Cff.toI16 (b1.toNat * 256 + b2.toNat))], res), c.mem 1)

/-- `case b0 == 29` (dict.go:92-98) -/
def iterInt32 (buf : Bytes) (stack : List Operand) (res : Dict) (c : Cost) :
    Outcome ((Bytes × List Operand × Dict) × Cost) :=
  if buf.length < 5 then .err "invalid" else do
  let b1 ← idx "dict.go:97#buf[1]" buf 1
  let b2 ← idx "dict.go:97#buf[2]" buf 2
  let b3 ← idx "dict.go:97#buf[3]" buf 3
  let b4 ← idx "dict.go:97#buf[4]" buf 4
  let buf' ← sliceFrom "dict.go:98#buf[5:]" buf 5
  .ok ((buf', stack ++ [.int (Cff.toI32 (((b1.toNat * 256 + b2.toNat) * 256 + b3.toNat) * 256 + b4.toNat))],
        res), c.mem 1)

/-- `case b0 == 30` (dict.go:99-105) -/
def iterReal (E : Env) (buf : Bytes) (stack : List Operand) (res : Dict) (c : Cost) :
    Outcome ((Bytes × List Operand × Dict) × Cost) := do
  let arg ← sliceFrom "dict.go:100#buf[1:]" buf 1
  let r ← decodeFloat E arg
  .ok ((r.1.1, stack ++ [.real r.1.2.2.1 r.1.2.2.2.1 r.1.2.2.2.2], res), (addCost c r.2).mem 1)

/-- `case b0 <= 246` (dict.go:108-110) -/
def iterByte (v : Nat) (buf : Bytes) (stack : List Operand) (res : Dict) (c : Cost) :
    Outcome ((Bytes × List Operand × Dict) × Cost) := do
  let buf' ← sliceFrom "dict.go:110#buf[1:]" buf 1
  .ok ((buf', stack ++ [.int ((v : Int) - 139)], res), c.mem 1)

/-- `case b0 <= 250` (dict.go:111-116) -/
def iterPos (v : Nat) (buf : Bytes) (stack : List Operand) (res : Dict) (c : Cost) :
    Outcome ((Bytes × List Operand × Dict) × Cost) :=
  if buf.length < 2 then .err "invalid" else do
  let b1 ← idx "dict.go:115#buf[1]" buf 1
  let buf' ← sliceFrom "dict.go:116#buf[2:]" buf 2
  .ok ((buf', stack ++ [.int ((v : Int) * 256 + b1.toNat + (108 - 247 * 256))], res), c.mem 1)

/-- `case b0 <= 254` (dict.go:117-122) -/
def iterNeg (v : Nat) (buf : Bytes) (stack : List Operand) (res : Dict) (c : Cost) :
    Outcome ((Bytes × List Operand × Dict) × Cost) :=
  if buf.length < 2 then .err "invalid" else do
  let b1 ← idx "dict.go:121#buf[1]" buf 1
  let buf' ← sliceFrom "dict.go:122#buf[2:]" buf 2
  .ok ((buf', stack ++ [.int (-(v : Int) * 256 - b1.toNat - (108 - 251 * 256))], res), c.mem 1)

/-- the `switch` on `b0 = v` -/
def iterSwitch (E : Env) (v : Nat) (buf : Bytes) (stack : List Operand) (res : Dict) (c : Cost) :
    Outcome ((Bytes × List Operand × Dict) × Cost) :=
  if v = 12 then iterEscape E buf stack res c
  else if v ≤ 21 then flushThen E "dict.go:83#buf[1:]" v buf 1 stack res c
  else if v ≤ 27 then .err "invalid"
  else if v = 28 then iterInt16 buf stack res c
  else if v = 29 then iterInt32 buf stack res c
  else if v = 30 then iterReal E buf stack res c
  else if v = 31 then .err "invalid"
  else if v ≤ 246 then iterByte v buf stack res c
  else if v ≤ 250 then iterPos v buf stack res c
  else if v ≤ 254 then iterNeg v buf stack res c
  else .err "invalid"

/-- one iteration of `for len(buf) > 0` (dict.go:72-128), `len(buf) > 0`: the new `buf`, `stack`,
`res` -/
def dictIter (E : Env) (buf : Bytes) (stack : List Operand) (res : Dict) (c : Cost) :
    Outcome ((Bytes × List Operand × Dict) × Cost) := do
  let b0 ← idx "dict.go:72#buf[0]" buf 0
  iterSwitch E b0.toNat buf stack res c.tick

/-- `for len(buf) > 0 {…}` and the final `len(stack) > 0` check; fuel = `len(buf)` (every
iteration consumes at least one byte) -/
def dictLoop (E : Env) : Nat → Bytes → List Operand → Dict → Cost → Outcome (Dict × Cost)
  | 0, buf, stack, res, c =>
    if buf.length = 0 then (if stack.length > 0 then .err "invalid" else .ok (res, c))
    else .err "fuel"
  | fuel+1, buf, stack, res, c =>
    if buf.length = 0 then (if stack.length > 0 then .err "invalid" else .ok (res, c))
    else do
      let ((buf', stack', res'), c') ← dictIter E buf stack res c
      dictLoop E fuel buf' stack' res' c'

/-- `decodeDict(buf, ss)`; `res := cffDict{}` charged one object -/
def decodeDict (E : Env) (buf : Bytes) : Outcome (Dict × Cost) :=
  dictLoop E buf.length buf [] [] (Cost.zero.mem 1)

/-! ## the instance used in the tie and in the bridging lemmas: C13's value-level functions -/

/-- `Cff.floatValue` (ParseFloat grammar, exact decimal, range error, clamps) as an `Env.fv` -/
def fvC13 (s : List Nat) : Option Real :=
  match Cff.floatValue s with
  | .ok v => some v
  | _ => none

def envC13 (std custom : Array String) : Env :=
  { fv := fvC13, asIdx := Cff.realAsIndex, get := Cff.stringsGet std custom }

end SfntV.Total.CffDict
