/-
ONE Type 2 charstring interpreter, written from Adobe Technical Note #5177 ("The Type 2
Charstring Format") §3 (operand encodings) and §4 (operators), parameterised by `Quirks`.

* `interp goQuirks`  is the model of `(*decodeInfo).decodeCharString` (/repo/cff/t2decode.go):
  it agrees with the Go code on every program (tie: stream `t2.dec`, kind V).
* `interp strict`    is the specification: every quirk switched off.

All numbers are `Int` in units of 2⁻¹⁶ (16.16 fixed point): the integer operand 3 is `3 * 65536`.
The Go decoder keeps `float64`; for programs whose arithmetic stays inside 16.16 (every operand
encoding, `add sub neg abs mul`, exact `div`, perfect-square `sqrt`, the path and hint operators)
the float computation is exact and equals the fixed-point one.  `div` with an inexact quotient and
`sqrt` of a non-square raise the flag `St.inexact` (the Go value is then a float that is not a
multiple of 2⁻¹⁶; the model value is the quotient rounded to 2⁻¹⁶).

Core-only (linked into the driver).
-/
import SfntV.Prelude.Outcome
import SfntV.Generated.T2

namespace SfntV.T2
open SfntV

/-- 1.0 in 16.16 units -/
def one : Int := 65536

/-- Each field names one place where `decodeCharString` is more lenient than, or different from,
the text of TN5177.  `true` = behave like the Go code. -/
structure Quirks where
  /-- REPAIRED C05-lenient (repository commit df570b3; no longer part of `goQuirks`): rmoveto/hmoveto/
      vmoveto with fewer operands than required: Go silently did nothing (TN5177: stack underflow) -/
  shortMovetoIgnored : Bool
  /-- REPAIRED C05-lenient (df570b3; no longer part of `goQuirks`): a path operator (rlineto … flex1)
      with fewer operands than its smallest legal form: Go silently drew nothing -/
  shortPathOpIgnored : Bool
  /-- operands beyond a legal operand count (odd rlineto, rrcurveto with n mod 6 ≠ 0, flex with
      more than 13, stems with a stray operand once the width is set, endchar with 2–3, …) are
      silently dropped by Go -/
  extraOperandsIgnored : Bool
  /-- `fix`: every coordinate delta is clamped to ±32000 -/
  clampCoords : Bool
  /-- defect #18: `mul` computes `(int64(a) * int64(b)) >> 16` on the already converted values
      instead of the product -/
  truncMul : Bool
  /-- `flex1` as the Go code was before the repair `fix: flex1 ends on the start point's axis`:
      the last point got a zero delta on the minor axis; TN5177: "its y-value is equal to y" of the
      start point (resp. x).  No longer part of `goQuirks`; kept to state what was wrong. -/
  flex1OffAxis : Bool
  /-- a subroutine whose bytes run out without `return`/`endchar` returns to the caller -/
  implicitReturn : Bool
  /-- `div` by zero pushes 0 (TN5177 leaves it undefined; strict = error) -/
  divByZeroIsZero : Bool
  /-- `sqrt` of a negative number pushes 0 -/
  sqrtNegIsZero : Bool
  /-- `roll` with N = 0 is rejected by Go (TN5177 permits it as a no-op) -/
  rollZeroRejected : Bool
deriving Repr, DecidableEq

/-- the configuration that models `decodeCharString` -/
def goQuirks : Quirks := ⟨false, false, true, true, true, false, true, true, true, true⟩
/-- the configuration that is the specification -/
def strict : Quirks := ⟨false, false, false, false, false, false, false, false, false, false⟩

/-- Type 2 operators (TN5177 Appendix A). -/
inductive Op
  | hstem | vstem | vmoveto | rlineto | hlineto | vlineto | rrcurveto | callsubr | ret | endchar
  | hstemhm | hintmask | cntrmask | rmoveto | hmoveto | vstemhm | rcurveline | rlinecurve
  | vvcurveto | hhcurveto | callgsubr | vhcurveto | hvcurveto
  | dotsection | and | or | not | abs | add | sub | div | neg | eq | drop | put | get | ifelse
  | random | mul | sqrt | dup | exch | index | roll | hflex | flex | hflex1 | flex1
deriving DecidableEq, Repr

/-- operator numbers as the Go code has them (regenerated constants) -/
def opTable : List (Nat × Op) := [
  (Gen.t2hstem, .hstem), (Gen.t2vstem, .vstem), (Gen.t2vmoveto, .vmoveto), (Gen.t2rlineto, .rlineto),
  (Gen.t2hlineto, .hlineto), (Gen.t2vlineto, .vlineto), (Gen.t2rrcurveto, .rrcurveto),
  (Gen.t2callsubr, .callsubr), (Gen.t2return, .ret), (Gen.t2endchar, .endchar),
  (Gen.t2hstemhm, .hstemhm), (Gen.t2hintmask, .hintmask), (Gen.t2cntrmask, .cntrmask),
  (Gen.t2rmoveto, .rmoveto), (Gen.t2hmoveto, .hmoveto), (Gen.t2vstemhm, .vstemhm),
  (Gen.t2rcurveline, .rcurveline), (Gen.t2rlinecurve, .rlinecurve), (Gen.t2vvcurveto, .vvcurveto),
  (Gen.t2hhcurveto, .hhcurveto), (Gen.t2callgsubr, .callgsubr), (Gen.t2vhcurveto, .vhcurveto),
  (Gen.t2hvcurveto, .hvcurveto),
  (Gen.t2dotsection, .dotsection), (Gen.t2and, .and), (Gen.t2or, .or), (Gen.t2not, .not),
  (Gen.t2abs, .abs), (Gen.t2add, .add), (Gen.t2sub, .sub), (Gen.t2div, .div), (Gen.t2neg, .neg),
  (Gen.t2eq, .eq), (Gen.t2drop, .drop), (Gen.t2put, .put), (Gen.t2get, .get), (Gen.t2ifelse, .ifelse),
  (Gen.t2random, .random), (Gen.t2mul, .mul), (Gen.t2sqrt, .sqrt), (Gen.t2dup, .dup),
  (Gen.t2exch, .exch), (Gen.t2index, .index), (Gen.t2roll, .roll), (Gen.t2hflex, .hflex),
  (Gen.t2flex, .flex), (Gen.t2hflex1, .hflex1), (Gen.t2flex1, .flex1)]

/-- `op` as `decodeCharString` computes it: one byte, or `12<<8 | b1` after the escape byte -/
def opOfCode (n : Nat) : Option Op := (opTable.find? (fun p => p.1 == n)).map (·.2)

/-- path and mask commands of the decoded glyph, absolute coordinates in 2⁻¹⁶ units -/
inductive Cmd
  | moveTo (x y : Int)
  | lineTo (x y : Int)
  | curveTo (xa ya xb yb xc yc : Int)
  | hintMask (bytes : List Nat)
  | cntrMask (bytes : List Nat)
deriving DecidableEq, Repr

/-- `decodeInfo` -/
structure Env where
  subrs : List (List Nat)
  gsubrs : List (List Nat)
  defaultWidth : Int
  nominalWidth : Int

/-- the interpreter state (`stack`, `posX/posY`, `hasMoved`, `widthIsSet`, `stage`, `storage`, `res`) -/
structure St where
  /-- operand stack, bottom first (as the Go slice) -/
  stack : List Int := []
  x : Int := 0
  y : Int := 0
  hasMoved : Bool := false
  moveErr : Bool := false
  widthSet : Bool := false
  width : Int := 0
  /-- 0 = start, 1 = stems seen, 2 = hintmask seen -/
  stage : Nat := 0
  hstem : List Int := []
  vstem : List Int := []
  cmds : List Cmd := []
  /-- transient array: `none` = nil slice (before the first `put`) -/
  storage : Option (List Int) := none
  /-- some `div`/`sqrt` result was not a multiple of 2⁻¹⁶ (Go then holds a different float) -/
  inexact : Bool := false
deriving Repr, DecidableEq

/-- what the caller gets back -/
structure Glyph where
  cmds : List Cmd
  hstem : List Int
  vstem : List Int
  width : Int
deriving Repr, DecidableEq

def St.glyph (s : St) : Glyph := ⟨s.cmds, s.hstem, s.vstem, s.width⟩

/-- Go `int(x)` for a float `x`: truncation toward zero -/
def trunc (v : Int) : Int := Int.tdiv v one

/-- `fix`: "Fix a float64 to a 16.16 fixed point number in the range [-32000, 32000]" (values are
already multiples of 2⁻¹⁶ here, so only the clamp remains) -/
def fixq (q : Quirks) (d : Int) : Int :=
  if q.clampCoords then
    if d > 32000 * one then 32000 * one else if d < -(32000 * one) then -(32000 * one) else d
  else d

def rMoveTo (q : Quirks) (s : St) (dx dy : Int) : St :=
  let x := s.x + fixq q dx
  let y := s.y + fixq q dy
  { s with hasMoved := true, x := x, y := y, cmds := s.cmds ++ [.moveTo x y] }

def rLineTo (q : Quirks) (s : St) (dx dy : Int) : St :=
  let x := s.x + fixq q dx
  let y := s.y + fixq q dy
  { s with moveErr := s.moveErr || !s.hasMoved, x := x, y := y, cmds := s.cmds ++ [.lineTo x y] }

def rCurveTo (q : Quirks) (s : St) (dxa dya dxb dyb dxc dyc : Int) : St :=
  let xa := s.x + fixq q dxa
  let ya := s.y + fixq q dya
  let xb := xa + fixq q dxb
  let yb := ya + fixq q dyb
  let xc := xb + fixq q dxc
  let yc := yb + fixq q dyc
  { s with moveErr := s.moveErr || !s.hasMoved, x := xc, y := yc,
           cmds := s.cmds ++ [.curveTo xa ya xb yb xc yc] }

/-- rlineto: "{dxa dya}+ rlineto" -/
def rlineLoop (q : Quirks) : St → List Int → St
  | s, dx :: dy :: t => rlineLoop q (rLineTo q s dx dy) t
  | s, _ => s

/-- hlineto / vlineto: alternating horizontal and vertical lines -/
def altLineLoop (q : Quirks) : Bool → St → List Int → St
  | _, s, [] => s
  | h, s, z :: t => altLineLoop q (!h) (if h then rLineTo q s z 0 else rLineTo q s 0 z) t

/-- rrcurveto: "{dxa dya dxb dyb dxc dyc}+"; returns the operands left over -/
def curveLoop (q : Quirks) : St → List Int → St × List Int
  | s, a :: b :: c :: d :: e :: f :: t => curveLoop q (rCurveTo q s a b c d e f) t
  | s, t => (s, t)

/-- hhcurveto: "dy1? {dxa dxb dyb dxc}+" -/
def hhLoop (q : Quirks) : St → Int → List Int → St
  | s, dy1, a :: b :: c :: d :: t => hhLoop q (rCurveTo q s a dy1 b c d 0) 0 t
  | s, _, _ => s

/-- vvcurveto: "dx1? {dya dxb dyb dyc}+" -/
def vvLoop (q : Quirks) : St → Int → List Int → St
  | s, dx1, a :: b :: c :: d :: t => vvLoop q (rCurveTo q s dx1 a b c 0 d) 0 t
  | s, _, _ => s

/-- hvcurveto / vhcurveto: alternating start tangents; the optional last operand is the
otherwise-zero delta of the final curve's end point -/
def hvLoop (q : Quirks) : Bool → St → List Int → St
  | h, s, a :: b :: c :: d :: t =>
    let extra := match t with
      | [e] => e
      | _ => 0
    hvLoop q (!h) (if h then rCurveTo q s a 0 b c extra d else rCurveTo q s 0 a b c d extra) t
  | _, s, _ => s

/-- stem hints: "y dy {dya dyb}*": edges are accumulated deltas -/
def stemPairs : Int → List Int → List Int
  | prev, a :: b :: t => (prev + a) :: (prev + a + b) :: stemPairs (prev + a + b) t
  | _, _ => []

/-- one-shot width detection (`setGlyphWidth`) -/
def setWidth (env : Env) (s : St) (present : Bool) : St :=
  if s.widthSet then s
  else if present then
    match s.stack with
    | w :: t => { s with width := w + env.nominalWidth, stack := t, widthSet := true }
    | [] => { s with widthSet := true }
  else { s with widthSet := true }

/-- operand-count discipline: fewer than `min` → underflow unless the `short` quirk applies; at
least `min` but not of a legal `shape` → error unless extra operands are ignored -/
def countCheck (q : Quirks) (short : Bool) (n min : Nat) (shape : Bool) : Outcome Unit :=
  if n < min then (if short then .ok () else .err "underflow")
  else if shape || q.extraOperandsIgnored then .ok () else .err "argcount"

/-- result of one step of the main loop -/
inductive Res
  | cont (s : St) (code : List Nat)
  | call (s : St) (rest : List Nat) (glob : Bool) (biased : Int)
  | ret (s : St)
  | done (s : St)

def clear (s : St) : St := { s with stack := [] }

/-- floor square root by Newton iteration (fuel 80 suffices below 2^80) -/
def isqrtAux : Nat → Nat → Nat → Nat
  | 0, _, x => x
  | f + 1, n, x =>
    let y := (x + n / x) / 2
    if y < x then isqrtAux f n y else x

def isqrt (n : Nat) : Nat := if n = 0 then 0 else isqrtAux 200 n n

/-- 16.16 quotient rounded to nearest (half away from zero), and whether it is exact -/
def fxDiv (a b : Int) : Int × Bool :=
  let num := a * one
  let qn := (2 * num.natAbs + b.natAbs) / (2 * b.natAbs)
  let sgn : Int := if (num < 0) != (b < 0) then -1 else 1
  (sgn * qn, num % b == 0)

/-- 16.16 product rounded to nearest -/
def fxMul (a b : Int) : Int :=
  let p := a * b
  let qn := (2 * p.natAbs + 65536) / (2 * 65536)
  if p < 0 then -(qn : Int) else qn

/-- `roll(data, j)`: cyclic shift toward the top of the stack by `j` -/
def rollList (data : List Int) (j : Int) : List Int :=
  let n := data.length
  let jj := (j.tmod n + n).toNat % n   -- Go: j % n, +n if negative
  data.drop (n - jj) ++ data.take (n - jj)

/-- the subroutine bias of TN5177 §4 ("Subroutine operators"), with the thresholds and offsets
as the Go code has them (regenerated) -/
def bias (nSubrs : Nat) : Nat :=
  if nSubrs < Gen.t2biasThreshold1 then Gen.t2bias1
  else if nSubrs < Gen.t2biasThreshold2 then Gen.t2bias2
  else Gen.t2bias3

/-- `getSubr` -/
def getSubr (subrs : List (List Nat)) (biased : Int) : Outcome (List Nat) :=
  let idx := biased + bias subrs.length
  if idx < 0 then .err "subr"
  else match subrs[idx.toNat]? with
    | some b => .ok b
    | none => .err "subr"

/-- pop the two topmost operands: (rest bottom-first, second, top) -/
def pop2 (st : List Int) : Option (List Int × Int × Int) :=
  match st.reverse with
  | b :: a :: r => some (r.reverse, a, b)
  | _ => none

def pop1 (st : List Int) : Option (List Int × Int) :=
  match st.reverse with
  | a :: r => some (r.reverse, a)
  | _ => none

def b2i (b : Bool) : Int := if b then one else 0

/-- a path operator: check the operand count, run `f` on the state, clear the stack -/
def pathOp (q : Quirks) (s : St) (code : List Nat) (min : Nat) (shape : Bool) (f : St → St) :
    Outcome Res :=
  match countCheck q q.shortPathOpIgnored s.stack.length min shape with
  | .ok () => .ok (.cont (clear (f s)) code)
  | .err e => .err e
  | .panic p => .panic p

/-- execute operator `op`; `code` is the code after the operator -/
def exec (q : Quirks) (env : Env) (s : St) (op : Op) (code : List Nat) : Outcome Res :=
  let n := s.stack.length
  match op with
  | .rmoveto =>
    let s1 := setWidth env s (n > 2)
    match countCheck q q.shortMovetoIgnored s1.stack.length 2 (s1.stack.length == 2) with
    | .ok () =>
      let s2 := match s1.stack with
        | dx :: dy :: _ => rMoveTo q s1 dx dy
        | _ => s1
      .ok (.cont (clear s2) code)
    | .err e => .err e
    | .panic p => .panic p
  | .hmoveto =>
    let s1 := setWidth env s (n > 1)
    match countCheck q q.shortMovetoIgnored s1.stack.length 1 (s1.stack.length == 1) with
    | .ok () =>
      let s2 := match s1.stack with
        | dx :: _ => rMoveTo q s1 dx 0
        | _ => s1
      .ok (.cont (clear s2) code)
    | .err e => .err e
    | .panic p => .panic p
  | .vmoveto =>
    let s1 := setWidth env s (n > 1)
    match countCheck q q.shortMovetoIgnored s1.stack.length 1 (s1.stack.length == 1) with
    | .ok () =>
      let s2 := match s1.stack with
        | dy :: _ => rMoveTo q s1 0 dy
        | _ => s1
      .ok (.cont (clear s2) code)
    | .err e => .err e
    | .panic p => .panic p
  | .rlineto => pathOp q s code 2 (n % 2 == 0) (fun s => rlineLoop q s s.stack)
  | .hlineto => pathOp q s code 1 true (fun s => altLineLoop q true s s.stack)
  | .vlineto => pathOp q s code 1 true (fun s => altLineLoop q false s s.stack)
  | .rrcurveto => pathOp q s code 6 (n % 6 == 0) (fun s => (curveLoop q s s.stack).1)
  | .rcurveline =>
    pathOp q s code 8 ((n - 2) % 6 == 0) (fun s =>
      match curveLoop q s s.stack with
      | (s1, dx :: dy :: _) => rLineTo q s1 dx dy
      | (s1, _) => s1)
  | .rlinecurve =>
    pathOp q s code 8 (n % 2 == 0) (fun s =>
      let k := 2 * ((s.stack.length - 6) / 2)
      (curveLoop q (rlineLoop q s (s.stack.take k)) (s.stack.drop k)).1)
  | .hhcurveto =>
    pathOp q s code 4 (n % 4 ≤ 1) (fun s =>
      if s.stack.length % 4 != 0 then
        match s.stack with
        | d :: t => hhLoop q s d t
        | [] => s
      else hhLoop q s 0 s.stack)
  | .vvcurveto =>
    pathOp q s code 4 (n % 4 ≤ 1) (fun s =>
      if s.stack.length % 4 != 0 then
        match s.stack with
        | d :: t => vvLoop q s d t
        | [] => s
      else vvLoop q s 0 s.stack)
  | .hvcurveto => pathOp q s code 4 (n % 4 ≤ 1) (fun s => hvLoop q true s s.stack)
  | .vhcurveto => pathOp q s code 4 (n % 4 ≤ 1) (fun s => hvLoop q false s s.stack)
  | .flex =>
    pathOp q s code 13 (n == 13) (fun s =>
      match s.stack with
      | a0 :: a1 :: a2 :: a3 :: a4 :: a5 :: a6 :: a7 :: a8 :: a9 :: a10 :: a11 :: _ :: _ =>
        rCurveTo q (rCurveTo q s a0 a1 a2 a3 a4 a5) a6 a7 a8 a9 a10 a11
      | _ => s)
  | .flex1 =>
    pathOp q s code 11 (n == 11) (fun s =>
      match s.stack with
      | a0 :: a1 :: a2 :: a3 :: a4 :: a5 :: a6 :: a7 :: a8 :: a9 :: a10 :: _ =>
        let s1 := rCurveTo q s a0 a1 a2 a3 a4 a5
        let dx := a0 + a2 + a4 + a6 + a8
        let dy := a1 + a3 + a5 + a7 + a9
        if dx.natAbs > dy.natAbs then
          rCurveTo q s1 a6 a7 a8 a9 a10 (if q.flex1OffAxis then 0 else -dy)
        else
          rCurveTo q s1 a6 a7 a8 a9 (if q.flex1OffAxis then 0 else -dx) a10
      | _ => s)
  | .hflex =>
    pathOp q s code 7 (n == 7) (fun s =>
      match s.stack with
      | a0 :: a1 :: a2 :: a3 :: a4 :: a5 :: a6 :: _ =>
        rCurveTo q (rCurveTo q s a0 0 a1 a2 a3 0) a4 0 a5 (-a2) a6 0
      | _ => s)
  | .hflex1 =>
    pathOp q s code 9 (n == 9) (fun s =>
      match s.stack with
      | a0 :: a1 :: a2 :: a3 :: a4 :: a5 :: a6 :: a7 :: a8 :: _ =>
        rCurveTo q (rCurveTo q s a0 a1 a2 a3 a4 0) a5 0 a6 a7 a8 (-(a1 + a3 + a7))
      | _ => s)
  | .dotsection => .ok (.cont (clear s) code)
  | .hstem | .hstemhm =>
    if s.stage > 1 then .err "late"
    else if n < 2 then .err "underflow"
    else
      let s1 := setWidth env { s with stage := 1 } (n % 2 == 1)
      if s1.stack.length % 2 != 0 && !q.extraOperandsIgnored then .err "argcount"
      else .ok (.cont { s1 with hstem := s1.hstem ++ stemPairs 0 s1.stack, stack := [] } code)
  | .vstem | .vstemhm =>
    if s.stage > 1 then .err "late"
    else if n < 2 then .err "underflow"
    else
      let s1 := setWidth env { s with stage := 1 } (n % 2 == 1)
      if s1.stack.length % 2 != 0 && !q.extraOperandsIgnored then .err "argcount"
      else .ok (.cont { s1 with vstem := s1.vstem ++ stemPairs 0 s1.stack, stack := [] } code)
  | .hintmask | .cntrmask =>
    if n ≥ 2 && s.stage > 1 then .err "late"
    else
      let s0 := if n ≥ 2 then { s with stage := 1 } else s
      let s1 := setWidth env s0 (n % 2 == 1)
      if s1.stack.length % 2 != 0 && !q.extraOperandsIgnored then .err "argcount"
      else
        let s2 := { s1 with vstem := s1.vstem ++ stemPairs 0 s1.stack }
        if s2.stage < 1 then .err "early"
        else
          let nStems := (s2.hstem.length + s2.vstem.length) / 2
          if nStems == 0 then .err "incomplete"
          else
            let k := (nStems + 7) / 8
            if k ≥ code.length then .err "incomplete"
            else
              let c := if op == .cntrmask then Cmd.cntrMask (code.take k) else Cmd.hintMask (code.take k)
              .ok (.cont { s2 with stage := 2, cmds := s2.cmds ++ [c], stack := [] } (code.drop k))
  | .abs =>
    match pop1 s.stack with
    | some (r, a) => .ok (.cont { s with stack := r ++ [if a < 0 then -a else a] } code)
    | none => .err "underflow"
  | .add =>
    match pop2 s.stack with
    | some (r, a, b) => .ok (.cont { s with stack := r ++ [a + b] } code)
    | none => .err "underflow"
  | .sub =>
    match pop2 s.stack with
    | some (r, a, b) => .ok (.cont { s with stack := r ++ [a - b] } code)
    | none => .err "underflow"
  | .div =>
    match pop2 s.stack with
    | some (r, a, b) =>
      if b == 0 then
        if q.divByZeroIsZero then .ok (.cont { s with stack := r ++ [0] } code) else .err "divzero"
      else
        let (v, exact) := fxDiv a b
        .ok (.cont { s with stack := r ++ [v], inexact := s.inexact || !exact } code)
    | none => .err "underflow"
  | .neg =>
    match pop1 s.stack with
    | some (r, a) => .ok (.cont { s with stack := r ++ [-a] } code)
    | none => .err "underflow"
  | .random => .ok (.cont { s with stack := s.stack ++ [40501] } code)
  | .mul =>
    match pop2 s.stack with
    | some (r, a, b) =>
      let v := if q.truncMul then Int.fdiv (trunc a * trunc b) 65536 * one else fxMul a b
      .ok (.cont { s with stack := r ++ [v] } code)
    | none => .err "underflow"
  | .sqrt =>
    match pop1 s.stack with
    | some (r, a) =>
      if a > 0 then
        let m := (a * one).toNat
        let v := isqrt m
        .ok (.cont { s with stack := r ++ [(v : Int)], inexact := s.inexact || v * v != m } code)
      else if a == 0 || q.sqrtNegIsZero then .ok (.cont { s with stack := r ++ [0] } code)
      else .err "sqrtneg"
    | none => .err "underflow"
  | .drop =>
    match pop1 s.stack with
    | some (r, _) => .ok (.cont { s with stack := r } code)
    | none => .err "underflow"
  | .exch =>
    match pop2 s.stack with
    | some (r, a, b) => .ok (.cont { s with stack := r ++ [b, a] } code)
    | none => .err "underflow"
  | .index =>
    match pop1 s.stack with
    | some (r, a) =>
      let i := if trunc a < 0 then 0 else (trunc a).toNat
      -- Go: k = len-1, needs k-idx-1 ≥ 0, takes stack[k-idx-1]
      if r.length < i + 1 then .err "index"
      else .ok (.cont { s with stack := r ++ [r.getD (r.length - i - 1) 0] } code)
    | none => .err "underflow"
  | .roll =>
    match pop2 s.stack with
    | some (r, a, b) =>
      let cnt := trunc a
      let j := trunc b
      if cnt < 0 || cnt > r.length then .err "roll"
      else if cnt == 0 then (if q.rollZeroRejected then .err "roll" else .ok (.cont { s with stack := r } code))
      else
        let c := cnt.toNat
        .ok (.cont { s with stack := r.take (r.length - c) ++ rollList (r.drop (r.length - c)) j } code)
    | none => .err "underflow"
  | .dup =>
    match pop1 s.stack with
    | some (_, a) => .ok (.cont { s with stack := s.stack ++ [a] } code)
    | none => .err "underflow"
  | .put =>
    match pop2 s.stack with
    | some (r, a, b) =>
      let m := trunc b
      if m < 0 || m ≥ Gen.t2storagePutLimit then .err "store"
      else
        let arr := s.storage.getD (List.replicate Gen.t2storageSize 0)
        .ok (.cont { s with stack := r, storage := some (arr.set m.toNat a) } code)
    | none => .err "underflow"
  | .get =>
    match pop1 s.stack with
    | some (r, a) =>
      let m := trunc a
      let arr := s.storage.getD []
      if m < 0 || m ≥ arr.length then .err "store"
      else .ok (.cont { s with stack := r ++ [arr.getD m.toNat 0] } code)
    | none => .err "underflow"
  | .and =>
    match pop2 s.stack with
    | some (r, a, b) => .ok (.cont { s with stack := r ++ [b2i (a != 0 && b != 0)] } code)
    | none => .err "underflow"
  | .or =>
    match pop2 s.stack with
    | some (r, a, b) => .ok (.cont { s with stack := r ++ [b2i (a != 0 || b != 0)] } code)
    | none => .err "underflow"
  | .not =>
    match pop1 s.stack with
    | some (r, a) => .ok (.cont { s with stack := r ++ [b2i (a == 0)] } code)
    | none => .err "underflow"
  | .eq =>
    match pop2 s.stack with
    | some (r, a, b) => .ok (.cont { s with stack := r ++ [b2i (a == b)] } code)
    | none => .err "underflow"
  | .ifelse =>
    match s.stack.reverse with
    | v2 :: v1 :: s2 :: s1 :: r =>
      .ok (.cont { s with stack := r.reverse ++ [if v1 ≤ v2 then s1 else s2] } code)
    | _ => .err "underflow"
  | .callsubr =>
    match pop1 s.stack with
    | some (r, a) => .ok (.call { s with stack := r } code false (trunc a))
    | none => .err "underflow"
  | .callgsubr =>
    match pop1 s.stack with
    | some (r, a) => .ok (.call { s with stack := r } code true (trunc a))
    | none => .err "underflow"
  | .ret => .ok (.ret s)
  | .endchar =>
    let s1 := setWidth env s (n == 1 || n > 4)
    if !(s1.stack.length == 0 || s1.stack.length == 4) && !q.extraOperandsIgnored then .err "argcount"
    else .ok (.done s1)

def pushNum (s : St) (v : Int) (code : List Nat) : Outcome Res :=
  .ok (.cont { s with stack := s.stack ++ [v] } code)

/-- two's complement reading of a 16-bit / 32-bit pattern -/
def toI16 (v : Nat) : Int := if v ≥ 32768 then (v : Int) - 65536 else v
def toI32 (v : Nat) : Int := if v ≥ 2147483648 then (v : Int) - 4294967296 else v

/-- "moveError" is looked at after every operator -/
def checkMove : Outcome Res → Outcome Res
  | .ok (.cont s c) => if s.moveErr then .err "nomove" else .ok (.cont s c)
  | .ok (.call s c g b) => if s.moveErr then .err "nomove" else .ok (.call s c g b)
  | r => r

/-- one iteration of `opLoop` on non-empty code: operand (TN5177 §3.2, Table 3) or operator -/
def step (q : Quirks) (env : Env) (s : St) : List Nat → Outcome Res
  | [] => .ok (.ret s)
  | b0 :: rest =>
    if s.stack.length > Gen.t2maxStack then .err "overflow"
    else if 32 ≤ b0 ∧ b0 ≤ 246 then pushNum s (((b0 : Int) - 139) * one) rest
    else if 247 ≤ b0 ∧ b0 ≤ 250 then
      match rest with
      | b1 :: r => pushNum s ((((b0 : Int) - 247) * 256 + b1 + 108) * one) r
      | [] => .err "incomplete"
    else if 251 ≤ b0 ∧ b0 ≤ 254 then
      match rest with
      | b1 :: r => pushNum s (((251 - (b0 : Int)) * 256 - b1 - 108) * one) r
      | [] => .err "incomplete"
    else if b0 = 28 then
      match rest with
      | b1 :: b2 :: r => pushNum s (toI16 (b1 * 256 + b2) * one) r
      | _ => .err "incomplete"
    else if b0 = 255 then
      match rest with
      | b1 :: b2 :: b3 :: b4 :: r => pushNum s (toI32 (((b1 * 256 + b2) * 256 + b3) * 256 + b4)) r
      | _ => .err "incomplete"
    else if b0 = 12 then
      match rest with
      | b1 :: r =>
        match opOfCode (12 * 256 + b1) with
        | some op => checkMove (exec q env s op r)
        | none => .err "badop"
      | [] => .err "incomplete"
    else
      match opOfCode b0 with
      | some op => checkMove (exec q env s op rest)
      | none => .err "badop"

/-- how a code body ended -/
inductive Fin
  | ret (s : St)
  | done (s : St)

/-- the inner `opLoop` over one code body.  `call` runs a subroutine (one nesting level deeper).
Fuel: every iteration strictly shortens `code` (an operand or operator byte is consumed; after a
call the loop continues with the shorter rest), so `code.length + 1` iterations always suffice —
see `Proofs.T2.loop_fuel`. -/
def loop (q : Quirks) (env : Env) (call : St → Bool → Int → Outcome Fin) :
    Nat → St → List Nat → Outcome Fin
  | 0, _, _ => .err "fuel"
  | f + 1, s, code =>
    match code with
    | [] => if q.implicitReturn then .ok (.ret s) else .err "noreturn"
    | _ :: _ =>
      match step q env s code with
      | .ok (.cont s' code') => loop q env call f s' code'
      | .ok (.call s' rest glob biased) =>
        match call s' glob biased with
        | .ok (.ret s'') => loop q env call f s'' rest
        | r => r
      | .ok (.ret s') => .ok (.ret s')
      | .ok (.done s') => .ok (.done s')
      | .err e => .err e
      | .panic p => .panic p

/-- run a code body with `d` further nesting levels available (structural in `d`) -/
def runAt (q : Quirks) (env : Env) : Nat → St → List Nat → Outcome Fin
  | 0, s, code => loop q env (fun _ _ _ => .err "depth") (code.length + 1) s code
  | d + 1, s, code =>
    loop q env (fun s' glob biased =>
      match getSubr (if glob then env.gsubrs else env.subrs) biased with
      | .ok body => runAt q env d s' body
      | .err e => .err e
      | .panic p => .panic p) (code.length + 1) s code

def St.init (env : Env) : St := { width := env.defaultWidth }

/-- the interpreter: run the charstring with at most `t2callDepth` nested subroutine calls; the
only normal exit is `endchar` -/
def interpSt (q : Quirks) (env : Env) (code : List Nat) : Outcome St :=
  match runAt q env Gen.t2callDepth (St.init env) code with
  | .ok (.done s) => .ok s
  | .ok (.ret _) => .err "incomplete"
  | .err e => .err e
  | .panic p => .panic p

def interp (q : Quirks) (env : Env) (code : List Nat) : Outcome Glyph :=
  match interpSt q env code with
  | .ok s => .ok s.glyph
  | .err e => .err e
  | .panic p => .panic p

end SfntV.T2
