/-
Checked-index model of `kern.Read` (kern/kern.go:40-136) as repaired (total number of pairs
bounded by the file size).  The parser is a plain byte view (C17): position + input.
-/
import SfntV.Model.TotalBase

namespace SfntV.Total.Kern
open SfntV SfntV.Total

/-- `Info`: Go map `glyph.Pair → funit.Int16` as an association list, values as int16 in
two's complement (0..65535) -/
abbrev KMap := List ((Nat × Nat) × Nat)

def KMap.get (m : KMap) (k : Nat × Nat) : Nat :=
  match m.find? (·.1 == k) with
  | some e => e.2
  | none => 0

def KMap.has (m : KMap) (k : Nat × Nat) : Bool := m.any (·.1 == k)

def KMap.set : KMap → (Nat × Nat) → Nat → KMap
  | [], k, v => [(k, v)]
  | e :: r, k, v => if e.1 == k then (k, v) :: r else e :: KMap.set r k v

/-- signed value of an int16 in two's complement -/
def s16 (v : Nat) : Int := if v < 32768 then v else (v : Int) - 65536

inductive Mode | minimum | override | add
deriving Repr, DecidableEq

/-- kern.go:117-126: how one pair updates the map; second component: a new key was created -/
def update (m : KMap) (mode : Mode) (k : Nat × Nat) (v : Nat) : KMap × Bool :=
  match mode with
  | .minimum => if s16 (m.get k) < s16 v then (m.set k v, !m.has k) else (m, false)
  | .override => (m.set k v, !m.has k)
  | .add => (m.set k ((m.get k + v) % 65536), !m.has k)

/-- the pair loop kern.go:108-128: `j` pairs still to read, the parser stands at `pos` -/
def pairs (b : Bytes) (mode : Mode) : Nat → Nat → KMap → Cost → Outcome (KMap × Cost)
  | 0, _, m, c => .ok (m, c)
  | j+1, pos, m, c => do
    let buf ← readBytes "kern.go:109#ReadBytes(6)" b pos 6
    let left ← w16 "kern.go:113#buf[0],buf[1]" buf 0
    let right ← w16 "kern.go:114#buf[2],buf[3]" buf 2
    let value ← w16 "kern.go:115#buf[4],buf[5]" buf 4
    let (m', fresh) := update m mode (left, right) value
    pairs b mode j (pos + 6) m' ((c.tick).mem (if fresh then 1 else 0))

/-- the subtable loop kern.go:63-129: `fuel` subtables still to visit, next header at `pos`,
`total` pairs admitted so far -/
def subtables (b : Bytes) : Nat → Nat → Nat → KMap → Cost → Outcome (KMap × Cost)
  | 0, _, _, m, c => .ok (m, c)
  | fuel+1, pos, total, m, c => do
    -- p.SeekPos(pos) on an in-memory reader does not fail
    let buf ← readBytes "kern.go:68#ReadBytes(6)" b pos 6
    let c := c.tick
    let subtableVersion ← w16 "kern.go:72#buf[0],buf[1]" buf 0
    let length ← w16 "kern.go:73#buf[2],buf[3]" buf 2
    let format ← idx "kern.go:74#buf[4]" buf 4
    let flags ← idx "kern.go:75#buf[5]" buf 5
    if length < 14 then .err "invalid" else
    let pos' := pos + length
    if subtableVersion ≠ 0 ∨ format ≠ 0 ∨ flags.toNat &&& 0xF5 ≠ 1 then
      subtables b fuel pos' total m c
    else
      let mode := if flags.toNat &&& 2 ≠ 0 then Mode.minimum
                  else if flags.toNat &&& 8 ≠ 0 then Mode.override else Mode.add
      let nb ← readBytes "kern.go:91#ReadUint16" b (pos + 6) 2
      let nPairs ← w16 "kern.go:91#ReadUint16" nb 0
      -- p.Discard(6): a seek, cannot fail
      let total' := total + nPairs
      if 6 * total' > b.length then .err "invalid" else
      let (m', c') ← pairs b mode nPairs (pos + 14) m c
      subtables b fuel pos' total' m' c'

def read (b : Bytes) : Outcome (KMap × Cost) := do
  let vb ← readBytes "kern.go:43#ReadUint16" b 0 2
  let version ← w16 "kern.go:43#ReadUint16" vb 0
  if version ≠ 0 then .err "unsupported" else
  let nb ← readBytes "kern.go:54#ReadUint16" b 2 2
  let nTables ← w16 "kern.go:54#ReadUint16" nb 0
  subtables b nTables 4 0 [] (Cost.zero.tick 2 |>.mem 1)     -- make(Info)

/-- the code before the repair: no bound on the total number of pairs (kern/kern.go at
82c36f4).  Kept to state the finding (§9 #35) as a theorem. -/
def subtablesOld (b : Bytes) : Nat → Nat → KMap → Cost → Outcome (KMap × Cost)
  | 0, _, m, c => .ok (m, c)
  | fuel+1, pos, m, c => do
    let buf ← readBytes "kern.go:68#ReadBytes(6)" b pos 6
    let c := c.tick
    let subtableVersion ← w16 "kern.go:72#buf[0],buf[1]" buf 0
    let length ← w16 "kern.go:73#buf[2],buf[3]" buf 2
    let format ← idx "kern.go:74#buf[4]" buf 4
    let flags ← idx "kern.go:75#buf[5]" buf 5
    if length < 14 then .err "invalid" else
    let pos' := pos + length
    if subtableVersion ≠ 0 ∨ format ≠ 0 ∨ flags.toNat &&& 0xF5 ≠ 1 then
      subtablesOld b fuel pos' m c
    else
      let mode := if flags.toNat &&& 2 ≠ 0 then Mode.minimum
                  else if flags.toNat &&& 8 ≠ 0 then Mode.override else Mode.add
      let nb ← readBytes "kern.go:91#ReadUint16" b (pos + 6) 2
      let nPairs ← w16 "kern.go:91#ReadUint16" nb 0
      let (m', c') ← pairs b mode nPairs (pos + 14) m c
      subtablesOld b fuel pos' m' c'

def readOld (b : Bytes) : Outcome (KMap × Cost) := do
  let vb ← readBytes "kern.go:43#ReadUint16" b 0 2
  let version ← w16 "kern.go:43#ReadUint16" vb 0
  if version ≠ 0 then .err "unsupported" else
  let nb ← readBytes "kern.go:54#ReadUint16" b 2 2
  let nTables ← w16 "kern.go:54#ReadUint16" nb 0
  subtablesOld b nTables 4 [] (Cost.zero.tick 2 |>.mem 1)

end SfntV.Total.Kern
