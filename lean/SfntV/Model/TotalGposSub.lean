/-
C02 (decoders are total): checked-index models of the GPOS subtable readers of lookup types 1–3
`readGpos1_1`, `readGpos1_2`, `readGpos2_1`, `readGpos2_2`, `readGpos3_1` and of `readGpos5_1` (gpos5.go)
(opentype/gtab/gpos.go:85-740) with `readValueRecord` (valuerecord.go:46-106), of the dispatcher
`readGposSubtable` (gpos.go:34-54, as repaired in /repo 8867078), of `anchor.Read` (opentype/anchor/anchor.go:35-59) and of
`markarray.Read` (opentype/markarray/markarray.go:36-71), as the code stands in the working tree.

The parser is a plain byte view (theorem C17): the models take the whole byte string and the
absolute position; `p.SeekPos` never fails, a read of `n` bytes at position `q` is
`readBytes site b q n`, and the sequential reads keep the position explicit.  The five subtable
readers are entered by `readGposSubtable` right after the format word: their first read is at
`subtablePos + 2`.  `coverage.Read`, `coverage.ReadSet`, `classdef.Read` are the checked models
`SfntV.Total.Otl.coverageRead / readSet / classdefRead`.

Checked sites: every `p.ReadBytes(k)`, every `buf[k]`, every `make`, the slices
`valueRecords[:len(cov)]`, `pairSetOffsets[:len(cov)]`, `records[:len(cov)]`,
`records[i*c2:(i+1)*c2]`, and the data-dependent indices `adjust[i]` (gpos.go:338, 343, 555),
`records[i]` (gpos.go:533), `offsets[2*i]`, `offsets[2*i+1]` (gpos.go:715-722), `res[i]`,
`offsets[i]` (markarray.go:53-65): slices that Go `make`s and then fills by index are lists of
the made length filled with `setAt` (panic when the index is outside).  The slices filled by
`for i := range xs` (`valueRecords`, `pairSetOffsets`, 3.1 `offsets`, 3.1 `records`) are
accumulated (the extractor discharges `range-index-over-same-slice`).

Values.  A `*GposValueRecord` is `none` (nil) or its eight 16-bit fields in field order, the signed
ones by their 16-bit two's complement value (the shape of `SfntV.Otl.Gpos.VR`, C08); an anchor
is `(X, Y)` the same way; coverage / class tables as in `SfntV.Total.Otl`.  `read21` returns the
pruned coverage entries and the pair sets in reading order (the Go code then merges them into one
map, later entries of a pair set overwriting earlier ones: done by the driver).

Cost.  `steps` = parser reads + loop iterations, `alloc` = elements of every `make` (charged when
it happens, the map hint `make(map, pairValueCount)` included) + one per allocated object
(value record, `PairAdjust`, result).  `cov.Prune` is charged one step per coverage entry; the
merge loop of `readGpos2_1` (gpos.go:342-346) is charged per map WRITE (an upper bound of the
iterations: a pair set with a repeated second glyph has fewer entries than writes).
Offsets are not checked against each other: pair-set offsets and anchor offsets may all point at
ONE record, and every visit is charged.
Core-only: linked into the driver.
-/
import SfntV.Model.TotalOtl

namespace SfntV.Total.GposSub
open SfntV SfntV.Total SfntV.Total.Otl

/-- `*GposValueRecord`: nil or the eight fields -/
abbrev VR := Option (List Nat)
/-- `anchor.Table{X, Y}` -/
abbrev Anchor := Nat × Nat
/-- one PairSet: (second glyph, first record, second record) in reading order -/
abbrev PairSet := List (Nat × VR × VR)

def bit (n k : Nat) : Bool := n / 2 ^ k % 2 == 1

def cadd (a b : Cost) : Cost := ⟨a.steps + b.steps, a.alloc + b.alloc⟩

/-- `xs[a:b]`: panics unless `a ≤ b ≤ len(xs)` -/
def slice (site : String) (xs : List α) (a b : Nat) : Outcome (List α) :=
  if a ≤ b ∧ b ≤ xs.length then .ok ((xs.drop a).take (b - a)) else .panic site

/-- `xs[i] = v`: panics unless `i < len(xs)` -/
def setAt (site : String) (xs : List α) (i : Nat) (v : α) : Outcome (List α) :=
  if i < xs.length then .ok (xs.set i v) else .panic site

/-- `n` consecutive `p.ReadUint16()` starting at position `q` (one step each) -/
def readWords (site : String) (b : Bytes) : Nat → Nat → List Nat → Cost → Outcome (List Nat × Cost)
  | 0, _, acc, c => .ok (acc.reverse, c)
  | n+1, q, acc, c => do
    let v ← readU16 site b q
    readWords site b n (q + 2) (v :: acc) c.tick

/-! ## readValueRecord -/

/-- valuerecord.go:53-104: the fields `k, k+1, …` (`fuel` of them), one `ReadInt16`/`ReadUint16`
per set bit of the format; result: fields, position after them, cost -/
def vrFields (b : Bytes) (fmt : Nat) : Nat → Nat → Nat → Cost → Outcome (List Nat × Nat × Cost)
  | 0, _, q, c => .ok ([], q, c)
  | fuel+1, k, q, c =>
    if bit fmt k then do
      let v ← readU16 "valuerecord.go:54-100#ReadInt16/ReadUint16" b q
      let r ← vrFields b fmt fuel (k + 1) (q + 2) c.tick
      pure (v :: r.1, r.2.1, r.2.2)
    else do
      let r ← vrFields b fmt fuel (k + 1) q c
      pure (0 :: r.1, r.2.1, r.2.2)

/-- `readValueRecord(p, valueFormat)` at position `q`: nil for format 0, otherwise a new record
(bits 8–15 of the format select nothing but make the record non-nil) -/
def vrRead (b : Bytes) (fmt q : Nat) (c : Cost) : Outcome (VR × Nat × Cost) :=
  if fmt = 0 then .ok (none, q, c)
  else do
    let r ← vrFields b fmt 8 0 q (c.mem 1)           -- valuerecord.go:51 `&GposValueRecord{}`
    pure (some r.1, r.2.1, r.2.2)

/-! ## anchor.Read, markarray.Read -/

/-- `anchor.Read(p, pos)` -/
def anchorRead (b : Bytes) (pos : Nat) : Outcome (Anchor × Cost) := do
  let buf ← readBytes "anchor.go:41#ReadBytes(6)" b pos 6
  let format ← w16 "anchor.go:46#buf[0],buf[1]" buf 0
  let x ← w16 "anchor.go:47#buf[2],buf[3]" buf 2
  let y ← w16 "anchor.go:48#buf[4],buf[5]" buf 4
  if format = 0 ∨ format > 3 then .err "invalid"
  else pure ((x, y), Cost.zero.tick)

/-- markarray.go:52-62: `res[i].Class`, `offsets[i]` for `i = 0 … markCount-1` -/
def maLoop1 (b : Bytes) : Nat → Nat → Nat → List (Nat × Anchor) → List Nat → Cost →
    Outcome (List (Nat × Anchor) × List Nat × Cost)
  | 0, _, _, res, offs, c => .ok (res, offs, c)
  | fuel+1, i, q, res, offs, c => do
    let cls ← readU16 "markarray.go:53#ReadUint16" b q
    let r ← idx "markarray.go:53#res[i]" res i
    let res ← setAt "markarray.go:53#res[i]" res i (cls, r.2)
    let o ← readU16 "markarray.go:58#ReadUint16" b (q + 2)
    let offs ← setAt "markarray.go:58#offsets[i]" offs i o
    maLoop1 b fuel (i + 1) (q + 4) res offs (c.tick 3)

/-- markarray.go:64-69: `for i, offs := range offsets { res[i].Table = anchor.Read(p, pos+offs) }` -/
def maLoop2 (b : Bytes) (pos : Nat) : List Nat → Nat → List (Nat × Anchor) → Cost →
    Outcome (List (Nat × Anchor) × Cost)
  | [], _, res, c => .ok (res, c)
  | o :: offs, i, res, c => do
    let a ← anchorRead b (pos + o)
    let r ← idx "markarray.go:65#res[i]" res i
    let res ← setAt "markarray.go:65#res[i]" res i (r.1, a.1)
    maLoop2 b pos offs (i + 1) res ((cadd c a.2).tick)

/-- `markarray.Read(p, pos, numMarks)`; `numMarks` is a Go `int` supplied by the caller -/
def markarrayRead (b : Bytes) (pos : Nat) (numMarks : Int) :
    Outcome (List (Nat × Anchor) × Cost) := do
  let mc0 ← readU16 "markarray.go:42#ReadUint16" b pos
  -- markarray.go:46-48 `if int(markCount) > numMarks { markCount = uint16(numMarks) }`
  let mc := if (mc0 : Int) > numMarks then (numMarks % 65536).toNat else mc0
  let c ← mkSlice "markarray.go:50#make([]Record, markCount)" mc Cost.zero.tick
  let c ← mkSlice "markarray.go:51#make([]uint16, markCount)" mc c
  let r ← maLoop1 b mc 0 (pos + 2) (List.replicate mc (0, (0, 0))) (List.replicate mc 0) c
  maLoop2 b pos r.2.1 0 r.1 r.2.2

/-! ## GPOS 1.1, 1.2 -/

/-- `readGpos1_1(p, subtablePos)` -/
def read11 (b : Bytes) (pos : Nat) : Outcome ((List (Nat × Nat) × VR) × Cost) := do
  let buf ← readBytes "gpos.go:86#ReadBytes(4)" b (pos + 2) 4
  let covOff ← w16 "gpos.go:90#buf[0],buf[1]" buf 0
  let vf ← w16 "gpos.go:91#buf[2],buf[3]" buf 2
  let r ← vrRead b vf (pos + 6) Cost.zero.tick
  let cv ← coverageRead b (pos + covOff)
  pure ((cv.1, r.1), (cadd r.2.2 cv.2).mem 1)

/-- gpos.go:160-165 -/
def vrLoop (b : Bytes) (fmt : Nat) : Nat → Nat → List VR → Cost → Outcome (List VR × Cost)
  | 0, _, acc, c => .ok (acc.reverse, c)
  | n+1, q, acc, c => do
    let r ← vrRead b fmt q c.tick
    vrLoop b fmt n r.2.1 (r.1 :: acc) r.2.2

/-- `if len(xs) > len(cov) { xs = xs[:len(cov)] } else if len(xs) < len(cov) { cov.Prune(len(xs)) }`
(the coverage entries of `coverageRead` have distinct glyphs: `len(cov)` is the list length) -/
def prune (site : String) (cov : List (Nat × Nat)) (xs : List α) (c : Cost) :
    Outcome ((List (Nat × Nat) × List α) × Cost) :=
  if xs.length > cov.length then do
    let ys ← slice site xs 0 cov.length
    pure ((cov, ys), c)
  else if xs.length < cov.length then
    .ok ((cov.filter (fun p => p.2 < xs.length), xs), c.tick cov.length)
  else .ok ((cov, xs), c)

/-- `readGpos1_2(p, subtablePos)` -/
def read12 (b : Bytes) (pos : Nat) : Outcome ((List (Nat × Nat) × List VR) × Cost) := do
  let buf ← readBytes "gpos.go:152#ReadBytes(6)" b (pos + 2) 6
  let covOff ← w16 "gpos.go:156#buf[0],buf[1]" buf 0
  let vf ← w16 "gpos.go:157#buf[2],buf[3]" buf 2
  let n ← w16 "gpos.go:158#buf[4],buf[5]" buf 4
  let c ← mkSlice "gpos.go:159#make([]*GposValueRecord, valueCount)" n Cost.zero.tick
  let r ← vrLoop b vf n (pos + 8) [] c
  let cv ← coverageRead b (pos + covOff)
  let p ← prune "gpos.go:172#valueRecords[:len(cov)]" cv.1 r.1 (cadd r.2 cv.2)
  pure (p.1, p.2.mem 1)

/-! ## GPOS 2.1 -/

/-- gpos.go:320-337: `n` PairValueRecords from position `q` -/
def pairs (b : Bytes) (f1 f2 : Nat) : Nat → Nat → PairSet → Cost → Outcome (PairSet × Cost)
  | 0, _, acc, c => .ok (acc.reverse, c)
  | n+1, q, acc, c => do
    let g ← readU16 "gpos.go:321#ReadUint16" b q
    let r1 ← vrRead b f1 (q + 2) (c.tick 2)
    let r2 ← vrRead b f2 r1.2.1 r1.2.2
    -- gpos.go:333 `adj[glyph.ID(secondGlyph)] = &PairAdjust{…}` (map write; one object)
    pairs b f1 f2 n r2.2.1 ((g, r1.1, r2.1) :: acc) (r2.2.2.mem 1)

/-- gpos.go:310-339: one PairSet per (remaining) offset; an offset may occur many times -/
def pairSets (b : Bytes) (pos f1 f2 : Nat) : List Nat → Nat → List PairSet → Cost →
    Outcome (List PairSet × Cost)
  | [], _, adjust, c => .ok (adjust, c)
  | off :: rest, i, adjust, c => do
    let pvc ← readU16 "gpos.go:315#ReadUint16" b (pos + off)
    let c ← mkSlice "gpos.go:319#make(map[glyph.ID]*PairAdjust, pairValueCount)" pvc (c.tick 2)
    let ps ← pairs b f1 f2 pvc (pos + off + 2) [] c
    let adjust ← setAt "gpos.go:338#adjust[i]" adjust i ps.1
    pairSets b pos f1 f2 rest (i + 1) adjust ps.2

/-- gpos.go:342-346: `for first, i := range cov { for second, a := range adjust[i] { res[…] = a } }` -/
def mergeLoop (adjust : List PairSet) : List (Nat × Nat) → Cost → Outcome Cost
  | [], c => .ok c
  | p :: rest, c => do
    let s ← idx "gpos.go:343#adjust[i]" adjust p.2
    mergeLoop adjust rest ((c.tick (1 + s.length)).mem s.length)

/-- `readGpos2_1(p, subtablePos)` -/
def read21 (b : Bytes) (pos : Nat) : Outcome ((List (Nat × Nat) × List PairSet) × Cost) := do
  let buf ← readBytes "gpos.go:281#ReadBytes(8)" b (pos + 2) 8
  let covOff ← w16 "gpos.go:285#buf[0],buf[1]" buf 0
  let f1 ← w16 "gpos.go:286#buf[2],buf[3]" buf 2
  let f2 ← w16 "gpos.go:287#buf[4],buf[5]" buf 4
  let n ← w16 "gpos.go:288#buf[6],buf[7]" buf 6
  let c ← mkSlice "gpos.go:290#make([]uint16, pairSetCount)" n Cost.zero.tick
  let o ← readWords "gpos.go:292#ReadUint16" b n (pos + 10) [] c
  let cv ← coverageRead b (pos + covOff)
  let p ← prune "gpos.go:304#pairSetOffsets[:len(cov)]" cv.1 o.1 (cadd o.2 cv.2)
  let c ← mkSlice "gpos.go:309#make([]map[glyph.ID]*PairAdjust, len(pairSetOffsets))" p.1.2.length p.2
  let a ← pairSets b pos f1 f2 p.1.2 0 (List.replicate p.1.2.length []) c
  let c ← mergeLoop a.1 p.1.1 (a.2.mem 1)            -- gpos.go:341 `res := Gpos2_1{}`
  pure ((p.1.1, a.1), c)

/-! ## GPOS 2.2 -/

/-- gpos.go:524-537 -/
def recLoop (b : Bytes) (f1 f2 : Nat) : Nat → Nat → Nat → List (VR × VR) → Cost →
    Outcome (List (VR × VR) × Cost)
  | 0, _, _, recs, c => .ok (recs, c)
  | fuel+1, i, q, recs, c => do
    let r1 ← vrRead b f1 q c.tick
    let r2 ← vrRead b f2 r1.2.1 r1.2.2
    let recs ← setAt "gpos.go:533#records[i]" recs i (r1.1, r2.1)
    recLoop b f1 f2 fuel (i + 1) r2.2.1 recs (r2.2.2.mem 1)

/-- gpos.go:554-556 -/
def rowLoop (c2 : Nat) (records : List (VR × VR)) : Nat → Nat → List (List (VR × VR)) → Cost →
    Outcome (List (List (VR × VR)) × Cost)
  | 0, _, adj, c => .ok (adj, c)
  | fuel+1, i, adj, c => do
    let row ← slice "gpos.go:555#records[i*int(class2Count):(i+1)*int(class2Count)]" records
      (i * c2) ((i + 1) * c2)
    let adj ← setAt "gpos.go:555#adjust[i]" adj i row
    rowLoop c2 records fuel (i + 1) adj c.tick

/-- `readGpos2_2(p, subtablePos)`: coverage set, the two class tables, the rows -/
def read22 (b : Bytes) (pos : Nat) :
    Outcome ((List Nat × List (Nat × Nat) × List (Nat × Nat) × List (List (VR × VR))) × Cost) := do
  let buf ← readBytes "gpos.go:504#ReadBytes(14)" b (pos + 2) 14
  let covOff ← w16 "gpos.go:508#buf[0],buf[1]" buf 0
  let f1 ← w16 "gpos.go:509#buf[2],buf[3]" buf 2
  let f2 ← w16 "gpos.go:510#buf[4],buf[5]" buf 4
  let cd1Off ← w16 "gpos.go:511#buf[6],buf[7]" buf 6
  let cd2Off ← w16 "gpos.go:512#buf[8],buf[9]" buf 8
  let c1 ← w16 "gpos.go:513#buf[10],buf[11]" buf 10
  let c2 ← w16 "gpos.go:514#buf[12],buf[13]" buf 12
  -- gpos.go:516-522 `numRecords := int(class1Count) * int(class2Count); if numRecords >= 65536 …`
  if c1 * c2 ≥ 65536 then .err "invalid" else
  let c ← mkSlice "gpos.go:523#make([]*PairAdjust, numRecords)" (c1 * c2) Cost.zero.tick
  let r ← recLoop b f1 f2 (c1 * c2) 0 (pos + 16) (List.replicate (c1 * c2) (none, none)) c
  let cv ← readSet b (pos + covOff)
  let d1 ← classdefRead b (pos + cd1Off)
  let d2 ← classdefRead b (pos + cd2Off)
  let c ← mkSlice "gpos.go:553#make([][]*PairAdjust, class1Count)" c1
    (cadd (cadd (cadd r.2 cv.2) d1.2) d2.2)
  let a ← rowLoop c2 r.1 c1 0 (List.replicate c1 []) c
  pure ((cv.1, d1.1, d2.1, a.1), a.2.mem 1)

/-! ## GPOS 3.1 -/

/-- `if off != 0 { x, err = anchor.Read(p, subtablePos+int64(off)) }` (zero anchor otherwise) -/
def anchorOpt (b : Bytes) (pos off : Nat) (c : Cost) : Outcome (Anchor × Cost) :=
  if off ≠ 0 then do
    let a ← anchorRead b (pos + off)
    pure (a.1, cadd c a.2)
  else .ok ((0, 0), c)

/-- gpos.go:714-727 -/
def eeLoop (b : Bytes) (pos : Nat) (offsets : List Nat) : Nat → Nat → List (Anchor × Anchor) →
    Cost → Outcome (List (Anchor × Anchor) × Cost)
  | 0, _, acc, c => .ok (acc.reverse, c)
  | fuel+1, i, acc, c => do
    let o1 ← idx "gpos.go:715#offsets[2*i]" offsets (2 * i)
    let e ← anchorOpt b pos o1 c.tick
    let o2 ← idx "gpos.go:721#offsets[2*i+1]" offsets (2 * i + 1)
    let x ← anchorOpt b pos o2 e.2
    eeLoop b pos offsets fuel (i + 1) ((e.1, x.1) :: acc) x.2

/-- `readGpos3_1(p, subtablePos)` -/
def read31 (b : Bytes) (pos : Nat) :
    Outcome ((List (Nat × Nat) × List (Anchor × Anchor)) × Cost) := do
  let buf ← readBytes "gpos.go:698#ReadBytes(4)" b (pos + 2) 4
  let covOff ← w16 "gpos.go:702#buf[0],buf[1]" buf 0
  let n ← w16 "gpos.go:703#buf[2],buf[3]" buf 2
  let c ← mkSlice "gpos.go:705#make([]uint16, 2*entryExitCount)" (2 * n) Cost.zero.tick
  let o ← readWords "gpos.go:707#ReadUint16" b (2 * n) (pos + 6) [] c
  let c ← mkSlice "gpos.go:713#make([]EntryExitRecord, entryExitCount)" n o.2
  let r ← eeLoop b pos o.1 n 0 [] c
  let cv ← coverageRead b (pos + covOff)
  let p ← prune "gpos.go:735#records[:len(cov)]" cv.1 r.1 (cadd r.2 cv.2)
  pure (p.1, p.2.mem 1)

/-! ## GPOS 5.1 (opentype/gtab/gpos5.go:36-149, as repaired in /repo 33f30d8) -/

/-- gpos5.go:127-135: one component record, `fuel` mark classes from class `k` on -/
def rowLoop51 (b : Bytes) (lap : Nat) (ao : List Nat) : Nat → Nat → List Anchor → Cost →
    Outcome (List Anchor × Cost)
  | 0, _, acc, c => .ok (acc.reverse, c)
  | fuel+1, k, acc, c => do
    let o ← idx "gpos5.go:128#anchorOffsets[k]" ao k
    let a ← anchorOpt b lap o c.tick
    rowLoop51 b lap ao fuel (k + 1) (a.1 :: acc) a.2

/-- gpos5.go:125-138: the components of one ligature; `ao` = the anchor offsets not yet consumed -/
def compLoop (b : Bytes) (lap mcc : Nat) : Nat → List Nat → List (List Anchor) → Cost →
    Outcome (List (List Anchor) × Cost)
  | 0, _, acc, c => .ok (acc.reverse, c)
  | fuel+1, ao, acc, c => do
    let c ← mkSlice "gpos5.go:126#make([]anchor.Table, markClassCount)" mcc c.tick
    let row ← rowLoop51 b lap ao mcc 0 [] c
    let ao ← slice "gpos5.go:137#anchorOffsets[markClassCount:]" ao mcc ao.length
    compLoop b lap mcc fuel ao (row.1 :: acc) row.2

/-- gpos5.go:93-141: one LigatureAttach table per ligature; the offsets may all point at ONE table -/
def ligLoop (b : Bytes) (lap0 mcc : Nat) (offsets : List Nat) : Nat → Nat →
    List (List (List Anchor)) → Cost → Outcome (List (List (List Anchor)) × Cost)
  | 0, _, acc, c => .ok (acc.reverse, c)
  | fuel+1, i, acc, c => do
    let off ← idx "gpos5.go:94#offsets[i]" offsets i
    let cc ← readU16 "gpos5.go:100#ReadUint16" b (lap0 + off)
    -- gpos5.go:104-105 `numOffsets := uint(componentCount) * uint(markClassCount)`, cap 32764
    if cc * mcc > 32764 then .err "invalid" else
    let c ← mkSlice "gpos5.go:116#make([]uint16, numOffsets)" (cc * mcc) (c.tick 2)
    let ao ← readWords "gpos5.go:118#ReadUint16" b (cc * mcc) (lap0 + off + 2) [] c
    let c ← mkSlice "gpos5.go:124#make([][]anchor.Table, componentCount)" cc ao.2
    let la ← compLoop b (lap0 + off) mcc cc ao.1 [] c
    ligLoop b lap0 mcc offsets fuel (i + 1) (la.1 :: acc) la.2

/-- what `readGpos5_1` has when the ligature loop starts -/
structure Top51 where
  markCov : List (Nat × Nat)
  ligCov : List (Nat × Nat)
  marks : List (Nat × Anchor)
  lap0 : Nat
  mcc : Nat
  offsets : List Nat
  cost : Cost

/-- gpos5.go:37-92 -/
def top51 (b : Bytes) (pos : Nat) : Outcome Top51 := do
  let buf ← readBytes "gpos5.go:37#ReadBytes(10)" b (pos + 2) 10
  let mco ← w16 "gpos5.go:41#buf[0],buf[1]" buf 0
  let lco ← w16 "gpos5.go:42#buf[2],buf[3]" buf 2
  let mcc ← w16 "gpos5.go:43#buf[4],buf[5]" buf 4
  let mao ← w16 "gpos5.go:44#buf[6],buf[7]" buf 6
  let lao ← w16 "gpos5.go:45#buf[8],buf[9]" buf 8
  let mcv ← coverageRead b (pos + mco)
  let lcv ← coverageRead b (pos + lco)
  let ma ← markarrayRead b (pos + mao) mcv.1.length
  let c := cadd (cadd (cadd Cost.zero.tick mcv.2) lcv.2) ma.2
  -- gpos5.go:60-64
  let pm ← (if mcv.1.length > ma.1.length then
      (.ok ((mcv.1.filter (fun p => p.2 < ma.1.length), ma.1), c.tick mcv.1.length) :
        Outcome ((List (Nat × Nat) × List (Nat × Anchor)) × Cost))
    else do
      let m ← slice "gpos5.go:63#markArray[:len(markCov)]" ma.1 0 mcv.1.length
      pure ((mcv.1, m), c))
  let lc0 ← readU16 "gpos5.go:73#ReadUint16" b (pos + lao)
  -- gpos5.go:77-81 `if int(ligCount) > len(ligCov) { ligCount = uint16(len(ligCov)) } else { ligCov.Prune(int(ligCount)) }`
  let lc := if lc0 > lcv.1.length then lcv.1.length % 65536 else lc0
  let lcov := if lc0 > lcv.1.length then lcv.1 else lcv.1.filter (fun p => p.2 < lc0)
  let c := if lc0 > lcv.1.length then pm.2.tick else pm.2.tick (1 + lcv.1.length)
  let c ← mkSlice "gpos5.go:84#make([]uint16, ligCount)" lc c
  let o ← readWords "gpos5.go:86#ReadUint16" b lc (pos + lao + 2) [] c
  let c ← mkSlice "gpos5.go:92#make([][][]anchor.Table, ligCount)" lc o.2
  pure ⟨pm.1.1, lcov, pm.1.2, pos + lao, mcc, o.1, c⟩

/-- `readGpos5_1(p, subtablePos)` (repaired): mark coverage, ligature coverage, mark array,
ligature array indexed by (ligature, component, mark class) -/
def read51 (b : Bytes) (pos : Nat) : Outcome ((List (Nat × Nat) × List (Nat × Nat) ×
    List (Nat × Anchor) × List (List (List Anchor))) × Cost) := do
  let t ← top51 b pos
  let la ← ligLoop b t.lap0 t.mcc t.offsets t.offsets.length 0 [] t.cost
  pure ((t.markCov, t.ligCov, t.marks, la.1), la.2.mem 1)

/-! ### the code before the repair (kept only to state the finding)

Inside the component loop the old code indexed the per-ligature `offsets` of the LigatureArray
(length ligCount) with the mark class (gpos5.go:109 `offsets[j]`) and stored each row under the
ligature index (gpos5.go:117 `ligAttach[i] = row`, `ligAttach` of length componentCount). -/

def rowLoopOld (b : Bytes) (lap : Nat) (offsets : List Nat) : Nat → Nat → List Anchor → Cost →
    Outcome (List Anchor × Cost)
  | 0, _, acc, c => .ok (acc.reverse, c)
  | fuel+1, j, acc, c => do
    let o ← idx "gpos5.go:109#offsets[j]" offsets j
    let a ← anchorOpt b lap o c.tick
    rowLoopOld b lap offsets fuel (j + 1) (a.1 :: acc) a.2

def compLoopOld (b : Bytes) (lap mcc i : Nat) (offsets : List Nat) : Nat → List (List Anchor) →
    Cost → Outcome (List (List Anchor) × Cost)
  | 0, la, c => .ok (la, c)
  | fuel+1, la, c => do
    let c ← mkSlice "gpos5.go:107#make([]anchor.Table, markClassCount)" mcc c.tick
    let row ← rowLoopOld b lap offsets mcc 0 [] c
    let la ← setAt "gpos5.go:117#ligAttach[i]" la i row.1
    compLoopOld b lap mcc i offsets fuel la row.2

def ligLoopOld (b : Bytes) (lap0 mcc : Nat) (offsets : List Nat) : Nat → Nat →
    List (List (List Anchor)) → Cost → Outcome (List (List (List Anchor)) × Cost)
  | 0, _, acc, c => .ok (acc.reverse, c)
  | fuel+1, i, acc, c => do
    let off ← idx "gpos5.go:94#offsets[i]" offsets i
    let cc ← readU16 "gpos5.go:100#ReadUint16" b (lap0 + off)
    let c ← mkSlice "gpos5.go:104#make([][]anchor.Table, componentCount)" cc (c.tick 2)
    let la ← compLoopOld b (lap0 + off) mcc i offsets cc (List.replicate cc []) c
    ligLoopOld b lap0 mcc offsets fuel (i + 1) (la.1 :: acc) la.2

/-- `readGpos5_1` BEFORE the repair of /repo 33f30d8 -/
def read51Old (b : Bytes) (pos : Nat) : Outcome ((List (Nat × Nat) × List (Nat × Nat) ×
    List (Nat × Anchor) × List (List (List Anchor))) × Cost) := do
  let t ← top51 b pos
  let la ← ligLoopOld b t.lap0 t.mcc t.offsets t.offsets.length 0 [] t.cost
  pure ((t.markCov, t.ligCov, t.marks, la.1), la.2.mem 1)

/-! ## readGposSubtable -/

inductive Sub where
  | s11 (cov : List (Nat × Nat)) (vr : VR)
  | s12 (cov : List (Nat × Nat)) (vrs : List VR)
  | s21 (cov : List (Nat × Nat)) (sets : List PairSet)
  | s22 (cov : List Nat) (cd1 cd2 : List (Nat × Nat)) (rows : List (List (VR × VR)))
  | s31 (cov : List (Nat × Nat)) (recs : List (Anchor × Anchor))
  | s51 (markCov ligCov : List (Nat × Nat)) (marks : List (Nat × Anchor))
      (ligs : List (List (List Anchor)))

/-- the keys of `gposReaders` (gpos.go:57-73) whose readers are not modelled here -/
def otherKeys : List Nat := [41, 61, 71, 72, 73, 81, 82, 83, 91]

/-- the dispatch on the key, shared by the repaired and the old dispatcher -/
def dispatchKey (b : Bytes) (pos key : Nat) : Outcome (Sub × Cost) :=
  if key = 11 then do
    let r ← read11 b pos
    pure (.s11 r.1.1 r.1.2, r.2.tick)
  else if key = 12 then do
    let r ← read12 b pos
    pure (.s12 r.1.1 r.1.2, r.2.tick)
  else if key = 21 then do
    let r ← read21 b pos
    pure (.s21 r.1.1 r.1.2, r.2.tick)
  else if key = 22 then do
    let r ← read22 b pos
    pure (.s22 r.1.1 r.1.2.1 r.1.2.2.1 r.1.2.2.2, r.2.tick)
  else if key = 31 then do
    let r ← read31 b pos
    pure (.s31 r.1.1 r.1.2, r.2.tick)
  else if key = 51 then do
    let r ← read51 b pos
    pure (.s51 r.1.1 r.1.2.1 r.1.2.2.1 r.1.2.2.2, r.2.tick)
  else if otherKeys.contains key then .err "other"
  else .err "invalid"

/-- `readGposSubtable(p, pos, meta)` as repaired in /repo 8867078 (gpos.go:45-46): the key
`10*meta.LookupType+format` is still computed in uint16, but lookup types and formats above 9 are
rejected, so the key cannot wrap or collide (`meta.LookupType` is a uint16: `tp % 65536`).  A key of
a reader outside this group (lookup types 4–9) yields `err "other"`. -/
def readSubtable (b : Bytes) (pos tp : Nat) : Outcome (Sub × Cost) := do
  let format ← readU16 "gpos.go:40#ReadUint16" b pos
  -- gpos.go:45 `gposReaders[10*meta.LookupType+format]` (map read: cannot panic)
  let key := (10 * (tp % 65536) + format) % 65536
  -- gpos.go:46 `if !ok || meta.LookupType > 9 || format > 9 { return invalid }`
  if tp % 65536 > 9 ∨ format > 9 then .err "invalid"
  else dispatchKey b pos key

/-- `readGposSubtable` BEFORE the repair (kept only to state the finding): no range check, the
uint16 key wraps and collides — lookup type 3 with format 65517 selected `readGpos1_1`, lookup
type 1 with format 11 `readGpos2_1` -/
def readSubtableOld (b : Bytes) (pos tp : Nat) : Outcome (Sub × Cost) := do
  let format ← readU16 "gpos.go:40#ReadUint16" b pos
  dispatchKey b pos ((10 * (tp % 65536) + format) % 65536)

end SfntV.Total.GposSub
