/-
C12 — models of the metrics/header table codecs of go-sfnt:
  hmtx/hmtx.go (hhea + hmtx, derived hhea fields, numberOfHMetrics compression),
  head/head.go + head/time.go, maxp/maxp.go, post/post.go (header part).
The models mirror the Go control flow (including `int16` wrap-around and panics).
Floats never appear: the caret slope enters `encode` as the integer pair `(rise, run)` that
`fromAngle` produced; `fromAngle ∘ toAngle` itself is modelled over exact rationals in
`Model/Caret.lean`.  Core-only (linked into the driver).
-/
import SfntV.Prelude.Bytes
import SfntV.Prelude.Outcome
import SfntV.Generated.Metrics

namespace SfntV.Metrics

/-! ## 16/32/64-bit fields -/

/-- Go `int16(x)` of an `int` value: two's-complement wrap -/
def wrap16 (x : Int) : Int := (x + 32768) % 65536 - 32768
/-- Go `int64` wrap -/
def wrap64 (x : Int) : Int := (x + 9223372036854775808) % 18446744073709551616 - 9223372036854775808

/-- big-endian bytes of an `int16` (or of any Int, taken mod 2^16) -/
def i16enc (x : Int) : Bytes := be16 (x % 65536).toNat

def i16ofNat (n : Nat) : Int := if n < 32768 then (n : Int) else (n : Int) - 65536

def rdU8 (b : Bytes) (off : Nat) : Nat := (b.getD off 0).toNat
def rdU16 (b : Bytes) (off : Nat) : Nat := rdU8 b off * 256 + rdU8 b (off + 1)
def rdI16 (b : Bytes) (off : Nat) : Int := i16ofNat (rdU16 b off)
def rdU32 (b : Bytes) (off : Nat) : Nat := rdU16 b off * 65536 + rdU16 b (off + 2)
def rdU64 (b : Bytes) (off : Nat) : Nat := rdU32 b off * 4294967296 + rdU32 b (off + 4)
def rdI64 (b : Bytes) (off : Nat) : Int :=
  let n := rdU64 b off
  if n < 9223372036854775808 then (n : Int) else (n : Int) - 18446744073709551616

def be64 (n : Nat) : Bytes := be32 (n / 4294967296) ++ be32 n
def i64enc (x : Int) : Bytes := be64 (x % 18446744073709551616).toNat

def b2n (b : Bool) : Nat := if b then 1 else 0
def bit (n k : Nat) : Bool := n / 2 ^ k % 2 == 1

/-! ## hmtx / hhea -/

structure Rect where
  llx : Int
  lly : Int
  urx : Int
  ury : Int
deriving DecidableEq, Repr, Inhabited

/-- `funit.Rect16.IsZero` -/
def Rect.isZero (r : Rect) : Bool := r.llx == 0 && r.lly == 0 && r.urx == 0 && r.ury == 0

/-- `hmtx.Info` without the float caret angle. `none` = Go nil slice. -/
structure Info where
  widths : Option (List Int)
  extents : Option (List Rect)
  lsb : Option (List Int)
  ascent : Int
  descent : Int
  lineGap : Int
  caretOffset : Int
deriving Repr

/-- hmtx.go:163-169, `AdvanceWidthMax` (starts at 0, signed comparison) -/
def advMax (ws : List Int) : Int := ws.foldl (fun m w => if w > m then w else m) 0

/-- hmtx.go:178-187, `MinLeftSideBearing`.  `es = none`: `GlyphExtents == nil`.  The index
`info.GlyphExtents[i]` panics when there are more bearings than extents. -/
def minLsbLoop : List Int → Option (List Rect) → Bool → Int → Outcome Int
  | [], _, _, cur => .ok cur
  | l :: ls, none, first, cur => minLsbLoop ls none false (if first || l < cur then l else cur)
  | _ :: _, some [], _, _ => .panic "hmtx.Encode:GlyphExtents[i]"
  | l :: ls, some (e :: es), first, cur =>
    if e.isZero then minLsbLoop ls (some es) first cur
    else minLsbLoop ls (some es) false (if first || l < cur then l else cur)

/-- Go `funit.Int16(min(max(x, math.MinInt16), math.MaxInt16))` -/
def clamp16 (x : Int) : Int := if x < -32768 then -32768 else if x > 32767 then 32767 else x

/-- hmtx.go:189-207, `MinRightSideBearing` (after repair: `rsb := int(w) - int(ext.URx)` is
computed and minimised in `int`; the result is clamped to int16 by the caller) -/
def minRsbLoop : List Int → List Rect → Bool → Int → Int
  | w :: ws, e :: es, first, cur =>
    if e.isZero then minRsbLoop ws es first cur
    else
      let rsb := w - e.urx
      minRsbLoop ws es false (if first || rsb < cur then rsb else cur)
  | _, _, _, cur => cur

/-- hmtx.go:206-217, `XMaxExtent` -/
def xMaxLoop : List Rect → Bool → Int → Int
  | e :: es, first, cur =>
    if e.isZero then xMaxLoop es first cur
    else xMaxLoop es false (if first || e.urx > cur then e.urx else cur)
  | [], _, cur => cur

/-- on the reversed width list: hmtx.go:231-234 (`for numLong > 1 && w[numLong-1] == w[numLong-2]`) -/
def dropRun : List Int → List Int
  | a :: b :: rest => if a = b then dropRun (b :: rest) else a :: b :: rest
  | l => l

/-- `numberOfHMetrics` chosen by `Encode` -/
def numLong (ws : List Int) : Nat := (dropRun ws.reverse).length

/-- hmtx.go:240-252: the hmtx body; `k` = long records still to write -/
def encHm : Nat → List Int → List Int → Bytes
  | k, w :: ws, l :: ls => (if k > 0 then i16enc w else []) ++ i16enc l ++ encHm (k - 1) ws ls
  | _, _, _ => []

structure Hhea where
  ascent : Int
  descent : Int
  lineGap : Int
  advanceWidthMax : Int
  minLsb : Int
  minRsb : Int
  xMaxExtent : Int
  rise : Int
  run : Int
  caretOffset : Int
  numLong : Nat
deriving Repr, DecidableEq

/-- `binary.Write(buf, binary.BigEndian, hhea)` for `binaryHhea` (36 bytes) -/
def Hhea.bytes (h : Hhea) : Bytes :=
  be32 0x00010000 ++ i16enc h.ascent ++ i16enc h.descent ++ i16enc h.lineGap ++
  i16enc h.advanceWidthMax ++ i16enc h.minLsb ++ i16enc h.minRsb ++ i16enc h.xMaxExtent ++
  i16enc h.rise ++ i16enc h.run ++ i16enc h.caretOffset ++
  [0, 0, 0, 0, 0, 0, 0, 0] ++ [0, 0] ++ be16 h.numLong

/-- The derived part of `(*Info).Encode` (everything up to the two `binary.Write`s).
`rise`, `run` = result of `fromAngle(info.CaretAngle)`. -/
def derive (info : Info) (rise run : Int) : Outcome (Hhea × Option (List Int)) :=
  let adv := match info.widths with
    | some ws => advMax ws
    | none => 0
  let lsbs : Option (List Int) := match info.lsb, info.extents with
    | some l, _ => some l
    | none, some es => some (es.map (·.llx))
    | none, none => none
  match minLsbLoop (lsbs.getD []) info.extents true 0 with
  | .panic s => .panic s
  | .err e => .err e
  | .ok minL =>
    match (match info.extents, info.widths with
      | some es, some ws =>
        if es.length ≠ ws.length then Outcome.panic "hmtx.Encode:len(GlyphExtents)!=len(Widths)"
        else .ok (clamp16 (minRsbLoop ws es true 0))
      | _, _ => .ok 0) with
    | .panic s => .panic s
    | .err e => .err e
    | .ok minR =>
      let xm := match info.extents with
        | some es => xMaxLoop es true 0
        | none => 0
      .ok (⟨info.ascent, info.descent, info.lineGap, adv, minL, minR, xm, rise, run,
            info.caretOffset, 0⟩, lsbs)

/-- `(*Info).Encode`: hhea bytes and hmtx bytes (`none` = nil) -/
def encode (info : Info) (rise run : Int) : Outcome (Bytes × Option Bytes) :=
  match derive info rise run with
  | .panic s => .panic s
  | .err e => .err e
  | .ok (h, lsbs) =>
    match info.widths, lsbs with
    | some ws, some ls =>
      if ls.length ≠ ws.length then .panic "hmtx.Encode:len(lsbs)!=len(Widths)"
      else
        let k := numLong ws
        .ok (({ h with numLong := k % 65536 }).bytes, some (encHm k ws ls))
    | _, _ => .ok (h.bytes, none)

/-- hmtx.go:116-143: the decoding loop.  `k` = long records still expected, `prev` = last
width read.  `none` = "hmtx too short". -/
def decHm : Nat → Int → Bytes → Option (List Int × List Int)
  | k, _, [] => if k > 0 then none else some ([], [])
  | 0, prev, a :: b :: rest =>
    match decHm 0 prev rest with
    | some (ws, ls) => some (prev :: ws, i16ofNat (a.toNat * 256 + b.toNat) :: ls)
    | none => none
  | k + 1, _, a :: b :: c :: d :: rest =>
    let w := i16ofNat (a.toNat * 256 + b.toNat)
    match decHm k w rest with
    | some (ws, ls) => some (w :: ws, i16ofNat (c.toNat * 256 + d.toNat) :: ls)
    | none => none
  | _, _, _ => none

structure Decoded where
  ascent : Int
  descent : Int
  lineGap : Int
  rise : Int
  run : Int
  caretOffset : Int
  widths : List Int
  lsb : List Int
deriving Repr, DecidableEq

/-- `hmtx.Decode`.  The caret angle is represented by the slope pair read from the table
(`toAngle` is applied to it in Go).  Empty `widths` = nil slice. -/
def decode (hhea : Bytes) (hmtx : Option Bytes) : Outcome Decoded :=
  if hhea.length < Gen.metricsHheaLength then .err "short"
  else if rdU32 hhea 0 ≠ 0x00010000 then .err "version"
  else if rdI16 hhea 32 ≠ 0 then .err "format"
  else
    let d : Decoded := ⟨rdI16 hhea 4, rdI16 hhea 6, rdI16 hhea 8, rdI16 hhea 18, rdI16 hhea 20,
      rdI16 hhea 22, [], []⟩
    match hmtx with
    | none => .ok d
    | some data =>
      match decHm (rdU16 hhea 34) 0 data with
      | none => .err "hmtx-short"
      | some (ws, ls) => .ok { d with widths := ws, lsb := ls }

/-- the derived fields as stored in an hhea table (read by offset, OpenType "hhea") -/
def hheaDerived (hhea : Bytes) : Int × Int × Int × Int × Nat :=
  (rdI16 hhea 10, rdI16 hhea 12, rdI16 hhea 14, rdI16 hhea 16, rdU16 hhea 34)

/-! ## head -/

/-- a Go `time.Time` as far as `head` looks at it: Unix seconds and nanoseconds -/
structure GoTime where
  sec : Int
  nsec : Nat
deriving Repr, DecidableEq

/-- Unix seconds of Go's zero `time.Time` (January 1, year 1, 00:00:00 UTC) -/
def goZeroSec : Int := -62135596800

def GoTime.isZero (t : GoTime) : Bool := t.sec == goZeroSec && t.nsec == 0
def GoTime.zero : GoTime := ⟨goZeroSec, 0⟩

/-- head/time.go `encodeTime` (int64 arithmetic) -/
def encodeTime (t : GoTime) : Int :=
  if t.isZero then 0 else wrap64 (t.sec - Gen.metricsZeroTime)

/-- head/time.go `decodeTime` -/
def decodeTime (x : Int) : GoTime :=
  if x = 0 then GoTime.zero else ⟨wrap64 (Gen.metricsZeroTime + x), 0⟩

structure Head where
  fontRevision : Nat
  hasYBaseAt0 : Bool
  hasXBaseAt0 : Bool
  isNonlinear : Bool
  unitsPerEm : Nat
  created : GoTime
  modified : GoTime
  bbox : Rect
  isBold : Bool
  isItalic : Bool
  hasShadow : Bool
  isCondensed : Bool
  isExtended : Bool
  lowestRecPPEM : Nat
  locaFormat : Int
deriving Repr, DecidableEq

def headFlags (h : Head) : Nat :=
  b2n h.hasYBaseAt0 + 2 * b2n h.hasXBaseAt0 + (if h.isNonlinear then 4 + 16 else 0) +
  8 + 2048 + 4096 + 8192

def headMacStyle (h : Head) : Nat :=
  b2n h.isBold + 2 * b2n h.isItalic + 16 * b2n h.hasShadow + 32 * b2n h.isCondensed +
  64 * b2n h.isExtended

/-- `(*head.Info).Encode` -/
def encodeHead (h : Head) : Bytes :=
  be32 0x00010000 ++ be32 h.fontRevision ++ be32 0 ++ be32 0x5F0F3CF5 ++
  be16 (headFlags h) ++ be16 h.unitsPerEm ++
  i64enc (encodeTime h.created) ++ i64enc (encodeTime h.modified) ++
  i16enc h.bbox.llx ++ i16enc h.bbox.lly ++ i16enc h.bbox.urx ++ i16enc h.bbox.ury ++
  be16 (headMacStyle h) ++ be16 h.lowestRecPPEM ++ be16 2 ++ i16enc h.locaFormat ++ be16 0

/-- `head.Read` -/
def decodeHead (b : Bytes) : Outcome Head :=
  if b.length < Gen.metricsHeadLength then .err "short"
  else if rdU32 b 0 ≠ 0x00010000 then .err "unsupported"
  else if rdU32 b 12 ≠ 0x5F0F3CF5 then .err "invalid"
  else
    let flags := rdU16 b 16
    let ms := rdU16 b 44
    .ok {
      fontRevision := rdU32 b 4
      hasYBaseAt0 := bit flags 0
      hasXBaseAt0 := bit flags 1
      isNonlinear := bit flags 2 || bit flags 4
      unitsPerEm := rdU16 b 18
      created := decodeTime (rdI64 b 20)
      modified := decodeTime (rdI64 b 28)
      bbox := ⟨rdI16 b 36, rdI16 b 38, rdI16 b 40, rdI16 b 42⟩
      isBold := bit ms 0
      isItalic := bit ms 1
      hasShadow := bit ms 4
      isCondensed := bit ms 5
      isExtended := bit ms 6
      lowestRecPPEM := rdU16 b 46
      locaFormat := rdI16 b 50 }

/-! ## maxp -/

structure Maxp where
  numGlyphs : Int
  ttf : Option (List Nat)   -- the 13 uint16 maxima in table order; `none` = CFF (version 0.5)
deriving Repr, DecidableEq

/-- `(*maxp.Info).Encode` -/
def encodeMaxp (m : Maxp) : Outcome Bytes :=
  if m.numGlyphs < 1 ∨ m.numGlyphs ≥ 65536 then .panic "maxp.Encode:numGlyphs out of range"
  else match m.ttf with
    | none => .ok (be32 0x00005000 ++ be16 m.numGlyphs.toNat)
    | some vs => .ok (be32 0x00010000 ++ be16 m.numGlyphs.toNat ++ (vs.take 13).flatMap be16)

/-- `maxp.Read` -/
def decodeMaxp (b : Bytes) : Outcome Maxp :=
  if b.length < 6 then .err "short"
  else
    let version := rdU32 b 0
    if version ≠ 0x00005000 ∧ version ≠ 0x00010000 then .err "version"
    else
      let n := rdU16 b 4
      if n = 0 then .err "zero"
      else if version = 0x00005000 then .ok ⟨(n : Int), none⟩
      else if b.length < 32 then .err "short"
      else .ok ⟨(n : Int), some ((List.range 13).map fun i => rdU16 b (6 + 2 * i))⟩

/-! ## post (header part) -/

structure PostHdr where
  italicAngle : Int   -- 16.16 fixed point
  underlinePosition : Int
  underlineThickness : Int
  isFixedPitch : Bool
deriving Repr, DecidableEq

/-- `(*post.Info).Encode` with `Names == nil` (version 3.0): the 32-byte header.
`italicAngle` is `int32(math.Round(info.ItalicAngle * 65536))`, computed outside. -/
def encodePost (version : Nat) (p : PostHdr) : Bytes :=
  be32 version ++ be32 (p.italicAngle % 4294967296).toNat ++
  i16enc p.underlinePosition ++ i16enc p.underlineThickness ++
  be32 (b2n p.isFixedPitch) ++ be32 0 ++ be32 0 ++ be32 0 ++ be32 0

def i32ofNat (n : Nat) : Int := if n < 2147483648 then (n : Int) else (n : Int) - 4294967296

/-- `post.Read` for versions 1.0, 3.0, 4.0 (2.0 carries glyph names: C14); returns version too -/
def decodePost (b : Bytes) : Outcome (Nat × PostHdr) :=
  if b.length < 32 then .err "short"
  else
    let version := rdU32 b 0
    let hdr : PostHdr := ⟨i32ofNat (rdU32 b 4), rdI16 b 8, rdI16 b 10, rdU32 b 12 ≠ 0⟩
    if version = 0x00010000 ∨ version = 0x00030000 ∨ version = 0x00040000 then .ok (version, hdr)
    else if version = 0x00020000 then .err "names-not-modelled"
    else .err "unsupported"

end SfntV.Metrics
