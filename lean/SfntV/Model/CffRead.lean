/-
Model of `cff.Read` (cff/read.go) with `readPrivate`, `getFontMatrix`, the `get…` accessors of
cffDict (cff/dict.go) and the predefined charsets / encodings.  Property C13.  Core-only.

Charstrings stay opaque blobs (their interpretation is property C05); the only thing `Read`
takes from them here is the advance width of the trivial programs `[number] endchar`.
Strings are byte strings carried in Lean `String`s by the Latin-1 bijection (byte ↔ character
of the same code), so that arbitrary bytes of a String INDEX are represented faithfully; for
the ASCII standard strings this is the identity.
-/
import SfntV.Model.CffIndex
import SfntV.Model.CffDict
import SfntV.Model.CffCharset
import SfntV.Model.CffFdselect
import SfntV.Model.CffEncoding
import SfntV.Model.CffStrings

namespace SfntV.Cff
open SfntV

/-- the regenerated tables `Read` depends on -/
structure Tables where
  std : Array String
  isoAdobe : List String
  expert : List String
  expertSubset : List String
  expertEnc : List (String × Nat)
  standardEncRev : List (String × Nat)

def blobToStr (b : Bytes) : String := String.ofList (b.map fun x => Char.ofNat x.toNat)
def strToBlob (s : String) : Bytes := s.toList.map fun c => UInt8.ofNat c.toNat

/-! ## exact decimals (`float64` values are never compared across the tie) -/

/-- `± m · 10^e` in normal form -/
abbrev Rl := Bool × Nat × Int

def Rl.ofInt (v : Int) : Rl := normReal (decide (v < 0)) v.natAbs 0
def Rl.zero : Rl := (false, 0, 0)

def Rl.ofOperand : Operand → Option Rl
  | .int v => some (Rl.ofInt v)
  | .real n m e => some (normReal n m e)
  | .str _ => none

/-- signed integer value at scale `10^s` (`s ≤ e`) -/
def Rl.scaled (a : Rl) (s : Int) : Int :=
  let v : Int := (a.2.1 * 10 ^ (a.2.2 - s).toNat : Nat)
  if a.1 then -v else v

def Rl.minExp (a b : Rl) : Int := if a.2.2 ≤ b.2.2 then a.2.2 else b.2.2

def Rl.lt (a b : Rl) : Bool :=
  let s := Rl.minExp a b
  decide (a.scaled s < b.scaled s)

def Rl.ofScaled (v : Int) (s : Int) : Rl := normReal (decide (v < 0)) v.natAbs s

def Rl.add (a b : Rl) : Rl :=
  let s := Rl.minExp a b
  Rl.ofScaled (a.scaled s + b.scaled s) s

/-- `clamp(x, min, max)` -/
def Rl.clamp (x lo hi : Rl) : Rl := if x.lt lo then lo else if hi.lt x then hi else x

/-- `normaliseAngle`: `y := math.Mod(x+180, 360); if y < 0 { y += 360 }; return y - 180`
in exact arithmetic -/
def normaliseAngle (x : Rl) : Rl :=
  let s : Int := if x.2.2 ≤ 0 then x.2.2 else 0
  let unit : Int := (10 ^ (-s).toNat : Nat)
  let v := x.scaled s + 180 * unit
  let y := Int.tmod v (360 * unit)
  let y := if y < 0 then y + 360 * unit else y
  Rl.ofScaled (y - 180 * unit) s

/-! ## accessors of `cffDict` -/

abbrev DictL := List (Nat × List Operand)

def dGet (d : DictL) (op : Nat) : List Operand := ((d.find? (·.1 = op)).map (·.2)).getD []
def dHas (d : DictL) (op : Nat) : Bool := (d.find? (·.1 = op)).isSome

/-- `getInt` -/
def dInt (d : DictL) (op : Nat) (dflt : Int) : Int :=
  match dGet d op with
  | [.int v] => v
  | _ => dflt

/-- `getFloat` -/
def dFloat (d : DictL) (op : Nat) (dflt : Rl) : Rl :=
  match dGet d op with
  | [.int v] => Rl.ofInt v
  | [.real n m e] => normReal n m e
  | _ => dflt

/-- `getString` (without the UTF-8 sanitising `string([]rune(x))`) -/
def dString (d : DictL) (op : Nat) : String :=
  match dGet d op with
  | [.str s] => s
  | _ => ""

/-- `getDeltaF16`: running sums in int16 arithmetic; `nil` if an operand is not an integer -/
def dDelta (d : DictL) (op : Nat) : List Int :=
  let rec go : List Operand → Int → Option (List Int)
    | [], _ => some []
    | .int x :: rest, prev =>
      let v := toI16 ((x + prev) % 65536).toNat
      (go rest v).map (v :: ·)
    | _ :: _, _ => none
  (go (dGet d op) 0).getD []

/-- `getPair` -/
def dPair (d : DictL) (op : Nat) : Option (Int × Int) :=
  match dGet d op with
  | [.int x, .int y] => some (x, y)
  | _ => none

def defaultFM : List Rl := [(false, 1, -3), Rl.zero, Rl.zero, (false, 1, -3), Rl.zero, Rl.zero]
def identityFM : List Rl := [(false, 1, 0), Rl.zero, Rl.zero, (false, 1, 0), Rl.zero, Rl.zero]

/-- `x.(float64)`: only real operands qualify -/
def realOf : Operand → Option Rl
  | .real n m e => some (normReal n m e)
  | _ => none

/-- `getFontMatrix`: six operands, all of them reals (`float64`), else the default -/
def dFontMatrix (d : DictL) (op : Nat) (isCID : Bool) : List Rl :=
  let dflt := if isCID then identityFM else defaultFM
  let xs := dGet d op
  if xs.length ≠ 6 then dflt
  else
    match xs.mapM realOf with
    | some l => l
    | none => dflt

def wrap32 (v : Int) : Int := toI32 (v % 4294967296).toNat

/-- `readIndexAt` -/
def readIndexAt (data : Bytes) (pos : Int) : Outcome (List Bytes) :=
  if pos < 4 then .err "other"
  else match readIndex data pos.toNat with
    | .ok (l, _) => .ok l
    | .err e => .err e
    | .panic s => .panic s

structure PrivOut where
  blueValues : List Int
  otherBlues : List Int
  blueScale : Rl
  blueShift : Int
  blueFuzz : Int
  stdHW : Rl
  stdVW : Rl
  forceBold : Bool
  subrs : List Bytes
  defaultWidth : Rl
  nominalWidth : Rl
deriving Repr

def outErr {α β : Type} : Outcome α → Outcome β
  | .err e => .err e
  | .panic s => .panic s
  | .ok _ => .err "impossible"

/-- `cffDict.readPrivate` -/
def readPrivate (std custom : Array String) (data : Bytes) (d : DictL) : Outcome PrivOut :=
  match dPair d 18 with
  | none => .err "other"
  | some (pdSize, pdOffs) =>
    if pdOffs < 4 ∨ pdSize < 0 then .err "other"
    else if pdOffs + pdSize > data.length then .err "other"   -- "Private DICT extends beyond end of file"
    else match rd data pdOffs.toNat pdSize.toNat with
      | none => .err "eof"
      | some blob =>
        match decodeDict std custom blob with
        | .err e => .err e
        | .panic s => .panic s
        | .ok pd =>
          let subrsOffs := dInt pd 19 0
          let subrs : Outcome (List Bytes) :=
            if subrsOffs > 0 then readIndexAt data (wrap32 (pdOffs + subrsOffs)) else .ok []
          match subrs with
          | .err e => .err e
          | .panic s => .panic s
          | .ok sb =>
            .ok { blueValues := dDelta pd 6, otherBlues := dDelta pd 7,
                  blueScale := Rl.clamp (dFloat pd 3081 (false, 39625, -6)) Rl.zero (false, 1, 0),
                  blueShift := dInt pd 3082 7, blueFuzz := dInt pd 3083 1,
                  stdHW := Rl.clamp (dFloat pd 10 Rl.zero) Rl.zero (false, 1, 4),
                  stdVW := Rl.clamp (dFloat pd 11 Rl.zero) Rl.zero (false, 1, 4),
                  forceBold := dInt pd 3086 0 ≠ 0, subrs := sb,
                  defaultWidth := dFloat pd 20 Rl.zero, nominalWidth := dFloat pd 21 Rl.zero }

/-! ## charstrings: only the trivial programs `[number] endchar` are looked into -/

/-- a Type 2 number (TN5177): value in units of 1/65536, and the rest -/
def t2Num : Bytes → Option (Int × Bytes)
  | b0 :: rest =>
    let v := b0.toNat
    if 32 ≤ v ∧ v ≤ 246 then some (((v : Int) - 139) * 65536, rest)
    else if 247 ≤ v ∧ v ≤ 250 then
      match rest with
      | b1 :: r => some ((((v : Int) - 247) * 256 + b1.toNat + 108) * 65536, r)
      | [] => none
    else if 251 ≤ v ∧ v ≤ 254 then
      match rest with
      | b1 :: r => some ((-((v : Int) - 251) * 256 - b1.toNat - 108) * 65536, r)
      | [] => none
    else if v = 28 then
      match rest with
      | b1 :: b2 :: r => some (toI16 (b1.toNat * 256 + b2.toNat) * 65536, r)
      | _ => none
    else if v = 255 then
      match rest with
      | b1 :: b2 :: b3 :: b4 :: r =>
        some (toI32 (((b1.toNat * 256 + b2.toNat) * 256 + b3.toNat) * 256 + b4.toNat), r)
      | _ => none
    else none
  | [] => none

/-- `none`: not of the trivial shape; `some none`: `endchar` alone (width = defaultWidthX);
`some (some k)`: `k/65536 endchar` (width = nominalWidthX + k/65536) -/
def csTrivial (cs : Bytes) : Option (Option Int) :=
  if cs = [14] then some none
  else match t2Num cs with
    | some (k, [14]) => some (some k)
    | _ => none

def Rl.ofFixed (k : Int) : Rl := normReal (decide (k < 0)) (k.natAbs * 5 ^ 16) (-16)

/-! ## `Read` -/

structure FontOut where
  fontName : Bytes
  strs : List String        -- Version, Notice, Copyright, FullName, FamilyName, Weight
  isFixedPitch : Bool
  italicAngle : Rl
  ulPos : Rl
  ulThick : Rl
  fontMatrix : List Rl
  charStrings : List Bytes
  isCID : Bool
  ros : String × String × Int
  fontMatrices : List (List Rl)
  privs : List PrivOut
  fds : List Nat
  charset : List Int
  names : List String        -- simple fonts
  encoding : List Nat        -- simple fonts
  gsubrs : List Bytes
deriving Repr

/-- `StandardEncoding(glyphs)` / `expertEncoding(glyphs)`: `encoding[code] = gid` for every glyph
whose name is in the table (later glyphs win) -/
def encodingByName (tab : List (String × Nat)) (names : List String) : List Nat :=
  let rec go : List String → Nat → List Nat → List Nat
    | [], _, res => res
    | nm :: rest, gid, res =>
      match tab.lookup nm with
      | some code => go rest (gid + 1) (res.set code (gid % 65536))
      | none => go rest (gid + 1) res
  go names 0 (List.replicate 256 0)

def mapOutcomeL {α β : Type} (f : α → Outcome β) : List α → Outcome (List β)
  | [] => .ok []
  | x :: xs =>
    match f x with
    | .ok v => (match mapOutcomeL f xs with
      | .ok l => .ok (v :: l)
      | .err e => .err e
      | .panic s => .panic s)
    | .err e => .err e
    | .panic s => .panic s

/-- `strings.get(charset[gid])` -/
def sidName (std custom : Array String) (sid : Int) : Outcome String :=
  match stringsGet std custom sid with
  | some s => .ok s
  | none => .err "other"

def readFont (T : Tables) (data : Bytes) : Outcome FontOut :=
  match rd data 0 4 with
  | none => .err "eof"
  | some hb =>
    let x := beVal hb
    let major := x / 16777216
    let hdrSize := x / 256 % 256
    let offSize := x % 256
    if major = 2 then .err "unsupported"
    else if major ≠ 1 ∨ hdrSize < 4 ∨ offSize > 4 then .err "invalid"
    else
    match readIndex data hdrSize with
    | .err e => .err e | .panic s => .panic s
    | .ok (fontNames, c1) =>
    if fontNames.length = 0 then .err "invalid"
    else if fontNames.length > 1 then .err "unsupported"
    else
    match readIndex data c1 with
    | .err e => .err e | .panic s => .panic s
    | .ok (topDictIndex, c2) =>
    if topDictIndex.length ≠ 1 then .err "invalid"
    else
    match readIndex data c2 with
    | .err e => .err e | .panic s => .panic s
    | .ok (stringIndex, c3) =>
    let custom0 : List String := stringIndex.map blobToStr
    match decodeDict T.std custom0.toArray (topDictIndex.headD []) with
    | .err e => .err e | .panic s => .panic s
    | .ok top =>
    if dInt top 3078 2 ≠ 2 then .err "unsupported"
    else
    match readIndex data c3 with
    | .err e => .err e | .panic s => .panic s
    | .ok (gsubrs, _) =>
    match readIndexAt data (dInt top 17 0) with
    | .err e => .err e | .panic s => .panic s
    | .ok charStrings =>
    let nGlyphs := charStrings.length
    if nGlyphs = 0 then .err "invalid"
    else
    let isCID := dHas top 3102
    -- CID-keyed part: ROS, FDArray, FDSelect
    let cidPart : Outcome ((String × String × Int) × List (List Rl) × List PrivOut × List Nat) :=
      if isCID then
        match dGet top 3102 with
        | [.str r, .str o, .int sup] =>
          match readIndexAt data (dInt top 3108 0) with
          | .err e => .err e | .panic s => .panic s
          | .ok fdArray =>
            if fdArray.length > 256 then .err "invalid"
            else if fdArray.length = 0 then .err "invalid"
            else
              match mapOutcomeL (fun fdBlob =>
                  match decodeDict T.std custom0.toArray fdBlob with
                  | .err e => .err e | .panic s => .panic s
                  | .ok fd =>
                    match readPrivate T.std custom0.toArray data fd with
                    | .err e => .err e | .panic s => .panic s
                    | .ok p => .ok (dFontMatrix fd 3079 false, p)) fdArray with
              | .err e => .err e | .panic s => .panic s
              | .ok l =>
                let fdSelectOffs := dInt top 3109 0
                if fdSelectOffs < 4 then .err "invalid"
                else match readFDSelect data fdSelectOffs.toNat nGlyphs l.length with
                  | .err e => .err e | .panic s => .panic s
                  | .ok fds => .ok ((r, o, sup), l.map (·.1), l.map (·.2), fds)
        | _ => .err "invalid"
      else .ok (("", "", 0), [], [], List.replicate nGlyphs 0)
    match cidPart with
    | .err e => .err e | .panic s => .panic s
    | .ok (ros, fms, cidPrivs, fds) =>
    let fontMatrix := dFontMatrix top 3079 isCID
    -- charset (the predefined ones allocate SIDs with `strings.lookup`)
    let charsetOffs := dInt top 15 0
    let predefined (tab : List String) : Outcome (List Int × List String) :=
      if nGlyphs > tab.length then .err "invalid"
      else
        let (sids, c) := stringsLookupAll T.std.toList custom0 (tab.take nGlyphs)
        .ok (sids.map (fun (n : Nat) => (n : Int)), c)
    let charsetRes : Outcome (List Int × List String) :=
      if ¬ isCID ∧ charsetOffs = 0 then predefined T.isoAdobe
      else if ¬ isCID ∧ charsetOffs = 1 then predefined T.expert
      else if ¬ isCID ∧ charsetOffs = 2 then predefined T.expertSubset
      else if charsetOffs < 0 then .err "other"    -- Seek to a negative position fails
      else match readCharset data charsetOffs.toNat nGlyphs with
        | .ok (l, _) => .ok (l, custom0)
        | .err e => .err e
        | .panic s => .panic s
    match charsetRes with
    | .err e => .err e | .panic s => .panic s
    | .ok (charset, custom1) =>
    -- Private DICT of a simple font
    let privRes : Outcome (List PrivOut) :=
      if isCID then .ok cidPrivs
      else match readPrivate T.std custom1.toArray data top with
        | .ok p => .ok [p]
        | .err e => .err e
        | .panic s => .panic s
    match privRes with
    | .err e => .err e | .panic s => .panic s
    | .ok privs =>
    -- glyph names
    let namesRes : Outcome (List String) :=
      if isCID then .ok []
      else mapOutcomeL (sidName T.std custom1.toArray) charset
    match namesRes with
    | .err e => .err e | .panic s => .panic s
    | .ok names =>
    let encRes : Outcome (List Nat) :=
      if isCID then .ok []
      else
        let encodingOffs := dInt top 16 0
        if encodingOffs = 0 then .ok (encodingByName T.standardEncRev names)
        else if encodingOffs = 1 then .ok (encodingByName T.expertEnc names)
        else if encodingOffs < 0 then .err "other"
        else readEncoding data encodingOffs.toNat charset
    match encRes with
    | .err e => .err e | .panic s => .panic s
    | .ok enc =>
    .ok { fontName := fontNames.headD [],
          strs := [dString top 0, dString top 1, dString top 3072, dString top 2, dString top 3, dString top 4],
          isFixedPitch := dInt top 3073 0 ≠ 0,
          italicAngle := normaliseAngle (dFloat top 3074 Rl.zero),
          ulPos := dFloat top 3075 (Rl.ofInt (-100)), ulThick := dFloat top 3076 (Rl.ofInt 50),
          fontMatrix := fontMatrix, charStrings := charStrings, isCID := isCID, ros := ros,
          fontMatrices := fms, privs := privs, fds := fds, charset := charset, names := names,
          encoding := enc, gsubrs := gsubrs }

/-- the advance widths `Read` derives, when every charstring is trivial -/
def FontOut.widths (f : FontOut) : Option (List Rl) :=
  (f.charStrings.zip f.fds).mapM fun (cs, fd) =>
    match csTrivial cs, f.privs[fd]? with
    | some none, some p => some p.defaultWidth
    | some (some k), some p => some (Rl.add p.nominalWidth (Rl.ofFixed k))
    | _, _ => none

end SfntV.Cff
