/-
Model of the number encoder of cff/t2encode.go (`encodeNumber`, `encodeInt`) for property C04.

Input: a float64 is a dyadic rational; it is passed exactly as `n / 2^k`.  Output: the code bytes and
the value the decoder will see, in 2⁻¹⁶ units.  Core-only.
-/
import SfntV.Spec.T2

namespace SfntV.T2Enc
open SfntV SfntV.T2

/-- Go conversion of an integral float to a 32-bit signed integer on amd64 (CVTTSD2SL): the value
if it fits, else the "integer indefinite" pattern −2³¹ -/
def wrap32 (v : Int) : Int := if -2147483648 ≤ v ∧ v ≤ 2147483647 then v else -2147483648
/-- … and to a 16-bit signed integer: convert to 32 bits, keep the low 16 bits (this is where a
step beyond ±32767 turns into garbage, defect #20) -/
def wrap16 (v : Int) : Int := toI16 (wrap32 v % 65536).toNat

/-- `math.Round(a / d)`: nearest integer, halves away from zero (d > 0) -/
def roundDiv (a : Int) (d : Nat) : Int :=
  let qn := (2 * a.natAbs + d) / (2 * d)
  if a < 0 then -(qn : Int) else qn

/-- `encodeInt` is literally TN5177 Table 3 read backwards -/
def encodeInt (x : Int) : List Nat := Spec.T2.encodeInt x

/-- `encodeNumber (n / 2^k)`: (value seen by the decoder in 2⁻¹⁶ units, code) -/
def encodeNumber (n : Int) (k : Nat) : Int × List Nat :=
  let d : Nat := 2 ^ k
  let x16 := wrap16 (Int.tdiv n d)
  -- |float64(x16) - x| ≤ 0.5/65536
  if 2 * 65536 * (x16 * d - n).natAbs ≤ d then (x16 * 65536, encodeInt x16)
  else
    let x32 := wrap32 (roundDiv (n * 65536) d)
    (x32, Spec.T2.encodeFixed x32)

end SfntV.T2Enc
