/-
Model of cff/encoding.go (`encodeEncoding`, `readEncoding`) and the TN5176 §12 specification
of encodings (formats 0 and 1, supplements).  Property C13.  Core-only.

An encoding vector is a list of glyph ids indexed by character code (length 256 in the
domain); 0 = code not used.
-/
import SfntV.Model.CffIndex

namespace SfntV.Cff
open SfntV

/-! ## `encodeEncoding` -/

/-- the first loop: `codes` (gid ↦ first code, as an association list in order of insertion),
`extra` ((code, gid) for every further code of an already encoded glyph), `maxGid` -/
def scanEncoding : Nat → List Nat → List (Nat × Nat) → List (Nat × Nat) → Nat →
    List (Nat × Nat) × List (Nat × Nat) × Nat
  | _, [], codes, extra, maxGid => (codes, extra, maxGid)
  | code, gid :: rest, codes, extra, maxGid =>
    if gid = 0 then scanEncoding (code + 1) rest codes extra maxGid
    else
      let c8 := code % 256
      match codes.lookup gid with
      | some _ => scanEncoding (code + 1) rest codes (extra ++ [(c8, gid)]) maxGid
      | none => scanEncoding (code + 1) rest (codes ++ [(gid, c8)]) extra (if gid > maxGid then gid else maxGid)

/-- `uint8(a - b)` for `glyph.ID` (uint16) operands -/
def sub16u8 (a b : Nat) : Nat := (a + 65536 - b % 65536) % 65536 % 256

/-- the segment loop `for gid := 1; gid <= maxGid; gid++`; fuel = number of iterations left -/
def segLoop (codes : List (Nat × Nat)) (maxGid : Nat) :
    Nat → Nat → Nat → Nat → List (Nat × Nat) → Outcome (List (Nat × Nat))
  | 0, _, startGid, startCode, acc => .ok (acc ++ [(startCode, sub16u8 maxGid startGid)])
  | fuel+1, gid, startGid, startCode, acc =>
    match codes.lookup gid with
    | none => .err "invalid"
    | some code =>
      if ((gid : Int) - startGid) ≠ (code : Int) - startCode then
        segLoop codes maxGid fuel (gid + 1) gid code (acc ++ [(startCode, sub16u8 gid (startGid + 1))])
      else segLoop codes maxGid fuel (gid + 1) startGid startCode acc

def u16Bytes (v : Int) : Bytes :=
  [UInt8.ofNat ((v / 256) % 256).toNat, UInt8.ofNat (v % 256).toNat]

/-- the supplement entries; `glyphNames[s.gid]` panics when out of range -/
def extraBytes (names : List Int) : List (Nat × Nat) → Outcome Bytes
  | [] => .ok []
  | (code, gid) :: rest =>
    match names[gid]? with
    | none => .panic "glyphNames[s.gid]"
    | some sid =>
      match extraBytes names rest with
      | .ok b => .ok (UInt8.ofNat code :: u16Bytes sid ++ b)
      | e => e

def encodeEncoding (encoding : List Nat) (names : List Int) : Outcome Bytes :=
  let (codes, extra, maxGid) := scanEncoding 0 encoding [] [] 0
  let startCode := (codes.lookup 1).getD 0
  match segLoop codes maxGid maxGid 1 1 startCode [] with
  | .err e => .err e
  | .panic s => .panic s
  | .ok ss =>
    if ss.length > 255 then .err "invalid"
    else
      let format0Len := 2 + maxGid
      let format1Len := 2 + ss.length * 2
      let flag : Nat := if extra.length > 0 then 128 else 0
      let body : Bytes :=
        if format0Len ≤ format1Len ∧ maxGid ≤ 255 then
          [UInt8.ofNat (0 + flag), UInt8.ofNat maxGid]
            ++ (List.range maxGid).map fun i => UInt8.ofNat ((codes.lookup (i + 1)).getD 0)
        else
          [UInt8.ofNat (1 + flag), UInt8.ofNat ss.length]
            ++ ss.flatMap fun s => [UInt8.ofNat s.1, UInt8.ofNat s.2]
      if extra.length > 0 then
        match extraBytes names extra with
        | .ok eb => .ok (body ++ [UInt8.ofNat extra.length] ++ eb)
        | e => e
      else .ok body

/-! ## `readEncoding` -/

/-- format 0: `for _, c := range codes` -/
def readCodes : List UInt8 → List Nat → Nat → Outcome (List Nat × Nat)
  | [], res, cur => .ok (res, cur)
  | c :: rest, res, cur =>
    if res.getD c.toNat 0 ≠ 0 then .err "invalid"
    else readCodes rest (res.set c.toNat cur) ((cur + 1) % 65536)

/-- format 1, inner loop `for j := int(first); j <= int(first+nLeft); j++` (`k` codes left) -/
def readRange (nGlyphs : Nat) : Nat → Nat → List Nat → Nat → Outcome (List Nat × Nat)
  | 0, _, res, cur => .ok (res, cur)
  | k+1, j, res, cur =>
    if cur ≥ nGlyphs then .err "invalid"
    else if res.getD j 0 ≠ 0 then .err "invalid"
    else readRange nGlyphs k (j + 1) (res.set j cur) ((cur + 1) % 65536)

def readEncRanges (data : Bytes) (nGlyphs : Nat) : Nat → Nat → List Nat → Nat → Outcome (List Nat × Nat × Nat)
  | 0, c, res, cur => .ok (res, cur, c)
  | k+1, c, res, cur =>
    match rd data c 1 with
    | none => .err "eof"
    | some fb =>
      match rd data (c + 1) 1 with
      | none => .err "eof"
      | some nb =>
        let first := beVal fb
        let nLeft := beVal nb
        if first + nLeft > 255 then .err "invalid"
        else
          match readRange nGlyphs (nLeft + 1) first res cur with
          | .ok (res', cur') => readEncRanges data nGlyphs k (c + 2) res' cur'
          | .err e => .err e
          | .panic s => .panic s

/-- `lookup[uint16(sid)] = gid` over the charset: the last glyph with that SID -/
def sidLookup (charset : List Int) (sid : Nat) : Nat :=
  let rec go : List Int → Nat → Nat → Nat
    | [], _, found => found
    | s :: rest, gid, found => go rest (gid + 1) (if (s % 65536).toNat = sid then gid % 65536 else found)
  go charset 0 0

def readSups (data : Bytes) (charset : List Int) : Nat → Nat → List Nat → Nat → Outcome (List Nat)
  | 0, _, res, _ => .ok res
  | k+1, c, res, cur =>
    match rd data c 1 with
    | none => .err "eof"
    | some cb =>
      let code := beVal cb
      if res.getD code 0 ≠ 0 then .err "invalid"
      else
        match rd data (c + 1) 2 with
        | none => .err "eof"
        | some sb =>
          let gid := sidLookup charset (beVal sb)
          if gid ≥ cur then .err "invalid"
          else readSups data charset k (c + 3) (if gid ≠ 0 then res.set code gid else res) cur

/-- the primary part (`switch format & 127`): the vector, the next glyph id and the cursor
afterwards; `c` is the position of the format byte -/
def readPrimary (data : Bytes) (c format nGlyphs : Nat) : Outcome (List Nat × Nat × Nat) :=
  let res0 := List.replicate 256 0
  if format % 128 = 0 then
    match rd data (c + 1) 1 with
    | none => .err "eof"
    | some nb =>
      let nCodes := beVal nb
      if nCodes ≥ nGlyphs then .err "invalid"
      else
        match rd data (c + 2) nCodes with
        | none => .err "eof"
        | some codes =>
          match readCodes codes res0 1 with
          | .ok (res, cur) => .ok (res, cur, c + 2 + nCodes)
          | .err e => .err e
          | .panic s => .panic s
  else if format % 128 = 1 then
    match rd data (c + 1) 1 with
    | none => .err "eof"
    | some nb => readEncRanges data nGlyphs (beVal nb) (c + 2) res0 1
  else .err "unsupported"

/-- `readEncoding(p, charset)` with the parser at cursor `c` -/
def readEncoding (data : Bytes) (c : Nat) (charset : List Int) : Outcome (List Nat) :=
  match rd data c 1 with
  | none => .err "eof"
  | some fb =>
    let format := beVal fb
    match readPrimary data c format charset.length with
    | .err e => .err e
    | .panic s => .panic s
    | .ok (res, cur, c') =>
      if format ≥ 128 then
        match rd data c' 1 with
        | none => .err "eof"
        | some nb => readSups data charset (beVal nb) (c' + 1) res cur
      else .ok res

/-! ## Specification (TN5176 §12 "Encodings") -/

/-- "Encoding data is located via the offset operand to the Encoding operator in the Top DICT.
[…] Format 0: Card8 format (=0), Card8 nCodes, Card8 code[nCodes] — code array.  Each element
of the code array represents the encoding for the corresponding glyph [glyph `i+1` for element
`i`; .notdef is not encoded].  Format 1: Card8 format (=1), Card8 nRanges, struct Range1
{Card8 first — first code in range; Card8 nLeft — codes left in range (excluding first)}
[glyph ids are assigned consecutively from 1].  A few fonts have multiply-encoded glyphs which
are not supported directly by any of the above formats.  This situation is indicated by setting
the high-order bit in the format byte and supplementing the encoding […]: Card8 nSups,
struct Supplement {Card8 code — encoding; SID glyph — name}."

The glyph encoded at `code` (0 = none), found by a linear walk. -/
def specEncodingAt (data : Bytes) (c : Nat) (charset : List Nat) (code : Nat) : Option Nat := do
  let format ← specNum data c 1
  let kind := format % 128
  -- primary encoding: (gid, position after it)
  let (prim, after) ← (if kind = 0 then do
      let nCodes ← specNum data (c + 1) 1
      let cs ← (List.range nCodes).mapM fun i => specNum data (c + 2 + i) 1
      pure (match cs.findIdx? (· = code) with
        | some i => i + 1
        | none => 0, c + 2 + nCodes)
    else if kind = 1 then do
      let nRanges ← specNum data (c + 1) 1
      let rs ← (List.range nRanges).mapM fun i => do
        let f ← specNum data (c + 2 + 2 * i) 1
        let n ← specNum data (c + 3 + 2 * i) 1
        pure (f, n)
      -- glyph id of the first code of each range
      let rec walk : List (Nat × Nat) → Nat → Nat
        | [], _ => 0
        | (f, n) :: rest, g => if f ≤ code ∧ code ≤ f + n then g + (code - f) else walk rest (g + n + 1)
      pure (walk rs 1, c + 2 + 2 * nRanges)
    else none)
  if prim ≠ 0 then pure prim
  else if format ≥ 128 then do
    let nSups ← specNum data after 1
    let sups ← (List.range nSups).mapM fun i => do
      let cd ← specNum data (after + 1 + 3 * i) 1
      let sid ← specNum data (after + 2 + 3 * i) 2
      pure (cd, sid)
    match sups.find? (·.1 = code) with
    | some (_, sid) =>
      -- the glyph whose name is `sid`
      pure ((charset.findIdx? (· = sid)).getD 0)
    | none => pure 0
  else pure 0

def specEncoding (data : Bytes) (c : Nat) (charset : List Nat) : Option (List Nat) :=
  (List.range 256).mapM (specEncodingAt data c charset)

end SfntV.Cff
