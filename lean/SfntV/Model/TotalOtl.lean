/-
C02 (decoders are total): checked-index models of the three shared OpenType-layout readers
`coverage.Read` (opentype/coverage/coverage.go:71-150), `coverage.ReadSet`
(opentype/coverage/set.go:51-118) and `classdef.Read` (opentype/classdef/classdef.go:66-142), as
the code stands in the working tree.  All three take `(p *parser.Parser, pos int64)`; the parser
is a plain byte view (theorem C17), so the models take the whole byte string and the (absolute)
position: `p.SeekPos(pos)` never fails on an in-memory reader, a read of `n` bytes at position
`q` is `readBytes site b q n`.

Checked sites: `p.ReadBytes(6)` / `p.ReadBytes(4)` (argument within the parser buffer) and every
`buf[k]` / `data[k]` (constant index into the buffer just read); map writes cannot panic.
`make(Table, glyphCount)` (classdef.go:91) is charged `glyphCount` elements when it happens,
before the class values are read.

Values.  `coverageRead`: the `(glyph, coverage index)` entries in the order they are written;
`readSet`: the glyphs in the order they are written (duplicates possible); `classdefRead`:
`(glyph, class)` entries, format 1 in reading order, format 2 NEWEST RANGE FIRST (a later write
to the Go map overwrites an earlier one, so the class of a glyph is that of the first entry
found) — the shapes of the value-level models `SfntV.Otl.Cov.read`, `Cov.readSet`,
`SfntV.Otl.ClassDef.read` (C08), to which `Proofs/TotalOtl.lean` bridges.

Cost.  `steps` = parser reads + loop iterations (outer and inner loops), `alloc` = 1 for the map
object + one element per map WRITE (an upper bound of the entries created: a write that
overwrites allocates nothing; in `coverage.Read` and in `classdef.Read` on increasing ranges all
written keys are distinct, so the count is exact there); classdef format 1 is charged by its
`make` only.  The inner loops `for gid := start; gid <= end; gid++ { table[gid] = … }` contain
no checked operation and are modelled in closed form (`List.range' start (end+1-start)`,
`end+1-start` iterations; none when `end < start`).

`classdef.Read` is modelled as repaired for finding #36 (classdef.go:126-131: a format-2 range
with `endGlyphID < startGlyphID` is rejected); `classdefReadOld` is the code before the repair,
where `prevEnd = endGlyphID` was assigned even for such a range — kept only to state the finding.
Core-only: linked into the driver.
-/
import SfntV.Model.TotalBase

namespace SfntV.Total.Otl
open SfntV SfntV.Total

/-- `p.ReadUint16()` at absolute position `q` (parser.go:120-126: `ReadBytes(2)` and the two
constant indices into its result) -/
def readU16 (site : String) (b : Bytes) (q : Nat) : Outcome Nat := do
  let w ← readBytes site b q 2
  w16 site w 0

/-! ## coverage.Read -/

/-- coverage.go:91-110, format 1: `n` glyphs left, `q` position, `i` loop index, `prev` -/
def covLoop1 (b : Bytes) :
    Nat → Nat → Nat → Int → List (Nat × Nat) → Cost → Outcome (List (Nat × Nat) × Cost)
  | 0, _, _, _, acc, c => .ok (acc.reverse, c)
  | n+1, q, i, prev, acc, c => do
    let gid ← readU16 "coverage.go:92#ReadUint16" b q
    if (gid : Int) ≤ prev then .err "invalid" else
    -- coverage.go:108 `table[glyph.ID(gid)] = i` (map write)
    covLoop1 b n (q + 2) (i + 1) gid ((gid, i) :: acc) (c.tick.mem 1)

/-- coverage.go:119-140, format 2: `n` ranges left, `q` position, `pos` running coverage index,
`prev` previous `endGlyphID` (−1 at the start) -/
def covLoop2 (b : Bytes) :
    Nat → Nat → Nat → Int → List (Nat × Nat) → Cost → Outcome (List (Nat × Nat) × Cost)
  | 0, _, _, _, acc, c => .ok (acc.reverse, c)
  | n+1, q, pos, prev, acc, c => do
    let buf ← readBytes "coverage.go:120#ReadBytes(6)" b q 6
    let s ← w16 "coverage.go:124#buf[0],buf[1]" buf 0
    let e ← w16 "coverage.go:125#buf[2],buf[3]" buf 2
    let sci ← w16 "coverage.go:126#buf[4],buf[5]" buf 4
    if sci ≠ pos ∨ (s : Int) ≤ prev ∨ e < s then .err "invalid" else
    -- coverage.go:135-138 `for gid := s; gid <= e; gid++ { table[gid] = pos; pos++ }`
    let k := e + 1 - s
    covLoop2 b n (q + 6) (pos + k) e (((List.range' s k).zipIdx pos).reverse ++ acc)
      ((c.tick (1 + k)).mem k)

/-- `coverage.Read(p, pos)` -/
def coverageRead (b : Bytes) (pos : Nat) : Outcome (List (Nat × Nat) × Cost) := do
  let format ← readU16 "coverage.go:77#ReadUint16" b pos
  let c := Cost.zero.tick.mem 1                       -- coverage.go:82 `make(Table)`
  if format = 1 then do
    let n ← readU16 "coverage.go:86#ReadUint16" b (pos + 2)
    covLoop1 b n (pos + 4) 0 (-1) [] c.tick
  else if format = 2 then do
    let n ← readU16 "coverage.go:113#ReadUint16" b (pos + 2)
    covLoop2 b n (pos + 4) 0 (-1) [] c.tick
  else .err "unsupported"

/-! ## coverage.ReadSet -/

/-- set.go:70-76, format 1 -/
def setLoop1 (b : Bytes) : Nat → Nat → List Nat → Cost → Outcome (List Nat × Cost)
  | 0, _, acc, c => .ok (acc.reverse, c)
  | n+1, q, acc, c => do
    let gid ← readU16 "set.go:71#ReadUint16" b q
    -- set.go:75 `table[glyph.ID(gid)] = true` (map write)
    setLoop1 b n (q + 2) (gid :: acc) (c.tick.mem 1)

/-- set.go:85-108, format 2 (differs from `covLoop2` in `startGlyphID < prev`) -/
def setLoop2 (b : Bytes) :
    Nat → Nat → Nat → Int → List Nat → Cost → Outcome (List Nat × Cost)
  | 0, _, _, _, acc, c => .ok (acc.reverse, c)
  | n+1, q, pos, prev, acc, c => do
    let buf ← readBytes "set.go:86#ReadBytes(6)" b q 6
    let s ← w16 "set.go:90#buf[0],buf[1]" buf 0
    let e ← w16 "set.go:91#buf[2],buf[3]" buf 2
    let sci ← w16 "set.go:92#buf[4],buf[5]" buf 4
    if sci ≠ pos ∨ (s : Int) < prev ∨ e < s then .err "invalid" else
    -- set.go:103-106 `for gid := s; gid <= e; gid++ { table[gid] = true; pos++ }`
    let k := e + 1 - s
    setLoop2 b n (q + 6) (pos + k) e ((List.range' s k).reverse ++ acc) ((c.tick (1 + k)).mem k)

/-- `coverage.ReadSet(p, pos)` -/
def readSet (b : Bytes) (pos : Nat) : Outcome (List Nat × Cost) := do
  let format ← readU16 "set.go:57#ReadUint16" b pos
  let c := Cost.zero.tick.mem 1                       -- set.go:62 `make(Set)`
  if format = 1 then do
    let n ← readU16 "set.go:66#ReadUint16" b (pos + 2)
    setLoop1 b n (pos + 4) [] c.tick
  else if format = 2 then do
    let n ← readU16 "set.go:79#ReadUint16" b (pos + 2)
    setLoop2 b n (pos + 4) 0 (-1) [] c.tick
  else .err "unsupported"

/-! ## classdef.Read -/

/-- classdef.go:92-100, format 1: `res[startGlyphID+glyph.ID(i)] = classValue` (uint16 sum) -/
def cdLoop1 (b : Bytes) (start : Nat) :
    Nat → Nat → Nat → List (Nat × Nat) → Cost → Outcome (List (Nat × Nat) × Cost)
  | 0, _, _, acc, c => .ok (acc.reverse, c)
  | n+1, q, i, acc, c => do
    let cv ← readU16 "classdef.go:93#ReadUint16" b q
    cdLoop1 b start n (q + 2) (i + 1)
      (if cv ≠ 0 then ((start + i) % 65536, cv) :: acc else acc) c.tick

/-- classdef.go:111-139, format 2: `n` ranges left, `q` position, `i` loop index, `prevEnd`.
`fixed = true` is the code as it is now (classdef.go:126-131
`if endGlyphID < startGlyphID { return invalid }`), `fixed = false` the code before that repair. -/
def cdLoop2 (fixed : Bool) (b : Bytes) :
    Nat → Nat → Nat → Nat → List (Nat × Nat) → Cost → Outcome (List (Nat × Nat) × Cost)
  | 0, _, _, _, acc, c => .ok (acc, c)
  | n+1, q, i, prevEnd, acc, c => do
    let data ← readBytes "classdef.go:112#ReadBytes(6)" b q 6
    let s ← w16 "classdef.go:116#data[0],data[1]" data 0
    let e ← w16 "classdef.go:117#data[2],data[3]" data 2
    let cv ← w16 "classdef.go:118#data[4],data[5]" data 4
    if i > 0 ∧ s ≤ prevEnd then .err "invalid" else
    if fixed = true ∧ e < s then .err "invalid" else
    -- classdef.go:132 `prevEnd = endGlyphID`;
    -- classdef.go:134-138 `if cv != 0 { for j := int(s); j <= int(e); j++ { res[j] = cv } }`
    let k := if cv ≠ 0 then e + 1 - s else 0
    cdLoop2 fixed b n (q + 6) (i + 1) e ((List.range' s k).map (fun g => (g, cv)) ++ acc)
      ((c.tick (1 + k)).mem k)

def classdefReadG (fixed : Bool) (b : Bytes) (pos : Nat) : Outcome (List (Nat × Nat) × Cost) := do
  let version ← readU16 "classdef.go:72#ReadUint16" b pos
  let c := Cost.zero.tick
  if version = 1 then do
    let data ← readBytes "classdef.go:78#ReadBytes(4)" b (pos + 2) 4
    let c := c.tick
    let start ← w16 "classdef.go:82#data[0],data[1]" data 0
    let count ← w16 "classdef.go:83#data[2],data[3]" data 2
    if (start : Int) + (count : Int) - 1 > 0xFFFF then .err "invalid" else
    let c ← mkSlice "classdef.go:91#make(Table, glyphCount)" count c
    cdLoop1 b start count (pos + 6) 0 [] c
  else if version = 2 then do
    let n ← readU16 "classdef.go:104#ReadUint16" b (pos + 2)
    cdLoop2 fixed b n (pos + 4) 0 0 [] (c.tick.mem 1)   -- classdef.go:109 `res := Table{}`
  else .err "unsupported"

/-- `classdef.Read(p, pos)` as it is in the working tree (finding #36 repaired) -/
def classdefRead (b : Bytes) (pos : Nat) : Outcome (List (Nat × Nat) × Cost) :=
  classdefReadG true b pos

/-- `classdef.Read` before the repair of finding #36 (kept only to state the finding) -/
def classdefReadOld (b : Bytes) (pos : Nat) : Outcome (List (Nat × Nat) × Cost) :=
  classdefReadG false b pos

end SfntV.Total.Otl
