/-
C16 — footprint / interleaving model for "a font that nobody modifies may be used from many
goroutines at once".

What this model carries is PURITY AND CONFINEMENT, not the Go memory model:

* `Store` — the shared heap as a total map from locations to values.  A set of locations `S`
  (a predicate) is the *shared* part: the `*sfnt.Font` object graph and the package-level
  tables.  Everything else is memory that a call allocates for itself (per-call buffers).
* `Atomic` — one atomic step of an operation: it reads a list of locations, and from its
  thread-local state (`Acc`: registers, stack, freshly allocated buffers nobody else can reach)
  and the values read it computes a new local state and a list of writes to the store.
* an operation is a finite list of atomic steps followed by `ret`, which publishes the local
  state as the operation's result and clears it; a thread is a finite list of operations;
  a configuration is a store and a list of threads (any number);
* a schedule is any list of thread indices; `exec` runs it one atomic step at a time.  There is
  no fairness, no bound on the number of threads, steps or context switches.

The Go side of the tie (harness/area_conc.go, extract/gen_conc.go) checks on the real code that
the listed operations are confined in this sense (deep hash of the font graph and package-level
tables before/after, global-write inventory), and observes race-freedom with the race detector.
Core-only (linked into the driver).
-/
namespace SfntV.Conc

abbrev Loc := Nat
abbrev Val := Nat
abbrev Store := Loc → Val
/-- thread-local state of a running operation (registers, stack, private buffers) -/
abbrev Acc := List Val

/-- One atomic step: the locations it reads, and what it does with the values read. -/
structure Atomic where
  reads : List Loc
  act : Acc → List Val → Acc × List (Loc × Val)

inductive Instr where
  | atomic (a : Atomic)
  /-- end of an operation: publish the local state as its result, start the next one afresh -/
  | ret

/-- An operation: its atomic steps, in program order. -/
abbrev Op := List Atomic

structure Thread where
  prog : List Instr
  acc : Acc
  outs : List Acc

structure Config where
  σ : Store
  ts : List Thread

/-- program of a thread performing the operations `ops` one after the other -/
def compile : List Op → List Instr
  | [] => []
  | op :: ops => op.map Instr.atomic ++ Instr.ret :: compile ops

def Thread.ofOps (ops : List Op) : Thread := ⟨compile ops, [], []⟩

def update (σ : Store) (l : Loc) (v : Val) : Store := fun x => if x = l then v else σ x

def applyWrites (σ : Store) : List (Loc × Val) → Store
  | [] => σ
  | (l, v) :: ws => applyWrites (update σ l v) ws

/-- one step of a thread against a store: the thread afterwards and the writes it performs -/
def stepT (σ : Store) (t : Thread) : Thread × List (Loc × Val) :=
  match t.prog with
  | [] => (t, [])
  | .ret :: p => (⟨p, [], t.outs ++ [t.acc]⟩, [])
  | .atomic a :: p =>
    let r := a.act t.acc (a.reads.map σ)
    (⟨p, r.1, t.outs⟩, r.2)

/-- the scheduler picks thread `i`: it performs one atomic step (nothing happens if there is no
such thread or it has finished) -/
def step (c : Config) (i : Nat) : Config :=
  match c.ts[i]? with
  | none => c
  | some t =>
    let r := stepT c.σ t
    ⟨applyWrites c.σ r.2, c.ts.set i r.1⟩

/-- run a schedule -/
def exec : List Nat → Config → Config
  | [], c => c
  | i :: s, c => exec s (step c i)

/-- `f` applied `n` times -/
def iter (f : α → α) : Nat → α → α
  | 0, a => a
  | n + 1, a => iter f n (f a)

/-- a thread running alone for `n` steps on the store `σ` (its own writes included) -/
def alone (σ : Store) (n : Nat) (t : Thread) : Config :=
  exec (List.replicate n 0) ⟨σ, [t]⟩

/-- the schedule leaves nothing to do -/
def Config.done (c : Config) : Prop := ∀ t ∈ c.ts, t.prog = []

/-- two stores agree on the shared set -/
def Agree (S : Loc → Bool) (σ σ' : Store) : Prop := ∀ l, S l = true → σ l = σ' l

/-- **Confinement** of an atomic step w.r.t. the shared set `S`: every write lands outside `S`
(in memory the call allocated for itself), and the new local state depends only on the values of
`S` among the locations read. -/
def Confined (S : Loc → Bool) (a : Atomic) : Prop :=
  (∀ acc vals, ∀ w ∈ (a.act acc vals).2, S w.1 = false) ∧
  (∀ acc σ σ', Agree S σ σ' → (a.act acc (a.reads.map σ)).1 = (a.act acc (a.reads.map σ')).1)

def OpConfined (S : Loc → Bool) (op : Op) : Prop := ∀ a ∈ op, Confined S a

def InstrConfined (S : Loc → Bool) : Instr → Prop
  | .atomic a => Confined S a
  | .ret => True

def ThreadConfined (S : Loc → Bool) (t : Thread) : Prop := ∀ i ∈ t.prog, InstrConfined S i

/-! ### Denotation of one operation run alone -/

/-- run the atomic steps of an operation alone: final store and final local state -/
def runOp (σ : Store) : Op → Acc → Store × Acc
  | [], acc => (σ, acc)
  | a :: op, acc =>
    let r := a.act acc (a.reads.map σ)
    runOp (applyWrites σ r.2) op r.1

/-- what operation `op` returns when it is the only thing running, started on `σ` -/
def resultAlone (σ : Store) (op : Op) : Acc := (runOp σ op []).2

/-- an operation as a state transformer with a result -/
abbrev Sem := Store → Store × Acc

/-- semantic confinement: the shared part of the store is returned unchanged and the result
depends only on it -/
def SemConfined (S : Loc → Bool) (f : Sem) : Prop :=
  (∀ σ, Agree S (f σ).1 σ) ∧ (∀ σ σ', Agree S σ σ' → (f σ).2 = (f σ').2)

/-- run `f`, then `g` on the store `f` left; results concatenated -/
def Sem.seq (f g : Sem) : Sem := fun σ =>
  let r := f σ
  let q := g r.1
  (q.1, r.2 ++ q.2)

/-! ### The read-only operations of the property and their footprints

Hand-written from the source (write.go, subset.go, font.go, names.go, layout.go, cff/write.go,
opentype/gtab/layout.go, opentype/gtab/builder/explain.go).  `fresh` names what the call
allocates and writes; `sharedWrites` what it writes in the font graph or package-level state.
The harness validates `sharedWrites = []` on the real code (stream `conc.pure`). -/

structure Footprint where
  name : String
  fresh : List String
  sharedWrites : List String
deriving Repr, DecidableEq

def listedOps : List Footprint := [
  ⟨"write", ["tableData map", "hhea/hmtx/OS2/name/post/maxp/head/cmap/glyf/loca/CFF/GDEF/GSUB/GPOS byte slices",
             "head bytes patched in place by header.Write (slice made by makeHead in this call)",
             "header.Write: tableNames, records, header buffer"], []⟩,
  ⟨"writepdf", ["tableData map", "table byte slices", "head bytes patched in place (fresh per call)"], []⟩,
  ⟨"subset", ["cloned Font struct", "subsetter.newGid map", "new cmap table/subtables",
              "new gtab.Info/LookupList", "new Outlines, Glyphs/Widths/Names slices",
              "caller's glyph list (appended to)"], []⟩,
  ⟨"clone", ["copied Font struct"], []⟩,
  ⟨"fontbbox", [], []⟩,
  ⟨"fontbboxpdf", [], []⟩,
  ⟨"widths", ["result slice"], []⟩,
  ⟨"widthspdf", ["result slice"], []⟩,
  ⟨"widthsmappdf", ["result map"], []⟩,
  ⟨"glyphbbox", [], []⟩,
  ⟨"glyphbboxes", ["result slice"], []⟩,
  ⟨"glyphbboxpdf", [], []⟩,
  ⟨"glyphwidth", [], []⟩,
  ⟨"glyphwidthpdf", [], []⟩,
  ⟨"glyphnames", ["result slice", "used map"], []⟩,
  ⟨"glyphname", [], []⟩,
  ⟨"pdfmetrics", [], []⟩,
  ⟨"subsetreuse", ["worker's own glyph buffer (re-used between calls)", "the subset fonts"], []⟩,
  ⟨"fontinfo", ["type1.FontInfo struct", "compiled regexp in PostScriptName"], []⟩,
  ⟨"ascffwrite", ["cff.Font struct", "cffStrings (data, rev map)", "charstring encoder state", "section buffers"], []⟩,
  ⟨"layout", ["Layouter", "two gtab.Context (seq, stack, keep)", "glyph.Info buffer"], []⟩,
  ⟨"gtabapply", ["gtab.Context", "glyph.Info sequence"], []⟩,
  ⟨"findlookups", ["result slice", "feature index map"], []⟩,
  ⟨"explaingsub", ["explainer, strings.Builder, name list"], []⟩,
  ⟨"explaingpos", ["explainer, strings.Builder, name list"], []⟩
]

/-- documented mutators (NOT operations of the property), run through the same detectors as a
positive control: `EnsureGlyphNames` assigns `g.Name` / `o.Names` in the shared graph -/
def knownMutators : List Footprint := [
  ⟨"ensureglyphnames", ["result of MakeGlyphNames"], ["cff.Glyph.Name of every glyph", "glyf.Outlines.Names"]⟩
]

/-- `header.Write` itself, on a caller-supplied table map (stream `conc.hdrwrite`): the only
in-place write it documents is the checksum field `head[8:12]` (masked by the harness); the table
bodies, INCLUDING the spare capacity behind them (which may be another table's live data when the
tables are sub-slices of one image), are only read.  Slices are lists in the Lean models of
header.Write (C03): aliasing and capacity are not modelled there; they are covered by this
footprint entry and its D predicate "capacity snapshot unchanged". -/
def headerWriteFootprint : Footprint :=
  ⟨"hdrwrite", ["tableNames", "records", "header buffer", "pad [3]byte (written separately, never appended to a body)"], []⟩

def findOp (n : String) : Option Footprint := listedOps.find? (·.name == n)

def findAny (n : String) : Option Footprint := (listedOps ++ knownMutators).find? (·.name == n)

/-- the model's prediction for the purity stream: a listed operation with no shared write leaves
the shared graph unchanged -/
def predictPure (n : String) : String :=
  match findOp n with
  | none => "unknown-op"
  | some f => if f.sharedWrites.isEmpty then "unchanged" else "changed"

/-- the model's prediction for the parallel streams: with ≥ 1 goroutines each running listed
operations without shared writes, every result equals the sequential result (C16_commute) -/
def predictParallel (ops : List String) (threads : Nat) : String :=
  if threads == 0 then "bad-case"
  else if ops.all (fun n => predictPure n == "unchanged") then "equal"
  else if ops.any (fun n => predictPure n == "unknown-op") then "unknown-op"
  else "may-differ"

/-- abstract stand-in for a listed operation over `n` shared locations `0..n-1`: it reads all of
them one by one, folding them into its local state, and finally writes the digest to the fresh
location `n + k` -/
def digestOp (n k : Nat) : Op :=
  (List.range n).map (fun l => (⟨[l], fun acc vals => (acc ++ vals, [])⟩ : Atomic)) ++
  [⟨[], fun acc _ => (acc, [(n + k, acc.foldl (· + ·) 0)])⟩]

/-- the shared set `{0, …, n-1}` -/
def below (n : Nat) : Loc → Bool := fun l => decide (l < n)

/-- a racy read-modify-write of location 0 in two atomic steps (load; store of load+1) -/
def incrOp : Op :=
  [⟨[0], fun _ vals => (vals, [])⟩, ⟨[], fun acc _ => (acc, [(0, acc.headD 0 + 1)])⟩]

end SfntV.Conc
