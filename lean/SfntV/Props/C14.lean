/-
C14 — names, glyph names and language tags survive their encodings.
Only property theorems and non-vacuity examples live here; helper lemmas are in
Proofs/NamesCodec, Proofs/NamesPost, Proofs/NamesTable.
-/
import SfntV.Proofs.NamesCodec
import SfntV.Generated.Cmapx
import SfntV.Proofs.NamesPost
import SfntV.Proofs.NamesTable
import SfntV.Proofs.NamesLocale
import SfntV.Proofs.NamesChoose
import SfntV.Proofs.NamesLangTables
import SfntV.Proofs.NamesScriptList
import SfntV.Spec.Names

namespace SfntV.Props.C14
open SfntV SfntV.Names

/-- Mac Roman, over the table regenerated from mac/encoding.go: (1) every byte string survives
`Decode` then `Encode`; (2) every string over the Mac Roman repertoire (the runes `Encode` does not
replace by '?') survives `Encode` then `Decode`, and its encoding consists of bytes. -/
theorem C14_macroman_inverse :
    (∀ cc : List Nat, (∀ c ∈ cc, c < 256) → macEncode (macDecode cc) = cc) ∧
    (∀ rr : List Nat, (∀ r ∈ rr, macRepresentable r = true) →
        macDecode (macEncode rr) = rr ∧ ∀ c ∈ macEncode rr, c < 256) :=
  ⟨mac_encode_decode, fun rr h => ⟨mac_decode_encode rr h, macEncode_lt rr h⟩⟩

/-- The two directions are injective: different byte strings decode to different strings, and
different strings over the repertoire encode to different byte strings. -/
theorem C14_macroman_injective :
    (∀ a b : List Nat, (∀ c ∈ a, c < 256) → (∀ c ∈ b, c < 256) → macDecode a = macDecode b → a = b) ∧
    (∀ a b : List Nat, (∀ r ∈ a, macRepresentable r = true) → (∀ r ∈ b, macRepresentable r = true) →
        macEncode a = macEncode b → a = b) := by
  constructor
  · intro a b ha hb h
    rw [← mac_encode_decode a ha, ← mac_encode_decode b hb, h]
  · intro a b ha hb h
    rw [← mac_decode_encode a ha, ← mac_decode_encode b hb, h]

/-- All 128 high bytes decode to Unicode scalar values, so Go's `string([]rune)` conversion in
`mac.Decode` never substitutes U+FFFD. -/
theorem C14_macroman_scalar : ∀ b : Fin 256, isScalar (macDecodeByte b.val) = true := mac_dec_scalar

/-- The single-byte decoder `mac.DecodeOne`, over the full 256-entry table `Gen.macRomanTable`
that C09's extractor regenerates from it (theorem `C09_macroman_injective` is about the same
table): it is the identity below 128 followed by this property's table `dec`, it agrees with
`mac.Decode` on every byte, `mac.Encode` inverts it on all 256 bytes, and it inverts
`mac.Encode` on every rune of the repertoire. -/
theorem C14_macroman_decodeone :
    Gen.macRomanTable = List.range 128 ++ Gen.macDec ∧
    (∀ b : Fin 256, Gen.macRomanTable.getD b.val 0 = macDecodeByte b.val ∧
      macEncodeOne (Gen.macRomanTable.getD b.val 0) = b.val) ∧
    (∀ r, macRepresentable r = true → Gen.macRomanTable.getD (macEncodeOne r) 0 = r) := by
  have h1 : Gen.macRomanTable = List.range 128 ++ Gen.macDec := by decide +kernel
  have h2 : ∀ b : Fin 256, Gen.macRomanTable.getD b.val 0 = macDecodeByte b.val := by decide +kernel
  refine ⟨h1, fun b => ⟨h2 b, by rw [h2 b]; exact mac_enc_dec_byte b⟩, fun r hr => ?_⟩
  obtain ⟨hd, hlt⟩ := mac_dec_enc_rune hr
  have := h2 ⟨macEncodeOne r, hlt⟩
  simp only at this
  rw [this, hd]

example : macRepresentable 0x2260 = true ∧ macEncode [0x41, 0x2260, 0xFB01] = [0x41, 173, 222] := by
  decide +kernel

/-- UTF-16BE as used by the name table: every sequence of Unicode scalar values (BMP characters
and supplementary characters, which become surrogate pairs) survives `utf16Encode` then
`utf16Decode`. -/
theorem C14_utf16_roundtrip (rr : List Nat) (h : ∀ r ∈ rr, isScalar r = true) :
    utf16Decode (utf16Encode rr) = rr :=
  utf16_roundtrip rr h

example : (∀ r ∈ [0x41, 0xD7FF, 0xE000, 0xFFFF, 0x10000, 0x1F600, 0x10FFFF], isScalar r = true) ∧
    utf16Encode [0x41, 0x1F600] = [0, 0x41, 0xD8, 0x3D, 0xDE, 0x00] := by decide

/-- Glyph names in the post table, for ANY table of standard names (in particular the one
regenerated from post/names.go, `postTable`; duplicates in it would be harmless): a name list
with at most 65535 glyphs, names of at most 255 bytes, and whose custom names fit the 16-bit
index space (`258 + number of custom names ≤ 65536`) is read back unchanged together with the
header fields; the standard list itself is written as format 1 (32 bytes) and read back; a nil
list is written as format 3 and read back as nil. -/
theorem C14_post_roundtrip (h : PostHdr) (hr : h.InRange) :
    (∀ ns : List GName, ns.length ≤ 65535 → (∀ n ∈ ns, n.length ≤ 255) →
        postTable.length + customCount postTable ns ≤ 65536 →
        postRead (postEncode h (some ns)) = .ok h (some ns)) ∧
    postEncode h (some postTable) = postHeader 0x00010000 h ∧
    postRead (postEncode h none) = .ok h none :=
  ⟨fun ns h1 h2 h3 => post_roundtrip_with postTable h hr ns h1 h2 h3,
   post_format1 postTable h, post_roundtrip_nil postTable h hr⟩

example : (⟨0xFFF40000, 0xFF9C, 50, true⟩ : PostHdr).InRange := by simp [PostHdr.InRange]
example : customCount [[97], [98]] [[98], [120, 121], [97], [120, 121]] = 2 := by decide

/-- The regenerated language tables are well-formed Go map literals: 16-bit ids, no empty tag,
distinct keys (whole tables, by evaluation in the kernel). -/
theorem C14_language_tables_ok :
    tableOK Gen.appleBCP = true ∧ keysDistinct Gen.appleBCP = true ∧
    tableOK Gen.msBCP = true ∧ keysDistinct Gen.msBCP = true := by
  refine ⟨?_, ?_, ?_, ?_⟩ <;> decide +kernel

/-- Table-level obligation on the language-id tables regenerated from name/locale.go ("platform
language identifiers map to BCP 47 tags and back without loss"): in `appleBCP` no two language ids
share a tag; in `msBCP` no two language ids share a tag EXCEPT 0x040A and 0x0C0A (Spanish,
traditional and modern sort: both `es-ES`, a legitimate alias — records under the two ids merge
on `Decode`); and every value of both tables has the shape `language[-Script][-REGION]`.  Whole
tables, kernel evaluation: a wrong entry (two ids given the same tag) breaks this theorem. -/
theorem C14_language_tables_injective :
    (Gen.appleBCP.Pairwise fun p q => p.2 = q.2 → False) ∧
    (Gen.msBCP.Pairwise fun p q => p.2 = q.2 →
      (p.1 = 0x0C0A ∧ q.1 = 0x040A) ∨ (p.1 = 0x040A ∧ q.1 = 0x0C0A)) ∧
    (Gen.appleBCP.all fun p => wfTag p.2) = true ∧ (Gen.msBCP.all fun p => wfTag p.2) = true := by
  refine ⟨?_, ?_, appleBCP_wellformed, msBCP_wellformed⟩
  · exact (table_injective _ _ appleBCP_injective).imp fun h heq => by
      have := h heq; cases this
  · exact (table_injective _ _ msBCP_injective).imp fun h heq => by
      have := h heq
      simp only [aliasMs, Bool.or_eq_true, Bool.and_eq_true, beq_iff_eq] at this
      exact this

/-- The domain of the name-table round trip over the regenerated tables: `macOrder`/`winOrder`
are the orders in which Go iterates over `appleBCP`/`msBCP` (any enumeration of the maps); the
Info is a map (distinct platform/tag/name-id keys) over the supported tags, Mac strings lie in
the Mac Roman repertoire, Windows strings are Unicode scalar values, name ids are 16-bit, the
Windows encoding id is 1 or 10, and the record directory and the string storage fit the table's
16-bit fields (`6 + 12·records ≤ 65535`, `storage ≤ 65535` bytes; sufficient: the encoded strings
of all records together with the directory stay below 64 KiB). -/
def NameDomain (macOrder winOrder : List (Nat × String)) (info : List Entry) (winEid : Nat) : Prop :=
  NameDom Gen.appleBCP Gen.msBCP macOrder winOrder info winEid

/-- Name table (model of the repaired `Decode`, which reads Windows encodings 1 and 10): for every
Info in the domain and every iteration order of the language maps, `Decode (Encode info)` succeeds
and reports, for every platform, tag and name id, exactly the string the Info holds (empty when
it holds none). -/
theorem C14_name_roundtrip (macOrder winOrder : List (Nat × String)) (info : List Entry) (winEid : Nat)
    (h : NameDomain macOrder winOrder info winEid) :
    ∃ dec, nameDecode (nameEncodeWith macOrder winOrder info winEid) = some dec ∧
      ∀ p t i, getVal dec p t i = getVal info p t i :=
  name_roundtrip_with Gen.appleBCP Gen.msBCP macOrder winOrder info winEid h

/-- The decoded view, hence the whole round trip, does not depend on the order in which Go
iterates over the language maps (the bytes do: the string storage is laid out in that order). -/
theorem C14_name_order_independent (o₁ w₁ o₂ w₂ : List (Nat × String)) (info : List Entry) (winEid : Nat)
    (h₁ : NameDomain o₁ w₁ info winEid) (h₂ : NameDomain o₂ w₂ info winEid) :
    ∃ d₁ d₂, nameDecode (nameEncodeWith o₁ w₁ info winEid) = some d₁ ∧
      nameDecode (nameEncodeWith o₂ w₂ info winEid) = some d₂ ∧
      ∀ p t i, getVal d₁ p t i = getVal d₂ p t i := by
  obtain ⟨d₁, e₁, g₁⟩ := C14_name_roundtrip o₁ w₁ info winEid h₁
  obtain ⟨d₂, e₂, g₂⟩ := C14_name_roundtrip o₂ w₂ info winEid h₂
  exact ⟨d₁, d₂, e₁, e₂, fun p t i => by rw [g₁, g₂]⟩

/-- After the repair of `Encode` (language ids visited in increasing order) the encoder is a
function of the Info alone — `nameEncode` has no order parameter — and the round trip holds
for it: the sorted enumeration is one of the orders `C14_name_roundtrip` quantifies over. -/
theorem C14_name_encode_roundtrip (info : List Entry) (winEid : Nat)
    (h : NameDomain (sortLangs Gen.appleBCP) (sortLangs Gen.msBCP) info winEid) :
    (∀ lt, lt ∈ sortLangs Gen.appleBCP ↔ lt ∈ Gen.appleBCP) ∧
    (∀ lt, lt ∈ sortLangs Gen.msBCP ↔ lt ∈ Gen.msBCP) ∧
    ∃ dec, nameDecode (nameEncode info winEid) = some dec ∧
      ∀ p t i, getVal dec p t i = getVal info p t i :=
  ⟨fun lt => mem_sortLangs lt _, fun lt => mem_sortLangs lt _,
   C14_name_roundtrip _ _ info winEid h⟩

/-- non-vacuity: a two-platform Info (shared string, Mac Roman and supplementary characters)
lies in the domain for the source order of the tables -/
example : NameDomain Gen.appleBCP Gen.msBCP
    [⟨1, "en", 1, [70, 0x2260]⟩, ⟨1, "de", 4, [70, 0x2260]⟩, ⟨3, "en-US", 1, [70, 0x1F600]⟩,
     ⟨3, "en-US", 300, [0x4E2D]⟩] 1 where
  apple_ok := ⟨C14_language_tables_ok.1, C14_language_tables_ok.2.1⟩
  ms_ok := ⟨C14_language_tables_ok.2.2.1, C14_language_tables_ok.2.2.2⟩
  mac_order := fun _ => Iff.rfl
  win_order := fun _ => Iff.rfl
  keys := by unfold keysNodup; decide
  plat := by decide
  mac := by
    intro e he hp
    simp only [List.mem_cons, List.not_mem_nil, or_false] at he
    rcases he with rfl | rfl | rfl | rfl
    · exact ⟨⟨0, by decide +kernel⟩, by decide +kernel⟩
    · exact ⟨⟨2, by decide +kernel⟩, by decide +kernel⟩
    · cases hp
    · cases hp
  win := by
    intro e he hp
    simp only [List.mem_cons, List.not_mem_nil, or_false] at he
    rcases he with rfl | rfl | rfl | rfl
    · cases hp
    · cases hp
    · exact ⟨⟨1033, by decide +kernel⟩, by decide +kernel⟩
    · exact ⟨⟨1033, by decide +kernel⟩, by decide +kernel⟩
  ids := by decide
  eid := Or.inl rfl
  fits_records := by decide +kernel
  fits_storage := by decide +kernel

/-- the same Info lies in the domain for the increasing order the repaired encoder uses -/
example : NameDomain (sortLangs Gen.appleBCP) (sortLangs Gen.msBCP)
    [⟨1, "en", 1, [70, 0x2260]⟩, ⟨1, "de", 4, [70, 0x2260]⟩, ⟨3, "en-US", 1, [70, 0x1F600]⟩,
     ⟨3, "en-US", 300, [0x4E2D]⟩] 1 where
  apple_ok := ⟨C14_language_tables_ok.1, C14_language_tables_ok.2.1⟩
  ms_ok := ⟨C14_language_tables_ok.2.2.1, C14_language_tables_ok.2.2.2⟩
  mac_order := fun lt => mem_sortLangs lt _
  win_order := fun lt => mem_sortLangs lt _
  keys := by unfold keysNodup; decide
  plat := by decide
  mac := by
    intro e he hp
    simp only [List.mem_cons, List.not_mem_nil, or_false] at he
    rcases he with rfl | rfl | rfl | rfl
    · exact ⟨⟨0, by decide +kernel⟩, by decide +kernel⟩
    · exact ⟨⟨2, by decide +kernel⟩, by decide +kernel⟩
    · cases hp
    · cases hp
  win := by
    intro e he hp
    simp only [List.mem_cons, List.not_mem_nil, or_false] at he
    rcases he with rfl | rfl | rfl | rfl
    · cases hp
    · cases hp
    · exact ⟨⟨1033, by decide +kernel⟩, by decide +kernel⟩
    · exact ⟨⟨1033, by decide +kernel⟩, by decide +kernel⟩
  ids := by decide
  eid := Or.inl rfl
  fits_records := by decide +kernel
  fits_storage := by decide +kernel

/-- The tables the library carries are the published ones: the regenerated Mac Roman table equals
the Apple table and the regenerated glyph-name list equals the standard Macintosh order, both as
written down independently in `Spec/Names.lean`. -/
theorem C14_tables_are_standard :
    Gen.macDec = Spec.macRomanHigh ∧ Gen.postMacRoman = Spec.standardNames := by
  constructor <;> decide +kernel

/-- Script/language tags, string level, x/text abstract.  `extOf` stands for
`language.Parse` followed by `tag.Extension('x').String()`; the hypothesis says what x/text is
assumed to answer for the strings `otfToBCP47` builds (the private-use subtags, lower-cased) —
this is checked against the real x/text by the correspondence stream `names.tagext`, not proved.
Then for EVERY script tag of the regenerated `scriptBcp47` and every language tag of the
regenerated `langBcp47` (or the default language system, `[]`), `bcp47ToOtf (otfToBCP47 s l)`
gives back `(s, l)` (model of the repaired code: short script tags lose and regain their padding). -/
theorem C14_tag_roundtrip_partial (extOf : List Nat → Option (List Nat))
    (hx : ∀ bs bl s l, extOf (otfTagString bs bl s l) = some (extString s l)) :
    ∀ p ∈ Gen.otScripts, ∀ q ∈ ([], [117, 110, 100]) :: Gen.otLangs,
      (extOf (otfTagString p.2 q.2 p.1 q.1)).bind extToOtf = some (p.1, q.1) := by
  intro p hp q hq
  rw [hx]
  have hs : OTScript p.1 := isOTScriptB_sound _ (List.all_eq_true.mp otScripts_shape p hp)
  have hl : OTLang q.1 := by
    simp only [List.mem_cons] at hq
    rcases hq with rfl | hq
    · exact Or.inl rfl
    · exact isOTLangB_sound _ (List.all_eq_true.mp otLangs_shape q hq)
  exact tag_roundtrip p.1 q.1 hs hl

/-- the same for every well-shaped tag pair, whether or not it is in the tables -/
theorem C14_tag_string_roundtrip (s l : List Nat) (hs : OTScript s) (hl : OTLang l) :
    extToOtf (extString s l) = some (s, l) := tag_roundtrip s l hs hl

example : OTScript [108, 97, 111, 32] ∧ OTLang [78, 76, 68, 32] ∧
    extString [108, 97, 111, 32] [78, 76, 68, 32] = [120, 45, 108, 97, 111, 45, 110, 108, 100] :=
  ⟨isOTScriptB_sound _ (by decide), isOTLangB_sound _ (by decide), by decide⟩

/-! ### the encoders refuse loudly what the formats cannot hold (repairs 96a7393, ac2ee73, 3d806bb) -/

/-- post: the checked encoder (model of `Encode` with its panics) returns bytes exactly when the
name list is the standard list or fits format 2.0 — at most 65535 glyphs, non-standard names of at
most 255 bytes, `258 + non-standard names ≤ 65536` (`postFits`, the guards of
`C14_post_roundtrip`) — and these are the bytes of `postEncode`. -/
theorem C14_post_checked_ok_iff (h : PostHdr) (ns : List GName) (b : List Nat) :
    postEncodeChecked h (some ns) = .ok b ↔
      (ns = postTable ∨ postFits postTable ns = true) ∧ b = postEncode h (some ns) :=
  postEncodeChecked_ok_iff postTable h ns b

/-- post, full strength: for EVERY glyph-name list (nil, any length, any names) `Encode` either
panics or writes a table from which `Read` returns the header fields and the list unchanged.
No silent loss anywhere in the property's domain (65535 custom names exceed what format 2.0 can
index: refusal is the only faithful outcome there). -/
theorem C14_post_checked_roundtrip (h : PostHdr) (hr : h.InRange) (names : Option (List GName)) :
    (∃ s, postEncodeChecked h names = .panic s) ∨
    (∃ b, postEncodeChecked h names = .ok b ∧ postRead b = .ok h names) :=
  post_checked_roundtrip postTable h hr names

/-- name: the checked encoder returns bytes exactly when every new string starts at an offset
≤ 0xFFFF and is at most 0xFFFF bytes long and `6 + 12·records ≤ 0xFFFF` (`nameFits`), and these
are the bytes of `nameEncodeWith`. -/
theorem C14_name_checked_ok_iff (macOrder winOrder : List (Nat × String)) (info : List Entry)
    (winEid : Nat) (b : List Nat) :
    nameEncodeCheckedWith macOrder winOrder info winEid = .ok b ↔
      nameFits macOrder winOrder info winEid = true ∧ b = nameEncodeWith macOrder winOrder info winEid :=
  nameEncodeChecked_ok_iff macOrder winOrder info winEid b

/-- name, full strength: for EVERY Info of the domain (distinct keys, supported tags, representable
strings, 16-bit name ids, encoding id 1 or 10 — NO bound on sizes) and every iteration order,
`Encode` either panics or writes a table from which `Decode` returns exactly the stored strings.
(`C14_name_roundtrip` keeps the older, sufficient guards `records`, `storage ≤ 65535`; this theorem
holds under the encoder's own, exact guard.) -/
theorem C14_name_checked_roundtrip (macOrder winOrder : List (Nat × String)) (info : List Entry)
    (winEid : Nat) (h : NameDomBase Gen.appleBCP Gen.msBCP macOrder winOrder info winEid) :
    (∃ s, nameEncodeCheckedWith macOrder winOrder info winEid = .panic s) ∨
    (∃ b dec, nameEncodeCheckedWith macOrder winOrder info winEid = .ok b ∧
      nameDecode b = some dec ∧ ∀ p t i, getVal dec p t i = getVal info p t i) :=
  name_checked_roundtrip Gen.appleBCP Gen.msBCP macOrder winOrder info winEid h

example : postFits [[97], [98]] [[98], [120, 121], [97]] = true ∧
    postFits [[97]] [List.replicate 256 120] = false := by decide +kernel

/-! ### tags without the `-x-` extension (repaired `bcp47ToOtf`, a8e5c74) -/

/-- Determinism: for a tag without extension the answer of `bcp47ToOtf` does not depend on the
order in which Go iterates over `scriptBcp47` / `langBcp47` (any two enumerations of the
regenerated tables give the same pair). -/
theorem C14_tag_noext_deterministic (so₁ lo₁ so₂ lo₂ : List (List Nat × List Nat))
    (h1 : ∀ p, p ∈ so₁ ↔ p ∈ Gen.otScripts) (h2 : ∀ p, p ∈ lo₁ ↔ p ∈ Gen.otLangs)
    (h3 : ∀ p, p ∈ so₂ ↔ p ∈ Gen.otScripts) (h4 : ∀ p, p ∈ lo₂ ↔ p ∈ Gen.otLangs)
    (kind : Nat) (rawLang script : List Nat) :
    noExtToOtf so₁ lo₁ kind rawLang script = noExtToOtf so₂ lo₂ kind rawLang script := by
  have ks := tagTableOK_keys _ otScripts_ok
  have kl := tagTableOK_keys _ otLangs_ok
  unfold noExtToOtf
  rw [revLookup_order_independent so₁ so₂ script (fun p => (h1 p).trans (h3 p).symm)
        (fun p hp => ks p ((h1 p).mp hp)),
      revLookup_order_independent lo₁ lo₂ rawLang (fun p => (h2 p).trans (h4 p).symm)
        (fun p hp => kl p ((h2 p).mp hp))]

/-- Normal form of `bcp47ToOtf ∘ (value of)`: send a script tag `p` and a language tag `q` of
the tables as the plain BCP 47 tag "`lang`-`Script`" (possible when the language value is a bare
subtag: all but the eight of `otLangs_dashed`).  What comes back is `(p, q)` itself EXCEPT that a
tag sharing its BCP 47 value with a smaller tag comes back as that smaller twin: exactly the ten
scripts of `scriptTwins` (`bng2→beng`, `deva→dev2`, `gujr→gjr2`, `guru→gur2`, `knda→knd2`,
`mlym→mlm2`, `mymr→mym2`, `orya→ory2`, `telu→tel2`, `tml2→taml`) and the nineteen languages of
`langTwins` (`NLD→FLE`, `ROM→MOL`, `HYE0→HYE`, …).  The default language system (`und`) comes
back as the empty language tag. -/
theorem C14_tag_noext_normal_form (p : List Nat × List Nat) (hp : p ∈ Gen.otScripts) :
    (∀ q ∈ Gen.otLangs, q.2.contains 45 = false →
      noExtToOtf Gen.otScripts Gen.otLangs 0 q.2 p.2 = (nfTag scriptTwins p.1, nfTag langTwins q.1)) ∧
    noExtToOtf Gen.otScripts Gen.otLangs 0 undS p.2 = (nfTag scriptTwins p.1, []) ∧
    (tagGet scriptTwins p.1 = none → nfTag scriptTwins p.1 = p.1) := by
  refine ⟨?_, ?_, ?_⟩
  · intro q hq hd
    simp only [noExtToOtf, show (0 : Nat) ≠ 1 by omega, show (0 : Nat) ≠ 2 by omega,
      show (0 : Nat) ≠ 3 by omega, if_false, otScripts_nf p hp, otLangs_nf q hq hd]
  · have hu : revLookup Gen.otLangs undS = [] := by
      rcases revLookup_spec Gen.otLangs undS (tagTableOK_keys _ otLangs_ok) with ⟨h0, _⟩ | ⟨_, ⟨w, hw, _, hw2⟩, _⟩
      · exact h0
      · have := List.all_eq_true.mp otTables_misc.1 w hw
        simp [hw2] at this
    simp only [noExtToOtf, show (0 : Nat) ≠ 1 by omega, show (0 : Nat) ≠ 2 by omega,
      show (0 : Nat) ≠ 3 by omega, if_false, otScripts_nf p hp, hu]
  · intro h; simp [nfTag, h]

/-- `otfToBCP47 (bcp47ToOtf t) ≈ t` for every plain tag the tables can express (string level):
if `t` has script `S` (a value of `scriptBcp47`) and language `L` (a value of `langBcp47`, or
`und`), then for every iteration order `bcp47ToOtf t = (s, l)` names OpenType tags the library
knows and `otfToBCP47 (s, l)` builds the string "`L`-`S`-x-`s`[-`l`]": the same language and
script, plus the private-use extension recording the OpenType tags chosen. -/
theorem C14_tag_noext_back (so lo : List (List Nat × List Nat))
    (hso : ∀ p, p ∈ so ↔ p ∈ Gen.otScripts) (hlo : ∀ p, p ∈ lo ↔ p ∈ Gen.otLangs)
    (S L : List Nat) (hS : ∃ k, (k, S) ∈ Gen.otScripts)
    (hL : (∃ k, (k, L) ∈ Gen.otLangs) ∨ L = undS) :
    otfToBCP47Str Gen.otScripts Gen.otLangs (noExtToOtf so lo 0 L S).1 (noExtToOtf so lo 0 L S).2 =
      some (otfTagString S L (noExtToOtf so lo 0 L S).1 (noExtToOtf so lo 0 L S).2) := by
  apply noext_back Gen.otScripts Gen.otLangs so lo otScripts_ok otLangs_ok hso hlo S L hS
  rcases hL with h | h
  · exact Or.inl h
  · refine Or.inr ⟨h, fun p hp => ?_⟩
    have := List.all_eq_true.mp otTables_misc.1 p hp
    simpa using this

/-- The three special cases: `zh`, `zh-Hans`, `zh-Hant` give (`hani`, `ZHP `/`ZHS `/`ZHT `), and
`otfToBCP47` of these builds `zh-Hani-x-hani-zhp`, `zh-Hans-x-hani-zhs`, `zh-Hant-x-hani-zht`. -/
theorem C14_tag_chinese :
    noExtToOtf Gen.otScripts Gen.otLangs 1 [122, 104] [72, 97, 110, 115] = (hani, ZHP) ∧
    noExtToOtf Gen.otScripts Gen.otLangs 2 [122, 104] [72, 97, 110, 115] = (hani, ZHS) ∧
    noExtToOtf Gen.otScripts Gen.otLangs 3 [122, 104] [72, 97, 110, 116] = (hani, ZHT) ∧
    otfToBCP47Str Gen.otScripts Gen.otLangs hani ZHP =
      some [122, 104, 45, 72, 97, 110, 105, 45, 120, 45, 104, 97, 110, 105, 45, 90, 72, 80] ∧
    otfToBCP47Str Gen.otScripts Gen.otLangs hani ZHS =
      some [122, 104, 45, 72, 97, 110, 115, 45, 120, 45, 104, 97, 110, 105, 45, 90, 72, 83] := by
  refine ⟨rfl, rfl, rfl, ?_, ?_⟩ <;> decide +kernel

example : nfTag langTwins [78, 76, 68, 32] = [70, 76, 69, 32] ∧ nfTag langTwins [68, 69, 85, 32] = [68, 69, 85, 32] ∧
    nfTag scriptTwins [98, 110, 103, 50] = [98, 101, 110, 103] := by decide

/-- Script lists, tags to tags: the composition of this property's tag conversions with the
binary script-list codec proved in C08 (`SL.encode` / `SL.readSized`, `C08_scriptlist_roundtrip`).
A Go `ScriptListInfo` is a list of items (key as x/text presents it, required feature, optional
features).  Hypotheses: every key lies in the domain of the tag theorems (`KeyOk`: a tag built by
`otfToBCP47` from a pair of the regenerated tables, or a plain tag whose script and language the
tables can express); feature indices are 16-bit (no optional index 0xFFFF, which the reader
normalises); distinct keys give distinct OpenType tag pairs (automatic for extension keys; two
plain keys must not be twins); the encoder returns bytes (it panics beyond 16-bit offsets).
C08's domain `SL.InputOk` is DERIVED from these (the key lists C08 regenerates are the same
tables: `c08_keys_same`).  Conclusion: the reader — at any position of a table of `size` bytes —
returns entries such that every item comes back with its features under the key string `strs it`
(the very string for extension keys; "`L`-`S`" plus the extension naming the smallest matching
OpenType tags for plain keys), and nothing else comes back.  Holds for every iteration order
`so`/`lo` of the two tag maps. -/
theorem C14_scriptlist_roundtrip (so lo : List (List Nat × List Nat))
    (hso : ∀ p, p ∈ so ↔ p ∈ Gen.otScripts) (hlo : ∀ p, p ∈ lo ↔ p ∈ Gen.otLangs)
    (m : List SLItem) (strs : SLItem → List Nat) (hk : ∀ it ∈ m, KeyOk so lo it.key (strs it))
    (hf : ∀ it ∈ m, it.required < 65536 ∧ it.optional.length < 65536 ∧ ∀ x ∈ it.optional, x < 65535)
    (hd : (toEntries so lo m).Pairwise fun a c => ¬ (a.script = c.script ∧ a.lang = c.lang))
    (b : Bytes) (hb : Otl.SL.encode (toEntries so lo m) = .ok b)
    (tail : Bytes) (size : Nat) (hsize : (b ++ tail).length ≤ size) :
    ∃ r, Otl.SL.readSized size (b ++ tail) = .ok r ∧
      (∀ it ∈ m, ∃ e ∈ r, e.required = it.required ∧ e.optional = it.optional ∧
        backString e = some (strs it)) ∧
      (∀ e ∈ r, ∃ it ∈ m, e.required = it.required ∧ e.optional = it.optional ∧
        backString e = some (strs it)) :=
  scriptlist_roundtrip so lo hso hlo m strs hk
    (inputOk_of_items so lo hso hlo m strs hk hf hd) b hb tail size hsize

example : KeyOk Gen.otScripts Gen.otLangs (.ext (extString [108, 97, 116, 110] [78, 76, 68, 32]))
    (otfTagString [76, 97, 116, 110] [110, 108] [108, 97, 116, 110] [78, 76, 68, 32]) :=
  KeyOk.ext ([108, 97, 116, 110], [76, 97, 116, 110]) ([78, 76, 68, 32], [110, 108])
    (by decide +kernel) (by decide +kernel)

/-- `Tables.Choose`, up to the external matcher: the candidate list handed to
`language.NewMatcher` contains exactly the map's keys, and it is the same list for every
iteration order of the Go map (so, for a deterministic matcher, `Choose` returns the same table
on every call). -/
theorem C14_choose_order_deterministic (t₁ t₂ : List (List Nat × Nat)) (hd : KeysDistinct t₁)
    (hp : t₁.Perm t₂) :
    chooseOrder t₁ = chooseOrder t₂ ∧ (chooseOrder t₁).Perm (t₁.map (·.1)) ∧
      ∀ idx, choose t₁ idx = choose t₂ idx := by
  have h := chooseOrder_perm_invariant t₁ t₂ hd hp
  refine ⟨h, chooseOrder_perm t₁, fun idx => ?_⟩
  unfold choose
  rw [h]
  by_cases h1 : t₁ = []
  · subst h1
    have : t₂ = [] := List.Perm.eq_nil hp.symm
    subst this; rfl
  · have h2 : t₂ ≠ [] := fun e => h1 (by subst e; exact List.Perm.eq_nil hp)
    simp [h1, h2]

/-- The matcher's default (index 0, returned when no preference matches) is a table of maximal
preference: ten points per name, +55 for `en-US`, +5 for other English tags. -/
theorem C14_choose_default_is_best (tt : List (List Nat × Nat)) (e : List Nat × Nat)
    (rest : List (List Nat × Nat)) (h : tt.mergeSort chooseLe = e :: rest) :
    choose tt 0 = some e.1 ∧ ∀ x ∈ tt, choosePref x ≤ choosePref e := by
  refine ⟨?_, choose_head_max tt e rest h⟩
  have : tt ≠ [] := by
    intro e'; subst e'; simp at h
  simp [choose, chooseOrder, this, h]

example : choosePref (enUS, 1) = 65 ∧ choosePref (enKey, 6) = 65 ∧ choosePref ([100, 101], 7) = 70 ∧
    chooseLe (enKey, 6) (enUS, 1) = true ∧ chooseLe (enUS, 1) (enKey, 6) = false ∧
    KeysDistinct [([100, 101], 7), (enUS, 1), (enKey, 6)] := by
  refine ⟨by decide, by decide, by decide, by decide, by decide, ?_⟩
  unfold KeysDistinct; decide

end SfntV.Props.C14
