/-
C08 — GSUB/GPOS/GDEF binary encoding round-trips with consistent offsets and sizes.
Only property theorems and non-vacuity examples live here; helper lemmas are in Proofs/Otl*.
-/
import SfntV.Proofs.OtlCoverage
import SfntV.Proofs.OtlClassDef
import SfntV.Proofs.OtlGsub
import SfntV.Proofs.OtlLookupList
import SfntV.Proofs.OtlGpos
import SfntV.Proofs.OtlFeatureList
import SfntV.Proofs.OtlGdef
import SfntV.Proofs.OtlGtab
import SfntV.Proofs.OtlScriptList
import SfntV.Proofs.OtlGsub8
import SfntV.Proofs.OtlGposMark
import SfntV.Proofs.OtlGposMark4
import SfntV.Proofs.OtlGpos22
import SfntV.Proofs.OtlContext
import SfntV.Proofs.OtlLookupRead
import SfntV.Proofs.OtlCovRange
import SfntV.Proofs.OtlInfoAdapter
import SfntV.Proofs.OtlCodecs
import SfntV.Proofs.OtlInfoGo

namespace SfntV.Props.C08
open SfntV SfntV.Otl

/-! ## Coverage tables (`coverage.Table`, `coverage.Set`)

A valid `coverage.Table` — coverage indices `0..n-1`, strictly monotonic in the glyph id — is its
list of glyph ids in index order; `Cov.Valid gs` says that list is strictly increasing and every id
is a 16-bit value.  `gs.zipIdx` is the table `{gs[i] ↦ i}`. -/

/-- Decoding the encoded table with the model of `coverage.Read` gives the table back, for every
valid coverage table. -/
theorem C08_cov_roundtrip (gs : List Nat) (h : Cov.Valid gs) :
    ∃ b, Cov.encode gs = .ok b ∧ Cov.read b = .ok gs.zipIdx := by
  refine ⟨_, Cov.encode_eq gs h, ?_⟩
  unfold Cov.read
  rw [bytesToWords_wordsToBytes _ (Cov.encodeW_lt gs h)]
  exact (Cov.readW_encodeW gs h).1

/-- The number of bytes emitted is the number `EncodeLen` declares. -/
theorem C08_cov_len (gs : List Nat) (h : Cov.Valid gs) :
    ∃ b n, Cov.encode gs = .ok b ∧ Cov.encodeLen gs = .ok n ∧ b.length = n := by
  refine ⟨_, _, Cov.encode_eq gs h, Cov.encodeLen_eq gs h, ?_⟩
  rw [length_wordsToBytes]
  exact Cov.encodeW_length gs h

/-- Read by the *specification* of the coverage table formats, the emitted bytes define exactly the
pairs (glyph, coverage index) with the glyphs in increasing order and the indices `0, 1, …, n-1`. -/
theorem C08_cov_indices (gs : List Nat) (h : Cov.Valid gs) :
    ∃ b es, Cov.encode gs = .ok b ∧ Cov.specEntries (bytesToWords b) = some es ∧
      es.map (·.1) = gs ∧ es.map (·.2) = List.range gs.length ∧ (es.map (·.1)).Pairwise (· < ·) := by
  refine ⟨_, gs.zipIdx, Cov.encode_eq gs h, ?_, ?_, ?_, ?_⟩
  · rw [bytesToWords_wordsToBytes _ (Cov.encodeW_lt gs h)]
    exact (Cov.readW_encodeW gs h).2
  · simp
  · simp [List.range_eq_range']
  · simpa using h.sorted

/-- The emitted table has the size of the smaller of the two formats (format 1: `4 + 2·#glyphs`,
format 2: `4 + 6·#maximal runs of consecutive ids`), and its format word says which one it is
(format 1 on a tie). -/
theorem C08_cov_minimal (gs : List Nat) (h : Cov.Valid gs) :
    ∃ b, Cov.encode gs = .ok b ∧
      b.length = min (4 + 2 * gs.length) (4 + 6 * Cov.numRuns gs) ∧
      (bytesToWords b).head? =
        some (if 4 + 2 * gs.length ≤ 4 + 6 * Cov.numRuns gs then 1 else 2) := by
  refine ⟨_, Cov.encode_eq gs h, ?_, ?_⟩
  · rw [length_wordsToBytes, Cov.encodeW_length gs h]
    simp only [Cov.fmt1Len, Cov.fmt2Len, Cov.rangeCount_eq_numRuns gs h.small]
    split <;> omega
  · rw [bytesToWords_wordsToBytes _ (Cov.encodeW_lt gs h)]
    unfold Cov.encodeW
    simp only [Cov.fmt1Len, Cov.fmt2Len, Cov.rangeCount_eq_numRuns gs h.small]
    split <;> simp

/-- The Go value is a map `{gs[i] ↦ i}` (`Cov.tableOf gs`); in whatever order it is iterated,
`encInfo` recovers the glyph list `gs` the theorems above are stated for — so the encoder's output
does not depend on the iteration order. -/
theorem C08_cov_order_independent (gs : List Nat) (m : List (Nat × Int))
    (hp : m.Perm (Cov.tableOf gs)) : Cov.revOf m = .ok gs :=
  Cov.revOf_table gs m hp

/-! Non-vacuity: a table with two runs is valid, is written in format 2 (16 < 4 + 2·9), and reads back. -/

def exCov : List Nat := [3, 4, 5, 6, 7, 8, 20, 21, 22]

example : Cov.Valid exCov := ⟨by decide, by decide⟩
example : Cov.encode exCov = .ok (wordsToBytes [2, 2, 3, 8, 0, 20, 22, 6]) := by decide
example : Cov.read (wordsToBytes [2, 2, 3, 8, 0, 20, 22, 6]) = .ok exCov.zipIdx := by decide
/-- format 1 on a tie: three runs of one glyph (10 bytes vs 22) and one run of three glyphs (10 vs 10) -/
example : Cov.encode [7, 8, 9] = .ok (wordsToBytes [1, 3, 7, 8, 9]) := by decide

/-! ## Class definition tables (`classdef.Table`)

A Go `classdef.Table` is an association list `m` of (glyph, class) pairs (explicit class-0 entries
allowed); `ClassDef.TabOk m`: non-empty, every key and class a 16-bit value.  The table *as a
function* is `ClassDef.get m` (class 0 for glyphs without an entry).  The model is that of the
repaired `classdef.go` (see the header of Model/OtlClassDef). -/

/-- Whatever `Append` writes for a table reads back — with the model of `classdef.Read` and with
the specification of the two formats — as the same function glyph → class.  (If `Append` refuses,
nothing is written; see `C08_classdef_refusal`.) -/
theorem C08_classdef_roundtrip (m : ClassDef.Tab) (h : ClassDef.TabOk m) (b : Bytes)
    (hb : ClassDef.append m = .ok b) :
    ∃ es, ClassDef.read b = .ok es ∧
      ∀ g, ClassDef.classOf es g = ClassDef.get m g ∧
        ClassDef.specClass (bytesToWords b) g = some (ClassDef.get m g) := by
  have d := ClassDef.dom_of_tab m h
  have hne : m.isEmpty = false := by cases m with | nil => exact absurd rfl h.nonempty | cons _ _ => rfl
  unfold ClassDef.append ClassDef.appendF at hb
  rw [hne] at hb
  cases hw : ClassDef.appendWF false (ClassDef.get m) (ClassDef.minGid m) (ClassDef.maxGid m) with
  | ok ws =>
    rw [hw] at hb
    simp only [Outcome.ok.injEq] at hb
    subst hb
    have sh := ClassDef.appendWF_shape _ _ _ d ws hw
    unfold ClassDef.read
    rw [bytesToWords_wordsToBytes _ (ClassDef.shape_lt _ _ _ d ws sh)]
    exact ClassDef.shape_read _ _ _ d ws sh
  | err e => rw [hw] at hb; simp at hb
  | panic s => rw [hw] at hb; simp at hb

/-- The empty table is written as an empty format-2 table (4 bytes, as declared) and reads back
empty. -/
theorem C08_classdef_empty :
    ClassDef.append [] = .ok (wordsToBytes [2, 0]) ∧ ClassDef.appendLen [] = 4 ∧
      ClassDef.read (wordsToBytes [2, 0]) = .ok [] := by decide

/-- The number of bytes written is the number `AppendLen` declares. -/
theorem C08_classdef_len (m : ClassDef.Tab) (h : ClassDef.TabOk m) (b : Bytes)
    (hb : ClassDef.append m = .ok b) : b.length = ClassDef.appendLen m := by
  have d := ClassDef.dom_of_tab m h
  have hne : m.isEmpty = false := by cases m with | nil => exact absurd rfl h.nonempty | cons _ _ => rfl
  unfold ClassDef.append ClassDef.appendF at hb
  unfold ClassDef.appendLen
  rw [hne] at hb ⊢
  cases hw : ClassDef.appendWF false (ClassDef.get m) (ClassDef.minGid m) (ClassDef.maxGid m) with
  | ok ws =>
    rw [hw] at hb
    simp only [Outcome.ok.injEq] at hb
    subst hb
    rw [length_wordsToBytes]
    exact ClassDef.shape_length _ _ _ ws (ClassDef.appendWF_shape _ _ _ d ws hw)
  | err e => rw [hw] at hb; simp at hb
  | panic s => rw [hw] at hb; simp at hb

/-- `Append` never fails quietly: it either writes (previous theorems) or panics, and it panics only
for tables whose keys span all 65536 glyph ids (then neither format can hold a table in which more
than 65535 class ranges are needed). -/
theorem C08_classdef_refusal (m : ClassDef.Tab) :
    (∀ e, ClassDef.append m ≠ .err e) ∧
    (∀ s, ClassDef.append m = .panic s → ClassDef.maxGid m - ClassDef.minGid m + 1 > 0xFFFF) := by
  constructor
  · intro e he
    unfold ClassDef.append ClassDef.appendF at he
    cases hw : ClassDef.appendWF m.isEmpty (ClassDef.get m) (ClassDef.minGid m) (ClassDef.maxGid m) with
    | ok ws => rw [hw] at he; simp at he
    | err e' => exact ClassDef.appendWF_not_err _ _ _ _ e' hw
    | panic s => rw [hw] at he; simp at he
  · intro s hs
    unfold ClassDef.append ClassDef.appendF at hs
    cases hw : ClassDef.appendWF m.isEmpty (ClassDef.get m) (ClassDef.minGid m) (ClassDef.maxGid m) with
    | ok ws => rw [hw] at hs; simp at hs
    | err e' => rw [hw] at hs; simp at hs
    | panic s' =>
      cases hm : m.isEmpty with
      | true => rw [hm] at hw; simp [ClassDef.appendWF] at hw
      | false => rw [hm] at hw; exact ClassDef.appendWF_panic _ _ _ s' hw

/-! Non-vacuity: a table with an explicit class-0 entry, a format-1/format-2 tie
(two glyphs, one range: 10 bytes either way — format 1 is written), and a format-2 table. -/

def exClass : ClassDef.Tab := [(12, 1), (10, 1), (11, 1), (14, 0), (30, 2), (31, 2), (32, 2), (33, 2)]

example : ClassDef.TabOk exClass := ⟨by decide, by decide⟩
example : ClassDef.append exClass = .ok (wordsToBytes [2, 2, 10, 12, 1, 30, 33, 2]) := by decide
example : ClassDef.append [(5, 1), (6, 1)] = .ok (wordsToBytes [1, 5, 2, 1, 1]) := by decide

/-! ## GSUB subtables (models of the repaired `gsub.go`: a coverage offset that does not fit 16 bits
is refused with a panic)

Coverage tables are valid glyph lists as above; glyph ids and the delta are 16-bit values; there is
one substitute / one sequence per covered glyph (the normal form the reader establishes by pruning).
`readSubtable tp` is the model of `readGsubSubtable` for lookup type `tp`. -/

/-- GSUB 1.1: decode ∘ encode = id. -/
theorem C08_st_roundtrip_gsub1_1 (gs : List Nat) (h : Cov.Valid gs) (delta : Nat) (hd : delta < 65536) :
    ∃ b, Gsub.encode11 gs delta = .ok b ∧ Gsub.readSubtable 1 b = .ok (.s11 gs delta) :=
  let ⟨b, h1, h2, _⟩ := Gsub.roundtrip11 gs h delta hd; ⟨b, h1, h2⟩

/-- GSUB 1.1: `encodeLen` is the number of bytes `encode` produces. -/
theorem C08_st_len_gsub1_1 (gs : List Nat) (h : Cov.Valid gs) (delta : Nat) (hd : delta < 65536) :
    ∃ b, Gsub.encode11 gs delta = .ok b ∧ Gsub.encodeLen11 gs = .ok b.length :=
  let ⟨b, h1, _, h3⟩ := Gsub.roundtrip11 gs h delta hd; ⟨b, h1, h3⟩

/-- GSUB 1.2: if the coverage offset `6 + 2n` fits 16 bits, decode ∘ encode = id and the declared
size is the emitted size; otherwise the encoder refuses (panic) — it never writes a wrapped offset. -/
theorem C08_st_roundtrip_gsub1_2 (rev subs : List Nat) (h : Cov.Valid rev)
    (hl : subs.length = rev.length) (hs : ∀ x ∈ subs, x < 65536) :
    (6 + 2 * subs.length ≤ 0xFFFF →
      ∃ b, Gsub.encode12 rev subs = .ok b ∧ Gsub.readSubtable 1 b = .ok (.s12 rev.zipIdx subs)) ∧
    (6 + 2 * subs.length > 0xFFFF → ∃ s, Gsub.encode12 rev subs = .panic s) :=
  ⟨fun hfit => let ⟨b, h1, h2, _⟩ := Gsub.roundtrip12 rev subs h hl hs hfit; ⟨b, h1, h2⟩,
   Gsub.refusal12 rev subs⟩

theorem C08_st_len_gsub1_2 (rev subs : List Nat) (h : Cov.Valid rev)
    (hl : subs.length = rev.length) (hs : ∀ x ∈ subs, x < 65536) (hfit : 6 + 2 * subs.length ≤ 0xFFFF) :
    ∃ b, Gsub.encode12 rev subs = .ok b ∧ Gsub.encodeLen12 rev subs = .ok b.length :=
  let ⟨b, h1, _, h3⟩ := Gsub.roundtrip12 rev subs h hl hs hfit; ⟨b, h1, h3⟩

/-- GSUB 2.1 (`tp = 2`, Multiple Substitution) and GSUB 3.1 (`tp = 3`, Alternate Substitution),
whose layouts coincide: if the table without its coverage (`seqTotal`, which is the coverage
offset) fits 16 bits, decode ∘ encode = id; otherwise the encoder refuses. -/
theorem C08_st_roundtrip_gsub2_1_3_1 (tp : Nat) (htp : tp = 2 ∨ tp = 3) (rev : List Nat)
    (seqs : List (List Nat)) (h : Cov.Valid rev) (hl : seqs.length = rev.length)
    (hs : ∀ r ∈ seqs, ∀ x ∈ r, x < 65536) :
    (Gsub.seqTotal seqs ≤ 0xFFFF →
      ∃ b, Gsub.encodeSeq rev seqs = .ok b ∧ Gsub.readSubtable tp b = .ok (.seq tp rev.zipIdx seqs)) ∧
    (Gsub.seqTotal seqs > 0xFFFF → ∃ s, Gsub.encodeSeq rev seqs = .panic s) :=
  ⟨fun hfit => let ⟨b, h1, h2, _⟩ := Gsub.roundtripSeq tp htp rev seqs h hl hs hfit; ⟨b, h1, h2⟩,
   Gsub.refusalSeq rev seqs⟩

theorem C08_st_len_gsub2_1_3_1 (rev : List Nat) (seqs : List (List Nat)) (h : Cov.Valid rev)
    (hl : seqs.length = rev.length) (hs : ∀ r ∈ seqs, ∀ x ∈ r, x < 65536)
    (hfit : Gsub.seqTotal seqs ≤ 0xFFFF) :
    ∃ b, Gsub.encodeSeq rev seqs = .ok b ∧ Gsub.encodeLenSeq rev seqs = .ok b.length :=
  let ⟨b, h1, _, h3⟩ := Gsub.roundtripSeq 2 (Or.inl rfl) rev seqs h hl hs hfit; ⟨b, h1, h3⟩

/-- GSUB 4.1 (Ligature Substitution): one ligature set per covered glyph, all glyph ids 16-bit
values (`Gsub.LigOk`).  If the table without its coverage (`lig41Total`, the coverage offset) fits
16 bits, decode ∘ encode = id and the declared size is the emitted size; otherwise the encoder
refuses (the panic that exists in the code). -/
theorem C08_st_roundtrip_gsub4_1 (rev : List Nat) (repl : List (List Gsub.Lig)) (h : Cov.Valid rev)
    (hl : repl.length = rev.length) (hs : ∀ s ∈ repl, ∀ l ∈ s, Gsub.LigOk l) :
    (Gsub.lig41Total repl ≤ 0xFFFF →
      ∃ b, Gsub.encode41 rev repl = .ok b ∧ Gsub.readSubtable 4 b = .ok (.s41 rev.zipIdx repl) ∧
        Gsub.encodeLen41 rev repl = .ok b.length) ∧
    (Gsub.lig41Total repl > 0xFFFF → ∃ s, Gsub.encode41 rev repl = .panic s) :=
  ⟨Gsub.roundtrip41 rev repl h hl hs, Gsub.refusal41 rev repl h⟩

/-- GSUB 8.1 (Reverse Chaining Contextual Single Substitution), model of the repaired encoder: input
coverage with one substitute per covered glyph, any number of backtrack and lookahead coverage tables.
Whenever the encoder returns bytes (it panics when a coverage offset does not fit 16 bits), the reader
gives the subtable back and the declared size is the emitted size. -/
theorem C08_st_roundtrip_gsub8_1 (input : List Nat) (back look : List (List Nat)) (subs : List Nat)
    (hi : Cov.Valid input) (hbk : ∀ c ∈ back, Cov.Valid c) (hlk : ∀ c ∈ look, Cov.Valid c)
    (hs : subs.length = input.length) (hsl : ∀ x ∈ subs, x < 65536) (b : Bytes)
    (henc : Gsub.encode81 input back look subs = .ok b) :
    Gsub.readSubtable 8 b =
      .ok (.s81 ⟨input.zipIdx, back.map List.zipIdx, look.map List.zipIdx, subs⟩) ∧
    Gsub.encodeLen81 input back look subs = .ok b.length :=
  Gsub.roundtrip81 input back look subs hi hbk hlk hs hsl b henc

/-! Non-vacuity -/
example : Gsub.encode41 [30] [[⟨[31, 32], 90⟩, ⟨[], 91⟩]] =
    .ok (wordsToBytes [1, 26, 1, 8, 2, 6, 14, 90, 3, 31, 32, 91, 1, 1, 1, 30]) := by decide
example : Gsub.encode81 [7] [[3, 4]] [[9]] [70] =
    .ok (wordsToBytes [1, 16, 1, 22, 1, 30, 1, 70, 1, 1, 7, 1, 2, 3, 4, 1, 1, 9]) := by decide
example : Gsub.encode12 [4, 5, 9] [100, 101, 7] =
    .ok (wordsToBytes [2, 12, 3, 100, 101, 7, 1, 3, 4, 5, 9]) := by decide
example : Gsub.encodeSeq [4, 5] [[1, 2, 3], []] =
    .ok (wordsToBytes [1, 20, 2, 10, 18, 3, 1, 2, 3, 0, 1, 2, 4, 5]) := by decide
example : Gsub.seqTotal [[1, 2, 3], []] = 20 := by decide

/-! ## Lookup-list layout (`LookupList.encode`, `tryReorder`, extension records)

Model of the repaired `lookup.go` (a subtable offset above 0xFFFF and an undeterminable extension
lookup type are refused with a panic).  Subtables are opaque byte strings (`Sub.bytes`, with
`encodeLen = |encode|`, which is what the `C08_st_len_*` theorems state per subtable type); `kind`
is what the encoder's type switch sees (GSUB-only, GPOS-only, neither).

Domain: lookup type, flags and mark filtering set are 16-bit values (`LL.LLDom`); `extT` is the
extension lookup type of the table the list goes into (7 for GSUB, 9 for GPOS) — no lookup has
that type itself, and it is the type the encoder derives from the subtables unless it cannot
derive any; the whole list stays below 4 GiB (32-bit sizes are not modelled). -/

/-- For every lookup list: whenever the encoder returns bytes, the *specification* reader
(`LL.specRead`: LookupList → Lookup tables → subtable offsets, through extension records where the
lookup type is the extension type) finds every lookup with its type, flags and mark filtering set,
and every subtable blob byte for byte at the place the 16-bit offsets (and the 32-bit extension
offsets) lead to — so no written offset was wrapped.  The encoder never returns an error value:
it writes or it refuses loudly (panic). -/
theorem C08_lookuplist_layout (ll : List LL.Lookup) (D : LL.LLDom ll) (extT : Nat) (hTlt : extT < 65536)
    (hT : ∀ l ∈ ll, l.type ≠ extT)
    (hX : LL.extLookupType ll = 0 ∨ LL.extLookupType ll = extT)
    (hsz : LL.totalSize (LL.chunksOf ll) + 8 * (ll.map (·.subs.length)).sum < 4294967296) :
    (∀ b, LL.encode ll = .ok b → LL.Recovered b extT ll ∧ LL.recovers b extT ll = true) ∧
    (∀ e, LL.encode ll ≠ .err e) :=
  ⟨fun b h =>
    have r := LL.recovered_of_encode ll D extT hTlt hT hX hsz b h
    ⟨r, LL.recovers_of_recovered b extT ll r⟩,
   LL.encode_not_err ll⟩

/-! Non-vacuity: two lookups, the second with a mark filtering set; and a list that needs an
extension record. -/
def exLL : List LL.Lookup :=
  [⟨1, 0, 0, [⟨1, wordsToBytes [1, 6, 5, 1, 1, 40]⟩]⟩, ⟨4, 16, 3, [⟨0, [1, 2, 3]⟩, ⟨0, [4]⟩]⟩]

example : LL.LLDom exLL := ⟨by decide⟩
example : LL.encode exLL = .ok (wordsToBytes [2, 6, 26, 1, 0, 1, 8, 1, 6, 5, 1, 1, 40, 4, 16, 2, 12, 15, 3] ++
    [1, 2, 3, 4]) := by decide
example : LL.recovers (wordsToBytes [2, 6, 26, 1, 0, 1, 8, 1, 6, 5, 1, 1, 40, 4, 16, 2, 12, 15, 3] ++
    [1, 2, 3, 4]) 7 exLL = true := by decide

/-! ## GPOS value records, GPOS 1.1 and 1.2 (models of the repaired `gpos.go`)

A `*GposValueRecord` is `none` (nil) or its eight 16-bit fields (`Gpos.VROk`). -/

/-- A value record written under any format that covers its non-zero fields reads back as itself
(`masked`: what `readValueRecord` returns for what `encode(format)` wrote). -/
theorem C08_valuerecord_roundtrip (vr : Gpos.VR) (hvr : Gpos.VROk vr) (tail : List Nat) :
    Gpos.vrRead (Gpos.getFormat vr) (Gpos.vrWords vr (Gpos.getFormat vr) ++ tail) = .ok (vr, tail) ∧
    (Gpos.vrWords vr (Gpos.getFormat vr)).length * 2 = Gpos.vrLen (Gpos.getFormat vr) := by
  constructor
  · rw [Gpos.vrRead_spec, Gpos.masked_of_covers vr hvr _ (Gpos.getFormat_eq_zero vr) (Gpos.getFormat_covers vr)]
  · rw [Gpos.vrWords_length vr _ (Gpos.getFormat_lt vr)]; unfold Gpos.vrLen; omega

/-- GPOS 1.1: decode ∘ encode = id and the declared size is the emitted size. -/
theorem C08_st_roundtrip_gpos1_1 (rev : List Nat) (h : Cov.Valid rev) (vr : Gpos.VR) (hvr : Gpos.VROk vr) :
    ∃ b, Gpos.encode11 rev vr = .ok b ∧ Gpos.readSubtable 1 b = .ok (.s11 rev.zipIdx vr) ∧
      Gpos.encodeLen11 rev vr = .ok b.length :=
  Gpos.roundtrip11 rev h vr hvr

/-- GPOS 1.2: with one record per covered glyph, fewer than 65536 records and a coverage offset
that fits 16 bits, the subtable reads back with every record in the explicit normal form of the
common value format (`masked`), and the declared size is the emitted size.  If all records are
non-nil (or all nil) the normal form is the record itself (`C08_gpos1_2_normal_form`).
(Excluded: 65536 records, which needs all of them nil — then `valueCount` is written as 0.) -/
theorem C08_st_roundtrip_gpos1_2 (rev : List Nat) (h : Cov.Valid rev) (vrs : List Gpos.VR)
    (hl : vrs.length = rev.length) (hvr : ∀ vr ∈ vrs, Gpos.VROk vr) (hn : vrs.length < 65536)
    (hfit : 8 + Gpos.vrLen (Gpos.orFormat vrs) * vrs.length ≤ 0xFFFF) :
    ∃ b, Gpos.encode12 rev vrs = .ok b ∧
      Gpos.readSubtable 1 b =
        .ok (.s12 rev.zipIdx (vrs.map fun vr => Gpos.masked vr (Gpos.orFormat vrs))) ∧
      Gpos.encodeLen12 rev vrs = .ok b.length :=
  Gpos.roundtrip12 rev h vrs hl hvr hn hfit

theorem C08_gpos1_2_normal_form (vrs : List Gpos.VR) (hvr : ∀ vr ∈ vrs, Gpos.VROk vr)
    (hu : (∀ vr ∈ vrs, vr = none) ∨ (∀ vr ∈ vrs, vr ≠ none)) :
    vrs.map (fun vr => Gpos.masked vr (Gpos.orFormat vrs)) = vrs :=
  Gpos.masked_id_of_uniform vrs hvr hu

/-- GPOS 2.1 (pair adjustment, format 1), given as `CovAndAdjust` presents the Go map: first glyphs
(a valid coverage list) and, per first glyph, the pairs (second glyph, two value records)
(`Gpos.PairSetOk`: 16-bit second glyphs, well-typed records; fewer than 65536 pairs per first glyph).
Whenever the encoder returns bytes, they read back as the same pair sets with every record in the
normal form of the two common value formats (`normSet`), and `encodeLen` is the emitted size.  The
encoder never returns an error value: it writes or refuses (panic, when a pair-set offset does not
fit 16 bits). -/
theorem C08_st_roundtrip_gpos2_1 (firsts : List Nat) (h : Cov.Valid firsts) (sets : List Gpos.PairSet)
    (hl : sets.length = firsts.length) (hS : ∀ s ∈ sets, Gpos.PairSetOk s ∧ s.length < 65536) :
    (∀ b, Gpos.encode21 firsts sets = .ok b →
      Gpos.readSubtable 2 b = .ok (.s21 firsts.zipIdx
        (sets.map (Gpos.normSet (Gpos.orFormat1 sets) (Gpos.orFormat2 sets)))) ∧
      Gpos.encodeLen21 firsts sets = .ok b.length) ∧
    (∀ e, Gpos.encode21 firsts sets ≠ .err e) :=
  ⟨fun b hb => Gpos.roundtrip21 firsts h sets hl hS b hb, Gpos.encode21_not_err firsts sets⟩

/-! Non-vacuity -/
example : Gpos.encode21 [5] [[(7, some [0, 0, 65486, 0, 0, 0, 0, 0], none)]] =
    .ok (wordsToBytes [1, 12, 4, 0, 1, 18, 1, 1, 5, 1, 7, 65486]) := by decide
example : Gpos.VROk (some [0, 0, 65486, 0, 0, 0, 0, 0]) := ⟨rfl, by decide⟩
example : Gpos.encode11 [7, 8] (some [0, 0, 65486, 0, 0, 0, 0, 0]) =
    .ok (wordsToBytes [1, 8, 4, 65486, 1, 2, 7, 8]) := by decide

/-! ## Anchors and GPOS 3.1 (cursive attachment; model of the repaired `Gpos3_1.encode`)

An anchor is its two coordinates as 16-bit values (`GposMark.AOk`); `anchor.Table.Append` always writes
format 1.  In a cursive record the anchor (0, 0) is the "no anchor" value: it is written as offset 0 and
read back as (0, 0). -/

/-- An anchor table written at any (even) position of a table is read back from that position. -/
theorem C08_anchor_roundtrip (P T : List Nat) (c : Bytes) (a : GposMark.Anchor) (ha : GposMark.AOk a) :
    GposMark.readAnchor (wordsToBytes (P ++ (GposMark.anchorWords a ++ T)) ++ c) (2 * P.length) = .ok a :=
  GposMark.anchor_at P T c a ha

/-- GPOS 3.1: one entry/exit anchor pair per covered glyph.  Whenever the encoder returns bytes (it
panics when the coverage offset does not fit 16 bits), the reader gives coverage and anchors back and
the declared size is the emitted size. -/
theorem C08_st_roundtrip_gpos3_1 (rev : List Nat) (recs : List GposMark.EntryExit) (h : Cov.Valid rev)
    (hl : recs.length = rev.length) (hok : ∀ r ∈ recs, GposMark.AOk r.1 ∧ GposMark.AOk r.2) (b : Bytes)
    (henc : GposMark.encode31 rev recs = .ok b) :
    GposMark.read31 b = .ok (rev.zipIdx, recs) ∧ GposMark.encodeLen31 rev recs = .ok b.length :=
  GposMark.roundtrip31 rev recs h hl hok b henc

example : GposMark.encode31 [4, 9] [((100, 65436), (0, 0)), ((0, 0), (7, 8))] =
    .ok (wordsToBytes [1, 26, 2, 14, 0, 0, 20, 1, 100, 65436, 1, 7, 8, 1, 2, 4, 9]) := by decide

/-! ## Mark arrays and GPOS 4.1 / 6.1 (mark-to-base and mark-to-mark attachment: the same layout, the
same Go code up to names, one model; model of the repaired encoders)

`GposMark.MarkOk`: mark class and anchor coordinates are 16-bit values. -/

/-- A mark array written at any (even) position of a table is read back from that position by
`markarray.Read` with the number of marks as limit. -/
theorem C08_markarray_roundtrip (c : Bytes) (ms : List GposMark.Mark) (P T : List Nat)
    (hok : ∀ m ∈ ms, GposMark.MarkOk m) (hfit : 2 + 10 * ms.length ≤ 65536)
    (hP : ∀ w ∈ GposMark.markArrayWords ms ++ T, w < 65536) :
    GposMark.readMarkArray (wordsToBytes (P ++ (GposMark.markArrayWords ms ++ T)) ++ c) (2 * P.length)
      ms.length = .ok ms :=
  GposMark.markArray_spec c ms P T hok hfit hP

/-- GPOS 4.1 / 6.1: one mark record per glyph of the mark coverage, one row of `classCount` anchors
per glyph of the base (mark2) coverage; an empty anchor (0, 0) is written as offset 0.  Whenever the
encoder returns bytes (it panics when the base-array offset or an anchor offset does not fit 16 bits,
and - repair 19 - when there are more than 32764 anchor offsets, which the reader rejects),
the reader gives everything back and the declared size is the emitted size. -/
theorem C08_st_roundtrip_gpos4_1_6_1 (mcov bcov : List Nat) (marks : List GposMark.Mark)
    (bases : List (List GposMark.Anchor))
    (h1 : Cov.Valid mcov) (h2 : Cov.Valid bcov) (hm : marks.length = mcov.length)
    (hbl : bases.length = bcov.length) (hbn : bases.length < 65536)
    (hrows : ∀ row ∈ bases, row.length = GposMark.countMarkClasses marks bases)
    (hcc : GposMark.countMarkClasses marks bases < 65536)
    (hmk : ∀ m ∈ marks, GposMark.MarkOk m) (hba : ∀ row ∈ bases, ∀ a ∈ row, GposMark.AOk a) (b : Bytes)
    (henc : GposMark.encode41 mcov bcov marks bases = .ok b) :
    GposMark.read41 b = .ok ⟨mcov.zipIdx, bcov.zipIdx, marks, bases⟩ ∧
    GposMark.encodeLen41 mcov bcov marks bases = .ok b.length :=
  GposMark.roundtrip41 mcov bcov marks bases h1 h2 hm hbl hbn hrows hcc hmk hba b henc

example : GposMark.encode41 [40] [7, 8] [⟨1, (5, 6)⟩] [[(0, 0), (3, 4)], [(9, 65535), (0, 0)]] =
    .ok (wordsToBytes [1, 12, 18, 2, 26, 38, 1, 1, 40, 1, 2, 7, 8, 1, 1, 6, 1, 5, 6,
      2, 0, 10, 16, 0, 1, 3, 4, 1, 9, 65535]) := by decide

/-! ## GPOS 2.2 (pair adjustment by classes; model of the repaired `Gpos2_2.encode`)

The two class definition tables enter the encoder as what `Append` / `AppendLen` return
(`GposMark.ClassPart`); `GposMark.PartGood c B k` says: the bytes are `B`, the declared length is their
number, and `classdef.Read` makes `k` of them whatever follows - which holds for every table with
16-bit glyph ids and classes (`C08_gpos2_2_classpart`, from the class-definition round trip).
Normal form, as for GPOS 1.2 / 2.1: every value record is read back with exactly the fields of the
formats chosen for the whole subtable (`Gpos.masked`; a nil record next to non-nil ones comes back as
zeros).  The encoder refuses class1Count * class2Count ≥ 65536 (repair 18: the reader rejects it). -/

theorem C08_gpos2_2_classpart (m : ClassDef.Tab) (hm : Gdef.ClassGood m) (B : Bytes)
    (hB : ClassDef.append m = .ok B) :
    ∃ k, GposMark.PartGood ⟨ClassDef.append m, ClassDef.appendLen m⟩ B k ∧
      ∀ g, ClassDef.classOf k g = ClassDef.get m g :=
  GposMark.partGood_of_table m hm B hB

theorem C08_st_roundtrip_gpos2_2 (cov : List Nat) (hcov : Cov.Valid cov) (c1 c2 : GposMark.ClassPart)
    (B1 B2 : Bytes) (k1 k2 : List (Nat × Nat)) (g1 : GposMark.PartGood c1 B1 k1)
    (g2 : GposMark.PartGood c2 B2 k2) (rows : List GposMark.Row)
    (hrows : ∀ r ∈ rows, r.length = GposMark.class2Count rows)
    (hok : ∀ r ∈ rows, ∀ p ∈ r, Gpos.VROk p.1 ∧ Gpos.VROk p.2)
    (hn1 : rows.length < 65536) (hn2 : GposMark.class2Count rows < 65536) (b : Bytes)
    (henc : GposMark.encode22 cov c1 c2 rows = .ok b) :
    GposMark.read22 b = .ok ⟨cov, k1, k2,
      rows.map fun r => r.map (GposMark.maskPair (GposMark.fmt1 rows) (GposMark.fmt2 rows))⟩ ∧
    GposMark.encodeLen22 cov c1 c2 rows = .ok b.length :=
  GposMark.roundtrip22 cov hcov c1 c2 B1 B2 k1 k2 g1 g2 rows hrows hok hn1 hn2 b henc

/-! ## Contextual lookups (GSUB types 5, 6 = GPOS types 7, 8; models of the repaired encoders in nested.go)

A rule set is `none` (nil: written as offset 0) or `some rules` (possibly empty).  `Ctx.ROk1` /
`Ctx.ROkC` are the domains of the rules of the unchained / chained kinds: 16-bit glyph ids (classes),
sequence and lookup indices, counts that fit 16 bits, and no backtrack / lookahead for the unchained
kind.  Each theorem: whenever the encoder returns bytes (it panics when an offset does not fit 16
bits), the reader gives the subtable back, and the declared size is the emitted size. -/

/-- SeqContext1 (glyph rules; one rule set per covered glyph) -/
theorem C08_st_roundtrip_seqcontext1 (rev : List Nat) (sets : List (Option (List Ctx.Rule))) (h : Cov.Valid rev)
    (hl : sets.length = rev.length)
    (hok : ∀ s ∈ sets, ∀ rules, s = some rules → ∀ r ∈ rules, Ctx.ROk1 r) (b : Bytes)
    (henc : Ctx.encode1 rev sets = .ok b) :
    Ctx.read1 b = .ok (.c1 false rev.zipIdx sets) ∧ Ctx.encodeLen1 rev sets = .ok b.length :=
  Ctx.roundtrip1 rev sets h hl hok b henc

/-- SeqContext3 (one coverage table per position).  `hne`: at least one - the reader rejects glyphCount 0,
which the encoder writes (known finding C08-context3-no-input; `apply` indexes Input[0], so such a value
is not a usable lookup) -/
theorem C08_st_roundtrip_seqcontext3 (covs : List (List Nat)) (actions : List Ctx.Action)
    (hv : ∀ c ∈ covs, Cov.Valid c) (hne : covs ≠ []) (ha : ∀ a ∈ actions, Ctx.ActOk a) (b : Bytes)
    (henc : Ctx.encode3 covs actions = .ok b) :
    Ctx.read3 b = .ok (.c3 [] covs [] actions false) ∧ Ctx.encodeLen3 covs actions = .ok b.length :=
  Ctx.roundtrip3 covs actions hv hne ha b henc

/-- ChainedSeqContext1.  `hn`: the coverage offset 6 + 2·(number of rule sets) fits 16 bits - the encoder
checks offsets only when it meets a non-nil rule set (see cfg: more than 32764 rule sets, all nil). -/
theorem C08_st_roundtrip_chainedseqcontext1 (rev : List Nat) (sets : List (Option (List Ctx.Rule)))
    (h : Cov.Valid rev) (hl : sets.length = rev.length) (hn : 6 + 2 * sets.length ≤ 65535)
    (hok : ∀ s ∈ sets, ∀ rules, s = some rules → ∀ r ∈ rules, Ctx.ROkC r) (b : Bytes)
    (henc : Ctx.encodeC1 rev sets = .ok b) :
    Ctx.readC1 b = .ok (.c1 true rev.zipIdx sets) ∧ Ctx.encodeLenC1 rev sets = .ok b.length :=
  Ctx.roundtripC1 rev sets h hl hn hok b henc

/-- ChainedSeqContext3 (backtrack, input, lookahead coverage lists).  `hne`: at least one input coverage
(as for SeqContext3) -/
theorem C08_st_roundtrip_chainedseqcontext3 (back input look : List (List Nat)) (actions : List Ctx.Action)
    (hvb : ∀ c ∈ back, Cov.Valid c) (hvi : ∀ c ∈ input, Cov.Valid c) (hvl : ∀ c ∈ look, Cov.Valid c)
    (hne : input ≠ []) (ha : ∀ a ∈ actions, Ctx.ActOk a) (b : Bytes)
    (henc : Ctx.encodeC3 back input look actions = .ok b) :
    Ctx.readC3 b = .ok (.c3 back input look actions true) ∧
    Ctx.encodeLenC3 back input look actions = .ok b.length :=
  Ctx.roundtripC3 back input look actions hvb hvi hvl hne ha b henc

/-- Class definition tables of the class-based formats: what `Append`/`AppendLen` give for a table
with 16-bit glyph ids and classes satisfies the hypotheses `Ctx.PartGood` / `Ctx.PartGoodW` below. -/
theorem C08_ctx_classpart (m : ClassDef.Tab) (hm : Gdef.ClassGood m) (B : Bytes)
    (hB : ClassDef.append m = .ok B) :
    (∃ k, Ctx.PartGood ⟨ClassDef.append m, ClassDef.appendLen m⟩ B k ∧
      ∀ g, ClassDef.classOf k g = ClassDef.get m g) ∧
    (∃ ws k, Ctx.PartGoodW ⟨ClassDef.append m, ClassDef.appendLen m⟩ ws k ∧
      ∀ g, ClassDef.classOf k g = ClassDef.get m g) :=
  ⟨Ctx.partGood_of_table m hm B hB, Ctx.partGoodW_of_table m hm B hB⟩

/-- SeqContext2 (class rules).  `hcls`: the class definition table has a class for every rule set (the
reader keeps only `NumClasses` rule sets). -/
theorem C08_st_roundtrip_seqcontext2 (rev : List Nat) (cd : Ctx.ClassPart) (D : Bytes) (k : List (Nat × Nat))
    (g : Ctx.PartGood cd D k) (sets : List (Option (List Ctx.Rule))) (h : Cov.Valid rev)
    (hcls : sets.length ≤ Ctx.numClasses k)
    (hok : ∀ s ∈ sets, ∀ rules, s = some rules → ∀ r ∈ rules, Ctx.ROk1 r) (b : Bytes)
    (henc : Ctx.encode2 rev cd sets = .ok b) :
    Ctx.read2 b = .ok (.c2 false rev.zipIdx [k] sets) ∧ Ctx.encodeLen2 rev cd sets = .ok b.length :=
  Ctx.roundtrip2 rev cd D k g sets h hcls hok b henc

/-- ChainedSeqContext2 (class rules with backtrack and lookahead classes).  `hcls` as above for the input
classes; `hal`: re-encoding the three decoded class tables needs no more room than the tables written
(the reader recomputes the positions the encoder checked from the decoded tables); `hn`: the header
offsets fit 16 bits (checked by the encoder only when it meets a non-nil rule set). -/
theorem C08_st_roundtrip_chainedseqcontext2 (rev : List Nat) (cb ci cl : Ctx.ClassPart) (Wb Wi Wl : List Nat)
    (kb ki kl : List (Nat × Nat)) (gb : Ctx.PartGoodW cb Wb kb) (gi : Ctx.PartGoodW ci Wi ki)
    (gl : Ctx.PartGoodW cl Wl kl) (sets : List (Option (List Ctx.Rule))) (h : Cov.Valid rev)
    (hcls : sets.length ≤ Ctx.numClasses ki)
    (hal : Ctx.appendLenOf kb + Ctx.appendLenOf ki + Ctx.appendLenOf kl ≤ cb.len + ci.len + cl.len)
    (hn : 12 + 2 * sets.length + 2 * (Cov.encodeW rev).length + cb.len + ci.len + cl.len ≤ 65535)
    (hok : ∀ s ∈ sets, ∀ rules, s = some rules → ∀ r ∈ rules, Ctx.ROkC r) (b : Bytes)
    (henc : Ctx.encodeC2 rev cb ci cl sets = .ok b) :
    Ctx.readC2 b = .ok (.c2 true rev.zipIdx [kb, ki, kl] sets) ∧
    Ctx.encodeLenC2 rev cb ci cl sets = .ok b.length :=
  Ctx.roundtripC2 rev cb ci cl Wb Wi Wl kb ki kl gb gi gl sets h hcls hal hn hok b henc

example : Ctx.encodeC1 [10] [some [⟨[9], [1], [], [(0, 1)]⟩]] =
    .ok (wordsToBytes [1, 8, 1, 14, 1, 1, 10, 1, 4, 1, 9, 2, 1, 0, 1, 0, 1]) := by decide
example : Ctx.encode3 [[3, 4], [7]] [(0, 1)] =
    .ok (wordsToBytes [3, 2, 1, 14, 22, 0, 1, 1, 2, 3, 4, 1, 1, 7]) := by decide

/-! ## Feature list (`FeatureListInfo.encode` / `readFeatureList`)

`FL.Dom fl`: every tag has four bytes, every feature has fewer than 65536 lookup indices, each a
16-bit value.  `FL.offsets fl (2 + 6·n)` are the offsets of the feature tables. -/

/-- If the last feature table starts at an offset that fits 16 bits, the list reads back unchanged;
otherwise the encoder refuses (the panic that exists in the code) — no offset is written wrapped. -/
theorem C08_featurelist_roundtrip (fl : List FL.Feature) (D : FL.Dom fl) :
    ((FL.offsets fl (2 + 6 * fl.length)).getLastD 0 ≤ 0xFFFF →
      ∃ b, FL.encode fl = .ok b ∧ FL.read b = .ok fl) ∧
    ((FL.offsets fl (2 + 6 * fl.length)).getLastD 0 > 0xFFFF → ∃ s, FL.encode fl = .panic s) :=
  ⟨fun h => by simpa using FL.roundtrip fl D h [], FL.refusal fl⟩

example : FL.Dom [⟨[107, 101, 114, 110], [0, 2]⟩, ⟨[108, 105, 103, 97], []⟩] := ⟨by decide⟩
example : FL.encode [⟨[107, 101, 114, 110], [0, 2]⟩, ⟨[108, 105, 103, 97], []⟩] =
    .ok ([0, 2, 107, 101, 114, 110, 0, 14, 108, 105, 103, 97, 0, 22] ++ wordsToBytes [0, 2, 0, 2, 0, 0]) := by
  decide

/-! ## GDEF (`gdef.Table.Encode` / `gdef.Read`, model of the repaired code)

`gcT`/`macT`: the GlyphClass / MarkAttachClass tables (`none` = nil map; `Gdef.ClassGood`: empty,
or non-empty with 16-bit keys and classes); `sets`: the mark glyph sets (`none` = nil slice), each
a valid sorted glyph list.  `Gdef.mkPart m` is what `Append`/`AppendLen` give for `m`.
`Gdef.ClassMatch`: nil comes back as nil, a table comes back as the same function glyph → class. -/

/-- Whenever `Encode` returns bytes, `Read` gives back the two class definition tables (as
functions) and exactly the mark glyph sets; a table whose offsets do not fit 16 bits is refused. -/
theorem C08_gdef_roundtrip (gcT macT : Option ClassDef.Tab) (sets : Option (List (List Nat)))
    (hg : ∀ m, gcT = some m → Gdef.ClassGood m) (hm : ∀ m, macT = some m → Gdef.ClassGood m)
    (hs : ∀ ss, sets = some ss → (∀ s ∈ ss, Cov.Valid s) ∧ ss.length < 65536 ∧
      4 + 4 * ss.length + (ss.map fun s => 2 * (Cov.encodeW s).length).sum < 4294967296)
    (b : Bytes) (hb : Gdef.encode (gcT.map Gdef.mkPart) (macT.map Gdef.mkPart) sets = .ok b) :
    ∃ r, Gdef.read b = .ok r ∧ Gdef.ClassMatch gcT r.gc ∧ Gdef.ClassMatch macT r.mac ∧ r.sets = sets := by
  cases sets with
  | none =>
    obtain ⟨r, a1, a2, a3, a4, _⟩ := Gdef.roundtrip_noSets gcT macT hg hm b hb
    exact ⟨r, a1, a2, a3, a4⟩
  | some ss =>
    obtain ⟨h1, h2, h3⟩ := hs ss rfl
    obtain ⟨r, a1, a2, a3, a4, _⟩ := Gdef.roundtrip_sets gcT macT ss hg hm h1 h2 h3 b hb
    exact ⟨r, a1, a2, a3, a4⟩

example : Gdef.encode (some (Gdef.mkPart [(5, 1), (6, 3)])) none (some [[7, 8]]) =
    .ok (wordsToBytes [1, 2, 14, 0, 0, 0, 24] ++ wordsToBytes [1, 5, 2, 1, 3] ++
      wordsToBytes [1, 1, 0, 8] ++ wordsToBytes [1, 2, 7, 8]) := by decide

/-! ## GSUB/GPOS table header (`Info.Encode` / `readGtab`, model of the repaired code)

The three lists enter `Info.Encode` as the bytes their own encoders return (`none` for a nil list).
Normal form of the repair: a nil list is written — and therefore read back — as the empty list. -/

/-- nil ≡ empty: `Encode` writes a nil list exactly like an empty one (two zero bytes). -/
theorem C08_gtab_nil_normal_form (sl fl ll : Option Bytes) :
    Gtab.encode sl fl ll =
      Gtab.encode (some (Gtab.listBytes sl)) (some (Gtab.listBytes fl)) (some (Gtab.listBytes ll)) :=
  Gtab.encode_nil sl fl ll

/-- Whenever `Encode` returns bytes for a script list `S` (any non-empty byte string: see
`SL.encode`), a feature list `fl` and a lookup list `ll` of the respective domains, the header logic
of the reader accepts the table and finds the three lists at the written offsets: the script list
bytes, then the feature list — which reads back as `fl` — and the lookup list, from which the
specification reader recovers every lookup and subtable.  (Offsets that do not fit 16 bits make
`Encode` panic: the `if` in `Gtab.encode`.) -/
theorem C08_gtab_roundtrip (S : Bytes) (hS : S ≠ []) (fl : List FL.Feature) (Dfl : FL.Dom fl)
    (ll : List LL.Lookup) (Dll : LL.LLDom ll) (extT : Nat) (hTlt : extT < 65536)
    (hT : ∀ l ∈ ll, l.type ≠ extT) (hX : LL.extLookupType ll = 0 ∨ LL.extLookupType ll = extT)
    (hsz : LL.totalSize (LL.chunksOf ll) + 8 * (ll.map (·.subs.length)).sum < 4294967296)
    (F L b : Bytes) (hF : FL.encode fl = .ok F) (hL : LL.encode ll = .ok L)
    (hb : Gtab.encode (some S) (some F) (some L) = .ok b) :
    Gtab.readHeader b = .ok (some (10, 10 + S.length, 10 + S.length + F.length)) ∧
    b.drop 10 = S ++ F ++ L ∧
    FL.read (b.drop (10 + S.length)) = .ok fl ∧
    LL.Recovered (b.drop (10 + S.length + F.length)) extT ll := by
  -- both lists are at least two bytes long
  have hFne : F ≠ [] := by
    intro h0
    subst h0
    unfold FL.encode at hF
    simp only at hF
    split at hF
    · simp at hF
    · split at hF
      · simp at hF
      · simp only [Outcome.ok.injEq] at hF
        have := congrArg List.length hF
        simp [be16] at this
  have hrec := LL.recovered_of_encode ll Dll extT hTlt hT hX hsz L hL
  have hLne : L ≠ [] := by
    intro h0
    subst h0
    obtain ⟨sl, h1, _⟩ := hrec
    simp [LL.specRead, LL.u16at] at h1
  obtain ⟨h1, h2, h3, h4⟩ := Gtab.header_roundtrip S F L hS hFne hLne b hb
  refine ⟨h1, h2, ?_, ?_⟩
  · rw [h3]
    -- the feature list reads back, whatever follows it
    by_cases hfit : (FL.offsets fl (2 + 6 * fl.length)).getLastD 0 ≤ 0xFFFF
    · obtain ⟨F', hF', hr⟩ := FL.roundtrip fl Dfl hfit L
      rw [hF] at hF'
      simp only [Outcome.ok.injEq] at hF'
      subst hF'
      exact hr
    · obtain ⟨s, hs⟩ := FL.refusal fl (by omega)
      rw [hs] at hF
      simp at hF
  · rw [h4]; exact hrec

/-! ## Script list (`ScriptListInfo.encode` / `readScriptList`, model of the repaired code)

A Go `ScriptListInfo` maps BCP 47 language tags to feature sets.  The encoder converts every key
with `bcp47ToOtf` to an OpenType (script, language system) tag pair and the reader converts back with
`otfToBCP47`; the model and this theorem are on the OpenType side of that conversion, with one
`SL.Entry` (script tag, language-system tag — empty for the default language system —, required
feature index, optional feature indices) per map entry.  ASSUMPTION (property C14,
`C14_tag_roundtrip_partial` in Props/C14.lean): on the tags of the library's tables the two conversion
functions are mutually inverse, so that distinct map keys give distinct tag pairs
(`InputOk.distinct`) and the key read back is the key written.  `SL.EntryOk` is the domain: a 4-byte
script tag, 16-bit indices, no optional feature index 0xFFFF (the reader reads it as 0: a Go-side
normal form), and a tag pair `otfToBCP47` accepts (`SL.known`, regenerated from the source).

Lists are compared as Go maps: distinct keys, so "the same entries" is the same map. -/

/-- Whenever `encode` returns bytes, `readScriptList` — at any position of a table of `size` bytes that
holds the written bytes followed by anything — reads back exactly the entries written. -/
theorem C08_scriptlist_roundtrip (es : List SL.Entry) (h : SL.InputOk es) (b : Bytes)
    (hb : SL.encode es = .ok b) (tail : Bytes) (size : Nat) (hsize : (b ++ tail).length ≤ size) :
    ∃ r, SL.readSized size (b ++ tail) = .ok r ∧ ∀ e, e ∈ r ↔ e ∈ es :=
  SL.roundtrip es h b hb tail size hsize

/-- … and `encode` returns bytes or refuses with a panic (offsets above 0xFFFF, a language tag that is
not 4 bytes long): never an error value. -/
theorem C08_scriptlist_encode_total (es : List SL.Entry) :
    (∃ b, SL.encode es = .ok b) ∨ (∃ s, SL.encode es = .panic s) :=
  SL.encode_refusal_or_ok es

/-- The script list inside the GSUB/GPOS table: with the header of `C08_gtab_roundtrip`, the reader's
call `readScriptList` at the script-list offset with the size of the whole table gives the entries
back. -/
theorem C08_gtab_scriptlist_roundtrip (es : List SL.Entry) (h : SL.InputOk es) (S F L b : Bytes)
    (hS : SL.encode es = .ok S) (hF : F ≠ []) (hL : L ≠ [])
    (hb : Gtab.encode (some S) (some F) (some L) = .ok b) :
    ∃ r, SL.readSized b.length (b.drop 10) = .ok r ∧ ∀ e, e ∈ r ↔ e ∈ es := by
  have hSne : S ≠ [] := by
    intro h0
    subst h0
    unfold SL.encode SL.encodePlans at hS
    split at hS
    · split at hS
      · simp only [Outcome.ok.injEq] at hS
        have := congrArg List.length hS
        simp [be16] at this
      · simp at hS
      · simp at hS
    · simp at hS
    · simp at hS
  obtain ⟨_, h2, _, _⟩ := Gtab.header_roundtrip S F L hSne hF hL b hb
  rw [h2, List.append_assoc]
  apply SL.roundtrip es h S hS (F ++ L) b.length
  have := congrArg List.length h2
  simp only [List.length_drop, List.length_append] at this ⊢
  omega

/-- The whole GSUB/GPOS table: script list, feature list and lookup list written by their encoders and
assembled by `Info.Encode`.  Whenever every encoder returns bytes, the header logic of the reader
finds the three lists, `readScriptList` (called with the size of the whole table) gives exactly the
script-list entries back, `readFeatureList` gives the feature list back, and the specification reader
recovers every lookup and subtable of the lookup list.  (Hypotheses as in `C08_scriptlist_roundtrip`,
`C08_featurelist_roundtrip`, `C08_lookuplist_layout`.) -/
theorem C08_gtab_roundtrip_full (es : List SL.Entry) (hes : SL.InputOk es) (fl : List FL.Feature)
    (Dfl : FL.Dom fl) (ll : List LL.Lookup) (Dll : LL.LLDom ll) (extT : Nat) (hTlt : extT < 65536)
    (hT : ∀ l ∈ ll, l.type ≠ extT) (hX : LL.extLookupType ll = 0 ∨ LL.extLookupType ll = extT)
    (hsz : LL.totalSize (LL.chunksOf ll) + 8 * (ll.map (·.subs.length)).sum < 4294967296)
    (S F L b : Bytes) (hS : SL.encode es = .ok S) (hF : FL.encode fl = .ok F) (hL : LL.encode ll = .ok L)
    (hb : Gtab.encode (some S) (some F) (some L) = .ok b) :
    Gtab.readHeader b = .ok (some (10, 10 + S.length, 10 + S.length + F.length)) ∧
    (∃ r, SL.readSized b.length (b.drop 10) = .ok r ∧ ∀ e, e ∈ r ↔ e ∈ es) ∧
    FL.read (b.drop (10 + S.length)) = .ok fl ∧
    LL.Recovered (b.drop (10 + S.length + F.length)) extT ll := by
  have hSne : S ≠ [] := by
    intro h0
    subst h0
    unfold SL.encode SL.encodePlans at hS
    split at hS
    · split at hS
      · simp only [Outcome.ok.injEq] at hS
        have := congrArg List.length hS
        simp [be16] at this
      · simp at hS
      · simp at hS
    · simp at hS
    · simp at hS
  obtain ⟨h1, h2, h3, h4⟩ := C08_gtab_roundtrip S hSne fl Dfl ll Dll extT hTlt hT hX hsz F L b hF hL hb
  refine ⟨h1, ?_, h3, h4⟩
  rw [h2, List.append_assoc]
  apply SL.roundtrip es hes S hS (F ++ L) b.length
  have := congrArg List.length h2
  simp only [List.length_drop, List.length_append] at this ⊢
  omega

/-- The reader also accepts version 1.1 headers (which `Info.Encode` never writes): the feature
variations offset is only validated - 0, or inside the table behind the 14-byte header - and the
three lists are read from the same offsets. -/
theorem C08_gtab_header_v11 (so fo lo hi lw : Nat) (hso : so < 65536) (hfo : fo < 65536) (hlo : lo < 65536)
    (hhi : hi < 65536) (hlw : lw < 65536) (rest : Bytes)
    (h1 : 14 ≤ so ∧ so < 14 + rest.length) (h2 : 14 ≤ fo ∧ fo < 14 + rest.length)
    (h3 : 14 ≤ lo ∧ lo < 14 + rest.length)
    (hfv : hi * 65536 + lw = 0 ∨ (14 ≤ hi * 65536 + lw ∧ hi * 65536 + lw < 14 + rest.length)) :
    Gtab.readHeader (wordsToBytes [1, 1, so, fo, lo, hi, lw] ++ rest) = .ok (some (so, fo, lo)) :=
  Gtab.header_v11 so fo lo hi lw hso hfo hlo hhi hlw rest h1 h2 h3 hfv

/-- `readLookupList` (the Go reader, with its 6000-entry budget and its two-pass extension resolution;
subtables as the positions they are read from) against the specification reader: on EVERY byte
string the Go reader accepts, the specification reader finds the same lookups - effective types,
flags, mark filtering sets (present exactly with flag 0x0010) and subtable positions. -/
theorem C08_readlookuplist_sound (b : Bytes) (extType : Nat) (ls : List (LL.ReadLookup Nat))
    (h : LL.readLL b extType = .ok ls) : LL.specRead b extType = some (ls.map LL.toSpec) :=
  LL.readLL_spec b extType ls h

/-! ## One `Info` value: decode ∘ encode = normal form (adapter for the file-level round trip, C01)

`InfoA.Info σ` is `gtab.Info` with subtables of type `σ`; `InfoA.SubCodec σ` says how a subtable is
written, how it is read at a position, its normal form, and the law `dec tp (enc s ++ tail) = nf s` that
the per-subtable round trips provide.  `Info.encode` composes the encoders of the three lists (the lookup
list with its reordering / extension logic) under the header; `Info.read` reads the header, the script
list, the feature list, the lookup list with the specification reader (`C08_readlookuplist_sound`: the
Go reader agrees with it wherever it accepts) and every subtable with the codec.  Normal form: script
entries grouped by script in tag order (default language system first), the mark filtering set only
with its flag, subtables in the codec's normal form. -/

theorem C08_info_roundtrip {σ : Type} (C : InfoA.SubCodec σ) (extType : Nat) (I : InfoA.Info σ)
    (hI : InfoA.InfoOk C extType I) (b : Bytes) (hb : InfoA.Info.encode C I = .ok b) :
    InfoA.Info.read C extType b = .ok (InfoA.Info.nf C I) :=
  InfoA.info_roundtrip C extType I hI b hb

/-- Non-vacuity: a lawful codec (GSUB 1.1 behind the real dispatcher `Gsub.readSubtable`) and an `Info`
of the domain that `Info.encode` writes. -/
theorem C08_info_roundtrip_nonvacuous :
    InfoA.InfoOk InfoA.gsub11Codec 7 InfoA.exInfo ∧ ∃ b, InfoA.Info.encode InfoA.gsub11Codec InfoA.exInfo = .ok b :=
  ⟨InfoA.exInfo_ok, InfoA.exInfo_encodes⟩

/-- GDEF as an equation: `Read (Encode g) = nf g`, where `nf` replaces every class table by
`ClassDef.nfTab` of it - what `Read` makes of what `Append` writes for it, i.e. the table without its
class-0 entries (`g.Matches g.nf`: as functions glyph → class nothing changes) - and keeps the mark
glyph sets. -/
theorem C08_gdef_roundtrip_eq (g : InfoA.GdefV) (hg : InfoA.GdefOk g) (b : Bytes) (hb : g.encode = .ok b) :
    Gdef.read b = .ok g.nf ∧ g.Matches g.nf := InfoA.gdef_roundtrip_eq g hg b hb

/-- GDEF as one value (`InfoA.GdefV`): whenever `Encode` returns bytes for a table of the domain, `Read`
succeeds and gives the table back (`Matches`: class tables as functions - the reader's normal form is
the list of non-zero entries -, mark glyph sets exactly, nil as nil). -/
theorem C08_gdef_roundtrip_value (g : InfoA.GdefV) (hg : InfoA.GdefOk g) (b : Bytes)
    (hb : g.encode = .ok b) : ∃ r, Gdef.read b = .ok r ∧ g.Matches r :=
  InfoA.gdef_roundtrip_value g hg b hb

/-! ## The two subtable codecs and the table-level round trips over arbitrary mixes of subtables

`InfoA.GsubSub` / `InfoA.GposSub`: a subtable as the readers return it (sum over all modelled kinds;
contexts are types 5, 6 in GSUB and 7, 8 in GPOS).  `gsubDec` / `gposDec` are the dispatchers
`readGsubSubtable` / `readGposSubtable`; `gsubEnc` / `gposEnc` the encoders on those shapes; the
normal form is the identity except for GPOS value records (`Gpos.masked`) and the class tables of
the class-based kinds (`ClassDef.nfTab`: what `Read` makes of what `Append` writes, i.e. without class-0
entries).  The domain of a codec
(`C.ok tp s`) is "the round trip on the exact bytes holds"; the lemmas `InfoA.gsub_ok_*` /
`InfoA.gpos_ok_*` show it for every kind under the hypotheses of its `C08_st_roundtrip_*` theorem
(class-based kinds: for ANY class tables with 16-bit glyph ids and classes). -/

/-- "A reader only looks at a prefix": a subtable the dispatcher accepts is read the same way whatever
follows it. -/
theorem C08_reader_prefix_only_gsub (tp : Nat) (b t : Bytes) (r : InfoA.GsubSub)
    (h : InfoA.gsubDec tp b = .ok r) : InfoA.gsubDec tp (b ++ t) = .ok r := InfoA.gsubDec_mono tp b t r h

theorem C08_reader_prefix_only_gpos (tp : Nat) (b t : Bytes) (r : InfoA.GposSub)
    (h : InfoA.gposDec tp b = .ok r) : InfoA.gposDec tp (b ++ t) = .ok r := InfoA.gposDec_mono tp b t r h

/-- the codec law for both codecs -/
theorem C08_codec_law (tail : Bytes) :
    (∀ tp s, InfoA.gsubCodec.ok tp s →
      InfoA.gsubDec tp (InfoA.gsubCodec.enc s ++ tail) = .ok (InfoA.gsubNf s)) ∧
    (∀ tp s, InfoA.gposCodec.ok tp s →
      InfoA.gposDec tp (InfoA.gposCodec.enc s ++ tail) = .ok (InfoA.gposNf s)) :=
  ⟨fun tp s h => InfoA.gsubCodec.law tp s tail h, fun tp s h => InfoA.gposCodec.law tp s tail h⟩

theorem C08_gsub_info_roundtrip (I : InfoA.Info InfoA.GsubSub) (hI : InfoA.InfoOk InfoA.gsubCodec 7 I)
    (b : Bytes) (hb : InfoA.Info.encode InfoA.gsubCodec I = .ok b) :
    InfoA.Info.read InfoA.gsubCodec 7 b = .ok (InfoA.Info.nf InfoA.gsubCodec I) :=
  InfoA.gsub_info_roundtrip I hI b hb

theorem C08_gpos_info_roundtrip (I : InfoA.Info InfoA.GposSub) (hI : InfoA.InfoOk InfoA.gposCodec 9 I)
    (b : Bytes) (hb : InfoA.Info.encode InfoA.gposCodec I = .ok b) :
    InfoA.Info.read InfoA.gposCodec 9 b = .ok (InfoA.Info.nf InfoA.gposCodec I) :=
  InfoA.gpos_info_roundtrip I hI b hb

/-- Non-vacuity: a GSUB table with a lookup holding a format-1 and a format-2 single substitution, a
ligature lookup with a mark filtering set and a coverage-based context lookup. -/
theorem C08_gsub_info_roundtrip_nonvacuous :
    InfoA.InfoOk InfoA.gsubCodec 7 InfoA.exG ∧ ∃ b, InfoA.Info.encode InfoA.gsubCodec InfoA.exG = .ok b :=
  ⟨InfoA.exG_ok, InfoA.exG_encodes⟩

/-! ## The model of `gtab.Read` itself: the Go lookup-list reader accepts what the encoder writes

`LL.budgetOk sl` / `InfoA.BudgetOk I`: lookups + subtables ≤ 6000 (the budget of `readLookupList`). -/

/-- Converse of `C08_readlookuplist_sound`: whatever the specification reader finds within the budget,
the model of the Go reader accepts, with the same lookups. -/
theorem C08_readlookuplist_accepts (b : Bytes) (extType : Nat) (sl : List LL.SpecLookup)
    (h : LL.specRead b extType = some sl) (hb : LL.budgetOk sl) :
    ∃ ls, LL.readLL b extType = .ok ls ∧ ls.map LL.toSpec = sl := by
  obtain ⟨ls, h1, h2, _⟩ := LL.readLL_accept b extType sl h hb
  exact ⟨ls, h1, h2⟩

/-- Completeness of the replacement loop of `LookupList.tryReorder` (model `LL.replLoop`): whenever it
ends with the moved lookup still above 0xFFFF - the only way `tryReorder` refuses - it has visited
every other lookup, the smallest included, and replaced every one that shrinks: the all-replaced
layout is tried before giving up. -/
theorem C08_tryreorder_complete (size newSize : Nat → Nat) (ts : List Nat) (lastPos : Nat)
    (h : (LL.replLoop size newSize ts lastPos []).2 > 0xFFFF) :
    ∀ t ∈ ts, newSize t < size t → t ∈ (LL.replLoop size newSize ts lastPos []).1 :=
  (LL.replLoop_complete size newSize ts lastPos [] h).1

/-- `Info.readGo` = header + script list + feature list + `readLookupList` (Go reader model, the codec's
decoder as subtable reader).  decode ∘ encode = nf for it, within the budget. -/
theorem C08_info_roundtrip_go {σ : Type} (C : InfoA.SubCodec σ) (extType : Nat) (I : InfoA.Info σ)
    (hI : InfoA.InfoOk C extType I) (hB : InfoA.BudgetOk I) (b : Bytes) (hb : InfoA.Info.encode C I = .ok b) :
    InfoA.Info.readGo C extType b = .ok (InfoA.Info.nf C I) ∧
    InfoA.Info.readGo C extType b = InfoA.Info.read C extType b :=
  ⟨InfoA.info_roundtrip_go C extType I hI hB b hb, InfoA.readGo_eq_read C extType I hI hB b hb⟩

theorem C08_gsub_info_roundtrip_go (I : InfoA.Info InfoA.GsubSub) (hI : InfoA.InfoOk InfoA.gsubCodec 7 I)
    (hB : InfoA.BudgetOk I) (b : Bytes) (hb : InfoA.Info.encode InfoA.gsubCodec I = .ok b) :
    InfoA.Info.readGo InfoA.gsubCodec 7 b = .ok (InfoA.Info.nf InfoA.gsubCodec I) :=
  InfoA.info_roundtrip_go InfoA.gsubCodec 7 I hI hB b hb

theorem C08_gpos_info_roundtrip_go (I : InfoA.Info InfoA.GposSub) (hI : InfoA.InfoOk InfoA.gposCodec 9 I)
    (hB : InfoA.BudgetOk I) (b : Bytes) (hb : InfoA.Info.encode InfoA.gposCodec I = .ok b) :
    InfoA.Info.readGo InfoA.gposCodec 9 b = .ok (InfoA.Info.nf InfoA.gposCodec I) :=
  InfoA.info_roundtrip_go InfoA.gposCodec 9 I hI hB b hb

/-! ## Post-condition of the subtable readers: coverage indices are in range

`InRange cov n`: every coverage index of `cov` is below `n`.  On EVERY byte string (not only encoder
output) a reader accepts, every coverage table it returns indexes only into the array delivered next to
it: when the count in the bytes disagrees with the coverage table the readers prune the coverage or cut
the array.  This is the reader shape the shaping engine (C07) assumes. -/

/-- `coverage.Read` returns the coverage indices 0 .. n-1 -/
theorem C08_reader_cov_in_range_coverage (b : Bytes) (es : List (Nat × Nat)) (h : Cov.read b = .ok es) :
    InRange es es.length := Cov.read_idx b es h

theorem C08_reader_cov_in_range_gsub1_2 (b : Bytes) (cov : List (Nat × Nat)) (subs : List Nat)
    (h : Gsub.read12 b = .ok (cov, subs)) : InRange cov subs.length := Gsub.read12_inRange b cov subs h

theorem C08_reader_cov_in_range_gsub2_1_3_1 (b : Bytes) (cov : List (Nat × Nat)) (seqs : List (List Nat))
    (h : Gsub.readSeq b = .ok (cov, seqs)) : InRange cov seqs.length := Gsub.readSeq_inRange b cov seqs h

theorem C08_reader_cov_in_range_gsub4_1 (b : Bytes) (cov : List (Nat × Nat)) (repl : List (List Gsub.Lig))
    (h : Gsub.read41 b = .ok (cov, repl)) : InRange cov repl.length := Gsub.read41_inRange b cov repl h

theorem C08_reader_cov_in_range_gsub8_1 (b : Bytes) (r : Gsub.Rev81) (h : Gsub.read81 b = .ok r) :
    InRange r.input r.subs.length := Gsub.read81_inRange b r h

theorem C08_reader_cov_in_range_gpos1_2 (b : Bytes) (cov : List (Nat × Nat)) (vrs : List Gpos.VR)
    (h : Gpos.read12 b = .ok (cov, vrs)) : InRange cov vrs.length := Gpos.read12_inRange b cov vrs h

theorem C08_reader_cov_in_range_gpos3_1 (b : Bytes) (cov : List (Nat × Nat)) (recs : List GposMark.EntryExit)
    (h : GposMark.read31 b = .ok (cov, recs)) : InRange cov recs.length := GposMark.read31_inRange b cov recs h

/-- GPOS 4.1 / 6.1: mark coverage against the mark array AND base (mark2) coverage against the base
(mark2) array -/
theorem C08_reader_cov_in_range_gpos4_1_6_1 (b : Bytes) (r : GposMark.MarkBase) (h : GposMark.read41 b = .ok r) :
    InRange r.mcov r.marks.length ∧ InRange r.bcov r.bases.length := GposMark.read41_inRange b r h

theorem C08_reader_cov_in_range_seqcontext1 (b : Bytes) (ch : Bool) (cov : List (Nat × Nat))
    (sets : List (Option (List Ctx.Rule))) (h : Ctx.read1 b = .ok (.c1 ch cov sets)) :
    InRange cov sets.length := Ctx.read1_inRange b ch cov sets h

theorem C08_reader_cov_in_range_chainedseqcontext1 (b : Bytes) (ch : Bool) (cov : List (Nat × Nat))
    (sets : List (Option (List Ctx.Rule))) (h : Ctx.readC1 b = .ok (.c1 ch cov sets)) :
    InRange cov sets.length := Ctx.readC1_inRange b ch cov sets h

/-! Non-vacuity: `DFLT` with a default language system and `latn` with `TRK ` (that `SL.known` holds of
these tags is evaluated, not kernel-reduced — `String.toUTF8` does not reduce —: the stream
`otl.sl.read` returns an entry only if it does) -/
example : SL.encodePlans [⟨[68, 70, 76, 84], some ⟨[68, 70, 76, 84], [], 65535, [0]⟩, []⟩,
      ⟨[108, 97, 116, 110], none, [⟨[108, 97, 116, 110], [84, 82, 75, 32], 65535, [1, 2]⟩]⟩] =
    .ok [0, 2, 68, 70, 76, 84, 0, 14, 108, 97, 116, 110, 0, 26,
         0, 4, 0, 0, 0, 0, 255, 255, 0, 1, 0, 0,
         0, 0, 0, 1, 84, 82, 75, 32, 0, 10, 0, 0, 255, 255, 0, 2, 0, 1, 0, 2] := by decide

end SfntV.Props.C08
