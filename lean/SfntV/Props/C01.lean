/-
C01 — whole-font write/read round trip and fixed point, at the level of the font-level plumbing
(`(*Font).Write` derives table records, `sfnt.Read` merges them back; the table codecs themselves
are C08/C09/C11/C12/C13/C14 and enter only through `codec`, the normalisation one Encode→Decode
pass applies to a record).  Only property theorems, their negative witnesses and non-vacuity
examples live here; lemmas are in Proofs/FontArith, Proofs/FontRoundTrip, Proofs/FontFixedPoint.
-/
import SfntV.Proofs.FontFixedPoint

namespace SfntV.Props.C01
open SfntV SfntV.Font

/-! ### example values -/

def exEnv : Env := { now := ⟨1700000000, 0⟩, fmtDate := fun _ => ['d'], caretOf := fun _ => 0 }

def baseOutline : Outline :=
  { kind := .glyf, numGlyphs := 1, widths := some [Dy.ofInt 500], heights := [0],
    glyphs := ['g'], emptyGlyf := false, cmap := ['-'], hasBest := false, gidH := 0, gidX := 0, stdLig := none }

/-- a plain one-glyph TrueType font value -/
def baseFont : FontMeta :=
  { familyName := ['T'], width := 5, weight := 400, isRegular := true, isBold := false, isItalic := false,
    isOblique := false, isSerif := false, isScript := false, codePageRange := 1, version := 65536,
    creationTime := ⟨1700000000, 0⟩, modificationTime := Time.zero,
    description := [], sampleText := [], copyright := [], trademark := [], license := [], licenseURL := [],
    permUse := 0, unitsPerEm := 1000, fontMatrix := ⟨['U'], some 1000⟩, ascent := 800, descent := -200,
    lineGap := 0, capHeight := 700, xHeight := 500, italicAngle := ⟨0, 16⟩, underlinePosition := Dy.ofInt (-75),
    underlineThickness := Dy.ofInt 50, outline := baseOutline, gdef := none, gsub := none, gpos := none }

/-- the same font with only blank glyphs -/
def blankFont : FontMeta := { baseFont with outline := { baseOutline with emptyGlyf := true } }

/-- Every file `Write` produces for a font value in the domain (one width per glyph; the version
fits its 32-bit field) is accepted by the consistency checks of `Read` — including, since the repair
3cdbec2, a TrueType font whose glyphs are all blank (`blankFont` below). -/
theorem C01_write_accepted (env : Env) (F : FontMeta) (h : InDomain F) :
    readErr (codec (derive env F)) = none :=
  write_accepted env F h

/-- Reading back what was written yields the explicit normal form `nf F` (Model/FontMerge.lean):
every field of `sfnt.Font` comes back unchanged except for the normalisations spelled out there. -/
theorem C01_read_write (env : Env) (F : FontMeta) (h : InDomain F) :
    merge (codec (derive env F)) = nf F :=
  read_write env F h

/-- regression for the repaired finding C01-empty-glyf: the all-blank TrueType font is written,
accepted and read back as its normal form -/
example : InDomain blankFont ∧ readErr (codec (derive exEnv blankFont)) = none ∧
    merge (codec (derive exEnv blankFont)) = nf blankFont :=
  ⟨by decide, write_accepted exEnv blankFont (by decide), read_write exEnv blankFont (by decide)⟩

/-- Nothing `Write` takes from its environment (today's date, float trigonometry of the caret
slope) reaches a field of the font that is read back. -/
theorem C01_env_irrelevant (e1 e2 : Env) (F : FontMeta) :
    merge (codec (derive e1 F)) = merge (codec (derive e2 F)) :=
  env_irrelevant e1 e2 F

/-- With at least one timestamp set, the table records `Write` derives do not depend on the clock
at all … -/
theorem C01_derive_clock_free (env : Env) (t1 t2 : Time) (F : FontMeta)
    (h : F.creationTime.isZero = false ∨ F.modificationTime.isZero = false) :
    derive { env with now := t1 } F = derive { env with now := t2 } F := by
  have hd : nameDay { env with now := t1 } F = nameDay { env with now := t2 } F := by
    unfold nameDay
    rcases h with h | h <;> cases hm : F.modificationTime.isZero <;> simp_all
  unfold derive deriveName deriveHmtx
  simp only [hd]

/-- … and without one they do: the identifier string of the name table carries today's date. -/
theorem C01_derive_clock_dependent : ∃ (env : Env) (t1 t2 : Time) (F : FontMeta),
    derive { env with now := t1 } F ≠ derive { env with now := t2 } F := by
  refine ⟨{ now := Time.zero, fmtDate := fun t => decStr t.sec.toNat, caretOf := fun _ => 0 },
    ⟨1, 0⟩, ⟨2, 0⟩, { baseFont with creationTime := Time.zero }, ?_⟩
  intro h
  have := congrArg (fun T => (T.name.map (·.identifier))) h
  revert this
  decide

/-- A font in normal form comes back exactly: `Canonical` (Proofs/FontRoundTrip.lean) lists, field
by field, what "in the range of the file format" means. -/
theorem C01_lossless (env : Env) (F : FontMeta) (hd : InDomain F) (hc : Canonical F) :
    merge (codec (derive env F)) = F := by
  rw [read_write env F hd]; exact lossless F hc

/-- The normal form is a normal form: normalising twice changes nothing (every width class:
classes outside 0..9 print as "Width(n)" in `Subfamily()`, which contains none of the words the
reader looks for). -/
theorem C01_nf_idem (F : FontMeta) (h : InDomain F) : nf (nf F) = nf F :=
  nf_idem F h

/-- For every accepted table set the decoders can return (`Decoded`: records are codec fixed
points with fields in the range of their binary field) that lies in none of the open finding
classes (`Stable`: C01-bold-word, C01-no-hmtx-cff-widths, and the int16 range of CFF underline
metrics in a file without post table), one write/read cycle is a fixed point: the re-read font
equals the first-read font. -/
theorem C01_fixed_point_partial (env : Env) (T : Tables) (hacc : readErr T = none) (hd : Decoded T)
    (hs : Stable T) : merge (codec (derive env (merge T))) = merge T :=
  fixed_point env T hacc hd hs

/-- … in particular for every accepted file that has the post and hmtx tables `Write` always emits,
unless its `Subfamily()` says "Bold" while IsBold is clear. -/
theorem C01_fixed_point_complete_files (env : Env) (T : Tables) (hacc : readErr T = none) (hd : Decoded T)
    (hpost : T.post.isSome = true) (hhmtx : hmtxWidths T ≠ [])
    (hbold : boldWord (subfamily (merge T)) = true → (merge T).isBold = true) :
    merge (codec (derive env (merge T))) = merge T :=
  fixed_point env T hacc hd ⟨hbold, Or.inl hpost, Or.inl hhmtx⟩

/-- … and for every accepted TrueType file with a post table, whether or not it has an hmtx table
(repair feedc74). -/
theorem C01_fixed_point_truetype (env : Env) (T : Tables) (hacc : readErr T = none) (hd : Decoded T)
    (htt : T.scalerCFF = false) (hpost : T.post.isSome = true)
    (hbold : boldWord (subfamily (merge T)) = true → (merge T).isBold = true) :
    merge (codec (derive env (merge T))) = merge T :=
  fixed_point env T hacc hd ⟨hbold, Or.inl hpost, Or.inr (Or.inl htt)⟩

/-- the property as stated: every accepted file -/
def C01_fixed_point_full : Prop :=
  ∀ (env : Env) (T : Tables), readErr T = none → Decoded T → merge (codec (derive env (merge T))) = merge T

/-- a TrueType table set with OS/2 weight 700, fsSelection REGULAR (no BOLD bit) and name
subfamily "Regular" (DESIGN §9 #4) -/
def boldWitness : Tables :=
  { scalerCFF := false,
    head := some { fontRevision := 65536, unitsPerEm := 1000, created := Time.zero, modified := ⟨1700000000, 0⟩,
                   isBold := false, isItalic := false, lowestRecPPEM := 7 },
    hmtx := some { widths := [500, 600], ascent := 800, descent := -200, lineGap := 0, caret16 := 0 },
    maxp := some 2,
    os2 := some { weightClass := 700, widthClass := 5, isBold := false, isItalic := false, isRegular := true,
                  isOblique := false, ascent := 800, descent := -200, lineGap := 0, capHeight := 700, xHeight := 500,
                  avgGlyphWidth := 550, familyClass := 0, codePageRange := 1, permUse := 0 },
    name := some { family := ['T', 'e', 's', 't'], subfamily := s_Regular, description := [], copyright := [],
                   trademark := [], license := [], licenseURL := [], identifier := [], fullName := [],
                   version := s_VersionSp ++ ['1', '.', '0', '0', '0'], postScriptName := [], sampleText := [] },
    post := some { italicAngle := ⟨0, 16⟩, underlinePosition := -75, underlineThickness := 50, isFixedPitch := false },
    cff := none,
    outline := { kind := .glyf, numGlyphs := 2, widths := none, heights := [0, 700], glyphs := ['g'],
                 emptyGlyf := false, cmap := ['c'], hasBest := true, gidH := 1, gidX := 0, stdLig := none },
    gdef := none, gsub := none, gpos := none, kern := none }

theorem C01_bold_witness_decoded : Decoded boldWitness where
  codecFixed := by decide
  revision := by intro h hh; cases hh; decide
  hmtxRange := by
    intro h hh; cases hh
    intro w hw
    simp only [List.mem_cons, List.not_mem_nil, or_false] at hw
    rcases hw with rfl | rfl <;> exact ⟨by decide, by decide⟩
  postRange := by intro p hp; cases hp; exact ⟨⟨by decide, by decide⟩, ⟨by decide, by decide⟩⟩
  cffAngle := by intro c hc; cases hc
  caretRange := by intro h hh; cases hh; exact ⟨by decide, by decide⟩
  cffWidths := by intro l hl; cases hl

/-- The unrestricted statement is false on the code as it is: the witness is read with
IsBold = false, IsRegular = true; `Subfamily()` then says "Bold" because of the weight, and the
second read sets IsBold (known finding C01-bold-word). -/
theorem C01_fixed_point_full_false : ¬ C01_fixed_point_full := by
  intro h
  have := h exEnv boldWitness (by decide) C01_bold_witness_decoded
  have := congrArg FontMeta.isBold this
  revert this
  decide

/-! ### small arithmetic facts named in the design -/

/-- `Version.Round()` is idempotent. -/
theorem C01_version_round_idem (v : Nat) (h : v < 4294967296) : verRound (verRound v) = verRound v := by
  have h1 := nfVersion_verRound v h
  have hlt : verRound v < 4294967296 := by unfold verRound; exact Nat.mod_lt _ (by decide)
  have h2 := verRound_nfVersion (verRound v) hlt
  rw [h1] at h2
  exact h2

/-- A rounded version equals what `VersionFromString` makes of its own `String()`. -/
theorem C01_version_string_roundtrip (v : Nat) (h : v < 4294967296) :
    verParse (s_VersionSp ++ verString (verRound v)) = some (verRound v) := by
  rw [verParse_verString, nfVersion_verRound v h]

/-- Times written to the head table: whole seconds other than the 1904 epoch survive, and the
conversion is idempotent in general. -/
theorem C01_time_roundtrip (t : Time) :
    decodeTime (encodeTime (decodeTime (encodeTime t))) = decodeTime (encodeTime t) ∧
    (t.nsec = 0 → t.sec ≠ epoch1904 → decodeTime (encodeTime t) = t) :=
  ⟨decode_encode_idem t, decode_encode_id t⟩

/-- Rounding the italic angle to 16.16 is idempotent. -/
theorem C01_angle_round_idem (a : Dy) :
    (⟨toInt32 a.round16, 16⟩ : Dy).round16 = toInt32 a.round16 :=
  round16_fix16 _

/-! ### non-vacuity -/

/-- a font value with several non-canonical fields (weight 700 without Bold, version with more
than three decimals, fractional timestamp, the 1904 epoch, out-of-range permission, both Serif
and Script, fractional italic angle and underline position, non-positive heights) -/
def exOutline : Outline :=
  { kind := .glyf, numGlyphs := 2, widths := some [Dy.mk 1001 1, Dy.ofInt 600], heights := [0, 700],
    glyphs := ['g'], emptyGlyf := false, cmap := ['c'], hasBest := true, gidH := 1, gidX := 0, stdLig := none }

def exFont : FontMeta :=
  { familyName := ['T'], width := 5, weight := 700, isRegular := false, isBold := false, isItalic := false,
    isOblique := false, isSerif := true, isScript := true, codePageRange := 1, version := 80908,
    creationTime := ⟨1700000000, 5⟩, modificationTime := ⟨epoch1904, 0⟩,
    description := [], sampleText := [], copyright := [], trademark := [], license := [], licenseURL := [],
    permUse := 7, unitsPerEm := 1000, fontMatrix := ⟨['x'], none⟩, ascent := 800, descent := -200,
    lineGap := 0, capHeight := 0, xHeight := -3, italicAngle := ⟨-25, 1⟩, underlinePosition := ⟨-151, 1⟩,
    underlineThickness := Dy.ofInt 50, outline := exOutline, gdef := none, gsub := none, gpos := none }

example : InDomain exFont := by decide
example : nf exFont ≠ exFont := by decide
example : (nf exFont).version = 80937 ∧ (nf exFont).isBold = true ∧ (nf exFont).capHeight = 700 ∧
    (nf exFont).modificationTime = Time.zero ∧ (nf exFont).permUse = 0 ∧ (nf exFont).isScript = false := by decide
example : nf (nf exFont) = nf exFont := C01_nf_idem exFont (by decide)
example : InDomain (nf exFont) := by decide
/-- the normal form of the example is canonical, so `C01_lossless` applies to a non-trivial value -/
example : Canonical (nf exFont) := canonical_nf exFont (by decide)
example : readErr boldWitness = none := by decide

/-- the same table set with the BOLD bit set (and REGULAR clear): inside every hypothesis of
`C01_fixed_point_partial` -/
def goodTables : Tables :=
  { boldWitness with
    os2 := some { weightClass := 700, widthClass := 5, isBold := true, isItalic := false, isRegular := false,
                  isOblique := false, ascent := 800, descent := -200, lineGap := 0, capHeight := 700, xHeight := 500,
                  avgGlyphWidth := 550, familyClass := 0, codePageRange := 1, permUse := 0 } }

example : readErr goodTables = none := by decide
example : Decoded goodTables where
  codecFixed := by decide
  revision := by intro h hh; cases hh; decide
  hmtxRange := by
    intro h hh; cases hh
    intro w hw
    simp only [List.mem_cons, List.not_mem_nil, or_false] at hw
    rcases hw with rfl | rfl <;> exact ⟨by decide, by decide⟩
  postRange := by intro p hp; cases hp; exact ⟨⟨by decide, by decide⟩, ⟨by decide, by decide⟩⟩
  cffAngle := by intro c hc; cases hc
  caretRange := by intro h hh; cases hh; exact ⟨by decide, by decide⟩
  cffWidths := by intro l hl; cases hl
/-- it has post and hmtx tables and the BOLD bit, so it is in none of the finding classes -/
example : Stable goodTables where
  bold := by decide
  underline := Or.inl (by decide)
  widths := Or.inl (by decide)

/-- regression for the repaired finding C01-no-hmtx-widths: the same TrueType table set without
hhea/hmtx is accepted, read with all-zero widths, and is a fixed point -/
def noHmtxTables : Tables := { goodTables with hmtx := none }

example : readErr noHmtxTables = none ∧ (merge noHmtxTables).outline.widths = some [Dy.ofInt 0, Dy.ofInt 0] := by
  decide
example : merge (codec (derive exEnv (merge noHmtxTables))) = merge noHmtxTables :=
  C01_fixed_point_truetype exEnv noHmtxTables (by decide)
    { codecFixed := by decide
      revision := by intro h hh; cases hh; decide
      hmtxRange := by intro h hh; cases hh
      postRange := by intro p hp; cases hp; exact ⟨⟨by decide, by decide⟩, ⟨by decide, by decide⟩⟩
      cffAngle := by intro c hc; cases hc
      caretRange := by intro h hh; cases hh
      cffWidths := by intro l hl; cases hl }
    rfl (by decide) (by decide)

end SfntV.Props.C01
