/-
C01 (bytes, OpenType/CFF flavour) — non-vacuity of `C01_file_roundtrip_cff`: the concrete CFF font
`exCffFont` of Props/C01FileCff.lean lies in `InDomainFileCff`.  Every guard is checked by
evaluation as in Props/C01FileEx.lean; the name entries of the example coincide with those of the
TrueType example (`exNameEntries`), so `ex_name` is reused.
-/
import SfntV.Props.C01FileCff
import SfntV.Props.C01FileEx

namespace SfntV.Props.C01
open SfntV SfntV.Font SfntV.FontFile

theorem cffex_cff : exCffFont.cffBytes ≠ [] ∧ exDecCff exCffFont.cffBytes = .ok exCffFont.payload :=
  ⟨by decide, if_pos rfl⟩
theorem cffex_cffInfo : exCffFont.payload.info = deriveCff (metaOfCff exCffFont) := by decide +kernel
theorem cffex_count : 1 ≤ exCffFont.payload.widths.length ∧ exCffFont.payload.widths.length < 65536 := by decide
theorem cffex_extentsLen : exCffFont.payload.extents.length = exCffFont.payload.widths.length := by decide
theorem cffex_extents : ∀ e ∈ exCffFont.payload.extents, isInt16 e.llx := by unfold isInt16; decide
theorem cffex_ctime : timeInRange exCffFont.scalars.creationTime := by unfold timeInRange; decide
theorem cffex_mtime : timeInRange exCffFont.scalars.modificationTime := by unfold timeInRange; decide
theorem cffex_ascent : isInt16 exCffFont.scalars.ascent := by unfold isInt16; decide
theorem cffex_descent : isInt16 exCffFont.scalars.descent := by unfold isInt16; decide
theorem cffex_lineGap : isInt16 exCffFont.scalars.lineGap := by unfold isInt16; decide
theorem cffex_caret : isInt16 (exEnvF.riseRun exCffFont.scalars.italicAngle).1 ∧ isInt16 (exEnvF.riseRun exCffFont.scalars.italicAngle).2 := by unfold isInt16; decide
theorem cffex_version : exCffFont.scalars.version < 4294967296 := by decide

theorem cffex_head : Metrics.HeadDom (headInfoOfCff exCffFont) where
  rev := by decide +kernel
  upm := by decide +kernel
  llx := by unfold Metrics.I16; decide +kernel
  lly := by unfold Metrics.I16; decide +kernel
  urx := by unfold Metrics.I16; decide +kernel
  ury := by unfold Metrics.I16; decide +kernel
  ppem := by decide +kernel
  loca := by unfold Metrics.I16; decide +kernel

theorem cffex_os2 : Metrics.Os2Dom (os2InfoOfCff exCffFont) where
  wc := by decide +kernel
  wd := by decide +kernel
  reg := by decide +kernel
  first := by decide +kernel
  last := by decide +kernel
  asc := by unfold Metrics.I16; decide +kernel
  desc := by unfold Metrics.I16; decide +kernel
  wasc := by unfold Metrics.I16; decide +kernel
  wdesc := by unfold Metrics.I16; decide +kernel
  gap := by unfold Metrics.I16; decide +kernel
  cap := by unfold Metrics.I16; decide +kernel
  xh := by unfold Metrics.I16; decide +kernel
  cap0 := by decide +kernel
  xh0 := by decide +kernel
  avg := by unfold Metrics.I16; decide +kernel
  fam := by unfold Metrics.I16; decide +kernel
  sub_len := by decide +kernel
  sub_rng := by unfold Metrics.I16; decide +kernel
  panose_len := by decide +kernel
  panose_rng := by decide +kernel
  vendor_len := by decide +kernel
  ur_len := by decide +kernel
  ur_rng := by decide +kernel
  bit57 := by
    have h : (os2InfoOfCff exCffFont).unicodeRange = [0,0,0,0] := by decide +kernel
    have h2 : (os2InfoOfCff exCffFont).lastCharIndex = 72 := by decide +kernel
    rw [h, h2]
    intro u hu
    simp at hu
    subst hu
    decide
  cpr := by decide +kernel
  perm := by decide +kernel

theorem cffex_cmap : ∀ t, exCffFont.cmap = some t → (∀ kd ∈ t, CmapTable.ValidSub kd.1 kd.2) ∧ t.length < 65536 ∧
    (CmapTable.encode t).length < 4294967296 := ex_cmap

theorem cffex_nameEntries : nameEntries (deriveName exEnvF.env (metaOfCff exCffFont)) = exNameEntries := by
  decide +kernel

theorem cffex_nameEncode :
    Names.nameEncode (nameEntries (deriveName exEnvF.env (metaOfCff exCffFont))) 1 =
      Names.encodeBytes
        (Names.nameBuild (Names.sortLangs Gen.appleBCP) (Names.sortLangs Gen.msBCP)
          (nameEntries (deriveName exEnvF.env (metaOfCff exCffFont))) 1).2
        (Names.nameBuild (Names.sortLangs Gen.appleBCP) (Names.sortLangs Gen.msBCP)
          (nameEntries (deriveName exEnvF.env (metaOfCff exCffFont))) 1).1.data := by
  unfold Names.nameEncode
  rw [Names.nameEncodeWith_eq, List.mergeSort_of_pairwise (by decide +kernel)]

theorem cffex_size : ∀ ts, writeTablesCff exEnvF exCffFont = .ok ts → Header.fileSize (Header.named ts) < 4294967296 := by
  have : (match writeTablesCff exEnvF exCffFont with | .ok ts => Header.fileSize (Header.named ts) | _ => 0) < 4294967296 := by
    unfold writeTablesCff
    simp only []
    rw [cffex_nameEncode]
    decide +kernel
  intro ts h; rw [h] at this; exact this

theorem C01_file_example_cff_in_domain : InDomainFileCff exLayoutDec exDecCff exEnvF exCffFont where
  cff := cffex_cff
  cffInfo := cffex_cffInfo
  count := cffex_count
  extentsLen := cffex_extentsLen
  extents := cffex_extents
  head := cffex_head
  ctime := cffex_ctime
  mtime := cffex_mtime
  os2 := cffex_os2
  ascent := cffex_ascent
  descent := cffex_descent
  lineGap := cffex_lineGap
  caret := cffex_caret
  name := cffex_nameEntries ▸ ex_name
  cmap := cffex_cmap
  gdef := by intro b h; cases h
  gsub := by intro b h; cases h; exact ⟨by decide, rfl⟩
  gpos := by intro b h; cases h
  version := cffex_version
  size := cffex_size

/-- the theorem applied to the example -/
theorem C01_file_example_cff : ∃ b, writeFileCff exEnvF exCffFont = .ok b ∧
    readFileCff exLayoutDec exDecCff (fun _ _ => 0) b = .ok (nfFileCff exCffFont) :=
  C01_file_roundtrip_cff exLayoutDec exDecCff exEnvF (fun _ _ => 0) exCffFont C01_file_example_cff_in_domain

end SfntV.Props.C01
