/-
C03 — written files are well-formed sfnt containers an independent parser accepts.
Only property theorems and non-vacuity examples live here; helper lemmas are in Proofs/Header.
-/
import SfntV.Proofs.Header
import SfntV.Proofs.HeaderRead

namespace SfntV.Props.C03
open SfntV SfntV.Header

/- `fileSize l` (defined in Proofs/Header, namespace `SfntV.Header`) is the size of the file
`header.Write` produces for the written tables `l`:
`12 + 16 * l.length + (l.map fun t => 4 * ((t.2.length + 3) / 4)).sum`. -/
example (l : List (Bytes × Bytes)) :
    fileSize l = 12 + 16 * l.length + (l.map fun t => 4 * ((t.2.length + 3) / 4)).sum := rfl

/-- The domain of the property: the entries come from a Go map (distinct keys); offsets and
lengths fit the 32-bit fields; the table count fits the 16-bit search fields. -/
structure Dom (ts : List Entry) : Prop where
  keys_nodup : (ts.map (·.name)).Nodup
  size_ok : fileSize (named ts) < 4294967296
  count_ok : (named ts).length < 4096

/-- `header.Write` never panics, whatever the map contains (after repairs bb91c5a, 251f595). -/
theorem C03_no_panic (sc : Nat) (ts : List Entry) : (write sc ts).noPanic :=
  write_noPanic sc ts

/-- It refuses exactly when there is nothing to write or the head table cannot hold the
checksum adjustment.  (Distinct keys are needed for `→`: with two entries named `head`, only the
first in layout order is inspected — `[⟨head, 12 bytes⟩, ⟨head, []⟩]` is written.) -/
theorem C03_ok_iff (sc : Nat) (ts : List Entry) (keys_nodup : (ts.map (·.name)).Nodup) :
    (∃ w, write sc ts = .ok w) ↔
      (named ts ≠ [] ∧ ∀ d, (headTag, d) ∈ named ts → 12 ≤ d.length) :=
  write_ok_iff sc ts keys_nodup

/-- Every file produced by the writer is a well-formed sfnt container: directory sorted by tag
with correct count and search fields, tables aligned, inside the file and disjoint, directory
checksums equal to the checksums of the zero-padded tables (head with its adjustment zeroed),
and — when a head table is present — whole-file checksum `0xB1B0AFBA`. -/
theorem C03_wellformed (sc : Nat) (ts : List Entry) (h : Dom ts) (w : Written)
    (hw : write sc ts = .ok w) : WellFormed w.bytes :=
  write_wellFormed sc ts h.keys_nodup h.size_ok h.count_ok w hw

/-- An independent directory reader gets back the scaler type and exactly the bodies that were
written, byte for byte, each under its tag. -/
theorem C03_parse_write (sc : Nat) (hsc : sc < 4294967296) (ts : List Entry) (h : Dom ts) (w : Written)
    (hw : write sc ts = .ok w) :
    ∃ l, specParse w.bytes = some (sc, l) ∧ l.Perm w.bodies :=
  parse_write sc hsc ts h.keys_nodup h.size_ok h.count_ok w hw

/-- The bodies are the map's non-nil, 4-byte-named tables; only the head table's
checksum-adjustment field (bytes 8..11) differs from what the caller supplied.  (Distinct keys are
needed: a second, shorter-than-8-bytes `head` entry would be lengthened by `clearChecksum`.) -/
theorem C03_tables_kept (sc : Nat) (ts : List Entry) (keys_nodup : (ts.map (·.name)).Nodup)
    (w : Written) (hw : write sc ts = .ok w) :
    ∃ adj : UInt32, w.bodies.Perm (mapHead (fun d => patchAdj d adj) (named ts)) ∨
      (w.bodies.Perm (named ts) ∧ ∀ t ∈ named ts, t.1 ≠ headTag) :=
  tables_kept sc ts keys_nodup w hw

/-- The output does not depend on the order in which the Go map is iterated. -/
theorem C03_perm (sc : Nat) (ts₁ ts₂ : List Entry) (h : Dom ts₁) (hp : ts₁.Perm ts₂) :
    Written.bytes <$> write sc ts₁ = Written.bytes <$> write sc ts₂ :=
  write_perm sc ts₁ ts₂ h.keys_nodup hp

/-- The library's own reader (`header.Read` with its limit of 280 tables: scaler check, printable
and distinct names, sorted coverage/overlap check, end-of-file check) accepts every written file
with a supported scaler type and printable table names, returns one record per body, and every
record points at exactly the bytes of the body written under that tag. -/
theorem C03_read_write (sc : Nat) (hsc : scalerOk sc = true) (ts : List Entry) (h : Dom ts)
    (hn : (named ts).length ≤ 280) (hpr : ∀ t ∈ named ts, ∀ b ∈ t.1, 0x20 ≤ b ∧ b ≤ 0x7e)
    (w : Written) (hw : write sc ts = .ok w) :
    ∃ recs, read 280 w.bytes = .ok (sc, recs) ∧ recs.length = w.bodies.length ∧
      ∀ r ∈ recs, ∃ body, (r.1, body) ∈ w.bodies ∧ (w.bytes.drop r.2.1).take r.2.2 = body :=
  read_write sc hsc ts h.keys_nodup h.size_ok h.count_ok hn hpr w hw

/-! Non-vacuity: a three-table map with a head table is in the domain, is written, and the
written bytes satisfy the executable well-formedness predicate. -/

def exTabs : List Entry :=
  [⟨strBytes "abcd", some [1, 2, 3]⟩, ⟨strBytes "head", some (List.replicate 54 7)⟩,
   ⟨strBytes "OS/2", some [9, 9, 9, 9, 9]⟩, ⟨strBytes "nil ", none⟩]

example : Dom exTabs := ⟨by decide, by decide, by decide⟩
example : ∃ w, write 0x00010000 exTabs = .ok w :=
  (C03_ok_iff _ _ (by decide)).mpr ⟨by decide, fun d h =>
    (by decide : ∀ t ∈ named exTabs, t.1 = headTag → 12 ≤ t.2.length) (headTag, d) h rfl⟩
example : ∀ w, write 0x00010000 exTabs = .ok w → WellFormed w.bytes :=
  fun w hw => C03_wellformed _ _ ⟨by decide, by decide, by decide⟩ w hw
example : ∀ w, write 0x00010000 exTabs = .ok w → (read 280 w.bytes).isOk = true := by
  intro w hw
  obtain ⟨recs, h, _⟩ := C03_read_write _ (by decide) exTabs ⟨by decide, by decide, by decide⟩
    (by decide) (by decide) w hw
  rw [h]; rfl

end SfntV.Props.C03
