/-
C01 at the level of BYTES (TrueType outlines with cmap table and glyph names; GDEF/GSUB/GPOS as
encoded bytes with abstract decoders): `Read(Write(F))` computed on the bytes of the file — container (C03), head / hhea / hmtx /
maxp / OS-2 (C12), name and post with glyph names (C14), cmap (C09), glyf / loca (C11) composed as write.go and read.go compose
them — is the explicit normal form.  Model: Model/FontFile.lean; proofs: Proofs/FontFile*.lean.
-/
import SfntV.Proofs.FontFileRoundTrip

namespace SfntV.Props.C01
open SfntV SfntV.Font SfntV.FontFile

/-- **Byte-level round trip.**  For every TrueType font value in `InDomainFile` (the conjunction
of the domain guards of the composed codec theorems, each named in the structure), `Write` produces
a file and `Read` of exactly those bytes returns the normal form `nfFile F`: scalar fields `nf`,
glyph data, maxp maxima, the TrueType side tables, the cmap subtables and the glyph names
unchanged; GDEF/GSUB/GPOS are carried as the bytes of their encoders and come back as what the
layout decoders `ld` make of those bytes (the guard `InDomainFile.gsub` etc. is C08's round trip,
stated, not composed).  The caret angle `Read` recovers
from hhea by float trigonometry (`caretOf`) is arbitrary and cannot influence the result. -/
theorem C01_file_roundtrip (ld : LayoutDec) (ef : EnvF) (caretOf : Int → Int → Int) (F : FileFont)
    (h : InDomainFile ld ef F) :
    ∃ b, writeFile ef F = .ok b ∧ readFile ld caretOf b = .ok (nfFile F) :=
  file_roundtrip ld ef caretOf F h

/-! ### non-vacuity: a two-glyph TrueType font in the domain -/

def exEnvF : EnvF :=
  { env := { now := ⟨1700000000, 0⟩, fmtDate := fun _ => ['2', '0', '2', '3', '-', '1', '1', '-', '1', '4'],
             caretOf := fun _ => 0 },
    riseRun := fun _ => (1000, -213) }

/-- `.notdef` blank, one glyph of Go Regular (one contour) -/
def exGlyphs : Glyf.Glyphs :=
  [none, some ⟨0, 65104, 1229, 752, .simple 1
    [0x00, 0x03, 0x00, 0x11, 0x40, 0x0e, 0x00, 0x00, 0x01, 0x00, 0x85, 0x00, 0x01, 0x01, 0x76, 0x11, 0x10,
     0x02, 0x06, 0x18, 0x2b, 0x11, 0x21, 0x11, 0x21, 0x04, 0xcd, 0xfb, 0x33, 0x02, 0xf0, 0xfb, 0x60]⟩]

/-- a format 4 subtable mapping 'A' and 'H' to glyph 1 -/
def exCmap4 : Bytes :=
  [0x00, 0x04, 0x00, 0x28, 0x00, 0x00, 0x00, 0x06, 0x00, 0x04, 0x00, 0x01, 0x00, 0x02,
   0x00, 0x41, 0x00, 0x48, 0xff, 0xff, 0x00, 0x00, 0x00, 0x41, 0x00, 0x48, 0xff, 0xff,
   0xff, 0xc0, 0xff, 0xb9, 0x00, 0x01, 0x00, 0x00, 0x00, 0x00, 0x00, 0x00]

def exFileFont : FileFont :=
  { scalars :=
      { familyName := ['T', 'e', 's', 't'], width := 5, weight := 700, isRegular := false, isBold := true,
        isItalic := false, isOblique := false, isSerif := true, isScript := false, codePageRange := 3,
        version := 80937, creationTime := ⟨1700000000, 0⟩, modificationTime := Time.zero,
        description := ['d', 'e', 's', 'c'], sampleText := [], copyright := ['(', 'c', ')', ' ', 'x'],
        trademark := [], license := ['x'], licenseURL := ['x'],
        permUse := 2, unitsPerEm := 2048, fontMatrix := ⟨['U'], some 2048⟩, ascent := 1900, descent := -500,
        lineGap := 67, capHeight := 1400, xHeight := 1000, italicAngle := ⟨-12, 0⟩,
        underlinePosition := Dy.ofInt (-150), underlineThickness := Dy.ofInt 100,
        outline := default, gdef := none, gsub := none, gpos := none },
    glyphs := exGlyphs, widths := [1000, 1300],
    maxpTtf := [317, 36, 0, 0, 2, 216, 348, 141, 0, 500, 3596, 0, 0],
    sideTables := [(tag "cvt ", [0, 1, 0, 2])],
    cmap := some [(⟨0, 3, 0⟩, exCmap4), (⟨3, 1, 0⟩, exCmap4)],
    glyphNames := some [[46, 110, 111, 116, 100, 101, 102], [65]],
    -- an empty GSUB table (version 1.0, three empty lists) as `gtab.Info.Encode` writes it
    gsub := some [0x00, 0x01, 0x00, 0x00, 0x00, 0x0a, 0x00, 0x0c, 0x00, 0x0e, 0x00, 0x00, 0x00, 0x00, 0x00, 0x00] }

/-- layout decoders of the example: the token of a table is the hex of its bytes -/
def exLayoutDec : LayoutDec :=
  { gdef := fun b => .ok (tokenOfBytes b), gsub := fun b => .ok (tokenOfBytes b),
    gpos := fun b => .ok (tokenOfBytes b) }

end SfntV.Props.C01
