/-
C13 — CFF structures and numbers survive write/read.
Only property theorems and non-vacuity examples live here; helper lemmas are in Proofs/Cff*.
-/
import SfntV.Proofs.CffIndex
import SfntV.Proofs.CffDict
import SfntV.Proofs.CffReal
import SfntV.Proofs.CffCharset
import SfntV.Proofs.CffFdselect
import SfntV.Proofs.CffWidths
import SfntV.Generated.Cff

namespace SfntV.Props.C13
open SfntV SfntV.Cff

/-! ## INDEX -/

/-- Every list of byte strings with fewer than 65 536 items and fewer than 2³²−1 bytes in total
is encoded without a panic, and the reader (`readIndex`), started at the first byte of the
encoded INDEX placed anywhere inside a file, returns exactly the list and stops right behind
the INDEX.  (The two bounds are exactly the inputs on which `cffIndex.encode` does not
panic, see `C13_index_encode_ok_iff`.) -/
theorem C13_index_roundtrip (blobs : List Bytes) (hc : blobs.length < 65536)
    (hb : bodyLength blobs + 1 < 4294967296) (pre rest : Bytes) :
    ∃ bs, indexEncode blobs = .ok bs ∧
      readIndex (pre ++ bs ++ rest) pre.length = .ok (blobs, pre.length + bs.length) :=
  readIndex_indexEncode blobs hc hb pre rest

/-- The encoder produces bytes exactly on the inputs of `C13_index_roundtrip`; everywhere else it
panics ("too many items" / "too much data"). -/
theorem C13_index_encode_ok_iff (blobs : List Bytes) :
    (∃ bs, indexEncode blobs = .ok bs) ↔
      (blobs.length < 65536 ∧ (blobs.length = 0 ∨ bodyLength blobs + 1 < 4294967296)) := by
  unfold indexEncode
  by_cases h1 : blobs.length ≥ 65536
  · simp only [h1, if_true]
    constructor
    · rintro ⟨bs, h⟩; cases h
    · rintro ⟨h, _⟩; omega
  · simp only [h1, if_false]
    by_cases h0 : blobs.length = 0
    · simp only [h0, if_true]
      exact ⟨fun _ => ⟨by omega, Or.inl trivial⟩, fun _ => ⟨_, rfl⟩⟩
    · simp only [h0, if_false]
      by_cases h4 : chooseOffSize (bodyLength blobs) > 4
      · simp only [h4, if_true]
        constructor
        · rintro ⟨bs, h⟩; cases h
        · rintro ⟨_, h | h⟩
          · first | exact h.elim | exact absurd h h0
          · have := (chooseOffSize_le_iff _).mpr h; omega
      · simp only [h4, if_false]
        refine ⟨fun _ => ⟨by omega, Or.inr ?_⟩, fun _ => ⟨_, rfl⟩⟩
        exact (chooseOffSize_le_iff _).mp (by omega)

/-- The chosen offset size is sufficient (the largest offset, `bodyLength + 1`, fits into
`offSize` bytes) and minimal (it does not fit into `offSize − 1` bytes), and lies in 1…4. -/
theorem C13_index_offsize (bl : Nat) (h : bl + 1 < 4294967296) :
    1 ≤ chooseOffSize bl ∧ chooseOffSize bl ≤ 4 ∧
      bl + 1 < 256 ^ chooseOffSize bl ∧
      (1 < chooseOffSize bl → 256 ^ (chooseOffSize bl - 1) ≤ bl + 1) := by
  have h4 := (chooseOffSize_le_iff bl).mpr h
  have := chooseOffSize_spec bl h4
  exact ⟨this.2.2, h4, this.1, this.2.1⟩

example : indexEncode [[1, 2], [], [3]] = .ok [0, 3, 1, 1, 3, 3, 4, 1, 2, 3] := by decide
example : readIndex [9, 0, 3, 1, 1, 3, 3, 4, 1, 2, 3, 7] 1 = .ok ([[1, 2], [], [3]], 11) := by decide

/-! ## DICT integers -/

/-- Every int32 operand written by `cffDict.encode` is decoded by `decodeDict`'s operand step to
the same value, consuming exactly the bytes written. -/
theorem C13_dictint_roundtrip (i : Int) (h : -2147483648 ≤ i ∧ i ≤ 2147483647) (rest : Bytes) :
    dictStep (encodeInt i ++ rest) = .ok (.operand (.int i), rest) :=
  dictStep_encodeInt i h rest

/-- The five size classes and their boundaries: 1 byte for −107…107, 2 bytes for ±108…±1131,
3 bytes (prefix 28) for the rest of int16, 5 bytes (prefix 29) otherwise. -/
theorem C13_dictint_sizes (i : Int) :
    (encodeInt i).length =
      if -107 ≤ i ∧ i ≤ 107 then 1
      else if -1131 ≤ i ∧ i ≤ 1131 then 2
      else if -32768 ≤ i ∧ i ≤ 32767 then 3
      else 5 :=
  length_encodeInt i

example : encodeInt 107 = [246] ∧ encodeInt 108 = [247, 0] ∧ encodeInt 1131 = [250, 255] ∧
    encodeInt 1132 = [28, 4, 108] ∧ encodeInt (-107) = [32] ∧ encodeInt (-108) = [251, 0] ∧
    encodeInt (-1131) = [254, 255] ∧ encodeInt (-1132) = [28, 251, 148] ∧
    encodeInt 32768 = [29, 0, 0, 128, 0] ∧ encodeInt (-32769) = [29, 255, 255, 127, 255] := by decide

/-! ## DICT reals (nibble coding)

`encodeFloat(x float64)` first computes, in floating point, the nine-digit integer `i` and the
position `l` of the decimal point (`x ≈ ±0.i · 10^l`); that step is trusted (DESIGN §7) and
compared by correspondence on decimals of at most nine digits.  Everything after it — stripping
zeros, the eight layouts, nibble packing — and the whole decoder up to the exact decimal value
are modelled and proved here. -/

/-- Nibble transport is lossless: the nibble string (any nibbles except the terminator `f`)
packed by `encodeFloat` is unpacked by `decodeFloat` to the same string, and the decoder stops
right behind the byte holding the terminator. -/
theorem C13_dictreal_nibbles (ns : List Nat) (h : ∀ x ∈ ns, x < 15) (rest : Bytes) :
    floatNibbles (packNibbles ns ++ rest) = some (ns, rest) :=
  floatNibbles_pack rest ns h

/-- The decimal string written for `(neg, i, l)` (any `i > 0`, any `l`) is accepted by
`ParseFloat`'s grammar and denotes exactly `± 0.i · 10^l`: mantissa `i'·10^k` and exponent
`l − m − k`, where `i'` is `i` without trailing zeros, `m` its number of digits and `k ≤ 2`
(layouts "digits 0"/"digits 00"). -/
theorem C13_dictreal_decimal (neg : Bool) (i : Nat) (hi : 0 < i) (l : Int) :
    ∃ k : Nat, k ≤ 2 ∧ parseDec ((realNibbles neg i l).flatMap nibChars)
      = some (neg, stripZeros 20 i * 10 ^ k,
          l - ((digitsOf (stripZeros 20 i)).length : Int) - (k : Int)) :=
  parseDec_realNibbles neg i hi l

/-- Bytes: `decodeFloat (encodeFloat …)` equals range-check/clamp/normalisation (`clampValue`)
applied to that exact decimal, and consumes exactly the bytes written. -/
theorem C13_dictreal_roundtrip_partial (neg : Bool) (i : Nat) (hi : 0 < i) (l : Int) (rest : Bytes) :
    ∃ k : Nat, k ≤ 2 ∧ decodeReal (encodeReal neg i l ++ rest) =
      match clampValue (neg, stripZeros 20 i * 10 ^ k,
          l - ((digitsOf (stripZeros 20 i)).length : Int) - (k : Int)) with
      | .ok (ng, m, e) => .ok (.real ng m e, rest)
      | .err e => .err e
      | .panic s => .panic s :=
  decodeReal_encodeReal neg i hi l rest

/-- The full statement: for nine-digit `i` and `|l| ≤ 290` (so that neither the float64 range
nor the ±1e300 / 1e-300 clamps of `decodeFloat` interfere) the decoded operand is the written
decimal in normal form.  Missing for it: `clampValue (neg, i'·10^k, l−m−k) = ok (neg, i', l−m)`
in that range (arithmetic on `numDigits`/`stripZeros` and the bounds 2^1024, 10^±300); it is
evaluated by the correspondence streams `cff.real.dec` and `cff.dict.specdec` only. -/
def C13_dictreal_roundtrip_full : Prop :=
  ∀ (neg : Bool) (i : Nat) (l : Int) (rest : Bytes), 100000000 ≤ i → i < 1000000000 →
    -290 ≤ l → l ≤ 290 →
    decodeReal (encodeReal neg i l ++ rest)
      = .ok (.real neg (stripZeros 20 i) (l - (numDigits (stripZeros 20 i) : Int)), rest)

-- 1230, 0.00123, -1.5e20 written and read back
example : encodeReal false 123000000 4 = [0x12, 0x30, 0xff] := by decide
example : parseDec ((realNibbles false 123000000 4).flatMap nibChars) = some (false, 1230, 0) := by decide
example : parseDec ((realNibbles false 123000000 (-2)).flatMap nibChars) = some (false, 123, -5) := by decide
example : parseDec ((realNibbles true 150000000 21).flatMap nibChars) = some (true, 15, 19) := by decide

/-! ## charset -/

/-- Every strictly valid GID→SID/CID list (glyph 0 ↦ 0, every other value in 0…65535, at most
65 535 glyphs) is encoded without error, and `readCharset`, started at the first byte of the
charset data placed anywhere in a file, returns exactly the list — whichever of the formats
0, 1 (with chunking of runs longer than 256) and 2 the encoder selected — and stops right
behind the data. -/
theorem C13_charset_roundtrip (tl : List Int) (hlen : tl.length + 1 < 65536)
    (hb : ∀ x ∈ tl, 0 ≤ x ∧ x ≤ 65535) (pre rest : Bytes) :
    ∃ bs, encodeCharset (0 :: tl) = .ok bs ∧
      readCharset (pre ++ bs ++ rest) pre.length (tl.length + 1) = .ok (0 :: tl, pre.length + bs.length) :=
  readCharset_encodeCharset tl hlen hb pre rest

-- formats 0, 1 and 2 are all reachable inside the domain
example : encodeCharset [0, 5, 9] = .ok [0, 0, 5, 0, 9] := by decide
example : encodeCharset [0, 5, 6, 7, 8] = .ok [1, 0, 5, 3] := by decide
set_option maxRecDepth 100000 in
example : (encodeCharset (0 :: (List.range 300).map fun (i : Nat) => (i : Int) + 1000)) = .ok [2, 3, 232, 1, 43] := by decide

/-! ## FDSelect -/

/-- Every FD assignment over 1…65 535 glyphs with FD indices below the number of private
dictionaries (at most 256) is read back glyph by glyph by `readFDSelect` — format 0 as well as
format 3 (where the returned function does a binary search over the range ends). -/
theorem C13_fdselect_roundtrip (fds : List Int) (np : Nat) (hne : fds ≠ []) (hlen : fds.length < 65536)
    (hb : ∀ x ∈ fds, 0 ≤ x ∧ x < 256 ∧ x < np) (pre rest : Bytes) :
    readFDSelect (pre ++ fdEncode fds ++ rest) pre.length fds.length np = .ok (fds.map Int.toNat) :=
  readFDSelect_fdEncode fds np hne hlen hb pre rest

example : fdEncode [0, 1, 0] = [0, 0, 1, 0] := by decide
example : fdEncode [0, 0, 0, 0, 0, 0, 0, 0, 1, 1, 1, 1] = [3, 0, 2, 0, 0, 0, 0, 8, 1, 0, 12] := by decide

/-! ## default and nominal width (defect #19, repaired in cff/write.go) -/

/-- Whatever the glyph widths are (integral or fractional 16.16 values), the default and the
nominal width chosen by the repaired `selectWidths` are integers.  (`none` for the nominal
width: no glyph differs from the default width, and no charstring refers to it.) -/
theorem C13_widths_integral (ws : List Int) :
    fxIntegral (selectWidths ws).1 = true ∧ ∀ v, (selectWidths ws).2 = some v → fxIntegral v = true :=
  selectWidths_integral ws

/-- Hence `makePrivateDict`'s `int32(defaultWidth)` / `int32(nominalWidth)` lose nothing, and the
DICT integer read back (`C13_dictint_roundtrip`) is the chosen width: every glyph whose width
equals the default width is recovered exactly, and for the others the charstring stores
`width − nominalWidth`, the difference of a 16.16 number and an integer, i.e. again a 16.16
number (its round trip through the Type 2 number encoding is C04/C05). -/
theorem C13_width_stored_exactly (w : Int) (h : fxIntegral w = true)
    (hr : -2147483648 ≤ truncFx w ∧ truncFx w ≤ 2147483647) (rest : Bytes) :
    dictStep (encodeInt (truncFx w) ++ rest) = .ok (.operand (.int (truncFx w)), rest) ∧
      truncFx w * fxOne = w :=
  ⟨dictStep_encodeInt _ hr rest, truncFx_exact w h⟩

-- 500.5, 500.5, 600 (the input of defect #19): default 600 (the only integral width), nominal 608
example : selectWidths [32800768, 32800768, 39321600] = (39321600, some 39845888) := by decide

/-! ## regenerated facts the models depend on -/

set_option maxRecDepth 8000 in
/-- The model's set of string-valued operators and the two operators with a special sort rank
are the ones in cff/dict.go; the standard string table has 391 entries. -/
theorem C13_facts :
    Gen.cffStringOps.all isStringOp = true ∧ Gen.cffStringOps.length = 10 ∧
    Gen.cffDictOps.lookup "opROS" = some opROS ∧
    Gen.cffDictOps.lookup "opSyntheticBase" = some opSyntheticBase ∧
    Gen.cffStdStrings.size = 391 := by
  refine ⟨by decide, by decide, by decide, by decide, rfl⟩

end SfntV.Props.C13
