/-
C13 — CFF structures and numbers survive write/read.
Only property theorems and non-vacuity examples live here; helper lemmas are in Proofs/Cff*.
-/
import SfntV.Proofs.CffIndex
import SfntV.Proofs.CffDict
import SfntV.Proofs.CffReal
import SfntV.Proofs.CffRealClamp
import SfntV.Proofs.CffDictRt
import SfntV.Proofs.CffCharset
import SfntV.Proofs.CffFdselect
import SfntV.Proofs.CffWidths
import SfntV.Proofs.CffStrings
import SfntV.Proofs.CffEncodingRt
import SfntV.Proofs.CffWrite
import SfntV.Proofs.CffFontRt
import SfntV.Proofs.CffFontRtCid
import SfntV.Proofs.CffConverge
import SfntV.Generated.Cff
import SfntV.Spec.Cff

namespace SfntV.Props.C13
open SfntV SfntV.Cff

/-! ## INDEX -/

/-- Every list of byte strings with fewer than 65 536 items and fewer than 2³²−1 bytes in total
is encoded without a panic, and the reader (`readIndex`), started at the first byte of the
encoded INDEX placed anywhere inside a file, returns exactly the list and stops right behind
the INDEX.  (The two bounds are exactly the inputs on which `cffIndex.encode` does not
panic, see `C13_index_encode_ok_iff`.) -/
theorem C13_index_roundtrip (blobs : List Bytes) (hc : blobs.length < 65536)
    (hb : bodyLength blobs + 1 < 4294967296) (pre rest : Bytes) :
    ∃ bs, indexEncode blobs = .ok bs ∧
      readIndex (pre ++ bs ++ rest) pre.length = .ok (blobs, pre.length + bs.length) :=
  readIndex_indexEncode blobs hc hb pre rest

/-- The encoder produces bytes exactly on the inputs of `C13_index_roundtrip`; everywhere else it
panics ("too many items" / "too much data"). -/
theorem C13_index_encode_ok_iff (blobs : List Bytes) :
    (∃ bs, indexEncode blobs = .ok bs) ↔
      (blobs.length < 65536 ∧ (blobs.length = 0 ∨ bodyLength blobs + 1 < 4294967296)) := by
  unfold indexEncode
  by_cases h1 : blobs.length ≥ 65536
  · simp only [h1, if_true]
    constructor
    · rintro ⟨bs, h⟩; cases h
    · rintro ⟨h, _⟩; omega
  · simp only [h1, if_false]
    by_cases h0 : blobs.length = 0
    · simp only [h0, if_true]
      exact ⟨fun _ => ⟨by omega, Or.inl trivial⟩, fun _ => ⟨_, rfl⟩⟩
    · simp only [h0, if_false]
      by_cases h4 : chooseOffSize (bodyLength blobs) > 4
      · simp only [h4, if_true]
        constructor
        · rintro ⟨bs, h⟩; cases h
        · rintro ⟨_, h | h⟩
          · first | exact h.elim | exact absurd h h0
          · have := (chooseOffSize_le_iff _).mpr h; omega
      · simp only [h4, if_false]
        refine ⟨fun _ => ⟨by omega, Or.inr ?_⟩, fun _ => ⟨_, rfl⟩⟩
        exact (chooseOffSize_le_iff _).mp (by omega)

/-- The chosen offset size is sufficient (the largest offset, `bodyLength + 1`, fits into
`offSize` bytes) and minimal (it does not fit into `offSize − 1` bytes), and lies in 1…4. -/
theorem C13_index_offsize (bl : Nat) (h : bl + 1 < 4294967296) :
    1 ≤ chooseOffSize bl ∧ chooseOffSize bl ≤ 4 ∧
      bl + 1 < 256 ^ chooseOffSize bl ∧
      (1 < chooseOffSize bl → 256 ^ (chooseOffSize bl - 1) ≤ bl + 1) := by
  have h4 := (chooseOffSize_le_iff bl).mpr h
  have := chooseOffSize_spec bl h4
  exact ⟨this.2.2, h4, this.1, this.2.1⟩

example : indexEncode [[1, 2], [], [3]] = .ok [0, 3, 1, 1, 3, 3, 4, 1, 2, 3] := by decide
example : readIndex [9, 0, 3, 1, 1, 3, 3, 4, 1, 2, 3, 7] 1 = .ok ([[1, 2], [], [3]], 11) := by decide

/-! ## DICT integers -/

/-- Every int32 operand written by `cffDict.encode` is decoded by `decodeDict`'s operand step to
the same value, consuming exactly the bytes written. -/
theorem C13_dictint_roundtrip (i : Int) (h : -2147483648 ≤ i ∧ i ≤ 2147483647) (rest : Bytes) :
    dictStep (encodeInt i ++ rest) = .ok (.operand (.int i), rest) :=
  dictStep_encodeInt i h rest

/-- The five size classes and their boundaries: 1 byte for −107…107, 2 bytes for ±108…±1131,
3 bytes (prefix 28) for the rest of int16, 5 bytes (prefix 29) otherwise. -/
theorem C13_dictint_sizes (i : Int) :
    (encodeInt i).length =
      if -107 ≤ i ∧ i ≤ 107 then 1
      else if -1131 ≤ i ∧ i ≤ 1131 then 2
      else if -32768 ≤ i ∧ i ≤ 32767 then 3
      else 5 :=
  length_encodeInt i

example : encodeInt 107 = [246] ∧ encodeInt 108 = [247, 0] ∧ encodeInt 1131 = [250, 255] ∧
    encodeInt 1132 = [28, 4, 108] ∧ encodeInt (-107) = [32] ∧ encodeInt (-108) = [251, 0] ∧
    encodeInt (-1131) = [254, 255] ∧ encodeInt (-1132) = [28, 251, 148] ∧
    encodeInt 32768 = [29, 0, 0, 128, 0] ∧ encodeInt (-32769) = [29, 255, 255, 127, 255] := by decide

/-! ## DICT reals (nibble coding)

`encodeFloat(x float64)` first computes, in floating point, the nine-digit integer `i` and the
position `l` of the decimal point (`x ≈ ±0.i · 10^l`); that step is trusted (DESIGN §7) and
compared by correspondence on decimals of at most nine digits.  Everything after it — stripping
zeros, the eight layouts, nibble packing — and the whole decoder up to the exact decimal value
are modelled and proved here. -/

/-- Nibble transport is lossless: the nibble string (any nibbles except the terminator `f`)
packed by `encodeFloat` is unpacked by `decodeFloat` to the same string, and the decoder stops
right behind the byte holding the terminator. -/
theorem C13_dictreal_nibbles (ns : List Nat) (h : ∀ x ∈ ns, x < 15) (rest : Bytes) :
    floatNibbles (packNibbles ns ++ rest) = some (ns, rest) :=
  floatNibbles_pack rest ns h

/-- The decimal string written for `(neg, i, l)` (any `i > 0`, any `l`) is accepted by
`ParseFloat`'s grammar and denotes exactly `± 0.i · 10^l`: mantissa `i'·10^k` and exponent
`l − m − k`, where `i'` is `i` without trailing zeros, `m` its number of digits and `k ≤ 2`
(layouts "digits 0"/"digits 00"). -/
theorem C13_dictreal_decimal (neg : Bool) (i : Nat) (hi : 0 < i) (l : Int) :
    ∃ k : Nat, k ≤ 2 ∧ parseDec ((realNibbles neg i l).flatMap nibChars)
      = some (neg, stripZeros 20 i * 10 ^ k,
          l - ((digitsOf (stripZeros 20 i)).length : Int) - (k : Int)) :=
  parseDec_realNibbles neg i hi l

/-- Bytes: `decodeFloat (encodeFloat …)` equals range-check/clamp/normalisation (`clampValue`)
applied to that exact decimal, and consumes exactly the bytes written. -/
theorem C13_dictreal_roundtrip_partial (neg : Bool) (i : Nat) (hi : 0 < i) (l : Int) (rest : Bytes) :
    ∃ k : Nat, k ≤ 2 ∧ decodeReal (encodeReal neg i l ++ rest) =
      match clampValue (neg, stripZeros 20 i * 10 ^ k,
          l - ((digitsOf (stripZeros 20 i)).length : Int) - (k : Int)) with
      | .ok (ng, m, e) => .ok (.real ng m e, rest)
      | .err e => .err e
      | .panic s => .panic s :=
  decodeReal_encodeReal neg i hi l rest

/-- Reals survive: for every mantissa `i` of at most nine digits and every decimal-point
position `l` within ±280 (far beyond the ±1e300 / 1e-300 clamps nothing is claimed),
`decodeFloat (encodeFloat …)` is the written decimal `± 0.i · 10^l` in normal form (mantissa
without trailing zeros), and exactly the written bytes are consumed. -/
theorem C13_dictreal_roundtrip (neg : Bool) (i : Nat) (l : Int) (rest : Bytes)
    (hi : 0 < i) (hi9 : i < 10 ^ 9) (hl : -280 ≤ l ∧ l ≤ 280) :
    decodeReal (encodeReal neg i l ++ rest)
      = .ok (.real neg (stripZeros 20 i) (l - (numDigits (stripZeros 20 i) : Int)), rest) :=
  decodeReal_encodeReal_full neg i l rest hi hi9 hl

-- 1230, 0.00123, -1.5e20 written and read back
example : encodeReal false 123000000 4 = [0x12, 0x30, 0xff] := by decide
example : parseDec ((realNibbles false 123000000 4).flatMap nibChars) = some (false, 1230, 0) := by decide
example : parseDec ((realNibbles false 123000000 (-2)).flatMap nibChars) = some (false, 123, -5) := by decide
example : parseDec ((realNibbles true 150000000 21).flatMap nibChars) = some (true, 15, 19) := by decide

/-! ## whole DICTs -/

/-- A DICT (Go map: pairwise distinct operators) whose operators are not string-valued and
encodable (one byte 0…21 except 12, or escape 12 + one byte) and whose operands are int32
values or written reals: `decodeDict (d.encode())` delivers the entries in `sortedKeys` order
with every operand intact (reals in normal form).  This covers the private DICTs and Font DICTs
written by `Write` (BlueValues/OtherBlues deltas, BlueShift, BlueFuzz, ForceBold, Subrs,
defaultWidthX, nominalWidthX, Private) and the non-string part of the Top DICT. -/
theorem C13_dict_roundtrip (std custom : Array String) (d : List (Nat × List Operand))
    (hn : (d.map (·.1)).Nodup)
    (hv : ∀ e ∈ d, ValidOp e.1 ∧ ∀ o ∈ e.2, ValidOperand o) :
    decodeDict std custom (encodeDict d)
      = .ok ((sortDict d).map fun e => (e.1, e.2.map decOperand)) :=
  decodeDict_encodeDict_nodup std custom d hn hv

-- a private DICT: BlueValues deltas, Subrs offset, nominalWidthX, and BlueScale 0.039625 as a real
example : encodeDict [(6, [.int (-20), .int 20, .int 500]), (19, [.int 1200]), (21, [.int (-32769)]),
      (3081, [.real false 396250000 (-1)])]
    = [119, 159, 248, 136, 6, 28, 4, 176, 19, 29, 255, 255, 127, 255, 21, 30, 160, 57, 98, 95, 12, 9] := by decide

/-! ## charset -/

/-- Every strictly valid GID→SID/CID list (glyph 0 ↦ 0, every other value in 0…65535, at most
65 535 glyphs) is encoded without error, and `readCharset`, started at the first byte of the
charset data placed anywhere in a file, returns exactly the list — whichever of the formats
0, 1 (with chunking of runs longer than 256) and 2 the encoder selected — and stops right
behind the data. -/
theorem C13_charset_roundtrip (tl : List Int) (hlen : tl.length + 1 < 65536)
    (hb : ∀ x ∈ tl, 0 ≤ x ∧ x ≤ 65535) (pre rest : Bytes) :
    ∃ bs, encodeCharset (0 :: tl) = .ok bs ∧
      readCharset (pre ++ bs ++ rest) pre.length (tl.length + 1) = .ok (0 :: tl, pre.length + bs.length) :=
  readCharset_encodeCharset tl hlen hb pre rest

-- formats 0, 1 and 2 are all reachable inside the domain
example : encodeCharset [0, 5, 9] = .ok [0, 0, 5, 0, 9] := by decide
example : encodeCharset [0, 5, 6, 7, 8] = .ok [1, 0, 5, 3] := by decide
set_option maxRecDepth 100000 in
example : (encodeCharset (0 :: (List.range 300).map fun (i : Nat) => (i : Int) + 1000)) = .ok [2, 3, 232, 1, 43] := by decide

/-! ## FDSelect -/

/-- Every FD assignment over 1…65 535 glyphs with FD indices below the number of private
dictionaries (at most 256) is read back glyph by glyph by `readFDSelect` — format 0 as well as
format 3 (where the returned function does a binary search over the range ends). -/
theorem C13_fdselect_roundtrip (fds : List Int) (np : Nat) (hne : fds ≠ []) (hlen : fds.length < 65536)
    (hb : ∀ x ∈ fds, 0 ≤ x ∧ x < 256 ∧ x < np) (pre rest : Bytes) :
    readFDSelect (pre ++ fdEncode fds ++ rest) pre.length fds.length np = .ok (fds.map Int.toNat) :=
  readFDSelect_fdEncode fds np hne hlen hb pre rest

example : fdEncode [0, 1, 0] = [0, 0, 1, 0] := by decide
example : fdEncode [0, 0, 0, 0, 0, 0, 0, 0, 1, 1, 1, 1] = [3, 0, 2, 0, 0, 0, 0, 8, 1, 0, 12] := by decide

/-! ## strings -/

/-- SID ↔ string: the SID that `cffStrings.lookup` returns for a string (standard string, custom
string already present, or newly allocated) reads back through `cffStrings.get` as that string,
and the custom strings allocated earlier keep their SIDs (the table only grows at the end).
Holds for whatever the standard table contains (duplicates are harmless), so nothing about the
391 regenerated strings has to be decided. -/
theorem C13_strings_roundtrip (std custom : List String) (s : String) :
    stringsGet std.toArray (stringsLookup std custom s).2.toArray (stringsLookup std custom s).1 = some s ∧
      ∃ ext, (stringsLookup std custom s).2 = custom ++ ext :=
  stringsGet_lookup std custom s

example : stringsLookup ["a", "b"] ["x"] "b" = (1, ["x"]) ∧ stringsLookup ["a", "b"] ["x"] "x" = (2, ["x"]) ∧
    stringsLookup ["a", "b"] ["x"] "y" = (3, ["x", "y"]) := by decide

/-! ## encoding -/

/-- The built-in encoding survives, including multiply-encoded glyphs: for an encoding vector of
256 entries that satisfies the documented contiguity rule (the encoded glyphs are exactly
1 … k) and refers only to glyphs of the font, and pairwise distinct 16-bit glyph names (at least
.notdef, at most 65 535 glyphs), whenever `encodeEncoding` produces bytes — format 0 or format 1,
with or without supplement — `readEncoding` reads back exactly the vector.

The hypothesis `encodeEncoding … = .ok bs` is forced by the code: inside this domain the encoder
refuses ("too many segments") exactly when the primary codes form more than 255 ranges, which
needs 256 encoded glyphs with scattered codes (e.g. glyph `g` at code `7·g mod 256`); the real
code returns that error there (stream `cff.encoding.enc`, class `err:invalid`), it does not write
a wrong table. -/
theorem C13_encoding_roundtrip (enc : List Nat) (names : List Int) (bs rest : Bytes)
    (hlen : enc.length = 256) (hlt : ∀ g ∈ enc, g < names.length)
    (hcontig : ∀ g ∈ enc, ∀ g', 0 < g' → g' < g → g' ∈ enc)
    (hn1 : 1 ≤ names.length) (hn16 : names.length < 65536) (hnd : names.Nodup)
    (hr : ∀ x ∈ names, 0 ≤ x ∧ x ≤ 65535)
    (h : encodeEncoding enc names = .ok bs) :
    readEncoding (bs ++ rest) 0 names = .ok enc :=
  readEncoding_encodeEncoding enc names bs rest hlen hlt hcontig hn1 hn16 hnd hr h

-- a multiply-encoded glyph: codes 65 and 97 both select glyph 1 (SID 34)
set_option maxRecDepth 100000 in
example : encodeEncoding ((List.replicate 65 0 ++ [1, 2] ++ List.replicate 30 0 ++ [1] ++ List.replicate 158 0)) [0, 34, 35]
    = .ok [0x80, 2, 65, 66, 1, 97, 0, 34] := by decide
set_option maxRecDepth 100000 in
example : readEncoding [0x80, 2, 65, 66, 1, 97, 0, 34] 0 [0, 34, 35]
    = .ok (List.replicate 65 0 ++ [1, 2] ++ List.replicate 30 0 ++ [1] ++ List.replicate 158 0) := by decide

/-! ## default and nominal width (defect #19, repaired in cff/write.go) -/

/-- Whatever the glyph widths are (integral or fractional 16.16 values), the default and the
nominal width chosen by the repaired `selectWidths` are integers.  (When no glyph differs from
the default width the nominal width is 0; it used to be +Inf, stored through the
implementation-defined conversion `int32(+Inf)` = −2147483648 on amd64.) -/
theorem C13_widths_integral (ws : List Int) :
    fxIntegral (selectWidths ws).1 = true ∧ ∀ v, (selectWidths ws).2 = some v → fxIntegral v = true :=
  selectWidths_integral ws

/-- Hence `makePrivateDict`'s `int32(defaultWidth)` / `int32(nominalWidth)` lose nothing, and the
DICT integer read back (`C13_dictint_roundtrip`) is the chosen width: every glyph whose width
equals the default width is recovered exactly, and for the others the charstring stores
`width − nominalWidth`, the difference of a 16.16 number and an integer, i.e. again a 16.16
number (its round trip through the Type 2 number encoding is C04/C05). -/
theorem C13_width_stored_exactly (w : Int) (h : fxIntegral w = true)
    (hr : -2147483648 ≤ truncFx w ∧ truncFx w ≤ 2147483647) (rest : Bytes) :
    dictStep (encodeInt (truncFx w) ++ rest) = .ok (.operand (.int (truncFx w)), rest) ∧
      truncFx w * fxOne = w :=
  ⟨dictStep_encodeInt _ hr rest, truncFx_exact w h⟩

/-- `width_recovered`, end to end: for all glyph widths (16.16 values, integral or not, |w| ≤ 32767)
and the default/nominal widths chosen by the repaired `selectWidths` — both integers, stored
exactly in the private DICT (`C13_width_stored_exactly`) — every glyph either has the default
width (its charstring then carries no width) or its charstring carries `w − nominalWidth`, which
the Type 2 number encoder writes exactly (the model `T2Enc.encodeNumber` of property C04; by
`C04_number_partial`/`C05_number_roundtrip` the interpreter reads the written code as the reported
value), so that `nominalWidth + operand = w` exactly.  Before the second repair of `selectWidths`
(nominal width kept within ±32767 of every width) this failed for widths like
5,5,5,5,5,−32767,32767×4: nominal 9830, the glyph of width −32767 was read back as −22938. -/
theorem C13_width_recovered (ws : List Int) (hw : ∀ w ∈ ws, w.natAbs ≤ 32767 * 65536) :
    ∃ nom, (selectWidths ws).2 = some nom ∧ fxIntegral (selectWidths ws).1 = true ∧ fxIntegral nom = true ∧
      ∀ w ∈ ws, w = (selectWidths ws).1 ∨ nom + (T2Enc.encodeNumber (w - nom) 16).1 = w := by
  obtain ⟨nom, h1, h2⟩ := selectWidths_reach ws hw
  obtain ⟨i1, i2⟩ := selectWidths_integral ws
  refine ⟨nom, h1, i1, i2 nom h1, ?_⟩
  intro w hwm
  by_cases hd : w = (selectWidths ws).1
  · exact Or.inl hd
  · right
    rw [encodeNumber_exact _ (h2 w hwm hd)]
    omega

-- 500.5, 500.5, 600 (the input of defect #19): default 600 (the only integral width), nominal 608
example : selectWidths [32800768, 32800768, 39321600] = (39321600, some 39845888) := by decide
-- 5 ×5, −32767, 32767 ×4: the nominal width is pulled to 0 so that −32767 stays within reach
example : selectWidths ([5, 5, 5, 5, 5, -32767, 32767, 32767, 32767, 32767].map (· * 65536)) = (5 * 65536, some 0) := by
  decide

/-! ## the offset fixed-point loop of `(*Font).Write` -/

/-- When the loop of `Write` exits, the file is the concatenation of the sections
`mkBlobs … offs` computed from one vector of offsets `offs`, and for every section `i` the
value `offs[i]` is exactly the byte position of that section in the file.  `mkBlobs` writes
`offs[charsets]`, `offs[encodings]`, `offs[charStrings]`, `offs[FDSelect]`, `offs[fontDictIndex]`
into the Top DICT operators charset / Encoding / CharStrings / FDSelect / FDArray, the pair
(length of private DICT `i`, `offs[private i]`) into the Private operator of the Top DICT (simple
font) or of Font DICT `i` (CID-keyed font), and `offs[subrs] − offs[private i]` into the Subrs
operator of private DICT `i`: so every offset stored in a DICT equals the position of its
target in the emitted bytes.  (The model `writeFont` is byte-identical to the real `Write` on
every generated font: verdict stream `cff.file.model`.) -/
theorem C13_layout_consistent (std : List String) (f : FontIn) (file : Bytes) (passes : Nat)
    (h : writeFont std f = .ok (file, passes)) :
    ∃ fx sc offs, prepare std f = .ok (fx, sc) ∧
      file = (mkBlobs std f.ros.isSome fx sc offs).flatten ∧
      ∀ i, i < sc.num → i ≤ (mkBlobs std f.ros.isSome fx sc offs).length →
        offs.getD i 0 = ((((mkBlobs std f.ros.isSome fx sc offs).take i).flatten.length : Nat) : Int) := by
  unfold writeFont at h
  cases hp : prepare std f with
  | err x => rw [hp] at h; cases h
  | panic s => rw [hp] at h; cases h
  | ok v =>
    obtain ⟨fx, sc⟩ := v
    rw [hp] at h
    simp only at h
    cases hl : writeLoop (mkBlobs std f.ros.isSome fx sc) sc.num (writeFuel fx) (cumsum (initialBlobs fx)) 0 with
    | none => rw [hl] at h; cases h
    | some r =>
      obtain ⟨blobs, offs, k⟩ := r
      rw [hl] at h
      simp only at h
      split at h
      case isFalse => cases h
      injection h with h
      injection h with h1 h2
      obtain ⟨hb, hs⟩ := writeLoop_exit _ _ _ _ _ _ _ _ hl
      refine ⟨fx, sc, offs, rfl, by rw [← h1, hb], ?_⟩
      intro i hi hlen
      have hs' : (cumsum blobs).take sc.num = offs.take sc.num := by
        simpa [sameOffs] using hs
      rw [← getD_of_take_eq _ _ _ _ hs' hi, ← hb]
      exact cumsum_getD blobs i (by rw [hb]; exact hlen)

/-- a two-glyph simple font (names .notdef and A, empty charstrings, default width 500) -/
def tinyFont : FontIn where
  fontName := [65]
  strs := ["", "", "", "", "", ""]
  isFixedPitch := false
  ulPos := Operand.int (-100)
  ulThick := Operand.int 50
  ulPosDefault := true
  ulThickDefault := true
  ros := none
  names := [".notdef", "A"]
  cids := []
  enc := EncChoice.standard
  fds := [0, 0]
  privs := [{ blueValues := [], otherBlues := [], blueShift := 7, blueFuzz := 1, forceBold := false }]
  charStrings := [[14], [14]]
  defWidth := 500
  nomWidth := 0

-- the loop needs two passes for it; the Private operator (18) carries size 5 and offset 41,
-- charset (15) offset 30, CharStrings (17) offset 33
example : writeFont [".notdef"] tinyFont =
    .ok ([1, 0, 4, 1, 0, 1, 1, 1, 2, 65, 0, 1, 1, 1, 8, 169, 15, 172, 17, 144, 180, 18, 0, 1, 1, 1, 2, 65, 0, 0,
          0, 0, 1, 0, 2, 1, 1, 2, 3, 14, 14, 144, 19, 248, 136, 20, 0, 0], 2) := by decide +kernel

/-! ## whole fonts: `cff.Read (Write f)` -/

/-- `privatedict_roundtrip`: every field of a `type1.PrivateDict` (BlueValues and OtherBlues as
delta-encoded arrays in int16 arithmetic, BlueScale, BlueShift, BlueFuzz, StdHW, StdVW, ForceBold)
and the default/nominal widths and the Subrs offset survive `makePrivateDict` → `encode` →
`decodeDict` → the accessors of `readPrivate`; defaults are omitted and restored (BlueScale
within 1e-6 of 0.039625, BlueShift 7, BlueFuzz 1, StdHW/StdVW 0, widths 0).  (The Go type has no
StemSnap or FamilyBlues fields.) -/
theorem C13_privatedict_roundtrip (std custom : Array String) (p : PrivIn) (dw nw sub : Int)
    (h : PrivDom p dw nw sub) :
    ∃ pd, decodeDict std custom (encodeDict (privDictOf p dw nw sub)) = .ok pd ∧
      dDelta pd 6 = p.blueValues ∧ dDelta pd 7 = p.otherBlues ∧
      dInt pd 3082 7 = p.blueShift ∧ dInt pd 3083 1 = p.blueFuzz ∧
      (decide (dInt pd 3086 0 ≠ 0)) = p.forceBold ∧
      dFloat pd 3081 (false, 39625, -6)
        = (if farApart p.blueScale (false, 39625, -6) (-6) then p.blueScale else (false, 39625, -6)) ∧
      dFloat pd 10 Rl.zero = p.stdHW ∧ dFloat pd 11 Rl.zero = p.stdVW ∧
      dFloat pd 20 Rl.zero = Rl.ofInt dw ∧ dFloat pd 21 Rl.zero = Rl.ofInt nw ∧
      dInt pd 19 0 = sub :=
  privatedict_fields std custom p dw nw sub h

/-- `topdict_roundtrip` (simple fonts): the Top DICT written by `Write` — FontInfo strings through
SIDs of the final string table, IsFixedPitch, ItalicAngle, UnderlinePosition/Thickness (integers
or reals), FontMatrix, Encoding (absent, `1` for Expert, or the offset of a custom encoding), and the offsets/sizes of charset, CharStrings and Private — is
decoded by `decodeDict` to exactly its own entries in `sortedKeys` order, strings restored. -/
theorem C13_topdict_roundtrip (std c : List String) (f : FontIn) (h : TopDom f) (enc16 : Option Int)
    (pdSize pdOffs csOffs cstrOffs : Int)
    (he : I32 (enc16.getD 0)) (ha : I32 pdSize) (hb : I32 pdOffs) (hc : I32 csOffs) (hd : I32 cstrOffs)
    (hlen : std.length + (encodeDictS std c (topSimple f enc16 pdSize pdOffs csOffs cstrOffs)).2.length < 2147483647) :
    decodeDict std.toArray (encodeDictS std c (topSimple f enc16 pdSize pdOffs csOffs cstrOffs)).2.toArray
        (encodeDictS std c (topSimple f enc16 pdSize pdOffs csOffs cstrOffs)).1
      = .ok ((sortDict (topSimple f enc16 pdSize pdOffs csOffs cstrOffs)).map fun e => (e.1, e.2.map decOperand)) :=
  topSimple_decode std c f h enc16 pdSize pdOffs csOffs cstrOffs he ha hb hc hd hlen

/-- `C13_font_roundtrip`, simple fonts with the Standard, the Expert or a custom encoding (the
property's first sentence for this class): whenever the model of `(*Font).Write` produces a file (shorter than
2 GiB) for a font in `SimpleDom`, the model of `cff.Read` reads that file and delivers the
normal form `nfSimple`: font name, the six FontInfo strings (absent = empty), IsFixedPitch,
ItalicAngle (normalised to [−180, 180)), underline position and thickness (defaults −100 and 50
restored), the font matrix (the default restored when within 1e-5 of it), the charstrings
unchanged, the glyph names through their SIDs, the encoding (`nfEncoding`: the predefined
encoding derived from the names, or the custom vector itself), the private DICT `nfPriv` (every field, defaults restored, no local subrs), FD 0 for every
glyph.  Both models are tied to the Go code byte-exactly (`cff.file.model`) and by outcome and
every decoded field on written and damaged files (`cff.file.read`). -/
theorem C13_font_roundtrip_simple (T : Tables) (f : FontIn) (p : PrivIn) (hd : SimpleDom T.std.toList f p)
    (file : Bytes) (passes : Nat) (h : writeFont T.std.toList f = .ok (file, passes))
    (hsize : file.length < 2147483648) :
    readFont T file = .ok (nfSimple T f p) :=
  readFont_writeFont_simple T f p hd file passes h hsize

/-- `C13_font_roundtrip`, CID-keyed fonts (1 to 256 private dictionaries): whenever the model of
`(*Font).Write` produces a file (shorter than 2 GiB) for a font in `CidDom`, the model of
`cff.Read` reads it and delivers the normal form `nfCid`: the FontInfo fields as for simple
fonts (font matrix default: the identity), ROS (registry and ordering through the string table,
supplement), the GIDToCID map from the charset, the FD of every glyph from FDSelect, and for every
FD the font matrix (default restored) and the private DICT `nfPriv` read through the Font DICT
INDEX; no glyph names and no encoding. -/
theorem C13_font_roundtrip_cid (T : Tables) (f : FontIn) (r o : String) (sup : Int)
    (hd : CidDom T.std.toList f r o sup)
    (file : Bytes) (passes : Nat) (h : writeFont T.std.toList f = .ok (file, passes))
    (hsize : file.length < 2147483648) :
    readFont T file = .ok (nfCid f r o sup) :=
  readFont_writeFont_cid T f r o sup hd file passes h hsize

/-- the stated domain of `C13_font_roundtrip`: a simple font in `SimpleDom` or a CID-keyed font in `CidDom` -/
def InDomain (T : Tables) (f : FontIn) : Prop :=
  (∃ p, SimpleDom T.std.toList f p) ∨ (∃ r o sup, CidDom T.std.toList f r o sup)

/-- the normal form `nf f` (spelled out in `nfSimple`, `nfEncoding`, `nfCid`, `nfPriv`) -/
def nf (T : Tables) (f : FontIn) : FontOut :=
  match f.ros with
  | some (r, o, sup) => nfCid f r o sup
  | none =>
    match f.privs with
    | p :: _ => nfSimple T f p
    | [] => nfCid f "" "" 0

/-- `C13_font_roundtrip`: `InDomain f → Read (Write f) = nf f` for the models of `(*Font).Write`
and `cff.Read` (charstrings opaque), files shorter than 2 GiB. -/
theorem C13_font_roundtrip (T : Tables) (f : FontIn) (hd : InDomain T f)
    (file : Bytes) (passes : Nat) (h : writeFont T.std.toList f = .ok (file, passes))
    (hsize : file.length < 2147483648) :
    readFont T file = .ok (nf T f) := by
  rcases hd with ⟨p, hd⟩ | ⟨r, o, sup, hd⟩
  · have h1 := hd.ros
    have h2 := hd.privs
    unfold nf
    rw [h1, h2]
    exact C13_font_roundtrip_simple T f p hd file passes h hsize
  · have h1 := hd.ros
    unfold nf
    rw [h1]
    exact C13_font_roundtrip_cid T f r o sup hd file passes h hsize

def tinyPriv : PrivIn := { blueValues := [], otherBlues := [], blueShift := 7, blueFuzz := 1, forceBold := false }

theorem realDom_default : RealDom (false, 39625, -6) := Or.inr ⟨by decide, by decide, by decide, by decide, by decide⟩
theorem realDom_zero : RealDom Rl.zero := Or.inl ⟨rfl, rfl, rfl⟩
theorem realDom_milli : RealDom (false, 1, -3) := Or.inr ⟨by decide, by decide, by decide, by decide, by decide⟩

/-- the two-glyph font is in the domain -/
theorem tinyFont_dom : SimpleDom [".notdef"] tinyFont tinyPriv where
  ros := rfl
  privs := rfl
  enc := by intro e he; cases he
  top := { ulPos := by simp [tinyFont, ValidOperand], ulThick := by simp [tinyFont, ValidOperand],
           angle := realDom_zero,
           fm := by
             intro x hx
             simp [tinyFont, defaultFM] at hx
             rcases hx with rfl | rfl | rfl | rfl <;> first | exact realDom_milli | exact realDom_zero }
  priv := fun sub hs => { bv := by intro x hx; simp [tinyPriv] at hx, ob := by intro x hx; simp [tinyPriv] at hx,
                          bs := by decide, bf := by decide, dw := by decide, nw := by decide, sub := hs,
                          scale := realDom_default, hw := realDom_zero, vw := realDom_zero }
  nameLen := by decide
  nGlyphs := rfl
  nPos := by decide
  nMax := by decide
  csBody := by decide
  notdef := by decide
  latin := by
    intro s hs c hc
    simp [tinyFont] at hs
    rcases hs with (rfl | rfl) | rfl <;> simp at hc <;> (try (rcases hc with rfl | rfl | rfl | rfl | rfl | rfl | rfl <;> decide)) <;> (try (subst hc; decide))
  fmLen := rfl


def tinyTables : Tables :=
  { std := #[".notdef"], isoAdobe := [], expert := [], expertSubset := [], expertEnc := [], standardEncRev := [] }

-- non-vacuity of `C13_font_roundtrip_simple`: the file written above is read back
example : readFont tinyTables
    [1, 0, 4, 1, 0, 1, 1, 1, 2, 65, 0, 1, 1, 1, 8, 169, 15, 172, 17, 144, 180, 18, 0, 1, 1, 1, 2, 65, 0, 0,
     0, 0, 1, 0, 2, 1, 1, 2, 3, 14, 14, 144, 19, 248, 136, 20, 0, 0]
      = .ok (nfSimple tinyTables tinyFont tinyPriv) :=
  C13_font_roundtrip_simple tinyTables tinyFont tinyPriv tinyFont_dom _ 2 (by decide +kernel) (by decide)

/-! ## predefined charsets and encodings -/

/-- A font whose Top DICT selects a predefined charset (offset 0, 1, 2: ISOAdobe, Expert,
ExpertSubset): `Read` allocates the SIDs of the first `n` names of the table with
`strings.lookup` and finds the glyph names again through them — the glyph names are exactly
the first `n` names of the table (whatever the string table contains, now or later). -/
theorem C13_predefined_charset (std : List String) (tab custom0 ext : List String) (n : Nat) :
    mapOutcomeL (sidName std.toArray ((stringsLookupAll std custom0 (tab.take n)).2 ++ ext).toArray)
      ((stringsLookupAll std custom0 (tab.take n)).1.map fun (k : Nat) => (k : Int)) = .ok (tab.take n) :=
  names_back std (tab.take n) custom0 ext

/-- The writer's choice of a predefined encoding is transparent: when `Write` decides that the
encoding vector is the Standard (or the Expert) encoding of the glyph names and writes nothing
(or `Encoding = 1`), the vector `Read` derives from the names is that vector. -/
theorem C13_predefined_encoding (T : Tables) (e : List Nat) (names : List String) (hne : e.length ≠ 0) :
    (encChoiceOf T (some e) names = .standard → encodingByName T.standardEncRev names = e) ∧
    (encChoiceOf T (some e) names = .expert → encodingByName T.expertEnc names = e) := by
  unfold encChoiceOf
  simp only [hne, false_or]
  constructor
  · intro h
    by_cases h1 : e = encodingByName T.standardEncRev names
    · exact h1.symm
    · rw [if_neg h1] at h
      split at h <;> cases h
  · intro h
    by_cases h1 : e = encodingByName T.standardEncRev names
    · rw [if_pos h1] at h; cases h
    · rw [if_neg h1] at h
      by_cases h2 : e = encodingByName T.expertEnc names
      · exact h2.symm
      · rw [if_neg h2] at h; cases h

set_option maxRecDepth 100000 in
/-- The regenerated predefined tables: 229, 166 and 87 names (cff/charset.go), 165 Expert codes
(cff/encoding.go), 149 Standard codes (seehuhn.de/go/postscript/psenc at the pinned version), all
codes below 256; every name of the three charsets is a standard string, so reading a predefined
charset never allocates custom strings. -/
theorem C13_predefined_tables :
    Gen.cff_isoAdobeCharset.length = 229 ∧ Gen.cff_expertCharset.length = 166 ∧
    Gen.cff_expertSubsetCharset.length = 87 ∧ Gen.cffExpertEnc.length = 165 ∧ Gen.cffStandardEncRev.length = 149 ∧
    (Gen.cffExpertEnc.all fun e => decide (e.2 < 256)) = true ∧
    (Gen.cffStandardEncRev.all fun e => decide (e.2 < 256)) = true ∧
    ((Gen.cff_isoAdobeCharset ++ Gen.cff_expertCharset ++ Gen.cff_expertSubsetCharset).all
      fun nm => Gen.cffStdStrings.toList.contains nm) = true := by
  refine ⟨by decide +kernel, by decide +kernel, by decide +kernel, by decide +kernel, by decide +kernel,
    by decide +kernel, by decide +kernel, by decide +kernel⟩

/-! ## regenerated facts the models depend on -/

set_option maxRecDepth 8000 in
/-- The model's set of string-valued operators and the two operators with a special sort rank
are the ones in cff/dict.go; the standard string table has 391 entries. -/
theorem C13_facts :
    Gen.cffStringOps.all isStringOp = true ∧ Gen.cffStringOps.length = 10 ∧
    Gen.cffDictOps.lookup "opROS" = some opROS ∧
    Gen.cffDictOps.lookup "opSyntheticBase" = some opSyntheticBase ∧
    Gen.cffStdStrings.size = 391 := by
  refine ⟨by decide, by decide, by decide, by decide, rfl⟩

/-- the same font with a custom encoding: code 65 ↦ glyph 1 -/
def tinyFontC : FontIn := { tinyFont with enc := .custom (List.replicate 65 0 ++ [1] ++ List.replicate 190 0) }

theorem tinyFontC_dom : SimpleDom [".notdef"] tinyFontC tinyPriv where
  ros := rfl
  privs := rfl
  enc := by
    intro e he
    injection he with he
    subst he
    have hb : ∀ g ∈ List.replicate 65 0 ++ [1] ++ List.replicate 190 0, g < 2 := by decide +kernel
    refine ⟨by decide +kernel, hb, ?_, by decide +kernel⟩
    intro g hg g' h1 h2
    have := hb g hg
    omega
  top := ⟨tinyFont_dom.top.ulPos, tinyFont_dom.top.ulThick, tinyFont_dom.top.angle, tinyFont_dom.top.fm⟩
  priv := tinyFont_dom.priv
  nameLen := tinyFont_dom.nameLen
  nGlyphs := rfl
  nPos := by decide
  nMax := by decide
  csBody := by decide
  notdef := by decide
  latin := tinyFont_dom.latin
  fmLen := rfl

-- non-vacuity with a custom encoding: the encoding section `0, 1, 65` is found through the Top DICT
example : readFont tinyTables
    [1, 0, 4, 1, 0, 1, 1, 1, 2, 65, 0, 1, 1, 1, 10, 174, 15, 171, 16, 177, 17, 144, 185, 18, 0, 1, 1, 1, 2, 65, 0, 0, 0,
     1, 65, 0, 0, 1, 0, 2, 1, 1, 2, 3, 14, 14, 144, 19, 248, 136, 20, 0, 0]
      = .ok (nfSimple tinyTables tinyFontC tinyPriv) :=
  C13_font_roundtrip_simple tinyTables tinyFontC tinyPriv tinyFontC_dom _ 2 (by decide +kernel) (by decide)

/-- a CID-keyed font with two glyphs (CIDs 0 and 5) and two private DICTs -/
def tinyPrivB : PrivIn := { blueValues := [-10, 0], otherBlues := [], blueShift := 7, blueFuzz := 1, forceBold := true }

def tinyCid : FontIn where
  fontName := [65]
  strs := ["", "", "", "", "", ""]
  isFixedPitch := false
  ulPos := Operand.int (-100)
  ulThick := Operand.int 50
  ulPosDefault := true
  ulThickDefault := true
  ros := some ("Adobe", "Identity", 0)
  names := []
  cids := [0, 5]
  enc := EncChoice.standard
  fds := [0, 1]
  privs := [tinyPriv, tinyPrivB]
  charStrings := [[14], [14]]
  defWidth := 500
  nomWidth := 0

theorem realDom_one : RealDom (false, 1, 0) := Or.inr ⟨by decide, by decide, by decide, by decide, by decide⟩

theorem tinyCid_dom : CidDom [".notdef"] tinyCid "Adobe" "Identity" 0 where
  ros := rfl
  sup := by unfold I32; omega
  top := { ulPos := by simp [tinyCid, ValidOperand], ulThick := by simp [tinyCid, ValidOperand],
           angle := realDom_zero,
           fm := by
             intro x hx
             simp [tinyCid, identityFM] at hx
             rcases hx with rfl | rfl | rfl | rfl <;> first | exact realDom_one | exact realDom_zero }
  npPos := by decide
  npMax := by decide
  priv := by
    intro p hp sub hs
    simp [tinyCid] at hp
    rcases hp with rfl | rfl
    · exact { bv := by intro x hx; simp [tinyPriv] at hx, ob := by intro x hx; simp [tinyPriv] at hx,
              bs := by decide, bf := by decide, dw := by decide, nw := by decide, sub := hs,
              scale := realDom_default, hw := realDom_zero, vw := realDom_zero }
    · exact { bv := by intro x hx; simp [tinyPrivB] at hx; rcases hx with rfl | rfl <;> omega,
              ob := by intro x hx; simp [tinyPrivB] at hx,
              bs := by decide, bf := by decide, dw := by decide, nw := by decide, sub := hs,
              scale := realDom_default, hw := realDom_zero, vw := realDom_zero }
  nameLen := by decide
  nCids := rfl
  nFds := rfl
  nPos := by decide
  nMax := by decide
  stdMax := by decide
  csBody := by decide
  notdef := by decide
  cidR := by decide
  fdR := by decide
  latin := by
    intro s hs c hc
    rcases hs with hs | rfl | rfl
    · simp [tinyCid] at hs; subst hs; simp at hc
    · exact (by decide : ∀ c ∈ "Adobe".toList, c.toNat < 256) c hc
    · exact (by decide : ∀ c ∈ "Identity".toList, c.toNat < 256) c hc
  fmLen := rfl
  fdm := by
    intro i hi
    have : tinyCid.fdMatrices.getD i defaultFM = defaultFM := by simp [tinyCid]
    rw [this]
    refine ⟨rfl, ?_⟩
    intro x hx
    simp [defaultFM] at hx
    rcases hx with rfl | rfl | rfl | rfl <;> first | exact realDom_milli | exact realDom_zero

-- non-vacuity of `C13_font_roundtrip_cid`: ROS, FDSelect, two Font DICTs and two Private DICTs are read back
example : readFont tinyTables
    [1, 0, 4, 1, 0, 1, 1, 1, 2, 65, 0, 1, 1, 1, 19, 140, 141, 139, 12, 30, 193, 15, 199, 17, 141, 12, 34, 207, 12, 36,
     196, 12, 37, 0, 2, 1, 1, 6, 14, 65, 100, 111, 98, 101, 73, 100, 101, 110, 116, 105, 116, 121, 0, 0, 0, 0, 5, 0, 0,
     1, 0, 2, 1, 1, 2, 3, 14, 14, 0, 2, 1, 1, 4, 7, 144, 219, 18, 150, 224, 18, 155, 19, 248, 136, 20, 129, 149, 6, 150,
     19, 248, 136, 20, 140, 12, 14, 0, 0]
      = .ok (nfCid tinyCid "Adobe" "Identity" 0) :=
  C13_font_roundtrip_cid tinyTables tinyCid "Adobe" "Identity" 0 tinyCid_dom _ 2 (by decide +kernel) (by decide)

/-! ### the offset fixed point of `Write` settles -/

/-- `C13_write_converges`.  The loop `for { …; if done { break } }` of `(*Font).Write` has no bound in
the Go code; the model runs it with fuel `writeFuel` = 40 + 15·(number of private DICTs).  For EVERY
font (no domain restriction) for which the part of `Write` before the loop succeeded (`prepare`) and
whose Top DICT, string INDEX and FDArray fit an INDEX with five-byte offset operands (`hfit`;
otherwise the Go code panics in `cffIndex.encode`), the loop reaches its fixed point: the model
returns a file (never the out-of-fuel outcome) after at most 39 + 15·(number of private DICTs) passes.
Reason (Proofs/CffConverge.lean): section sizes depend on the offsets only through the encoded
lengths of the offset operands (Top DICT: charset, Encoding, CharStrings, FDSelect, FDArray, Private
size and offset; every Font DICT: Private size and offset; every Private DICT: Subrs, a difference
of two offsets) and through the offSize of two INDEXes, all monotone (`lenI_mono`,
`encodeDictS_le`, `index_le`); offsets and their differences are sums of section sizes; so
every pass is pointwise at least the previous one (`mkBlobs_le`), a pass that is not the last
moves the last section by at least one byte (`grows_of_not_same`), and the last section cannot
move further than 37 + 15 bytes per private DICT beyond its place after the first pass
(`lastSection_slack`: four bytes per operand, three per INDEX offset). -/
theorem C13_write_converges (std : List String) (f : FontIn) (fx : Fixed) (sc : Secs)
    (hprep : prepare std f = .ok (fx, sc))
    (hfit : mkBlobsFits std f.ros.isSome fx sc (bigOffs sc.num) = true) :
    ∃ file k, writeFont std f = .ok (file, k) ∧ k ≤ 39 + 15 * f.privs.length :=
  writeFont_ok std f fx sc hprep hfit

/-- `C13_font_roundtrip` without the hypothesis "Write returned a file": for a font in the domain
whose custom encoding vector (if any) is accepted by `encodeEncoding` (`henc`: it refuses more than
255 ranges; trivially true for the Standard and Expert encodings and for CID-keyed fonts) and
whose INDEXes fit (`hfit`, see `writeFits`), the model of `Write` returns a file, and if that file
is shorter than 2 GiB the model of `Read` delivers the normal form. -/
theorem C13_font_roundtrip_total (T : Tables) (f : FontIn) (hd : InDomain T f)
    (henc : f.ros = none → ∃ r, encPlan T.std.toList f = .ok r)
    (hfit : writeFits T.std.toList f = true) :
    ∃ file passes, writeFont T.std.toList f = .ok (file, passes) ∧
      (file.length < 2147483648 → readFont T file = .ok (nf T f)) := by
  have hprep : ∃ fx sc, prepare T.std.toList f = .ok (fx, sc) := by
    rcases hd with ⟨p, hd'⟩ | ⟨r, o, sup, hd'⟩
    · exact simple_prepare_ok _ f p hd' (henc hd'.ros)
    · exact cid_prepare_ok _ f r o sup hd'
  obtain ⟨fx, sc, hprep⟩ := hprep
  obtain ⟨file, k, hw⟩ := writeFont_ok' _ f fx sc hprep hfit
  exact ⟨file, k, hw, fun hsize => C13_font_roundtrip T f hd file k hw hsize⟩

-- non-vacuity: the three example fonts satisfy every hypothesis of `C13_font_roundtrip_total`
example : ∃ file passes, writeFont [".notdef"] tinyFont = .ok (file, passes) ∧
    (file.length < 2147483648 → readFont tinyTables file = .ok (nf tinyTables tinyFont)) :=
  C13_font_roundtrip_total tinyTables tinyFont (Or.inl ⟨tinyPriv, tinyFont_dom⟩)
    (fun _ => ⟨_, rfl⟩) (by decide +kernel)

example : ∃ file passes, writeFont [".notdef"] tinyFontC = .ok (file, passes) ∧
    (file.length < 2147483648 → readFont tinyTables file = .ok (nf tinyTables tinyFontC)) :=
  C13_font_roundtrip_total tinyTables tinyFontC (Or.inl ⟨tinyPriv, tinyFontC_dom⟩)
    (fun _ => ⟨(some [0, 1, 65], false), by decide +kernel⟩) (by decide +kernel)

example : ∃ file passes, writeFont [".notdef"] tinyCid = .ok (file, passes) ∧
    (file.length < 2147483648 → readFont tinyTables file = .ok (nf tinyTables tinyCid)) :=
  C13_font_roundtrip_total tinyTables tinyCid (Or.inr ⟨"Adobe", "Identity", 0, tinyCid_dom⟩)
    (fun h => by cases h) (by decide +kernel)

/-! ### blue arrays: the delta encoding (repair e13ef76) -/

theorem undelta_deltas : ∀ (l : List Int) (prev : Int), Spec.undelta prev (deltas prev l) = some l := by
  intro l
  induction l with
  | nil => intro prev; rfl
  | cons x xs ih =>
    intro prev
    simp only [deltas, Spec.undelta]
    have : prev + (x - prev) = x := by omega
    rw [this, ih x]
    rfl

/-- `C13_blue_deltas_roundtrip`: for EVERY array of int16 values (any gaps, ascending or not) the
deltas written by the repaired `setDeltaF16` are read back by the model of `getDeltaF16` (running sums
reduced modulo 2^16) and by the TN5176 reader (`Spec.undelta`, plain sums): both give the array. -/
theorem C13_blue_deltas_roundtrip (l : List Int) (h : ∀ x ∈ l, -32768 ≤ x ∧ x ≤ 32767) :
    dDelta.go ((deltas 0 l).map decOperand) 0 = some l ∧ Spec.undelta 0 (deltas 0 l) = some l :=
  ⟨dDelta_go_deltas l 0 (by omega) h, undelta_deltas l 0⟩

/-- `C13_blue_deltas_unrepaired_wrap`: what the writer did before the repair (deltas wrapped into
int16): BlueValues {−1, 32767} was written as `-1 -32768`; the library reader (sums modulo 2^16) got
the array back, the TN5176 reader reads −1, −32769. -/
theorem C13_blue_deltas_unrepaired_wrap :
    deltasOld 0 [-1, 32767] = [.int (-1), .int (-32768)] ∧
    dDelta.go ((deltasOld 0 [-1, 32767]).map decOperand) 0 = some [-1, 32767] ∧
    Spec.undelta 0 (deltasOld 0 [-1, 32767]) = some [-1, -32769] ∧
    Spec.undelta 0 (deltas 0 [-1, 32767]) = some [-1, 32767] := by
  refine ⟨by decide, dDelta_go_deltasOld _ 0 (by omega) (by decide), by decide, undelta_deltas _ 0⟩

end SfntV.Props.C13
