/-
C12 — metrics/header tables round-trip exactly; derived header fields match their definitions.
Only property theorems and non-vacuity examples live here; helper lemmas are in
Proofs/Metrics*.lean.  Models: Model/Metrics.lean (hmtx/hhea, head, time, maxp, post header),
Model/Caret.lean (caret slope in exact arithmetic); definitions of the derived fields:
Spec/Metrics.lean.
-/
import SfntV.Proofs.Metrics
import SfntV.Proofs.MetricsHead
import SfntV.Model.Caret
import SfntV.Proofs.MetricsDerived
import SfntV.Proofs.MetricsOs2
import SfntV.Proofs.MetricsWriter
import SfntV.Proofs.MetricsCaret
import SfntV.Proofs.MetricsQueries
import SfntV.Proofs.MetricsBoxes

namespace SfntV.Props.C12
open SfntV SfntV.Metrics

/-! ## (a) hmtx / hhea -/

/-- `hmtx.Decode ∘ (*hmtx.Info).Encode = id` for EVERY width vector and bearing vector:
whenever `Encode` returns for `n ≥ 1` glyphs (`n ≤ 65535`, all fields int16), the hmtx bytes are
the compressed body for the `numberOfHMetrics` the encoder chose, and decoding the two tables gives
back every advance width, every left side bearing (the given ones, or the boxes' xMin when
`Info.LSB` is nil), ascent, descent, line gap, caret offset and the caret slope pair —
whatever the length of the constant tail of the widths. -/
theorem C12_hmtx_roundtrip (info : Info) (rise run : Int) (ws ls : List Int)
    (hws : info.widths = some ws) (hls : lsbsOf info = some ls) (hne : ws ≠ [])
    (hn : ws.length < 65536)
    (hw : ∀ w ∈ ws, I16 w) (hl : ∀ l ∈ ls, I16 l)
    (ha : I16 info.ascent) (hd : I16 info.descent) (hg : I16 info.lineGap)
    (hr : I16 rise) (hu : I16 run) (hc : I16 info.caretOffset)
    (hb : Bytes) (hm : Option Bytes) (he : encode info rise run = .ok (hb, hm)) :
    ∃ m, hm = some m ∧ m = encHm (numLong ws) ws ls ∧
      decode hb (some m) = .ok ⟨info.ascent, info.descent, info.lineGap, rise, run,
        info.caretOffset, ws, ls⟩ :=
  encode_decode info rise run ws ls hws hls hne hn hw hl ha hd hg hr hu hc hb hm he

/-- `Encode` does return (no panic) on the domain: widths, boxes and (if given) bearings of the
same length. -/
theorem C12_hmtx_encode_ok (info : Info) (rise run : Int) (ws : List Int) (es : List Rect)
    (hws : info.widths = some ws) (hes : info.extents = some es) (hlen : es.length = ws.length)
    (hl : ∀ l, info.lsb = some l → l.length = ws.length) :
    ∃ hb m, encode info rise run = .ok (hb, some m) :=
  encode_ok info rise run ws es hws hes hlen hl

/-- Every admissible `numberOfHMetrics` round-trips, not only the one the encoder picks: if the
widths are `pre ++ v :: replicate m v` (a constant tail of ANY length `m + 1` whose value is the last
long record) then the body written with `k = |pre| + 1` long records decodes to exactly the
widths and bearings. -/
theorem C12_hmtx_roundtrip_any_k (pre : List Int) (v : Int) (m : Nat) (ls : List Int)
    (hlen : (pre ++ v :: List.replicate m v).length = ls.length)
    (hw : ∀ w ∈ pre ++ v :: List.replicate m v, I16 w) (hl : ∀ l ∈ ls, I16 l) :
    decHm (pre.length + 1) 0 (encHm (pre.length + 1) (pre ++ v :: List.replicate m v) ls) =
      some (pre ++ v :: List.replicate m v, ls) :=
  decHm_encHm _ ls _ 0 hlen
    ((tailConst_append pre v 0 _).2 fun _ hw => (List.mem_replicate.1 hw).2) hw hl

/-- The `numberOfHMetrics` the encoder picks drops the whole constant tail except its first
element, and no more could be dropped: `ws = pre ++ v :: replicate m v`, `k = |pre| + 1`, and `pre`
does not end in `v`. -/
theorem C12_numberOfHMetrics_choice (ws : List Int) (hne : ws ≠ []) :
    ∃ (pre : List Int) (v : Int) (m : Nat), ws = pre ++ v :: List.replicate m v ∧
      numLong ws = pre.length + 1 ∧ pre.getLast? ≠ some v :=
  numLong_shape ws hne

/- `infoOf gs explicit …` is the `hmtx.Info` holding the glyphs' widths and boxes, and their
bearings when `explicit` (else `Info.LSB = nil`). -/
example (gs : List Spec.Glyph) (explicit : Bool) (a d g c : Int) :
    infoOf gs explicit a d g c = ⟨some (gs.map (·.aw)), some (gs.map (·.box)),
      if explicit then some (gs.map (·.lsb)) else none, a, d, g, c⟩ := rfl

/-- Derived hhea fields equal their definitions (plain folds over the glyphs with contours):
for glyphs `gs` (advance, bearing, box) with `lsb = xMin` on every glyph with contours — which is
what `Encode` itself arranges when `Info.LSB` is nil (`explicit = false`) — the table holds
advanceWidthMax = max advance (0 if none), minLeftSideBearing = min lsb,
minRightSideBearing = min (aw − (lsb + xMax − xMin)) saturated to int16 (after the repair of the
int16 overflow), xMaxExtent = max (lsb + xMax − xMin), and numberOfHMetrics as chosen above. -/
theorem C12_hhea_derived (gs : List Spec.Glyph) (explicit : Bool) (asc desc gap coff rise run : Int)
    (hgs : gs ≠ []) (hn : gs.length < 65536)
    (hcons : ∀ g ∈ gs, (g.box.isZero = false ∨ explicit = false) → g.lsb = g.box.llx)
    (hrange : ∀ g ∈ gs, I16 g.aw ∧ I16 g.lsb ∧ I16 g.box.llx ∧ I16 g.box.urx) :
    ∃ hb m, encode (infoOf gs explicit asc desc gap coff) rise run = .ok (hb, some m) ∧
      hheaDerived hb = (Spec.advanceWidthMaxG gs, Spec.minLeftSideBearingG gs,
        Spec.sat16 (Spec.minRightSideBearingG gs), Spec.xMaxExtentG gs, numLong (gs.map (·.aw))) :=
  hhea_derived gs explicit asc desc gap coff rise run hgs hn hcons hrange

/-- The hypothesis `lsb = xMin` of `C12_hhea_derived` is forced by the code: with an explicit
bearing different from xMin, `Encode` still uses `aw − xMax` and `xMax` (finding
C12-rsb-ignores-lsb; the real code agrees with the model on this input, replayed on every run). -/
theorem C12_hhea_derived_needs_lsb_eq_xMin :
    ∃ hb m, encode (infoOf [⟨200, 10, ⟨0, 0, 100, 100⟩⟩] true 0 0 0 0) 1 0 = .ok (hb, some m) ∧
      (hheaDerived hb).2.2.1 = 100 ∧ Spec.minRightSideBearingG [⟨200, 10, ⟨0, 0, 100, 100⟩⟩] = 90 ∧
      (hheaDerived hb).2.2.2.1 = 100 ∧ Spec.xMaxExtentG [⟨200, 10, ⟨0, 0, 100, 100⟩⟩] = 110 :=
  ⟨_, _, rfl, by decide, by decide, by decide, by decide⟩

/-- **The shape the whole-font property (C01) cites.**  `makeHmtxModel ws es asc desc gap rise run`
is `(*Font).makeHmtx`: `hmtx.Info{Widths: ws, GlyphExtents: es, Ascent, Descent, LineGap,
CaretAngle}` encoded (no explicit bearings, caret offset 0), `(rise, run)` being whatever
`fromAngle(CaretAngle)` returned.  For EVERY width vector (one `funit.Int16` per glyph, 1..65535
glyphs), every glyph-extent list of the same length and every int16 caret pair, the two tables are
produced (no panic) and `hmtx.Decode` gives back exactly the widths and the ascent / descent /
line-gap triple (and bearings = xMin, caret offset 0, the caret pair) — independently of the caret
fields and of the derived hhea fields. -/
theorem C12_hmtx_widths_roundtrip (ws : List Int) (es : List Rect) (asc desc gap rise run : Int)
    (hne : ws ≠ []) (hn : ws.length < 65536) (hlen : es.length = ws.length)
    (hw : ∀ w ∈ ws, I16 w) (he : ∀ e ∈ es, I16 e.llx)
    (ha : I16 asc) (hd : I16 desc) (hg : I16 gap) (hr : I16 rise) (hu : I16 run) :
    ∃ hhea hmtx d, makeHmtxModel ws es asc desc gap rise run = .ok (hhea, some hmtx) ∧
      decode hhea (some hmtx) = .ok d ∧ d.widths = ws ∧ d.ascent = asc ∧ d.descent = desc ∧
      d.lineGap = gap ∧ d.lsb = es.map (·.llx) ∧ d.caretOffset = 0 ∧ d.rise = rise ∧ d.run = run :=
  makeHmtx_roundtrip ws es asc desc gap rise run hne hn hlen hw he ha hd hg hr hu

/-! ## (b) head -/

/-- `decodeTime ∘ encodeTime` is the identity to the second, with exactly one exception:
a time whose Unix seconds equal the 1904 epoch (−2082844800) is written as 0 and read back as Go's
zero `time.Time` (year 1), as is the zero time itself.  Sub-second parts are dropped. -/
theorem C12_time_roundtrip (t : GoTime) (hlo : -4611686018427387904 ≤ t.sec)
    (hhi : t.sec ≤ 4611686018427387904) :
    decodeTime (encodeTime t) =
      if t.isZero ∨ t.sec = Gen.metricsZeroTime then GoTime.zero else ⟨t.sec, 0⟩ :=
  time_roundtrip t hlo hhi

/-- the exception spelled out: 1904-01-01T00:00:00Z does not survive, it becomes the zero time -/
theorem C12_time_epoch_lost : decodeTime (encodeTime ⟨-2082844800, 0⟩) = GoTime.zero ∧
    (GoTime.zero : GoTime) ≠ ⟨-2082844800, 0⟩ := by decide

/-- `head.Read ∘ (*head.Info).Encode = id` on the explicit field domain (revision uint32, units
per em and lowestRecPPEM uint16, bounding box and locaFormat int16, all five style bits, all three
flag bits), except that the two timestamps pass through `C12_time_roundtrip`. -/
theorem C12_head_roundtrip (h : Head) (d : HeadDom h) :
    decodeHead (encodeHead h) = .ok { h with created := decodeTime (encodeTime h.created),
                                             modified := decodeTime (encodeTime h.modified) } :=
  head_roundtrip h d

/-! ## (c) maxp, (d) post header -/

/-- `maxp.Read ∘ Encode = id` for glyph counts 1..65535, CFF form (version 0.5) and TrueType form
(version 1.0, thirteen uint16 maxima). -/
theorem C12_maxp_roundtrip (m : Maxp) (hn : 1 ≤ m.numGlyphs ∧ m.numGlyphs < 65536)
    (ht : ∀ vs, m.ttf = some vs → vs.length = 13 ∧ ∀ v ∈ vs, v < 65536) :
    ∃ b, encodeMaxp m = .ok b ∧ decodeMaxp b = .ok m :=
  maxp_roundtrip m hn ht

/-- post header: italic angle (any 16.16 value), underline position/thickness (int16) and
isFixedPitch survive `Encode`/`Read` for the name-less versions 1.0/3.0/4.0. -/
theorem C12_post_header_roundtrip (v : Nat) (p : PostHdr)
    (hv : v = 0x00010000 ∨ v = 0x00030000 ∨ v = 0x00040000)
    (ha : -2147483648 ≤ p.italicAngle ∧ p.italicAngle ≤ 2147483647)
    (hp : I16 p.underlinePosition) (ht : I16 p.underlineThickness) :
    decodePost (encodePost v p) = .ok (v, p) :=
  post_roundtrip v p hv ha hp ht

/-! ## (e) OS/2 -/

/-- `os2.Read ∘ (*os2.Info).Encode = id` on the explicit domain `Os2Dom` (Proofs/MetricsOs2):
weight/width class and first/last character uint16; every FWORD field int16; `IsRegular` excludes
bold and italic; sxHeight, sCapHeight ≥ 0; ten panose bytes; vendor id of length 4; four uint32
Unicode-range words whose bit 57 equals `last = 0xFFFF`; code-page range uint64; permission one of
install/edit/view/restricted; all style, permission and code-page bits. -/
theorem C12_os2_roundtrip (o : Os2) (d : Os2Dom o) : decodeOs2 (encodeOs2 o) = .ok o :=
  os2_roundtrip o d

/-- fsType over its whole flag space: every combination of usage permission (install / edit / view /
restricted) × no-subsetting × bitmap-only is packed into distinct bits of a 16-bit word and read
back unchanged (the part of `C12_os2_roundtrip` that concerns the permission bits, on its own). -/
theorem C12_os2_fstype_roundtrip (perm : Int) (hp : 0 ≤ perm ∧ perm ≤ 3) (nosub bitmap : Bool) :
    let pb := (if perm = 3 then 2 else if perm = 2 then 4 else if perm = 1 then 8 else 0) +
      (if nosub then 0x0100 else 0) + (if bitmap then 0x0200 else 0)
    pb < 65536 ∧ (if bit pb 3 then (1 : Int) else if bit pb 2 then 2 else if bit pb 1 then 3 else 0) = perm ∧
      bit pb 8 = nosub ∧ bit pb 9 = bitmap :=
  perm_bits perm hp nosub bitmap

/-- a plain regular font's OS/2 info, used for the witnesses below -/
def os2Sample : Os2 :=
  ⟨400, 5, false, false, true, false, 32, 126, 800, -200, 900, 250, 90, 700, 500, 520,
   [650, 600, 0, 75, 650, 600, 0, 350, 50, 300], 0, [2, 0, 5, 3, 0, 0, 0, 0, 0, 0],
   [65, 68, 66, 69], [1, 0, 0, 0], 1, 0, false, false⟩

/-- The side conditions of `Os2Dom` are forced by the code (each witness is `os2Sample` with one
field changed; the real codec agrees, stream metrics.os2enc/os2dec "outside domain"):
regular + bold comes back not bold; a negative xHeight comes back 0; a 3-byte vendor id comes back
as four spaces; Unicode-range bit 57 set with `last ≠ 0xFFFF` comes back cleared. -/
theorem C12_os2_domain_forced :
    decodeOs2 (encodeOs2 { os2Sample with isBold := true }) = .ok os2Sample ∧
    decodeOs2 (encodeOs2 { os2Sample with xHeight := -5 }) = .ok { os2Sample with xHeight := 0 } ∧
    decodeOs2 (encodeOs2 { os2Sample with vendor := [65, 66, 67] }) =
      .ok { os2Sample with vendor := [32, 32, 32, 32] } ∧
    decodeOs2 (encodeOs2 { os2Sample with unicodeRange := [1, 33554432, 0, 0] }) = .ok os2Sample := by
  refine ⟨by decide +kernel, by decide +kernel, by decide +kernel, by decide +kernel⟩

/-! ## writer-side derivations (write.go / font.go) equal their definitions -/

/-- `(*sfnt.Font).FontBBox` = union (componentwise min / max) of the boxes of the glyphs with
contours, all-zero when there is none — for glyph boxes that are boxes (`xMin ≤ xMax`, `yMin ≤ yMax`). -/
theorem C12_fontbbox_union (es : List Rect) (hwf : ∀ e ∈ es, e.isZero = false → e.WF) :
    fontBBoxModel es = Spec.fontBBox es :=
  fontbbox_union es hwf

/-- The well-formedness hypothesis is forced by `Rect16.Extend` treating an all-zero accumulator as
"unset": two inverted boxes whose union is the zero rectangle make the loop start over (the real
`FontBBox` returns (1,1,2,2) here, as the model does; the union is (0,0,2,2)). Inverted boxes are not
glyph boxes, so this is outside the property's domain. -/
theorem C12_fontbbox_needs_wellformed :
    fontBBoxModel [⟨0, 0, -5, 0⟩, ⟨7, 0, 0, 0⟩, ⟨1, 1, 2, 2⟩] = ⟨1, 1, 2, 2⟩ ∧
    Spec.fontBBox [⟨0, 0, -5, 0⟩, ⟨7, 0, 0, 0⟩, ⟨1, 1, 2, 2⟩] = ⟨0, 0, 2, 2⟩ := by
  constructor <;> decide

/-- `makeOS2`'s average width (before the int16 conversion) is the arithmetic mean of the positive
widths rounded half up, 0 when there is none — for every width list. -/
theorem C12_avgwidth_def (ws : List Int) : (avgWidthInt ws : Int) = Spec.avgCharWidth ws :=
  avgwidth_def ws

/-- usFirstCharIndex / usLastCharIndex as `makeOS2` computes them from the code range of a format 4
or format 12 subtable = min(lowest code, 0xFFFF) / min(highest code, 0xFFFF), for every non-empty
list of codes in whatever order the Go map yields them. -/
theorem C12_charrange_def (ks : List Int) (hne : ks ≠ []) (hr : ∀ k ∈ ks, 0 ≤ k ∧ k ≤ 2147483647) :
    (charIndexModel (codeRange4 ks).1 = min (Spec.minList ks) 0xFFFF ∧
     charIndexModel (codeRange4 ks).2 = min (Spec.maxList ks) 0xFFFF) ∧
    (charIndexModel (codeRange12 ks true (0, 0)).1 = min (Spec.minList ks) 0xFFFF ∧
     charIndexModel (codeRange12 ks true (0, 0)).2 = min (Spec.maxList ks) 0xFFFF) := by
  have hmin : 0 ≤ Spec.minList ks := by
    rw [← runMin_true]
    rcases runMin_mem ks true 0 with h | h
    · omega
    · exact (hr _ h).1
  have hmax : 0 ≤ Spec.maxList ks := by
    rw [← runMax_true]
    rcases runMax_mem ks true 0 with h | h
    · omega
    · exact (hr _ h).1
  rw [codeRange4_eq ks hne hr, codeRange12_eq, runMin_true, runMax_true]
  exact ⟨⟨charIndexModel_eq _ hmin, charIndexModel_eq _ hmax⟩, charIndexModel_eq _ hmin, charIndexModel_eq _ hmax⟩

/-- `(*sfnt.Font).IsFixedPitch` (integral widths) = "all non-zero widths are equal, and there is
at least one glyph" — for every width list. -/
theorem C12_fixedpitch_def (ws : List Int) : isFixedPitchModel ws = Spec.isFixedPitch ws :=
  fixedpitch_def ws

/-- usWinAscent = yMax and usWinDescent = −yMin of the font bounding box (yMin = −32768 excluded:
its negation does not fit int16). -/
theorem C12_winmetrics_def (es : List Rect) (hwf : ∀ e ∈ es, e.isZero = false → e.WF)
    (h1 : -32768 < (Spec.fontBBox es).lly) (h2 : (Spec.fontBBox es).lly ≤ 32767) :
    winMetricsModel (fontBBoxModel es) = ((Spec.fontBBox es).ury, -(Spec.fontBBox es).lly) := by
  rw [fontbbox_union es hwf]; exact winMetrics_eq _ h1 h2

/-! ## the font's own metric queries (exact rationals) -/

/-- Widths in PDF units: for a glyf font `GlyphWidthPDF = 1000 · WidthsPDF` and
`WidthsPDF · unitsPerEm = design width`; for a CFF font whose matrix has no shear product
(`fm[1]·fm[2] = 0`, in particular every `[s 0 0 s 0 0]`) `GlyphWidthPDF = 1000 · WidthsPDF`. -/
theorem C12_widthpdf_def (w : Int) (upem : Nat) (hu : 0 < upem) (wq : Rat) (fm : Mat)
    (h : fm.b * fm.c = 0) :
    (glyphWidthPDFglyf w upem = 1000 * widthPDFglyf w upem ∧ widthPDFglyf w upem * upem = w) ∧
    glyphWidthPDFcff wq fm = 1000 * widthPDFcff wq fm :=
  ⟨widthPDF_glyf w upem hu, widthPDF_cff wq fm h⟩

/-- `FontBBoxPDF` is the image of `FontBBox`: for a uniform positive font matrix `[s 0 0 s 0 0]`
and glyph boxes that are boxes (`none` = nil glyph), the rectangle `FontBBoxPDF` accumulates from the
per-glyph `GlyphBBoxPDF` values is `1000·s` times the union of the design-unit glyph boxes. -/
theorem C12_fontbboxpdf_image (s : Rat) (hs : 0 < s) (gs : List (Option Rect))
    (hwf : ∀ e, some e ∈ gs → e.WF) :
    fontBBoxPDF (Mat.scale s) (gs.map fun g => g.map corners) =
      imageRect (s * 1000) (Spec.fontBBox (gs.map fun g => g.getD ⟨0, 0, 0, 0⟩)) := by
  rw [fontBBoxPDF_image s hs gs hwf, fontbbox_union]
  intro e he _
  obtain ⟨g, hg, rfl⟩ := List.mem_map.1 he
  cases g with
  | none => exact ⟨Int.le_refl 0, Int.le_refl 0⟩
  | some e' => exact hwf e' hg

/-- `GlyphBBox` of a CFF glyph (`cff.Glyph.Extent`) is the smallest box with integer coordinates
enclosing the outline points (`⌊min⌋ / ⌈max⌉`, also for negative fractional coordinates), and every
outline point lies inside it. -/
theorem C12_extent_encloses (pts : List (Rat × Rat)) :
    extentQ pts = Spec.enclosingBox pts ∧
    ∀ p ∈ pts, ((extentQ pts).llx : Rat) ≤ p.1 ∧ p.1 ≤ ((extentQ pts).urx : Rat) ∧
      ((extentQ pts).lly : Rat) ≤ p.2 ∧ p.2 ≤ ((extentQ pts).ury : Rat) := by
  refine ⟨extent_eq_enclosingBox pts, ?_⟩
  rw [extent_eq_enclosingBox]
  exact enclosingBox_encloses pts

/-- `GlyphBBoxPDF` under ANY font matrix (shear of either sign, rotation, flip, offset) is the
bounding box of the images of all the points it is given — for a glyf glyph all FOUR corners of its
box — under the matrix scaled by 1000, and contains each of these images. -/
theorem C12_glyphbboxpdf_image (fm : Mat) (p0 : Rat × Rat) (ps : List (Rat × Rat)) :
    glyphBBoxPDF fm (some (p0 :: ps)) = Spec.imageBox (Spec.pdfMatrix fm) (p0 :: ps) ∧
    ∀ p ∈ p0 :: ps,
      (glyphBBoxPDF fm (some (p0 :: ps))).llx ≤ (Spec.image (Spec.pdfMatrix fm) p).1 ∧
      (Spec.image (Spec.pdfMatrix fm) p).1 ≤ (glyphBBoxPDF fm (some (p0 :: ps))).urx ∧
      (glyphBBoxPDF fm (some (p0 :: ps))).lly ≤ (Spec.image (Spec.pdfMatrix fm) p).2 ∧
      (Spec.image (Spec.pdfMatrix fm) p).2 ≤ (glyphBBoxPDF fm (some (p0 :: ps))).ury := by
  have h := glyphBBoxPDF_eq_imageBox fm (p0 :: ps)
  simp only at h
  refine ⟨h, ?_⟩
  rw [h]
  exact imageBox_encloses _ _

/-- CID-keyed CFF fonts: `GlyphBBoxPDF` (matrix `FD.Mul(fm).Mul(Scale 1000)`, whatever the font
dictionary matrix — translation, shear, flip — and the font matrix are) is the bounding box of the
outline points mapped through the font dictionary matrix FIRST and the font matrix SECOND, ×1000;
it contains the image of every outline point under that map; and `GlyphWidthPDF` measures the
advance with the linear part of the very same composed matrix. -/
theorem C12_glyphbboxpdf_cid (fd fm : Mat) (p0 : Rat × Rat) (ps : List (Rat × Rat)) (w : Rat) :
    glyphBBoxPDF (fd.mul fm) (some (p0 :: ps)) = Spec.imageBoxF (Spec.cidImage fd fm) (p0 :: ps) ∧
    (∀ p ∈ p0 :: ps,
      (glyphBBoxPDF (fd.mul fm) (some (p0 :: ps))).llx ≤ (Spec.cidImage fd fm p).1 ∧
      (Spec.cidImage fd fm p).1 ≤ (glyphBBoxPDF (fd.mul fm) (some (p0 :: ps))).urx ∧
      (glyphBBoxPDF (fd.mul fm) (some (p0 :: ps))).lly ≤ (Spec.cidImage fd fm p).2 ∧
      (Spec.cidImage fd fm p).2 ≤ (glyphBBoxPDF (fd.mul fm) (some (p0 :: ps))).ury) ∧
    glyphWidthPDFcff w (fd.mul fm) = Spec.cidWidthPDF fd fm w := by
  refine ⟨glyphBBoxPDF_cid fd fm p0 ps, ?_, glyphWidthPDF_cid fd fm w⟩
  rw [glyphBBoxPDF_cid]
  exact imageBoxF_encloses _ _

/-- The rational model of the writer's handling of CFF widths (`int(w)`, `funit.Int16(w)`,
`|width − w| ≥ 0.5`) restricted to integral widths is the integral model the `C12_*_def` theorems
are about. -/
theorem C12_cff_fractional_extends (ws : List Int) :
    isFixedPitchQ (ws.map (Int.cast : Int → Rat)) = isFixedPitchModel ws ∧
    avgWidthQ (ws.map (Int.cast : Int → Rat)) = avgWidthModel ws ∧
    ∀ w : Int, truncQ (w : Rat) = w :=
  ⟨isFixedPitchQ_int ws, avgWidthQ_int ws, truncQ_int⟩

/-- `IsFixedPitch` (as the code defines it) is what ends up in post.isFixedPitch and is read back:
`makePost` passes `f.IsFixedPitch()` to `post.Encode`. -/
theorem C12_fixedpitch_written (ws : List Int) (a u t : Int)
    (ha : -2147483648 ≤ a ∧ a ≤ 2147483647) (hu : I16 u) (ht : I16 t) :
    ∃ v p, decodePost (encodePost 0x00030000 ⟨a, u, t, isFixedPitchModel ws⟩) = .ok (v, p) ∧
      p.isFixedPitch = Spec.isFixedPitch ws :=
  ⟨_, _, post_roundtrip 0x00030000 ⟨a, u, t, isFixedPitchModel ws⟩ (Or.inr (Or.inl rfl)) ha hu ht,
    fixedpitch_def ws⟩

/-! ## caret slope (floats): what is and is not proved -/

/-- **The hhea caret slope survives Decode∘Encode** (exact arithmetic; the float evaluation of the
same expressions is trusted and V-streamed).  For every slope `p/q` in lowest terms
(`Int.gcd p q = 1`, which makes the vertical carets `(±1, 0)` and the horizontal one `(0, 1)`) and
every multiplier `k ≥ 1` with `|k·p|, |k·q| ≤ 32767`, `fromAngle (toAngle (k·p) (k·q))` — i.e.
`bestRationalApproximation` searching denominators `1, 2, …` up to its bound, plus the sign and
vertical conventions of `fromAngle` — is exactly `(p, q)`.  With `k = 1`: a pair in lowest terms is
returned unchanged; with `k > 1`: a reducible pair is reduced, direction kept.  Excluded: the tie
`p = 0 ∧ q < 0`, where the sign of a float `-0` decides in Go. -/
theorem C12_caret_full (p q : Int) (k : Nat) (hk : 0 < k) (hc : Int.gcd p q = 1)
    (hp : ((k : Int) * p).natAbs ≤ 32767) (hq : ((k : Int) * q).natAbs ≤ 32767)
    (htie : ¬ (p = 0 ∧ q < 0)) : Caret.norm ((k : Int) * p) ((k : Int) * q) = (p, q) :=
  Caret.norm_reduces p q k hk hc hp hq htie

/-- …and the value `-32768` (which has no negative) is treated as `-32767`, as `toAngle` does. -/
theorem C12_caret_clamp (rise run : Int) :
    Caret.norm (-32768) run = Caret.norm (-32767) run ∧
    Caret.norm rise (-32768) = Caret.norm rise (-32767) :=
  Caret.norm_clamp rise run

/-- the unsigned core: `bestRationalApproximation(p·g / q·g, 32767) = (p, q)` for coprime `p, q` -/
theorem C12_bestRat_lowest_terms (p q g : Nat) (hg : 0 < g) (hq : 0 < q) (hc : Nat.Coprime q p)
    (ha : p * g ≤ 32767) (hb : q * g ≤ 32767) : Caret.bestRat (p * g) (q * g) = (p, q) :=
  Caret.bestRat_reduces p q g hg hq hc ha hb

/-- special directions (kept from round 1; now also instances of `C12_caret_full`, except the
all-zero pair, which `toAngle` maps to the horizontal caret) -/
theorem C12_caret_partial :
    Caret.norm 1 0 = (1, 0) ∧ Caret.norm (-1) 0 = (-1, 0) ∧ Caret.norm 0 0 = (0, 1) ∧
    (∀ rise : Int, 0 < rise → rise ≤ 32767 → Caret.norm rise 0 = (1, 0)) ∧
    (∀ rise : Int, -32768 ≤ rise → rise < 0 → Caret.norm rise 0 = (-1, 0)) :=
  caret_special

/-! ## non-vacuity -/

example : numLong [500, 600, 600, 600] = 2 := by decide
example : decHm 2 0 (encHm 2 [500, 600, 600, 600] [1, -2, 3, -4]) = some ([500, 600, 600, 600], [1, -2, 3, -4]) := by
  decide
example : ∃ hb m, encode ⟨some [500, 600, 600], some [⟨10, 0, 400, 700⟩, ⟨0, 0, 0, 0⟩, ⟨-5, -10, 580, 700⟩],
    none, 800, -200, 90, 0⟩ 1 0 = .ok (hb, some m) ∧ hheaDerived hb = (600, -5, 20, 580, 2) := by
  refine ⟨_, _, rfl, ?_⟩; decide
-- the hypotheses of C12_hhea_derived are met by an ordinary glyph list (one glyph empty), and by
-- one whose `aw − xMax` overflows int16 (the repaired case: the field saturates / stays exact)
example : ∀ g ∈ ([⟨500, 10, ⟨10, 0, 400, 700⟩⟩, ⟨600, 0, ⟨0, 0, 0, 0⟩⟩] : List Spec.Glyph),
    (g.box.isZero = false ∨ false = false) → g.lsb = g.box.llx := by decide
example : ∃ hb m, encode (infoOf [⟨2000, -32000, ⟨-32000, 0, -31000, 10⟩⟩, ⟨500, 0, ⟨0, 0, 400, 10⟩⟩]
    false 0 0 0 0) 1 0 = .ok (hb, some m) ∧ (hheaDerived hb).2.2.1 = 100 := ⟨_, _, rfl, by decide⟩
example : Caret.norm 2048 (-364) = (512, -91) := by
  have := C12_caret_full 512 (-91) 4 (by decide) (by decide +kernel) (by omega) (by omega) (by omega)
  simpa using this
example : Caret.norm 32767 10 = (32767, 10) := by
  have := C12_caret_full 32767 10 1 (by decide) (by decide +kernel) (by omega) (by omega) (by omega)
  simpa using this
example : fontBBoxPDF (Mat.scale (1 / 2048)) [some (corners ⟨10, -20, 500, 700⟩), none] =
    ⟨10000 / 2048, -20000 / 2048, 500000 / 2048, 700000 / 2048⟩ := by decide +kernel
example : Os2Dom os2Sample := by
  constructor <;> (first | decide | (unfold I16; decide) | (intro x hx; revert x hx; decide))
example : isFixedPitchModel [600, 0, 600, 600] = true ∧ isFixedPitchModel [600, 601] = false := by decide
example : avgWidthInt [500, 0, 601, -3] = 551 := by decide
example : HeadDom ⟨0x00018000, true, true, false, 1000, ⟨0, 0⟩, ⟨1700000000, 5⟩, ⟨-100, -200, 1000, 900⟩,
    true, false, false, false, false, 7, 1⟩ := by
  constructor <;> (first | decide | (unfold I16; decide))
example : decodeTime (encodeTime ⟨1700000000, 123⟩) = ⟨1700000000, 0⟩ := by decide

end SfntV.Props.C12
