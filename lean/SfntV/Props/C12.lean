/-
C12 — metrics/header tables round-trip exactly; derived header fields match their definitions.
Only property theorems and non-vacuity examples live here; helper lemmas are in
Proofs/Metrics*.lean.  Models: Model/Metrics.lean (hmtx/hhea, head, time, maxp, post header),
Model/Caret.lean (caret slope in exact arithmetic); definitions of the derived fields:
Spec/Metrics.lean.
-/
import SfntV.Proofs.Metrics
import SfntV.Proofs.MetricsHead
import SfntV.Model.Caret
import SfntV.Proofs.MetricsDerived
import SfntV.Proofs.MetricsOs2
import SfntV.Proofs.MetricsWriter

namespace SfntV.Props.C12
open SfntV SfntV.Metrics

/-! ## (a) hmtx / hhea -/

/-- `hmtx.Decode ∘ (*hmtx.Info).Encode = id` for EVERY width vector and bearing vector:
whenever `Encode` returns for `n ≥ 1` glyphs (`n ≤ 65535`, all fields int16), the hmtx bytes are
the compressed body for the `numberOfHMetrics` the encoder chose, and decoding the two tables gives
back every advance width, every left side bearing (the given ones, or the boxes' xMin when
`Info.LSB` is nil), ascent, descent, line gap, caret offset and the caret slope pair —
whatever the length of the constant tail of the widths. -/
theorem C12_hmtx_roundtrip (info : Info) (rise run : Int) (ws ls : List Int)
    (hws : info.widths = some ws) (hls : lsbsOf info = some ls) (hne : ws ≠ [])
    (hn : ws.length < 65536)
    (hw : ∀ w ∈ ws, I16 w) (hl : ∀ l ∈ ls, I16 l)
    (ha : I16 info.ascent) (hd : I16 info.descent) (hg : I16 info.lineGap)
    (hr : I16 rise) (hu : I16 run) (hc : I16 info.caretOffset)
    (hb : Bytes) (hm : Option Bytes) (he : encode info rise run = .ok (hb, hm)) :
    ∃ m, hm = some m ∧ m = encHm (numLong ws) ws ls ∧
      decode hb (some m) = .ok ⟨info.ascent, info.descent, info.lineGap, rise, run,
        info.caretOffset, ws, ls⟩ :=
  encode_decode info rise run ws ls hws hls hne hn hw hl ha hd hg hr hu hc hb hm he

/-- `Encode` does return (no panic) on the domain: widths, boxes and (if given) bearings of the
same length. -/
theorem C12_hmtx_encode_ok (info : Info) (rise run : Int) (ws : List Int) (es : List Rect)
    (hws : info.widths = some ws) (hes : info.extents = some es) (hlen : es.length = ws.length)
    (hl : ∀ l, info.lsb = some l → l.length = ws.length) :
    ∃ hb m, encode info rise run = .ok (hb, some m) :=
  encode_ok info rise run ws es hws hes hlen hl

/-- Every admissible `numberOfHMetrics` round-trips, not only the one the encoder picks: if the
widths are `pre ++ v :: replicate m v` (a constant tail of ANY length `m + 1` whose value is the last
long record) then the body written with `k = |pre| + 1` long records decodes to exactly the
widths and bearings. -/
theorem C12_hmtx_roundtrip_any_k (pre : List Int) (v : Int) (m : Nat) (ls : List Int)
    (hlen : (pre ++ v :: List.replicate m v).length = ls.length)
    (hw : ∀ w ∈ pre ++ v :: List.replicate m v, I16 w) (hl : ∀ l ∈ ls, I16 l) :
    decHm (pre.length + 1) 0 (encHm (pre.length + 1) (pre ++ v :: List.replicate m v) ls) =
      some (pre ++ v :: List.replicate m v, ls) :=
  decHm_encHm _ ls _ 0 hlen
    ((tailConst_append pre v 0 _).2 fun _ hw => (List.mem_replicate.1 hw).2) hw hl

/-- The `numberOfHMetrics` the encoder picks drops the whole constant tail except its first
element, and no more could be dropped: `ws = pre ++ v :: replicate m v`, `k = |pre| + 1`, and `pre`
does not end in `v`. -/
theorem C12_numberOfHMetrics_choice (ws : List Int) (hne : ws ≠ []) :
    ∃ (pre : List Int) (v : Int) (m : Nat), ws = pre ++ v :: List.replicate m v ∧
      numLong ws = pre.length + 1 ∧ pre.getLast? ≠ some v :=
  numLong_shape ws hne

/- `infoOf gs explicit …` is the `hmtx.Info` holding the glyphs' widths and boxes, and their
bearings when `explicit` (else `Info.LSB = nil`). -/
example (gs : List Spec.Glyph) (explicit : Bool) (a d g c : Int) :
    infoOf gs explicit a d g c = ⟨some (gs.map (·.aw)), some (gs.map (·.box)),
      if explicit then some (gs.map (·.lsb)) else none, a, d, g, c⟩ := rfl

/-- Derived hhea fields equal their definitions (plain folds over the glyphs with contours):
for glyphs `gs` (advance, bearing, box) with `lsb = xMin` on every glyph with contours — which is
what `Encode` itself arranges when `Info.LSB` is nil (`explicit = false`) — the table holds
advanceWidthMax = max advance (0 if none), minLeftSideBearing = min lsb,
minRightSideBearing = min (aw − (lsb + xMax − xMin)) saturated to int16 (after the repair of the
int16 overflow), xMaxExtent = max (lsb + xMax − xMin), and numberOfHMetrics as chosen above. -/
theorem C12_hhea_derived (gs : List Spec.Glyph) (explicit : Bool) (asc desc gap coff rise run : Int)
    (hgs : gs ≠ []) (hn : gs.length < 65536)
    (hcons : ∀ g ∈ gs, (g.box.isZero = false ∨ explicit = false) → g.lsb = g.box.llx)
    (hrange : ∀ g ∈ gs, I16 g.aw ∧ I16 g.lsb ∧ I16 g.box.llx ∧ I16 g.box.urx) :
    ∃ hb m, encode (infoOf gs explicit asc desc gap coff) rise run = .ok (hb, some m) ∧
      hheaDerived hb = (Spec.advanceWidthMaxG gs, Spec.minLeftSideBearingG gs,
        Spec.sat16 (Spec.minRightSideBearingG gs), Spec.xMaxExtentG gs, numLong (gs.map (·.aw))) :=
  hhea_derived gs explicit asc desc gap coff rise run hgs hn hcons hrange

/-- The hypothesis `lsb = xMin` of `C12_hhea_derived` is forced by the code: with an explicit
bearing different from xMin, `Encode` still uses `aw − xMax` and `xMax` (finding
C12-rsb-ignores-lsb; the real code agrees with the model on this input, replayed on every run). -/
theorem C12_hhea_derived_needs_lsb_eq_xMin :
    ∃ hb m, encode (infoOf [⟨200, 10, ⟨0, 0, 100, 100⟩⟩] true 0 0 0 0) 1 0 = .ok (hb, some m) ∧
      (hheaDerived hb).2.2.1 = 100 ∧ Spec.minRightSideBearingG [⟨200, 10, ⟨0, 0, 100, 100⟩⟩] = 90 ∧
      (hheaDerived hb).2.2.2.1 = 100 ∧ Spec.xMaxExtentG [⟨200, 10, ⟨0, 0, 100, 100⟩⟩] = 110 :=
  ⟨_, _, rfl, by decide, by decide, by decide, by decide⟩

/-! ## (b) head -/

/-- `decodeTime ∘ encodeTime` is the identity to the second, with exactly one exception:
a time whose Unix seconds equal the 1904 epoch (−2082844800) is written as 0 and read back as Go's
zero `time.Time` (year 1), as is the zero time itself.  Sub-second parts are dropped. -/
theorem C12_time_roundtrip (t : GoTime) (hlo : -4611686018427387904 ≤ t.sec)
    (hhi : t.sec ≤ 4611686018427387904) :
    decodeTime (encodeTime t) =
      if t.isZero ∨ t.sec = Gen.metricsZeroTime then GoTime.zero else ⟨t.sec, 0⟩ :=
  time_roundtrip t hlo hhi

/-- the exception spelled out: 1904-01-01T00:00:00Z does not survive, it becomes the zero time -/
theorem C12_time_epoch_lost : decodeTime (encodeTime ⟨-2082844800, 0⟩) = GoTime.zero ∧
    (GoTime.zero : GoTime) ≠ ⟨-2082844800, 0⟩ := by decide

/-- `head.Read ∘ (*head.Info).Encode = id` on the explicit field domain (revision uint32, units
per em and lowestRecPPEM uint16, bounding box and locaFormat int16, all five style bits, all three
flag bits), except that the two timestamps pass through `C12_time_roundtrip`. -/
theorem C12_head_roundtrip (h : Head) (d : HeadDom h) :
    decodeHead (encodeHead h) = .ok { h with created := decodeTime (encodeTime h.created),
                                             modified := decodeTime (encodeTime h.modified) } :=
  head_roundtrip h d

/-! ## (c) maxp, (d) post header -/

/-- `maxp.Read ∘ Encode = id` for glyph counts 1..65535, CFF form (version 0.5) and TrueType form
(version 1.0, thirteen uint16 maxima). -/
theorem C12_maxp_roundtrip (m : Maxp) (hn : 1 ≤ m.numGlyphs ∧ m.numGlyphs < 65536)
    (ht : ∀ vs, m.ttf = some vs → vs.length = 13 ∧ ∀ v ∈ vs, v < 65536) :
    ∃ b, encodeMaxp m = .ok b ∧ decodeMaxp b = .ok m :=
  maxp_roundtrip m hn ht

/-- post header: italic angle (any 16.16 value), underline position/thickness (int16) and
isFixedPitch survive `Encode`/`Read` for the name-less versions 1.0/3.0/4.0. -/
theorem C12_post_header_roundtrip (v : Nat) (p : PostHdr)
    (hv : v = 0x00010000 ∨ v = 0x00030000 ∨ v = 0x00040000)
    (ha : -2147483648 ≤ p.italicAngle ∧ p.italicAngle ≤ 2147483647)
    (hp : I16 p.underlinePosition) (ht : I16 p.underlineThickness) :
    decodePost (encodePost v p) = .ok (v, p) :=
  post_roundtrip v p hv ha hp ht

/-! ## (e) OS/2 -/

/-- `os2.Read ∘ (*os2.Info).Encode = id` on the explicit domain `Os2Dom` (Proofs/MetricsOs2):
weight/width class and first/last character uint16; every FWORD field int16; `IsRegular` excludes
bold and italic; sxHeight, sCapHeight ≥ 0; ten panose bytes; vendor id of length 4; four uint32
Unicode-range words whose bit 57 equals `last = 0xFFFF`; code-page range uint64; permission one of
install/edit/view/restricted; all style, permission and code-page bits. -/
theorem C12_os2_roundtrip (o : Os2) (d : Os2Dom o) : decodeOs2 (encodeOs2 o) = .ok o :=
  os2_roundtrip o d

/-- a plain regular font's OS/2 info, used for the witnesses below -/
def os2Sample : Os2 :=
  ⟨400, 5, false, false, true, false, 32, 126, 800, -200, 900, 250, 90, 700, 500, 520,
   [650, 600, 0, 75, 650, 600, 0, 350, 50, 300], 0, [2, 0, 5, 3, 0, 0, 0, 0, 0, 0],
   [65, 68, 66, 69], [1, 0, 0, 0], 1, 0, false, false⟩

/-- The side conditions of `Os2Dom` are forced by the code (each witness is `os2Sample` with one
field changed; the real codec agrees, stream metrics.os2enc/os2dec "outside domain"):
regular + bold comes back not bold; a negative xHeight comes back 0; a 3-byte vendor id comes back
as four spaces; Unicode-range bit 57 set with `last ≠ 0xFFFF` comes back cleared. -/
theorem C12_os2_domain_forced :
    decodeOs2 (encodeOs2 { os2Sample with isBold := true }) = .ok os2Sample ∧
    decodeOs2 (encodeOs2 { os2Sample with xHeight := -5 }) = .ok { os2Sample with xHeight := 0 } ∧
    decodeOs2 (encodeOs2 { os2Sample with vendor := [65, 66, 67] }) =
      .ok { os2Sample with vendor := [32, 32, 32, 32] } ∧
    decodeOs2 (encodeOs2 { os2Sample with unicodeRange := [1, 33554432, 0, 0] }) = .ok os2Sample := by
  refine ⟨by decide +kernel, by decide +kernel, by decide +kernel, by decide +kernel⟩

/-! ## writer-side derivations (write.go / font.go) equal their definitions -/

/-- `(*sfnt.Font).FontBBox` = union (componentwise min / max) of the boxes of the glyphs with
contours, all-zero when there is none — for glyph boxes that are boxes (`xMin ≤ xMax`, `yMin ≤ yMax`). -/
theorem C12_fontbbox_union (es : List Rect) (hwf : ∀ e ∈ es, e.isZero = false → e.WF) :
    fontBBoxModel es = Spec.fontBBox es :=
  fontbbox_union es hwf

/-- The well-formedness hypothesis is forced by `Rect16.Extend` treating an all-zero accumulator as
"unset": two inverted boxes whose union is the zero rectangle make the loop start over (the real
`FontBBox` returns (1,1,2,2) here, as the model does; the union is (0,0,2,2)). Inverted boxes are not
glyph boxes, so this is outside the property's domain. -/
theorem C12_fontbbox_needs_wellformed :
    fontBBoxModel [⟨0, 0, -5, 0⟩, ⟨7, 0, 0, 0⟩, ⟨1, 1, 2, 2⟩] = ⟨1, 1, 2, 2⟩ ∧
    Spec.fontBBox [⟨0, 0, -5, 0⟩, ⟨7, 0, 0, 0⟩, ⟨1, 1, 2, 2⟩] = ⟨0, 0, 2, 2⟩ := by
  constructor <;> decide

/-- `makeOS2`'s average width (before the int16 conversion) is the arithmetic mean of the positive
widths rounded half up, 0 when there is none — for every width list. -/
theorem C12_avgwidth_def (ws : List Int) : (avgWidthInt ws : Int) = Spec.avgCharWidth ws :=
  avgwidth_def ws

/-- usFirstCharIndex / usLastCharIndex as `makeOS2` computes them from the code range of a format 4
or format 12 subtable = min(lowest code, 0xFFFF) / min(highest code, 0xFFFF), for every non-empty
list of codes in whatever order the Go map yields them. -/
theorem C12_charrange_def (ks : List Int) (hne : ks ≠ []) (hr : ∀ k ∈ ks, 0 ≤ k ∧ k ≤ 2147483647) :
    (charIndexModel (codeRange4 ks).1 = min (Spec.minList ks) 0xFFFF ∧
     charIndexModel (codeRange4 ks).2 = min (Spec.maxList ks) 0xFFFF) ∧
    (charIndexModel (codeRange12 ks true (0, 0)).1 = min (Spec.minList ks) 0xFFFF ∧
     charIndexModel (codeRange12 ks true (0, 0)).2 = min (Spec.maxList ks) 0xFFFF) := by
  have hmin : 0 ≤ Spec.minList ks := by
    rw [← runMin_true]
    rcases runMin_mem ks true 0 with h | h
    · rw [h]; exact Int.le_refl 0
    · exact (hr _ h).1
  have hmax : 0 ≤ Spec.maxList ks := by
    rw [← runMax_true]
    rcases runMax_mem ks true 0 with h | h
    · rw [h]; exact Int.le_refl 0
    · exact (hr _ h).1
  rw [codeRange4_eq ks hne hr, codeRange12_eq, runMin_true, runMax_true]
  exact ⟨⟨charIndexModel_eq _ hmin, charIndexModel_eq _ hmax⟩, charIndexModel_eq _ hmin, charIndexModel_eq _ hmax⟩

/-- `(*sfnt.Font).IsFixedPitch` (integral widths) = "all non-zero widths are equal, and there is
at least one glyph" — for every width list. -/
theorem C12_fixedpitch_def (ws : List Int) : isFixedPitchModel ws = Spec.isFixedPitch ws :=
  fixedpitch_def ws

/-- usWinAscent = yMax and usWinDescent = −yMin of the font bounding box (yMin = −32768 excluded:
its negation does not fit int16). -/
theorem C12_winmetrics_def (es : List Rect) (hwf : ∀ e ∈ es, e.isZero = false → e.WF)
    (h1 : -32768 < (Spec.fontBBox es).lly) (h2 : (Spec.fontBBox es).lly ≤ 32767) :
    winMetricsModel (fontBBoxModel es) = ((Spec.fontBBox es).ury, -(Spec.fontBBox es).lly) := by
  rw [fontbbox_union es hwf]; exact winMetrics_eq _ h1 h2

/-! ## caret slope (floats): what is and is not proved -/

/-- FULL statement (not proved): for every slope pair `(rise, run)` of int16 values the exact-
arithmetic `fromAngle (toAngle rise run)` returns the pair reduced to lowest terms with the same
direction (`(±1, 0)` for a vertical caret). -/
def C12_caret_full : Prop :=
  ∀ rise run : Int, I16 rise → I16 run → Caret.isTie rise run = false →
    let d := Caret.toDir rise run
    let g : Int := Int.gcd d.1 d.2
    Caret.norm rise run = if d.2 = 0 then (if d.1 ≥ 0 then 1 else -1, 0) else (d.1 / g, d.2 / g)

/-- PROVED part: the special directions — vertical carets of either sign, the upright default
`(1, 0)`, the all-zero pair and horizontal `(0, run > 0)` — are fixed points / normalised as
stated.  The general loop invariant of `bestRationalApproximation` (first denominator with
distance 0 wins) is checked by correspondence only (stream metrics.caret). -/
theorem C12_caret_partial :
    Caret.norm 1 0 = (1, 0) ∧ Caret.norm (-1) 0 = (-1, 0) ∧ Caret.norm 0 0 = (0, 1) ∧
    (∀ rise : Int, 0 < rise → rise ≤ 32767 → Caret.norm rise 0 = (1, 0)) ∧
    (∀ rise : Int, -32768 ≤ rise → rise < 0 → Caret.norm rise 0 = (-1, 0)) :=
  caret_special

/-! ## non-vacuity -/

example : numLong [500, 600, 600, 600] = 2 := by decide
example : decHm 2 0 (encHm 2 [500, 600, 600, 600] [1, -2, 3, -4]) = some ([500, 600, 600, 600], [1, -2, 3, -4]) := by
  decide
example : ∃ hb m, encode ⟨some [500, 600, 600], some [⟨10, 0, 400, 700⟩, ⟨0, 0, 0, 0⟩, ⟨-5, -10, 580, 700⟩],
    none, 800, -200, 90, 0⟩ 1 0 = .ok (hb, some m) ∧ hheaDerived hb = (600, -5, 20, 580, 2) := by
  refine ⟨_, _, rfl, ?_⟩; decide
-- the hypotheses of C12_hhea_derived are met by an ordinary glyph list (one glyph empty), and by
-- one whose `aw − xMax` overflows int16 (the repaired case: the field saturates / stays exact)
example : ∀ g ∈ ([⟨500, 10, ⟨10, 0, 400, 700⟩⟩, ⟨600, 0, ⟨0, 0, 0, 0⟩⟩] : List Spec.Glyph),
    (g.box.isZero = false ∨ false = false) → g.lsb = g.box.llx := by decide
example : ∃ hb m, encode (infoOf [⟨2000, -32000, ⟨-32000, 0, -31000, 10⟩⟩, ⟨500, 0, ⟨0, 0, 400, 10⟩⟩]
    false 0 0 0 0) 1 0 = .ok (hb, some m) ∧ (hheaDerived hb).2.2.1 = 100 := ⟨_, _, rfl, by decide⟩
example : Os2Dom os2Sample := by
  constructor <;> (first | decide | (unfold I16; decide) | (intro x hx; revert x hx; decide))
example : isFixedPitchModel [600, 0, 600, 600] = true ∧ isFixedPitchModel [600, 601] = false := by decide
example : avgWidthInt [500, 0, 601, -3] = 551 := by decide
example : HeadDom ⟨0x00018000, true, true, false, 1000, ⟨0, 0⟩, ⟨1700000000, 5⟩, ⟨-100, -200, 1000, 900⟩,
    true, false, false, false, false, 7, 1⟩ := by
  constructor <;> (first | decide | (unfold I16; decide))
example : decodeTime (encodeTime ⟨1700000000, 123⟩) = ⟨1700000000, 0⟩ := by decide

end SfntV.Props.C12
