/-
C01, byte level, OpenType/CFF with interpreted widths: the example font of
Props/C01FileCffC13.lean is in the domain of `C01_file_roundtrip_cff_t2` with the model of the Go
charstring decoder (`T2.goQuirks`) as glyph semantics.
-/
import SfntV.Props.C01FileCffT2
import SfntV.Props.C01FileCffC13Ex

namespace SfntV.Props.C01
open SfntV SfntV.Font SfntV.FontFile SfntV.Otl

/-- the two charstrings of the example, interpreted: widths 600 (the default width, no width
operand), extents ⟨0,0,0,0⟩ and ⟨10,434,412,778⟩ — the example payload -/
theorem exFontIn_view_t2 :
    viewOf exSemT2 (Cff.nfSimple exCffTables exFontIn exPrivIn) = .ok exCffFontC.payload := by
  decide +kernel

theorem C01_file_example_cff_t2_in_domain : InDomainFileCffC13 exCffTables exSemT2 exEnvF exCffFontC where
  core := c13ex_core
  table := ⟨exFontIn, 3, exFontIn_writes, c13ex_len, Or.inl ⟨exPrivIn, exFontIn_dom, exFontIn_view_t2⟩⟩

/-- the example file (1236 bytes) read back, its widths those of the interpreted charstrings -/
theorem C01_file_example_cff_t2 :
    ∃ b r o gs, writeFileCff exEnvF exCffFontC = .ok b ∧
      readFileCff layoutDec (decCffC13 exCffTables exSemT2) (fun _ _ => 0) b = .ok r ∧
      r = nfFileCff exCffFontC ∧
      Cff.readFont exCffTables exCffFontC.cffBytes = .ok o ∧
      Pointwise (fun ci g => glyphT2 T2.goQuirks o ci = .ok g) o.charStrings.zipIdx gs ∧
      r.font.outline.widths = some (gs.map fun g => Dy.ofInt (toInt16 (dyOfFixed g.width).trunc)) :=
  C01_file_roundtrip_cff_t2 exCffTables T2.goQuirks exExt exSem.real exSem.matrix exSem.token exEnvF
    (fun _ _ => 0) exCffFontC C01_file_example_cff_t2_in_domain

end SfntV.Props.C01
