/-
C05 — Type 2 charstring interpretation conforms to the specification (TN5177).

`T2.interp goQuirks` is the model of `decodeCharString` (cff/t2decode.go), `T2.interp strict`
(= `Spec.T2.interp`) the specification; both are ONE interpreter.  Numbers are `Int` in 2⁻¹⁶ units.
-/
import SfntV.Proofs.T2
import SfntV.Proofs.T2Progress
import SfntV.Proofs.T2Loop
import SfntV.Proofs.T2WF
import SfntV.Proofs.T2WFCalls
import SfntV.Proofs.T2End
import SfntV.Proofs.T2Bridge2

namespace SfntV.Props.C05
open SfntV SfntV.T2 SfntV.Spec.T2

/-- The operator numbers in the Go source are those of TN5177 Appendix A (one-byte operators
1,3,…,31; two-byte operators 12 0 … 12 37 written as 3072+b). -/
theorem C05_opcodes :
    opTable = [
      (1, .hstem), (3, .vstem), (4, .vmoveto), (5, .rlineto), (6, .hlineto), (7, .vlineto),
      (8, .rrcurveto), (10, .callsubr), (11, .ret), (14, .endchar), (18, .hstemhm), (19, .hintmask),
      (20, .cntrmask), (21, .rmoveto), (22, .hmoveto), (23, .vstemhm), (24, .rcurveline),
      (25, .rlinecurve), (26, .vvcurveto), (27, .hhcurveto), (29, .callgsubr), (30, .vhcurveto),
      (31, .hvcurveto),
      (3072 + 0, .dotsection), (3072 + 3, .and), (3072 + 4, .or), (3072 + 5, .not), (3072 + 9, .abs),
      (3072 + 10, .add), (3072 + 11, .sub), (3072 + 12, .div), (3072 + 14, .neg), (3072 + 15, .eq),
      (3072 + 18, .drop), (3072 + 20, .put), (3072 + 21, .get), (3072 + 22, .ifelse),
      (3072 + 23, .random), (3072 + 24, .mul), (3072 + 26, .sqrt), (3072 + 27, .dup),
      (3072 + 28, .exch), (3072 + 29, .index), (3072 + 30, .roll), (3072 + 34, .hflex),
      (3072 + 35, .flex), (3072 + 36, .hflex1), (3072 + 37, .flex1)] := by
  decide

/-- The limits in the Go source are those of TN5177 Appendix B: 48 operand-stack entries, 10 nested
subroutine calls, 32 transient-array entries. -/
theorem C05_limits :
    Gen.t2maxStack = 48 ∧ Gen.t2callDepth = 10 ∧ Gen.t2storageSize = 32 ∧ Gen.t2storagePutLimit = 32 := by
  decide

/-- The subroutine bias computed from the regenerated thresholds is TN5177's rule: 107 for fewer
than 1240 subroutines, 1131 for fewer than 33900, 32768 otherwise — for every table size. -/
theorem C05_bias (n : Nat) :
    bias n = if n < 1240 then 107 else if n < 33900 then 1131 else 32768 := by
  rfl

example : bias 1239 = 107 ∧ bias 1240 = 1131 ∧ bias 33899 = 1131 ∧ bias 33900 = 32768 := by decide

/-- Operand decoding, integers: in any state with room on the stack, and under every quirk setting,
the interpreter reads the TN5177 code of the integer `v` (all four size classes, int16 range) as
`v` and continues after it. -/
theorem C05_number_roundtrip (q : Quirks) (env : Env) (s : St) (v : Int) (rest : List Nat)
    (h : -32768 ≤ v ∧ v ≤ 32767) (hs : s.stack.length ≤ 48) :
    step q env s (encodeInt v ++ rest) = .ok (.cont { s with stack := s.stack ++ [v * one] } rest) :=
  step_encodeInt q env s v rest h hs

/-- Operand decoding, 16.16 fixed point: the five-byte code 255 b1 b2 b3 b4 of the value `u`·2⁻¹⁶
(any int32 `u`) is read as exactly that value. -/
theorem C05_fixed_roundtrip (q : Quirks) (env : Env) (s : St) (u : Int) (rest : List Nat)
    (h : -2147483648 ≤ u ∧ u ≤ 2147483647) (hs : s.stack.length ≤ 48) :
    step q env s (encodeFixed u ++ rest) = .ok (.cont { s with stack := s.stack ++ [u] } rest) :=
  step_encodeFixed q env s u rest h hs

example : encodeInt 108 = [247, 0] ∧ encodeInt (-1131) = [254, 255] ∧ encodeInt 32767 = [28, 127, 255]
    ∧ encodeFixed (-1) = [255, 255, 255, 255, 255] := by decide

/-- Rejection, stack overflow: with more than 48 operands on the stack the next token (operand or
operator) is an error, under every quirk setting. -/
theorem C05_rejects_overflow (q : Quirks) (env : Env) (s : St) (b : Nat) (rest : List Nat)
    (h : s.stack.length > 48) : step q env s (b :: rest) = .err "overflow" :=
  step_overflow q env s b rest h

/-- Rejection, stack underflow: every arithmetic, storage, conditional and call operator executed
with fewer operands than it needs (`arity`) is an error, under every quirk setting. -/
theorem C05_rejects_underflow (q : Quirks) (env : Env) (s : St) (op : Op) (code : List Nat)
    (h : s.stack.length < arity op) : exec q env s op code = .err "underflow" :=
  exec_underflow q env s op code h

example : arity .ifelse = 4 ∧ arity .roll = 2 ∧ arity .callsubr = 1 := by decide

/-- Rejection, call depth: a call executed when all 10 nesting levels are in use is an error. -/
theorem C05_rejects_depth (q : Quirks) (env : Env) (s s' : St) (c : Nat) (cs rest : List Nat) (g : Bool)
    (b : Int) (h : step q env s (c :: cs) = .ok (.call s' rest g b)) :
    runAt q env 0 s (c :: cs) = .err "depth" :=
  runAt_zero_call q env s s' c cs rest g b h

/-- Rejection, subroutine index: a biased index that does not land inside the table is an error,
for every table size (so in particular on both sides of both bias thresholds). -/
theorem C05_rejects_subr (subrs : List (List Nat)) (biased : Int)
    (h : biased + bias subrs.length < 0 ∨ (subrs.length : Int) ≤ biased + bias subrs.length) :
    getSubr subrs biased = .err "subr" :=
  getSubr_bad subrs biased h

/-- … and that error ends the interpretation at every nesting level. -/
theorem C05_rejects_subr_run (q : Quirks) (env : Env) (d : Nat) (s s' : St) (c : Nat) (cs rest : List Nat)
    (g : Bool) (b : Int) (h : step q env s (c :: cs) = .ok (.call s' rest g b))
    (hb : getSubr (if g then env.gsubrs else env.subrs) b = .err "subr") :
    runAt q env (d + 1) s (c :: cs) = .err "subr" :=
  runAt_succ_badsubr q env d s s' c cs rest g b h hb

/-- Rejection, drawing before the first moveto: `rlineto` with at least one coordinate pair in a
state that has not moved yet is an error (under every quirk setting). -/
theorem C05_rejects_nomove (q : Quirks) (env : Env) (s : St) (dx dy : Int) (code : List Nat)
    (ts : List Int) (hst : s.stack = dx :: dy :: ts) (hm : s.hasMoved = false) :
    ∃ e, checkMove (exec q env s .rlineto code) = .err e := by
  simp only [exec, pathOp]
  cases hc : countCheck q q.shortPathOpIgnored s.stack.length 2 (s.stack.length % 2 == 0) with
  | err e => exact ⟨e, rfl⟩
  | panic p =>
    exfalso
    unfold countCheck at hc
    split at hc
    · split at hc <;> cases hc
    · split at hc <;> cases hc
  | ok u =>
    refine ⟨"nomove", ?_⟩
    have : (rlineLoop q s s.stack).moveErr = true := by
      rw [hst, rlineLoop]
      exact rlineLoop_moveErr q _ _ (by simp [rLineTo, hm])
    simp [checkMove, clear, this]

/-- Rejection, missing endchar — arbitrary programs, arbitrary subroutine tables, every quirk setting:
the interpreter returns a glyph ONLY if an `endchar` operator (byte 14) was executed, in the main program
or inside a subroutine.  Hence running out of code at top level, a top-level `return`, and any run that
never executes `endchar` are errors, never a (mis-)decoded glyph. -/
theorem C05_rejects_missing_endchar (q : Quirks) (env : Env) (code : List Nat) (g : Glyph)
    (h : T2.interp q env code = .ok g) :
    ∃ s1 rest s2, step q env s1 (14 :: rest) = .ok (.done s2) ∧ g = s2.glyph :=
  ok_only_by_endchar q env code g h

/-- … in particular the empty program is an error. -/
theorem C05_rejects_empty (q : Quirks) (env : Env) : T2.interp q env [] ≠ .ok g := by
  cases hq : q.implicitReturn <;> simp [T2.interp, interpSt, runAt, loop, hq, Gen.t2callDepth]

/-- Operator lemma, rlineto: one coordinate pair appends one line to (x+dx, y+dy). -/
theorem C05_rlineto (env : Env) (s : St) (dx dy : Int) (code : List Nat) (hst : s.stack = [dx, dy]) :
    exec strict env s .rlineto code =
      .ok (.cont { s with stack := [], moveErr := s.moveErr || !s.hasMoved, x := s.x + dx, y := s.y + dy,
                          cmds := s.cmds ++ [.lineTo (s.x + dx) (s.y + dy)] } code) :=
  exec_rlineto_one env s dx dy code hst

/-- Operator lemma, hvcurveto with the trailing fifth operand: "dx1 dx2 dy2 dy3 dxf": the curve
starts horizontally and the fifth operand is the x-delta of its end point. -/
theorem C05_hvcurveto_trailing (env : Env) (s : St) (a b c d e : Int) (code : List Nat)
    (hst : s.stack = [a, b, c, d, e]) :
    exec strict env s .hvcurveto code =
      .ok (.cont { s with stack := [], moveErr := s.moveErr || !s.hasMoved,
                          x := s.x + a + b + e, y := s.y + 0 + c + d,
                          cmds := s.cmds ++ [.curveTo (s.x + a) (s.y + 0) (s.x + a + b) (s.y + 0 + c)
                                                      (s.x + a + b + e) (s.y + 0 + c + d)] } code) := by
  simp [exec, pathOp, countCheck, hst, hvLoop, rCurveTo, fixq, strict, clear]

/-- Operator lemma, flex1 (TN5177: "If abs(dx) > abs(dy) then the last point's x-value is given by
d6 and its y-value is equal to y; otherwise the last point's x-value is equal to x and its y-value is
given by d6"): the specification interpreter ends the second curve on the start point's axis. -/
theorem C05_flex1_axis (env : Env) (s : St) (a0 a1 a2 a3 a4 a5 a6 a7 a8 a9 d6 : Int) (code : List Nat)
    (hst : s.stack = [a0, a1, a2, a3, a4, a5, a6, a7, a8, a9, d6]) :
    ∃ s', exec strict env s .flex1 code = .ok (.cont s' code) ∧
      (if (a0 + a2 + a4 + a6 + a8).natAbs > (a1 + a3 + a5 + a7 + a9).natAbs
       then s'.y = s.y ∧ s'.x = s.x + (a0 + a2 + a4 + a6 + a8) + d6
       else s'.x = s.x ∧ s'.y = s.y + (a1 + a3 + a5 + a7 + a9) + d6) := by
  simp only [exec]
  rw [pathOp_ok s code _ _ _ (by rw [hst]; simp) (by rw [hst]; rfl)]
  refine ⟨_, rfl, ?_⟩
  by_cases h : (a0 + a2 + a4 + a6 + a8).natAbs > (a1 + a3 + a5 + a7 + a9).natAbs
  · simp [hst, clear, strict, rCurveTo, fixq, h]
    constructor <;> omega
  · simp [hst, clear, strict, rCurveTo, fixq, h]
    constructor <;> omega

/-- Operator lemma, hflex and hflex1: both end at the y-coordinate they started from. -/
theorem C05_hflex_returns (env : Env) (s : St) (a0 a1 a2 a3 a4 a5 a6 : Int) (code : List Nat)
    (hst : s.stack = [a0, a1, a2, a3, a4, a5, a6]) :
    ∃ s', exec strict env s .hflex code = .ok (.cont s' code) ∧ s'.y = s.y := by
  refine ⟨_, by simp [exec, pathOp, countCheck, hst, strict, clear, rCurveTo, fixq]; rfl, ?_⟩
  simp
  omega

/-- Progress at operator level: after the first moveto, every path operator with an operand count
that is legal by TN5177 (`legalCount`) is executed by the specification interpreter without error; it
clears the stack, keeps "has moved", raises no move error and leaves width, stems and hint stage alone. -/
theorem C05_progress_pathop_partial (env : Env) (s : St) (op : Op) (code : List Nat)
    (hp : isPathOp op = true) (hl : legalCount op s.stack.length = true)
    (hm : s.hasMoved = true) (he : s.moveErr = false) :
    ∃ s', checkMove (exec strict env s op code) = .ok (.cont s' code) ∧ s'.stack = [] ∧
      s'.hasMoved = true ∧ s'.moveErr = false ∧ s'.widthSet = s.widthSet ∧ s'.width = s.width ∧
      s'.stage = s.stage ∧ s'.hstem = s.hstem ∧ s'.vstem = s.vstem := by
  obtain ⟨s1, h1, k1, k2, k3, k4, k5, k6, k7, _⟩ := exec_pathop_progress env s op code hp hl
  refine ⟨clear s1, ?_, rfl, ?_, ?_, k3, k4, k5, k6, k7⟩
  · rw [h1]
    have : (clear s1).moveErr = false := by simp [clear, k2 hm, he]
    simp [checkMove, this]
  · simp [clear, k1, hm]
  · simp [clear, k2 hm, he]

example : isPathOp .hvcurveto = true ∧ legalCount .hvcurveto 9 = true ∧ legalCount .rcurveline 14 = true := by decide

/-- Fuel justification (`loop_fuel`): the main loop's result does not depend on the fuel once the fuel
exceeds the number of code bytes — every iteration consumes at least one byte, and after a subroutine
call the loop continues with the strictly shorter rest; so `runAt`'s fuel `code.length + 1` never runs
out, for every quirk setting, subroutine handler, state and code. -/
theorem C05_loop_fuel (q : Quirks) (env : Env) (call : St → Bool → Int → Outcome Fin) (code : List Nat) (s : St)
    (f : Nat) (hf : code.length < f) :
    loop q env call f s code = loop q env call (code.length + 1) s code :=
  loop_fuel q env call code.length code s f (code.length + 1) (Nat.le_refl _) hf (Nat.lt_succ_self _)

/-- … in particular the interpreter never reports the internal error "fuel". -/
theorem C05_step_consumes (q : Quirks) (env : Env) (s : St) (b : Nat) (rest : List Nat) (r : Res)
    (h : step q env s (b :: rest) = .ok r) : r.code.length < (b :: rest).length :=
  step_code q env s b rest r h

def env0 : Env := ⟨[], [], 0, 0⟩

/-- Finding C05-mul (defect #18), witness `3 4 mul 0 rmoveto endchar`: the specification moves to
(12, 0); the model of the Go decoder moves to (0, 0). -/
theorem C05_mul_deviates :
    Spec.T2.interp env0 [142, 143, 12, 24, 139, 21, 14] = .ok ⟨[.moveTo (12 * 65536) 0], [], [], 0⟩ ∧
    T2.interp goQuirks env0 [142, 143, 12, 24, 139, 21, 14] = .ok ⟨[.moveTo 0 0], [], [], 0⟩ := by
  decide

/-- Repaired defect C05-flex1, witness `0 0 rmoveto 10 5 10 5 10 5 10 5 10 5 7 flex1 endchar`: by
TN5177 the second curve ends at y = 0 (the start point's y); the decoder before the repair (quirk
`flex1OffAxis`) ended it at y = 25; the model of the repaired decoder agrees with the specification. -/
theorem C05_flex1_repaired :
    Spec.T2.interp env0 [139, 139, 21, 149, 144, 149, 144, 149, 144, 149, 144, 149, 144, 146, 12, 37, 14] =
      .ok ⟨[.moveTo 0 0, .curveTo 655360 327680 1310720 655360 1966080 983040,
            .curveTo 2621440 1310720 3276800 1638400 3735552 0], [], [], 0⟩ ∧
    T2.interp goQuirks env0 [139, 139, 21, 149, 144, 149, 144, 149, 144, 149, 144, 149, 144, 146, 12, 37, 14] =
      Spec.T2.interp env0 [139, 139, 21, 149, 144, 149, 144, 149, 144, 149, 144, 149, 144, 146, 12, 37, 14] ∧
    T2.interp { goQuirks with flex1OffAxis := true } env0
        [139, 139, 21, 149, 144, 149, 144, 149, 144, 149, 144, 149, 144, 146, 12, 37, 14] =
      .ok ⟨[.moveTo 0 0, .curveTo 655360 327680 1310720 655360 1966080 983040,
            .curveTo 2621440 1310720 3276800 1638400 3735552 1638400], [], [], 0⟩ := by
  decide

/-- Finding C05-clamp, witness `32500 hmoveto endchar` (a legal int16 operand): the specification
moves to x = 32500; the model of the Go decoder (function `fix`) moves to x = 32000. -/
theorem C05_clamp_deviates :
    Spec.T2.interp env0 [28, 126, 244, 22, 14] = .ok ⟨[.moveTo (32500 * 65536) 0], [], [], 0⟩ ∧
    T2.interp goQuirks env0 [28, 126, 244, 22, 14] = .ok ⟨[.moveTo (32000 * 65536) 0], [], [], 0⟩ := by
  decide

/-- Whole-program progress: every well-formed program of the charstring language without subroutine
calls — literal operands (all encodings), the optional leading width on the first stack-clearing
operator, hstem/vstem/hstemhm/vstemhm, hintmask/cntrmask with implicit vstem operands and ⌈nStems/8⌉
mask bytes, the three movetos, all path operators incl. the four flex forms, the value-independent
arithmetic/conditional operators (abs add sub neg mul eq and or not drop dup exch ifelse random),
endchar — is executed by the specification interpreter without error and yields a glyph.  `WF` is the
independent stack-effect grammar `Spec.T2.wfCheck`. -/
theorem C05_progress (env : Env) (p : Program) (h : WF p) :
    ∃ g, Spec.T2.interp env (encode p) = .ok g := by
  obtain ⟨g, hg, _⟩ := wf_progress env p h
  exact ⟨g, hg⟩

/-- On well-formed programs that avoid the known deviations (`Agrees`: no `mul` — C05-mul; no `add`,
`sub`, `flex1`, `hflex1`, whose results/derived deltas are not statically within ±32000 — C05-clamp)
the Go decoder's quirks are invisible: its model returns exactly what the specification returns. -/
theorem C05_quirks_irrelevant (env : Env) (p : Program) (h : WF p) (ha : Agrees p) :
    T2.interp goQuirks env (encode p) = Spec.T2.interp env (encode p) := by
  obtain ⟨g, hg, hq⟩ := wf_progress env p h
  rw [hq ha]
  exact hg.symm

/-- Progress with subroutines: a program with calls (`callsubr`, `callgsubr`) into stack-neutral
subroutine tables — every body a sequence of complete grammar tokens (possibly with further calls)
closed by `return`, or ending the glyph with `endchar`; every biased index valid for its table (all
three bias classes, tables up to 65536 entries), at most 10 nested calls, every body well formed in the
state of each of its call sites (`wfCheckP`, a decidable checker with fuel) — is executed by the
specification interpreter without error. -/
theorem C05_progress_calls (T : Tables) (dw nw : Int) (fuel : Nat) (p : PProgram)
    (h : wfCheckP T fuel p = true) :
    ∃ g, Spec.T2.interp (T.env dw nw) (encodeP T p) = .ok g := by
  obtain ⟨g, hg, _⟩ := wfP_progress T dw nw fuel p h
  exact ⟨g, hg⟩

/-- … and if the main program and all subroutine bodies avoid the known deviations (`agreesCheckP`)
the model of the Go decoder returns exactly the specification's glyph. -/
theorem C05_quirks_irrelevant_calls (T : Tables) (dw nw : Int) (fuel : Nat) (p : PProgram)
    (h : wfCheckP T fuel p = true) (ha : agreesCheckP T p = true) :
    T2.interp goQuirks (T.env dw nw) (encodeP T p) = Spec.T2.interp (T.env dw nw) (encodeP T p) := by
  obtain ⟨g, hg, hq⟩ := wfP_progress T dw nw fuel p h
  rw [hq ha]
  exact hg.symm

/-- non-vacuity: the main program sets the width and a stem, calls local subroutine 1 (a moveto and a
global call), which calls global subroutine 0 (a line); then a curve and endchar in local subroutine 0 -/
def exTables : Tables :=
  { lsubrs := [[.tok (.int 1), .tok (.int 2), .tok (.int 3), .tok (.int 4), .tok (.op .hvcurveto), .tok (.op .endchar)],
               [.tok (.int 5), .tok (.int 6), .tok (.op .rmoveto), .call true 0]],
    gsubrs := [[.tok (.int 7), .tok (.int 8), .tok (.op .rlineto)]] }

def exMain : PProgram :=
  [.tok (.int 50), .tok (.int 10), .tok (.int 20), .tok (.op .hstem), .call false 1, .call false 0]

example : wfCheckP exTables 100 exMain = true ∧ agreesCheckP exTables exMain = true := by decide

/-- partial operator applications across a call are inside the grammar: operands pushed by the caller and
the operator in the callee (local 0), operands pushed by the callee and the operator in the caller (local 1) -/
def exTables2 : Tables :=
  { lsubrs := [[.tok (.op .rmoveto)], [.tok (.int 3), .tok (.int 4)]], gsubrs := [] }

example : wfCheckP exTables2 100
    [.tok (.int 1), .tok (.int 2), .call false 0, .call false 1, .tok (.op .rlineto), .tok (.op .endchar)] = true := by
  decide

/-- value-dependent operators with literal deciding operands:
"7 2 div  9 sqrt  1 index  3 1 roll  5 put  5 get" -/
example : WF [.int 7, .lit (.div 2), .lit (.sqrt 9), .lit (.index 1), .lit (.roll 3 1), .lit (.put 5), .lit (.get 5),
    .op .drop, .op .rmoveto, .op .endchar] := by decide

example : ¬ WF [.lit (.get 5), .op .hmoveto, .op .endchar] := by decide

/-- A well-formed sample program: width 50, hstem, implicit vstem + hintmask, rmoveto, rlineto with an
arithmetic operand, hvcurveto with trailing operand, flex1, endchar. -/
def exProg : Program :=
  [.int 50, .int 10, .int 20, .op .hstemhm, .int 5, .int 6, .mask false [192], .int 1, .int 2, .op .rmoveto,
   .int 3, .int 4, .int 1, .op .add, .op .rlineto, .int 1, .int 2, .int 3, .int 4, .int 5, .op .hvcurveto,
   .int 1, .int 2, .int 3, .int 4, .int 5, .int 6, .int 7, .int 8, .int 9, .int 10, .int 11, .op .flex1,
   .op .endchar]

example : WF exProg := by decide
example : ¬ Agrees exProg := by decide
example : WF [.int 50, .int 10, .int 20, .op .hstem, .int 1, .int 2, .op .rmoveto, .int 3, .int 4, .op .rlineto,
    .int 1, .int 2, .int 3, .int 4, .int 5, .op .hvcurveto, .op .endchar] ∧
  Agrees [.int 50, .int 10, .int 20, .op .hstem, .int 1, .int 2, .op .rmoveto, .int 3, .int 4, .op .rlineto,
    .int 1, .int 2, .int 3, .int 4, .int 5, .op .hvcurveto, .op .endchar] := by decide

/-! ### bridge to C04: the decoder model and the specification agree on everything the compiler emits -/

open SfntV.T2Enc in
/-- `C05_agrees_on_encoder_output` (= `C04_output_quirk_free`): for every well-formed glyph (`GlyphWF`),
every choice of edge paths and every charstring `bytes` the compiler model `encodeCharString` emits for
it — header with optional width, stem chunks, the omitted vstemhm before a leading mask, masks, all twelve
path operator forms, endchar — the model of the Go decoder and the specification interpreter return the
same result, provided the encoded operands are read back (`CmdDecodes`/`Decodes`: |step| ≤ 32767, finding
C04-bigstep) and every path delta lies within ±32000 (`CmdBnd`: beyond it the Go decoder clamps, finding
C05-clamp).  With it the hypothesis "goQuirks = strict on those bytes" of file-level theorems is discharged. -/
theorem C05_agrees_on_encoder_output (env : Env) (K : Nat) (w : Int) (hs vs : List Int) (cmds : List InCmd)
    (paths : List (List (Nat × Op))) (bytes : List Nat)
    (h : encodeCharString K w hs vs cmds env.defaultWidth env.nominalWidth paths = some bytes)
    (hwf : GlyphWF hs vs cmds = true)
    (hdec : ∀ c ∈ encodeArgs K cmds, CmdDecodes c) (hbnd : ∀ c ∈ encodeArgs K cmds, CmdBnd c)
    (hw : w ≠ env.defaultWidth * 2 ^ (K - 16) → Decodes (encNum (w - env.nominalWidth * 2 ^ (K - 16)) K))
    (hdh : ∀ c ∈ hChunks env K w hs, ∀ a ∈ c, Decodes a)
    (hdv : ∀ c ∈ vChunks env K w hs vs, ∀ a ∈ c, Decodes a) :
    T2.interp goQuirks env bytes = Spec.T2.interp env bytes :=
  agrees_on_encoder_output env K w hs vs cmds paths bytes h hwf hdec hbnd hw hdh hdv

open SfntV.T2Enc in
/-- the same statement under C04's name -/
theorem C04_output_quirk_free (env : Env) (K : Nat) (w : Int) (hs vs : List Int) (cmds : List InCmd)
    (paths : List (List (Nat × Op))) (bytes : List Nat)
    (h : encodeCharString K w hs vs cmds env.defaultWidth env.nominalWidth paths = some bytes)
    (hwf : GlyphWF hs vs cmds = true)
    (hdec : ∀ c ∈ encodeArgs K cmds, CmdDecodes c) (hbnd : ∀ c ∈ encodeArgs K cmds, CmdBnd c)
    (hw : w ≠ env.defaultWidth * 2 ^ (K - 16) → Decodes (encNum (w - env.nominalWidth * 2 ^ (K - 16)) K))
    (hdh : ∀ c ∈ hChunks env K w hs, ∀ a ∈ c, Decodes a)
    (hdv : ∀ c ∈ vChunks env K w hs vs, ∀ a ∈ c, Decodes a) :
    T2.interp goQuirks env bytes = T2.interp strict env bytes :=
  agrees_on_encoder_output env K w hs vs cmds paths bytes h hwf hdec hbnd hw hdh hdv

open SfntV.T2Enc in
/-- `C04_glyph_roundtrip_go`: C04's round trip holds verbatim for the MODEL OF THE GO DECODER: decoding the
compiled charstring with `decodeCharString`'s model gives the glyph back — every path coordinate, stem edge
and the width within 2⁻¹⁷ — for well-formed glyphs with steps ≤ 32767 (C04-bigstep) and deltas within
±32000 (C05-clamp). -/
theorem C04_glyph_roundtrip_go (env : Env) (K : Nat) (hK : 16 ≤ K) (w : Int) (hs vs : List Int)
    (cmds : List InCmd) (paths : List (List (Nat × Op))) (bytes : List Nat)
    (h : encodeCharString K w hs vs cmds env.defaultWidth env.nominalWidth paths = some bytes)
    (hwf : GlyphWF hs vs cmds = true) (hsteps : stepsSmall K 0 0 cmds = true)
    (hbnd : ∀ c ∈ encodeArgs K cmds, CmdBnd c)
    (hw : w ≠ env.defaultWidth * 2 ^ (K - 16) → Small K (w - env.nominalWidth * 2 ^ (K - 16)))
    (hhs : hStemsSmall env K w hs = true) (hvs : vStemsSmall env K w hs vs = true) :
    ∃ g, T2.interp goQuirks env bytes = .ok g ∧ CmdsClose K g.cmds cmds ∧
      CloseList K g.hstem hs ∧ CloseList K g.vstem vs ∧
      g.hstem = decStems (hChunks env K w hs) ∧ g.vstem = decStems (vChunks env K w hs vs) ∧
      g.width = (if w = env.defaultWidth * 2 ^ (K - 16) then env.defaultWidth
        else (encNum (w - env.nominalWidth * 2 ^ (K - 16)) K).val + env.nominalWidth) ∧
      (w ≠ env.defaultWidth * 2 ^ (K - 16) → Close K g.width w) :=
  glyph_roundtrip_go env K hK w hs vs cmds paths bytes h hwf hsteps hbnd hw hhs hvs

end SfntV.Props.C05
