/-
C15 — end-to-end layout: feature selection, legacy kerning, standard ligatures, trivial pipeline.
Only property theorems and non-vacuity examples live here; helper lemmas are in Proofs/Layout*.lean.
-/
import SfntV.Proofs.LayoutFind
import SfntV.Proofs.LayoutKern
import SfntV.Proofs.LayoutLig
import SfntV.Proofs.LayoutPipe

namespace SfntV.Props.C15
open SfntV SfntV.Layout

/-! ## feature selection (`gtab.Info.FindLookups`) -/

/-- What `FindLookups` returns once the language system `ls` has been chosen: a lookup index is in
the result iff it is in range of the lookup list and belongs to the required feature or to an optional
feature of `ls` whose tag is switched on; and the result is strictly ascending (hence free of
duplicates). For all feature lists, language systems, switch maps and lookup counts. -/
theorem C15_findlookups (fl : List Feature) (numLookups : Nat) (sw : String → Bool) (ls : LangSys) :
    (∀ l, l ∈ lookupsOf fl numLookups sw ls ↔
        l < numLookups ∧
        ((∃ f, fl[ls.required]? = some f ∧ l ∈ f.lookups) ∨
         (∃ i ∈ ls.optional, ∃ f, fl[i]? = some f ∧ sw f.tag = true ∧ l ∈ f.lookups))) ∧
    (lookupsOf fl numLookups sw ls).Pairwise (· < ·) ∧ (lookupsOf fl numLookups sw ls).Nodup := by
  refine ⟨fun l => ?_, ?_, ?_⟩
  · rw [mem_lookupsOf, mem_selected]
  · exact toSet_sorted _
  · exact nodup_of_strict _ (toSet_sorted _)

/-- The whole function: for a non-empty script list (a Go map: distinct keys, listed in any range
order) and any matcher, the result is `[]` when the chosen record is nil and otherwise the selection
of `C15_findlookups` for a language system that really is a record of the script list. -/
theorem C15_findlookups_total (m : Matcher) (scripts : List (String × Option LangSys))
    (fl : List Feature) (numLookups : Nat) (sw : String → Bool) (hne : scripts ≠ []) :
    ∃ t, t ∈ scripts.map (·.1) ∧
      (findLookups m scripts fl numLookups sw =
        match scriptGet scripts t with
        | none => []
        | some ls => lookupsOf fl numLookups sw ls) := by
  obtain ⟨t, ht, hmem⟩ := chosen_tag_mem m scripts hne
  refine ⟨t, hmem, ?_⟩
  unfold findLookups chosen
  have : scripts.isEmpty = false := by cases scripts with | nil => exact absurd rfl hne | cons a r => rfl
  rw [this, ht]
  simp only [Bool.false_eq_true, if_false]
  cases scriptGet scripts t <;> rfl

/-- The Go code fills a `map[LookupIndex]bool`, ranges over it in an unspecified order, filters and
sorts.  Whatever that order (`ks`: the keys, each once), the result is the model's. -/
theorem C15_findlookups_maporder (sel ks : List Nat) (n : Nat) (hnd : ks.Nodup)
    (hk : ∀ a, a ∈ ks ↔ a ∈ sel) :
    (ks.filter (· < n)).mergeSort natLe = toSet (sel.filter (· < n)) :=
  mapOrder_irrelevant sel ks n hnd hk

/-- A feature that is switched off contributes nothing: every lookup returned comes from the required
feature or from an optional feature whose tag is switched on (so if `sw t = false`, not from a feature
tagged `t`, unless that is the required feature). -/
theorem C15_switches (fl : List Feature) (numLookups : Nat) (sw : String → Bool) (ls : LangSys)
    (t : String) (ht : sw t = false) (l : Nat) (hl : l ∈ lookupsOf fl numLookups sw ls) :
    (∃ f, fl[ls.required]? = some f ∧ l ∈ f.lookups) ∨
    (∃ i ∈ ls.optional, ∃ f, fl[i]? = some f ∧ f.tag ≠ t ∧ sw f.tag = true ∧ l ∈ f.lookups) := by
  rcases ((C15_findlookups fl numLookups sw ls).1 l).mp hl with ⟨_, h | ⟨i, hi, f, hf, hsw, hlf⟩⟩
  · exact Or.inl h
  · refine Or.inr ⟨i, hi, f, hf, ?_, hsw, hlf⟩
    intro h; rw [h, ht] at hsw; cases hsw

/-- With every optional feature switched off (in particular for a nil map passed to `FindLookups`
itself) exactly the in-range lookups of the required feature remain. -/
theorem C15_switches_all_off (fl : List Feature) (numLookups : Nat) (ls : LangSys) (l : Nat) :
    l ∈ lookupsOf fl numLookups (fun _ => false) ls ↔
      l < numLookups ∧ ∃ f, fl[ls.required]? = some f ∧ l ∈ f.lookups := by
  rw [(C15_findlookups fl numLookups _ ls).1 l]
  constructor
  · rintro ⟨h, h' | ⟨_, _, _, _, hsw, _⟩⟩
    · exact ⟨h, h'⟩
    · cases hsw
  · rintro ⟨h, h'⟩; exact ⟨h, Or.inl h'⟩

/-- `NewLayouter`: a nil switch map means the default set (regenerated from featurelist.go); the
defaults switch on exactly the listed tags. -/
theorem C15_switches_nil :
    effective Gen.gsubDefaultFeatures none = Gen.gsubDefaultFeatures ∧
    effective Gen.gposDefaultFeatures none = Gen.gposDefaultFeatures ∧
    (∀ sw, effective Gen.gsubDefaultFeatures (some sw) = sw) ∧
    (∀ e ∈ Gen.gsubDefaultFeatures, switchFn Gen.gsubDefaultFeatures e.1 = true) ∧
    (∀ e ∈ Gen.gposDefaultFeatures, switchFn Gen.gposDefaultFeatures e.1 = true) :=
  ⟨rfl, rfl, fun _ => rfl, by decide, by decide⟩

/-- The same on every call: the result does not depend on the order in which the Go runtime ranges
over the script-list map (repaired code: tags are sorted before they reach the matcher). -/
theorem C15_findlookups_det (m : Matcher) (s₁ s₂ : List (String × Option LangSys)) (fl : List Feature)
    (numLookups : Nat) (sw : String → Bool) (keys_nodup : (s₁.map (·.1)).Nodup) (hp : s₁.Perm s₂) :
    findLookups m s₁ fl numLookups sw = findLookups m s₂ fl numLookups sw :=
  findLookups_perm m s₁ s₂ fl numLookups sw keys_nodup hp

/-- a matcher that falls back to the first tag offered (what `language.Matcher` does when nothing
matches) -/
def firstMatcher : Matcher := ⟨fun _ => 0, fun _ h => List.length_pos_iff.mpr h⟩

/-- The code as it was (tags handed to the matcher in map range order) did NOT have this property:
two range orders of the same two-entry map give different answers (finding #16). -/
theorem C15_findlookups_det_unrepaired_false :
    ∃ (m : Matcher) (s₁ s₂ : List (String × Option LangSys)) (fl : List Feature) (n : Nat) (sw : String → Bool),
      (s₁.map (·.1)).Nodup ∧ s₁.Perm s₂ ∧
      findLookupsMapOrder m s₁ fl n sw ≠ findLookupsMapOrder m s₂ fl n sw :=
  ⟨firstMatcher, [("de", some ⟨0, []⟩), ("fr", some ⟨1, []⟩)], [("fr", some ⟨1, []⟩), ("de", some ⟨0, []⟩)],
   [⟨"liga", [0]⟩, ⟨"liga", [1]⟩], 2, fun _ => true, by decide, List.Perm.swap _ _ _, by decide⟩

/-! Non-vacuity -/

def exFeatures : List Feature := [⟨"liga", [3, 1]⟩, ⟨"kern", [2, 9]⟩, ⟨"smcp", [0, 1]⟩]
def exLangSys : LangSys := ⟨1, [0, 2, 7]⟩
example : lookupsOf exFeatures 5 (switchFn [("liga", true), ("smcp", false)]) exLangSys = [1, 2, 3] := by decide
example : ([("fr", some (⟨0xFFFF, [0]⟩ : LangSys)), ("de", some exLangSys)].map (·.1)).Nodup := by decide
example : findLookupsMapOrder firstMatcher [("de", some exLangSys), ("fr", some ⟨0xFFFF, [0]⟩)] exFeatures 5
    (switchFn Gen.gsubDefaultFeatures) = [1, 2, 3] := by decide

/-! ## switches and the synthesised tables (finding #17, repaired) -/

/-- The `liga` feature synthesised by `standardLigatures` and the `kern` feature made from a legacy
kern table are OPTIONAL features of their language system (language-system records regenerated from
ligatures.go / read.go): lookup 0 is selected iff the caller's switch for the tag is on.  Before the
repair both were installed as the required feature and `{"liga": false}` / `{"kern": false}` had no
effect. -/
theorem C15_switches_synth (sw : String → Bool) :
    lookupsOf ligaFeatures 1 sw ligaLangSys = (if sw "liga" then [0] else []) ∧
    lookupsOf kernFeatures 1 sw kernLangSys = (if sw "kern" then [0] else []) := by
  constructor
  · cases h : sw "liga" <;>
      simp [lookupsOf, selected, featLookups, optLookups, ligaLangSys, ligaFeatures, Gen.ligaRequired,
        Gen.ligaOptional, toSet, insertU, h]
  · cases h : sw "kern" <;>
      simp [lookupsOf, selected, featLookups, optLookups, kernLangSys, kernFeatures, Gen.kernRequired,
        Gen.kernOptional, toSet, insertU, h]

/-! ## legacy kern tables -/

/-- the kern tables the property speaks of: version-0 tables whose fields fit their binary
representation and whose subtables each list a set of pairs (`KSub.WF`) -/
structure KernDom (subs : List KSub) : Prop where
  wf : ∀ s ∈ subs, s.WF
  count : subs.length < 65536

/-- `kern.Read` accepts the encoding of every table in the domain, and for every glyph pair whose
accumulated value stays representable in 16 bits after each subtable, the value it reports is the
specification's: kerning values summed, minimum subtables limiting from below, override subtables
replacing, non-horizontal / cross-stream / unknown-format subtables ignored. -/
theorem C15_kern_read (subs : List KSub) (h : KernDom subs) :
    ∃ m, kernRead (encKern subs) = .ok m ∧
      ∀ k, (∀ i, i ≤ subs.length → I16 (kernSpec (subs.take i) k)) → mget m k = kernSpec subs k := by
  refine ⟨foldSubs [] subs, kernRead_enc subs h.wf h.count, ?_⟩
  intro k hno
  exact mget_foldSubs subs k [] (fun s hs => (h.wf s hs).keys_nodup) hno

/-- A font that carries only a legacy kern table kerns every pair by exactly the table's value: laying
out any string (all characters mapped to glyphs the font has widths for, no GSUB, no marks) through the
GPOS lookup `sfnt.Read` makes from the table gives one glyph per character, each with its character,
and the advance of every glyph that has a successor is its width plus the specification's kerning value
for (glyph, next glyph) — in the 16-bit arithmetic of `funit.Int16` — while the last glyph keeps its
plain width. -/
theorem C15_kern (subs : List KSub) (h : KernDom subs) (cmap : Nat → Nat) (width : Nat → Int)
    (s : List Nat) (hw : ∀ r ∈ s, I16 (width (cmap r)))
    (hno : ∀ i r r', s[i]? = some r → s[i + 1]? = some r' →
      ∀ j, j ≤ subs.length → I16 (kernSpec (subs.take j) (cmap r, cmap r'))) :
    ∃ m, kernRead (encKern subs) = .ok m ∧
      (layout cmap none (some (kernAdjust m)) (fun _ => false) width s).length = s.length ∧
      ∀ i r, s[i]? = some r →
        (layout cmap none (some (kernAdjust m)) (fun _ => false) width s)[i]? = some (⟨cmap r, [r],
          match s[i + 1]? with
          | some r' => wrap16 (width (cmap r) + kernSpec subs (cmap r, cmap r'))
          | none => width (cmap r)⟩ : Glyph) := by
  obtain ⟨m, hm, hspec⟩ := C15_kern_read subs h
  have haw := assignWidths_map (fun _ => false) width cmap s
  have hl : layout cmap none (some (kernAdjust m)) (fun _ => false) width s =
      kernAdjust m (s.map fun r => (⟨cmap r, [r], width (cmap r)⟩ : Glyph)) := by
    unfold layout
    simp only [haw, Bool.false_eq_true, if_false]
  refine ⟨m, hm, ?_, ?_⟩
  · rw [hl, length_kernAdjust, List.length_map]
  · intro i r hi
    have hg : (s.map fun r => (⟨cmap r, [r], width (cmap r)⟩ : Glyph))[i]?
        = some ⟨cmap r, [r], width (cmap r)⟩ := by
      rw [List.getElem?_map, hi]; rfl
    have hI : I16 (width (cmap r)) := hw r (List.mem_of_getElem? hi)
    rw [hl, kernAdjust_get m _ i _ hg hI, List.getElem?_map]
    cases hn : s[i + 1]? with
    | none => simp
    | some r' =>
      simp only [Option.map_some]
      rw [hspec _ (hno i r r' hi hn)]

/-! ## standard ligatures -/

/-- A proportional font without GSUB gets exactly the f-ligatures whose glyphs exist in the cmap, longest
first.  For every cmap: (1) the coverage (first glyphs) is strictly ascending; (2) a ligature
`first rest → out` is in the synthesised subtable iff it is one of the entries of the standard list
(U+FB03 ffi, U+FB04 ffl, U+FB00 ff, U+FB01 fi, U+FB02 fl — regenerated from ligatures.go) all of whose
characters, including the ligature character itself, are mapped, with exactly the mapped glyphs;
(3) within each group longer component sequences come first, so that (4) the first ligature that
matches at a position is a longest one; (5) no table is made iff no entry is completely mapped. -/
theorem C15_ligatures (cmap : Nat → Nat) :
    ((ligTable cmap).map (·.1)).Pairwise (· < ·) ∧
    (∀ k l, (∃ grp, (k, grp) ∈ ligTable cmap ∧ l ∈ grp) ↔
        ∃ lig ∈ Gen.stdLigatures, (∀ c ∈ lig, cmap c ≠ 0) ∧ lig.map cmap = l.out :: k :: l.rest) ∧
    (∀ k grp, (k, grp) ∈ ligTable cmap → grp.Pairwise (fun a b => b.rest.length ≤ a.rest.length)) ∧
    (∀ k grp next l, (k, grp) ∈ ligTable cmap → ligMatch grp next = some l →
        l ∈ grp ∧ l.rest.isPrefixOf next = true ∧
        ∀ l' ∈ grp, l'.rest.isPrefixOf next = true → l'.rest.length ≤ l.rest.length) ∧
    (standardLigatures cmap = none ↔
        ∀ lig ∈ Gen.stdLigatures, ∃ c ∈ lig, cmap c = 0) := by
  refine ⟨?_, ?_, ?_, ?_, ?_⟩
  · rw [ligTable_keys]; exact toSet_sorted _
  · intro k l; rw [mem_ligTable_flat, mem_ligEntries]
  · exact ligTable_longest_first cmap
  · intro k grp next l hg hm
    exact ligMatch_longest grp next (ligTable_longest_first cmap k grp hg) l hm
  · unfold standardLigatures
    constructor
    · intro h
      have he : ligEntries cmap = [] := by
        cases hc : ligEntries cmap with
        | nil => rfl
        | cons a r => rw [hc] at h; simp at h
      intro lig hl
      apply Classical.byContradiction
      intro hn
      have hall : ∀ c ∈ lig, cmap c ≠ 0 := fun c hc h0 => hn ⟨c, hc, h0⟩
      have hlen : 2 ≤ lig.length :=
        (by decide : ∀ x ∈ Gen.stdLigatures, 2 ≤ x.length) lig hl
      cases hm : lig.map cmap with
      | nil => have := congrArg List.length hm; rw [List.length_map, List.length_nil] at this; omega
      | cons o t =>
        cases t with
        | nil => have := congrArg List.length hm; rw [List.length_map] at this; simp only [List.length_cons, List.length_nil] at this; omega
        | cons f rest =>
          have : (f, (⟨rest, o⟩ : Lig)) ∈ ligEntries cmap :=
            (mem_ligEntries cmap f ⟨rest, o⟩).mpr ⟨lig, hl, hall, hm⟩
          rw [he] at this; cases this
    · intro h
      have he : ligEntries cmap = [] := by
        cases hc : ligEntries cmap with
        | nil => rfl
        | cons a r =>
          obtain ⟨k, l⟩ := a
          have hmem : (k, l) ∈ ligEntries cmap := by rw [hc]; exact List.mem_cons_self
          obtain ⟨lig, hl, hall, _⟩ := (mem_ligEntries cmap k l).mp hmem
          obtain ⟨c, hc1, hc0⟩ := h lig hl
          exact absurd hc0 (hall c hc1)
      rw [he]; rfl

/-! ## the trivial case of the pipeline -/

/-- With no applicable rule the output of `Layout` is exactly one glyph per character carrying that
character and the font's advance width (0 for GDEF mark glyphs, which `Layout` leaves at zero).
"No applicable rule" is a hypothesis on the two abstract `Context.Apply` functions: each returns the
sequence it is given unchanged (or the context is nil).  For all cmaps, widths, mark classes, strings. -/
theorem C15_trivial (cmap : Nat → Nat) (gsub gpos : Option (List Glyph → List Glyph))
    (isMark : Nat → Bool) (width : Nat → Int) (s : List Nat)
    (hsub : ∀ f, gsub = some f → f (s.map fun r => ⟨cmap r, [r], 0⟩) = s.map fun r => ⟨cmap r, [r], 0⟩)
    (hpos : ∀ f, gpos = some f →
      f (s.map fun r => ⟨cmap r, [r], if isMark (cmap r) then 0 else width (cmap r)⟩) =
        s.map fun r => ⟨cmap r, [r], if isMark (cmap r) then 0 else width (cmap r)⟩) :
    layout cmap gsub gpos isMark width s =
      s.map fun r => ⟨cmap r, [r], if isMark (cmap r) then 0 else width (cmap r)⟩ := by
  have haw := assignWidths_map isMark width cmap s
  cases gsub with
  | none =>
    cases gpos with
    | none => simp only [layout, haw]
    | some g => simp only [layout, haw]; rw [hpos g rfl]
  | some f =>
    have hf := hsub f rfl
    cases gpos with
    | none => simp only [layout, hf, haw]
    | some g => simp only [layout, hf, haw]; rw [hpos g rfl]

/-- `Layout` does not depend on glyph indices being valid: a character mapped to a glyph index the
font does not have (≥ the number of glyphs) gets advance 0 (repair of #34; before, `Layout` panicked
with an index error). -/
theorem C15_trivial_oob (cmap : Nat → Nat) (isMark : Nat → Bool) (ng : Nat) (w : Nat → Int) (r : Nat)
    (h : ng ≤ cmap r) :
    layout cmap none none isMark (glyphWidth ng w) [r] = [⟨cmap r, [r], 0⟩] := by
  have : glyphWidth ng w (cmap r) = 0 := by unfold glyphWidth; rw [if_neg (by omega)]
  rw [C15_trivial cmap none none isMark _ [r] (fun f h => by cases h) (fun f h => by cases h)]
  simp [this]


/-! ## the pipeline over the real lookup engine (`SfntV.Shape.apply`, C07's model of `Context.Apply`) -/

/-- `Layouter.Layout` is the composition GPOS-apply ∘ assign-widths ∘ GSUB-apply ∘ cmap-map, for EVERY
string — the empty one, strings that lay out to a single glyph, and longer ones alike (no stage is
skipped depending on the length): `Layout(s)` succeeds with `out` iff the GSUB context applied to
one glyph per character (`cmapMap`) succeeds with `a`, the GPOS context applied to `a` with the
advance widths filled in for the non-mark glyphs (`assignW`) succeeds with `b`, and `out` is `b`'s
sequence; a nil context passes its input through.  The two contexts' stacks carry over to the next
call. -/
theorem C15_pipeline (B : Nat) (cmap : Nat → Nat) (gsub gpos : Option Ctx) (gd : Shape.Gdef)
    (width : Nat → Int) (st : LStacks) (s : List Nat) (out : List Shape.Glyph) (st' : LStacks) :
    layoutFull B cmap gsub gpos gd width st s = .ok (out, st') ↔
      ∃ a b, applyCtx B gsub gd st.gsub (cmapMap cmap s) = .ok a ∧
        applyCtx B gpos gd st.gpos (assignW gd width a.seq) = .ok b ∧
        out = b.seq ∧ st' = ⟨a.stack, b.stack⟩ :=
  layoutFull_ok_iff B cmap gsub gpos gd width st s out st'

/-- the width stage: same glyphs and texts, every non-mark glyph gets the font's advance width,
GDEF mark glyphs are left as GSUB delivered them -/
theorem C15_pipeline_widths (gd : Shape.Gdef) (width : Nat → Int) (seq : List Shape.Glyph) :
    (assignW gd width seq).length = seq.length ∧
    ∀ (i : Nat) (g : Shape.Glyph), seq[i]? = some g →
      (assignW gd width seq)[i]? =
        some (if isMarkGd gd g.gid then g else { g with adv := width g.gid }) := by
  refine ⟨by simp [assignW], ?_⟩
  intro i g h
  simp [assignW, List.getElem?_map, h]

/-- The trivial case as a corollary of `C15_pipeline`, with the real engine: when no lookup is
selected for either context (or the table is absent) the output is exactly one glyph per character,
carrying that character and the font's advance width (marks: 0) — for every string. -/
theorem C15_trivial_engine (B : Nat) (cmap : Nat → Nat) (gsub gpos : Option Ctx) (gd : Shape.Gdef)
    (width : Nat → Int) (st : LStacks) (s : List Nat)
    (hsub : ∀ c, gsub = some c → c.lookups = []) (hpos : ∀ c, gpos = some c → c.lookups = []) :
    layoutFull B cmap gsub gpos gd width st s =
      .ok (s.map fun r => { gid := cmap r, text := [r],
                            adv := if isMarkGd gd (cmap r) then 0 else width (cmap r) }, st) := by
  rw [C15_pipeline]
  refine ⟨_, _, applyCtx_no_lookups B gsub gd _ _ hsub, applyCtx_no_lookups B gpos gd _ _ hpos, ?_, rfl⟩
  exact (assignW_cmapMap gd width cmap s).symm

/-- GPOS is applied to a string that lays out to exactly ONE glyph: a single-adjustment lookup
(GPOS 1.1, XAdvance −100) selected for the context changes the advance of a lone glyph
(1366 → 1266).  (A `len(seq) > 1` guard in front of the GPOS stage would leave 1366.) -/
theorem C15_pipeline_single_glyph :
    layoutFull 64 (fun r => if r = 65 then 36 else 0) none
      (some ⟨[{ subtables := [.gpos11 [(36, 0)] (some { xAdvance := -100 })] }], [0]⟩) {}
      (fun g => if g = 36 then 1366 else 0) {} [65] =
    .ok ([{ gid := 36, text := [65], adv := 1266 }], {}) := by decide

/-- …and to the empty string nothing happens, without a panic. -/
theorem C15_pipeline_empty (B : Nat) (cmap : Nat → Nat) (ll : Shape.LookupList) (lk : Shape.Lookup)
    (gd : Shape.Gdef) (width : Nat → Int) (hrev : lk.reverse = false) :
    layoutFull B cmap none (some ⟨ll, []⟩) gd width {} [] = .ok ([], {}) ∧
    Shape.applyLookup B ll gd lk ⟨[], []⟩ = .ok ⟨[], []⟩ := by
  constructor
  · rfl
  · simp [Shape.applyLookup, hrev, Shape.lookupLoop]

/-! Non-vacuity -/

def exSubs : List KSub :=
  [ { version := 0, format := 0, horizontal := true, minimum := false, crossStream := false, override := false,
      reserved := 0, search := (12, 1, 0), pairs := [((1, 2), -50), ((2, 3), 40)] },
    { version := 0, format := 0, horizontal := true, minimum := true, crossStream := false, override := false,
      reserved := 0, search := (6, 0, 0), pairs := [((1, 2), -30)] },
    { version := 0, format := 0, horizontal := true, minimum := false, crossStream := true, override := true,
      reserved := 0, search := (6, 0, 0), pairs := [((2, 3), 999)] } ]

example : KernDom exSubs :=
  ⟨by
    intro s hs
    simp only [exSubs, List.mem_cons, List.mem_nil_iff, or_false] at hs
    rcases hs with rfl | rfl | rfl <;>
      exact ⟨by decide, by decide, by decide, by decide, by decide, by decide, by decide, by decide⟩,
   by decide⟩
example : kernSpec exSubs (1, 2) = -30 ∧ kernSpec exSubs (2, 3) = 40 := by decide
example : (kernRead (encKern exSubs)).toOption.map (fun m => (mget m (1, 2), mget m (2, 3))) = some (-30, 40) := by
  decide
/-- cmap with f, i, l, fi, ffi but no ff, fl, ffl -/
def exCmap (c : Nat) : Nat :=
  if c = 102 then 10 else if c = 105 then 11 else if c = 108 then 12 else if c = 64257 then 20
  else if c = 64259 then 21 else 0
example : standardLigatures exCmap = some [(10, [⟨[10, 11], 21⟩, ⟨[11], 20⟩])] := by decide
example : applyLig (ligTable exCmap) 3 [⟨10, [102], 0⟩, ⟨10, [102], 0⟩, ⟨11, [105], 0⟩] =
    [⟨21, [102, 102, 105], 0⟩] := by decide

end SfntV.Props.C15
