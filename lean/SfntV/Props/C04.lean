/-
C04 — compiling glyphs to Type 2 charstrings preserves outline, hints and width.

Proved here: the number encoder (`encodeNumber`, cff/t2encode.go:487) against the ONE Type 2
interpreter of C05 (any quirk setting, so in particular the specification).  The edge proposals of the
optimising encoder and the header assembly are not modelled yet: for them the property is checked on
the real code by the D stream `t2.rt` (specification interpreter on the bytes the Go encoder emits).
A float64 argument is the dyadic rational `n / 2^k`; values are in 2⁻¹⁶ units.
-/
import SfntV.Proofs.T2Encode
import SfntV.Proofs.T2Path
import SfntV.Proofs.T2Glyph

namespace SfntV.Props.C04
open SfntV SfntV.T2 SfntV.T2Enc

/-- For every float `x = n/2^k` with |x| ≤ 32767: (1) the interpreter — under every quirk setting, in
every state with room on the stack — reads the code emitted by `encodeNumber x` as exactly the value
`encodeNumber` reports back to its caller (the decoder's running position is therefore what
`encodeArgs` thinks it is), and (2) that value differs from `x` by at most 2⁻¹⁷.
Partial: the hypothesis |x| ≤ 32767 is forced by the code (see `C04_number_bigstep_fails`). -/
theorem C04_number_partial (n : Int) (k : Nat) (h : n.natAbs ≤ 32767 * 2 ^ k) :
    (∀ (q : Quirks) (env : Env) (s : St) (rest : List Nat), s.stack.length ≤ 48 →
      step q env s ((encodeNumber n k).2 ++ rest) =
        .ok (.cont { s with stack := s.stack ++ [(encodeNumber n k).1] } rest)) ∧
    2 * ((encodeNumber n k).1 * ((2 ^ k : Nat) : Int) - n * 65536).natAbs ≤ 2 ^ k := by
  have hd : 0 < 2 ^ k := Nat.two_pow_pos k
  unfold encodeNumber
  simp only
  generalize 2 ^ k = d at *
  split
  · rename_i hc
    constructor
    · intro q env s rest hs
      have := step_encodeInt q env s (wrap16 (n.tdiv d)) rest (wrap16_range _) hs
      simpa [one, encodeInt] using this
    · have e : wrap16 (n.tdiv ↑d) * 65536 * (d : Int) - n * 65536 = 65536 * (wrap16 (n.tdiv ↑d) * ↑d - n) := by
        rw [Int.mul_sub, Int.mul_right_comm, Int.mul_comm _ 65536, Int.mul_comm 65536 n]
      rw [e, Int.natAbs_mul]
      have h6 : (65536 : Int).natAbs = 65536 := rfl
      rw [h6]
      omega
  · have ha : (n * 65536).natAbs ≤ 32767 * 65536 * d := by
      rw [Int.natAbs_mul]
      have h6 : (65536 : Int).natAbs = 65536 := rfl
      rw [h6]
      omega
    have hb := roundDiv_bound (n * 65536) d hd ha
    have hw : wrap32 (roundDiv (n * 65536) d) = roundDiv (n * 65536) d := by
      unfold wrap32
      rw [if_pos hb]
    rw [hw]
    constructor
    · intro q env s rest hs
      exact step_encodeFixed q env s _ rest hb hs
    · exact roundDiv_close (n * 65536) d hd

/-- non-vacuity: 100.3 (= 105172173 / 2^20) is encoded as a 16.16 number within 2⁻¹⁷;
-250 as a two-byte integer -/
example : encodeNumber 105172173 20 = (6573261, [255, 0, 100, 76, 205]) ∧ encodeNumber (-250) 0 = (-250 * 65536, [251, 142]) := by
  decide

/-- The full statement over the property's own domain (coordinates in ±32000, so steps up to ±64000). -/
def C04_number_full : Prop :=
  ∀ (n : Int) (k : Nat), n.natAbs ≤ 64000 * 2 ^ k →
    2 * ((encodeNumber n k).1 * ((2 ^ k : Nat) : Int) - n * 65536).natAbs ≤ 2 ^ k

/-- Finding C04-bigstep (defect #20): the full statement is false — the step 64000 (from x = −32000 to
x = 32000, both inside the property's box) is written as the integer −1536. -/
theorem C04_number_bigstep_fails : ¬ C04_number_full := by
  intro h
  have := h 64000 0 (by decide)
  revert this
  decide


/-! ### the optimising encoder: every proposed edge, every path of proposed edges

`dijkstra.ShortestPath` is not modelled and not trusted: the theorems quantify over every edge
`appendEdges` (the model of `encoder.AppendEdges`, tied by the V stream `t2.edges`) proposes and over
every path of such edges; that the Go-chosen path IS a path of proposed edges is checked on each run
(V stream `t2.asm`). -/

/-- Every edge `encoder.AppendEdges` proposes — all twelve operator forms: rlineto, hlineto, vlineto,
rlinecurve, rrcurveto, rcurveline, hhcurveto, vvcurveto, hvcurveto, vhcurveto, hflex, hflex1 — is sound
(`EdgeSound`): it advances and stays inside the sub-path, uses at most 48 operands, gives the operator
a TN5177-legal operand count, takes its operands from the commands it covers and — executed by the
specification interpreter on these operands, from any state — draws exactly the commands
`cmds[0 : to-from]`, clearing the stack. -/
theorem C04_edge_sound (frm : Nat) (cmds : List Seg) (e : Edge) (he : e ∈ appendEdges frm cmds) :
    EdgeSound frm cmds e :=
  appendEdges_sound frm cmds e he

/-- Operands produced by `encodeNumber` for |x| ≤ 32767 are read back by the interpreter as the
value the encoder recorded (this is the hypothesis `Decodes` of the byte-level theorems). -/
theorem C04_operand_decodes (n : Int) (k : Nat) (h : n.natAbs ≤ 32767 * 2 ^ k) : Decodes (encNum n k) := by
  constructor
  · unfold encNum encodeNumber
    simp only
    split
    · unfold encodeInt Spec.T2.encodeInt
      split
      · simp
      · split
        · simp
        · split <;> simp
    · simp [Spec.T2.encodeFixed]
  · intro q env s rest hs
    exact (C04_number_partial n k h).1 q env s rest hs

/-- Byte level, one edge: the bytes of a sound edge (operand codes, then the operator), run by the
specification interpreter's step function from any state that has moved and has an empty stack, draw
exactly the covered commands and continue with the following code. -/
theorem C04_edge_bytes (env : T2.Env) (frm : Nat) (cmds : List Seg) (e : Edge) (hS : EdgeSound frm cmds e)
    (hd : ∀ g ∈ cmds, ∀ a ∈ g.args, Decodes a) (s : St) (hr : Ready s) (rest : List Nat) :
    Reaches strict env s (e.bytes ++ rest) (drawSegs strict s (cmds.take (e.to - frm))) rest :=
  edge_reaches env frm cmds e hS hd s hr rest

/-- Any path of proposed edges from node 0 to the end of the sub-path — whatever the shortest-path
routine returns — compiles to bytes that the specification interpreter executes as exactly the
sub-path: all its lines and curves, in order, with the encoder's recorded deltas, ending with an empty
stack in front of the following code. -/
theorem C04_path_sound (env : T2.Env) (segs : List Seg) (path : List Edge)
    (hp : IsPath segs 0 path) (hd : ∀ g ∈ segs, ∀ a ∈ g.args, Decodes a) (s : St) (hr : Ready s)
    (rest : List Nat) :
    Reaches strict env s (path.flatMap Edge.bytes ++ rest) (drawSegs strict s segs) rest := by
  simpa using path_reaches env segs 0 path hp hd s hr rest

/-- No accumulation: whatever the decoder's current coordinate `p` is (any history), the coordinate it
reaches after the next encoded delta, `p + val`, differs from the requested absolute coordinate `x`
(scale 2^-K, K ≥ 16) by at most 2⁻¹⁷ — provided the step |x − p| is at most 32767 (finding C04-bigstep).
`encodeArgs` always encodes `x − p` with `p` the sum of the deltas already encoded, for every
coordinate of every moveto, lineto and curveto control point. -/
theorem C04_no_accumulation (K : Nat) (hK : 16 ≤ K) (p x : Int)
    (h : (x - p * 2 ^ (K - 16)).natAbs ≤ 32767 * 2 ^ K) :
    2 * ((p + (encNum (x - p * 2 ^ (K - 16)) K).val) * ((2 ^ K : Nat) : Int) - x * 65536).natAbs ≤ 2 ^ K := by
  have h2 := (C04_number_partial (x - p * 2 ^ (K - 16)) K h).2
  have hpow : ((2 ^ K : Nat) : Int) = 2 ^ (K - 16) * 65536 := by
    obtain ⟨j, rfl⟩ : ∃ j, K = j + 16 := ⟨K - 16, by omega⟩
    rw [Nat.add_sub_cancel, Nat.pow_add, Int.natCast_mul, Int.natCast_pow]
    rfl
  have e : (p + (encNum (x - p * 2 ^ (K - 16)) K).val) * ((2 ^ K : Nat) : Int) - x * 65536 =
      (encodeNumber (x - p * 2 ^ (K - 16)) K).1 * ((2 ^ K : Nat) : Int) - (x - p * 2 ^ (K - 16)) * 65536 := by
    simp only [encNum]
    rw [Int.add_mul, Int.sub_mul, hpow]
    rw [Int.mul_assoc p]
    omega
  rw [e]
  exact h2

/-- Whole charstring (glyphs without stem hints and masks): for every glyph program — any interleaving
of moveto/lineto/curveto in which drawing starts after a moveto (`cmdsOK`), any width — and EVERY choice
of edge paths per sub-path for which `encodeCharString` produces bytes (i.e. every path of proposed
edges), the specification interpreter run on these bytes returns exactly the glyph obtained by drawing
the encoded commands: no error, stack never above 48, the program ends with endchar.  Hypotheses forced
by the code: every coordinate step and `width − nominalWidth` within ±32767 (`CmdDecodes`, `Decodes`:
C04-bigstep), drawing only after a moveto (the real decoder rejects such output of the real encoder).
Partial: stem hints and masks (header chunks, implicit vstem) are not covered by this theorem. -/
theorem C04_glyph_sound_partial (env : T2.Env) (K : Nat) (w : Int) (cmds : List InCmd)
    (paths : List (List (Nat × T2.Op))) (bytes : List Nat)
    (h : encodeCharString K w [] [] cmds env.defaultWidth env.nominalWidth paths = some bytes)
    (hok : cmdsOK false (encodeArgs K cmds) = true) (hdec : ∀ c ∈ encodeArgs K cmds, CmdDecodes c)
    (hw : w ≠ env.defaultWidth * 2 ^ (K - 16) → Decodes (encNum (w - env.nominalWidth * 2 ^ (K - 16)) K)) :
    Spec.T2.interp env bytes =
      .ok (drawCmds strict (widthDone env (startState env K w)) (encodeArgs K cmds)).glyph :=
  glyph_sound_nostems env K w cmds paths bytes h hok hdec hw

/-- Width: the glyph returned by `C04_glyph_sound_partial` has the default width if the glyph's width
equals it, else nominal width + the encoded difference (within 2⁻¹⁷ of the glyph's width by
`C04_number_partial`); it has no stems. -/
theorem C04_width (env : T2.Env) (K : Nat) (w : Int) (l : List EnCmd) :
    (drawCmds strict (widthDone env (startState env K w)) l).glyph.width =
      (if w = env.defaultWidth * 2 ^ (K - 16) then env.defaultWidth
       else (encNum (w - env.nominalWidth * 2 ^ (K - 16)) K).val + env.nominalWidth) ∧
    (drawCmds strict (widthDone env (startState env K w)) l).glyph.hstem = [] ∧
    (drawCmds strict (widthDone env (startState env K w)) l).glyph.vstem = [] := by
  obtain ⟨h1, h2, h3⟩ := drawCmds_frame strict (widthDone env (startState env K w)) l
  simp only [T2.St.glyph, h1, h2, h3]
  by_cases hw : w = env.defaultWidth * 2 ^ (K - 16)
  · simp [startState, hw, widthDone, T2.St.init]
  · have : (w != env.defaultWidth * 2 ^ (K - 16)) = true := by simpa using hw
    simp [startState, this, hw, widthDone, T2.St.init]

/-- the full statement, with stem hints and masks (not proved; checked by the D stream `t2.rt`) -/
def C04_glyph_sound_full : Prop :=
  ∀ (env : T2.Env) (K : Nat) (w : Int) (hs vs : List Int) (cmds : List InCmd)
    (paths : List (List (Nat × T2.Op))) (bytes : List Nat),
    encodeCharString K w hs vs cmds env.defaultWidth env.nominalWidth paths = some bytes →
    (∀ c ∈ encodeArgs K cmds, CmdDecodes c) → ∃ g, Spec.T2.interp env bytes = .ok g

/-- non-vacuity: for "5 0 lineto-delta, 0 7, 3 4" the proposals at node 0 are rlineto over 1 and 2… -/
def exSegs : List Seg :=
  [.line ⟨5 * 65536, [144]⟩ ⟨0, [139]⟩, .line ⟨0, [139]⟩ ⟨7 * 65536, [146]⟩,
   .line ⟨3 * 65536, [142]⟩ ⟨4 * 65536, [143]⟩]

example : (appendEdges 0 exSegs).map (fun e => (e.op, e.to)) =
    [(.rlineto, 1), (.rlineto, 3), (.hlineto, 2)] := by decide

example : IsPath exSegs 0 [⟨[⟨5 * 65536, [144]⟩, ⟨7 * 65536, [146]⟩], .hlineto, 2⟩,
    ⟨[⟨3 * 65536, [142]⟩, ⟨4 * 65536, [143]⟩], .rlineto, 3⟩] :=
  .step (by decide) (.step (by decide) .done)

end SfntV.Props.C04
