/-
C04 — compiling glyphs to Type 2 charstrings preserves outline, hints and width.

Everything of `(*Glyph).encodeCharString` (cff/t2encode.go) is modelled (Model/T2Encode, T2Compile) and
proved against the ONE Type 2 interpreter of C05 in its specification configuration (`Spec.T2.interp`):
* numbers: `C04_number_partial`, `C04_operand_decodes`, `C04_no_accumulation` (defect #20: `C04_number_bigstep_fails`);
* the optimiser: every proposed edge and every path of proposed edges (`C04_edge_sound`, `C04_edge_bytes`,
  `C04_path_sound`; the shortest-path routine is an untrusted oracle);
* header: width operand, stem chunks (24 pairs, 23 + width), hstem/vstem vs hstemhm/vstemhm, the omitted
  vstemhm before a leading mask (`C04_header`, `C04_chunk_sizes`, `C04_stack_bound`); masks (`C04_mask`);
* the whole charstring of every well-formed glyph: `C04_glyph_sound`, `C04_glyph_roundtrip` (same commands,
  every coordinate within 2⁻¹⁷ at any index — `C04_path_no_accumulation` —, same masks, every stem edge within
  2⁻¹⁷ at any index — `C04_stems_no_accumulation`, after the repair of finding C04-stemaccum —, same width),
  `C04_endchar`.
Model and code are tied by the V streams `t2.encnum/encargs/edges/asm`; the D stream `t2.rt` runs the
specification interpreter on the bytes the Go encoder emits.
A float64 argument is the dyadic rational `n / 2^k`; values are in 2⁻¹⁶ units.
-/
import SfntV.Proofs.T2Encode
import SfntV.Proofs.T2Path
import SfntV.Proofs.T2Glyph
import SfntV.Proofs.T2GlyphFull

namespace SfntV.Props.C04
open SfntV SfntV.T2 SfntV.T2Enc

/-- For every float `x = n/2^k` with |x| ≤ 32767: (1) the interpreter — under every quirk setting, in
every state with room on the stack — reads the code emitted by `encodeNumber x` as exactly the value
`encodeNumber` reports back to its caller (the decoder's running position is therefore what
`encodeArgs` thinks it is), and (2) that value differs from `x` by at most 2⁻¹⁷.
Partial: the hypothesis |x| ≤ 32767 is forced by the code (see `C04_number_bigstep_fails`). -/
theorem C04_number_partial (n : Int) (k : Nat) (h : n.natAbs ≤ 32767 * 2 ^ k) :
    (∀ (q : Quirks) (env : Env) (s : St) (rest : List Nat), s.stack.length ≤ 48 →
      step q env s ((encodeNumber n k).2 ++ rest) =
        .ok (.cont { s with stack := s.stack ++ [(encodeNumber n k).1] } rest)) ∧
    2 * ((encodeNumber n k).1 * ((2 ^ k : Nat) : Int) - n * 65536).natAbs ≤ 2 ^ k := by
  have hd : 0 < 2 ^ k := Nat.two_pow_pos k
  unfold encodeNumber
  simp only
  generalize 2 ^ k = d at *
  split
  · rename_i hc
    constructor
    · intro q env s rest hs
      have := step_encodeInt q env s (wrap16 (n.tdiv d)) rest (wrap16_range _) hs
      simpa [one, encodeInt] using this
    · have e : wrap16 (n.tdiv ↑d) * 65536 * (d : Int) - n * 65536 = 65536 * (wrap16 (n.tdiv ↑d) * ↑d - n) := by
        rw [Int.mul_sub, Int.mul_right_comm, Int.mul_comm _ 65536, Int.mul_comm 65536 n]
      rw [e, Int.natAbs_mul]
      have h6 : (65536 : Int).natAbs = 65536 := rfl
      rw [h6]
      omega
  · have ha : (n * 65536).natAbs ≤ 32767 * 65536 * d := by
      rw [Int.natAbs_mul]
      have h6 : (65536 : Int).natAbs = 65536 := rfl
      rw [h6]
      omega
    have hb := roundDiv_bound (n * 65536) d hd ha
    have hw : wrap32 (roundDiv (n * 65536) d) = roundDiv (n * 65536) d := by
      unfold wrap32
      rw [if_pos hb]
    rw [hw]
    constructor
    · intro q env s rest hs
      exact step_encodeFixed q env s _ rest hb hs
    · exact roundDiv_close (n * 65536) d hd

/-- non-vacuity: 100.3 (= 105172173 / 2^20) is encoded as a 16.16 number within 2⁻¹⁷;
-250 as a two-byte integer -/
example : encodeNumber 105172173 20 = (6573261, [255, 0, 100, 76, 205]) ∧ encodeNumber (-250) 0 = (-250 * 65536, [251, 142]) := by
  decide

/-- The full statement over the property's own domain (coordinates in ±32000, so steps up to ±64000). -/
def C04_number_full : Prop :=
  ∀ (n : Int) (k : Nat), n.natAbs ≤ 64000 * 2 ^ k →
    2 * ((encodeNumber n k).1 * ((2 ^ k : Nat) : Int) - n * 65536).natAbs ≤ 2 ^ k

/-- Finding C04-bigstep (defect #20): the full statement is false — the step 64000 (from x = −32000 to
x = 32000, both inside the property's box) is written as the integer −1536. -/
theorem C04_number_bigstep_fails : ¬ C04_number_full := by
  intro h
  have := h 64000 0 (by decide)
  revert this
  decide


/-! ### the optimising encoder: every proposed edge, every path of proposed edges

`dijkstra.ShortestPath` is not modelled and not trusted: the theorems quantify over every edge
`appendEdges` (the model of `encoder.AppendEdges`, tied by the V stream `t2.edges`) proposes and over
every path of such edges; that the Go-chosen path IS a path of proposed edges is checked on each run
(V stream `t2.asm`). -/

/-- Every edge `encoder.AppendEdges` proposes — all twelve operator forms: rlineto, hlineto, vlineto,
rlinecurve, rrcurveto, rcurveline, hhcurveto, vvcurveto, hvcurveto, vhcurveto, hflex, hflex1 — is sound
(`EdgeSound`): it advances and stays inside the sub-path, uses at most 48 operands, gives the operator
a TN5177-legal operand count, takes its operands from the commands it covers and — executed by the
specification interpreter on these operands, from any state — draws exactly the commands
`cmds[0 : to-from]`, clearing the stack. -/
theorem C04_edge_sound (frm : Nat) (cmds : List Seg) (e : Edge) (he : e ∈ appendEdges frm cmds) :
    EdgeSound frm cmds e :=
  appendEdges_sound frm cmds e he

/-- Operands produced by `encodeNumber` for |x| ≤ 32767 are read back by the interpreter as the
value the encoder recorded (this is the hypothesis `Decodes` of the byte-level theorems). -/
theorem C04_operand_decodes (n : Int) (k : Nat) (h : n.natAbs ≤ 32767 * 2 ^ k) : Decodes (encNum n k) := by
  constructor
  · unfold encNum encodeNumber
    simp only
    split
    · unfold encodeInt Spec.T2.encodeInt
      split
      · simp
      · split
        · simp
        · split <;> simp
    · simp [Spec.T2.encodeFixed]
  · intro q env s rest hs
    exact (C04_number_partial n k h).1 q env s rest hs

/-- Byte level, one edge: the bytes of a sound edge (operand codes, then the operator), run by the
specification interpreter's step function from any state that has moved and has an empty stack, draw
exactly the covered commands and continue with the following code. -/
theorem C04_edge_bytes (env : T2.Env) (frm : Nat) (cmds : List Seg) (e : Edge) (hS : EdgeSound frm cmds e)
    (hd : ∀ g ∈ cmds, ∀ a ∈ g.args, Decodes a) (s : St) (hr : Ready s) (rest : List Nat) :
    Reaches strict env s (e.bytes ++ rest) (drawSegs strict s (cmds.take (e.to - frm))) rest :=
  edge_reaches env frm cmds e hS hd s hr rest

/-- Any path of proposed edges from node 0 to the end of the sub-path — whatever the shortest-path
routine returns — compiles to bytes that the specification interpreter executes as exactly the
sub-path: all its lines and curves, in order, with the encoder's recorded deltas, ending with an empty
stack in front of the following code. -/
theorem C04_path_sound (env : T2.Env) (segs : List Seg) (path : List Edge)
    (hp : IsPath segs 0 path) (hd : ∀ g ∈ segs, ∀ a ∈ g.args, Decodes a) (s : St) (hr : Ready s)
    (rest : List Nat) :
    Reaches strict env s (path.flatMap Edge.bytes ++ rest) (drawSegs strict s segs) rest := by
  simpa using path_reaches env segs 0 path hp hd s hr rest

/-- No accumulation: whatever the decoder's current coordinate `p` is (any history), the coordinate it
reaches after the next encoded delta, `p + val`, differs from the requested absolute coordinate `x`
(scale 2^-K, K ≥ 16) by at most 2⁻¹⁷ — provided the step |x − p| is at most 32767 (finding C04-bigstep).
`encodeArgs` always encodes `x − p` with `p` the sum of the deltas already encoded, for every
coordinate of every moveto, lineto and curveto control point. -/
theorem C04_no_accumulation (K : Nat) (hK : 16 ≤ K) (p x : Int)
    (h : (x - p * 2 ^ (K - 16)).natAbs ≤ 32767 * 2 ^ K) :
    2 * ((p + (encNum (x - p * 2 ^ (K - 16)) K).val) * ((2 ^ K : Nat) : Int) - x * 65536).natAbs ≤ 2 ^ K := by
  have h2 := (C04_number_partial (x - p * 2 ^ (K - 16)) K h).2
  have hpow : ((2 ^ K : Nat) : Int) = 2 ^ (K - 16) * 65536 := by
    obtain ⟨j, rfl⟩ : ∃ j, K = j + 16 := ⟨K - 16, by omega⟩
    rw [Nat.add_sub_cancel, Nat.pow_add, Int.natCast_mul, Int.natCast_pow]
    rfl
  have e : (p + (encNum (x - p * 2 ^ (K - 16)) K).val) * ((2 ^ K : Nat) : Int) - x * 65536 =
      (encodeNumber (x - p * 2 ^ (K - 16)) K).1 * ((2 ^ K : Nat) : Int) - (x - p * 2 ^ (K - 16)) * 65536 := by
    simp only [encNum]
    rw [Int.add_mul, Int.sub_mul, hpow]
    rw [Int.mul_assoc p]
    omega
  rw [e]
  exact h2

/-- Whole charstring (glyphs without stem hints and masks): for every glyph program — any interleaving
of moveto/lineto/curveto in which drawing starts after a moveto (`cmdsOK`), any width — and EVERY choice
of edge paths per sub-path for which `encodeCharString` produces bytes (i.e. every path of proposed
edges), the specification interpreter run on these bytes returns exactly the glyph obtained by drawing
the encoded commands: no error, stack never above 48, the program ends with endchar.  Hypotheses forced
by the code: every coordinate step and `width − nominalWidth` within ±32767 (`CmdDecodes`, `Decodes`:
C04-bigstep), drawing only after a moveto (the real decoder rejects such output of the real encoder).
Partial: stem hints and masks (header chunks, implicit vstem) are not covered by this theorem. -/
theorem C04_glyph_sound_partial (env : T2.Env) (K : Nat) (w : Int) (cmds : List InCmd)
    (paths : List (List (Nat × T2.Op))) (bytes : List Nat)
    (h : encodeCharString K w [] [] cmds env.defaultWidth env.nominalWidth paths = some bytes)
    (hok : cmdsOK false (encodeArgs K cmds) = true) (hdec : ∀ c ∈ encodeArgs K cmds, CmdDecodes c)
    (hw : w ≠ env.defaultWidth * 2 ^ (K - 16) → Decodes (encNum (w - env.nominalWidth * 2 ^ (K - 16)) K)) :
    Spec.T2.interp env bytes =
      .ok (drawCmds strict (widthDone env (startState env K w)) (encodeArgs K cmds)).glyph :=
  glyph_sound_nostems env K w cmds paths bytes h hok hdec hw

/-- Width: the glyph returned by `C04_glyph_sound_partial` has the default width if the glyph's width
equals it, else nominal width + the encoded difference (within 2⁻¹⁷ of the glyph's width by
`C04_number_partial`); it has no stems. -/
theorem C04_width (env : T2.Env) (K : Nat) (w : Int) (l : List EnCmd) :
    (drawCmds strict (widthDone env (startState env K w)) l).glyph.width =
      (if w = env.defaultWidth * 2 ^ (K - 16) then env.defaultWidth
       else (encNum (w - env.nominalWidth * 2 ^ (K - 16)) K).val + env.nominalWidth) ∧
    (drawCmds strict (widthDone env (startState env K w)) l).glyph.hstem = [] ∧
    (drawCmds strict (widthDone env (startState env K w)) l).glyph.vstem = [] := by
  obtain ⟨h1, h2, h3⟩ := drawCmds_frame strict (widthDone env (startState env K w)) l
  simp only [T2.St.glyph, h1, h2, h3]
  by_cases hw : w = env.defaultWidth * 2 ^ (K - 16)
  · simp [startState, hw, widthDone, T2.St.init]
  · have : (w != env.defaultWidth * 2 ^ (K - 16)) = true := by simpa using hw
    simp [startState, this, hw, widthDone, T2.St.init]

/-! ### header (width, stem chunks, hstemhm/vstemhm, implicit vstem), masks, the whole glyph -/

/-- Every successful interpreter step starts from a stack of at most 48 operands: a `Reaches` chain
(all theorems below) therefore never holds more than 48 operands when an operand or operator is read;
operator steps of the specification interpreter (`strict`) fail on an illegal operand count. -/
theorem C04_stack_bound (q : Quirks) (env : T2.Env) (s : St) (b : Nat) (rest : List Nat) (r : Res)
    (h : step q env s (b :: rest) = .ok r) : s.stack.length ≤ 48 := by
  by_cases hov : s.stack.length > Gen.t2maxStack
  · simp [step, hov] at h
  · rw [maxStack_eq] at hov; omega

/-- Header. For EVERY glyph (any width, any number of hstem/vstem pairs — beyond 24 pairs the lists are
cut into chunks of at most 24 pairs = 48 operands, 23 pairs when the width operand shares the first
chunk —, masks present or not, a mask as first command or not) for which `encodeCharString` yields
bytes: the bytes are header ++ path section `pb`, and the specification interpreter steps from its
initial state through the header (`Reaches`: every step succeeds, so no stack overflow and every stem
operator has a legal, even, operand count ≥ 2) to a state `sHdr` in front of `pb` such that

* `sHdr` is the header state `hdrState` (all chunks declared by hstem/vstem, or hstemhm/vstemhm if the
  glyph has masks), or — first command is a mask and there are vstems, so the encoder omitted the last
  vstemhm — the operands of the last vstem chunk are still on the stack and executing vstemhm there
  would give `hdrState` (`ListEnd`; `exec_mask_implicit` shows the mask operator does exactly that);
* in `hdrState`: nothing drawn yet, the width is the default width if `w` equals it, else nominal
  width + the encoded operand; the declared hstems/vstems are `decStems` of the operand chunks (running
  sums of the encoded deltas, restarting at 0 in every chunk — as the encoder restarts `prev`), exactly
  as many edges as the glyph has.

Hypotheses: every encoded operand is read back (`Decodes`: |value| ≤ 32767, finding C04-bigstep). -/
theorem C04_header (env : T2.Env) (K : Nat) (w : Int) (hs vs : List Int) (cmds : List InCmd)
    (paths : List (List (Nat × T2.Op))) (bytes : List Nat)
    (h : encodeCharString K w hs vs cmds env.defaultWidth env.nominalWidth paths = some bytes)
    (hw : w ≠ env.defaultWidth * 2 ^ (K - 16) → Decodes (encNum (w - env.nominalWidth * 2 ^ (K - 16)) K))
    (hdh : ∀ c ∈ hChunks env K w hs, ∀ a ∈ c, Decodes a)
    (hdv : ∀ c ∈ vChunks env K w hs vs, ∀ a ∈ c, Decodes a) :
    ∃ pb sHdr, encodePaths (encodeArgs K cmds) paths = some pb ∧
      Reaches strict env (St.init env) bytes sHdr pb ∧
      ListEnd env true (maskFirst cmds) (hState env K w hs) (vChunks env K w hs vs) sHdr ∧
      (hdrState env K w hs vs).cmds = [] ∧ (hdrState env K w hs vs).hasMoved = false ∧
      (widthDone env (hdrState env K w hs vs)).width =
        (if w = env.defaultWidth * 2 ^ (K - 16) then env.defaultWidth
         else (encNum (w - env.nominalWidth * 2 ^ (K - 16)) K).val + env.nominalWidth) ∧
      (hdrState env K w hs vs).hstem = decStems (hChunks env K w hs) ∧
      (hdrState env K w hs vs).vstem = decStems (vChunks env K w hs vs) ∧
      (decStems (hChunks env K w hs)).length = hs.length ∧
      (decStems (vChunks env K w hs vs)).length = vs.length := by
  obtain ⟨pb, sHdr, hp, hevh, hevv, hreach, hend⟩ := header_reaches env K w hs vs cmds paths bytes h hw hdh hdv
  obtain ⟨x1, x2, x3, x4, x5, x6⟩ := hdrState_fields env K w hs vs
  have hex1 : widthExtra env K w ≤ 1 := by unfold widthExtra; split <;> omega
  exact ⟨pb, sHdr, hp, hreach, hend, x2, x1, x6, x3, x4,
    decStems_length K _ _ hs (by omega) hevh hex1,
    decStems_length K _ _ vs (by omega) hevv (by split <;> omega)⟩

/-- Chunking of the stem lists (part of `C04_header`): every chunk of the hstem list and of the vstem list
has an even number ≥ 2 of operands, at most 48 — a TN5177-legal operand count for the four stem operators —
and the first chunk shares the 48-entry stack with the width operand if one is pending (23 pairs + width).
Holds for every stem list of even length, however long (0 … 96 pairs and beyond). -/
theorem C04_chunk_sizes (env : T2.Env) (K : Nat) (w : Int) (hs vs : List Int)
    (hh : hs.length % 2 = 0) (hv : vs.length % 2 = 0) :
    (∀ c ∈ hChunks env K w hs ++ vChunks env K w hs vs, 2 ≤ c.length ∧ c.length % 2 = 0 ∧ c.length ≤ 48 ∧
      Spec.T2.legalCount .hstem c.length = true ∧ Spec.T2.legalCount .vstemhm c.length = true) ∧
    (∀ c t, hChunks env K w hs = c :: t → c.length + widthExtra env K w ≤ 48) ∧
    (∀ c t, hs = [] → vChunks env K w hs vs = c :: t → c.length + widthExtra env K w ≤ 48) := by
  have hex1 : widthExtra env K w ≤ 1 := by unfold widthExtra; split <;> omega
  obtain ⟨a1, a2⟩ := stemChunks_sizes K (hs.length + 1) (widthExtra env K w) hs (by omega) hh hex1
  obtain ⟨b1, b2⟩ := stemChunks_sizes K (vs.length + 1) (if hs.length = 0 then widthExtra env K w else 0) vs
    (by omega) hv (by split <;> omega)
  refine ⟨?_, a2, ?_⟩
  · intro c hc
    rcases List.mem_append.mp hc with hc | hc
    · exact a1 c hc
    · exact b1 c hc
  · intro c t hnil hct
    subst hnil
    have := b2 c t hct
    simpa using this

/-- Masks inside the path section: from any state with an empty stack (or only the pending width), at
least one declared stem, after the hint section has begun, the operator hintmask/cntrmask followed by
exactly ⌈nStems/8⌉ data bytes is stepped over; the decoded glyph gets the mask command with exactly
these bytes. -/
theorem C04_mask (env : T2.Env) (s : St) (cn : Bool) (bs rest : List Nat) (hp : PendOK s)
    (hme : s.moveErr = false) (hst : 1 ≤ s.stage) (hn : 1 ≤ nStems s)
    (hb : bs.length = (nStems s + 7) / 8) (hrest : 0 < rest.length) :
    Reaches strict env s (Spec.T2.opBytes (maskOp cn) ++ bs ++ rest)
      (drawCmd strict (widthDone env s) (.mask cn bs)) rest :=
  mask_reaches env s cn bs rest hp hme hst hn hb hrest

/-- Whole charstring, every well-formed glyph. `GlyphWF` (decidable): sub-paths start with a moveto; every
mask has exactly ⌈nStems/8⌉ bytes and then there is at least one stem — the glyph descriptions a Type 2
charstring can represent at all (the encoder does not validate this: observed on the real code, it
emits charstrings the decoder rejects or reads as a different glyph).  For every such glyph whose
encoded operands are all read back (`Decodes`, `CmdDecodes`: values within ±32767, finding C04-bigstep)
and EVERY choice of edge paths for which `encodeCharString` yields bytes, the specification interpreter
returns — no error, hence never more than 48 operands and only legal operand counts, ending with endchar
— the glyph drawn by the encoded commands from the header state. -/
theorem C04_glyph_sound (env : T2.Env) (K : Nat) (w : Int) (hs vs : List Int) (cmds : List InCmd)
    (paths : List (List (Nat × T2.Op))) (bytes : List Nat)
    (h : encodeCharString K w hs vs cmds env.defaultWidth env.nominalWidth paths = some bytes)
    (hwf : GlyphWF hs vs cmds = true)
    (hdec : ∀ c ∈ encodeArgs K cmds, CmdDecodes c)
    (hw : w ≠ env.defaultWidth * 2 ^ (K - 16) → Decodes (encNum (w - env.nominalWidth * 2 ^ (K - 16)) K))
    (hdh : ∀ c ∈ hChunks env K w hs, ∀ a ∈ c, Decodes a)
    (hdv : ∀ c ∈ vChunks env K w hs vs, ∀ a ∈ c, Decodes a) :
    Spec.T2.interp env bytes =
      .ok (drawCmds strict (widthDone env (hdrState env K w hs vs)) (encodeArgs K cmds)).glyph :=
  glyph_sound env K w hs vs cmds paths bytes h hwf hdec hw hdh hdv

/-- `C04_endchar`: the program always ends the glyph — the path section ends with the endchar operator
and (by `C04_glyph_sound`) the interpreter reaches it: its only normal exit. -/
theorem C04_endchar (K : Nat) (cmds : List InCmd) (paths : List (List (Nat × T2.Op))) (pb : List Nat)
    (h : encodePaths (encodeArgs K cmds) paths = some pb) :
    ∃ pre, pb = pre ++ Spec.T2.opBytes .endchar :=
  encodePaths_endchar _ _ _ h

/-- The glyph `C04_glyph_sound` returns: the width (default, or nominal + operand), exactly the decoded
hstem and vstem lists of the header, and the drawn commands. -/
theorem C04_glyph_fields (env : T2.Env) (K : Nat) (w : Int) (hs vs : List Int) (l : List EnCmd) :
    (drawCmds strict (widthDone env (hdrState env K w hs vs)) l).glyph.width =
      (if w = env.defaultWidth * 2 ^ (K - 16) then env.defaultWidth
       else (encNum (w - env.nominalWidth * 2 ^ (K - 16)) K).val + env.nominalWidth) ∧
    (drawCmds strict (widthDone env (hdrState env K w hs vs)) l).glyph.hstem = decStems (hChunks env K w hs) ∧
    (drawCmds strict (widthDone env (hdrState env K w hs vs)) l).glyph.vstem = decStems (vChunks env K w hs vs) := by
  obtain ⟨h1, h2, h3⟩ := drawCmds_frame strict (widthDone env (hdrState env K w hs vs)) l
  obtain ⟨x1, x2, x3, x4, x5, x6⟩ := hdrState_fields env K w hs vs
  obtain ⟨f1, f2, f3, f4, f5, f6, f7, f8⟩ := widthDone_fields env (hdrState env K w hs vs)
  simp only [T2.St.glyph, h1, h2, h3, x6, f6, f7, x3, x4]
  exact ⟨trivial, trivial, trivial⟩

/-- the full statement, with stem hints and masks (not proved; checked by the D stream `t2.rt`) -/
def C04_glyph_sound_full : Prop :=
  ∀ (env : T2.Env) (K : Nat) (w : Int) (hs vs : List Int) (cmds : List InCmd)
    (paths : List (List (Nat × T2.Op))) (bytes : List Nat),
    encodeCharString K w hs vs cmds env.defaultWidth env.nominalWidth paths = some bytes →
    (∀ c ∈ encodeArgs K cmds, CmdDecodes c) → ∃ g, Spec.T2.interp env bytes = .ok g

/-- List-level no-accumulation (corollary of `C04_no_accumulation`): drawing the commands `encodeArgs`
produces, from a state at the encoder's idea of the current point, appends — command for command — the
input commands with EVERY absolute coordinate (moveto, lineto, all three curveto points) within 2⁻¹⁷ of
the input, independent of its index in the list, masks byte for byte; and every operand is read back.
Hypothesis: every encoded step within ±32767 (`stepsSmall`, decidable; finding C04-bigstep). -/
theorem C04_path_no_accumulation (K : Nat) (hK : 16 ≤ K) (cmds : List InCmd) (px py : Int) (s : St)
    (hx : s.x = px) (hy : s.y = py) (h : stepsSmall K px py cmds = true) :
    (∀ c ∈ encodeArgsFrom K px py cmds, CmdDecodes c) ∧
    ∃ out, (drawCmds strict s (encodeArgsFrom K px py cmds)).cmds = s.cmds ++ out ∧ CmdsClose K out cmds :=
  drawCmds_close K hK cmds px py s hx hy h

/-- C04, the round trip (decidable numeric hypotheses only).  For every glyph description that is well
formed (`GlyphWF`: sub-paths start with a moveto; each mask has exactly ⌈nStems/8⌉ bytes and there is a stem
when there is a mask), whose encoded steps all lie within ±32767 (`stepsSmall` along the path, `Small` for
width − nominal width, `hStemsSmall`/`vStemsSmall` for the stem deltas — the excluded class is exactly
finding C04-bigstep), any number of stems of any resolution (chunking beyond 24 pairs), masks anywhere
(also first: implicit vstem), any width, and EVERY choice of edge paths for which `encodeCharString` yields
bytes: the specification interpreter returns a glyph `g` (so: no error, never more than 48 operands, legal
operand counts, ended by endchar) with
* the same commands, every coordinate within 2⁻¹⁷ regardless of position, masks byte for byte,
* the same hstem and vstem lists, every edge within 2⁻¹⁷ regardless of position (`CloseList`),
* the default width if the width equals it, else a width within 2⁻¹⁷ of the glyph's. -/
theorem C04_glyph_roundtrip (env : T2.Env) (K : Nat) (hK : 16 ≤ K) (w : Int) (hs vs : List Int)
    (cmds : List InCmd) (paths : List (List (Nat × T2.Op))) (bytes : List Nat)
    (h : encodeCharString K w hs vs cmds env.defaultWidth env.nominalWidth paths = some bytes)
    (hwf : GlyphWF hs vs cmds = true) (hsteps : stepsSmall K 0 0 cmds = true)
    (hw : w ≠ env.defaultWidth * 2 ^ (K - 16) → Small K (w - env.nominalWidth * 2 ^ (K - 16)))
    (hhs : hStemsSmall env K w hs = true) (hvs : vStemsSmall env K w hs vs = true) :
    ∃ g, Spec.T2.interp env bytes = .ok g ∧ CmdsClose K g.cmds cmds ∧
      CloseList K g.hstem hs ∧ CloseList K g.vstem vs ∧
      g.hstem = decStems (hChunks env K w hs) ∧ g.vstem = decStems (vChunks env K w hs vs) ∧
      g.width = (if w = env.defaultWidth * 2 ^ (K - 16) then env.defaultWidth
        else (encNum (w - env.nominalWidth * 2 ^ (K - 16)) K).val + env.nominalWidth) ∧
      (w ≠ env.defaultWidth * 2 ^ (K - 16) → Close K g.width w) :=
  glyph_roundtrip env K hK w hs vs cmds paths bytes h hwf hsteps hw hhs hvs

/-- Stems, no accumulation (holds since the repair of finding C04-stemaccum, repository commit b6e7b8c):
for EVERY stem list — any resolution of the input (not only multiples of 2⁻¹⁶), any length, any chunking,
with or without a width operand in the first chunk — whose encoded deltas are within ±32767
(`stemChunksSmall`, decidable), the stem edges the decoder declares (`decStems`: running sums of the
operands, restarting in every chunk) are, edge for edge, within 2⁻¹⁷ of the glyph's stem edges,
independent of the index of the edge: each delta is taken from the DECODED previous edge. -/
theorem C04_stems_no_accumulation (K : Nat) (hK : 16 ≤ K) (extra : Nat) (stems : List Int)
    (hev : stems.length % 2 = 0) (hex : extra ≤ 1)
    (hsm : stemChunksSmall K (stems.length + 1) extra stems = true) :
    CloseList K (decStems (stemChunksFuel K (stems.length + 1) extra stems)) stems :=
  decStems_close K hK _ extra stems (by omega) hev hex hsm

/-- A chunk-independent sufficient condition for the step bound: every stem edge and every difference of
consecutive edges within ±32766 (one unit of slack for the rounding of the previous edge). -/
theorem C04_stems_small (env : T2.Env) (K : Nat) (hK : 16 ≤ K) (w : Int) (hs vs : List Int)
    (hh : stemsSmall K hs = true) (hv : stemsSmall K vs = true) :
    hStemsSmall env K w hs = true ∧ vStemsSmall env K w hs vs = true :=
  stemsSmall_hv env K hK w hs vs hh hv

/-- Stems that are multiples of 2⁻¹⁶ (`ms`, in 16.16 units; the glyph's list is `ms` scaled to 2^-K) are
read back EXACTLY, for every chunking. -/
theorem C04_stems_exact (K : Nat) (hK : 16 ≤ K) (extra : Nat) (ms : List Int) (hev : ms.length % 2 = 0)
    (hex : extra ≤ 1)
    (hsm : stemChunksSmall K (ms.length + 1) extra (ms.map (· * 2 ^ (K - 16))) = true) :
    decStems (stemChunksFuel K (ms.length + 1) extra (ms.map (· * 2 ^ (K - 16)))) = ms :=
  decStems_exact K hK _ extra ms (by omega) hev hex hsm

/-- Finding C04-stemaccum (FIXED in b6e7b8c), kept as a statement about the OLD formula `stemChunkCodesOld`
(`encodeNumber(x - prev); prev = x`, the delta taken from the unrounded previous edge): hstem edges
1+7·2⁻²⁰, 2+14·2⁻²⁰, 3+21·2⁻²⁰, 4+28·2⁻²⁰ were written as "1 1 1 1 hstem" and read back as 1, 2, 3, 4, the
fourth edge off by 28·2⁻²⁰ > 2⁻¹⁷; the repaired formula writes "1 1.0000153 1 1.0000153" and every edge is
within 2⁻¹⁷ (here: 5·2⁻²⁰ at most). -/
theorem C04_stems_accumulate_old :
    stemPairs 0 (vals (stemChunkCodesOld 20 0 [1048583, 2097166, 3145749, 4194332])) =
      [65536, 131072, 196608, 262144] ∧
    ¬ Close 20 262144 4194332 ∧
    decStems (hChunks ⟨[], [], 0, 0⟩ 20 0 [1048583, 2097166, 3145749, 4194332]) =
      [65536, 131073, 196609, 262146] ∧
    Close 20 262146 4194332 := by
  decide

/-- non-vacuity of `C04_stems_no_accumulation`: the stems of the former finding (multiples of 2⁻²⁰) meet the
step bound -/
example : stemChunksSmall 20 5 0 [1048583, 2097166, 3145749, 4194332] = true ∧
    stemChunksSmall 20 5 1 [1048583, 2097166, 3145749, 4194332] = true := by decide

/-- The unguarded statement `C04_glyph_sound_full` (no `GlyphWF`) is false: a hintmask in a glyph without
stems is emitted verbatim ("hintmask 0x80 0 vmoveto endchar") and rejected by the specification
interpreter (and by the real decoder: observed).  The hypothesis `GlyphWF` is necessary. -/
theorem C04_glyph_sound_unguarded_fails : ¬ C04_glyph_sound_full := by
  intro h
  obtain ⟨g, hg⟩ := h ⟨[], [], 0, 0⟩ 20 0 [] [] [.mask false [128], .moveTo 0 0] [] [19, 128, 139, 4, 14]
    (by decide) (by
      intro c hc
      have : c = .mask false [128] ∨ c = .move (encNum 0 20) (encNum 0 20) := by
        simpa [encodeArgs, encodeArgsFrom] using hc
      rcases this with rfl | rfl
      · trivial
      · exact ⟨C04_operand_decodes 0 20 (by decide), C04_operand_decodes 0 20 (by decide)⟩)
  revert hg
  have : Spec.T2.interp ⟨[], [], 0, 0⟩ [19, 128, 139, 4, 14] = .err "early" := by decide
  rw [this]
  intro hg
  cases hg

/-- non-vacuity of `C04_glyph_roundtrip`: width ≠ default, 25 hstem pairs (two chunks: 23 pairs + width,
then 2 pairs), fine stems allowed; 1 vstem pair whose operator is omitted before the leading hintmask (4 mask bytes for 26
stems), a cntrmask inside the path -/
def exHs : List Int := (List.range 50).map (fun i => ((10 * i : Nat) : Int) * 1048576)
def exCmds : List InCmd :=
  [.mask false [255, 255, 255, 192], .moveTo 1048576 2097152, .lineTo 5242880 2097152,
   .mask true [1, 2, 3, 4], .lineTo 5242880 (-3145728)]

example : GlyphWF exHs [0, 3145728] exCmds = true ∧ stepsSmall 20 0 0 exCmds = true ∧
    stemsSmall 20 exHs = true ∧ stemsSmall 20 [0, 3145728] = true ∧
    hStemsSmall ⟨[], [], 0, 0⟩ 20 524288000 exHs = true ∧ vStemsSmall ⟨[], [], 0, 0⟩ 20 524288000 exHs [0, 3145728] = true ∧
    Small 20 (524288000 - 0 * 2 ^ (20 - 16)) ∧
    (encodeCharString 20 524288000 exHs [0, 3145728] exCmds 0 0 [[(1, .hlineto)], [(1, .vlineto)]]).isSome = true ∧
    ((hChunks ⟨[], [], 0, 0⟩ 20 524288000 exHs).map List.length) = [46, 4] := by
  decide

/-- non-vacuity: for "5 0 lineto-delta, 0 7, 3 4" the proposals at node 0 are rlineto over 1 and 2… -/
def exSegs : List Seg :=
  [.line ⟨5 * 65536, [144]⟩ ⟨0, [139]⟩, .line ⟨0, [139]⟩ ⟨7 * 65536, [146]⟩,
   .line ⟨3 * 65536, [142]⟩ ⟨4 * 65536, [143]⟩]

example : (appendEdges 0 exSegs).map (fun e => (e.op, e.to)) =
    [(.rlineto, 1), (.rlineto, 3), (.hlineto, 2)] := by decide

example : IsPath exSegs 0 [⟨[⟨5 * 65536, [144]⟩, ⟨7 * 65536, [146]⟩], .hlineto, 2⟩,
    ⟨[⟨3 * 65536, [142]⟩, ⟨4 * 65536, [143]⟩], .rlineto, 3⟩] :=
  .step (by decide) (.step (by decide) .done)

end SfntV.Props.C04
