/-
C04 — compiling glyphs to Type 2 charstrings preserves outline, hints and width.

Proved here: the number encoder (`encodeNumber`, cff/t2encode.go:487) against the ONE Type 2
interpreter of C05 (any quirk setting, so in particular the specification).  The edge proposals of the
optimising encoder and the header assembly are not modelled yet: for them the property is checked on
the real code by the D stream `t2.rt` (specification interpreter on the bytes the Go encoder emits).
A float64 argument is the dyadic rational `n / 2^k`; values are in 2⁻¹⁶ units.
-/
import SfntV.Proofs.T2Encode

namespace SfntV.Props.C04
open SfntV SfntV.T2 SfntV.T2Enc

/-- For every float `x = n/2^k` with |x| ≤ 32767: (1) the interpreter — under every quirk setting, in
every state with room on the stack — reads the code emitted by `encodeNumber x` as exactly the value
`encodeNumber` reports back to its caller (the decoder's running position is therefore what
`encodeArgs` thinks it is), and (2) that value differs from `x` by at most 2⁻¹⁷.
Partial: the hypothesis |x| ≤ 32767 is forced by the code (see `C04_number_bigstep_fails`). -/
theorem C04_number_partial (n : Int) (k : Nat) (h : n.natAbs ≤ 32767 * 2 ^ k) :
    (∀ (q : Quirks) (env : Env) (s : St) (rest : List Nat), s.stack.length ≤ 48 →
      step q env s ((encodeNumber n k).2 ++ rest) =
        .ok (.cont { s with stack := s.stack ++ [(encodeNumber n k).1] } rest)) ∧
    2 * ((encodeNumber n k).1 * ((2 ^ k : Nat) : Int) - n * 65536).natAbs ≤ 2 ^ k := by
  have hd : 0 < 2 ^ k := Nat.two_pow_pos k
  unfold encodeNumber
  simp only
  generalize 2 ^ k = d at *
  split
  · rename_i hc
    constructor
    · intro q env s rest hs
      have := step_encodeInt q env s (wrap16 (n.tdiv d)) rest (wrap16_range _) hs
      simpa [one, encodeInt] using this
    · have e : wrap16 (n.tdiv ↑d) * 65536 * (d : Int) - n * 65536 = 65536 * (wrap16 (n.tdiv ↑d) * ↑d - n) := by
        rw [Int.mul_sub, Int.mul_right_comm, Int.mul_comm _ 65536, Int.mul_comm 65536 n]
      rw [e, Int.natAbs_mul]
      have h6 : (65536 : Int).natAbs = 65536 := rfl
      rw [h6]
      omega
  · have ha : (n * 65536).natAbs ≤ 32767 * 65536 * d := by
      rw [Int.natAbs_mul]
      have h6 : (65536 : Int).natAbs = 65536 := rfl
      rw [h6]
      omega
    have hb := roundDiv_bound (n * 65536) d hd ha
    have hw : wrap32 (roundDiv (n * 65536) d) = roundDiv (n * 65536) d := by
      unfold wrap32
      rw [if_pos hb]
    rw [hw]
    constructor
    · intro q env s rest hs
      exact step_encodeFixed q env s _ rest hb hs
    · exact roundDiv_close (n * 65536) d hd

/-- non-vacuity: 100.3 (= 105172173 / 2^20) is encoded as a 16.16 number within 2⁻¹⁷;
-250 as a two-byte integer -/
example : encodeNumber 105172173 20 = (6573261, [255, 0, 100, 76, 205]) ∧ encodeNumber (-250) 0 = (-250 * 65536, [251, 142]) := by
  decide

/-- The full statement over the property's own domain (coordinates in ±32000, so steps up to ±64000). -/
def C04_number_full : Prop :=
  ∀ (n : Int) (k : Nat), n.natAbs ≤ 64000 * 2 ^ k →
    2 * ((encodeNumber n k).1 * ((2 ^ k : Nat) : Int) - n * 65536).natAbs ≤ 2 ^ k

/-- Finding C04-bigstep (defect #20): the full statement is false — the step 64000 (from x = −32000 to
x = 32000, both inside the property's box) is written as the integer −1536. -/
theorem C04_number_bigstep_fails : ¬ C04_number_full := by
  intro h
  have := h 64000 0 (by decide)
  revert this
  decide

end SfntV.Props.C04
