/-
C01 at the level of BYTES, OpenType/CFF flavour: the advance widths through the Type 2
interpreter of C04/C05.  Proof: Proofs/FontFileCffT2.lean.
-/
import SfntV.Proofs.FontFileCffT2
import SfntV.Props.C01FileCffC13

namespace SfntV.Props.C01
open SfntV SfntV.Font SfntV.FontFile SfntV.Otl

/-- **Byte-level round trip, OpenType/CFF, widths interpreted.**  `CffSem.glyphs` is no longer
arbitrary: `semT2 q ext …` runs `T2.interp q` (`q = T2.goQuirks`: the model of
`decodeCharString`) on every charstring that C13's reader returns, in the environment of the
glyph's private DICT.  For a font in the domain the file is written, read back to `nfFileCff F`,
and the advance widths of the font read are `int16(trunc(g.width))` for the glyphs `g` the
interpreter returns on the stored charstrings.  Still explicit: `ext` (extent of a decoded
glyph), `real`, `matrix`, `token`. -/
theorem C01_file_roundtrip_cff_t2 (T : Cff.Tables) (q : T2.Quirks) (ext : T2.Glyph → Metrics.Rect)
    (real : Cff.Rl → Dy) (matrix : List Cff.Rl → FM) (token : Cff.FontOut → Str)
    (ef : EnvF) (caretOf : Int → Int → Int) (F : CffFileFont)
    (h : InDomainFileCffC13 T (semT2 q ext real matrix token) ef F) :
    ∃ b r o gs, writeFileCff ef F = .ok b ∧
      readFileCff layoutDec (decCffC13 T (semT2 q ext real matrix token)) caretOf b = .ok r ∧
      r = nfFileCff F ∧
      Cff.readFont T F.cffBytes = .ok o ∧
      Pointwise (fun ci g => glyphT2 q o ci = .ok g) o.charStrings.zipIdx gs ∧
      r.font.outline.widths = some (gs.map fun g => Dy.ofInt (toInt16 (dyOfFixed g.width).trunc)) :=
  file_roundtrip_cff_t2 T q ext real matrix token ef caretOf F h

/-- **The width of a charstring written by C04's encoder, decoded by the model of the Go decoder**:
for a well-formed glyph with steps ≤ 32767 (C04-bigstep) and path deltas within ±32000 (`CmdBnd`,
C05-clamp) the width is the default width, or nominal width + the encoded difference, within 2⁻¹⁷
of the glyph's width.  No hypothesis about decoder quirks (bridge `C04_glyph_roundtrip_go`). -/
theorem C01_t2_width_encoded (env : T2.Env) (K : Nat) (hK : 16 ≤ K) (w : Int) (hs vs : List Int)
    (cmds : List T2Enc.InCmd) (paths : List (List (Nat × T2.Op))) (bytes : List Nat)
    (h : T2Enc.encodeCharString K w hs vs cmds env.defaultWidth env.nominalWidth paths = some bytes)
    (hwf : T2Enc.GlyphWF hs vs cmds = true) (hsteps : T2Enc.stepsSmall K 0 0 cmds = true)
    (hbnd : ∀ c ∈ T2Enc.encodeArgs K cmds, T2Enc.CmdBnd c)
    (hw : w ≠ env.defaultWidth * 2 ^ (K - 16) → T2Enc.Small K (w - env.nominalWidth * 2 ^ (K - 16)))
    (hhs : T2Enc.hStemsSmall env K w hs = true) (hvs : T2Enc.vStemsSmall env K w hs vs = true) :
    ∃ g, T2.interp T2.goQuirks env bytes = .ok g ∧
      g.width = (if w = env.defaultWidth * 2 ^ (K - 16) then env.defaultWidth
        else (T2Enc.encNum (w - env.nominalWidth * 2 ^ (K - 16)) K).val + env.nominalWidth) ∧
      (w ≠ env.defaultWidth * 2 ^ (K - 16) → T2Enc.Close K g.width w) :=
  t2_width_encoded env K hK w hs vs cmds paths bytes h hwf hsteps hbnd hw hhs hvs

/-! ### non-vacuity: the example font, its two charstrings interpreted -/

/-- an extent function for the example: floor / ceil of the extreme coordinates of all points of
the decoded path (exact for glyphs made of lines; `⟨0,0,0,0⟩` for a blank glyph) -/
def exExt (g : T2.Glyph) : Metrics.Rect :=
  let pts : List (Int × Int) := g.cmds.flatMap fun c =>
    match c with
    | .moveTo x y => [(x, y)]
    | .lineTo x y => [(x, y)]
    | .curveTo xa ya xb yb xc yc => [(xa, ya), (xb, yb), (xc, yc)]
    | _ => []
  match pts with
  | [] => ⟨0, 0, 0, 0⟩
  | p :: ps =>
    let xmin := ps.foldl (fun m q => if q.1 < m then q.1 else m) p.1
    let xmax := ps.foldl (fun m q => if q.1 > m then q.1 else m) p.1
    let ymin := ps.foldl (fun m q => if q.2 < m then q.2 else m) p.2
    let ymax := ps.foldl (fun m q => if q.2 > m then q.2 else m) p.2
    ⟨xmin / 65536, ymin / 65536, -((-xmax) / 65536), -((-ymax) / 65536)⟩

/-- `exSem` with the glyph part replaced by the model of the Go charstring decoder -/
def exSemT2 : CffSem := semT2 T2.goQuirks exExt exSem.real exSem.matrix exSem.token

end SfntV.Props.C01
