/-
C07 — shaping is safe, terminating, text-conserving and history-independent.
Only property theorems and non-vacuity examples live here; helper lemmas are in
Proofs/Shape*.lean.  The engine model (Model/ShapeEngine.lean) mirrors
opentype/gtab/{layout,filter,gsub,nested,gpos,gpos4,gpos6}.go as repaired for DESIGN §9 #11 #12 #13 #14
#15 #33 and, from property C06, #32 (GSUB type 8 lookups are applied from the end of the string by the
structurally recursive `revLoop`), C06-ch3 / C06-ch3skip (ChainedSeqContext3.apply), C06-attach
(GPOS 4.1 / 6.1 offsets) and C06-base (GPOS 4.1 / 6.1 search for the glyph attached to); `Shape.apply B ll gd lookups stack seq` is one call `ctx.Apply(seq)` on a context
with lookup list `ll`, GDEF `gd`, lookup indices `lookups` and persistent stack `stack`;
`B` is the nested-action budget (64 in the source; the theorems hold for every `B`).

All theorems quantify over ARBITRARY tables: nothing relates coverage indices, class
values, lookup / sequence / filtering-set indices to the sizes of what they index.
-/
import SfntV.Proofs.ShapeSafeFull
import SfntV.Proofs.ShapeReader
import SfntV.Drive.Shape

namespace SfntV.Props.C07
open SfntV SfntV.Shape

/-- **Termination, with the explicit bound.**  `Shape.apply` runs the loop over the glyph
positions with fuel `len(seq)` (the length at the start of each lookup: by the progress guard
every step lowers `len(seq) - pos`), and inside each step the loop over the nested actions
with fuel `2*B + len(stack)` (each iteration pops an entry or consumes one of at most `B - 1`
actions, and an action pushes at most one entry).  This theorem says the fuel is never
exhausted: no call ends with the "out of fuel" error — for any tables, GDEF, lookup indices,
left-over stack and sequence.  Hence one call makes at most `len` outer steps per lookup and at
most `2*B + 1` inner iterations per step. -/
theorem C07_terminates (B : Nat) (ll : LookupList) (gd : Gdef) (lookups : List Nat)
    (stack : List Nested) (seq : List Glyph) (e : String) :
    Shape.apply B ll gd lookups stack seq ≠ .err e :=
  (applyLookups_good B ll gd lookups ⟨seq, stack⟩).noErr e

/-- **Text conservation.**  Whenever a call returns, the runes attached to the output glyphs
are a permutation of the runes attached to the input glyphs: every character appears exactly
as often as before (none lost, none duplicated) — for any tables and any left-over stack. -/
theorem C07_text_conserved (B : Nat) (ll : LookupList) (gd : Gdef) (lookups : List Nat)
    (stack : List Nested) (seq : List Glyph) (st : St)
    (h : Shape.apply B ll gd lookups stack seq = .ok st) :
    (textOf st.seq).Perm (textOf seq) :=
  ((applyLookups_good B ll gd lookups ⟨seq, stack⟩).ok h).1

/-- **Length bound.**  `llGrowth ll` is the length of the longest replacement sequence of any
multiple substitution (GSUB 2.1) in the lookup list, minus one; no other subtable lengthens the
sequence.  One outer step applies at most `B` subtables (the first match and `B - 1` nested
actions), so it adds at most `stepGrowth B ll = llGrowth ll + (B-1) * llGrowth ll` glyphs; a
lookup makes at most `len` steps; hence after `lookups.length` lookups the length is at most
`len * (1 + stepGrowth B ll) ^ lookups.length`. -/
theorem C07_len_bound (B : Nat) (ll : LookupList) (gd : Gdef) (lookups : List Nat)
    (stack : List Nested) (seq : List Glyph) (st : St)
    (h : Shape.apply B ll gd lookups stack seq = .ok st) :
    st.seq.length ≤ seq.length * (1 + stepGrowth B ll) ^ lookups.length :=
  ((applyLookups_good B ll gd lookups ⟨seq, stack⟩).ok h).2.1

/-- Corollary: without a multiple substitution that has a replacement longer than one glyph
the output is never longer than the input. -/
theorem C07_len_nonincreasing (B : Nat) (ll : LookupList) (gd : Gdef) (lookups : List Nat)
    (stack : List Nested) (seq : List Glyph) (st : St) (hg : llGrowth ll = 0)
    (h : Shape.apply B ll gd lookups stack seq = .ok st) :
    st.seq.length ≤ seq.length := by
  have := C07_len_bound B ll gd lookups stack seq st h
  simpa [stepGrowth, hg] using this

/-- **The stack is empty again when `Apply` returns** (after repair #14; before it the stack
kept the unfinished actions when the budget ran out). -/
theorem C07_stack_empty (B : Nat) (ll : LookupList) (gd : Gdef) (lookups : List Nat)
    (seq : List Glyph) (st : St) (h : Shape.apply B ll gd lookups [] seq = .ok st) :
    st.stack = [] :=
  ((applyLookups_good B ll gd lookups ⟨seq, []⟩).ok h).2.2 rfl

/-- outcomes up to and including the first one that is not a value -/
def cutAtFailure : List (Outcome St) → List (Outcome St)
  | [] => []
  | .ok s :: r => .ok s :: cutAtFailure r
  | o :: _ => [o]

/-- **History independence.**  The outcomes of any history of calls on ONE context (started
fresh) are exactly the outcomes of the same calls each made on a fresh context — up to the
first call that does not return (after a panic the Go context is in no defined state). -/
theorem C07_history_independent (B : Nat) (ll : LookupList) (gd : Gdef) (lookups : List Nat)
    (hist : List (List Glyph)) :
    runHistory B ll gd lookups [] hist = cutAtFailure (hist.map (Shape.apply B ll gd lookups [])) := by
  induction hist with
  | nil => rfl
  | cons s ss ih =>
    simp only [runHistory, List.map_cons]
    cases h : Shape.apply B ll gd lookups [] s with
    | ok st =>
      simp only [cutAtFailure]
      rw [C07_stack_empty B ll gd lookups s st h, ih]
    | err e => rfl
    | panic p => rfl

/-- **No panic**, proved for guarded lookup lists without contextual subtables.  `guardedLL`
says: every coverage index is inside the array it indexes (GSUB 1.2/2.1/3.1/4.1/8.1, context
format 1, GPOS 1.2/3.1/4.1/6.1 — the reader establishes this by pruning), a context format 3
has at least one input coverage (the reader rejects 0), no pair-adjustment pointer is nil, and
no value record uses a field whose application is unimplemented (excluded by the property
text).  Nothing is assumed about class values, mark classes, lookup, sequence or filtering-set
indices.  Every conjunct is needed: see `C07_unguarded_panics`. -/
theorem C07_no_panic_partial (B : Nat) (ll : LookupList) (gd : Gdef) (lookups : List Nat)
    (seq : List Glyph) (hg : guardedLL ll = true) (hs : simpleLL ll = true) (site : String) :
    Shape.apply B ll gd lookups [] seq ≠ .panic site :=
  (applyLookups_safe B ll gd hg hs lookups ⟨seq, []⟩ rfl).noPanic site

/-- **No panic**, second class: guarded lookup lists WITH contextual subtables (contexts 1–3,
chained contexts 1–3, arbitrarily nested and self-referential, any number of actions, any
sequence indices) in which no nested action runs a lookup containing a ligature substitution
(GSUB 4.1) — `nestedMergeFreeLL`.  Nested actions may insert glyphs (GSUB 2.1: `fixStackInsert`
is covered), and lookups applied at the top level may be of any type, ligatures included.  The
proof carries the well-formedness of the stack of nested actions (recorded positions and
`EndPos` inside the sequence) through the loop over the actions. -/
theorem C07_no_panic_nested_mergefree (B : Nat) (ll : LookupList) (gd : Gdef) (lookups : List Nat)
    (seq : List Glyph) (hg : guardedLL ll = true) (hn : nestedMergeFreeLL ll = true) (site : String) :
    Shape.apply B ll gd lookups [] seq ≠ .panic site :=
  (applyLookups_safeN B ll gd hg hn lookups ⟨seq, []⟩ rfl).noPanic site

/-- **No panic — the full statement.**  For every lookup list in the shape the reader
delivers (`readerShapedLL`: `guardedLL`, and every chained context format 3 has at least one
input coverage — `readChainedSeqContext3` rejects 0), every GDEF table, every list of lookup
indices and every glyph sequence, a call on a context with an empty stack never panics:
contextual lookups of all six formats, arbitrarily nested and self-referential, with any number
of actions and any sequence / lookup / class / mark-class / filtering-set indices, whose nested
actions may insert glyphs (GSUB 2.1, `fixStackInsert`) and merge glyphs (GSUB 4.1,
`fixStackMerge` as repaired for §9 #33).  The proof carries the invariant
`0 ≤ InputPos[i] < EndPos ≤ len(seq)`, `InputPos` sorted, `EndPos` non-decreasing from the top
of the stack to the bottom, through `fixStackInsert`, `fixStackMerge` (two-pointer walk,
`slices.BinarySearch`, insertion/deletion of the merge position) and the loop over the nested
actions.  Together with `C07_stack_empty` the stack IS empty at every call of a history. -/
theorem C07_no_panic (B : Nat) (ll : LookupList) (gd : Gdef) (lookups : List Nat)
    (seq : List Glyph) (h : readerShapedLL ll = true) (site : String) :
    Shape.apply B ll gd lookups [] seq ≠ .panic site :=
  (applyLookups_full B ll gd h lookups ⟨seq, []⟩ rfl).noPanic site

/-- No call of any history on one context panics (consequence of `C07_no_panic` and
`C07_history_independent`). -/
theorem C07_no_panic_history (B : Nat) (ll : LookupList) (gd : Gdef) (lookups : List Nat)
    (hist : List (List Glyph)) (h : readerShapedLL ll = true) (site : String) :
    Outcome.panic site ∉ runHistory B ll gd lookups [] hist := by
  rw [C07_history_independent]
  intro hmem
  have : ∀ (l : List (Outcome St)), Outcome.panic site ∈ cutAtFailure l → Outcome.panic site ∈ l := by
    intro l
    induction l with
    | nil => intro h; cases h
    | cons o os ih =>
      intro h
      cases o with
      | ok s =>
        simp only [cutAtFailure] at h
        rcases List.mem_cons.mp h with h | h
        · cases h
        · exact List.mem_cons_of_mem _ (ih h)
      | err e =>
        simp only [cutAtFailure] at h
        rcases List.mem_cons.mp h with h | h
        · cases h
        · cases h
      | panic p =>
        simp only [cutAtFailure] at h
        rcases List.mem_cons.mp h with h | h
        · rw [h]; exact List.mem_cons_self
        · cases h
  obtain ⟨s, _, hs⟩ := List.mem_map.mp (this _ hmem)
  exact C07_no_panic B ll gd lookups s h site hs

/-- **The reader delivers the shape `C07_no_panic` asks for** (C07 ∘ C08).  `Reader.FromReader s`
says that `s` is the image, under the field-by-field translation of Proofs/ShapeReader.lean, of a
value that one of the modelled subtable readers (C08's value-level models of `readGsub1_1`,
`readGsub1_2`, `readGsub2_1`, `readGsub3_1`, `readGsub4_1`, `readGsub8_1`, `readSeqContext1/2/3`,
`readChainedSeqContext1/2/3`, `readGpos1_1`, `readGpos1_2`, `readGpos2_1`, `readGpos2_2`, `readGpos3_1`,
`readGpos4_1`, `readGpos6_1` — every subtable kind with an `apply` method; GPOS 5.1's `apply` is a stub) returns on SOME byte string — any byte string the reader accepts.  Every such
subtable is `guarded` and `chain3Ok`: the coverage indices are inside the arrays
(`C08_reader_cov_in_range_*` = Proofs/OtlCovRange), context 3 / chained context 3 have a
non-empty input (the readers reject a zero count), contexts 2 index their rule sets by class
under a guard; the pair adjustments of GPOS 2.1/2.2 are non-nil by construction of the readers;
for GPOS 1.1/1.2/2.1/2.2 the value records are assumed to use implemented fields only (`vrImpl`,
the exclusion in the property text). -/
theorem C07_reader_delivers_shape (s : Subtable) (h : Reader.FromReader s) :
    s.guarded = true ∧ s.chain3Ok = true :=
  Reader.fromReader_shaped h

/-- **No panic on reader-delivered tables, hypothesis discharged.**  For every lookup list all of
whose subtables come out of the modelled readers (on any accepted bytes), every GDEF table, every
list of lookup indices and every history of glyph sequences on one context, no call panics. -/
theorem C07_no_panic_reader (B : Nat) (ll : LookupList) (gd : Gdef) (lookups : List Nat)
    (hist : List (List Glyph)) (h : ∀ lk ∈ ll, ∀ s ∈ lk.subtables, Reader.FromReader s) (site : String) :
    Outcome.panic site ∉ runHistory B ll gd lookups [] hist :=
  C07_no_panic_history B ll gd lookups hist (Reader.readerShaped_of_fromReader ll h) site

/-- non-vacuity: an accepted byte string of `readGsub1_2` whose count (1) is smaller than its
coverage table (glyphs 1 and 2): the reader prunes the coverage, the image is a subtable of the
engine, and a lookup list built from it satisfies the hypothesis of `C07_no_panic_reader` -/
example : Otl.Gsub.read12 [0,2, 0,8, 0,1, 0,20, 0,1, 0,2, 0,1, 0,2] = .ok ([(1, 0)], [20]) := by decide +kernel
example : Reader.FromReader (.gsub12 [(1, 0)] [20]) :=
  .gsub12 [0,2, 0,8, 0,1, 0,20, 0,1, 0,2, 0,1, 0,2] _ _ (by decide +kernel)

/-! ### the translation reader value → engine subtable, checked end to end on one GPOS 2.1 table

24 bytes: format 1, valueFormat1 = XAdvance, one pair set for glyph 1: (second glyph 2, XAdvance −50).
(a) C08's reader model decodes them; (b) the translation `Reader.pairsOf` of that value equals what
the driver parses from the harness serialisation `103,1,1,2,1,1,32768,32768,32718,0,0` of the
subtable the GO reader returns for the same bytes (obtained by running `gtab.VerifReadGposSubtable`
and the harness encoder on them); (c) the engine applies it: the advance of glyph 1 becomes 450. -/

def exG21Bytes : Bytes := [0,1, 0,12, 0,4, 0,0, 0,1, 0,18, 0,1,0,1,0,1, 0,1, 0,2, 255,206]
def exG21Sets : List Otl.Gpos.PairSet := [[(2, some [0, 0, 65486, 0, 0, 0, 0, 0], none)]]
def exG21Pairs := Reader.pairsOf [(1, 0)] exG21Sets

def readIs (o : Outcome (List (Nat × Nat) × List Otl.Gpos.PairSet)) (cov : List (Nat × Nat))
    (sets : List (List (Nat × Option (List Nat) × Option (List Nat)))) : Bool :=
  match o with
  | .ok (c, s) => c == cov && s == sets
  | _ => false

theorem readIs_eq {o : Outcome (List (Nat × Nat) × List Otl.Gpos.PairSet)} {cov sets}
    (h : readIs o cov sets = true) : o = .ok (cov, sets) := by
  cases o with
  | ok p =>
    obtain ⟨c, s⟩ := p
    simp only [readIs, Bool.and_eq_true, beq_iff_eq] at h
    rw [h.1, h.2]
  | err e => simp [readIs] at h
  | panic e => simp [readIs] at h

def sameGpos21 : Option (Subtable × List Nat) → List ((Nat × Nat) × Option PairAdj) → Bool
  | some (.gpos21 ps, []), qs => ps == qs
  | _, _ => false

example : readIs (Otl.Gpos.read21 exG21Bytes) [(1, 0)] exG21Sets = true := by decide +kernel
example : sameGpos21 (SfntV.Drive.Shape.pSubtable [103, 1, 1, 2, 1, 1, 32768, 32768, 32718, 0, 0]) exG21Pairs = true := by
  decide +kernel
example : Reader.FromReader (.gpos21 exG21Pairs) :=
  .gpos21 exG21Bytes [(1, 0)] exG21Sets (readIs_eq (by decide +kernel)) (by
    intro set hset p hp
    simp only [exG21Sets, List.mem_singleton] at hset
    subst hset
    simp only [List.mem_singleton] at hp
    subst hp
    constructor <;> intro k hk <;>
      (simp only [List.mem_cons, List.not_mem_nil, or_false] at hk
       rcases hk with h | h | h | h | h <;> subst h <;> rfl))
example : Shape.apply 64 [⟨0, 0, [.gpos21 exG21Pairs]⟩] {} [0] [] [⟨1, [97], 0, 0, 500⟩, ⟨2, [98], 0, 0, 600⟩]
    = .ok ⟨[⟨1, [97], 0, 0, 450⟩, ⟨2, [98], 0, 0, 600⟩], []⟩ := by decide +kernel

/-- What remains open: API-built lists that are `guardedLL` but contain a chained context
format 3 with an EMPTY input sequence (a shape the reader cannot deliver) and a nested ligature
substitution.  No panic was found there by the generator either (stream `shape.safe`). -/
def C07_no_panic_guarded_only : Prop :=
  ∀ (B : Nat) (ll : LookupList) (gd : Gdef) (lookups : List Nat) (seq : List Glyph),
    guardedLL ll = true → ∀ site, Shape.apply B ll gd lookups [] seq ≠ .panic site

/-- The hypothesis `guardedLL` cannot be dropped: a single substitution whose coverage index
points past its substitute array makes the model — and the Go code, as the correspondence
stream shows on such cases — panic. -/
theorem C07_unguarded_panics :
    ∃ ll gd lookups seq site, simpleLL ll = true ∧ Shape.apply 64 ll gd lookups [] seq = .panic site :=
  ⟨[⟨0, 0, [.gsub12 [(1, 5)] [2]]⟩], {}, [0], [⟨1, [97], 0, 0, 0⟩],
    "gsub12:SubstituteGlyphIDs[idx]", by decide, by decide⟩

/-! ## non-vacuity: concrete non-trivial runs -/

/-- lookup 0: context "1 (marks ignored)" with two actions running lookup 1 at index 0;
lookup 1: ligature 1 10 10 → 1.  This is the input of §9 #33: the merge swallows the trailing
skipped marks of the enclosing match. -/
def exLL : LookupList :=
  [⟨8, 0, [.ctx1 [(1, 0)] [[⟨[], [], [], [⟨0, 1⟩, ⟨0, 1⟩]⟩]]]⟩,
   ⟨0, 0, [.gsub41 [(1, 0)] [[⟨[10, 10], 1⟩]]]⟩]

def exGdef : Gdef := { glyphClass := [(10, 3)] }

def exSeq : List Glyph := [⟨1, [97], 0, 0, 0⟩, ⟨10, [98], 0, 0, 0⟩, ⟨10, [99], 0, 0, 0⟩]

/-- the call returns, with one ligature glyph carrying all three runes, and an empty stack -/
example : Shape.apply 64 exLL exGdef [0] [] exSeq = .ok ⟨[⟨1, [97, 98, 99], 0, 0, 0⟩], []⟩ := by decide
example : readerShapedLL exLL = true ∧ nestedMergeFreeLL exLL = false ∧ simpleLL exLL = false := by decide

/-- a guarded list without contextual subtables that does something: multiple substitution
followed by a ligature over a skipped mark -/
def exSimple : LookupList :=
  [⟨0, 0, [.gsub21 [(1, 0)] [[3, 4]]]⟩,
   ⟨8, 0, [.gsub41 [(2, 0)] [[⟨[3], 7⟩]]]⟩]

example : guardedLL exSimple = true ∧ simpleLL exSimple = true := by decide

/-- a guarded list with a self-referential context whose nested lookups substitute and insert -/
def exNested : LookupList :=
  [⟨0, 0, [.chain1 [(1, 0)] [[⟨[2], [3], [], [⟨1, 1⟩, ⟨0, 0⟩, ⟨7, 1⟩, ⟨0, 2⟩]⟩]]]⟩,
   ⟨0, 0, [.gsub12 [(1, 0), (3, 1)] [5, 6]]⟩,
   ⟨0, 0, [.gsub21 [(1, 0)] [[1, 4, 4]]]⟩]

example : guardedLL exNested = true ∧ nestedMergeFreeLL exNested = true ∧ simpleLL exNested = false := by decide
example : Shape.apply 64 exNested exGdef [0] []
      [⟨2, [97], 0, 0, 0⟩, ⟨1, [98], 0, 0, 0⟩, ⟨3, [99], 0, 0, 0⟩]
    = .ok ⟨[⟨2, [97], 0, 0, 0⟩, ⟨1, [98], 0, 0, 0⟩, ⟨4, [], 0, 0, 0⟩, ⟨4, [], 0, 0, 0⟩, ⟨6, [99], 0, 0, 0⟩], []⟩ := by
  decide
example : llGrowth exSimple = 1 := by decide
example : Shape.apply 64 exSimple exGdef [0, 1] []
      [⟨2, [97], 0, 0, 0⟩, ⟨10, [98], 0, 0, 0⟩, ⟨1, [99], 0, 0, 0⟩]
    = .ok ⟨[⟨7, [97, 99], 0, 0, 0⟩, ⟨10, [98], 0, 0, 0⟩, ⟨4, [], 0, 0, 0⟩], []⟩ := by decide

/-- a history of two calls on one context -/
example : (runHistory 64 exLL exGdef [0] [] [exSeq, exSeq]).length = 2 := by decide

end SfntV.Props.C07
