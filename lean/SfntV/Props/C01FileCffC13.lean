/-
C01 at the level of BYTES, OpenType/CFF flavour, with the `CFF ` table through C13's models of
`(*cff.Font).Write` / `cff.Read` and GDEF/GSUB/GPOS through C08's readers.
Proof: Proofs/FontFileCffC13.lean.
-/
import SfntV.Proofs.FontFileCffC13
import SfntV.Props.C01FileLayout
import SfntV.Generated.Cff

namespace SfntV.Props.C01
open SfntV SfntV.Font SfntV.FontFile SfntV.Otl

/-- **Byte-level round trip, OpenType/CFF, CFF table read by C13's `readFont`.**  The abstract
`decCff` of `C01_file_roundtrip_cff` is replaced by `decCffC13 T S` = C13's structural reader
(header, INDEXes, Top/Private/Font DICTs, strings, charset, Encoding, FDSelect, every offset) followed
by `viewOf S`.  The guard `decCff F.cffBytes = ok F.payload` is replaced by C13's domain
(`CffTableOk`: the table is `writeFont` of a `FontIn` in `SimpleDom` or `CidDom`, shorter than
2 GiB, and the payload is the view of C13's normal form).

Still explicit, NOT discharged (the parameter `S : CffSem`, arbitrary): the charstring
interpretation giving advance widths and extents (C04/C05), the conversion of DICT decimals to
float64 and of the font matrix to the opaque `FM`, and the token of the remaining content.  FontInfo
strings are identified bytewise (exact for ASCII; non-ASCII FontInfo strings are outside the
domain). -/
theorem C01_file_roundtrip_cff_c13 (T : Cff.Tables) (S : CffSem) (ef : EnvF) (caretOf : Int → Int → Int)
    (F : CffFileFont) (h : InDomainFileCffC13 T S ef F) :
    ∃ b, writeFileCff ef F = .ok b ∧
      readFileCff layoutDec (decCffC13 T S) caretOf b = .ok (nfFileCff F) :=
  file_roundtrip_cff_c13 T S ef caretOf F h

/-! ### non-vacuity: the example font with a CFF table written by C13's `writeFont` -/

/-- the tables of the real code (391 standard strings, predefined charsets and encodings) -/
def exCffTables : Cff.Tables :=
  { std := Gen.cffStdStrings, isoAdobe := Gen.cff_isoAdobeCharset, expert := Gen.cff_expertCharset,
    expertSubset := Gen.cff_expertSubsetCharset, expertEnc := Gen.cffExpertEnc,
    standardEncRev := Gen.cffStandardEncRev }

def exPrivIn : Cff.PrivIn :=
  { blueValues := [-10, 0, 700, 710], otherBlues := [], blueShift := 7, blueFuzz := 1, forceBold := false }

/-- the `cff.Font` `makeCFF` builds for `exCffFont`: FontInfo = `deriveCff (metaOfCff exCffFont)`
("Test-Bold", version 1.235, italic angle −12, underline −150/100, default font matrix), two
glyphs `.notdef` and `g1` (a triangle), default width 600 -/
def exFontIn : Cff.FontIn where
  fontName := [84, 101, 115, 116, 45, 66, 111, 108, 100]
  strs := ["1.235", "", "(c) x", "Test Bold", "Test", "Bold"]
  isFixedPitch := true
  ulPos := Cff.Operand.int (-150)
  ulThick := Cff.Operand.int 100
  ulPosDefault := false
  ulThickDefault := false
  ros := none
  names := [".notdef", "g1"]
  cids := []
  enc := Cff.EncChoice.standard
  fds := [0, 0]
  privs := [exPrivIn]
  charStrings := [[14], [149, 248, 70, 21, 248, 38, 139, 251, 130, 247, 236, 5, 14]]
  defWidth := 600
  nomWidth := 0
  italicAngle := (true, 12, 0)

/-- `writeFont exCffTables.std exFontIn` (138 bytes, three passes of the offset loop) -/
def exCffBytesC13 : Bytes :=
  [1, 0, 4, 1, 0, 1, 1, 1, 10, 84, 101, 115, 116, 45, 66, 111, 108, 100, 0, 1, 1, 1, 40, 248, 28, 0, 248, 29, 2, 248,
   30, 3, 248, 20, 4, 237, 15, 240, 17, 150, 247, 13, 18, 248, 31, 12, 0, 140, 12, 1, 30, 225, 47, 12, 2, 251, 42, 12,
   3, 239, 12, 4, 0, 5, 1, 1, 3, 8, 17, 21, 26, 103, 49, 49, 46, 50, 51, 53, 84, 101, 115, 116, 32, 66, 111, 108, 100,
   84, 101, 115, 116, 40, 99, 41, 32, 120, 0, 0, 0, 1, 135, 0, 2, 1, 1, 2, 15, 14, 149, 248, 70, 21, 248, 38, 139, 251,
   130, 247, 236, 5, 14, 129, 149, 249, 80, 149, 6, 150, 19, 248, 236, 20, 0, 0]

/-- a `CffSem` for the example: decimals with exponent ≥ 0 are integers and convert exactly; the
glyph metrics of the two charstrings and the tokens are those of the example payload -/
def exSem : CffSem :=
  { real := fun r => if 0 ≤ r.2.2 then ⟨(if r.1 then -1 else 1) * (r.2.1 * 10 ^ r.2.2.toNat : Nat), 0⟩ else ⟨0, 0⟩,
    matrix := fun _ => ⟨['m'], some 1000⟩,
    glyphs := fun _ => .ok ([⟨600, 0⟩, ⟨600, 0⟩], [⟨0, 0, 0, 0⟩, ⟨10, 434, 412, 778⟩]),
    token := fun _ => ['c'] }

/-- the CFF example font (real GSUB table from C08, CFF table from C13) -/
def exCffFontC : CffFileFont := { exCffFontL with cffBytes := exCffBytesC13 }

end SfntV.Props.C01
