/-
C02, tier B — the CFF charset/encoding/FDSelect readers and the GSUB/GPOS layer (script, feature and
lookup lists, GSUB 1–4/8, (chained) context, GPOS 1–3, anchor, mark array) in checked-index style.
Only property theorems live here; each is the named lemma of Proofs/Total*.lean, its statement is
repeated in the doc comment as Lean prints it (`type_of%` keeps the two in step).
-/
import SfntV.Proofs.TotalCffSets
import SfntV.Proofs.TotalCffSetsBridge
import SfntV.Proofs.TotalGtabLists
import SfntV.Proofs.TotalGtabListsBridge
import SfntV.Proofs.TotalLookupList
import SfntV.Proofs.TotalLookupListBridge
import SfntV.Proofs.TotalGsubSub
import SfntV.Proofs.TotalSeqCtx
import SfntV.Proofs.TotalSeqCtxAlias
import SfntV.Proofs.TotalSeqCtxBridge
import SfntV.Proofs.TotalChainCtx
import SfntV.Proofs.TotalChainCtxCost
import SfntV.Proofs.TotalChainCtxEx
import SfntV.Proofs.TotalChainCtxBridge
import SfntV.Proofs.TotalGposSub
import SfntV.Proofs.TotalGposSubCost
import SfntV.Proofs.TotalGposSub51
import SfntV.Proofs.TotalGposSubBridge
import SfntV.Proofs.TotalGposSubExamples

namespace SfntV.Props.C02B
open SfntV SfntV.Total

/-- CFF `readCharset` never panics, for every byte string and every glyph count (also 0, negative, > 65535).

Statement: `∀ (b : Bytes) (nGlyphs : Int), (CffSets.readCharset b nGlyphs).noPanic` -/
theorem C02_charset_no_panic : type_of% @CffSets.readCharset_noPanic := @CffSets.readCharset_noPanic

/-- Its cost is bounded by the glyph count the caller passes (the CharStrings INDEX count), not by the bytes: steps ≤ 3·nGlyphs, alloc = nGlyphs.

Statement: `∀ (b : Bytes) (nGlyphs : Int) (l : List Int) (pos : Nat) (c : Cost), CffSets.readCharset b nGlyphs = Outcome.ok ((l, pos), c) → 1 ≤ nGlyphs ∧ nGlyphs < 65536 ∧ l.length = nGlyphs.toNat ∧ c.steps ≤ 3 * nGlyphs.toNat ∧ c.alloc = nGlyphs.toNat ∧ c.steps ≤ 196605` -/
theorem C02_charset_cost : type_of% @CffSets.readCharset_cost := @CffSets.readCharset_cost

/-- CFF `readEncoding` never panics, for every byte string and every charset.

Statement: `∀ (b : Bytes) (charset : List Int), (CffSets.readEncoding b charset).noPanic` -/
theorem C02_encoding_no_panic : type_of% @CffSets.readEncoding_noPanic := @CffSets.readEncoding_noPanic

/-- `readEncoding`: 256-entry result; steps ≤ |charset| + 66304, alloc ≤ |charset| + 511.

Statement: `∀ (b : Bytes) (charset : List Int) (res : List Nat) (c : Cost), CffSets.readEncoding b charset = Outcome.ok (res, c) → res.length = 256 ∧ c.steps ≤ charset.length + 66304 ∧ c.alloc ≤ charset.length + 511` -/
theorem C02_encoding_cost : type_of% @CffSets.readEncoding_cost := @CffSets.readEncoding_cost

/-- CFF `readFDSelect` never panics for 0 ≤ nGlyphs (a negative count panics in `make`: the only caller passes a slice length).

Statement: `∀ (b : Bytes) (nGlyphs nPrivate : Int), 0 ≤ nGlyphs → nGlyphs < 2 ^ 47 → (CffSets.readFDSelect b nGlyphs nPrivate).noPanic` -/
theorem C02_fdselect_no_panic : type_of% @CffSets.readFDSelect_noPanic := @CffSets.readFDSelect_noPanic

/-- … and the caller establishes that hypothesis: the count of a successfully read INDEX is below 65536.

Statement: `∀ (file : Bytes) (pos : Nat) (items : List Bytes) (p : Nat) (c : Cost), NameCff.readIndex file pos = Outcome.ok ((items, p), c) → ∀ (b : Bytes) (nPrivate : Int), (CffSets.readFDSelect b (↑items.length) nPrivate).noPanic` -/
theorem C02_fdselect_no_panic_caller : type_of% @CffSets.readFDSelect_noPanic_caller := @CffSets.readFDSelect_noPanic_caller

/-- `readFDSelect` is linear: steps ≤ 2·|b| + 1, alloc ≤ |b|.

Statement: `∀ (b : Bytes) (nGlyphs nPrivate : Int) (fn : CffSets.FdSel) (c : Cost), CffSets.readFDSelect b nGlyphs nPrivate = Outcome.ok (fn, c) → c.steps ≤ 2 * List.length b + 1 ∧ c.alloc ≤ List.length b` -/
theorem C02_fdselect_cost : type_of% @CffSets.readFDSelect_cost := @CffSets.readFDSelect_cost

/-- C02_lazy_safe, CFF part: the FDSelect closure returned by a successful read yields an FD index below nPrivate for every gid < nGlyphs (so `decoders[fdIdx]` in cff.Read is in range).

Statement: `∀ (b : Bytes) (nGlyphs nPrivate : Int) (fn : CffSets.FdSel) (c : Cost), CffSets.readFDSelect b nGlyphs nPrivate = Outcome.ok (fn, c) → ∀ (gid : Nat), ↑gid < nGlyphs → ∃ fd, CffSets.lookup fn gid = Outcome.ok fd ∧ ↑fd < nPrivate` -/
theorem C02_lazy_safe_fdselect : type_of% @CffSets.lookup_safe := @CffSets.lookup_safe

/-- Bridge to C13: readCharset.

Statement: `∀ (b : Bytes) (n : Nat), CffSets.erase (CffSets.readCharset b ↑n) = Cff.readCharset b 0 n` -/
theorem C02_charset_agrees : type_of% @CffSets.readCharset_erase := @CffSets.readCharset_erase

/-- Bridge to C13: readEncoding.

Statement: `∀ (b : Bytes) (charset : List Int), CffSets.erase (CffSets.readEncoding b charset) = Cff.readEncoding b 0 charset` -/
theorem C02_encoding_agrees : type_of% @CffSets.readEncoding_erase := @CffSets.readEncoding_erase

/-- Bridge to C13: readFDSelect followed by all lookups.

Statement: `∀ (b : Bytes) (n np : Nat), n < 2 ^ 47 → CffSets.readFDSelectAll b n np = Cff.readFDSelect b 0 n np` -/
theorem C02_fdselect_agrees : type_of% @CffSets.readFDSelect_erase := @CffSets.readFDSelect_erase

/-- `readLangSysTable` never panics.

Statement: `∀ (b : Bytes) (pos : Nat), (GtabLists.readLangSysTable b pos).noPanic` -/
theorem C02_langsys_no_panic : type_of% @GtabLists.readLangSysTable_noPanic := @GtabLists.readLangSysTable_noPanic

/-- `readScriptTable` never panics (any tag conversion, any sort).

Statement: `∀ {τ : Type} (conv : Bytes → Bytes → Option τ) (srt : List (Bytes × Nat) → List (Bytes × Nat)) (b script : Bytes) (pos : Nat) (info : List (τ × GtabLists.Features)), (GtabLists.readScriptTable conv srt b script pos info).noPanic` -/
theorem C02_scripttable_no_panic : type_of% @GtabLists.readScriptTable_noPanic := @GtabLists.readScriptTable_noPanic

/-- `readScriptList` never panics.

Statement: `∀ {τ : Type} (conv : Bytes → Bytes → Option τ) (srt : List (Bytes × Nat) → List (Bytes × Nat)) (b : Bytes) (pos : Nat), (GtabLists.readScriptList conv srt b pos).noPanic` -/
theorem C02_scriptlist_no_panic : type_of% @GtabLists.readScriptList_noPanic := @GtabLists.readScriptList_noPanic

/-- `readFeatureList` never panics.

Statement: `∀ (b : Bytes) (pos : Nat), (GtabLists.readFeatureList b pos).noPanic` -/
theorem C02_featurelist_no_panic : type_of% @GtabLists.readFeatureList_noPanic := @GtabLists.readFeatureList_noPanic

/-- `gtab.Read` header stage + script and feature lists, with the lookup-list reader as a non-panicking parameter.

Statement: `∀ {τ ι : Type} (conv : Bytes → Bytes → Option τ) (srt : List (Bytes × Nat) → List (Bytes × Nat)) (ll : Nat → Outcome (ι × Cost)), (∀ (p : Nat), (ll p).noPanic) → ∀ (b : Bytes), (GtabLists.readGtab conv srt ll b).noPanic` -/
theorem C02_gtab_header_no_panic : type_of% @GtabLists.readGtab_noPanic := @GtabLists.readGtab_noPanic

/-- `readLangSysTable` is linear.

Statement: `∀ (b : Bytes) (pos : Nat) (ff : GtabLists.Features) (c : Cost), GtabLists.readLangSysTable b pos = Outcome.ok (ff, c) → c.steps ≤ List.length b / 2 + 1 ∧ c.alloc ≤ List.length b / 2 + 1` -/
theorem C02_langsys_cost : type_of% @GtabLists.readLangSysTable_linear := @GtabLists.readLangSysTable_linear

/-- The TRUE cost of `readScriptList` is CUBIC in |b| (script offsets may alias one script table whose LangSys offsets alias one LangSys table; no cap): known finding C02-scriptlist-alias.

Statement: `∀ {τ : Type} (conv : Bytes → Bytes → Option τ) (srt : List (Bytes × Nat) → List (Bytes × Nat)), (∀ (l : List (Bytes × Nat)), (srt l).length = l.length) → ∀ (b : Bytes) (pos : Nat) (info : List (τ × GtabLists.Features)) (c : Cost), GtabLists.readScriptList conv srt b pos = Outcome.ok (info, c) → c.steps ≤ 1 + List.length b / 6 * (4 + (List.length b / 12 + 1) * (GtabLists.maxFI b + 3)) ∧ c.alloc ≤ 1 + List.length b / 6 * (1 + (List.length b / 12 + 1) * (GtabLists.maxFI b + 3))` -/
theorem C02_scriptlist_cost_partial : type_of% @GtabLists.readScriptList_cost := @GtabLists.readScriptList_cost

/-- `readFeatureList` is capped by a constant (the running totalSize test bounds all lookup counts): steps ≤ 98304.

Statement: `∀ (b : Bytes) (pos : Nat) (r : List GtabLists.Feature) (c : Cost), GtabLists.readFeatureList b pos = Outcome.ok (r, c) → c.steps ≤ 98304 ∧ c.alloc ≤ 98303` -/
theorem C02_featurelist_cost : type_of% @GtabLists.readFeatureList_cost := @GtabLists.readFeatureList_cost

/-- Bridge to C08: LangSys tables.

Statement: `∀ (b : Bytes) (pos : Nat), GtabLists.eraseCost (fun ff => (ff.required, ff.optional)) (GtabLists.readLangSysTable b pos) = Otl.SL.readLangSys b pos` -/
theorem C02_langsys_agrees : type_of% @GtabLists.readLangSysTable_erase := @GtabLists.readLangSysTable_erase

/-- `readLookupList` never panics for any non-panicking subtable reader.

Statement: `∀ {σ : Type} (sr : LookupList.Reader σ), (∀ (tp p : Nat), (sr tp p).noPanic) → ∀ (b : Bytes) (pos : Nat), (LookupList.readLookupList sr b pos).noPanic` -/
theorem C02_lookuplist_no_panic : type_of% @LookupList.readLookupList_noPanic := @LookupList.readLookupList_noPanic

/-- … composed with the GSUB dispatcher `readGsubSubtable` (unknown type/format is an error, never a nil call).

Statement: `∀ {σ : Type} (sub : LookupList.SubReaders σ), (∀ (t f p : Nat), (sub t f p).noPanic) → ∀ (b : Bytes) (pos : Nat), (LookupList.readLookupList (LookupList.gsubReader sub b) b pos).noPanic` -/
theorem C02_lookuplist_gsub_no_panic : type_of% @LookupList.readLookupList_gsub_noPanic := @LookupList.readLookupList_gsub_noPanic

/-- … composed with the GPOS dispatcher.

Statement: `∀ {σ : Type} (sub : LookupList.SubReaders σ), (∀ (t f p : Nat), (sub t f p).noPanic) → ∀ (b : Bytes) (pos : Nat), (LookupList.readLookupList (LookupList.gposReader sub b) b pos).noPanic` -/
theorem C02_lookuplist_gpos_no_panic : type_of% @LookupList.readLookupList_gpos_noPanic := @LookupList.readLookupList_gpos_noPanic

/-- `readExtensionSubtable` never panics.

Statement: `∀ {σ : Type} (b : Bytes) (pos : Nat), (LookupList.readExtensionSubtable b pos).noPanic` -/
theorem C02_extension_no_panic : type_of% @LookupList.readExtensionSubtable_noPanic := @LookupList.readExtensionSubtable_noPanic

/-- The TRUE cost of `readLookupList`: the 6000 budget bounds the number of subtable-reader calls, but offsets may alias: ≤ 2·|b| + 6000·(C + K + 3).

Statement: `∀ {σ : Type} (sr : LookupList.Reader σ) (C K : Nat), (∀ (tp p : Nat) (v : LookupList.SubV σ) (d : Cost), sr tp p = Outcome.ok (v, d) → d.steps ≤ C ∧ d.alloc ≤ C) → (∀ (tp p : Nat) (v : LookupList.SubV σ) (d : Cost), sr tp p = Outcome.ok (v, d) → v.isExt → d.steps ≤ K ∧ d.alloc ≤ K) → ∀ (b : Bytes) (pos : Nat) (r : List (LookupList.Lookup σ)) (c : Cost), LookupList.readLookupList sr b pos = Outcome.ok (r, c) → c.steps ≤ 2 * List.length b + 6000 * (C + (K + 3)) ∧ c.alloc ≤ 2 * List.length b + 6000 * (C + (K + 3))` -/
theorem C02_lookuplist_cost_partial : type_of% @LookupList.readLookupList_cost := @LookupList.readLookupList_cost

/-- Known finding C02-gsub-lookup-alias as a theorem: n lookup offsets aliasing ONE lookup cost n subtable reads from 2n + 10 + |tail| bytes.

Statement: `∀ {σ : Type} (sr : LookupList.Reader σ) (n : Nat), n ≤ 3000 → ∀ (tail : Bytes) (v : LookupList.SubV σ) (d : Cost), ¬v.isExt → sr 1 (2 + 2 * n + 8) = Outcome.ok (v, d) → LookupList.readLookupList sr (LookupList.aliasBytes n tail) 0 = Outcome.ok (List.replicate n { type := 1, flags := 0, mfs := 0, subs := [v] }, { steps := 1 + n + n * (3 + d.steps), alloc := 2 * n + n * (4 + d.alloc) })` -/
theorem C02_lookuplist_alias : type_of% @LookupList.lookup_alias_cost := @LookupList.lookup_alias_cost

/-- … hence neither allocation nor steps are proportional to the input.

Statement: `∃ sr b, (∀ (tp p : Nat), (sr tp p).noPanic) ∧ (∀ (tp p : Nat) (v : LookupList.SubV Unit) (d : Cost), sr tp p = Outcome.ok (v, d) → d.steps ≤ 65536 ∧ d.alloc ≤ 65536) ∧ ∃ r c, LookupList.readLookupList sr b 0 = Outcome.ok (r, c) ∧ ¬c.alloc ≤ 4096 * List.length b + 2 ^ 24 ∧ ¬c.steps ≤ 4096 * List.length b + 2 ^ 24` -/
theorem C02_lookuplist_cost_fails : type_of% @LookupList.readLookupList_cost_not_linear := @LookupList.readLookupList_cost_not_linear

/-- Bridge to C08: lookup list reader.

Statement: `∀ (b : Bytes) (ext : Nat), LookupList.erase (LookupList.readLookupList (LookupList.hookReader (LookupList.withCost fun x p => Outcome.ok p) b ext) b 0) = Otl.LL.readLL b ext` -/
theorem C02_lookuplist_agrees : type_of% @LookupList.readLookupList_erase_hook := @LookupList.readLookupList_erase_hook

/-- GSUB 1.1 reader never panics.

Statement: `∀ (b : Bytes) (pos : Nat), (GsubSub.read11 b pos).noPanic` -/
theorem C02_gsub11_no_panic : type_of% @GsubSub.read11_noPanic := @GsubSub.read11_noPanic

/-- GSUB 1.2 reader never panics.

Statement: `∀ (b : Bytes) (pos : Nat), (GsubSub.read12 b pos).noPanic` -/
theorem C02_gsub12_no_panic : type_of% @GsubSub.read12_noPanic := @GsubSub.read12_noPanic

/-- GSUB 2.1 reader never panics.

Statement: `∀ (b : Bytes) (pos : Nat), (GsubSub.read21 b pos).noPanic` -/
theorem C02_gsub21_no_panic : type_of% @GsubSub.read21_noPanic := @GsubSub.read21_noPanic

/-- GSUB 3.1 reader never panics.

Statement: `∀ (b : Bytes) (pos : Nat), (GsubSub.read31 b pos).noPanic` -/
theorem C02_gsub31_no_panic : type_of% @GsubSub.read31_noPanic := @GsubSub.read31_noPanic

/-- GSUB 4.1 reader never panics (componentCount 0 wraps to 65535).

Statement: `∀ (b : Bytes) (pos : Nat), (GsubSub.read41 b pos).noPanic` -/
theorem C02_gsub41_no_panic : type_of% @GsubSub.read41_noPanic := @GsubSub.read41_noPanic

/-- GSUB 8.1 reader never panics.

Statement: `∀ (b : Bytes) (pos : Nat), (GsubSub.read81 b pos).noPanic` -/
theorem C02_gsub81_no_panic : type_of% @GsubSub.read81_noPanic := @GsubSub.read81_noPanic

/-- `readGsubSubtable` with these readers never panics.

Statement: `∀ (tp : Nat) (b : Bytes) (pos : Nat), (GsubSub.readSubtable tp b pos).noPanic` -/
theorem C02_gsub_dispatch_no_panic : type_of% @GsubSub.readSubtable_noPanic := @GsubSub.readSubtable_noPanic

/-- GSUB 1.1: linear plus the coverage cap.

Statement: `∀ (b : Bytes) (pos : Nat) (r : List Nat × Nat) (c : Cost), GsubSub.read11 b pos = Outcome.ok (r, c) → c.steps ≤ List.length b / 2 + 131074 ∧ c.alloc ≤ 131073` -/
theorem C02_gsub11_cost : type_of% @GsubSub.read11_cost := @GsubSub.read11_cost

/-- GSUB 1.2: linear plus the coverage cap.

Statement: `∀ (b : Bytes) (pos : Nat) (r : List (Nat × Nat) × List Nat) (c : Cost), GsubSub.read12 b pos = Outcome.ok (r, c) → c.steps ≤ List.length b + 196612 ∧ c.alloc ≤ List.length b / 2 + 131074` -/
theorem C02_gsub12_cost : type_of% @GsubSub.read12_cost := @GsubSub.read12_cost

/-- GSUB 2.1: TRUE bound (number of sequence offsets) × 65536 — offsets may alias one sequence, no size cap.

Statement: `∀ (b : Bytes) (pos : Nat) (cov : List (Nat × Nat)) (seqs : List (List Nat)) (c : Cost), GsubSub.read21 b pos = Outcome.ok ((cov, seqs), c) → c.steps ≤ List.length b + 196612 + seqs.length * 65537 ∧ c.alloc ≤ List.length b / 2 + 131074 + seqs.length * 65536 ∧ 2 * seqs.length + 6 ≤ List.length b` -/
theorem C02_gsub21_cost_partial : type_of% @GsubSub.read21_cost_count := @GsubSub.read21_cost_count

/-- GSUB 3.1: the same.

Statement: `∀ (b : Bytes) (pos : Nat) (cov : List (Nat × Nat)) (seqs : List (List Nat)) (c : Cost), GsubSub.read31 b pos = Outcome.ok ((cov, seqs), c) → c.steps ≤ List.length b + 196612 + seqs.length * 65537 ∧ c.alloc ≤ List.length b / 2 + 131074 + seqs.length * 65536 ∧ 2 * seqs.length + 6 ≤ List.length b` -/
theorem C02_gsub31_cost_partial : type_of% @GsubSub.read31_cost_count := @GsubSub.read31_cost_count

/-- GSUB 4.1: accepted tables are linear (cap "too large"), but the cap is tested after the work.

Statement: `∀ (b : Bytes) (pos : Nat) (cov : List (Nat × Nat)) (repl : List (List Otl.Gsub.Lig)) (c : Cost), GsubSub.read41 b pos = Outcome.ok ((cov, repl), c) → Otl.Gsub.lig41Total repl ≤ 65535 ∧ c.steps ≤ List.length b + 327682 ∧ c.alloc ≤ List.length b / 2 + 196610` -/
theorem C02_gsub41_cost : type_of% @GsubSub.read41_cost := @GsubSub.read41_cost

/-- GSUB 8.1: TRUE bound (number of coverage offsets) × 65537, no cap (420 bytes allocate 737 MB on the real code).

Statement: `∀ (b : Bytes) (pos : Nat) (r : Otl.Gsub.Rev81) (c : Cost), GsubSub.read81 b pos = Outcome.ok (r, c) → c.steps ≤ 2 * List.length b + 196614 + r.back.length * (List.length b / 2 + 65538) + r.look.length * (List.length b / 2 + 65538) ∧ c.alloc ≤ List.length b + 131074 + (r.back.length + r.look.length) * 65537 ∧ pos + 10 + 2 * r.back.length + 2 * r.look.length ≤ List.length b` -/
theorem C02_gsub81_cost_partial : type_of% @GsubSub.read81_cost := @GsubSub.read81_cost

/-- GSUB 2.1 allocation is not proportional to the input.

Statement: `¬∀ (b : Bytes) (pos : Nat) (r : List (Nat × Nat) × List (List Nat)) (c : Cost), GsubSub.read21 b pos = Outcome.ok (r, c) → c.alloc ≤ 20 * List.length b + 1000` -/
theorem C02_gsub21_cost_fails : type_of% @GsubSub.read21_alloc_not_proportional := @GsubSub.read21_alloc_not_proportional

/-- Bridge to C08.

Statement: `∀ (b : Bytes) (pos : Nat), Otl.erase (GsubSub.read11 b pos) = Otl.Gsub.read11 (List.drop pos b)` -/
theorem C02_gsub11_agrees : type_of% @GsubSub.read11_erase := @GsubSub.read11_erase

/-- Bridge to C08.

Statement: `∀ (b : Bytes) (pos : Nat), Otl.erase (GsubSub.read12 b pos) = Otl.Gsub.read12 (List.drop pos b)` -/
theorem C02_gsub12_agrees : type_of% @GsubSub.read12_erase := @GsubSub.read12_erase

/-- Bridge to C08.

Statement: `∀ (b : Bytes) (pos : Nat), Otl.erase (GsubSub.read21 b pos) = Otl.Gsub.readSeq (List.drop pos b)` -/
theorem C02_gsub21_agrees : type_of% @GsubSub.read21_erase := @GsubSub.read21_erase

/-- Bridge to C08.

Statement: `∀ (b : Bytes) (pos : Nat), Otl.erase (GsubSub.read31 b pos) = Otl.Gsub.readSeq (List.drop pos b)` -/
theorem C02_gsub31_agrees : type_of% @GsubSub.read31_erase := @GsubSub.read31_erase

/-- Bridge to C08.

Statement: `∀ (b : Bytes) (pos : Nat), Otl.erase (GsubSub.read41 b pos) = Otl.Gsub.read41 (List.drop pos b)` -/
theorem C02_gsub41_agrees : type_of% @GsubSub.read41_erase := @GsubSub.read41_erase

/-- Bridge to C08.

Statement: `∀ (b : Bytes) (pos : Nat), Otl.erase (GsubSub.read81 b pos) = Otl.Gsub.read81 (List.drop pos b)` -/
theorem C02_gsub81_agrees : type_of% @GsubSub.read81_erase := @GsubSub.read81_erase

/-- `readNested` never panics for counts below 2^47 (every caller passes a 16-bit word).

Statement: `∀ (b : Bytes) (q count : Nat) (c : Cost), count < 2 ^ 47 → (SeqCtx.readNested b q count c).noPanic` -/
theorem C02_nested_no_panic : type_of% @SeqCtx.readNested_noPanic := @SeqCtx.readNested_noPanic

/-- `readSeqContext1` never panics.

Statement: `∀ (b : Bytes) (q pos : Nat), (SeqCtx.readSeqContext1 b q pos).noPanic` -/
theorem C02_seqctx1_no_panic : type_of% @SeqCtx.readSeqContext1_noPanic := @SeqCtx.readSeqContext1_noPanic

/-- `readSeqContext2` never panics.

Statement: `∀ (b : Bytes) (q pos : Nat), (SeqCtx.readSeqContext2 b q pos).noPanic` -/
theorem C02_seqctx2_no_panic : type_of% @SeqCtx.readSeqContext2_noPanic := @SeqCtx.readSeqContext2_noPanic

/-- `readSeqContext3` never panics.

Statement: `∀ (b : Bytes) (q pos : Nat), (SeqCtx.readSeqContext3 b q pos).noPanic` -/
theorem C02_seqctx3_no_panic : type_of% @SeqCtx.readSeqContext3_noPanic := @SeqCtx.readSeqContext3_noPanic

/-- `readSeqContext1`: TRUE bound is cubic (rule sets × rules × glyphs under aliasing), no cap anywhere.

Statement: `∀ (b : Bytes) (q pos : Nat) (r : SeqCtx.Ctx1) (c : Cost), SeqCtx.readSeqContext1 b q pos = Outcome.ok (r, c) → c.steps ≤ List.length r.sets * (List.length b / 2 * (List.length b / 2) + 1) + 2 * (List.length b / 2) + 196610 ∧ c.alloc ≤ List.length r.sets * (List.length b / 2 * (List.length b / 2) + List.length b / 2) + 2 * (List.length b / 2) + 131074 ∧ List.length r.sets ≤ List.length b / 2 ∧ List.length r.sets ≤ 65536` -/
theorem C02_seqctx1_cost_partial : type_of% @SeqCtx.readSeqContext1_cost := @SeqCtx.readSeqContext1_cost

/-- `readSeqContext2`: accepted tables are linear (cap 0xFFFF on the running total), tested after the loops.

Statement: `∀ (b : Bytes) (q pos : Nat) (r : SeqCtx.Ctx2) (c : Cost), SeqCtx.readSeqContext2 b q pos = Outcome.ok (r, c) → c.steps ≤ 3 * (List.length b / 2) + 458750 ∧ c.alloc ≤ 2 * (List.length b / 2) + 262138 ∧ List.length r.sets ≤ List.length b / 2` -/
theorem C02_seqctx2_cost : type_of% @SeqCtx.readSeqContext2_cost := @SeqCtx.readSeqContext2_cost

/-- `readSeqContext3`: (number of coverages) × (|b|/2 + 131075).

Statement: `∀ (b : Bytes) (q pos : Nat) (r : SeqCtx.Ctx3) (c : Cost), SeqCtx.readSeqContext3 b q pos = Outcome.ok (r, c) → c.steps ≤ r.covs.length * (List.length b / 2 + 131075) + List.length b / 2 ∧ c.alloc ≤ r.covs.length * 131074 + List.length b / 2 ∧ 1 ≤ r.covs.length ∧ r.covs.length ≤ List.length b / 2 ∧ r.covs.length + 2 * r.actions.length + 2 ≤ List.length b / 2` -/
theorem C02_seqctx3_cost_partial : type_of% @SeqCtx.readSeqContext3_cost := @SeqCtx.readSeqContext3_cost

/-- Known finding C02-gsub-context-alias as a theorem.

Statement: `∀ (rules glyphs : Nat), rules < 32760 → 1 ≤ glyphs → glyphs < 65536 → ∃ r c, SeqCtx.readSeqContext1 (SeqCtx.aliased rules glyphs) 28 26 = Outcome.ok (r, c) ∧ c.alloc ≥ rules * glyphs ∧ c.alloc ≥ rules * (glyphs - 1) ∧ c.steps ≥ rules * glyphs ∧ List.length (SeqCtx.aliased rules glyphs) = 44 + 2 * rules + 2 * glyphs` -/
theorem C02_seqctx1_alias : type_of% @SeqCtx.seqContext1_alias_cost := @SeqCtx.seqContext1_alias_cost

/-- … hence the allocation clause fails for `readSeqContext1`.

Statement: `¬∀ (b : Bytes) (q pos : Nat) (r : SeqCtx.Ctx1) (c : Cost), SeqCtx.readSeqContext1 b q pos = Outcome.ok (r, c) → c.alloc ≤ 4096 * List.length b + 16777216` -/
theorem C02_seqctx1_cost_fails : type_of% @SeqCtx.readSeqContext1_alloc_not_linear := @SeqCtx.readSeqContext1_alloc_not_linear

/-- Bridge to C08: format 3 (formats 1 and 2 are bridged at rule level only).

Statement: `∀ (b : Bytes) (pos : Nat), SeqCtx.erase3 (SeqCtx.readSeqContext3 b (pos + 2) pos) = Otl.Ctx.read3 (List.drop pos b)` -/
theorem C02_seqctx3_agrees : type_of% @SeqCtx.readSeqContext3_erase := @SeqCtx.readSeqContext3_erase

/-- `readChainedSeqContext1` never panics (inputGlyphCount 0 wraps to 65535).

Statement: `∀ (b : Bytes) (pos : Nat), (ChainCtx.read1 b pos).noPanic` -/
theorem C02_chain1_no_panic : type_of% @ChainCtx.readChainedSeqContext1_noPanic := @ChainCtx.readChainedSeqContext1_noPanic

/-- `readChainedSeqContext2` never panics.

Statement: `∀ (b : Bytes) (pos : Nat), (ChainCtx.read2 b pos).noPanic` -/
theorem C02_chain2_no_panic : type_of% @ChainCtx.readChainedSeqContext2_noPanic := @ChainCtx.readChainedSeqContext2_noPanic

/-- `readChainedSeqContext3` never panics (incl. the transitive explicit panic in coverage encInfo).

Statement: `∀ (b : Bytes) (pos : Nat), (ChainCtx.read3 b pos).noPanic` -/
theorem C02_chain3_no_panic : type_of% @ChainCtx.readChainedSeqContext3_noPanic := @ChainCtx.readChainedSeqContext3_noPanic

/-- Format 1 is genuinely linear: the caps sit inside the loops and count every visit.

Statement: `∀ (b : Bytes) (pos : Nat) (r : ChainCtx.Sub) (c : Cost), ChainCtx.read1 b pos = Outcome.ok (r, c) → c.steps ≤ List.length b + List.length b / 2 + 589824 ∧ c.alloc ≤ List.length b + 458749` -/
theorem C02_chain1_cost : type_of% @ChainCtx.readChainedSeqContext1_cost := @ChainCtx.readChainedSeqContext1_cost

/-- Format 2: accepted tables are linear; the size pass comes after the allocations.

Statement: `∀ (b : Bytes) (pos : Nat) (r : ChainCtx.Sub) (c : Cost), ChainCtx.read2 b pos = Outcome.ok (r, c) → c.steps ≤ 4 * List.length b + 1376259 ∧ c.alloc ≤ List.length b + 589824` -/
theorem C02_chain2_cost : type_of% @ChainCtx.readChainedSeqContext2_cost := @ChainCtx.readChainedSeqContext2_cost

/-- Format 3: (number of coverage offsets) × 131072 — offsets may alias one coverage table.

Statement: `∀ (b : Bytes) (pos : Nat) (cb ci cl : List (List Nat)) (acts : List ChainCtx.Action) (ch : Bool) (c : Cost), ChainCtx.read3 b pos = Outcome.ok (Otl.Ctx.Sub.c3 cb ci cl acts ch, c) → 2 * (cb.length + ci.length + cl.length) + 10 ≤ List.length b ∧ c.steps ≤ List.length b + (cb.length + ci.length + cl.length) * (List.length b / 2 + 131074) ∧ c.alloc ≤ List.length b + (cb.length + ci.length + cl.length) * 131072` -/
theorem C02_chain3_cost_partial : type_of% @ChainCtx.readChainedSeqContext3_cost := @ChainCtx.readChainedSeqContext3_cost

/-- Before a1a65e4 (patches/C02/06) inputGlyphCount = 0 was accepted as a 65535-glyph input sequence when the data was there (stated about the pre-repair rule reader).

Statement: `∀ (S : ChainCtx.RuleSites) (b : Bytes) (q : Nat) (c : Cost) (post : Bytes), List.drop q b = [0, 0, 0, 0] ++ (List.replicate (2 * 65535) 0 ++ 0 :: 0 :: 0 :: 0 :: post) → ∃ c', ChainCtx.readCRuleOld S b q c = Outcome.ok ({ back := [], input := List.replicate 65535 0, look := [], actions := [] }, c') ∧ c'.alloc = c.alloc + 65535 + 1` -/
theorem C02_chain_zero_count : type_of% @ChainCtx.chained1_zero_count_accepted := @ChainCtx.chained1_zero_count_accepted

/-- Bridge to C08.

Statement: `∀ (b : Bytes) (pos : Nat), Otl.erase (ChainCtx.read1 b pos) = Otl.Ctx.readC1 (List.drop pos b)` -/
theorem C02_chain1_agrees : type_of% @ChainCtx.readChainedSeqContext1_erase := @ChainCtx.readChainedSeqContext1_erase

/-- Bridge to C08.

Statement: `∀ (b : Bytes) (pos : Nat), Otl.erase (ChainCtx.read2 b pos) = Otl.Ctx.readC2 (List.drop pos b)` -/
theorem C02_chain2_agrees : type_of% @ChainCtx.readChainedSeqContext2_erase := @ChainCtx.readChainedSeqContext2_erase

/-- Bridge to C08.

Statement: `∀ (b : Bytes) (pos : Nat), Otl.erase (ChainCtx.read3 b pos) = Otl.Ctx.readC3 (List.drop pos b)` -/
theorem C02_chain3_agrees : type_of% @ChainCtx.readChainedSeqContext3_erase := @ChainCtx.readChainedSeqContext3_erase

/-- GPOS 1.1 reader never panics.

Statement: `∀ (b : Bytes) (pos : Nat), (GposSub.read11 b pos).noPanic` -/
theorem C02_gpos11_no_panic : type_of% @GposSub.read11_noPanic := @GposSub.read11_noPanic

/-- GPOS 1.2 reader never panics.

Statement: `∀ (b : Bytes) (pos : Nat), (GposSub.read12 b pos).noPanic` -/
theorem C02_gpos12_no_panic : type_of% @GposSub.read12_noPanic := @GposSub.read12_noPanic

/-- GPOS 2.1 reader never panics.

Statement: `∀ (b : Bytes) (pos : Nat), (GposSub.read21 b pos).noPanic` -/
theorem C02_gpos21_no_panic : type_of% @GposSub.read21_noPanic := @GposSub.read21_noPanic

/-- GPOS 2.2 reader never panics.

Statement: `∀ (b : Bytes) (pos : Nat), (GposSub.read22 b pos).noPanic` -/
theorem C02_gpos22_no_panic : type_of% @GposSub.read22_noPanic := @GposSub.read22_noPanic

/-- GPOS 3.1 reader never panics.

Statement: `∀ (b : Bytes) (pos : Nat), (GposSub.read31 b pos).noPanic` -/
theorem C02_gpos31_no_panic : type_of% @GposSub.read31_noPanic := @GposSub.read31_noPanic

/-- `readGposSubtable` with these readers never panics.

Statement: `∀ (b : Bytes) (pos tp : Nat), (GposSub.readSubtable b pos tp).noPanic` -/
theorem C02_gpos_dispatch_no_panic : type_of% @GposSub.readSubtable_noPanic := @GposSub.readSubtable_noPanic

/-- `anchor.Read` never panics.

Statement: `∀ (b : Bytes) (pos : Nat), (GposSub.anchorRead b pos).noPanic` -/
theorem C02_anchor_no_panic : type_of% @GposSub.anchorRead_noPanic := @GposSub.anchorRead_noPanic

/-- `markarray.Read` never panics, for every numMarks.

Statement: `∀ (b : Bytes) (pos : Nat) (numMarks : Int), (GposSub.markarrayRead b pos numMarks).noPanic` -/
theorem C02_markarray_no_panic : type_of% @GposSub.markarrayRead_noPanic := @GposSub.markarrayRead_noPanic

/-- GPOS 1.1: constant plus the coverage cap.

Statement: `∀ (b : Bytes) (pos : Nat) (r : List (Nat × Nat) × GposSub.VR) (c : Cost), GposSub.read11 b pos = Outcome.ok (r, c) → c.steps ≤ List.length b / 2 + 65547 ∧ c.alloc ≤ 65539` -/
theorem C02_gpos11_cost : type_of% @GposSub.read11_cost := @GposSub.read11_cost

/-- GPOS 1.2: capped by valueCount.

Statement: `∀ (b : Bytes) (pos : Nat) (r : List (Nat × Nat) × List GposSub.VR) (c : Cost), GposSub.read12 b pos = Outcome.ok (r, c) → c.steps ≤ List.length b / 2 + 720890 ∧ c.alloc ≤ 196608` -/
theorem C02_gpos12_cost : type_of% @GposSub.read12_cost := @GposSub.read12_cost

/-- GPOS 2.1: TRUE bound QUADRATIC under aliased pair-set offsets (4 KB → 110 MB on the real code).

Statement: `∀ (b : Bytes) (pos : Nat) (r : List (Nat × Nat) × List GposSub.PairSet) (c : Cost), GposSub.read21 b pos = Outcome.ok (r, c) → ∃ N, N < 65536 ∧ 2 * N ≤ List.length b ∧ c.steps ≤ N * (19 * (List.length b / 2) + 4) + List.length b / 2 + 131075 ∧ c.alloc ≤ N * (5 * (List.length b / 2) + 2) + 65538` -/
theorem C02_gpos21_cost_partial : type_of% @GposSub.read21_cost_n := @GposSub.read21_cost_n

/-- GPOS 2.2: capped (class1Count × class2Count < 65536 is checked before the make).

Statement: `∀ (b : Bytes) (pos : Nat) (r : List Nat × List (Nat × Nat) × List (Nat × Nat) × List (List (GposSub.VR × GposSub.VR))) (c : Cost), GposSub.read22 b pos = Outcome.ok (r, c) → c.steps ≤ 3 * (List.length b / 2) + 1441780 ∧ c.alloc ≤ 589822` -/
theorem C02_gpos22_cost : type_of% @GposSub.read22_cost := @GposSub.read22_cost

/-- GPOS 3.1: linear plus the coverage cap.

Statement: `∀ (b : Bytes) (pos : Nat) (r : List (Nat × Nat) × List (GposSub.Anchor × GposSub.Anchor)) (c : Cost), GposSub.read31 b pos = Outcome.ok (r, c) → c.steps ≤ 5 * (List.length b / 4) + List.length b / 2 + 131075 ∧ c.alloc ≤ 3 * (List.length b / 4) + 65538` -/
theorem C02_gpos31_cost : type_of% @GposSub.read31_cost := @GposSub.read31_cost

/-- `markarray.Read` is linear.

Statement: `∀ (b : Bytes) (pos : Nat) (numMarks : Int) (r : List (Nat × GposSub.Anchor)) (c : Cost), GposSub.markarrayRead b pos numMarks = Outcome.ok (r, c) → c.steps ≤ 5 * (List.length b / 4) + 1 ∧ c.alloc ≤ 2 * (List.length b / 4)` -/
theorem C02_markarray_cost : type_of% @GposSub.markarrayRead_cost := @GposSub.markarrayRead_cost

/-- Bridge to C08.

Statement: `∀ (b : Bytes) (pos : Nat), Otl.erase (GposSub.read11 b pos) = Otl.Gpos.read11 (List.drop pos b)` -/
theorem C02_gpos11_agrees : type_of% @GposSub.read11_erase := @GposSub.read11_erase

/-- Bridge to C08.

Statement: `∀ (b : Bytes) (pos : Nat), Otl.erase (GposSub.read12 b pos) = Otl.Gpos.read12 (List.drop pos b)` -/
theorem C02_gpos12_agrees : type_of% @GposSub.read12_erase := @GposSub.read12_erase

/-- Since 8867078 (lookup types and formats above 9 are refused) the GSUB dispatcher agrees with C08's `Gsub.readSubtable` on every input for every lookup type other than 5, 6, 7 (no condition on the format word).

Statement: `∀ (tp : Nat) (b : Bytes) (pos : Nat), tp ≠ 5 → tp ≠ 6 → tp ≠ 7 → Otl.erase (GsubSub.readSubtable tp b pos) = Otl.Gsub.readSubtable tp (List.drop pos b)` -/
theorem C02_gsub_dispatch_agrees : type_of% @GsubSub.readSubtable_erase := @GsubSub.readSubtable_erase

/-- Before 8867078 the reader key 10·LookupType+format, computed in uint16, collided: type 1 format 11 was decoded as GSUB 2.1, type 6560 format 7 reached the extension reader.

Statement: `(GsubSub.readSubtableOld 1 [0, 11, 0, 6, 0, 0, 0, 1, 0, 0] 0).isOk = true ∧ GsubSub.errOf (GsubSub.readSubtableOld 4 [0, 11] 0) = some "foreign" ∧ GsubSub.errOf (GsubSub.readSubtableOld 6560 [0, 7] 0) = some "foreign"` -/
theorem C02_gsub_dispatch_unrepaired_collision : type_of% @GsubSub.readSubtableOld_key_collision := @GsubSub.readSubtableOld_key_collision

/-- Lookup type 6: the dispatcher + chained readers equal C08's `Ctx.readSubtable 6` on every input (the former format-word side condition is gone).

Statement: `∀ (b : Bytes) (pos : Nat), Otl.erase (ChainCtx.readChained b pos) = Otl.Ctx.readSubtable 6 (List.drop pos b)` -/
theorem C02_chain_dispatch_agrees : type_of% @ChainCtx.readChained_erase := @ChainCtx.readChained_erase

/-- Lookup type 5: the dispatcher equals C08's `Ctx.readSubtable 5` for format 3, every invalid format word and a missing format word (formats 1 and 2 lack the top-level bridge).

Statement: `∀ (b : Bytes) (pos : Nat), Otl.wordAt b pos ≠ some 1 → Otl.wordAt b pos ≠ some 2 → SeqCtx.eraseSub (SeqCtx.gsub5 b pos) = Otl.Ctx.readSubtable 5 (List.drop pos b)` -/
theorem C02_seqctx_dispatch_agrees : type_of% @SeqCtx.gsub5_erase := @SeqCtx.gsub5_erase

/-- GPOS lookup type 1: the dispatcher equals C08's `Gpos.readSubtable 1` on every input.

Statement: `∀ (b : Bytes) (pos : Nat), Otl.mapOk GposSub.toC08 (Otl.erase (GposSub.readSubtable b pos 1)) = Otl.mapOk some (Otl.Gpos.readSubtable 1 (List.drop pos b))` -/
theorem C02_gpos_dispatch_agrees : type_of% @GposSub.readSubtable_erase_type1 := @GposSub.readSubtable_erase_type1

/-- Since 8867078 no extension subtable is left in a successfully read GSUB lookup list (so `Context.Apply`'s "unreachable" branch for extension subtables cannot be reached from decoded tables).

Statement: `∀ {σ : Type} (sub : LookupList.SubReaders σ) (b : Bytes) (pos : Nat) (r : List (LookupList.Lookup σ)) (c : Cost), LookupList.readLookupList (LookupList.gsubReader sub b) b pos = Outcome.ok (r, c) → ∀ (l : LookupList.Lookup σ), l ∈ r → ∀ (s : LookupList.SubV σ), s ∈ l.subs → ¬s.isExt` -/
theorem C02_lookuplist_no_ext_ext : type_of% @LookupList.dispatch_no_ext_ext := @LookupList.dispatch_no_ext_ext

/-- The same for GPOS lookup lists.

Statement: `∀ {σ : Type} (sub : LookupList.SubReaders σ) (b : Bytes) (pos : Nat) (r : List (LookupList.Lookup σ)) (c : Cost), LookupList.readLookupList (LookupList.gposReader sub b) b pos = Outcome.ok (r, c) → ∀ (l : LookupList.Lookup σ), l ∈ r → ∀ (s : LookupList.SubV σ), s ∈ l.subs → ¬s.isExt` -/
theorem C02_lookuplist_no_ext_ext_gpos : type_of% @LookupList.dispatch_no_ext_ext_gpos := @LookupList.dispatch_no_ext_ext_gpos

/-- The 42-byte input of the repaired finding C02-lookuplist-ext-ext is now refused as invalid.

Statement: `∀ {σ : Type} (sub : LookupList.SubReaders σ), LookupList.readLookupList (LookupList.gsubReader sub LookupList.extExtBytes) LookupList.extExtBytes 0 = Outcome.err "invalid"` -/
theorem C02_lookuplist_ext_ext_rejected : type_of% @LookupList.ext_ext_rejected := @LookupList.ext_ext_rejected

/-- GPOS 5.1 reader (as repaired by 33f30d8: component records read properly) never panics, for every byte string and position.

Statement: `∀ (b : Bytes) (pos : Nat), (GposSub.read51 b pos).noPanic` -/
theorem C02_gpos51_no_panic : type_of% @GposSub.read51_noPanic := @GposSub.read51_noPanic

/-- GPOS 5.1: TRUE bound ligCount × 163830 steps / 131065 elements — LigatureAttach offsets may alias one table, and with markClassCount = 0 the size cap does not bound componentCount (known finding C02-gpos51-alias: 260 bytes allocate 150 MiB).

Statement: `∀ (b : Bytes) (pos : Nat) (r : List (Nat × Nat) × List (Nat × Nat) × List (Nat × GposSub.Anchor) × List (List (List GposSub.Anchor))) (c : Cost), GposSub.read51 b pos = Outcome.ok (r, c) → ∃ L, L < 65536 ∧ 2 * L ≤ List.length b ∧ c.steps ≤ L * 163830 + 2 * (List.length b / 2) + 5 * (List.length b / 4) + 262151 ∧ c.alloc ≤ L * 131065 + 2 * (List.length b / 4) + 131075` -/
theorem C02_gpos51_cost_partial : type_of% @GposSub.read51_cost_n := @GposSub.read51_cost_n

/-- Before 33f30d8 `readGpos5_1` indexed the per-ligature offset array with the mark class: a 40-byte subtable with markClassCount 2 > ligCount 1 panics at gpos5.go:109 in the model of the old code; the repaired reader returns an error.

Statement: `List.length GposSub.ex51old = 40 ∧ GposSub.panicSite (GposSub.read51Old GposSub.ex51old 0) = "gpos5.go:109#offsets[j]" ∧ GposSub.errOf (GposSub.read51 GposSub.ex51old 0) = "io"` -/
theorem C02_gpos51_unrepaired_panics : type_of% @GposSub.read51Old_panics := @GposSub.read51Old_panics

end SfntV.Props.C02B
