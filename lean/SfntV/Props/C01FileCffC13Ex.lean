/-
C01, byte level, OpenType/CFF with the CFF table through C13: the example font of
Props/C01FileCffC13.lean is in the domain (non-vacuity of `C01_file_roundtrip_cff_c13`).
-/
import SfntV.Props.C01FileCffC13
import SfntV.Props.C01FileLayoutEx

namespace SfntV.Props.C01
open SfntV SfntV.Font SfntV.FontFile SfntV.Otl

/-- C13's writer produces the example table -/
theorem exFontIn_writes : Cff.writeFont exCffTables.std.toList exFontIn = .ok (exCffBytesC13, 3) := by
  decide +kernel

theorem c13ex_realDom_default : Cff.RealDom (false, 39625, -6) :=
  Or.inr ⟨by decide, by decide, by decide, by decide, by decide⟩
theorem c13ex_realDom_zero : Cff.RealDom Cff.Rl.zero := Or.inl ⟨rfl, rfl, rfl⟩
theorem c13ex_realDom_milli : Cff.RealDom (false, 1, -3) :=
  Or.inr ⟨by decide, by decide, by decide, by decide, by decide⟩
theorem c13ex_realDom_angle : Cff.RealDom (true, 12, 0) :=
  Or.inr ⟨by decide, by decide, by decide, by decide, by decide⟩

/-- every character of the glyph names and the FontInfo strings is below 256 (bounded quantifiers) -/
theorem c13ex_latin : ∀ s ∈ exFontIn.names ++ exFontIn.strs, ∀ c ∈ s.toList, c.toNat < 256 := by
  decide +kernel

/-- the example `cff.Font` is in C13's domain -/
theorem exFontIn_dom : Cff.SimpleDom exCffTables.std.toList exFontIn exPrivIn where
  ros := rfl
  privs := rfl
  enc := by intro e he; cases he
  top := { ulPos := by simp [exFontIn, Cff.ValidOperand], ulThick := by simp [exFontIn, Cff.ValidOperand],
           angle := c13ex_realDom_angle,
           fm := by
             intro x hx
             simp [exFontIn, Cff.defaultFM] at hx
             rcases hx with rfl | rfl | rfl | rfl <;> first | exact c13ex_realDom_milli | exact c13ex_realDom_zero }
  priv := fun sub hs => { bv := by decide, ob := by intro x hx; simp [exPrivIn] at hx,
                          bs := by decide, bf := by decide, dw := by decide, nw := by decide, sub := hs,
                          scale := c13ex_realDom_default, hw := c13ex_realDom_zero, vw := c13ex_realDom_zero }
  nameLen := by decide
  nGlyphs := rfl
  nPos := by decide
  nMax := by decide +kernel
  csBody := by decide +kernel
  notdef := by decide +kernel
  latin := fun s hs => c13ex_latin s (List.mem_append.mpr hs)
  fmLen := rfl

/-- the view of C13's normal form is the example payload -/
theorem exFontIn_view : viewOf exSem (Cff.nfSimple exCffTables exFontIn exPrivIn) = .ok exCffFontC.payload := by
  decide +kernel

theorem c13ex_ne : exCffBytesC13 ≠ [] := by unfold exCffBytesC13; exact List.cons_ne_nil _ _

theorem c13ex_len : exCffBytesC13.length < 2147483648 := by decide +kernel

/-- `metaOfCff` does not look at the CFF bytes, so `lex_nameEncodeC` applies verbatim -/
theorem c13ex_nameEncode :
    Names.nameEncode (nameEntries (deriveName exEnvF.env (metaOfCff exCffFontC))) 1 =
      Names.encodeBytes
        (Names.nameBuild (Names.sortLangs Gen.appleBCP) (Names.sortLangs Gen.msBCP)
          (nameEntries (deriveName exEnvF.env (metaOfCff exCffFontL))) 1).2
        (Names.nameBuild (Names.sortLangs Gen.appleBCP) (Names.sortLangs Gen.msBCP)
          (nameEntries (deriveName exEnvF.env (metaOfCff exCffFontL))) 1).1.data := lex_nameEncodeC

/-- the file-size guard, recomputed for the 138-byte CFF table -/
theorem c13ex_size :
    ∀ ts, writeTablesCff exEnvF exCffFontC = .ok ts → Header.fileSize (Header.named ts) < 4294967296 := by
  have : (match writeTablesCff exEnvF exCffFontC with
      | .ok ts => Header.fileSize (Header.named ts) | _ => 0) < 4294967296 := by
    unfold writeTablesCff
    simp only []
    rw [c13ex_nameEncode]
    decide +kernel
  intro ts h; rw [h] at this; exact this

/-- the guards that do not look at the CFF bytes are those of `C01_file_example_cff_layout_in_domain`
(`exCffFontC` differs from `exCffFontL` in `cffBytes` only) -/
theorem c13ex_core : InDomainFileCffL (fun _ => .ok exCffFontC.payload) exEnvF exCffFontC where
  core :=
    { cff := ⟨c13ex_ne, rfl⟩
      cffInfo := C01_file_example_cff_layout_in_domain.core.cffInfo
      count := C01_file_example_cff_layout_in_domain.core.count
      extentsLen := C01_file_example_cff_layout_in_domain.core.extentsLen
      extents := C01_file_example_cff_layout_in_domain.core.extents
      head := C01_file_example_cff_layout_in_domain.core.head
      ctime := C01_file_example_cff_layout_in_domain.core.ctime
      mtime := C01_file_example_cff_layout_in_domain.core.mtime
      os2 := C01_file_example_cff_layout_in_domain.core.os2
      ascent := C01_file_example_cff_layout_in_domain.core.ascent
      descent := C01_file_example_cff_layout_in_domain.core.descent
      lineGap := C01_file_example_cff_layout_in_domain.core.lineGap
      caret := C01_file_example_cff_layout_in_domain.core.caret
      name := C01_file_example_cff_layout_in_domain.core.name
      cmap := C01_file_example_cff_layout_in_domain.core.cmap
      gdef := C01_file_example_cff_layout_in_domain.core.gdef
      gsub := C01_file_example_cff_layout_in_domain.core.gsub
      gpos := C01_file_example_cff_layout_in_domain.core.gpos
      version := C01_file_example_cff_layout_in_domain.core.version
      size := c13ex_size }
  layout := C01_file_example_cff_layout_in_domain.layout

theorem C01_file_example_cff_c13_in_domain : InDomainFileCffC13 exCffTables exSem exEnvF exCffFontC where
  core := c13ex_core
  table := ⟨exFontIn, 3, exFontIn_writes, c13ex_len, Or.inl ⟨exPrivIn, exFontIn_dom, exFontIn_view⟩⟩

/-- the example font is written (1236 bytes) and read back through C13's CFF reader and C08's GSUB reader -/
theorem C01_file_example_cff_c13 :
    ∃ b, writeFileCff exEnvF exCffFontC = .ok b ∧
      readFileCff layoutDec (decCffC13 exCffTables exSem) (fun _ _ => 0) b = .ok (nfFileCff exCffFontC) :=
  C01_file_roundtrip_cff_c13 exCffTables exSem exEnvF (fun _ _ => 0) exCffFontC C01_file_example_cff_c13_in_domain

end SfntV.Props.C01
