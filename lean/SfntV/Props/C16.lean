/-
C16 — a font that is not being modified is safe for concurrent use.

What is PROVED here is purity and confinement on the footprint / interleaving model of
Model/Conc.lean: operations whose writes are confined to memory they allocate themselves, and
whose results depend only on the shared part of the store, commute with everything — every
interleaving of any number of threads leaves the shared store unchanged and gives each call the
result it gives when run alone.  What ties this to /repo is (i) the regenerated inventories of
writes to package-level state, receiver-field writes and synchronisation primitives
(`C16_no_shared_writes_inventory`), and (ii) the harness streams `conc.pure` / `conc.parallel` /
`conc.race`, which OBSERVE on the real code that each listed operation is confined (deep hash of
the font graph and package tables) and that concurrent results equal sequential ones, also under
the race detector.  Data-race freedom in the sense of the Go memory model is not a Lean theorem.
Only property theorems and non-vacuity examples live here; lemmas are in Proofs/Conc.
-/
import SfntV.Proofs.Conc
import SfntV.Generated.Conc

namespace SfntV.Props.C16
open SfntV SfntV.Conc

/-- **Every interleaving, any prefix.**  `ts` is any list of threads (any number, any length)
all of whose atomic steps are confined w.r.t. the shared set `S`; `sched` is ANY schedule (a list
of thread indices: arbitrary context switches, unfair, possibly incomplete).  Then after running
`sched` from `σ0` the shared part of the store is exactly as in `σ0`, and every thread is in
exactly the state (remaining program, local state, results returned so far) it reaches when it
runs ALONE on `σ0` for as many steps as it was scheduled. -/
theorem C16_commute (S : Loc → Bool) (ts : List Thread) (hts : ∀ t ∈ ts, ThreadConfined S t)
    (σ0 : Store) (sched : List Nat) :
    Agree S (exec sched ⟨σ0, ts⟩).σ σ0 ∧
    ∀ i, (exec sched ⟨σ0, ts⟩).ts[i]? =
      ts[i]?.bind (fun t => (alone σ0 (sched.count i) t).ts[0]?) := by
  obtain ⟨h1, h2⟩ := exec_eq_frozen S σ0 sched ⟨σ0, ts⟩ hts (Agree.refl S σ0)
  refine ⟨h1, fun i => ?_⟩
  rw [h2, execF_get]
  cases h : ts[i]? with
  | none => rfl
  | some t =>
    have ht : ThreadConfined S t := hts t (List.mem_of_getElem? h)
    have ha := (exec_eq_frozen S σ0 (List.replicate (sched.count i) 0) ⟨σ0, [t]⟩
      (fun u hu => by rw [List.mem_singleton] at hu; rw [hu]; exact ht) (Agree.refl S σ0)).2
    simp only [Option.map_some, Option.bind_some, alone]
    rw [ha, execF_get]
    simp [List.count_replicate_self]

/-- **Every complete interleaving returns the stand-alone results.**  `progs` gives, for each of
any number of goroutines, the sequence of operations it performs; every operation is confined.
For EVERY schedule that runs all of them to completion: the shared store is unchanged, and the
list of results of goroutine `i` is exactly `resultAlone σ0 op` for each of its operations —
what that operation returns when it is the only thing running, started on the initial store. -/
theorem C16_results (S : Loc → Bool) (progs : List (List Op))
    (h : ∀ ops ∈ progs, ∀ op ∈ ops, OpConfined S op) (σ0 : Store) (sched : List Nat)
    (hdone : (exec sched ⟨σ0, progs.map Thread.ofOps⟩).done) :
    Agree S (exec sched ⟨σ0, progs.map Thread.ofOps⟩).σ σ0 ∧
    (exec sched ⟨σ0, progs.map Thread.ofOps⟩).ts =
      progs.map (fun ops => ⟨[], [], ops.map (resultAlone σ0)⟩) := by
  have hts : ∀ t ∈ progs.map Thread.ofOps, ThreadConfined S t := by
    intro t ht
    obtain ⟨ops, hops, rfl⟩ := List.mem_map.1 ht
    exact compile_confined S ops (h ops hops)
  obtain ⟨h1, h2⟩ := exec_eq_frozen S σ0 sched ⟨σ0, progs.map Thread.ofOps⟩ hts (Agree.refl S σ0)
  refine ⟨h1, ?_⟩
  apply List.ext_getElem?
  intro i
  have hi := h2 ▸ execF_get σ0 sched (progs.map Thread.ofOps) i
  rw [hi]
  simp only [List.getElem?_map]
  cases hp : progs[i]? with
  | none => rfl
  | some ops =>
    simp only [Option.map_some]
    have hmem : iter (stepF σ0) (sched.count i) (Thread.ofOps ops) ∈
        (exec sched ⟨σ0, progs.map Thread.ofOps⟩).ts := by
      apply List.mem_of_getElem? (i := i)
      rw [hi]; simp [hp]
    have hfin := hdone _ hmem
    have hfull := iter_compile σ0 ops []
    have huniq := iter_done_unique σ0 (Thread.ofOps ops) (sched.count i) (compile ops).length hfin
      (by unfold Thread.ofOps; rw [hfull])
    rw [huniq]
    unfold Thread.ofOps
    rw [hfull]
    have hops := h ops (List.mem_of_getElem? hp)
    have : ops.map (fun op => frozenAcc σ0 op []) = ops.map (resultAlone σ0) :=
      List.map_congr_left (fun op hop => (resultAlone_eq_frozen S σ0 op (hops op hop)).symm)
    simp [this]

/-- **Every interleaving is equivalent to every serial order**: any two schedules that run the
same confined threads to completion (in particular an arbitrary interleaving and any serial
order) end with identical thread states — hence identical results — and the same shared store. -/
theorem C16_serial_equiv (S : Loc → Bool) (ts : List Thread) (hts : ∀ t ∈ ts, ThreadConfined S t)
    (σ0 : Store) (s₁ s₂ : List Nat)
    (h₁ : (exec s₁ ⟨σ0, ts⟩).done) (h₂ : (exec s₂ ⟨σ0, ts⟩).done) :
    (exec s₁ ⟨σ0, ts⟩).ts = (exec s₂ ⟨σ0, ts⟩).ts ∧
    Agree S (exec s₁ ⟨σ0, ts⟩).σ (exec s₂ ⟨σ0, ts⟩).σ := by
  obtain ⟨a1, e1⟩ := exec_eq_frozen S σ0 s₁ ⟨σ0, ts⟩ hts (Agree.refl S σ0)
  obtain ⟨a2, e2⟩ := exec_eq_frozen S σ0 s₂ ⟨σ0, ts⟩ hts (Agree.refl S σ0)
  refine ⟨?_, a1.trans a2.symm⟩
  apply List.ext_getElem?
  intro i
  have g1 := e1 ▸ execF_get σ0 s₁ ts i
  have g2 := e2 ▸ execF_get σ0 s₂ ts i
  rw [g1, g2]
  cases ht : ts[i]? with
  | none => rfl
  | some t =>
    simp only [Option.map_some, Option.some.injEq]
    apply iter_done_unique
    · apply h₁; apply List.mem_of_getElem? (i := i); rw [g1, ht]; rfl
    · apply h₂; apply List.mem_of_getElem? (i := i); rw [g2, ht]; rfl

/-- **Complete schedules are plentiful**: for confined threads, ANY schedule that gives every
thread at least as many turns as it has instructions — every serial order, every fair
interleaving — runs everything to completion, so the hypothesis `done` of `C16_results` and
`C16_serial_equiv` is met by all of them. -/
theorem C16_complete_of_counts (S : Loc → Bool) (ts : List Thread)
    (hts : ∀ t ∈ ts, ThreadConfined S t) (σ0 : Store) (sched : List Nat)
    (h : ∀ i t, ts[i]? = some t → t.prog.length ≤ sched.count i) :
    (exec sched ⟨σ0, ts⟩).done :=
  done_of_counts S ts hts σ0 sched h

/-- **A confined operation is pure on the shared state** (`op s = (s, out)` on the shared part):
run alone from any store, it returns the shared part unchanged, and its result is a function of
the shared part only. -/
theorem C16_confined (S : Loc → Bool) (op : Op) (hop : OpConfined S op) :
    SemConfined S (fun σ => runOp σ op []) := by
  constructor
  · intro σ
    exact (runOp_confined S σ op hop σ [] (Agree.refl S σ)).1
  · intro σ σ' ha
    rw [(runOp_confined S σ' op hop σ [] ha).2, (runOp_confined S σ' op hop σ' [] (Agree.refl S σ')).2]

/-- **Sequences of confined operations are confined**: if `f` and `g` return the shared state
unchanged with results depending only on it, so does "`f`, then `g`". -/
theorem C16_confined_compose (S : Loc → Bool) (f g : Sem) (hf : SemConfined S f)
    (hg : SemConfined S g) : SemConfined S (f.seq g) := by
  constructor
  · intro σ
    exact (hg.1 (f σ).1).trans (hf.1 σ)
  · intro σ σ' ha
    have h1 : Agree S (f σ).1 (f σ').1 := ((hf.1 σ).trans ha).trans (hf.1 σ').symm
    simp only [Sem.seq]
    rw [hf.2 σ σ' ha, hg.2 _ _ h1]

/-- the same at the level of step lists: concatenating confined operations gives a confined one -/
theorem C16_confined_append (S : Loc → Bool) (op₁ op₂ : Op) (h₁ : OpConfined S op₁)
    (h₂ : OpConfined S op₂) : OpConfined S (op₁ ++ op₂) := by
  intro a ha
  rcases List.mem_append.1 ha with h | h
  · exact h₁ a h
  · exact h₂ a h

/-- The abstract stand-in for a read-only operation (read every shared location, write a digest
to a fresh one) is confined, for every size of the shared part and every fresh slot. -/
theorem C16_digest_confined (n k : Nat) : OpConfined (below n) (digestOp n k) := by
  intro a ha
  simp only [digestOp, List.mem_append, List.mem_map, List.mem_range, List.mem_singleton] at ha
  rcases ha with ⟨l, hl, rfl⟩ | rfl
  · refine ⟨fun acc vals w hw => by simp at hw, fun acc σ σ' hag => ?_⟩
    have : σ l = σ' l := hag l (by simp [below, hl])
    simp [this]
  · refine ⟨fun acc vals w hw => ?_, fun acc σ σ' _ => rfl⟩
    simp only [List.mem_singleton] at hw
    subst hw
    simp [below]

/-- **The hypothesis is needed.**  `incrOp` reads shared location 0 and then writes it (load;
store load+1): it is not confined, and two threads running it admit two complete schedules — a
serial one and an interleaved one — with different results and different final shared state; in
the interleaved one an update is lost, in the serial one the second call does not return what it
returns when run alone on the initial store. -/
theorem C16_hypothesis_needed :
    let σ0 : Store := fun _ => 0
    let ts := [Thread.ofOps [incrOp], Thread.ofOps [incrOp]]
    ¬ OpConfined (below 1) incrOp ∧
    resultAlone σ0 incrOp = [0] ∧
    (exec [0, 0, 0, 1, 1, 1] ⟨σ0, ts⟩).ts.map (fun t => (t.prog.length, t.outs)) = [(0, [[0]]), (0, [[1]])] ∧
    (exec [0, 1, 0, 1, 0, 1] ⟨σ0, ts⟩).ts.map (fun t => (t.prog.length, t.outs)) = [(0, [[0]]), (0, [[0]])] ∧
    (exec [0, 0, 0, 1, 1, 1] ⟨σ0, ts⟩).σ 0 = 2 ∧
    (exec [0, 1, 0, 1, 0, 1] ⟨σ0, ts⟩).σ 0 = 1 := by
  refine ⟨?_, by decide, by decide, by decide, by decide, by decide⟩
  intro h
  have := (h ⟨[], fun acc _ => (acc, [(0, acc.headD 0 + 1)])⟩ (by simp [incrOp])).1 [] [] (0, 1)
    (by simp)
  simp [below] at this

/-- The footprint table of the listed read-only operations (the driver's prediction for the
purity stream) declares no write to the shared graph for any of them. -/
theorem C16_listed_confined : ∀ o ∈ listedOps, o.sharedWrites = [] := by decide

/-- **Inventory tie, regenerated from /repo on every run** (extract/gen_conc.go).  In the library
packages (non-test files) —
(a') no function reachable from the listed read-only operations writes, appends to, deletes
from, takes the address of or calls a method on a package-level variable;
(b') no method reachable from them writes through its receiver on a type of the `*sfnt.Font`
object graph (no lazily initialised field, no cache in the shared graph);
(a) the only such use of a package-level variable anywhere outside `init` is a method call on the
compiled regular expression `head.versionPat` (regexp values are documented safe for concurrent
use; `VersionFromString` is not one of the listed operations);
(c) the only goroutine / channel in the library is the feature-file lexer of the builder (a
per-call channel, not reachable from the listed operations); package `sync` is not used at all.
A change that adds a global cache, a lazily built index on a shared type, or a mutex changes the
regenerated lists and breaks this theorem. -/
theorem C16_no_shared_writes_inventory :
    Gen.concGlobalWritesReachable = [] ∧
    Gen.concRecvWritesReachable = [] ∧
    Gen.concGlobalWrites = [("head.versionPat", "head.VersionFromString:call")] ∧
    Gen.concSyncGoChan =
      [("opentype/gtab/builder.lex", "chan"), ("opentype/gtab/builder.lex", "go")] := by
  decide

/-- The receiver-writing methods on types of the font graph are exactly the documented mutators
(outline construction, CID conversion, cmap installation, table reading) — none is a listed
read-only operation. -/
theorem C16_mutators_inventory :
    (Gen.concRecvWritesShared.map (·.1)).eraseDups =
      ["cff.Glyph.CurveTo", "cff.Glyph.LineTo", "cff.Glyph.MoveTo",
       "cff.Outlines.MakeCIDKeyed", "cff.Outlines.MakeSimple", "cff.Outlines.makeNames",
       "opentype/gtab.ScriptListInfo.readScriptTable", "os2.CodePageRange.Set",
       "sfnt.Font.InstallCMap"] ∧
    (∀ m ∈ Gen.concRecvWritesShared.map (·.1), m ∉ Gen.concRoots) := by
  decide

/-- **Alias-then-write inventory** (extract/gen_conc.go, (d)): in the functions reachable from the
listed operations, the only writes through a local variable bound to memory rooted at a
font-graph receiver / parameter / package-level variable (`x := f.Field; x[i] = …`,
`append(x[:0], …)`, `for _, g := range f.Glyphs { g.Name = … }`), or directly through such a
parameter, are the four below.  All four go through `res := *old`, a BY-VALUE copy of the
`gtab.Info` struct in `SubsetGsub`/`SubsetGpos`, whose `LookupList` field is replaced by fresh
memory (`nil` / `make`) before anything is stored in it — the old lookup list is never written
(observed by the hash stream on Subset).  A change such as `glyphNames = f.Names` in
`MakeGlyphNames`, or writing through `lig.In[:0]` of the original ligature, adds entries and
breaks this theorem. -/
theorem C16_alias_writes_inventory :
    Gen.concAliasWritesReachable =
      [("sfnt.subsetter.SubsetGpos", "assign res.LookupList <- res := *old"),
       ("sfnt.subsetter.SubsetGpos", "assign res.LookupList[i] <- res := *old"),
       ("sfnt.subsetter.SubsetGsub", "append res.LookupList <- res := *old"),
       ("sfnt.subsetter.SubsetGsub", "assign res.LookupList <- res := *old")] := by
  decide

/-! ### Non-vacuity -/

/-- three goroutines, two digests each over a 3-location shared part: confined -/
def demoProgs : List (List Op) :=
  [[digestOp 3 0, digestOp 3 1], [digestOp 3 2, digestOp 3 3], [digestOp 3 4, digestOp 3 5]]

def demoStore : Store := fun l => if l < 3 then l + 10 else 0

/-- a round-robin schedule, long enough to finish the 3 × 10 instructions -/
def roundRobin : List Nat := (List.replicate 10 [0, 1, 2]).flatten

example : ∀ ops ∈ demoProgs, ∀ op ∈ ops, OpConfined (below 3) op := by
  intro ops hops op hop
  simp only [demoProgs, List.mem_cons, List.mem_nil_iff, or_false] at hops
  rcases hops with rfl | rfl | rfl <;>
    (simp only [List.mem_cons, List.mem_nil_iff, or_false] at hop
     rcases hop with rfl | rfl <;> exact C16_digest_confined 3 _)

/-- the hypothesis `done` of `C16_results` is met by a concrete interleaving, and the results are
non-trivial (they carry the shared values read) -/
example : (exec roundRobin ⟨demoStore, demoProgs.map Thread.ofOps⟩).ts.map
    (fun t => (t.prog.length, t.outs)) =
    [(0, [[10, 11, 12], [10, 11, 12]]), (0, [[10, 11, 12], [10, 11, 12]]),
     (0, [[10, 11, 12], [10, 11, 12]])] := by decide

example : resultAlone demoStore (digestOp 3 4) = [10, 11, 12] := by decide

/-- the fresh locations really are written (confinement is not "writes nothing") -/
example : (List.range 6).map (fun k => (exec roundRobin ⟨demoStore, demoProgs.map Thread.ofOps⟩).σ (3 + k)) =
    [33, 33, 33, 33, 33, 33] := by decide

example : listedOps.length = 25 := by decide
example : predictPure "write" = "unchanged" := by decide

end SfntV.Props.C16
