/-
C06 — GSUB/GPOS lookup application follows the OpenType semantics.
Only property theorems and non-vacuity examples live here; helper lemmas are in
Proofs/ShapeSpec*.lean.

`Spec.Shape.shape B ll gd lookups seq` (Spec/Shape.lean) is the straightforward reference
implementation of the OpenType rules, written from the specification text and the repository's
documented decisions (opentype/gtab/testcases sections 1-3); it returns `.error why` exactly
where those do not determine the outcome (`Spec.Shape.Defined` is "returns `.ok`").
`Shape.apply B ll gd lookups [] seq` (Model/ShapeEngine.lean) is the model of the Go engine
(`gtab.Context.Apply` on a fresh context) as repaired for DESIGN §9 #11 #12 #13 #14 #15 #33 #32,
C06-ch3, C06-ch3skip, C06-attach and C06-base; it is tied to the Go code by the correspondence stream of C07, and the
Go code is compared with the reference directly by the stream `shapespec.apply` of this property.

The first group of theorems states, clause by clause, what the REFERENCE does (they make the
property's sentences precise); `C06_engine_eq_spec` states that the engine computes the same on
EVERY lookup list wherever the reference is defined (`C06_engine_eq_spec_simple`: no contextual
subtables, `C06_engine_eq_spec_ctx_partial`: one level of nesting — the milestones on the way).
-/
import SfntV.Proofs.ShapeSpecDeep
import SfntV.Proofs.ShapeSpecSem

namespace SfntV.Props.C06
open SfntV
open SfntV.Shape (Glyph Gdef Lookup LookupList Subtable ValueRec Anchor MarkRec Lig Cov)
open SfntV.Spec.Shape (TG Hit R matchSub firstHit runLookups keepRule addValue attach)

/-- **Lookup flags and GDEF classes decide which glyphs are skipped.**  The engine's filter
(`newKeepFunc(meta, gdef).Keep`, filter.go) equals the OpenType rule `keepRule` for every GDEF
table, every 16-bit flag word, every mark filtering set index and every glyph: a glyph is
skipped iff it is a base / ligature / mark (GDEF class 1 / 2 / 3) and the corresponding ignore
bit is set, or it is a mark and — in this precedence — IgnoreMarks is set, else a mark
filtering set is used and does not contain it, else a non-zero mark attachment type differs
from its mark attachment class. -/
theorem C06_keep_spec (gd : Gdef) (flags markSet gid : Nat) :
    Shape.keep gd flags markSet gid = keepRule gd flags markSet gid :=
  Spec.Shape.keep_eq_keepRule gd flags markSet gid

/-- **Lookups run in lookup-list order**, each on the whole glyph string the previous ones
produced: running the lookups `is ++ js` is running `is` and then `js` on the result. -/
theorem C06_lookup_order (B : Nat) (ll : LookupList) (gd : Gdef) (is js : List Nat) (ts : List TG) :
    runLookups B ll gd (is ++ js) ts = runLookups B ll gd is ts >>= runLookups B ll gd js :=
  C06sem.runLookups_append B ll gd is js ts

/-- **The first subtable that matches at a position is applied**: if the subtables before `s`
do not apply at the position and `s` does, the lookup does there what `s` does, whatever
subtables follow. -/
theorem C06_first_matching_subtable (kp : Nat → Bool) (gd : Gdef) (pre : List TG) (cur : TG) (post : List TG)
    (lim : Nat) (ss₁ : List Subtable) (s : Subtable) (ss₂ : List Subtable) (h : Hit)
    (hbefore : ∀ s' ∈ ss₁, matchSub kp gd pre cur post lim s' = .ok none)
    (hs : matchSub kp gd pre cur post lim s = .ok (some h)) :
    firstHit kp gd pre cur post lim (ss₁ ++ s :: ss₂) = .ok (some h) :=
  C06sem.firstHit_first kp gd pre cur post lim ss₁ s ss₂ h hbefore hs

/-- **A skipped glyph is never modified by the lookup.**  When any subtable is applied at a
position (`.done dn rest`: the glyphs `dn` replace the current glyph and what it consumed,
`rest` remains to be processed), the glyphs after the position that the lookup flags say to skip
are all still present in `dn ++ rest`, unchanged (glyph id, text, offsets, advance) and in
their original order.  The glyphs before the position are not part of the result. -/
theorem C06_skipped_untouched (kp : Nat → Bool) (gd : Gdef) (pre : List TG) (cur : TG) (post : List TG)
    (lim : Nat) (s : Subtable) (dn rest : List TG)
    (h : matchSub kp gd pre cur post lim s = .ok (some (.done dn rest))) :
    (post.filter fun t => !kp t.g.gid).Sublist (dn ++ rest) :=
  C06sem.done_keeps_skipped kp gd pre cur post lim s dn rest h

/-- **A ligature consumes its components.**  When a ligature substitution applies, there is a
ligature `l` of the set selected by the first glyph and a matched region `post.take used`
(inside the allowed window) whose non-skipped glyphs are exactly the component glyphs of `l`,
in order; none of them is in the result (`dn` is the ligature glyph followed by skipped glyphs
only, `rest` starts behind the region), and the ligature glyph carries the text of the first
glyph followed by the text of every component. -/
theorem C06_ligature_consumes (kp : Nat → Bool) (gd : Gdef) (pre : List TG) (cur : TG) (post : List TG)
    (lim : Nat) (cov : Cov) (ligs : List (List Lig)) (dn rest : List TG)
    (h : matchSub kp gd pre cur post lim (.gsub41 cov ligs) = .ok (some (.done dn rest))) :
    ∃ (i : Nat) (set : List Lig) (l : Lig) (used : Nat),
      Shape.covGet cov cur.g.gid = some i ∧ ligs[i]? = some set ∧ l ∈ set ∧ used ≤ lim ∧
      ((post.take used).filter fun t => kp t.g.gid).map (·.g.gid) = l.comps ∧
      (∃ lig tail, dn = lig :: tail ∧ lig.g.gid = l.out ∧ (∀ t ∈ tail, kp t.g.gid = false) ∧
        lig.g.text = cur.g.text ++ ((post.take used).filter fun t => kp t.g.gid).flatMap (fun t => t.g.text)) ∧
      rest = post.drop used := by
  obtain ⟨i, set, l, used, h1, h2, h3, h4, h5, h6, h7⟩ := C06sem.ligature_hit kp gd pre cur post lim cov ligs dn rest h
  refine ⟨i, set, l, used, h1, h2, h3, h4, h5, ⟨_, _, h6, rfl, ?_, rfl⟩, h7⟩
  intro t ht
  have := (List.mem_filter.mp ht).2
  simpa using this

/-- **A ligature moves the skipped glyphs behind the new glyph.**  The result of a ligature
substitution is: the ligature glyph, then the skipped glyphs that stood between the components,
unchanged and in their original order, then the untouched rest of the string. -/
theorem C06_ligature_moves_skipped (kp : Nat → Bool) (gd : Gdef) (pre : List TG) (cur : TG) (post : List TG)
    (lim : Nat) (cov : Cov) (ligs : List (List Lig)) (dn rest : List TG)
    (h : matchSub kp gd pre cur post lim (.gsub41 cov ligs) = .ok (some (.done dn rest))) :
    ∃ (lig : TG) (used : Nat), used ≤ lim ∧
      dn ++ rest = lig :: ((post.take used).filter fun t => !kp t.g.gid) ++ post.drop used := by
  obtain ⟨i, set, l, used, _, _, _, h4, _, h6, h7⟩ := C06sem.ligature_hit kp gd pre cur post lim cov ligs dn rest h
  exact ⟨_, used, h4, by rw [h6, h7]⟩

/-- **Positioning adds exactly the value record.**  Where the reference is defined, a value
record changes nothing but: x offset += xPlacement, y offset += yPlacement, advance += xAdvance
(exact integer sums — no wrap-around inside `Defined`). -/
theorem C06_valuerecord_exact (v : ValueRec) (g g' : Glyph) (h : addValue (some v) g = .ok g') :
    g'.xoff = g.xoff + v.xPlacement ∧ g'.yoff = g.yoff + v.yPlacement ∧ g'.adv = g.adv + v.xAdvance
    ∧ g'.gid = g.gid ∧ g'.text = g.text :=
  C06sem.addValue_exact v g g' h

/-- **Positioning adds exactly the anchor adjustment.**  After a mark-to-base or mark-to-mark
attachment the two attachment points coincide: with the pen of the mark `advs` units to the
right of the pen of the base (the sum of the advances in between), mark offset + mark anchor
+ `advs` = base offset + base anchor horizontally, and mark offset + mark anchor = base offset
+ base anchor vertically; glyph id, text and advance of the mark are unchanged. -/
theorem C06_anchor_exact (base : Glyph) (a : Anchor) (mark : Glyph) (mr : MarkRec) (advs : Int) (g' : Glyph)
    (h : attach base a mark mr advs = .ok g') :
    advs + g'.xoff + mr.x = base.xoff + a.x ∧ g'.yoff + mr.y = base.yoff + a.y
    ∧ g'.gid = mark.gid ∧ g'.text = mark.text ∧ g'.adv = mark.adv :=
  C06sem.attach_exact base a mark mr advs g' h

/-- **The engine computes what the reference computes — lookup lists without contextual
subtables** (GSUB 1.1, 1.2, 2.1, 3.1, 4.1, 8.1 and GPOS 1.1, 1.2, 2.1, 2.2, 4.1, 6.1 in any
mixture and order): for every nested-lookup bound `B`, every lookup list, all GDEF data, all
lookup flags, every list of lookup indices and every glyph sequence, if the reference shaper
is defined with result `r` then one call of the engine on a fresh context returns exactly `r`
(glyph ids, attached text, offsets, advances), without panic, within its fuel, and leaves the
stack of nested actions empty.  Type 8 lookups are processed from the end of the string by
both (the code was repaired, DESIGN §9 #32), so no hypothesis about type 8 is needed. -/
theorem C06_engine_eq_spec_simple (B : Nat) (ll : LookupList) (gd : Gdef) (lookups : List Nat)
    (seq r : List Glyph) (hsimple : Shape.simpleLL ll = true)
    (h : Spec.Shape.shape B ll gd lookups seq = .ok r) :
    Shape.apply B ll gd lookups [] seq = .ok ⟨r, []⟩ :=
  C06.engine_eq_spec_simple B ll gd lookups seq r hsimple h

/-- **The engine computes what the reference computes — contextual and chained contextual
lookups (formats 1, 2, 3) with one level of nesting.**  `C06.nestedSimpleLL ll` says: every
lookup that a nested action of any contextual subtable of `ll` names has no contextual subtable
itself.  The nested lookups may substitute (GSUB 1.1 1.2 3.1 8.1), INSERT glyphs (multiple
substitution 2.1: the engine repairs the recorded positions with `fixStackInsert`, the reference
lets the new glyphs inherit the tags; testcases 3_02–3_04, 3_08, 3_09), DELETE glyphs (ligature
substitution 4.1 inside the window of the match: `fixStackMerge` in the engine, the ligature
takes the tags of its first component in the reference; testcases 2_08, 2_09, 3_01, 3_05, 3_10),
position single glyphs, pairs inside the window (GPOS 1.1 1.2 2.1 2.2) and attach marks (4.1
6.1).  The top-level lookups may mix contextual subtables of all six formats with any
non-contextual ones.  For every such lookup list, all GDEF data, flags, lookup orders and
sequences: if the reference is defined with result `r`, the engine on a fresh context returns
exactly `r`, without panic, within fuel, stack empty.  The proof is the simulation of DESIGN §8:
the engine's stack entry (positions, remaining actions, end position) against the reference's
tags on the glyphs.  Not covered: nested lookups that are contextual themselves (two or more
levels). -/
theorem C06_engine_eq_spec_ctx_partial (B : Nat) (ll : LookupList) (gd : Gdef) (lookups : List Nat)
    (seq r : List Glyph) (hnested : C06.nestedSimpleLL ll = true)
    (h : Spec.Shape.shape B ll gd lookups seq = .ok r) :
    Shape.apply B ll gd lookups [] seq = .ok ⟨r, []⟩ :=
  C06.engine_eq_spec_nested_simple B ll gd lookups seq r hnested h

/-- The full statement: the engine agrees with the reference on every lookup list wherever the
reference is defined. -/
def C06_engine_eq_spec_ctx_full : Prop :=
  ∀ (B : Nat) (ll : LookupList) (gd : Gdef) (lookups : List Nat) (seq r : List Glyph),
    Spec.Shape.shape B ll gd lookups seq = .ok r → Shape.apply B ll gd lookups [] seq = .ok ⟨r, []⟩

/-- **The engine computes what the reference computes — every lookup list.**  For every bound
`B`, every lookup list over GSUB 1.1 1.2 2.1 3.1 4.1 8.1, contextual and chained contextual
formats 1, 2, 3, and GPOS 1.1 1.2 2.1 2.2 4.1 6.1, with contextual lookups nested to ANY depth
(lookups invoking themselves included), all GDEF data, all lookup flags, every list of lookup
indices and every glyph sequence: if the reference shaper is defined with result `r`, one call of
the engine on a fresh context returns exactly `r` (glyph ids, attached text, offsets, advances),
does not panic, stays within its fuel and leaves the stack of nested actions empty.  This is the
refinement proof planned in DESIGN §8 (stack of positions ↔ tags on the glyphs), with the
engine's flat loop over the stack compared against the reference's recursion. -/
theorem C06_engine_eq_spec (B : Nat) (ll : LookupList) (gd : Gdef) (lookups : List Nat)
    (seq r : List Glyph) (h : Spec.Shape.shape B ll gd lookups seq = .ok r) :
    Shape.apply B ll gd lookups [] seq = .ok ⟨r, []⟩ :=
  C06.engine_eq_spec_full B ll gd lookups seq r h

/-- the full statement holds -/
theorem C06_engine_eq_spec_ctx_full_holds : C06_engine_eq_spec_ctx_full :=
  fun B ll gd lookups seq r h => C06_engine_eq_spec B ll gd lookups seq r h

/-! ## non-vacuity: the reference is defined, and does something, on concrete inputs -/

section examples
open SfntV.Shape

/-- GDEF: 1 base, 7 ligature, 10 mark -/
def exGdef : Gdef := { glyphClass := [(1, 1), (2, 1), (3, 1), (7, 2), (10, 3)] }
def exSeq (gids : List Nat) : List Glyph := gids.zipIdx.map fun (g, i) => ⟨g, [97 + i], 0, 0, 0⟩

/-- ligature `1 2 → 7` ignoring marks on `1 10 2 3`: the mark moves behind the ligature, which
carries the text of both components (testcases 1_12) -/
example : Spec.Shape.shape 64 [⟨8, 0, [.gsub41 [(1, 0)] [[⟨[2], 7⟩]]]⟩] exGdef [0] (exSeq [1, 10, 2, 3])
    = .ok [⟨7, [97, 99], 0, 0, 0⟩, ⟨10, [98], 0, 0, 0⟩, ⟨3, [100], 0, 0, 0⟩] := by rfl

/-- the engine gives the same (instance of `C06_engine_eq_spec_simple`) -/
example : Shape.apply 64 [⟨8, 0, [.gsub41 [(1, 0)] [[⟨[2], 7⟩]]]⟩] exGdef [0] [] (exSeq [1, 10, 2, 3])
    = .ok ⟨[⟨7, [97, 99], 0, 0, 0⟩, ⟨10, [98], 0, 0, 0⟩, ⟨3, [100], 0, 0, 0⟩], []⟩ :=
  C06_engine_eq_spec_simple 64 _ _ _ _ _ (by decide) (by rfl)

/-- reverse chaining `1 → 2 if followed by 1` on `1 1 1` gives `1 2 1` (from the end), not `2 2 1` -/
example : Spec.Shape.shape 64 [⟨0, 0, [.gsub81 [(1, 0)] [] [[(1, 0)]] [2]]⟩] {} [0] (exSeq [1, 1, 1])
    = .ok [⟨1, [97], 0, 0, 0⟩, ⟨2, [98], 0, 0, 0⟩, ⟨1, [99], 0, 0, 0⟩] := by rfl

/-- a contextual rule with a nested multiple substitution: `1 1 → 1@0 2@1`, lookup 1 `1 → 1 1`,
lookup 2 `1 → 3` (testcases 3_02): position 1 is interpreted after the insertion -/
example : Spec.Shape.shape 64
    [⟨0, 0, [.ctx1 [(1, 0)] [[⟨[], [1], [], [⟨0, 1⟩, ⟨1, 2⟩]⟩]]]⟩,
     ⟨0, 0, [.gsub21 [(1, 0)] [[1, 1]]]⟩, ⟨0, 0, [.gsub12 [(1, 0)] [3]]⟩] {} [0] (exSeq [1, 1])
    = .ok [⟨1, [97], 0, 0, 0⟩, ⟨3, [], 0, 0, 0⟩, ⟨1, [98], 0, 0, 0⟩] := by rfl

/-- the engine gives the same for a contextual lookup with a pointwise nested lookup: `1 1 → 1@1`,
lookup 1 `1 → 3`, ignoring marks, on `1 10 1 1` (instance of `C06_engine_eq_spec_ctx_partial`) -/
example : Shape.apply 64
    [⟨8, 0, [.ctx1 [(1, 0)] [[⟨[], [1], [], [⟨1, 1⟩]⟩]]]⟩, ⟨0, 0, [.gsub12 [(1, 0)] [3]]⟩] exGdef [0] [] (exSeq [1, 10, 1, 1])
    = .ok ⟨[⟨1, [97], 0, 0, 0⟩, ⟨10, [98], 0, 0, 0⟩, ⟨3, [99], 0, 0, 0⟩, ⟨1, [100], 0, 0, 0⟩], []⟩ :=
  C06_engine_eq_spec_ctx_partial 64 _ _ _ _ _ (by decide) (by rfl)

/-- … and for a nested insertion (testcases 3_02): `1 1 → 1@0 2@1`, lookup 1 `1 → 1 1`, lookup 2 `1 → 3` -/
example : Shape.apply 64
    [⟨0, 0, [.ctx1 [(1, 0)] [[⟨[], [1], [], [⟨0, 1⟩, ⟨1, 2⟩]⟩]]]⟩,
     ⟨0, 0, [.gsub21 [(1, 0)] [[1, 1]]]⟩, ⟨0, 0, [.gsub12 [(1, 0)] [3]]⟩] {} [0] [] (exSeq [1, 1])
    = .ok ⟨[⟨1, [97], 0, 0, 0⟩, ⟨3, [], 0, 0, 0⟩, ⟨1, [98], 0, 0, 0⟩], []⟩ :=
  C06_engine_eq_spec_ctx_partial 64 _ _ _ _ _ (by decide) (by rfl)

/-- … and for a nested ligature that merges an input glyph with a trailing ignored glyph
(testcases 2_08): `1 1 → 1@0 1@1` ignoring marks, lookup 1 ligature `1 10 → 2`, on `1 10 1 10` -/
example : Shape.apply 64
    [⟨8, 0, [.ctx1 [(1, 0)] [[⟨[], [1], [], [⟨0, 1⟩, ⟨1, 1⟩]⟩]]]⟩, ⟨0, 0, [.gsub41 [(1, 0)] [[⟨[10], 2⟩]]]⟩] exGdef [0] []
      (exSeq [1, 10, 1, 10])
    = .ok ⟨[⟨2, [97, 98], 0, 0, 0⟩, ⟨2, [99, 100], 0, 0, 0⟩], []⟩ :=
  C06_engine_eq_spec_ctx_partial 64 _ _ _ _ _ (by decide) (by rfl)

/-- … and for two levels of nesting with a length change inside (testcases 3_06): `1 1 1 → 1@1 4@1`,
lookup 1 `1 1 → 2@0 3@1`, lookup 2 `1 → 1 1`, lookup 3 `1 → 5`, lookup 4 `1 → 6` on `1 1 1` gives `1 6 5 1` -/
example : Shape.apply 64
    [⟨0, 0, [.ctx1 [(1, 0)] [[⟨[], [1, 1], [], [⟨1, 1⟩, ⟨1, 4⟩]⟩]]]⟩,
     ⟨0, 0, [.ctx1 [(1, 0)] [[⟨[], [1], [], [⟨0, 2⟩, ⟨1, 3⟩]⟩]]]⟩,
     ⟨0, 0, [.gsub21 [(1, 0)] [[1, 1]]]⟩, ⟨0, 0, [.gsub12 [(1, 0)] [5]]⟩, ⟨0, 0, [.gsub12 [(1, 0)] [6]]⟩] {} [0] []
      (exSeq [1, 1, 1])
    = .ok ⟨[⟨1, [97], 0, 0, 0⟩, ⟨6, [98], 0, 0, 0⟩, ⟨5, [], 0, 0, 0⟩, ⟨1, [99], 0, 0, 0⟩], []⟩ :=
  C06_engine_eq_spec 64 _ _ _ _ _ (by rfl)

/-- mark-to-base: base 1 (advance 500, anchor (300, 700)), mark 10 (anchor (20, 10)) -/
example : Spec.Shape.shape 64 [⟨0, 0, [.gpos41 [(10, 0)] [(1, 0)] [⟨0, 20, 10⟩] [[⟨300, 700⟩]] exGdef.glyphClass]⟩] exGdef [0]
    [⟨1, [97], 0, 0, 500⟩, ⟨10, [98], 0, 0, 0⟩]
    = .ok [⟨1, [97], 0, 0, 500⟩, ⟨10, [98], -220, 690, 0⟩] := by rfl

end examples

end SfntV.Props.C06
