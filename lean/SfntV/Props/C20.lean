import SfntV.Proofs.GNames3
import SfntV.Proofs.GNames4
import SfntV.Generated.GNames

/-!
# C20 — generated glyph names are complete, unique, stable and PostScript-safe

Model: `SfntV.GNames.makeGlyphNames` mirrors `(*sfnt.Font).MakeGlyphNames` of /repo/names.go AS
REPAIRED (coverage maps are visited in increasing glyph order, glyph IDs outside the font are
skipped, a ligature output that already has a name keeps it); `makeGlyphNamesOld` mirrors the code
before the repair and is used only for the `C20_old_…` witnesses.  `fromU` stands for
`names.FromUnicode` and `isValid` for `names.IsValid` (arbitrary functions: nothing is assumed
about them).  The result is `none` exactly for a font without glyphs (index panic, outside the
domain n ≥ 1).
-/
namespace SfntV.GNames

/-! ## the result is the name slice of a state reached from `stage0` by filling steps -/

theorem step03 (fromU : Nat → Name) (f : Font) : Step (stage0 f.outl) (stage3 fromU f) :=
  ((step_cmapPass fromU f.cmap _).trans (step_gsubPass f.gsub _)).trans (step_ornPass _)

theorem make_cases {fromU : Nat → Name} {f : Font} {r : List Name}
    (h : makeGlyphNames fromU f = some r) :
    0 < f.outl.numGlyphs ∧
    ((complete (stage0 f.outl).names = true ∧ r = (stage0 f.outl).names) ∨
     (complete (stage0 f.outl).names = false ∧ r = (stage3 fromU f).names)) := by
  unfold makeGlyphNames at h
  split at h
  · cases h
  · rename_i hn
    split at h
    · rename_i hc
      exact ⟨by omega, Or.inl ⟨hc, (Option.some.inj h).symm⟩⟩
    · rename_i hc
      exact ⟨by omega, Or.inr ⟨by simpa using hc, (Option.some.inj h).symm⟩⟩

/-- the state whose slice is the result: it extends `stage0`, is duplicate-free and complete -/
theorem make_state {fromU : Nat → Name} {f : Font} {r : List Name}
    (h : makeGlyphNames fromU f = some r) :
    ∃ st : St, st.names = r ∧ Step (stage0 f.outl) st ∧ Step st (stage3 fromU f) ∧
      (∀ i, i < st.n → st.nameAt i ≠ []) := by
  obtain ⟨_, ⟨hc, hr⟩ | ⟨_, hr⟩⟩ := make_cases h
  · refine ⟨stage0 f.outl, hr.symm, Step.refl _, step03 fromU f, ?_⟩
    exact (complete_iff _).1 hc
  · refine ⟨stage3 fromU f, hr.symm, step03 fromU f, Step.refl _, ?_⟩
    intro i hi
    have hn : (stage3 fromU f).n = (stage2 fromU f).n := (step_ornPass _).1.1
    exact ornPass_filled _ i (by rw [← hn]; exact hi)

/-- **Only a font without glyphs is refused** (the Go code panics on `glyphNames[0]` there). -/
theorem C20_total (fromU : Nat → Name) (f : Font) :
    (∃ r, makeGlyphNames fromU f = some r) ↔ 0 < f.outl.numGlyphs := by
  constructor
  · intro ⟨r, h⟩; exact (make_cases h).1
  · intro hn
    unfold makeGlyphNames
    rw [if_neg (by omega)]
    split <;> exact ⟨_, rfl⟩

/-- **Complete.** For every font with at least one glyph, every pattern of existing names, every
cmap, every list of GSUB subtables (glyph IDs and coverage indices arbitrary, also out of range)
and every `FromUnicode`: the result has exactly one name per glyph and none is empty. -/
theorem C20_complete {fromU : Nat → Name} {f : Font} {r : List Name}
    (h : makeGlyphNames fromU f = some r) :
    r.length = f.outl.numGlyphs ∧ ∀ i, i < r.length → r.getD i [] ≠ [] := by
  obtain ⟨st, hr, h0, _, hc⟩ := make_state h
  subst hr
  exact ⟨by have := h0.1.1; rw [stage0_n] at this; exact this, hc⟩

/-- **Unique.** No two glyphs get the same name. -/
theorem C20_unique {fromU : Nat → Name} {f : Font} {r : List Name}
    (h : makeGlyphNames fromU f = some r) :
    ∀ i j, i < r.length → j < r.length → r.getD i [] = r.getD j [] → i = j := by
  obtain ⟨st, hr, h0, _, hc⟩ := make_state h
  subst hr
  intro i j hi _ he
  exact (h0.2 (stage0_inv _)).2 i j (hc i hi) he

/-- the same as a `Nodup` statement -/
theorem C20_unique_nodup {fromU : Nat → Name} {f : Font} {r : List Name}
    (h : makeGlyphNames fromU f = some r) : r.Nodup := by
  rw [List.Nodup, List.pairwise_iff_getElem]
  intro i j hi hj hij e
  have := C20_unique h i j hi hj (by
    simpa [List.getD_eq_getElem?_getD, List.getElem?_eq_getElem hi, List.getElem?_eq_getElem hj] using e)
  omega

/-- **Glyph 0 is `.notdef`.** -/
theorem C20_notdef {fromU : Nat → Name} {f : Font} {r : List Name}
    (h : makeGlyphNames fromU f = some r) : r.getD 0 [] = notdef := by
  obtain ⟨st, hr, h0, _, _⟩ := make_state h
  subst hr
  have hz := stage0_zero f.outl (make_cases h).1
  have := h0.1.2.1 0 (by rw [hz]; exact notdef_ne_nil)
  rw [hz] at this
  exact this

/-- **Existing names are kept.** The name the font already has for glyph `i > 0` is returned
unchanged whenever it is non-empty, is not `.notdef` (reserved for glyph 0) and is not also the
name of an earlier glyph `0 < j < i` (of several glyphs sharing a name, the first keeps it). -/
theorem C20_keeps_existing {fromU : Nat → Name} {f : Font} {r : List Name}
    (h : makeGlyphNames fromU f = some r) (i : Nat) (hi : 0 < i) (hlt : i < f.outl.numGlyphs)
    (hne : f.outl.initNames.getD i [] ≠ []) (hnd : f.outl.initNames.getD i [] ≠ notdef)
    (hfirst : ∀ j, 0 < j → j < i → f.outl.initNames.getD j [] ≠ f.outl.initNames.getD i []) :
    r.getD i [] = f.outl.initNames.getD i [] := by
  obtain ⟨st, hr, h0, _, _⟩ := make_state h
  subst hr
  have hk := stage0_kept f.outl i hi hlt hnd hfirst
  have := h0.1.2.1 i (by rw [hk]; exact hne)
  rw [hk] at this
  exact this

/-- **Sources, in order of priority.** A name present after the duplicate filter is final; a name
given by the cmap pass is final and is `FromUnicode` of a code in the cmap's range that maps to
this glyph; a name given by the GSUB pass is final; and exactly the glyphs still unnamed after the
GSUB pass get a numbered placeholder `orn%03d` with number ≥ 1. -/
theorem C20_sources {fromU : Nat → Name} {f : Font} {r : List Name}
    (h : makeGlyphNames fromU f = some r) (i : Nat) (hi : i < r.length) :
    ((stage0 f.outl).nameAt i ≠ [] → r.getD i [] = (stage0 f.outl).nameAt i) ∧
    ((stage1 fromU f).nameAt i ≠ [] → r.getD i [] = (stage1 fromU f).nameAt i) ∧
    ((stage2 fromU f).nameAt i ≠ [] → r.getD i [] = (stage2 fromU f).nameAt i) ∧
    ((stage0 f.outl).nameAt i = [] → (stage1 fromU f).nameAt i ≠ [] →
      ∃ c code, f.cmap = some c ∧ c.lo ≤ code ∧ code ≤ c.hi ∧ c.lookup code = i ∧
        r.getD i [] = fromU code) ∧
    ((stage2 fromU f).nameAt i = [] → ∃ k, 1 ≤ k ∧ r.getD i [] = ornName k) := by
  have s01 : Step (stage0 f.outl) (stage1 fromU f) := step_cmapPass fromU f.cmap _
  have s12 : Step (stage1 fromU f) (stage2 fromU f) := step_gsubPass f.gsub _
  have s23 : Step (stage2 fromU f) (stage3 fromU f) := step_ornPass _
  have hlen := (C20_complete h).1
  obtain ⟨_, ⟨hc, hr⟩ | ⟨_, hr⟩⟩ := make_cases h
  · -- nothing was missing: the filtered names are returned
    subst hr
    have hne : (stage0 f.outl).nameAt i ≠ [] := (complete_iff _).1 hc i hi
    have e1 := s01.1.2.1 i hne
    have e2 := s12.1.2.1 i (by rw [e1]; exact hne)
    refine ⟨fun _ => rfl, fun _ => e1.symm, fun _ => ?_, fun h0 => absurd h0 hne, fun h2 => ?_⟩
    · rw [e2, e1]; rfl
    · rw [e2, e1] at h2; exact absurd h2 hne
  · subst hr
    have h3 : ∀ x, (stage2 fromU f).nameAt i = x → x ≠ [] → (stage3 fromU f).nameAt i = x :=
      fun x e hx => e ▸ s23.1.2.1 i (e ▸ hx)
    refine ⟨fun h0 => ?_, fun h1 => ?_, fun h2 => s23.1.2.1 i h2, fun h0 h1 => ?_, fun h2 => ?_⟩
    · have e1 := s01.1.2.1 i h0
      have e2 := s12.1.2.1 i (by rw [e1]; exact h0)
      exact h3 _ (e2.trans e1) h0
    · exact h3 _ (s12.1.2.1 i h1) h1
    · obtain ⟨c, code, hcm, a, b, d, e⟩ := cmapPass_prov fromU f.cmap (stage0 f.outl) i h0 h1
      refine ⟨c, code, hcm, a, b, d, ?_⟩
      have : (stage1 fromU f).nameAt i = fromU code := e
      rw [← this]
      exact h3 _ (s12.1.2.1 i h1) h1
    · have hn : i < (stage2 fromU f).n := by
        have := s23.1.1
        unfold St.n at this ⊢
        omega
      exact ornPass_prov _ i h2 hn

/-- **Shape of GSUB-derived names.** A glyph that was still unnamed after the cmap pass and is
named by the GSUB pass gets, as its final name, `base` or `base.N` (the first of `base`, `base.1`,
`base.2`, … not yet in use), where `base` is the (final) name of a named glyph — single and
alternate substitutions — or the (final) names of a named first glyph and named further
components joined by `_` — ligature substitutions. -/
theorem C20_gsub_shape {fromU : Nat → Name} {f : Font} {r : List Name}
    (h : makeGlyphNames fromU f = some r) (i : Nat) (hi : i < r.length)
    (h1 : (stage1 fromU f).nameAt i = []) (h2 : (stage2 fromU f).nameAt i ≠ []) :
    r.getD i [] = (stage2 fromU f).nameAt i ∧
    ∃ base t, r.getD i [] = variantName base t ∧
      ((∃ o, (stage2 fromU f).nameAt o ≠ [] ∧ base = (stage2 fromU f).nameAt o) ∨
       (∃ (o : Nat) (ins : List Nat), (stage2 fromU f).nameAt o ≠ [] ∧
          (∀ g, g ∈ ins → (stage2 fromU f).nameAt g ≠ []) ∧
          base = joinU ((stage2 fromU f).nameAt o :: ins.map (stage2 fromU f).nameAt))) := by
  have e := (C20_sources h i hi).2.2.1 h2
  refine ⟨e, ?_⟩
  rcases gp_gsubPass f.gsub (stage1 fromU f) i h1 with h0 | ⟨base, t, hs, hn⟩
  · exact absurd h0 h2
  · exact ⟨base, t, by rw [e]; exact hn, hs⟩

/-- **Stable (1): no dependence on map iteration order.** Two listings of the same GSUB
subtables whose coverage maps are enumerated in different orders give the same answer. -/
theorem C20_stable_order (fromU : Nat → Name) (o : Outl) (cm : Option CMap) {subs subs' : List Sub}
    (h : SubsEquiv subs subs') :
    makeGlyphNames fromU ⟨o, cm, subs⟩ = makeGlyphNames fromU ⟨o, cm, subs'⟩ := by
  simp only [makeGlyphNames, stage3, stage2, stage1, gsubPass, map_norm_eq h]

/-- **Stable (2): asking again.** After the names have been installed in the font
(`EnsureGlyphNames`), asking again returns the same names. -/
theorem C20_stable_again {fromU : Nat → Name} {f : Font} {r : List Name}
    (h : makeGlyphNames fromU f = some r) :
    makeGlyphNames fromU { f with outl := f.outl.install r } = some r := by
  obtain ⟨hlen, hne⟩ := C20_complete h
  obtain ⟨hin, hng⟩ := install_initNames f.outl r hlen
  have hfix : (stage0 (f.outl.install r)).names = r := by
    simp only [stage0, hin]
    exact dedup_fixed r (C20_notdef h) (C20_unique h)
  unfold makeGlyphNames
  simp only [hng]
  rw [if_neg (by have := (make_cases h).1; omega), hfix, if_pos ((complete_iff r).2 hne)]

/-- **Installing** the names makes them the font's names, glyph by glyph. -/
theorem C20_install {fromU : Nat → Name} {f : Font} {r : List Name}
    (h : makeGlyphNames fromU f = some r) : (f.outl.install r).initNames = r :=
  (install_initNames f.outl r (C20_complete h).1).1

/-! ## CFF `makeNames` (`MakeSimple`) -/

def cffStage0 (v : Name → Bool) (names : List Name) : St :=
  ⟨(cffKeep v (names.set 0 notdef) []).1, (cffKeep v (names.set 0 notdef) []).2⟩
def cffStage1 (v : Name → Bool) (tb : Nat → Option Name) (names : List Name) : St :=
  (List.range (cffStage0 v names).n).foldl (textStep v tb) (cffStage0 v names)

theorem cffMakeNames_eq (v : Name → Bool) (tb : Nat → Option Name) (names : List Name) :
    cffMakeNames v tb names =
      if names.length = 0 then none else some (ornPass (cffStage1 v tb names)).names := rfl

theorem cff_state {v : Name → Bool} {tb : Nat → Option Name} {names r : List Name}
    (h : cffMakeNames v tb names = some r) :
    0 < names.length ∧ ∃ s0 st : St, s0.names = (cffKeep v (names.set 0 notdef) []).1 ∧
      Inv s0 ∧ Step s0 st ∧ st.names = r ∧ (∀ i, i < st.n → st.nameAt i ≠ []) := by
  rw [cffMakeNames_eq] at h
  split at h
  · cases h
  · rename_i hn
    obtain ⟨_, _, h3, h4, _⟩ := cffKeep_spec v (names.set 0 notdef) []
    have s1 : Step (cffStage0 v names) (cffStage1 v tb names) :=
      step_foldl _ _ (fun st g _ => step_textStep v tb st g) _
    have s2 : Step (cffStage1 v tb names) (ornPass (cffStage1 v tb names)) := step_ornPass _
    refine ⟨by omega, cffStage0 v names, ornPass (cffStage1 v tb names), rfl,
      ⟨fun i hi => (h3 i hi).1, h4⟩, s1.trans s2, Option.some.inj h, ?_⟩
    intro i hi
    exact ornPass_filled _ i (by rw [← s2.1.1]; exact hi)

/-- **`MakeSimple` obeys the same rules**: exactly one non-empty name per glyph, pairwise
distinct, for every validity predicate and every glyph-text map. -/
theorem C20_makesimple {v : Name → Bool} {tb : Nat → Option Name} {names r : List Name}
    (h : cffMakeNames v tb names = some r) :
    r.length = names.length ∧ (∀ i, i < r.length → r.getD i [] ≠ []) ∧
    (∀ i j, i < r.length → j < r.length → r.getD i [] = r.getD j [] → i = j) := by
  obtain ⟨_, s0, st, hs0, hinv, hstep, hr, hc⟩ := cff_state h
  subst hr
  refine ⟨?_, hc, fun i j hi _ he => (hstep.2 hinv).2 i j (hc i hi) he⟩
  have := hstep.1.1
  unfold St.n at this
  rw [this, hs0, (cffKeep_spec v _ []).1]
  simp

/-- `MakeSimple`: glyph 0 is `.notdef` (`names.IsValid(".notdef")` holds: the harness checks the
real function), and a valid existing name that is not `.notdef` and not the name of an earlier
glyph is kept. -/
theorem C20_makesimple_kept {v : Name → Bool} {tb : Nat → Option Name} {names r : List Name}
    (h : cffMakeNames v tb names = some r) (hv : v notdef = true) :
    r.getD 0 [] = notdef ∧
    ∀ i, 0 < i → i < names.length → names.getD i [] ≠ [] → v (names.getD i []) = true →
      names.getD i [] ≠ notdef → (∀ j, 0 < j → j < i → names.getD j [] ≠ names.getD i []) →
      r.getD i [] = names.getD i [] := by
  obtain ⟨hn, s0, st, hs0, _, hstep, hr, _⟩ := cff_state h
  subst hr
  obtain ⟨_, _, _, _, h5⟩ := cffKeep_spec v (names.set 0 notdef) []
  constructor
  · have := h5 0 (by simpa using hn) (by rw [getD_set_notdef]; simp [hn, hv]) (by simp)
      (fun j hj => by omega)
    rw [getD_set_notdef, if_pos ⟨rfl, hn⟩] at this
    have h0 : s0.nameAt 0 = notdef := by simp only [St.nameAt, hs0]; exact this
    have := hstep.1.2.1 0 (by rw [h0]; exact notdef_ne_nil)
    rw [h0] at this
    exact this
  · intro i hi hlt hne hvi hnd hfirst
    have hni : ¬ (i = 0 ∧ 0 < names.length) := by omega
    have := h5 i (by simpa using hlt) (by rw [getD_set_notdef, if_neg hni]; exact hvi) (by simp)
      (by
        intro j hj
        rw [getD_set_notdef, getD_set_notdef, if_neg hni]
        by_cases h0 : j = 0
        · subst h0; rw [if_pos ⟨rfl, hn⟩]; exact fun e => hnd e.symm
        · rw [if_neg (by omega)]; exact hfirst j (by omega) hj)
    rw [getD_set_notdef, if_neg hni] at this
    have h0 : s0.nameAt i = names.getD i [] := by simp only [St.nameAt, hs0]; exact this
    have := hstep.1.2.1 i (by rw [h0]; exact hne)
    rw [h0] at this
    exact this

/-- **The naming rule of `MakeSimple`.** Every name of the converted font is one of: an existing
name that passed the validity/duplicate filter; for a glyph with text, `base` or `base.altN`
(`base` = `FromUnicode` of that glyph's text) — and only if that candidate is valid, so a
candidate that the suffix makes too long is never used; a placeholder `orn%03d` with number ≥ 1. -/
theorem C20_makesimple_rule {v : Name → Bool} {tb : Nat → Option Name} {names r : List Name}
    (h : cffMakeNames v tb names = some r) (i : Nat) :
    (cffStage0 v names).nameAt i ≠ [] ∧ r.getD i [] = (cffStage0 v names).nameAt i ∧
        v (r.getD i []) = true ∨
    r.getD i [] = [] ∨
    (∃ base t, tb i = some base ∧ r.getD i [] = altName base t ∧ v (altName base t) = true) ∨
    (∃ k, 1 ≤ k ∧ r.getD i [] = ornName k) := by
  rw [cffMakeNames_eq] at h
  split at h
  · cases h
  · have hr : (ornPass (cffStage1 v tb names)).names = r := Option.some.inj h
    subst hr
    have s1 : Step (cffStage0 v names) (cffStage1 v tb names) :=
      step_foldl _ _ (fun st g _ => step_textStep v tb st g) _
    have s2 : Step (cffStage1 v tb names) (ornPass (cffStage1 v tb names)) := step_ornPass _
    by_cases h0 : (cffStage0 v names).nameAt i = []
    · right
      have p1 : CffProv v tb (cffStage0 v names) (cffStage1 v tb names) :=
        foldl_inv (CffProv v tb (cffStage0 v names)) _ _ (fun st g _ hp => prov_textStep g hp) _
          (fun _ hi => Or.inl hi)
      exact prov_ornFold _ (cffStage1 v tb names, 1) (Nat.le_refl _) p1 i h0
    · left
      have e := (s1.trans s2).1.2.1 i h0
      refine ⟨h0, e, ?_⟩
      show v ((ornPass (cffStage1 v tb names)).nameAt i) = true
      rw [e]
      exact cffKeep_valid v _ [] i h0

/-- **`MakeSimple` gives valid names only**, provided the placeholders are valid names (true of
the real `names.IsValid`: `orn` followed by digits). In particular no name exceeds the length
limit built into the validity predicate. -/
theorem C20_makesimple_valid {v : Name → Bool} {tb : Nat → Option Name} {names r : List Name}
    (h : cffMakeNames v tb names = some r) (horn : ∀ k, v (ornName k) = true) :
    ∀ i, i < r.length → v (r.getD i []) = true := by
  intro i hi
  have hne := (C20_makesimple h).2.1 i hi
  rcases C20_makesimple_rule h i with ⟨_, _, hv⟩ | he | ⟨base, t, _, e, hv⟩ | ⟨k, _, e⟩
  · exact hv
  · exact absurd he hne
  · rw [e]; exact hv
  · rw [e]; exact horn k

/-! ## PostScript name -/

/-- printable ASCII other than space and the PostScript delimiters `[ ] ( ) { } < > / %` -/
def psAllowed (c : Nat) : Prop :=
  33 ≤ c ∧ c ≤ 126 ∧ c ∉ [91, 93, 40, 41, 123, 125, 60, 62, 47, 37]

instance (c : Nat) : Decidable (psAllowed c) := by unfold psAllowed; infer_instance

theorem psKeep_table : ∀ c : Fin 128, Gen.psNameKeep.getD c.val false = true → psAllowed c.val := by
  decide +kernel

/-- **PostScript name.** Whatever the family name and subfamily are, every character that
`PostScriptName` keeps (class regenerated from the regexp literal in font.go) is printable ASCII
other than space and `[](){}<>/%`. -/
theorem C20_psname (s : List Nat) : ∀ c, c ∈ psFilter Gen.psNameKeep s → psAllowed c := by
  intro c hc
  have hk : Gen.psNameKeep.getD c false = true := (List.mem_filter.1 hc).2
  by_cases h : c < 128
  · exact psKeep_table ⟨c, h⟩ hk
  · have hl : Gen.psNameKeep.length = 128 := by decide +kernel
    rw [List.getD_eq_getElem?_getD, List.getElem?_eq_none (by omega)] at hk
    simp at hk

/-- the filter keeps the order and multiplicity of the allowed characters it keeps, and nothing
else: it is a sublist of the input -/
theorem C20_psname_sublist (s : List Nat) : (psFilter Gen.psNameKeep s).Sublist s :=
  List.filter_sublist

/-! ## the code before the repair violated the property (model `makeGlyphNamesOld`) -/

def fu0 : Nat → Name := fun _ => []
def nA : Name := ['a']

/-- Before the repair the answer depended on the order in which Go ranged over a coverage map:
Gsub1_1 with coverage {1,2,3}, delta 1, glyph 1 named "a": visiting 1,2,3 names everything
`a.1`, `a.1.1`, `a.1.1.1`; visiting 3,2,1 leaves two glyphs to the placeholder pass. -/
theorem C20_old_order_dependent :
    makeGlyphNamesOld fu0 ⟨.glyf 5 [notdef, nA, [], [], []], none, [.single1 [1, 2, 3] 1]⟩ ≠
    makeGlyphNamesOld fu0 ⟨.glyf 5 [notdef, nA, [], [], []], none, [.single1 [3, 2, 1] 1]⟩ := by
  decide

/-- Before the repair a ligature output lost its existing unique name (`fi` became `f_i`). -/
theorem C20_old_overwrites :
    makeGlyphNamesOld fu0 ⟨.glyf 5 [notdef, ['f'], ['i'], ['f', 'i'], []], none,
      [.lig [(1, 0)] [[([2], 3)]]]⟩ = some [notdef, ['f'], ['i'], ['f', '_', 'i'], ornName 1] := by
  decide

/-- Before the repair a cmap entry for a glyph outside the font was an index panic. -/
theorem C20_old_panics :
    makeGlyphNamesOld fu0 ⟨.glyf 3 [], some ⟨65, 66, fun c => if c = 66 then 7 else 1⟩, []⟩ = none := by
  decide

/-- the repaired function on the same three inputs -/
example : makeGlyphNames fu0 ⟨.glyf 5 [notdef, nA, [], [], []], none, [.single1 [3, 2, 1] 1]⟩ =
    some [notdef, nA, ['a', '.', '1'], ['a', '.', '1', '.', '1'], ['a', '.', '1', '.', '1', '.', '1']] := by
  decide +kernel
example : makeGlyphNames fu0 ⟨.glyf 5 [notdef, ['f'], ['i'], ['f', 'i'], []], none,
    [.lig [(1, 0)] [[([2], 3)]]]⟩ = some [notdef, ['f'], ['i'], ['f', 'i'], ornName 1] := by
  decide +kernel
example : makeGlyphNames (fun c => [Char.ofNat c]) ⟨.glyf 3 [], some ⟨65, 66, fun c => if c = 66 then 7 else 1⟩, []⟩ =
    some [notdef, ['A'], ornName 1] := by
  decide +kernel

/-! ## non-vacuity -/

/-- a font where the GSUB pass names three glyphs: two variants (`A.1`, `A.2`: `A` is taken by
the cmap pass) and a ligature (`A.2_B`) -/
example : makeGlyphNames (fun c => [Char.ofNat c])
    ⟨.glyf 6 [], some ⟨65, 66, fun c => if c = 65 then 1 else if c = 66 then 4 else 0⟩,
      [.single1 [1] 1, .single2 [(1, 0)] [3], .lig [(3, 0)] [[([4], 5)]]]⟩ =
    some [notdef, ['A'], ['A', '.', '1'], ['A', '.', '2'], ['B'], ['A', '.', '2', '_', 'B']] := by
  decide +kernel


/-- the hypotheses of `C20_stable_order` are met by a non-trivial pair -/
example : SubsEquiv [.single2 [(1, 0), (2, 1)] [3, 4], .single1 [3, 1] 1]
    [.single2 [(2, 1), (1, 0)] [3, 4], .single1 [1, 3] 1] :=
  .cons (.single2 _ (List.Perm.swap _ _ _) (by decide))
    (.cons (.single1 _ (List.Perm.swap _ _ _)) .nil)

/-- `cffMakeNames` on a CID-keyed font (no names) with text for two glyphs -/
example : cffMakeNames (fun nm => nm ≠ []) (fun g => if g = 1 ∨ g = 2 then some ['A'] else none)
    [[], [], [], []] = some [notdef, ['A'], ['A', '.', 'a', 'l', 't', '1'], ornName 1] := by
  decide

/-- a 31-character text name used twice: the second glyph cannot take `….alt1` (36 characters are
not valid) and falls back to a placeholder -/
example : cffMakeNames (fun nm => nm ≠ [] && decide (nm.length ≤ 31))
    (fun g => if g = 1 ∨ g = 2 then some (List.replicate 31 'A') else none) [[], [], []] =
    some [notdef, List.replicate 31 'A', ornName 1] := by
  decide +kernel

example : psFilter Gen.psNameKeep [70, 111, 111, 32, 91, 66, 93, 45, 233, 47, 126] = [70, 111, 111, 66, 45, 126] := by
  decide

end SfntV.GNames
