/-
C17 — the buffered binary reader is observationally a plain random-access byte view.
Only property theorems and non-vacuity examples live here; helper lemmas are in Proofs/Parser.
-/
import SfntV.Proofs.Parser

namespace SfntV.Props.C17
open SfntV SfntV.Parser

/-- One step: under the window invariant every exported operation returns exactly what the
plain byte view returns, moves the cursor as the byte view does, and keeps the invariant —
for every behaviour of the underlying reader (`o`). -/
theorem C17_refines (o : Oracle) (p : P) (h : p.Inv) (op : Op) (hop : op.ok) :
    (implStep o p op).1.Inv ∧ (implStep o p op).1.input = p.input ∧
    ((implStep o p op).1.cursor, (implStep o p op).2) = specStep p.input p.cursor op :=
  step_refines o p h op hop

/-- All histories: for every input, every short-read behaviour and every finite sequence of
operations (with `ReadBytes(n)` restricted to `n ≤ bufferSize`, as documented), the outputs of
the parser equal the outputs of a cursor over the plain byte slice. -/
theorem C17_histories (o : Oracle) (input : Bytes) (ops : List Op) (hops : ∀ op ∈ ops, op.ok) :
    implRun o (P.init input) ops = specRun input 0 ops := by
  have := histories o ops hops (P.init input) (init_inv input)
  simpa [P.init, P.cursor] using this

/-- What the byte view says about a fixed-size read: it fails iff it is non-empty and would
pass the end of input; otherwise it yields exactly the bytes at the cursor. -/
theorem C17_spec_fixed (input : Bytes) (c n : Nat) :
    (specBytes input c n = none ↔ 0 < n ∧ input.length < c + n) ∧
    (∀ b, specBytes input c n = some b → b = (input.drop c).take n) := by
  refine ⟨⟨specBytes_none input c n, ?_⟩, fun b h => (specBytes_some input c n b h).1⟩
  intro h
  unfold specBytes
  have : ¬ (n = 0 ∨ c + n ≤ input.length) := by omega
  simp [this]

/-- What the byte view says about a bulk `Read(buf)` with `len(buf) = n`: success iff it does
not pass the end, with exactly `input[c, c+n)`; otherwise an error with a short count `t < n`
whose bytes are `input[c, c+t)`, the cursor standing at `c+t` (no partial data as success). -/
theorem C17_spec_bulk (input : Bytes) (c n : Nat) :
    (n = 0 ∨ c + n ≤ input.length →
      specStep input c (.read n) = (c + n, .data ((input.drop c).take n))) ∧
    (¬ (n = 0 ∨ c + n ≤ input.length) →
      ∃ t, t < n ∧ specStep input c (.read n) = (c + t, .short ((input.drop c).take t))) := by
  have := specBulk_closed input (n + 1) n c [] (by omega)
  simpa [specStep] using this

/-! Non-vacuity: concrete states around the buffer boundary meet the hypotheses, and the
operation set is inhabited at 1023/1024/1025. -/

def oneByte : Oracle := ⟨fun _ _ _ => 1, by intro i w a hw ha; omega⟩

example : (P.init (List.replicate 3000 7)).Inv := init_inv _
example : (Op.bytes 1024).ok := by decide
example : ¬ (Op.bytes 1025).ok := by decide
example : ∀ op ∈ [Op.seek 1023, .u16, .seek 1025, .bytes 1024, .read 3000, .pos], op.ok := by decide

end SfntV.Props.C17
