/-
C01 (bytes, layout tables decoded) — non-vacuity of `C01_file_roundtrip_layout` and
`C01_file_roundtrip_cff_layout`: the example fonts with C08's example GSUB table lie in the domains.
-/
import SfntV.Props.C01FileLayout
import SfntV.Props.C01FileEx
import SfntV.Props.C01FileCffEx

namespace SfntV.Props.C01
open SfntV SfntV.Font SfntV.FontFile SfntV.Otl

/-- the bytes are what C08's encoder writes for its example `Info` -/
theorem exG_encode : InfoA.Info.encode InfoA.gsubCodec InfoA.exG = .ok exGsubBytes := by
  sorry

theorem C01_file_example_layout_in_domain : InDomainFileL exEnvF exFileFontL := by
  sorry

theorem C01_file_example_layout : ∃ b, writeFile exEnvF exFileFontL = .ok b ∧
    readFile layoutDec (fun _ _ => 0) b = .ok (nfFile exFileFontL) :=
  C01_file_roundtrip_layout exEnvF (fun _ _ => 0) exFileFontL C01_file_example_layout_in_domain

theorem C01_file_example_cff_layout_in_domain : InDomainFileCffL exDecCffL exEnvF exCffFontL := by
  sorry

theorem C01_file_example_cff_layout : ∃ b, writeFileCff exEnvF exCffFontL = .ok b ∧
    readFileCff layoutDec exDecCffL (fun _ _ => 0) b = .ok (nfFileCff exCffFontL) :=
  C01_file_roundtrip_cff_layout exDecCffL exEnvF (fun _ _ => 0) exCffFontL C01_file_example_cff_layout_in_domain

end SfntV.Props.C01
