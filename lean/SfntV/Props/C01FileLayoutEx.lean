/-
C01 (bytes, layout tables decoded) — non-vacuity of `C01_file_roundtrip_layout` and
`C01_file_roundtrip_cff_layout`: the example fonts with C08's example GSUB table lie in the domains.
Guards that do not look at the GSUB bytes are reused from Props/C01FileEx.lean / C01FileCffEx.lean
(the derived head / OS/2 / name values coincide: `lex_*_eq`); the file-size guard is recomputed.
-/
import SfntV.Props.C01FileLayout
import SfntV.Props.C01FileEx
import SfntV.Props.C01FileCffEx

namespace SfntV.Props.C01
open SfntV SfntV.Font SfntV.FontFile SfntV.Otl

/-- the bytes are what C08's encoder writes for its example `Info` -/
theorem exG_encode : InfoA.Info.encode InfoA.gsubCodec InfoA.exG = .ok exGsubBytes := by
  unfold InfoA.Info.encode
  have : InfoA.exG.scripts = [] := rfl
  rw [this, InfoA.sl_nil]
  have hF : FL.encode InfoA.exG.features = .ok [0, 1, 108, 105, 103, 97, 0, 8, 0, 0, 0, 3, 0, 0, 0, 1, 0, 2] := by decide
  rw [hF]
  have hL : LL.encode (InfoA.exG.lookups.map (InfoA.toLL InfoA.gsubCodec)) = .ok (wordsToBytes
      [3, 8, 50, 84, 1, 0, 2, 10, 24, 1, 6, 10, 1, 2, 5, 6, 2, 10, 2, 20, 21, 1, 2, 7, 9, 4, 16, 1, 10, 2, 1, 18, 1, 8,
       1, 4, 90, 2, 31, 1, 1, 30, 5, 0, 1, 8, 3, 2, 1, 14, 22, 0, 1, 1, 2, 3, 4, 1, 1, 7]) := by decide
  rw [hL]
  decide

theorem lex_head_eq : headInfoOf exFileFontL = headInfoOf exFileFont := by decide +kernel
theorem lex_os2_eq : os2InfoOf exFileFontL = os2InfoOf exFileFont := by decide +kernel
theorem lex_nameEntries : nameEntries (deriveName exEnvF.env (metaOf exFileFontL)) = exNameEntries := by
  decide +kernel

theorem lex_headc_eq : headInfoOfCff exCffFontL = headInfoOfCff exCffFont := by decide +kernel
theorem lex_os2c_eq : os2InfoOfCff exCffFontL = os2InfoOfCff exCffFont := by decide +kernel
theorem lex_nameEntriesC : nameEntries (deriveName exEnvF.env (metaOfCff exCffFontL)) = exNameEntries := by
  decide +kernel
theorem lex_cffInfo : exCffFontL.payload.info = deriveCff (metaOfCff exCffFontL) := by decide +kernel


theorem lex_nameEncode :
    Names.nameEncode (nameEntries (deriveName exEnvF.env (metaOf exFileFontL))) 1 =
      Names.encodeBytes
        (Names.nameBuild (Names.sortLangs Gen.appleBCP) (Names.sortLangs Gen.msBCP)
          (nameEntries (deriveName exEnvF.env (metaOf exFileFontL))) 1).2
        (Names.nameBuild (Names.sortLangs Gen.appleBCP) (Names.sortLangs Gen.msBCP)
          (nameEntries (deriveName exEnvF.env (metaOf exFileFontL))) 1).1.data := by
  unfold Names.nameEncode
  rw [Names.nameEncodeWith_eq, List.mergeSort_of_pairwise (by decide +kernel)]

theorem lex_size : ∀ ts, writeTables exEnvF exFileFontL = .ok ts → Header.fileSize (Header.named ts) < 4294967296 := by
  have : (match writeTables exEnvF exFileFontL with | .ok ts => Header.fileSize (Header.named ts) | _ => 0) < 4294967296 := by
    unfold writeTables
    simp only []
    rw [lex_nameEncode]
    decide +kernel
  intro ts h; rw [h] at this; exact this

theorem lex_ne : exGsubBytes ≠ [] := by unfold exGsubBytes; exact List.cons_ne_nil _ _

/-- three lookups, four subtables -/
theorem exG_budget : InfoA.BudgetOk InfoA.exG := by unfold InfoA.BudgetOk; decide

theorem lex_layout : LayoutOk none (some exGsubBytes) none where
  gdef := by intro b h; cases h
  gsub := by intro b h; cases h; exact ⟨InfoA.exG, InfoA.exG_ok, exG_budget, exG_encode⟩
  gpos := by intro b h; cases h

theorem C01_file_example_layout_in_domain : InDomainFileL exEnvF exFileFontL where
  core :=
    { glyphs := ex_glyphs
      count := ex_count
      widthsLen := ex_widthsLen
      widthsRange := ex_widthsRange
      extents := ex_extents
      maxp := ex_maxp
      head := by rw [lex_head_eq]; exact ex_head
      ctime := ex_ctime
      mtime := ex_mtime
      os2 := by rw [lex_os2_eq]; exact ex_os2
      ascent := ex_ascent
      descent := ex_descent
      lineGap := ex_lineGap
      caret := ex_caret
      name := lex_nameEntries ▸ ex_name
      cmap := ex_cmap
      names := ex_names
      namesLen := ex_namesLen
      gdef := by intro b h; cases h
      gsub := by intro b h; cases h; exact ⟨lex_ne, rfl⟩
      gpos := by intro b h; cases h
      version := ex_version
      sideTags := ex_sideTags
      sideNodup := ex_sideNodup
      sideCount := ex_sideCount
      size := lex_size }
  layout := lex_layout

theorem C01_file_example_layout : ∃ b, writeFile exEnvF exFileFontL = .ok b ∧
    readFile layoutDec (fun _ _ => 0) b = .ok (nfFile exFileFontL) :=
  C01_file_roundtrip_layout exEnvF (fun _ _ => 0) exFileFontL C01_file_example_layout_in_domain

theorem lex_nameEncodeC :
    Names.nameEncode (nameEntries (deriveName exEnvF.env (metaOfCff exCffFontL))) 1 =
      Names.encodeBytes
        (Names.nameBuild (Names.sortLangs Gen.appleBCP) (Names.sortLangs Gen.msBCP)
          (nameEntries (deriveName exEnvF.env (metaOfCff exCffFontL))) 1).2
        (Names.nameBuild (Names.sortLangs Gen.appleBCP) (Names.sortLangs Gen.msBCP)
          (nameEntries (deriveName exEnvF.env (metaOfCff exCffFontL))) 1).1.data := by
  unfold Names.nameEncode
  rw [Names.nameEncodeWith_eq, List.mergeSort_of_pairwise (by decide +kernel)]

theorem lex_sizeC : ∀ ts, writeTablesCff exEnvF exCffFontL = .ok ts → Header.fileSize (Header.named ts) < 4294967296 := by
  have : (match writeTablesCff exEnvF exCffFontL with | .ok ts => Header.fileSize (Header.named ts) | _ => 0) < 4294967296 := by
    unfold writeTablesCff
    simp only []
    rw [lex_nameEncodeC]
    decide +kernel
  intro ts h; rw [h] at this; exact this

theorem C01_file_example_cff_layout_in_domain : InDomainFileCffL exDecCffL exEnvF exCffFontL where
  core :=
    { cff := ⟨by decide, if_pos rfl⟩
      cffInfo := lex_cffInfo
      count := cffex_count
      extentsLen := cffex_extentsLen
      extents := cffex_extents
      head := by rw [lex_headc_eq]; exact cffex_head
      ctime := cffex_ctime
      mtime := cffex_mtime
      os2 := by rw [lex_os2c_eq]; exact cffex_os2
      ascent := cffex_ascent
      descent := cffex_descent
      lineGap := cffex_lineGap
      caret := cffex_caret
      name := lex_nameEntriesC ▸ ex_name
      cmap := cffex_cmap
      gdef := by intro b h; cases h
      gsub := by intro b h; cases h; exact ⟨lex_ne, rfl⟩
      gpos := by intro b h; cases h
      version := cffex_version
      size := lex_sizeC }
  layout := lex_layout

theorem C01_file_example_cff_layout : ∃ b, writeFileCff exEnvF exCffFontL = .ok b ∧
    readFileCff layoutDec exDecCffL (fun _ _ => 0) b = .ok (nfFileCff exCffFontL) :=
  C01_file_roundtrip_cff_layout exDecCffL exEnvF (fun _ _ => 0) exCffFontL C01_file_example_cff_layout_in_domain


end SfntV.Props.C01
