/-
C19 — the lookup description language (opentype/gtab/builder) is a faithful, total notation.
Only property theorems, full statements (`…_full : Prop`) and non-vacuity examples live here;
helper lemmas are in Proofs/DslLexer, Proofs/DslProc and Proofs/DslRoundtrip.
The models mirror the code with the repairs of DESIGN §9 #22, #23, #29, #30, #41 applied
and #42 applied (and the two printer defects found on the way: numeric ranges, ranges in GSUB4).
-/
import SfntV.Proofs.DslLexer
import SfntV.Proofs.DslRoundtrip
import SfntV.Proofs.DslTotal
import SfntV.Proofs.DslAll

namespace SfntV.Props.C19
open SfntV SfntV.Dsl

/-! ## facts regenerated from the source -/

/-- The item kinds of lexer.go, in iota order, are the ones the model numbers `tError … tString`,
and the single-character token table is the one the model consults. -/
theorem C19_token_table :
    Gen.dslItemTypes = ["itemError", "itemEOF", "itemEOL", "itemAmpersand", "itemArrow", "itemAt",
      "itemBar", "itemColon", "itemComma", "itemEqual", "itemHyphen", "itemIdentifier", "itemInteger",
      "itemOr", "itemSemicolon", "itemSlash", "itemSquareBracketClose", "itemSquareBracketOpen",
      "itemString"] ∧
    Gen.dslSingleCharTokens = [(38, tAmpersand), (44, tComma), (47, tSlash), (58, tColon),
      (59, tSemicolon), (61, tEqual), (64, tAt), (91, tSquareBracketOpen), (93, tSquareBracketClose)] := by
  decide

/-- Every flag `explainFlags` can write is written as `" -"` followed by a spelling that
`readLookupFlags` reads as the same bit, and every flag the parser reads is one the printer
writes: the two tables (regenerated from explain.go and parser.go) describe the same flags. -/
theorem C19_flags_same_spelling :
    (∀ e ∈ Gen.dslExplainFlagsC, e.2.take 2 = [32, 45] ∧ (e.2.drop 2, e.1) ∈ Gen.dslParseFlagsC) ∧
    (∀ p ∈ Gen.dslParseFlagsC, ([32, 45] ++ p.1) ∈ Gen.dslExplainFlagsC.map (·.2)) ∧
    (Gen.dslParseFlagsC.map (·.2)).foldl (· ||| ·) 0 = 15 := by
  decide

/-! ## lookup flags -/

def font3 : Font := { numGlyphs := 3, names := [], cmap := [] }

/-- For every subset of the four flags the language covers (ignore marks / ligatures / base
glyphs, right-to-left), describing a lookup with these flags and parsing the description back
yields a lookup with exactly these flags (whole pipeline: printer, UTF-8 decoding, lexer,
parser). -/
theorem C19_flags : ∀ f : Fin 16,
    rtOk font3 [{ typ := 1, flags := f.val, subtables := [.gsub1_1 [1] 1] }] = true := by
  decide +kernel

/-! ## the lexer -/

/-- The lexer model is total: for every input (any bytes, decoded as Go decodes UTF-8) the list
of items sent is finite and non-empty, its last item is EOF or an error item, no earlier item
is, every item carries a line number ≥ 1, and there are at most (number of bytes + 1) items. -/
theorem C19_lex_total (bs : List Nat) :
    ∃ pre t, lexBytes bs = pre ++ [t] ∧ (t.typ = tEOF ∨ t.typ = tError) ∧
      (∀ u ∈ pre, u.typ ≠ tEOF ∧ u.typ ≠ tError) ∧ (∀ u ∈ lexBytes bs, 1 ≤ u.line) ∧
      (lexBytes bs).length ≤ bs.length + 1 := by
  obtain ⟨pre, t, e, ht, hp, hl, hn⟩ := lexFrom_ok (decodeUtf8 bs) (.start []) 1
  refine ⟨pre, t, e, ?_, ?_, hl, ?_⟩
  · simpa [Tok.terminal] using ht
  · intro u hu
    have := hp u hu
    simpa [Tok.terminal] using this
  · have := decodeAux_length bs 0
    simp only [pending] at hn
    unfold lexBytes lexRunes decodeUtf8
    unfold decodeUtf8 at hn
    omega

/-! ## goroutines: process model -/

open Proc in
/-- Whatever the scheduler does: any two maximal schedules of the process model (lexer
goroutine, parser, decoder goroutine; unbuffered channels) from the same state end in the same
state after the same number of steps. -/
theorem C19_confluent (s f1 f2 : Sys) (σ1 σ2 : List Actor)
    (h1 : run σ1 s = some f1) (hf1 : Final f1) (h2 : run σ2 s = some f2) (hf2 : Final f2) :
    f1 = f2 ∧ σ1.length = σ2.length :=
  confluent σ1 σ2 s f1 f2 h1 hf1 h2 hf2

open Proc in
/-- No schedule is infinite: a schedule is never longer than the number of instructions the
processes have left. -/
theorem C19_terminates (s f : Sys) (σ : List Actor) (h : run σ s = some f) : σ.length ≤ size s := by
  have := run_length σ s f h
  omega

open Proc in
/-- The repaired `Parse`: a lexer sending `n` items then closing the channel, a parser taking
`k` items and then either panicking in `fatal` (the deferred function drains the channel) or
returning normally, which it only does on the EOF item, the last one (`n ≤ k`).  Under every
schedule that runs until nothing can move, both processes have finished: no goroutine is left
blocked on a send or a receive. -/
theorem C19_no_leak (n k : Nat) (fatal : Bool) (h : fatal = true ∨ n ≤ k) (σ : List Actor) (f : Sys)
    (hr : run σ (repaired n k fatal) = some f) (hf : Final f) :
    f.p = [] ∧ f.c = [] ∧ blocked f = 0 := by
  have hi := inv_run σ _ f (inv_repaired n k fatal h) hr
  obtain ⟨hp, hc⟩ := inv_final f hi hf
  refine ⟨hp, hc, ?_⟩
  have := hi.noD
  simp [blocked, hp, hc, this]

open Proc in
/-- The same for any programs satisfying the invariant (sends and internal steps then one
`close`; a parser without decoder goroutine that drains or takes at least as many items as are
sent), not only the regular shape of `repaired`. -/
theorem C19_no_leak_general (s f : Sys) (hi : Inv s) (σ : List Actor) (hr : run σ s = some f)
    (hf : Final f) : f.p = [] ∧ f.c = [] :=
  inv_final f (inv_run σ s f hi hr) hf

open Proc in
/-- The code before the repair (DESIGN §9 #23): the parser starts a decoder goroutine for a
string item and `fatal` fires after one of its two runes.  There is a maximal schedule after
which the decoder is still blocked on its send — and by `C19_confluent` every maximal schedule
ends in that state: the goroutine is leaked whatever the scheduler does. -/
theorem C19_leak_before_repair :
    ∃ σ f, run σ (original 2 1 2 1) = some f ∧ Final f ∧ f.d = [.send, .close] ∧ blocked f = 1 :=
  ⟨[.P, .C, .P, .C, .D, .P, .P, .P, .C], _, rfl, by decide, rfl, rfl⟩

/-! ## round trips -/

/-- a glyph name the notation can use: it lexes as exactly one identifier -/
def identOkB (name : List Nat) : Bool :=
  match lexBytes name with
  | [t, e] => t.typ == tIdentifier && t.bytes == name && e.typ == tEOF
  | _ => false

def ascending : List Nat → Bool
  | a :: b :: r => a < b && ascending (b :: r)
  | _ => true

/-- fonts whose glyphs the notation can name: fewer than 65536 glyphs, non-empty names are
distinct identifiers, the cmap maps distinct runes to glyphs of the font -/
def FontOkB (f : Font) : Bool :=
  f.numGlyphs < 65536 && f.names.length ≤ f.numGlyphs &&
  f.names.all (fun n => n == [] || identOkB n) &&
  (f.names.filter (· != [])).Nodup &&
  f.cmap.all (fun p => p.2 < f.numGlyphs) && (f.cmap.map (·.1)).Nodup

/-- subtables the language has syntax for (coverage ascending = canonical index order) -/
def SubOkB (f : Font) : Subtable → Bool
  | .gsub1_1 cov d => cov != [] && ascending cov && cov.all (fun g => g < f.numGlyphs && (g + d) % 65536 < f.numGlyphs) && d < 65536
  | .gsub1_2 cov s => cov != [] && ascending cov && cov.length == s.length && (cov ++ s).all (· < f.numGlyphs)
  | .gsub2_1 cov r => cov != [] && ascending cov && cov.length == r.length && cov.all (· < f.numGlyphs) &&
      r.all (fun l => l != [] && l.all (· < f.numGlyphs))
  | .gsub3_1 cov r => cov != [] && ascending cov && cov.length == r.length && cov.all (· < f.numGlyphs) &&
      r.all (fun l => l.all (· < f.numGlyphs))
  | .gsub4_1 cov r => cov != [] && ascending cov && cov.length == r.length && cov.all (· < f.numGlyphs) &&
      r.all (fun ligs => ligs != [] && ligs.all fun lig => lig.2 < f.numGlyphs && lig.1.all (· < f.numGlyphs))
  | _ => false

def subType : Subtable → Nat
  | .gsub1_1 .. => 1
  | .gsub1_2 .. => 1
  | .gsub2_1 .. => 2
  | .gsub3_1 .. => 3
  | .gsub4_1 .. => 4
  | _ => 0

/-- one or more subtables, all of the lookup's type, separated by `||` in the notation -/
def LookupOkB (f : Font) (l : Lookup) : Bool :=
  l.flags < 16 && l.subtables != [] && l.subtables.all fun s => SubOkB f s && subType s == l.typ

/-- FULL statement of the round trip for lookup type `t` (GSUB 1–4): for every font of the
domain and every list of lookups of that type in the domain, parsing the description gives the
lookups back (a 1.2 table with constant offset comes back as 1.1). -/
def C19_roundtrip_full (t : Nat) : Prop :=
  ∀ (f : Font) (ls : List Lookup), FontOkB f = true → (∀ l ∈ ls, LookupOkB f l = true ∧ l.typ = t) →
    parseBytes f (explainGsub f ls) = .ok (normalize ls)

/-! The proved part: exhaustive universes over two small fonts — one without glyph names and
without character map (glyphs written as numbers, ranges `1 - 3 -> 2 - 4`), one with names, an
unnamed glyph, and a character map containing `"` and `\` (strings with escapes). -/

def fontU : Font := { numGlyphs := 5, names := [], cmap := [] }
/-- .notdef A B (unnamed) x1; 'A'→1 'B'→2 '"'→3 '\'→4 'C'→1 (two runes for one glyph) -/
def fontN : Font :=
  { numGlyphs := 5, names := [[46, 110, 111, 116, 100, 101, 102], [65], [66], [], [120, 49]],
    cmap := [(65, 1), (66, 2), (34, 3), (92, 4), (67, 1)] }

example : FontOkB fontU = true := by decide +kernel
example : FontOkB fontN = true := by decide +kernel

def covs (gs : List Nat) : List (List Nat) := (sublists gs).filter (· != [])

def univ1_1 (f : Font) : List Lookup :=
  (covs [0, 1, 2, 3]).flatMap fun cov =>
    ([0, 1, 65535].filter fun d => cov.all fun g => (g + d) % 65536 < f.numGlyphs).map fun d =>
      { typ := 1, flags := 0, subtables := [.gsub1_1 cov d] }

def univ1_2 : List Lookup :=
  (covs [0, 1, 2]).flatMap fun cov =>
    (assignments [0, 2, 3] cov).map fun s => { typ := 1, flags := 4, subtables := [.gsub1_2 cov s] }

def rhsLists (allowEmpty : Bool) : List (List Nat) :=
  (listsUpTo [1, 2, 3, 4] 2).filter fun l => allowEmpty || l != []

def univ2 : List Lookup :=
  (covs [1, 2, 4]).flatMap fun cov =>
    (assignments [[1], [3, 1]] cov).map fun r => { typ := 2, flags := 8, subtables := [.gsub2_1 cov r] }

def univ2wide : List Lookup :=
  (rhsLists false).flatMap fun r => [1, 3].map fun g =>
    { typ := 2, flags := 0, subtables := [.gsub2_1 [g] [r]] }

def univ3 : List Lookup :=
  (covs [1, 2, 4]).flatMap fun cov =>
    (assignments [[], [3, 1], [1]] cov).map fun r => { typ := 3, flags := 2, subtables := [.gsub3_1 cov r] }

def univ3wide : List Lookup :=
  (rhsLists true).flatMap fun r => [2, 4].map fun g =>
    { typ := 3, flags := 0, subtables := [.gsub3_1 [g] [r]] }

def ligs : List (List (List Nat × Nat)) :=
  let one : List (List Nat × Nat) := [([], 1), ([2], 3), ([1, 4], 2)]
  one.map ([·]) ++ [[([2], 3), ([], 1)], [([], 1), ([2], 3)], [([1, 4], 2), ([1, 4], 3)]]

def univ4 : List Lookup :=
  (covs [1, 3]).flatMap fun cov =>
    (assignments ligs cov).map fun r => { typ := 4, flags := 1, subtables := [.gsub4_1 cov r] }

def cross : List Lookup := (univ1_1 fontN).take 2 ++ univ2wide.take 1 ++ univ3wide.take 2 ++ univ4.take 1

example : (univ1_1 fontU ++ univ1_2 ++ univ2 ++ univ2wide ++ univ3 ++ univ3wide ++ univ4).all
    (fun l => LookupOkB fontU l && LookupOkB fontN l) = true := by decide +kernel

/-- Glyph lists, for every font of the domain and every list of its glyphs: what `writeGlyphList`
writes (names, numbers for unnamed glyphs, quoted strings of printable runes through the cmap
with `\"` and `\\` escaped, blanks between names), followed by a line break, is lexed and read
back by `readGlyphList` as exactly the same list.  The domain `FontOk`: fewer than 65536 glyphs,
non-empty glyph names distinct and each the UTF-8 text of one identifier, the cmap maps
distinct runes to glyphs of the font. -/
theorem C19_glyphlist_roundtrip (f : Font) (hf : FontOk f) (gl : List Nat) (h : ∀ g ∈ gl, g < f.numGlyphs) :
    glRun f gl = .ok gl :=
  glyphlist_roundtrip f hf gl h

/-- GSUB 2 (multiple substitution), for every font of the domain and every list of lookups of
type 2 with any of the 16 flag sets, one or more subtables (`||`), ascending coverage, glyphs
inside the font and non-empty replacement sequences: parsing the description gives exactly
the lookups back (printer, UTF-8, lexer, parser; several lookups per description). -/
theorem C19_roundtrip_gsub2 (f : Font) (hf : FontOk f) (ls : List Lookup) (h : ∀ l ∈ ls, Lookup2Ok f l) :
    parseBytes f (explainGsub f ls) = .ok ls :=
  roundtrip_gsub2 f hf ls h

/-- GSUB 3 (alternates), same generality; the alternates keep their order and may repeat or be
empty (`[]`). -/
theorem C19_roundtrip_gsub3 (f : Font) (hf : FontOk f) (ls : List Lookup) (h : ∀ l ∈ ls, Lookup3Ok f l) :
    parseBytes f (explainGsub f ls) = .ok ls :=
  roundtrip_gsub3 f hf ls h

/-- GSUB 4 (ligatures), same generality: several ligatures per first glyph keep their order,
components and ligature glyph are any glyphs of the font, one-glyph "ligatures" included. -/
theorem C19_roundtrip_gsub4 (f : Font) (hf : FontOk f) (ls : List Lookup) (h : ∀ l ∈ ls, Lookup4Ok f l) :
    parseBytes f (explainGsub f ls) = .ok ls :=
  roundtrip_gsub4 f hf ls h

/-- GSUB 1 (single substitution), same generality, formats 1.1 (coverage + offset, offsets
taken modulo 65536) and 1.2 (coverage + substitutes): runs of three or more consecutive glyphs
with constant offset are written as ranges `a - b -> c - d` (with the repaired spacing, also
for glyphs written as numbers) and read back glyph by glyph; a 1.2 table whose offsets are all
equal comes back as 1.1 (`normalize`), which is the only information the notation drops. -/
theorem C19_roundtrip_gsub1 (f : Font) (hf : FontOk f) (ls : List Lookup) (h : ∀ l ∈ ls, Lookup1Ok f l) :
    parseBytes f (explainGsub f ls) = .ok (normalize ls) :=
  roundtrip_gsub1 f hf ls h

/-- Descriptions that mix lookups of all four GSUB types 1–4 in any order and number (each
with any flag set and any number of subtables). -/
theorem C19_roundtrip_lists (f : Font) (hf : FontOk f) (ls : List Lookup) (h : ∀ l ∈ ls, Gsub14Ok f l) :
    parseBytes f (explainGsub f ls) = .ok (normalize ls) :=
  roundtrip_gsub14_lists f hf ls h

/-! Non-vacuity of the domain: the font with names, an unnamed glyph and a cmap containing `"` and
`\` is in it; so is the font without names; lookups with two subtables and flags satisfy the
hypotheses. -/

theorem fontN_ok : FontOk fontN := by
  refine ⟨by decide, by decide, ?_, ?_, by decide, by decide, by decide⟩
  · intro n hn hne
    simp [fontN] at hn
    rcases hn with rfl | rfl | rfl | rfl | rfl
    · exact nameOk_ascii 46 _ (by decide) (by decide)
    · exact nameOk_ascii 65 _ (by decide) (by decide)
    · exact nameOk_ascii 66 _ (by decide) (by decide)
    · exact absurd rfl hne
    · exact nameOk_ascii 120 _ (by decide) (by decide)
  · intro i j hi hj h1 h2
    have hi5 : i < 5 := hi
    have hj5 : j < 5 := hj
    rcases i with _ | _ | _ | _ | _ | i <;> rcases j with _ | _ | _ | _ | _ | j <;>
      first | rfl | omega | (simp [fontN] at h1 h2)

theorem fontU_ok : FontOk fontU := by
  refine ⟨by decide, by decide, ?_, ?_, by decide, by decide, by decide⟩
  · intro n hn; simp [fontU] at hn
  · intro i j hi; simp [fontU] at hi

example : Lookup2Ok fontN { typ := 2, flags := 9, subtables := [.gsub2_1 [1, 4] [[3], [1, 2, 3]], .gsub2_1 [2] [[2, 2]]] } :=
  ⟨rfl, by decide, by simp, by
    intro st hst
    simp at hst
    rcases hst with rfl | rfl
    · exact ⟨_, _, rfl, ⟨by simp, by simp [Asc], rfl, by decide, by decide⟩⟩
    · exact ⟨_, _, rfl, ⟨by simp, by simp [Asc], rfl, by decide, by decide⟩⟩⟩

example : Lookup3Ok fontU { typ := 3, flags := 0, subtables := [.gsub3_1 [1, 2] [[4, 3, 3], []]] } :=
  ⟨rfl, by decide, by simp, by
    intro st hst
    simp at hst
    subst hst
    exact ⟨_, _, rfl, ⟨by simp, by simp [Asc], rfl, by decide, by decide⟩⟩⟩

/-- kernel evaluation on concrete GSUB 1 lookups: numbers and ranges, names and strings -/
example : (∀ l ∈ (univ1_1 fontU).take 12 ++ univ1_2.take 6, rtOk fontU [l] = true) ∧
    (∀ l ∈ (univ1_1 fontN).take 12, rtOk fontN [l] = true) := by
  decide +kernel

/-- kernel evaluation of the same pipeline on concrete lookups (what the theorems say, computed) -/
example : (∀ l ∈ univ2wide.take 6, rtOk fontN [l] = true) ∧ (∀ l ∈ univ3wide.take 6, rtOk fontU [l] = true) := by
  decide +kernel

example : ∀ l ∈ univ4.take 8, rtOk fontN [l] = true := by decide +kernel

def multi : List Lookup :=
  [ { typ := 1, flags := 0, subtables := [.gsub1_1 [1] 1, .gsub1_2 [2, 3] [1, 4], .gsub1_1 [0, 1, 2] 2] },
    { typ := 2, flags := 3, subtables := [.gsub2_1 [1] [[2, 2]], .gsub2_1 [1, 4] [[3], [1, 2, 3]]] },
    { typ := 3, flags := 8, subtables := [.gsub3_1 [2] [[]], .gsub3_1 [1, 2] [[4, 3], [2]]] },
    { typ := 4, flags := 4, subtables := [.gsub4_1 [1] [[([2], 3), ([], 4)]], .gsub4_1 [1, 3] [[([], 2)], [([1, 1], 1)]]] } ]

example : multi.all (fun l => LookupOkB fontU l && LookupOkB fontN l) = true := by decide +kernel

/-- several subtables per lookup and several lookups per description, computed -/
example : rtOk fontU multi = true ∧ rtOk fontN multi = true := by
  decide +kernel

/-! GPOS 1 and 2 (`ExplainGpos`, lookups joined by a line break) -/

def rtOkP (f : Font) (ls : List Lookup) : Bool :=
  match parseBytes f (explainGpos f ls) with
  | .ok r => r == normalize ls
  | .error _ => false

def vrs : List (Option VR) :=
  [none, some ⟨1, 0, 0, 0⟩, some ⟨0, -2, 0, 0⟩, some ⟨0, 0, 500, 0⟩, some ⟨0, 0, 0, -3⟩, some ⟨-32768, 32767, 1, -1⟩,
   some ⟨0, 0, 0, 0⟩]

def pas : List PairAdj := [(none, none), (some ⟨1, 0, 0, 0⟩, none), (none, some ⟨0, 0, 0, 7⟩),
  (some ⟨0, -5, 2, 0⟩, some ⟨3, 0, 0, 0⟩), (some ⟨0, 0, 0, 0⟩, some ⟨0, 0, 0, 0⟩)]

def univP1 : List Lookup :=
  ((covs [1, 2, 4]).flatMap fun cov => vrs.map fun v =>
      ({ typ := 1, flags := 9, subtables := [.gpos1_1 cov v] } : Lookup)) ++
  ((covs [1, 3]).flatMap fun cov => (assignments vrs cov).map fun a =>
      ({ typ := 1, flags := 0, subtables := [.gpos1_2 cov a] } : Lookup)) ++
  [{ typ := 1, flags := 2, subtables := [.gpos1_2 [2] [some ⟨1, 2, 3, 4⟩], .gpos1_1 [1, 2] none, .gpos1_1 [3] (some ⟨0, 0, 1, 0⟩)] }]

def univP2 : List Lookup :=
  (pas.flatMap fun a => pas.map fun b =>
      ({ typ := 2, flags := 4, subtables := [.gpos2_1 [((1, 2), a), ((1, 4), b), ((3, 1), a)]] } : Lookup)) ++
  (pas.flatMap fun a => pas.map fun b =>
      ({ typ := 2, flags := 0, subtables :=
          [.gpos2_2 [1, 2, 3] [(1, 1), (3, 2), (4, 1)] [(2, 1)] [[a, b], [b, a], [a, a]]] } : Lookup)) ++
  [{ typ := 2, flags := 1, subtables :=
      [.gpos2_2 [2] [(2, 1)] [(1, 2), (3, 1)] [[pas[1]!, pas[2]!, pas[3]!], [pas[3]!, pas[0]!, pas[1]!]],
       .gpos2_1 [((2, 2), pas[3]!)],
       .gpos2_2 [1, 4] [(4, 1)] [(4, 1)] [[pas[0]!, pas[1]!], [pas[2]!, pas[3]!]]] }]

/-- FULL statement for GPOS type `t` (1, 2), over lookups whose subtables are well-formed for the
font (coverage ascending, glyphs inside the font, class numbers 1…k all used, matrix of
(classes₁+1) × (classes₂+1) entries, values in int16): deferred to the correspondence
(`dsl.roundtrip`, `dsl.modelrt` with `tab=gpos`). -/
def C19_roundtrip_gpos_full (t : Nat) (dom : Font → Lookup → Prop) : Prop :=
  ∀ (f : Font) (ls : List Lookup), FontOkB f = true → (∀ l ∈ ls, dom f l ∧ l.typ = t) →
    parseBytes f (explainGpos f ls) = .ok (normalize ls)

/-- GPOS 1 (single adjustment), for every font of the domain and every list of GPOS lookups of
type 1 (any flag set, any number of subtables of formats 1.1 — a glyph set and one value
record — and 1.2 — a value record per glyph —, values anywhere in int16 including `dy`):
parsing `ExplainGpos` joined by line breaks gives the lookups back, an all-zero value record
coming back as none (`normalize`). -/
theorem C19_roundtrip_gpos1 (f : Font) (hf : FontOk f) (ls : List Lookup) (h : ∀ l ∈ ls, LookupP1Ok f l) :
    parseBytes f (explainGpos f ls) = .ok (normalize ls) :=
  roundtrip_gpos1 f hf ls h

/-- GPOS 2 (pair adjustment), for every font of the domain and every list of GPOS lookups of
type 2: any flag set, any number of subtables, each a glyph-pair table (format 2.1: pairs in
ascending order, first and optional second value record `a & b`) or a class-pair table (format
2.2: ascending coverage, two class lists in which the classes 1…k are all used, a matrix of
(classes₁+1) × (classes₂+1) adjustments `a & b`, one row per line, `;` after the last) — in any
order, a class-pair table also first or last in its lookup, where the parser takes the line
break that follows it.  All values anywhere in int16; all-zero value records come back as none
(`normalize`). -/
theorem C19_roundtrip_gpos2 (f : Font) (hf : FontOk f) (ls : List Lookup) (h : ∀ l ∈ ls, LookupP2Ok f l) :
    parseBytes f (explainGpos f ls) = .ok (normalize ls) :=
  roundtrip_gpos2 f hf ls h

/-- GPOS 3 (cursive attachment), for every font of the domain and every list of GPOS lookups of
type 3: any flag set, any number of subtables, each with an ascending non-empty coverage inside
the font and one record `glyph: x,y to x,y` per covered glyph (entry and exit anchors anywhere
in int16), records separated by `;` and a line break, the first subtable starting on a new
line. -/
theorem C19_roundtrip_gpos3 (f : Font) (hf : FontOk f) (ls : List Lookup) (h : ∀ l ∈ ls, LookupP3Ok f l) :
    parseBytes f (explainGpos f ls) = .ok (normalize ls) :=
  roundtrip_gpos3 f hf ls h

/-- GPOS 4 (mark-to-base attachment), for every font of the domain and every list of GPOS
lookups of type 4: any flag set, any number of subtables, each with at least one mark record
`mark glyph: class@x,y;` (glyphs ascending, the classes used are exactly 0 … k-1) and any number
of base records `base glyph: @x,y … ;` (glyphs ascending, k anchors each), coordinates anywhere
in int16, one record per line; the parser takes the line break after the last record, also the
one that separates the lookup from the next. -/
theorem C19_roundtrip_gpos4 (f : Font) (hf : FontOk f) (ls : List Lookup) (h : ∀ l ∈ ls, LookupP4Ok f l) :
    parseBytes f (explainGpos f ls) = .ok (normalize ls) :=
  roundtrip_gpos4 f hf ls h

/-- GPOS descriptions, for every font of the domain: any number of lookups of types 1 (formats
1.1 and 1.2), 2 (formats 2.1 and 2.2), 3 and 4, in any order, each with any flag set and any
number of subtables. -/
theorem C19_roundtrip_gpos_lists (f : Font) (hf : FontOk f) (ls : List Lookup) (h : ∀ l ∈ ls, GposLook4Ok f l) :
    parseBytes f (explainGpos f ls) = .ok (normalize ls) :=
  roundtrip_gpos1234 f hf ls h

/-- the domain is inhabited: a mark-to-base subtable with two classes -/
example : Gpos4Sub fontN (.gpos4_1 [(1, 0, -32768, 32767), (2, 1, 0, 0), (4, 0, 7, -20)]
    [(1, [(0, 0), (-1, 1)]), (3, [(500, 0), (0, -7)])]) := by
  refine ⟨_, _, rfl, ⟨by simp, by simp [Asc], ?_, by decide, by simp [Asc], ?_⟩⟩
  · intro r hr
    simp at hr
    rcases hr with rfl | rfl | rfl <;> simp [I16, fontN]
  · intro b hb
    simp at hb
    rcases hb with rfl | rfl <;> refine ⟨by decide, by decide, ?_⟩ <;> intro a ha <;> simp at ha <;>
      rcases ha with rfl | rfl <;> simp [I16]

/-- the domain is inhabited: a cursive-attachment subtable -/
example : Gpos3Sub fontN (.gpos3_1 [1, 2, 4] [(0, 0, 0, 0), (-32768, 32767, -1, 1), (7, -20, 500, 0)]) := by
  refine ⟨_, _, rfl, ⟨by simp, by simp [Asc], by decide, by decide, ?_⟩⟩
  intro r hr
  simp at hr
  rcases hr with rfl | rfl | rfl <;> simp [I16]

/-- the domain is inhabited: a glyph-pair subtable -/
example : Gpos2Sub fontN
    (.gpos2_1 [((1, 2), (some ⟨1, 0, 0, -7⟩, none)), ((1, 4), (none, some ⟨0, 0, 0, 0⟩)), ((3, 1), (none, none))]) := by
  refine Or.inl ⟨_, rfl, ⟨by simp, ?_, by decide, ?_⟩⟩
  · simp [lexLt]
  · intro p hp
    simp at hp
    rcases hp with rfl | rfl | rfl <;> refine ⟨?_, ?_⟩ <;> intro r hr <;> simp at hr <;> subst hr <;>
      simp [VROk]

/-- the domain is inhabited: a class-pair subtable (three glyphs, classes {1, 4} and {3} against
class {2}, a 3 × 2 matrix) -/
example : Gpos2Sub fontN
    (.gpos2_2 [1, 2, 3] [(1, 1), (3, 2), (4, 1)] [(2, 1)]
      [[(none, none), (some ⟨1, 0, 0, 0⟩, none)], [(none, some ⟨0, 0, 0, 7⟩), (none, none)],
       [(some ⟨0, -5, 2, 0⟩, some ⟨3, 0, 0, 0⟩), (none, none)]]) := by
  refine Or.inr ⟨_, _, _, _, rfl, ⟨by simp [Asc], by decide, ⟨by simp [Asc], by decide, ?_⟩, ⟨by simp [Asc], by decide, ?_⟩,
    by decide, ?_⟩⟩
  · intro i hi
    have : i = 0 ∨ i = 1 := by simp at hi; omega
    rcases this with rfl | rfl <;> simp
  · intro i hi
    have : i = 0 := by simp at hi; omega
    subst this; simp
  · intro row hrow
    simp at hrow
    rcases hrow with rfl | rfl | rfl <;> refine ⟨by decide, ?_⟩ <;> intro q hq <;> simp at hq <;>
      rcases hq with rfl | rfl <;> refine ⟨?_, ?_⟩ <;> intro r hr <;> simp at hr <;> (try subst hr) <;> simp [VROk]

/-- kernel evaluation on concrete GPOS 1 lookups: formats 1.1 and 1.2, every value-record shape
(`_`, single fields, all four fields at the int16 limits, an all-zero record coming back as
`_`), several subtables — over both fonts. -/
example : ∀ l ∈ univP1.take 10 ++ univP1.drop 50, rtOkP fontU [l] = true ∧ rtOkP fontN [l] = true := by
  decide +kernel

/-- kernel evaluation on concrete GPOS 2 lookups: format 2.1 (glyph pairs) and format 2.2 (class
matrix, classes with one or two glyphs), second value records, several subtables, and several
lookups in one description (a class-pair table directly before the next lookup) — over both
fonts. -/
example :
    (∀ l ∈ univP2.take 3 ++ univP2.drop 24, rtOkP fontU [l] = true ∧ rtOkP fontN [l] = true) ∧
    rtOkP fontN (univP2.drop 49 ++ univP2.take 2 ++ univP1.take 2) = true := by
  decide +kernel

def univP3 : List Lookup :=
  [{ typ := 3, flags := 0, subtables := [.gpos3_1 [1] [(1, 2, 3, 4)]] },
   { typ := 3, flags := 5, subtables := [.gpos3_1 [1, 2, 4] [(0, 0, 0, 0), (-32768, 32767, -1, 1), (7, -20, 500, 0)]] },
   { typ := 3, flags := 8, subtables := [.gpos3_1 [2] [(-1, -2, 0, 5)], .gpos3_1 [1, 3] [(1, 1, 1, 1), (0, -7, 0, 0)],
       .gpos3_1 [4] [(9, 9, -9, -9)]] }]

/-- kernel evaluation on concrete GPOS 3 lookups (cursive attachment: `glyph: x,y to x,y`
records separated by `;`, the first subtable on a new line, negative and extreme coordinates,
several subtables, a GPOS 3 lookup between other lookups) — over both fonts. -/
example :
    (∀ l ∈ univP3, rtOkP fontU [l] = true ∧ rtOkP fontN [l] = true) ∧
    rtOkP fontN (univP2.take 1 ++ univP3 ++ univP1.take 1) = true := by
  decide +kernel

def univP4 : List Lookup :=
  [{ typ := 4, flags := 0, subtables := [.gpos4_1 [(1, 0, 1, 2)] [(2, [(3, 4)])]] },
   { typ := 4, flags := 6, subtables := [.gpos4_1 [(1, 0, -32768, 32767), (2, 1, 0, 0), (4, 0, 7, -20)]
       [(1, [(0, 0), (-1, 1)]), (3, [(500, 0), (0, -7)])]] },
   { typ := 4, flags := 1, subtables := [.gpos4_1 [(2, 0, 5, 5)] [], .gpos4_1 [(1, 1, 1, 1), (3, 0, -2, 2)] [(4, [(9, 9), (-9, -9)])],
       .gpos4_1 [(4, 0, 0, 0)] [(1, [(1, 2)]), (2, [(3, 4)])]] }]

/-- kernel evaluation on concrete GPOS 4 lookups — `mark glyph: class@x,y;` and `base glyph:
@x,y @x,y;` records one per line, one to two mark classes, no base records, negative and extreme
coordinates, several subtables, a GPOS 4 lookup between other lookups (the parser takes the line
break after the last record) — over both fonts. -/
example :
    (∀ l ∈ univP4, rtOkP fontU [l] = true ∧ rtOkP fontN [l] = true) ∧
    rtOkP fontN (univP3.take 1 ++ univP4 ++ univP1.take 1) = true := by
  decide +kernel

/-! ## contextual and chained contextual lookups (GSUB 5/6, GPOS 7/8)

Domain (`LookupCtxOk`, `LookupChainOk`): any flag set, at least one subtable, every subtable in one
of the three formats —
* format 1 (`Ctx1Ok`, `Chain1Ok`): rules grouped by their first glyph in ascending order, every
  group non-empty (a covered glyph without a rule cannot be written), glyphs inside the font;
* format 2 (`Ctx2Ok`, `Chain2Ok`): ascending coverage; class tables sorted by glyph in which the
  classes 1 … k are all used (an empty class cannot be written); one rule list per class 0 … k
  (exactly k + 1 lists) with at least one rule in total; class references ≤ k; in the chained form
  the same for the three class tables (`backtrackclass`, `inputclass`, `lookaheadclass`);
* format 3 (`Ctx3Ok`, `Chain3Ok`): at least one input set (backtrack and lookahead may be empty;
  a set may be empty: `[]`), sets ascending and inside the font;
nested actions `index@position` with both numbers below 65536 (positions are not checked against
the input length by the parser, so none is required).  Glyphs may be called `class`, `inputclass`,
`backtrackclass` or `lookaheadclass`: since repair 15 these are keywords only when a `:` follows,
and the proofs use exactly that (an item of a glyph list is never followed by `:`). -/

theorem C19_roundtrip_gsub5 (f : Font) (hf : FontOk f) (ls : List Lookup)
    (h : ∀ l ∈ ls, LookupCtxOk f 5 l) : parseBytes f (explainGsub f ls) = .ok ls :=
  roundtrip_gsub5 f hf ls h

theorem C19_roundtrip_gsub6 (f : Font) (hf : FontOk f) (ls : List Lookup)
    (h : ∀ l ∈ ls, LookupChainOk f 6 l) : parseBytes f (explainGsub f ls) = .ok ls :=
  roundtrip_gsub6 f hf ls h

theorem C19_roundtrip_gpos7 (f : Font) (hf : FontOk f) (ls : List Lookup)
    (h : ∀ l ∈ ls, LookupCtxOk f 7 l) : parseBytes f (explainGpos f ls) = .ok ls :=
  roundtrip_gpos7 f hf ls h

theorem C19_roundtrip_gpos8 (f : Font) (hf : FontOk f) (ls : List Lookup)
    (h : ∀ l ∈ ls, LookupChainOk f 8 l) : parseBytes f (explainGpos f ls) = .ok ls :=
  roundtrip_gpos8 f hf ls h

/-- Descriptions mixing lookups of ALL types in any order and number: GSUB 1–6 for `ExplainGsub`,
GPOS 1–4, 7, 8 for `ExplainGpos` (`normalize`: a GSUB 1.2 table with constant offset comes back as
1.1, all-zero value records as none). -/
theorem C19_roundtrip_all_lists (f : Font) (hf : FontOk f) :
    (∀ ls : List Lookup, (∀ l ∈ ls, GsubAllOk f l) → parseBytes f (explainGsub f ls) = .ok (normalize ls)) ∧
    (∀ ls : List Lookup, (∀ l ∈ ls, GposAllOk f l) → parseBytes f (explainGpos f ls) = .ok (normalize ls)) :=
  ⟨roundtrip_gsub_all f hf, roundtrip_gpos_all f hf⟩

/-- a font whose glyphs 1–4 are called `class`, `inputclass`, `backtrackclass`, `lookaheadclass` -/
def fontK : Font :=
  { numGlyphs := 6, names := [[], kwClass, kwInputclass, kwBacktrackclass, kwLookaheadclass, [65]], cmap := [] }

/-- it is in the domain, and lookups that start with these glyphs round-trip (kernel evaluation):
`GSUB5: class A -> 1@0, inputclass -> ` and `GSUB6: inputclass | backtrackclass | lookaheadclass -> 2@0` -/
example : FontOkB fontK = true ∧
    rtOk fontK [{ typ := 5, flags := 0, subtables := [.ctx1 [(1, [⟨[5], [(1, 0)]⟩]), (2, [⟨[], []⟩])]] },
      { typ := 6, flags := 0, subtables := [.chain1 [(3, [⟨[2], [], [4], [(2, 0)]⟩])], .chain1 [(1, [⟨[], [1], [], []⟩])]] }] = true := by
  decide +kernel

/-! the domain predicates of the six formats are inhabited (font `fontN`) -/

example : CtxSub fontN (.ctx1 [(1, [⟨[2], [(1, 0)]⟩, ⟨[], []⟩]), (4, [⟨[1], [(0, 2)]⟩])]) := by
  refine Or.inl ⟨_, rfl, ⟨by simp, by simp [Asc], ?_⟩⟩
  intro p hp
  simp at hp
  rcases hp with rfl | rfl <;> refine ⟨by decide, by simp, ?_⟩ <;> intro r hr <;> simp at hr
  · rcases hr with rfl | rfl <;> simp [ActOk, fontN]
  · subst hr; simp [ActOk, fontN]

example : CtxSub fontN (.ctx3 [[1, 2], [], [4]] [(1, 2)]) := by
  refine Or.inr (Or.inr ⟨_, _, rfl, ⟨by simp, ?_, by simp [ActOk]⟩⟩)
  intro s hs
  simp at hs
  rcases hs with rfl | rfl | rfl <;> simp [SetOk, Asc, fontN]

theorem clsN : ClassOk fontN [(1, 1), (2, 2), (4, 1)] := by
  refine ⟨by simp [Asc], by decide, ?_⟩
  intro i hi
  have : i = 0 ∨ i = 1 := by simp at hi; omega
  rcases this with rfl | rfl <;> simp

example : CtxSub fontN (.ctx2 [1, 2] [(1, 1), (2, 2), (4, 1)] [[⟨[1], [(3, 0)]⟩], [⟨[0, 2], []⟩], []]) := by
  refine Or.inr (Or.inl ⟨_, _, _, rfl, ⟨by simp [Asc], by decide, clsN, by decide, by decide, by decide, ?_⟩⟩)
  have hk : (classGlyphs [(1, 1), (2, 2), (4, 1)]).length = 2 := by decide
  intro rs hrs r hr
  rw [hk]
  simp at hrs
  rcases hrs with rfl | rfl | rfl <;> simp at hr
  · subst hr; simp [ActOk]
  · subst hr; simp

example : ChainSub fontN (.chain1 [(1, [⟨[2, 4], [1], [], [(1, 0)]⟩, ⟨[], [], [2], []⟩])]) := by
  refine Or.inl ⟨_, rfl, ⟨by simp, by simp [Asc], ?_⟩⟩
  intro p hp
  simp at hp
  subst hp
  refine ⟨by decide, by simp, ?_⟩
  intro r hr
  simp at hr
  rcases hr with rfl | rfl <;> exact ⟨by simp [fontN], by simp [fontN], by simp [fontN], by simp [ActOk]⟩

example : ChainSub fontN (.chain3 [[2], [1, 4]] [[1], [2]] [] [(1, 1), (2, 0)]) := by
  refine Or.inr (Or.inr ⟨_, _, _, _, rfl, ⟨by simp, ?_, ?_, by simp, by simp [ActOk]⟩⟩)
  · intro s hs; simp at hs; rcases hs with rfl | rfl <;> simp [SetOk, Asc, fontN]
  · intro s hs; simp at hs; rcases hs with rfl | rfl <;> simp [SetOk, Asc, fontN]

example : ChainSub fontN (.chain2 [1] [(1, 1), (2, 2), (4, 1)] [(1, 1), (2, 2), (4, 1)] [(1, 1), (2, 2), (4, 1)]
    [[], [⟨[1, 0], [2], [1], [(1, 0)]⟩, ⟨[], [], [], []⟩], [⟨[], [0], [0, 2], [(2, 1)]⟩]]) := by
  refine Or.inr (Or.inl ⟨_, _, _, _, _, rfl, ⟨by simp [Asc], by decide, clsN, clsN, clsN, by decide, by decide, by decide, ?_⟩⟩)
  have hk : (classGlyphs [(1, 1), (2, 2), (4, 1)]).length = 2 := by decide
  intro rs hrs r hr
  rw [hk]
  simp at hrs
  rcases hrs with rfl | rfl | rfl <;> simp at hr
  · rcases hr with rfl | rfl <;> simp [ActOk]
  · subst hr; simp [ActOk]

/-- concrete contextual lookups: all six formats, empty backtrack / lookahead, class 0, an empty
set, rules without actions, several subtables -/
def univCtx : List Lookup :=
  [{ typ := 5, flags := 2, subtables := [.ctx1 [(1, [⟨[2], [(1, 0), (2, 1)]⟩, ⟨[], []⟩]), (4, [⟨[1, 1], [(0, 2)]⟩])]] },
   { typ := 5, flags := 0, subtables := [.ctx2 [1, 2] [(1, 1), (2, 2), (4, 1)] [[⟨[1], [(3, 0)]⟩], [⟨[0, 2], []⟩], []],
       .ctx3 [[1, 2], [], [4]] [(1, 2)], .ctx1 [(2, [⟨[], [(7, 0)]⟩])]] },
   { typ := 6, flags := 9, subtables := [.chain1 [(1, [⟨[2, 4], [1], [], [(1, 0)]⟩, ⟨[], [], [2], []⟩])],
       .chain3 [] [[1]] [] [(0, 0)], .chain3 [[2], [1, 4]] [[1], [2]] [[4]] [(1, 1), (2, 0)]] },
   { typ := 6, flags := 0, subtables := [.chain2 [1] [(2, 1)] [(1, 1), (4, 2)] [(1, 1), (2, 1)]
       [[], [⟨[1, 0], [2], [1], [(1, 0)]⟩, ⟨[], [], [], []⟩], [⟨[], [0], [0, 1], [(2, 1)]⟩]]] }]

/-- kernel evaluation of the round trip on these lookups (GSUB 5/6), and on the same subtables as
GPOS 7/8, over the font with names and cmap -/
example : (∀ l ∈ univCtx, rtOk fontN [l] = true) ∧ rtOk fontN univCtx = true ∧
    rtOkP fontN (univCtx.map fun l => { l with typ := l.typ + 2 }) = true := by
  decide +kernel

/-! Non-vacuity: what the notation looks like, and that the checker can fail. -/

/-- `GSUB3: -base "C" -> ["\\C"]` (glyph 1 is written as the largest printable rune mapped to it) -/
example : explainGsub fontN [{ typ := 3, flags := 2, subtables := [.gsub3_1 [1] [[4, 1]]] }]
    = [71, 83, 85, 66, 51, 58, 32, 45, 98, 97, 115, 101, 32, 34, 67, 34, 32, 45, 62, 32, 91, 34, 92, 92, 67, 34, 93, 10] := by
  decide +kernel
/-- the checker can fail: a lookup outside the domain (a flag bit the language has no word for)
does not round-trip -/
example : rtOk fontN [{ typ := 1, flags := 16, subtables := [.gsub1_1 [1] 1] }] = false := by
  decide +kernel

/-! ## totality of the parser -/

/-- FULL statement of totality: for every font and every text the parser returns lookups or an
error whose line number is ≥ 1 (the model reports running out of loop fuel as an error of
line 0, so the statement includes that no loop runs away). -/
def C19_total_full : Prop :=
  ∀ (f : Font) (bs : List Nat),
    match parseBytes f bs with
    | .ok _ => True
    | .error e => 1 ≤ e.line

/-- Totality, for every font and every text (any bytes, no exclusion): the model of `Parse` — lexer,
item supply with push-back, `fatal`, lookup flags, glyph lists with names, numbers, strings and
ranges, GSUB 1–6 and GPOS 1–4, 7, 8 in all their formats with several subtables, value records,
class lists and class definitions, adjust matrices, anchors, nested actions — returns lookups or
an error whose line number is ≥ 1.  No loop of the model runs out of fuel (that would be an
error of line 0). -/
theorem C19_total (f : Font) (bs : List Nat) :
    match parseBytes f bs with
    | .ok _ => True
    | .error e => 1 ≤ e.line := by
  obtain ⟨pre, t, e, ht, _, hl, _⟩ := lexFrom_ok (decodeUtf8 bs) (.start []) 1
  exact parseToks_total_full f _ pre t e ht hl

/-- the full statement is proved -/
theorem C19_total_full_holds : C19_total_full := C19_total

/-- the round-2 form with the escape `unmodelled`, kept for reference: it follows -/
theorem C19_total_partial (f : Font) (bs : List Nat) :
    match parseBytes f bs with
    | .ok _ => True
    | .error e => 1 ≤ e.line ∨ e.cls = unmodelled := by
  have := C19_total f bs
  cases hp : parseBytes f bs with
  | ok r => trivial
  | error e => rw [hp] at this; exact Or.inl this

example : errFuel ≠ unmodelled := by decide
/-- an erroring text: the error carries line 2 -/
example : (match parseBytes fontN [71, 83, 85, 66, 49, 58, 32, 65, 32, 45, 62, 32, 66, 10, 71, 83, 85, 66, 50, 58, 32, 65] with
    | .error e => e.line
    | .ok _ => 0) = 2 := by decide +kernel

end SfntV.Props.C19
