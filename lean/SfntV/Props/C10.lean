/-
C10 — subsetting keeps every selected glyph intact and consistently re-indexed.
Model: `SfntV.Subset.subset font glyphs order` (Model/Subset.lean) of `(*sfnt.Font).Subset` as
repaired (see cfg/C10.py).  All theorems hold for every font, every duplicate-free glyph list and
every iteration order `o` of the Go maps (`o.rules k`: order of the rule list in round `k` of the
outer loop, a permutation; `o.pops[k]`: keys returned by `pop(todo)` in round `k`); `sub.order` is
the old glyph id of every glyph of the subset.
Only property theorems and non-vacuity examples live here.
-/
import SfntV.Proofs.SubsetMain
import SfntV.Proofs.SubsetGsub
import SfntV.Proofs.SubsetCff
import SfntV.Proofs.SubsetOrder
import SfntV.Proofs.SubsetWritable
import SfntV.Proofs.SubsetCodecs

namespace SfntV.Props.C10
open SfntV SfntV.Subset

/-- Glyph `j` of the subset is the original glyph `sub.order[j]` — same outline payload, advance
width and name (for CFF the very same glyph record) — and the requested glyphs come first, in the
requested order: `sub.order = glyphs ++ extras`.  No glyph occurs twice. -/
theorem C10_positions {f : Font} {glyphs : List Gid} {o : Order} {sub : Sub}
    (hnd : glyphs.Nodup) (hp : ∀ k x, (o.rules k x).Perm x)
    (h : subset f glyphs o = .ok sub) :
    (∃ extras, sub.order = glyphs ++ extras) ∧ sub.order.Nodup ∧
    (∀ g ∈ sub.order, g < f.glyphs.length) ∧
    sub.glyphs.length = sub.order.length ∧ sub.hasNames = f.hasNames ∧
    ∀ (j : Nat) (old : Gid), sub.order[j]? = some old →
      ∃ g', sub.glyphs[j]? = some g' ∧ g'.payload = (f.glyph old).payload ∧
        g'.width = (f.glyph old).width ∧ g'.name = (f.glyph old).name ∧
        (f.isCFF = true → g' = f.glyph old) := by
  obtain ⟨s2, r⟩ := subset_ok hnd hp h
  have he := r.eq
  have ho : sub.order = s2.glyphs := by rw [he]; rfl
  refine ⟨?_, ?_, ?_, ?_, ?_, ?_⟩
  · obtain ⟨e, h2⟩ := r.ext
    exact ⟨e, by rw [ho, h2]; rfl⟩
  · rw [ho]; exact r.inv.nodup
  · rw [ho]; exact r.inRange
  · rw [he]; simp [assemble]
  · rw [he]; rfl
  · intro j old hj
    rw [ho] at hj
    rw [he]
    simp only [assemble, List.getElem?_map, hj, Option.map_some]
    refine ⟨_, rfl, ?_⟩
    cases f.isCFF <;> simp [fixComponents]

/-- Requested glyph `i` of the subset is the requested original glyph (corollary of
`C10_positions` in the form the property is worded). -/
theorem C10_positions_requested {f : Font} {glyphs : List Gid} {o : Order} {sub : Sub}
    (hnd : glyphs.Nodup) (hp : ∀ k x, (o.rules k x).Perm x)
    (h : subset f glyphs o = .ok sub) (i : Nat) (old : Gid)
    (hi : glyphs[i]? = some old) :
    ∃ g', sub.glyphs[i]? = some g' ∧ g'.payload = (f.glyph old).payload ∧
      g'.width = (f.glyph old).width ∧ g'.name = (f.glyph old).name := by
  have hp := C10_positions hnd hp h
  obtain ⟨e, he⟩ := hp.1
  have : sub.order[i]? = some old := by
    rw [he]
    have hlt : i < glyphs.length := by
      rcases Nat.lt_or_ge i glyphs.length with h | h
      · exact h
      · rw [List.getElem?_eq_none h] at hi; cases hi
    rw [List.getElem?_append_left hlt]; exact hi
  obtain ⟨g', h1, h2, h3, h4, _⟩ := hp.2.2.2.2.2 i old this
  exact ⟨g', h1, h2, h3, h4⟩

/-- Closure: every component of a composite glyph of the subset is itself in the subset (extras are
appended after the requested glyphs by `C10_positions`). -/
theorem C10_closure {f : Font} {glyphs : List Gid} {o : Order} {sub : Sub}
    (hnd : glyphs.Nodup) (hp : ∀ k x, (o.rules k x).Perm x)
    (h : subset f glyphs o = .ok sub) (hk : f.isCFF = false) :
    ∀ g ∈ sub.order, ∀ c ∈ (f.glyph g).comps, c ∈ sub.order := by
  obtain ⟨s2, r⟩ := subset_ok hnd hp h
  have ho : sub.order = s2.glyphs := by rw [r.eq]; rfl
  rw [ho]; exact r.closed hk

/-- Re-pointing: the `k`-th component reference of subset glyph `j` is a new index `c'` at which the
subset holds exactly the glyph the original reference `c` named — so (with `C10_positions`) it
points to the same outline as before.  Nothing else of the glyph changes. -/
theorem C10_components {f : Font} {glyphs : List Gid} {o : Order} {sub : Sub}
    (hnd : glyphs.Nodup) (hp : ∀ k x, (o.rules k x).Perm x)
    (h : subset f glyphs o = .ok sub) (hk : f.isCFF = false)
    (j : Nat) (old : Gid) (hj : sub.order[j]? = some old) :
    ∃ g', sub.glyphs[j]? = some g' ∧ g'.comps.length = (f.glyph old).comps.length ∧
      ∀ (k : Nat) (c : Gid), (f.glyph old).comps[k]? = some c →
        ∃ c', g'.comps[k]? = some c' ∧ sub.order[c']? = some c := by
  obtain ⟨s2, r⟩ := subset_ok hnd hp h
  have he := r.eq
  have ho : sub.order = s2.glyphs := by rw [he]; rfl
  rw [ho] at hj ⊢
  have hmem : old ∈ s2.glyphs := List.mem_of_getElem? hj
  rw [he]
  simp only [assemble, List.getElem?_map, hj, Option.map_some, hk]
  refine ⟨_, rfl, by simp [fixComponents], ?_⟩
  intro k c hc
  exact getElem?_map_lookup r.inv (r.closed hk old hmem) hc

/-- Character maps: the subset has a subtable for exactly the keys of the original, and in each
`code ↦ n` holds iff the original maps `code` to the glyph that is glyph `n` of the subset.  So
every character of a retained glyph maps to its new index and no other character is mapped. -/
theorem C10_cmap {f : Font} {glyphs : List Gid} {o : Order} {sub : Sub}
    (hnd : glyphs.Nodup) (hp : ∀ k x, (o.rules k x).Perm x)
    (h : subset f glyphs o = .ok sub) :
    (f.cmaps = none → sub.cmaps = none) ∧
    ∀ t, f.cmaps = some t → ∃ t', sub.cmaps = some t' ∧ t'.map (·.1) = t.map (·.1) ∧
      ∀ (i : Nat) (key : String) (c : CMap), t[i]? = some (key, c) →
        ∃ c', t'[i]? = some (key, c') ∧ CMapOK sub.order c c' := by
  obtain ⟨s2, r⟩ := subset_ok hnd hp h
  have he := r.eq
  have ho : sub.order = s2.glyphs := by rw [he]; rfl
  constructor
  · intro hn; rw [he]; simp [assemble, hn]
  · intro t ht
    refine ⟨t.map fun kc => (kc.1, subCMap s2.newGid kc.2), by rw [he]; simp [assemble, ht], ?_, ?_⟩
    · simp [List.map_map, Function.comp_def]
    · intro i key c hi
      refine ⟨subCMap s2.newGid c, by simp [List.getElem?_map, hi], ?_⟩
      rw [ho]; exact subCMap_ok r.inv c

/-- CFF data that is copied per glyph: the CID of subset glyph `j` is the CID of the original glyph,
and the built-in encoding sends each code to the new index of the glyph it named (0 = .notdef if
that glyph is not in the subset). -/
theorem C10_cff_cid_encoding {f : Font} {glyphs : List Gid} {o : Order} {sub : Sub}
    (hnd : glyphs.Nodup) (hp : ∀ k x, (o.rules k x).Perm x)
    (h : subset f glyphs o = .ok sub) (hk : f.isCFF = true) :
    (∀ t, f.gidToCID = some t → ∃ t', sub.gidToCID = some t' ∧ t'.length = sub.order.length ∧
      ∀ (j : Nat) (old : Gid), sub.order[j]? = some old → t'[j]? = some (t.getD old 0)) ∧
    (f.gidToCID = none → sub.gidToCID = none) ∧
    (f.encoding = none → sub.encoding = none) ∧
    (∀ e, f.encoding = some e → ∃ e', sub.encoding = some e' ∧ e'.length = e.length ∧
      ∀ (code : Nat) (g : Gid), e[code]? = some g →
        (∃ n, sub.order[n]? = some g ∧ e'[code]? = some n) ∨
        (g ∉ sub.order ∧ e'[code]? = some 0)) := by
  obtain ⟨s2, r⟩ := subset_ok hnd hp h
  have he := r.eq
  have ho : sub.order = s2.glyphs := by rw [he]; rfl
  refine ⟨?_, ?_, ?_, ?_⟩
  · intro t ht
    refine ⟨s2.glyphs.map fun g => t.getD g 0, by rw [he]; simp [assemble, hk, ht], by simp [ho], ?_⟩
    intro j old hj
    rw [ho] at hj
    simp [List.getElem?_map, hj]
  · intro hn; rw [he]; simp [assemble, hn]
  · intro hn; rw [he]; simp [assemble, hn]
  · intro e hee
    refine ⟨e.map fun g => (s2.newGid.lookup g).getD 0, by rw [he]; simp [assemble, hk, hee],
      by simp, ?_⟩
    intro code g hg
    rw [ho]
    cases hl : s2.newGid.lookup g with
    | some n =>
      left; exact ⟨n, (r.inv g n).1 hl, by simp [List.getElem?_map, hg, hl]⟩
    | none =>
      right; exact ⟨(r.inv.lookup_none g).1 hl, by simp [List.getElem?_map, hg, hl]⟩

/-- CFF private dictionaries: for every glyph `j` of the subset, the private dictionary its new
FDSelect value selects is the one the original FDSelect selected for the original glyph, and for
CID-keyed fonts the same holds for the font matrix. -/
theorem C10_cff_private {f : Font} {glyphs : List Gid} {o : Order} {sub : Sub}
    (hnd : glyphs.Nodup) (hp : ∀ k x, (o.rules k x).Perm x)
    (h : subset f glyphs o = .ok sub) (hk : f.isCFF = true)
    (j : Nat) (old : Gid) (hj : sub.order[j]? = some old) :
    ∃ k : Nat, sub.fdSelect[j]? = some k ∧
      sub.privates[k]? = some (f.privates.getD (f.fdSelect.getD old 0) 0) ∧
      (f.cidKeyed = true → sub.matrices[k]? = some (f.matrices.getD (f.fdSelect.getD old 0) 0)) := by
  obtain ⟨s2, r⟩ := subset_ok hnd hp h
  have he := r.eq
  have ho : sub.order = s2.glyphs := by rw [he]; rfl
  rw [ho] at hj
  have := privLoop_spec f s2.glyphs j old hj
  rw [he]
  simpa [assemble, hk] using this

/-- Kerning (GPOS 2.1): feature lists and the number of lookups and subtables are unchanged (so
lookup indices keep their meaning) and in every subtable a pair `(nl, nr) ↦ adj` is present iff the
original has `(l, r) ↦ adj` for the glyphs `l`, `r` that are glyphs `nl`, `nr` of the subset. -/
theorem C10_layout_gpos {f : Font} {glyphs : List Gid} {o : Order} {sub : Sub}
    (hnd : glyphs.Nodup) (hp : ∀ k x, (o.rules k x).Perm x)
    (h : subset f glyphs o = .ok sub) :
    (f.gpos = none → sub.gpos = none) ∧
    ∀ l, f.gpos = some l → ∃ l', sub.gpos = some l' ∧ l'.features = l.features ∧
      l'.lookups.length = l.lookups.length ∧
      ∀ (i : Nat) (subs : List Pairs), l.lookups[i]? = some subs →
        ∃ subs', l'.lookups[i]? = some subs' ∧ subs'.length = subs.length ∧
          ∀ (k : Nat) (ps : Pairs), subs[k]? = some ps →
            ∃ ps', subs'[k]? = some ps' ∧ PairsOK sub.order ps ps' := by
  obtain ⟨s2, r⟩ := subset_ok hnd hp h
  have he := r.eq
  have ho : sub.order = s2.glyphs := by rw [he]; rfl
  constructor
  · intro hn; rw [he]; simp [assemble, hn]
  · intro l hl
    refine ⟨⟨l.features, l.lookups.map fun subs => subs.map (subPairs s2.newGid)⟩,
      by rw [he]; simp [assemble, hl], rfl, by simp, ?_⟩
    intro i subs hi
    refine ⟨subs.map (subPairs s2.newGid), by simp [List.getElem?_map, hi], by simp, ?_⟩
    intro k ps hkk
    refine ⟨subPairs s2.newGid ps, by simp [List.getElem?_map, hkk], ?_⟩
    rw [ho]; exact subPairs_ok r.inv ps

/-- GSUB: the feature list is unchanged and every lookup keeps its index (emptied lookups are kept),
so feature → lookup indices still denote the same lookups. -/
theorem C10_layout_gsub_indices {f : Font} {glyphs : List Gid} {o : Order} {sub : Sub}
    (hnd : glyphs.Nodup) (hp : ∀ k x, (o.rules k x).Perm x)
    (h : subset f glyphs o = .ok sub) :
    (f.gsub = none → sub.gsub = none) ∧
    ∀ l, f.gsub = some l → ∃ l', sub.gsub = some l' ∧ l'.features = l.features ∧
      l'.lookups.length = l.lookups.length := by
  obtain ⟨s, r⟩ := subset_ok hnd hp h
  constructor
  · intro hn
    rcases r.gsub with ⟨_, h2⟩ | ⟨l, h1, _, _⟩
    · exact h2
    · rw [hn] at h1; cases h1
  · intro l hl
    rcases r.gsub with ⟨h1, _⟩ | ⟨l0, h1, _, h3⟩
    · rw [hl] at h1; cases h1
    · rw [hl] at h1; injection h1 with h1; subst h1
      exact ⟨_, h3, rfl, subLookups_length _ _⟩

/-- Rule closure (1.1 substitutions and 4.1 ligatures), without any side condition: every GSUB rule
all of whose input glyphs are in the subset has its output glyphs in the subset — also when an
input glyph entered only as a component of a composite (the joint closure repeats `addGsubGlyphs`
and `addComponents` until nothing is added).  Holds for every order of the rule lists. -/
theorem C10_closure_rules {f : Font} {glyphs : List Gid} {o : Order} {sub : Sub}
    {l : Layout GsubSub} (hnd : glyphs.Nodup) (hp : ∀ k x, (o.rules k x).Perm x)
    (h : subset f glyphs o = .ok sub) (hl : f.gsub = some l) :
    ∀ r ∈ rulesOf l, (∀ g ∈ r.ins, g ∈ sub.order) → ∀ g ∈ r.outs, g ∈ sub.order := by
  obtain ⟨s, r⟩ := subset_ok hnd hp h
  have ho : sub.order = s.glyphs := by rw [r.eq]; rfl
  have hr : fontRules f = rulesOf l := by unfold fontRules; rw [hl]
  intro ru hru hins g hgm
  rw [ho] at hins ⊢
  exact (r.inv.has_iff g).1
    (r.rules ru (by rw [hr]; exact hru) (fun x hx => (r.inv.has_iff x).2 (hins x hx)) g hgm)

/-- Termination / no oracle needed: for every font, every duplicate-free glyph list and every choice
of rule orders (one permutation per round) there are `pop` sequences, one per round of the outer
loop, that form a complete run: the round budget of `addGsubGlyphs` step 2 (`number of rules + 1`) is
never exhausted, every `todo` loop has a run, and the outer loop stops — each round that does not
stop appends a glyph id not seen before below a bound computed from the font.  The model answers
`.ok` or `.panic` (a glyph id out of range), never "illegal order". -/
theorem C10_closure_total (f : Font) (glyphs : List Gid) (hnd : glyphs.Nodup)
    (ro : Nat → List Rule → List Rule) (hp : ∀ k x, (ro k x).Perm x) :
    ∃ pops, ∀ e, subset f glyphs ⟨ro, pops⟩ ≠ .err e :=
  subset_total f glyphs hnd ro hp

/-- The guard of the domain as a theorem about the model.  For every legal oracle (a run that is not
rejected as "illegal order"; rule orders permutations): the outcome is a panic — Go: an index out of
range in `Glyphs[oldGid]`, `Widths[oldGid]`, … — exactly when some glyph id REACHABLE from the
requested list (closure under GSUB rules and composite components, `Reach`) is not below the number
of glyphs of the font; otherwise the outcome is a subset. -/
theorem C10_panic_iff {f : Font} {glyphs : List Gid} {o : Order}
    (hnd : glyphs.Nodup) (hp : ∀ k x, (o.rules k x).Perm x)
    (hne : ∀ e, subset f glyphs o ≠ .err e) :
    ((∃ m, subset f glyphs o = .panic m) ↔
      ∃ g, Reach f glyphs (fontRules f) g ∧ f.glyphs.length ≤ g) ∧
    ((∃ sub, subset f glyphs o = .ok sub) ↔
      ∀ g, Reach f glyphs (fontRules f) g → g < f.glyphs.length) := by
  obtain ⟨s, hreach, hout⟩ := subset_outcome hnd hp hne
  by_cases hany : s.glyphs.any (fun g => decide (f.glyphs.length ≤ g)) = true
  · rw [hout, if_pos hany]
    rw [List.any_eq_true] at hany
    obtain ⟨g, hg, hge⟩ := hany
    have hge' : f.glyphs.length ≤ g := by simpa using hge
    constructor
    · exact ⟨fun _ => ⟨g, (hreach g).1 hg, hge'⟩, fun _ => ⟨_, rfl⟩⟩
    · constructor
      · rintro ⟨sub, hs⟩; cases hs
      · intro hall
        exact absurd (hall g ((hreach g).1 hg)) (Nat.not_lt.2 hge')
  · rw [hout, if_neg hany]
    have hall : ∀ g, Reach f glyphs (fontRules f) g → g < f.glyphs.length := by
      intro g hg
      rcases Nat.lt_or_ge g f.glyphs.length with h | h
      · exact h
      · exfalso; apply hany
        rw [List.any_eq_true]
        exact ⟨g, (hreach g).2 hg, by simpa using h⟩
    constructor
    · constructor
      · rintro ⟨m, hm⟩; cases hm
      · rintro ⟨g, hg, hge⟩
        exact absurd (hall g hg) (Nat.not_lt.2 hge)
    · exact ⟨fun _ => hall, fun _ => ⟨_, rfl⟩⟩

/-- Totality on the domain: if every reachable glyph id is a glyph of the font, then for every choice
of rule orders there are `pop` sequences with which the model returns a subset. -/
theorem C10_total_ok (f : Font) (glyphs : List Gid) (hnd : glyphs.Nodup)
    (ro : Nat → List Rule → List Rule) (hp : ∀ k x, (ro k x).Perm x)
    (hr : ∀ g, Reach f glyphs (fontRules f) g → g < f.glyphs.length) :
    ∃ pops sub, subset f glyphs ⟨ro, pops⟩ = .ok sub := by
  obtain ⟨pops, hne⟩ := subset_total f glyphs hnd ro hp
  exact ⟨pops, ((C10_panic_iff (o := ⟨ro, pops⟩) hnd hp hne).2).2 hr⟩

/-- Order independence.  For two runs with arbitrary orders (rule permutations and `pop` sequences
in every round): the SET of retained glyphs is the same — exactly the glyphs reachable from the
requested ones through GSUB rules and composite components (`Reach`); the glyph lists are
permutations of each other and both start with the requested glyphs; an old glyph retained at
position `j1` in one and `j2` in the other has the same payload, width and name, component
references that denote the same old glyphs, the same CID and the same private dictionary and font
matrix.  What MAY differ: the positions of the appended extras — hence the numeric values of
component references, cmap targets, encoding entries, glyph ids in GSUB/GPOS rules — and the order
(numbering) of the private dictionaries; all of these only through the renumbering. -/
theorem C10_any_order {f : Font} {glyphs : List Gid} {o1 o2 : Order} {sub1 sub2 : Sub}
    (hnd : glyphs.Nodup) (hp1 : ∀ k x, (o1.rules k x).Perm x) (hp2 : ∀ k x, (o2.rules k x).Perm x)
    (h1 : subset f glyphs o1 = .ok sub1) (h2 : subset f glyphs o2 = .ok sub2) :
    (∀ g, g ∈ sub1.order ↔ Reach f glyphs (fontRules f) g) ∧
    sub1.order.Perm sub2.order ∧
    (∃ e1 e2, sub1.order = glyphs ++ e1 ∧ sub2.order = glyphs ++ e2 ∧ e1.Perm e2) ∧
    ∀ (j1 j2 : Nat) (old : Gid), sub1.order[j1]? = some old → sub2.order[j2]? = some old →
      ∃ g1 g2, sub1.glyphs[j1]? = some g1 ∧ sub2.glyphs[j2]? = some g2 ∧
        g1.payload = g2.payload ∧ g1.width = g2.width ∧ g1.name = g2.name ∧
        (f.isCFF = false → ∀ k : Nat, (g1.comps[k]?).bind (sub1.order[·]?) =
          (g2.comps[k]?).bind (sub2.order[·]?)) ∧
        (f.isCFF = true → g1 = g2 ∧
          (sub1.gidToCID.map (·[j1]?)) = (sub2.gidToCID.map (·[j2]?)) ∧
          (sub1.fdSelect[j1]?).bind (sub1.privates[·]?) = (sub2.fdSelect[j2]?).bind (sub2.privates[·]?) ∧
          (f.cidKeyed = true → (sub1.fdSelect[j1]?).bind (sub1.matrices[·]?) =
            (sub2.fdSelect[j2]?).bind (sub2.matrices[·]?))) := by
  obtain ⟨a2, ra⟩ := subset_ok hnd hp1 h1
  obtain ⟨b2, rb⟩ := subset_ok hnd hp2 h2
  have hoa : sub1.order = a2.glyphs := by rw [ra.eq]; rfl
  have hob : sub2.order = b2.glyphs := by rw [rb.eq]; rfl
  have sa := ra.reach
  have sb := rb.reach
  have hperm : sub1.order.Perm sub2.order := by
    rw [hoa, hob]
    exact perm_of_same_mem ra.inv.nodup rb.inv.nodup (fun g => (sa g).trans (sb g).symm)
  obtain ⟨e1, he1⟩ := ra.ext
  obtain ⟨e2, he2⟩ := rb.ext
  refine ⟨by rw [hoa]; exact sa, hperm, ⟨e1, e2, ?_, ?_, ?_⟩, ?_⟩
  · rw [hoa, he1]; rfl
  · rw [hob, he2]; rfl
  · have := hperm
    rw [hoa, hob, he1, he2] at this
    exact (List.perm_append_left_iff _).1 this
  · intro j1 j2 old hj1 hj2
    obtain ⟨g1, hg1, p1, w1, n1, c1⟩ := (C10_positions hnd hp1 h1).2.2.2.2.2 j1 old hj1
    obtain ⟨g2, hg2, p2, w2, n2, c2⟩ := (C10_positions hnd hp2 h2).2.2.2.2.2 j2 old hj2
    refine ⟨g1, g2, hg1, hg2, by rw [p1, p2], by rw [w1, w2], by rw [n1, n2], ?_, ?_⟩
    · intro hk k
      obtain ⟨g1', hg1', l1, m1⟩ := C10_components hnd hp1 h1 hk j1 old hj1
      obtain ⟨g2', hg2', l2, m2⟩ := C10_components hnd hp2 h2 hk j2 old hj2
      rw [hg1] at hg1'; injection hg1' with hg1'; subst hg1'
      rw [hg2] at hg2'; injection hg2' with hg2'; subst hg2'
      cases hc : (f.glyph old).comps[k]? with
      | some c =>
        obtain ⟨c1', hc1, ho1⟩ := m1 k c hc
        obtain ⟨c2', hc2, ho2⟩ := m2 k c hc
        simp [hc1, hc2, ho1, ho2]
      | none =>
        have hlen : (f.glyph old).comps.length ≤ k := by
          rcases Nat.lt_or_ge k (f.glyph old).comps.length with h | h
          · rw [List.getElem?_eq_getElem h] at hc; cases hc
          · exact h
        rw [List.getElem?_eq_none (by omega), List.getElem?_eq_none (by omega)]
        rfl
    · intro hk
      have e1' := c1 hk
      have e2' := c2 hk
      refine ⟨by rw [e1', e2'], ?_, ?_, ?_⟩
      · have q1 := C10_cff_cid_encoding hnd hp1 h1 hk
        have q2 := C10_cff_cid_encoding hnd hp2 h2 hk
        cases ht : f.gidToCID with
        | none => rw [q1.2.1 ht, q2.2.1 ht]; rfl
        | some t =>
          obtain ⟨t1, ht1, _, m1⟩ := q1.1 t ht
          obtain ⟨t2, ht2, _, m2⟩ := q2.1 t ht
          rw [ht1, ht2]
          simp only [Option.map_some]
          rw [m1 j1 old hj1, m2 j2 old hj2]
      · obtain ⟨k1, f1, pr1, _⟩ := C10_cff_private hnd hp1 h1 hk j1 old hj1
        obtain ⟨k2, f2, pr2, _⟩ := C10_cff_private hnd hp2 h2 hk j2 old hj2
        simp [f1, f2, pr1, pr2]
      · intro hcid
        obtain ⟨k1, f1, _, m1⟩ := C10_cff_private hnd hp1 h1 hk j1 old hj1
        obtain ⟨k2, f2, _, m2⟩ := C10_cff_private hnd hp2 h2 hk j2 old hj2
        simp [f1, f2, m1 hcid, m2 hcid]

/-- what it means for the rule list `rs'` of a rebuilt lookup to be the rule list `rs` of the
original lookup "under the new numbering": `rs'` is `rs` with the rules dropped that have an input
glyph outside the subset `T`, in the same order, and every kept rule has each glyph id replaced
by an index at which the subset holds that very glyph -/
def RulesOK (T order : List Gid) (rs rs' : List Rule) : Prop :=
  ∃ tr : Rule → Option Rule, rs' = rs.filterMap tr ∧
    ∀ r ∈ rs, (tr r = none ↔ ¬ ∀ i ∈ r.ins, i ∈ T) ∧
      ∀ r', tr r = some r' →
        r'.ins.map (order[·]?) = r.ins.map some ∧ r'.outs.map (order[·]?) = r.outs.map some

/-- GSUB rules (1.1 single substitutions, rebuilt as 1.2, and 4.1 ligatures): feature lists and
lookup indices are unchanged, and the rule list of lookup `i` of the subset (its subtables read in
order: `from ↦ to` pairs, `first rest… ↦ ligature`) is the rule list of lookup `i` of the original
restricted to the rules all of whose input glyphs are in the subset, in the original order, with
every glyph id translated to an index holding the same glyph.  A retained rule thus maps new ids
to new ids exactly as the original maps the corresponding old ids; a rule with a dropped input
glyph is dropped; priorities (order) are preserved. -/
theorem C10_layout_gsub {f : Font} {glyphs : List Gid} {o : Order} {sub : Sub}
    {l : Layout GsubSub} (hnd : glyphs.Nodup) (hp : ∀ k x, (o.rules k x).Perm x)
    (h : subset f glyphs o = .ok sub) (hl : f.gsub = some l) :
    ∃ l', sub.gsub = some l' ∧ l'.features = l.features ∧ l'.lookups.length = l.lookups.length ∧
      ∀ (i : Nat) (subs : List GsubSub), l.lookups[i]? = some subs →
        ∃ subs', l'.lookups[i]? = some subs' ∧
          RulesOK sub.order sub.order (subs.flatMap rulesOfSub) (subs'.flatMap outRules) := by
  obtain ⟨s, r⟩ := subset_ok hnd hp h
  have ho : sub.order = s.glyphs := by rw [r.eq]; rfl
  have hfr : fontRules f = rulesOf l := by unfold fontRules; rw [hl]
  rcases r.gsub with ⟨h1, _⟩ | ⟨l0, h1, hst, h3⟩
  · rw [hl] at h1; cases h1
  · rw [hl] at h1; injection h1 with h1; subst h1
    have hcl := subLookups_closed s l.lookups (by
      intro ru hrm; apply r.rules ru; rw [hfr]; simpa [rulesOf] using hrm)
    refine ⟨_, h3, rfl, subLookups_length _ _, ?_⟩
    intro i subs hi
    have hlt : i < (subLookups s l.lookups).2.length := by
      rw [subLookups_length]
      rcases Nat.lt_or_ge i l.lookups.length with h | h
      · exact h
      · rw [List.getElem?_eq_none h] at hi; cases hi
    refine ⟨(subLookups s l.lookups).2[i], List.getElem?_eq_getElem hlt, transRule s, ?_, ?_⟩
    · have := congrArg (fun x => x[i]?) hcl.2
      simp only [List.getElem?_map, hi, List.getElem?_eq_getElem hlt, Option.map_some] at this
      injection this
    · intro ru hru0
      constructor
      · unfold transRule
        constructor
        · intro hn hall
          have : ru.ins.all s.has = true := by
            rw [List.all_eq_true]; intro x hx
            exact (r.inv.has_iff x).2 (by rw [← ho]; exact hall x hx)
          rw [this] at hn; simp at hn
        · intro hn
          have : ¬ ru.ins.all s.has = true := by
            intro hall; apply hn
            rw [List.all_eq_true] at hall
            intro x hx; rw [ho]; exact (r.inv.has_iff x).1 (hall x hx)
          simp [this]
      · intro r' hr'
        unfold transRule at hr'
        split at hr'
        · rename_i hall
          injection hr' with hr'; subst hr'
          rw [List.all_eq_true] at hall
          have key : ∀ gs : List Gid, (∀ x ∈ gs, s.has x = true) →
              (gs.map (look s)).map (sub.order[·]?) = gs.map some := by
            intro gs hgs
            rw [List.map_map]
            apply List.map_congr_left
            intro x hx
            have hm := (r.inv.has_iff x).1 (hgs x hx)
            obtain ⟨n, hn⟩ := List.mem_iff_getElem?.1 hm
            have hlk := (r.inv x n).2 hn
            simp only [Function.comp, look, hlk, Option.getD_some, ho]
            exact hn
          refine ⟨key ru.ins hall, key ru.outs ?_⟩
          intro x hx
          have hru : ru ∈ rulesOf l := by
            unfold rulesOf
            exact List.mem_flatMap.2 ⟨subs, List.mem_of_getElem? hi, hru0⟩
          exact r.rules ru (by rw [hfr]; exact hru) hall x hx
        · cases hr'

/-! ### preconditions of the writer (`C10_writable` as far as a model reaches) -/

/-- The subset is never empty and keeps the first requested glyph (`.notdef`) first; cmap keys are
those of the original (`C10_cmap`); lookup and feature lists keep their shape
(`C10_layout_gsub_indices`, `C10_layout_gpos`). -/
theorem C10_writable_glyphs {f : Font} {glyphs : List Gid} {o : Order} {sub : Sub}
    (hnd : glyphs.Nodup) (hp : ∀ k x, (o.rules k x).Perm x)
    (h : subset f glyphs o = .ok sub) (g0 : Gid) (rest : List Gid)
    (hg : glyphs = g0 :: rest) :
    1 ≤ sub.glyphs.length ∧ sub.order[0]? = some g0 := by
  have hp := C10_positions hnd hp h
  obtain ⟨e, he⟩ := hp.1
  rw [hp.2.2.2.1, he, hg]
  simp

/-- Coverage tables of the rebuilt GSUB subtables (the class of the repaired "invalid coverage
table" panic): `sortedByNewGid` — the order in which the repaired step 3 hands out coverage indices —
lists exactly the retained covered glyphs, and their new glyph ids are strictly increasing, which
is the validity condition of `coverage.Table` (index = rank of the glyph id).  `s1` is the
subsetter state when `SubsetGsub` rebuilds the tables (the final one). -/
theorem C10_writable_coverage {f : Font} {glyphs : List Gid} {o : Order} {sub : Sub}
    (hnd : glyphs.Nodup) (hp : ∀ k x, (o.rules k x).Perm x)
    (h : subset f glyphs o = .ok sub) (cov : List Gid) (hc : cov.Nodup) :
    ∃ s1 : St, s1.glyphs = sub.order ∧ (∀ g, s1.has g = true ↔ g ∈ sub.order) ∧
      (∀ g ∈ sub.order, sub.order[look s1 g]? = some g) ∧
      ((sortedByNewGid s1 cov).map (look s1)).Pairwise (· < ·) ∧
      (sortedByNewGid s1 cov).Perm (cov.filter s1.has) := by
  obtain ⟨s2, r⟩ := subset_ok hnd hp h
  have ht : sub.order = s2.glyphs := by rw [r.eq]; rfl
  have hs := sortedByNewGid_spec r.inv hc
  refine ⟨s2, ht.symm, fun g => by rw [ht]; exact r.inv.has_iff g, ?_, hs.1, hs.2⟩
  intro g hg
  rw [ht] at hg ⊢
  obtain ⟨i, hi⟩ := List.mem_iff_getElem?.1 hg
  have := (r.inv g i).2 hi
  simp only [look, this, Option.getD_some]
  exact hi

/-- The retained encoded glyphs come first: every position between 1 and the position of an encoded
glyph holds an encoded glyph (hypothesis of `C10_writable_encoding` / `C10_writable`). -/
def EncodedFirst (e : List Gid) (order : List Gid) : Prop :=
  ∀ (n m : Nat) (old : Gid), 1 ≤ n → n ≤ m → order[m]? = some old → old ∈ e →
    ∃ old', order[n]? = some old' ∧ old' ∈ e

/-- Under `EncodedFirst` the glyph ids used by the subset's encoding are downward closed. -/
theorem C10_encoding_downward {f : Font} {glyphs : List Gid} {o : Order} {sub : Sub}
    (hnd : glyphs.Nodup) (hp : ∀ k x, (o.rules k x).Perm x)
    (h : subset f glyphs o = .ok sub) (hk : f.isCFF = true)
    (e : List Gid) (he : f.encoding = some e) (hfirst : EncodedFirst e sub.order) :
    ∃ e', sub.encoding = some e' ∧ e'.length = e.length ∧
      (∀ g ∈ e', g < sub.glyphs.length ∨ g = 0) ∧
      ∀ (n m : Nat), 1 ≤ n → n ≤ m → m ∈ e' → m ≠ 0 → n ∈ e' := by
  have hpos := C10_positions hnd hp h
  have hnodup := hpos.2.1
  obtain ⟨e', he', hlen, hm⟩ := (C10_cff_cid_encoding hnd hp h hk).2.2.2 e he
  refine ⟨e', he', hlen, ?_, ?_⟩
  · intro g hg
    obtain ⟨code, hcode⟩ := List.mem_iff_getElem?.1 hg
    have hclt : code < e.length := by
      rw [← hlen]
      rcases Nat.lt_or_ge code e'.length with h | h
      · exact h
      · rw [List.getElem?_eq_none h] at hcode; cases hcode
    rcases hm code _ (List.getElem?_eq_getElem hclt) with ⟨n', ho, hn'⟩ | ⟨_, hz⟩
    · left
      rw [hcode] at hn'; injection hn' with hn'; subst hn'
      rw [hpos.2.2.2.1]
      rcases Nat.lt_or_ge g sub.order.length with h | h
      · exact h
      · rw [List.getElem?_eq_none h] at ho; cases ho
    · right; rw [hcode] at hz; injection hz
  intro n m h1 h2 hmem hm0
  obtain ⟨code, hcode⟩ := List.mem_iff_getElem?.1 hmem
  have hclt : code < e.length := by
    rw [← hlen]
    rcases Nat.lt_or_ge code e'.length with h | h
    · exact h
    · rw [List.getElem?_eq_none h] at hcode; cases hcode
  have hg : e[code]? = some e[code] := List.getElem?_eq_getElem hclt
  have hold : sub.order[m]? = some e[code] := by
    rcases hm code _ hg with ⟨n', ho, hn'⟩ | ⟨_, hz⟩
    · rw [hcode] at hn'; injection hn' with hn'; subst hn'; exact ho
    · rw [hcode] at hz; injection hz with hz; exact absurd hz hm0
  obtain ⟨old', ho', hin⟩ := hfirst n m _ h1 h2 hold (List.getElem_mem hclt)
  obtain ⟨code', hcode'⟩ := List.mem_iff_getElem?.1 hin
  rcases hm code' old' hcode' with ⟨n', ho, hn'⟩ | ⟨hnot, _⟩
  · have : n' = n := nodup_getElem?_inj hnodup ho ho'
    subst this
    exact List.mem_of_getElem? hn'
  · exact absurd (List.mem_of_getElem? ho') hnot

/-- CFF built-in encoding: the writer's contiguity condition (cff/encoding.go) holds for the subset
whenever the retained encoded glyphs come first (`EncodedFirst`).  (Otherwise it fails: known
finding C10-cff-encoding-order, witness `C10_writable_encoding_witness`.) -/
theorem C10_writable_encoding {f : Font} {glyphs : List Gid} {o : Order} {sub : Sub}
    (hnd : glyphs.Nodup) (hp : ∀ k x, (o.rules k x).Perm x)
    (h : subset f glyphs o = .ok sub) (hk : f.isCFF = true)
    (e : List Gid) (he : f.encoding = some e) (hfirst : EncodedFirst e sub.order) :
    ∃ e', sub.encoding = some e' ∧ encodingContiguous e' = true := by
  obtain ⟨e', he', _, _, hd⟩ := C10_encoding_downward hnd hp h hk e he hfirst
  exact ⟨e', he', encodingContiguous_of_downward e' hd⟩

/-! ### `C10_writable`: the subset lies in the domains of the other areas' codec theorems -/

/-- What the codec theorems of C08 / C09b / C13 require of the ORIGINAL font (it is a font the
library can write): fewer than 65536 glyphs; coverage keys distinct (they are keys of Go maps);
GPOS value records well-typed (`vr adj` is the pair of records of adjustment `adj`) and fewer than
65536 pairs per first glyph; cmap codes distinct and 32-bit; the built-in encoding has 256 entries.
The requested glyph list is non-empty and duplicate-free. -/
structure Dom (f : Font) (glyphs : List Gid) (vr : Nat → Otl.Gpos.VR × Otl.Gpos.VR) : Prop where
  nodup : glyphs.Nodup
  nonempty : glyphs ≠ []
  glyphCount : f.glyphs.length ≤ 65536
  gsubWF : ∀ l, f.gsub = some l → ∀ subs ∈ l.lookups, ∀ t ∈ subs, GsubSubWF t
  vrOk : ∀ a, Otl.Gpos.VROk (vr a).1 ∧ Otl.Gpos.VROk (vr a).2
  gposSets : ∀ l, f.gpos = some l → ∀ subs ∈ l.lookups, ∀ ps ∈ subs,
    ∀ x, (leftSet ps x).length < 65536
  cmapWF : ∀ t, f.cmaps = some t → ∀ kc ∈ t,
    (kc.2.map (·.1)).Nodup ∧ ∀ e ∈ kc.2, e.1 < 4294967296
  encLen : ∀ e, f.encoding = some e → e.length = 256

/-- the hypotheses of `C13_encoding_roundtrip` that concern the encoding vector -/
structure EncDomC13 (enc : List Nat) (nGlyphs : Nat) : Prop where
  len : enc.length = 256
  inRange : ∀ g ∈ enc, g < nGlyphs
  contig : ∀ g ∈ enc, ∀ g', 0 < g' → g' < g → g' ∈ enc

/-- Conjunction of the other areas' domain predicates for every table `Subset` rebuilds:
* every rebuilt GSUB subtable (1.1 → 1.2, 4.1), entries in coverage-index order, satisfies the
  hypotheses of `C08_st_roundtrip_gsub1_2` / `C08_st_roundtrip_gsub4_1` (`Cov.Valid`, one
  substitute / ligature set per covered glyph, 16-bit glyph ids, `Gsub.LigOk`);
* every rebuilt GPOS 2.1 subtable satisfies the content hypotheses of `C08_st_roundtrip_gpos2_1`
  (16-bit first and second glyphs — so the coverage the encoder sorts is `Cov.Valid` —,
  `Gpos.PairSetOk`, fewer than 65536 pairs per first glyph);
* every rebuilt cmap subtable, as the sorted entry list, is a `Map32` (verbatim the predicate `C09b.Map32`, domain of `C09_fmt12`,
  `C09_fmt12_lib`; for format 4, `C09_fmt4` needs no more than 16-bit glyph ids);
* the CFF built-in encoding satisfies the vector hypotheses of `C13_encoding_roundtrip`. -/
structure WritableByCodecs (vr : Nat → Otl.Gpos.VR × Otl.Gpos.VR) (sub : Sub) : Prop where
  glyphs : 1 ≤ sub.glyphs.length ∧ sub.glyphs.length ≤ 65536
  gsub : ∀ l, sub.gsub = some l → ∀ subs ∈ l.lookups, ∀ t ∈ subs, GsubDomC08 t
  gpos : ∀ l, sub.gpos = some l → ∀ subs ∈ l.lookups, ∀ ps ∈ subs, GposDomC08 vr ps
  cmap : ∀ t, sub.cmaps = some t → ∀ kc ∈ t, Map32 (sortKeys kc.2)
  enc : ∀ e, sub.encoding = some e → EncDomC13 e sub.glyphs.length

/-- `C10_writable`: on the domain, and — for a simple CFF font with a built-in encoding — when the
retained encoded glyphs come first (exactly the hypothesis that excludes the known finding
C10-cff-encoding-order), every table the subsetter rebuilds lies in the domain of the codec
theorems of C08, C09b and C13, for every iteration order.  So those theorems apply to the subset:
each rebuilt GSUB / GPOS subtable round-trips through the modelled encoder and reader or is refused
with the size panic that exists in the code (`6 + 2n`, `lig41Total`, a pair-set offset > 0xFFFF),
cmap subtables decode to the same map, the encoding vector is read back.
Outside this statement (copied verbatim by `Subset`, hence in their domains iff the original's are):
ScriptList, feature lists, lookup flags / mark filtering sets, GPOS value records, glyph outlines,
charstrings and private dictionaries, glyph names (SIDs: distinct and 16-bit as in the original),
hinting tables, `maxp`, `head`, `OS/2`, `name`, `post`; and the assembly of the tables into a file
(C01 / C03). -/
theorem C10_writable {f : Font} {glyphs : List Gid} {o : Order} {sub : Sub}
    {vr : Nat → Otl.Gpos.VR × Otl.Gpos.VR} (D : Dom f glyphs vr)
    (hp : ∀ k x, (o.rules k x).Perm x) (h : subset f glyphs o = .ok sub)
    (henc : ∀ e, f.isCFF = true → f.encoding = some e → EncodedFirst e sub.order) :
    WritableByCodecs vr sub := by
  obtain ⟨s, r⟩ := subset_ok D.nodup hp h
  have he := r.eq
  have ho : sub.order = s.glyphs := by rw [he]; rfl
  have hlenG : sub.glyphs.length = s.glyphs.length := by rw [he]; simp [assemble]
  have hne : s.glyphs ≠ [] := by
    obtain ⟨e, hx⟩ := r.ext
    rw [hx]; simp only [St.init]
    cases hg : glyphs with
    | nil => exact absurd hg D.nonempty
    | cons a t => simp
  have hcount : s.glyphs.length ≤ 65536 :=
    Nat.le_trans (nodup_length_le s.glyphs _ r.inv.nodup r.inRange) D.glyphCount
  have hpos : 1 ≤ s.glyphs.length := by
    cases hg : s.glyphs with
    | nil => exact absurd hg hne
    | cons a t => simp
  refine ⟨by rw [hlenG]; exact ⟨hpos, hcount⟩, ?_, ?_, ?_, ?_⟩
  · -- GSUB
    intro l' hl' subs hsubs t ht
    rcases r.gsub with ⟨_, h2⟩ | ⟨l, h1, _, h3⟩
    · rw [h2] at hl'; cases hl'
    · rw [h3] at hl'; injection hl' with hl'; subst hl'
      have hfr : fontRules f = rulesOf l := by unfold fontRules; rw [h1]
      have hok := subLookups_ok r.inv hne l.lookups (D.gsubWF l h1) (by
        intro ru hrm; apply r.rules ru; rw [hfr]; simpa [rulesOf] using hrm) subs hsubs t ht
      exact gsubDom_of_ok hcount hok
  · -- GPOS
    intro l' hl' subs hsubs ps hps
    cases hg : f.gpos with
    | none => rw [he] at hl'; simp [assemble, hg] at hl'
    | some l =>
      rw [he] at hl'
      simp only [assemble, hg, Option.map_some, Option.some.injEq] at hl'
      subst hl'
      simp only [List.mem_map] at hsubs
      obtain ⟨subs0, hs0, rfl⟩ := hsubs
      obtain ⟨ps0, hp0, rfl⟩ := List.mem_map.1 hps
      exact subPairs_dom r.inv hne hcount vr D.vrOk ps0 (D.gposSets l hg subs0 hs0 ps0 hp0)
  · -- cmap
    intro t' ht' kc hkc
    cases hc : f.cmaps with
    | none => rw [he] at ht'; simp [assemble, hc] at ht'
    | some t =>
      rw [he] at ht'
      simp only [assemble, hc, Option.map_some, Option.some.injEq] at ht'
      subst ht'
      obtain ⟨kc0, hk0, rfl⟩ := List.mem_map.1 hkc
      have hw := D.cmapWF t hc kc0 hk0
      exact subCMap_dom r.inv hne hcount kc0.2 hw.1 hw.2
  · -- CFF encoding
    intro e' he'
    cases hk : f.isCFF with
    | false => rw [he] at he'; simp [assemble, hk] at he'
    | true =>
      cases hen : f.encoding with
      | none => rw [he] at he'; simp [assemble, hk, hen] at he'
      | some e =>
        obtain ⟨e2, he2, hlen, hrange, hd⟩ :=
          C10_encoding_downward D.nodup hp h hk e hen (henc e hk hen)
        rw [he'] at he2; injection he2 with he2; subst he2
        refine ⟨by rw [hlen]; exact D.encLen e hen, ?_, ?_⟩
        · intro g hg
          rcases hrange g hg with h1 | h1
          · exact h1
          · rw [h1, hlenG]; exact hpos
        · intro g hg g' h0 hlt
          exact hd g' g h0 (Nat.le_of_lt hlt) hg (by omega)

/-- The C08 theorem applied to a rebuilt GSUB 1.2 subtable of a subset (how `WritableByCodecs` is
used): it round-trips through the modelled encoder and reader, or is refused for its size. -/
theorem C10_writable_gsub12_roundtrip {vr : Nat → Otl.Gpos.VR × Otl.Gpos.VR} {sub : Sub}
    (W : WritableByCodecs vr sub) (l : Layout GsubOut) (hl : sub.gsub = some l)
    (subs : List GsubOut) (hs : subs ∈ l.lookups) (m : List (Gid × Gid)) (hm : GsubOut.multi m ∈ subs) :
    let rev := (sortKeys m).map (·.1)
    let sb := (sortKeys m).map (·.2)
    (6 + 2 * sb.length ≤ 0xFFFF →
      ∃ b, Otl.Gsub.encode12 rev sb = .ok b ∧
        Otl.Gsub.readSubtable 1 b = .ok (.s12 rev.zipIdx sb)) ∧
    (6 + 2 * sb.length > 0xFFFF → ∃ msg, Otl.Gsub.encode12 rev sb = .panic msg) := by
  have := W.gsub l hl subs hs _ hm
  obtain ⟨hv, hlen, hsmall⟩ := this
  intro rev sb
  exact ⟨fun hfit => let ⟨b, h1, h2, _⟩ := Otl.Gsub.roundtrip12 rev sb hv hlen hsmall hfit; ⟨b, h1, h2⟩,
    Otl.Gsub.refusal12 rev sb⟩

/-! ### non-vacuity -/

/-- 0 .notdef, 1 and 2 simple, 3 = composite of 1 and 2, 4 = ligature of 1 2; cmap A↦1 B↦3 fi↦4;
kerning (1,2) -/
def wFont : Font :=
  { isCFF := false
    glyphs := [⟨0, [], 500, 0⟩, ⟨1, [], 501, 1⟩, ⟨2, [], 502, 2⟩, ⟨3, [1, 2], 503, 3⟩, ⟨4, [], 504, 4⟩]
    hasNames := true
    cmaps := some [("3.1.0.4", [(65, 1), (66, 3), (64257, 4)])]
    privates := [], matrices := [], cidKeyed := false, fdSelect := []
    encoding := none, gidToCID := none
    gsub := some ⟨[[0]], [[.ligs [(1, [([2], 4)])]]]⟩
    gpos := some ⟨[[0]], [[[(1, 2, 50)]]]⟩ }

/-- rules in table order in every round; `pop` returns 0, 3, 1, 2 in round 0 (glyphs 1, 2 enter as
components of 3), then 0, 3, 1, 2, 4 in rounds 1 (the ligature 1 2 → 4 has fired) and 2 (nothing new) -/
def wOrder : Order := ⟨fun _ => id, [[0, 3, 1, 2], [0, 3, 1, 2, 4], [0, 3, 1, 2, 4]]⟩

/-- The hypotheses of the theorems are met by a run that needs a second round: subset `[0, 3]`
becomes glyphs `[0, 3, 1, 2, 4]` — 1 and 2 as components of 3, then 4 as the ligature of 1 and 2
(the input of the former known finding C10-gsub-over-components) —, the composite's references
`[1, 2]` become `[2, 3]`, `B ↦ 1`, `A ↦ 2`, `fi ↦ 4`, pair `(2, 3)`, ligature `2 3 → 4`. -/
theorem C10_nonvacuous : ∃ sub, subset wFont [0, 3] wOrder = .ok sub ∧ sub.order = [0, 3, 1, 2, 4] ∧
    sub.glyphs.map (·.comps) = [[], [2, 3], [], [], []] ∧
    sub.cmaps = some [("3.1.0.4", [(65, 2), (66, 1), (64257, 4)])] ∧
    sub.gpos.map (·.lookups) = some [[[(2, 3, 50)]]] ∧
    sub.gsub.map (fun l => l.lookups) = some [[.ligs [(2, [([3], 4)])]]] :=
  ⟨_, rfl, rfl, rfl, rfl, rfl, rfl⟩

example : ∃ sub, subset wFont [0, 1, 2] ⟨fun _ => id, [[4, 2, 1, 0], [4, 2, 1, 0]]⟩ = .ok sub ∧
    sub.order = [0, 1, 2, 4] ∧
    sub.gsub.map (fun l => l.lookups) = some [[.ligs [(1, [([2], 3)])]]] :=
  ⟨_, rfl, rfl, rfl⟩

/-- `Dom` is met by the witness font (no value records needed: `vr` constantly "no record"), so
`C10_writable` applies to the run of `C10_nonvacuous`. -/
theorem C10_writable_nonvacuous :
    ∃ sub, subset wFont [0, 3] wOrder = .ok sub ∧ WritableByCodecs (fun _ => (none, none)) sub := by
  obtain ⟨sub, hs, _⟩ := C10_nonvacuous
  have D : Dom wFont [0, 3] (fun _ => (none, none)) := by
    refine ⟨by decide, by decide, by decide, ?_, fun _ => ⟨trivial, trivial⟩, ?_, ?_, ?_⟩
    · intro l hl subs hsubs t ht
      have : l = ⟨[[0]], [[.ligs [(1, [([2], 4)])]]]⟩ := by
        have : wFont.gsub = some l := hl
        simp only [wFont, Option.some.injEq] at this; exact this.symm
      subst this
      simp only [List.mem_cons, List.mem_nil_iff, or_false] at hsubs
      subst hsubs
      simp only [List.mem_cons, List.mem_nil_iff, or_false] at ht
      subst ht
      simp [GsubSubWF]
    · intro l hl subs hsubs ps hps x
      have hle : (leftSet ps x).length ≤ ps.length := by
        simp only [leftSet, List.length_map]; exact List.length_filter_le _ _
      have : l = ⟨[[0]], [[[(1, 2, 50)]]]⟩ := by
        have : wFont.gpos = some l := hl
        simp only [wFont, Option.some.injEq] at this; exact this.symm
      subst this
      simp only [List.mem_cons, List.mem_nil_iff, or_false] at hsubs
      subst hsubs
      simp only [List.mem_cons, List.mem_nil_iff, or_false] at hps
      subst hps
      simp only [List.length_cons, List.length_nil] at hle; omega
    · intro t ht kc hkc
      have : t = [("3.1.0.4", [(65, 1), (66, 3), (64257, 4)])] := by
        have : wFont.cmaps = some t := ht
        simp only [wFont, Option.some.injEq] at this; exact this.symm
      subst this
      simp only [List.mem_cons, List.mem_nil_iff, or_false] at hkc
      subst hkc
      exact ⟨by decide, by decide⟩
    · intro e he; simp [wFont] at he
  refine ⟨sub, hs, C10_writable D (fun _ x => List.Perm.refl x) hs ?_⟩
  intro e hk; simp [wFont] at hk

/-- a simple CFF font whose encoding gives codes 65, 66 to glyphs 1, 2 (contiguous) -/
def wCff : Font :=
  { isCFF := true
    glyphs := [⟨0, [], 500, 0⟩, ⟨1, [], 501, 1⟩, ⟨2, [], 502, 2⟩, ⟨3, [], 503, 3⟩]
    hasNames := true, cmaps := none
    privates := [0], matrices := [], cidKeyed := false, fdSelect := [0, 0, 0, 0]
    encoding := some ((List.range 256).map fun c => if c = 65 then 1 else if c = 66 then 2 else 0)
    gidToCID := none, gsub := none, gpos := none }

/-- The known finding C10-cff-encoding-order in the model: the original encoding is contiguous, the
subset `[0, 3, 2]` puts the unencoded glyph 3 before the encoded glyph 2 and its encoding violates
the writer's condition; `[0, 2, 3]` satisfies it. -/
theorem C10_writable_encoding_witness :
    (wCff.encoding.map encodingContiguous = some true) ∧
    (∃ sub, subset wCff [0, 3, 2] ⟨fun _ => id, [[]]⟩ = .ok sub ∧
      sub.encoding.map encodingContiguous = some false) ∧
    (∃ sub, subset wCff [0, 2, 3] ⟨fun _ => id, [[]]⟩ = .ok sub ∧
      sub.encoding.map encodingContiguous = some true) := by
  refine ⟨by decide, ⟨_, rfl, by decide⟩, ⟨_, rfl, by decide⟩⟩

end SfntV.Props.C10
