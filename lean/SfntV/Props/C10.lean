/-
C10 — subsetting keeps every selected glyph intact and consistently re-indexed.
Model: `SfntV.Subset.subset font glyphs order` (Model/Subset.lean) of `(*sfnt.Font).Subset` as
repaired (see cfg/C10.py).  All theorems hold for every font, every duplicate-free glyph list and
every iteration order `o` of the Go maps (`o.rules`: order of the rule list, `o.pops`: keys
returned by `pop(todo)`); `sub.order` is the old glyph id of every glyph of the subset.
Only property theorems and non-vacuity examples live here.
-/
import SfntV.Proofs.SubsetMain
import SfntV.Proofs.SubsetGsub
import SfntV.Proofs.SubsetCff

namespace SfntV.Props.C10
open SfntV SfntV.Subset

/-- Glyph `j` of the subset is the original glyph `sub.order[j]` — same outline payload, advance
width and name (for CFF the very same glyph record) — and the requested glyphs come first, in the
requested order: `sub.order = glyphs ++ extras`.  No glyph occurs twice. -/
theorem C10_positions {f : Font} {glyphs : List Gid} {o : Order} {sub : Sub}
    (hnd : glyphs.Nodup) (h : subset f glyphs o = .ok sub) :
    (∃ extras, sub.order = glyphs ++ extras) ∧ sub.order.Nodup ∧
    (∀ g ∈ sub.order, g < f.glyphs.length) ∧
    sub.glyphs.length = sub.order.length ∧ sub.hasNames = f.hasNames ∧
    ∀ (j : Nat) (old : Gid), sub.order[j]? = some old →
      ∃ g', sub.glyphs[j]? = some g' ∧ g'.payload = (f.glyph old).payload ∧
        g'.width = (f.glyph old).width ∧ g'.name = (f.glyph old).name ∧
        (f.isCFF = true → g' = f.glyph old) := by
  obtain ⟨s1, s2, r⟩ := subset_ok hnd h
  have he := r.eq
  have ho : sub.order = s2.glyphs := by rw [he]; rfl
  refine ⟨?_, ?_, ?_, ?_, ?_, ?_⟩
  · obtain ⟨e, h2⟩ := r.ext1.trans r.ext2
    exact ⟨e, by rw [ho, h2]; rfl⟩
  · rw [ho]; exact r.inv2.nodup
  · rw [ho]; exact r.inRange
  · rw [he]; simp [assemble]
  · rw [he]; rfl
  · intro j old hj
    rw [ho] at hj
    rw [he]
    simp only [assemble, List.getElem?_map, hj, Option.map_some]
    refine ⟨_, rfl, ?_⟩
    cases f.isCFF <;> simp [fixComponents]

/-- Requested glyph `i` of the subset is the requested original glyph (corollary of
`C10_positions` in the form the property is worded). -/
theorem C10_positions_requested {f : Font} {glyphs : List Gid} {o : Order} {sub : Sub}
    (hnd : glyphs.Nodup) (h : subset f glyphs o = .ok sub) (i : Nat) (old : Gid)
    (hi : glyphs[i]? = some old) :
    ∃ g', sub.glyphs[i]? = some g' ∧ g'.payload = (f.glyph old).payload ∧
      g'.width = (f.glyph old).width ∧ g'.name = (f.glyph old).name := by
  have hp := C10_positions hnd h
  obtain ⟨e, he⟩ := hp.1
  have : sub.order[i]? = some old := by
    rw [he]
    have hlt : i < glyphs.length := by
      rcases Nat.lt_or_ge i glyphs.length with h | h
      · exact h
      · rw [List.getElem?_eq_none h] at hi; cases hi
    rw [List.getElem?_append_left hlt]; exact hi
  obtain ⟨g', h1, h2, h3, h4, _⟩ := hp.2.2.2.2.2 i old this
  exact ⟨g', h1, h2, h3, h4⟩

/-- Closure: every component of a composite glyph of the subset is itself in the subset (extras are
appended after the requested glyphs by `C10_positions`). -/
theorem C10_closure {f : Font} {glyphs : List Gid} {o : Order} {sub : Sub}
    (hnd : glyphs.Nodup) (h : subset f glyphs o = .ok sub) (hk : f.isCFF = false) :
    ∀ g ∈ sub.order, ∀ c ∈ (f.glyph g).comps, c ∈ sub.order := by
  obtain ⟨s1, s2, r⟩ := subset_ok hnd h
  have ho : sub.order = s2.glyphs := by rw [r.eq]; rfl
  rw [ho]; exact r.closed hk

/-- Re-pointing: the `k`-th component reference of subset glyph `j` is a new index `c'` at which the
subset holds exactly the glyph the original reference `c` named — so (with `C10_positions`) it
points to the same outline as before.  Nothing else of the glyph changes. -/
theorem C10_components {f : Font} {glyphs : List Gid} {o : Order} {sub : Sub}
    (hnd : glyphs.Nodup) (h : subset f glyphs o = .ok sub) (hk : f.isCFF = false)
    (j : Nat) (old : Gid) (hj : sub.order[j]? = some old) :
    ∃ g', sub.glyphs[j]? = some g' ∧ g'.comps.length = (f.glyph old).comps.length ∧
      ∀ (k : Nat) (c : Gid), (f.glyph old).comps[k]? = some c →
        ∃ c', g'.comps[k]? = some c' ∧ sub.order[c']? = some c := by
  obtain ⟨s1, s2, r⟩ := subset_ok hnd h
  have he := r.eq
  have ho : sub.order = s2.glyphs := by rw [he]; rfl
  rw [ho] at hj ⊢
  have hmem : old ∈ s2.glyphs := List.mem_of_getElem? hj
  rw [he]
  simp only [assemble, List.getElem?_map, hj, Option.map_some, hk]
  refine ⟨_, rfl, by simp [fixComponents], ?_⟩
  intro k c hc
  exact getElem?_map_lookup r.inv2 (r.closed hk old hmem) hc

/-- Character maps: the subset has a subtable for exactly the keys of the original, and in each
`code ↦ n` holds iff the original maps `code` to the glyph that is glyph `n` of the subset.  So
every character of a retained glyph maps to its new index and no other character is mapped. -/
theorem C10_cmap {f : Font} {glyphs : List Gid} {o : Order} {sub : Sub}
    (hnd : glyphs.Nodup) (h : subset f glyphs o = .ok sub) :
    (f.cmaps = none → sub.cmaps = none) ∧
    ∀ t, f.cmaps = some t → ∃ t', sub.cmaps = some t' ∧ t'.map (·.1) = t.map (·.1) ∧
      ∀ (i : Nat) (key : String) (c : CMap), t[i]? = some (key, c) →
        ∃ c', t'[i]? = some (key, c') ∧ CMapOK sub.order c c' := by
  obtain ⟨s1, s2, r⟩ := subset_ok hnd h
  have he := r.eq
  have ho : sub.order = s2.glyphs := by rw [he]; rfl
  constructor
  · intro hn; rw [he]; simp [assemble, hn]
  · intro t ht
    refine ⟨t.map fun kc => (kc.1, subCMap s2.newGid kc.2), by rw [he]; simp [assemble, ht], ?_, ?_⟩
    · simp [List.map_map, Function.comp_def]
    · intro i key c hi
      refine ⟨subCMap s2.newGid c, by simp [List.getElem?_map, hi], ?_⟩
      rw [ho]; exact subCMap_ok r.inv2 c

/-- CFF data that is copied per glyph: the CID of subset glyph `j` is the CID of the original glyph,
and the built-in encoding sends each code to the new index of the glyph it named (0 = .notdef if
that glyph is not in the subset). -/
theorem C10_cff_cid_encoding {f : Font} {glyphs : List Gid} {o : Order} {sub : Sub}
    (hnd : glyphs.Nodup) (h : subset f glyphs o = .ok sub) (hk : f.isCFF = true) :
    (∀ t, f.gidToCID = some t → ∃ t', sub.gidToCID = some t' ∧ t'.length = sub.order.length ∧
      ∀ (j : Nat) (old : Gid), sub.order[j]? = some old → t'[j]? = some (t.getD old 0)) ∧
    (f.gidToCID = none → sub.gidToCID = none) ∧
    (f.encoding = none → sub.encoding = none) ∧
    (∀ e, f.encoding = some e → ∃ e', sub.encoding = some e' ∧ e'.length = e.length ∧
      ∀ (code : Nat) (g : Gid), e[code]? = some g →
        (∃ n, sub.order[n]? = some g ∧ e'[code]? = some n) ∨
        (g ∉ sub.order ∧ e'[code]? = some 0)) := by
  obtain ⟨s1, s2, r⟩ := subset_ok hnd h
  have he := r.eq
  have ho : sub.order = s2.glyphs := by rw [he]; rfl
  refine ⟨?_, ?_, ?_, ?_⟩
  · intro t ht
    refine ⟨s2.glyphs.map fun g => t.getD g 0, by rw [he]; simp [assemble, hk, ht], by simp [ho], ?_⟩
    intro j old hj
    rw [ho] at hj
    simp [List.getElem?_map, hj]
  · intro hn; rw [he]; simp [assemble, hn]
  · intro hn; rw [he]; simp [assemble, hn]
  · intro e hee
    refine ⟨e.map fun g => (s2.newGid.lookup g).getD 0, by rw [he]; simp [assemble, hk, hee],
      by simp, ?_⟩
    intro code g hg
    rw [ho]
    cases hl : s2.newGid.lookup g with
    | some n =>
      left; exact ⟨n, (r.inv2 g n).1 hl, by simp [List.getElem?_map, hg, hl]⟩
    | none =>
      right; exact ⟨(r.inv2.lookup_none g).1 hl, by simp [List.getElem?_map, hg, hl]⟩

/-- CFF private dictionaries: for every glyph `j` of the subset, the private dictionary its new
FDSelect value selects is the one the original FDSelect selected for the original glyph, and for
CID-keyed fonts the same holds for the font matrix. -/
theorem C10_cff_private {f : Font} {glyphs : List Gid} {o : Order} {sub : Sub}
    (hnd : glyphs.Nodup) (h : subset f glyphs o = .ok sub) (hk : f.isCFF = true)
    (j : Nat) (old : Gid) (hj : sub.order[j]? = some old) :
    ∃ k : Nat, sub.fdSelect[j]? = some k ∧
      sub.privates[k]? = some (f.privates.getD (f.fdSelect.getD old 0) 0) ∧
      (f.cidKeyed = true → sub.matrices[k]? = some (f.matrices.getD (f.fdSelect.getD old 0) 0)) := by
  obtain ⟨s1, s2, r⟩ := subset_ok hnd h
  have he := r.eq
  have ho : sub.order = s2.glyphs := by rw [he]; rfl
  rw [ho] at hj
  have := privLoop_spec f s2.glyphs j old hj
  rw [he]
  simpa [assemble, hk] using this

/-- Kerning (GPOS 2.1): feature lists and the number of lookups and subtables are unchanged (so
lookup indices keep their meaning) and in every subtable a pair `(nl, nr) ↦ adj` is present iff the
original has `(l, r) ↦ adj` for the glyphs `l`, `r` that are glyphs `nl`, `nr` of the subset. -/
theorem C10_layout_gpos {f : Font} {glyphs : List Gid} {o : Order} {sub : Sub}
    (hnd : glyphs.Nodup) (h : subset f glyphs o = .ok sub) :
    (f.gpos = none → sub.gpos = none) ∧
    ∀ l, f.gpos = some l → ∃ l', sub.gpos = some l' ∧ l'.features = l.features ∧
      l'.lookups.length = l.lookups.length ∧
      ∀ (i : Nat) (subs : List Pairs), l.lookups[i]? = some subs →
        ∃ subs', l'.lookups[i]? = some subs' ∧ subs'.length = subs.length ∧
          ∀ (k : Nat) (ps : Pairs), subs[k]? = some ps →
            ∃ ps', subs'[k]? = some ps' ∧ PairsOK sub.order ps ps' := by
  obtain ⟨s1, s2, r⟩ := subset_ok hnd h
  have he := r.eq
  have ho : sub.order = s2.glyphs := by rw [he]; rfl
  constructor
  · intro hn; rw [he]; simp [assemble, hn]
  · intro l hl
    refine ⟨⟨l.features, l.lookups.map fun subs => subs.map (subPairs s2.newGid)⟩,
      by rw [he]; simp [assemble, hl], rfl, by simp, ?_⟩
    intro i subs hi
    refine ⟨subs.map (subPairs s2.newGid), by simp [List.getElem?_map, hi], by simp, ?_⟩
    intro k ps hkk
    refine ⟨subPairs s2.newGid ps, by simp [List.getElem?_map, hkk], ?_⟩
    rw [ho]; exact subPairs_ok r.inv2 ps

/-- GSUB: the feature list is unchanged and every lookup keeps its index (emptied lookups are kept),
so feature → lookup indices still denote the same lookups. -/
theorem C10_layout_gsub_indices {f : Font} {glyphs : List Gid} {o : Order} {sub : Sub}
    (hnd : glyphs.Nodup) (h : subset f glyphs o = .ok sub) :
    (f.gsub = none → sub.gsub = none) ∧
    ∀ l, f.gsub = some l → ∃ l', sub.gsub = some l' ∧ l'.features = l.features ∧
      l'.lookups.length = l.lookups.length := by
  obtain ⟨s1, s2, r⟩ := subset_ok hnd h
  constructor
  · intro hn
    rcases r.gsubRun with ⟨_, h2, _⟩ | ⟨l, lay, h1, _, _⟩
    · exact h2
    · rw [hn] at h1; cases h1
  · intro l hl
    rcases r.gsubRun with ⟨h1, _, _⟩ | ⟨l0, lay, h1, h2, h3⟩
    · rw [hl] at h1; cases h1
    · rw [hl] at h1; injection h1 with h1; subst h1
      have := subsetGsub_good (init_inv hnd) h2
      exact ⟨lay, h3, this.2.2.1, this.2.2.2⟩

/-- Full statement of the ligature/substitution closure: every GSUB rule all of whose input glyphs
are in the subset has its output glyphs in the subset.  Not proved (and false for the code): a
glyph that enters only as a composite component (after `SubsetGsub` has run) can complete a rule —
see known finding C10-gsub-over-components. -/
def C10_closure_rules_full : Prop :=
  ∀ (f : Font) (glyphs : List Gid) (o : Order) (sub : Sub) (l : Layout GsubSub),
    glyphs.Nodup → (∀ x, (o.rules x).Perm x) → subset f glyphs o = .ok sub → f.gsub = some l →
    ∀ r ∈ rulesOf l, (∀ g ∈ r.ins, g ∈ sub.order) → ∀ g ∈ r.outs, g ∈ sub.order

/-- Proved part: the glyph list `T` reached when step 2 of `SubsetGsub` ends — requested glyphs
first, a prefix of the final glyph list — is closed under every GSUB rule (1.1 substitutions and 4.1
ligatures): all inputs in `T` ⇒ all outputs in `T`.  Holds for every order of the rule list. -/
theorem C10_closure_rules_partial {f : Font} {glyphs : List Gid} {o : Order} {sub : Sub}
    {l : Layout GsubSub} (hnd : glyphs.Nodup) (hp : ∀ x, (o.rules x).Perm x)
    (h : subset f glyphs o = .ok sub) (hl : f.gsub = some l) :
    ∃ T : List Gid, (∃ e, T = glyphs ++ e) ∧ (∃ e, sub.textGlyphs = T ++ e) ∧
      (∃ e, sub.order = sub.textGlyphs ++ e) ∧
      ∀ r ∈ rulesOf l, (∀ g ∈ r.ins, g ∈ T) → ∀ g ∈ r.outs, g ∈ T := by
  obtain ⟨s1, s2, r⟩ := subset_ok hnd h
  have he := r.eq
  have ho : sub.order = s2.glyphs := by rw [he]; rfl
  have ht : sub.textGlyphs = s1.glyphs := by rw [he]; rfl
  rcases r.gsubRun with ⟨h1, _, _⟩ | ⟨l0, lay, h1, h2, _⟩
  · rw [hl] at h1; cases h1
  · rw [hl] at h1; injection h1 with h1; subst h1
    obtain ⟨t, hti, ht0, ht1, hf⟩ := subsetGsub_closed (init_inv hnd) hp h2
    refine ⟨t.glyphs, ht0, by rw [ht]; exact ht1, by rw [ho, ht]; exact r.ext2, ?_⟩
    intro ru hru hins g hg
    have := hf ru hru (fun x hx => (hti.has_iff x).2 (hins x hx)) g hg
    exact (hti.has_iff g).1 this

/-! ### non-vacuity and the witness against the full rule closure -/

/-- 0 .notdef, 1 and 2 simple, 3 = composite of 1 and 2, 4 = ligature of 1 2; cmap A↦1 B↦3 fi↦4;
kerning (1,2) -/
def wFont : Font :=
  { isCFF := false
    glyphs := [⟨0, [], 500, 0⟩, ⟨1, [], 501, 1⟩, ⟨2, [], 502, 2⟩, ⟨3, [1, 2], 503, 3⟩, ⟨4, [], 504, 4⟩]
    hasNames := true
    cmaps := some [("3.1.0.4", [(65, 1), (66, 3), (64257, 4)])]
    privates := [], matrices := [], cidKeyed := false, fdSelect := []
    encoding := none, gidToCID := none
    gsub := some ⟨[[0]], [[.ligs [(1, [([2], 4)])]]]⟩
    gpos := some ⟨[[0]], [[[(1, 2, 50)]]]⟩ }

/-- rules in table order; `pop` returns 0, 3, 1, 2 -/
def wOrder : Order := ⟨id, [0, 3, 1, 2]⟩

/-- The hypotheses of the theorems are met by a run that appends extras, rewrites component
references, renumbers the cmap and the kerning pair: subset `[0, 3]` becomes glyphs `[0, 3, 1, 2]`,
the composite's references `[1, 2]` become `[2, 3]`, `B ↦ 1`, `A ↦ 2`, pair `(2, 3)`. -/
theorem C10_nonvacuous : ∃ sub, subset wFont [0, 3] wOrder = .ok sub ∧ sub.order = [0, 3, 1, 2] ∧
    sub.glyphs.map (·.comps) = [[], [2, 3], [], []] ∧
    sub.cmaps = some [("3.1.0.4", [(65, 2), (66, 1)])] ∧
    sub.gpos.map (·.lookups) = some [[[(2, 3, 50)]]] :=
  ⟨_, rfl, rfl, rfl, rfl, rfl⟩

example : ∃ sub, subset wFont [0, 1, 2] ⟨id, [4, 2, 1, 0]⟩ = .ok sub ∧ sub.order = [0, 1, 2, 4] ∧
    sub.gsub.map (fun l => l.lookups) = some [[.ligs [(1, [([2], 3)])]]] :=
  ⟨_, rfl, rfl, rfl⟩

/-- The full rule closure fails for the code as it is: in `wFont`, subsetting to `[0, 3]` brings in
glyphs 1 and 2 as components of 3 after `SubsetGsub` has run, so the ligature `1 2 → 4` has all its
inputs in the subset but its output is missing (and the rule is dropped). -/
theorem C10_closure_rules_full_false : ¬ C10_closure_rules_full := by
  intro hfull
  obtain ⟨sub, hs, ho, _⟩ := C10_nonvacuous
  have := hfull wFont [0, 3] wOrder sub ⟨[[0]], [[.ligs [(1, [([2], 4)])]]]⟩ (by decide)
    (fun x => List.Perm.refl x) hs rfl ⟨[1, 2], [4]⟩ (by decide) (by rw [ho]; decide) 4 (by simp)
  rw [ho] at this
  revert this
  decide

end SfntV.Props.C10
