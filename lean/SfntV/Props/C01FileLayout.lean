/-
C01 at the level of BYTES with the layout tables DECODED: `C01_file_roundtrip` / `_cff` with the
abstract layout decoders instantiated by C08's table-level reader (`Info.readGo`, the model of
`gtab.Read` incl. `readLookupList`, through the real subtable dispatchers; `Gdef.read`) and the abstract guards replaced by C08's domain (`InfoOk`,
`GdefOk` of the value the table bytes encode).  Proof: Proofs/FontFileLayout.lean.
-/
import SfntV.Proofs.FontFileLayout
import SfntV.Props.C01FileCff

namespace SfntV.Props.C01
open SfntV SfntV.Font SfntV.FontFile SfntV.Otl

/-- **Byte-level round trip, TrueType, GDEF/GSUB/GPOS decoded by C08's reader.**  No abstract
decoder is left: `layoutDec` runs `gdef.Read` / `gtab.Read` (C08 models) on the table bytes.  The
domain asks, besides the guards of `C01_file_roundtrip` that do not concern layout tables (`core`),
that every layout table present is `Info.encode` / `GdefV.encode` of a value in the domain of C08's
round-trip theorem (`layout`), within the reader's budget (`BudgetOk`: lookups + subtables ≤ 6000).
`gtab.Read` is C08's model of the Go reader itself (`Info.readGo`, incl. `readLookupList`), not a
specification reader; class tables come back in normal form inside the codecs' `nf`; GDEF
round-trips as an equation. -/
theorem C01_file_roundtrip_layout (ef : EnvF) (caretOf : Int → Int → Int) (F : FileFont)
    (h : InDomainFileL ef F) :
    ∃ b, writeFile ef F = .ok b ∧ readFile layoutDec caretOf b = .ok (nfFile F) :=
  file_roundtrip_layout ef caretOf F h

/-- the same for the OpenType/CFF flavour (the `CFF ` table itself stays behind `decCff`) -/
theorem C01_file_roundtrip_cff_layout (decCff : Bytes → Outcome CffPayload) (ef : EnvF)
    (caretOf : Int → Int → Int) (F : CffFileFont) (h : InDomainFileCffL decCff ef F) :
    ∃ b, writeFileCff ef F = .ok b ∧ readFileCff layoutDec decCff caretOf b = .ok (nfFileCff F) :=
  file_roundtrip_cff_layout decCff ef caretOf F h

/-! ### non-vacuity: the example fonts with a real GSUB table -/

/-- `Info.encode gsubCodec exG`: C08's example GSUB (two single-substitution formats in one
lookup, a ligature lookup with a mark filtering set, a coverage-based context lookup), 150 bytes -/
def exGsubBytes : Bytes :=
  [0, 1, 0, 0, 0, 10, 0, 12, 0, 30, 0, 0, 0, 1, 108, 105, 103, 97, 0, 8, 0, 0, 0, 3, 0, 0, 0, 1, 0, 2, 0, 3, 0, 8, 0, 50,
   0, 84, 0, 1, 0, 0, 0, 2, 0, 10, 0, 24, 0, 1, 0, 6, 0, 10, 0, 1, 0, 2, 0, 5, 0, 6, 0, 2, 0, 10, 0, 2, 0, 20, 0, 21, 0,
   1, 0, 2, 0, 7, 0, 9, 0, 4, 0, 16, 0, 1, 0, 10, 0, 2, 0, 1, 0, 18, 0, 1, 0, 8, 0, 1, 0, 4, 0, 90, 0, 2, 0, 31, 0, 1, 0,
   1, 0, 30, 0, 5, 0, 0, 0, 1, 0, 8, 0, 3, 0, 2, 0, 1, 0, 14, 0, 22, 0, 0, 0, 1, 0, 1, 0, 2, 0, 3, 0, 4, 0, 1, 0, 1, 0,
   7]

/-- the TrueType example font with that GSUB table -/
def exFileFontL : FileFont := { exFileFont with gsub := some exGsubBytes }

/-- the CFF example font with that GSUB table -/
def exCffFontL : CffFileFont := { exCffFont with gsub := some exGsubBytes }

/-- the abstract `cff.Read` of that example -/
def exDecCffL (b : Bytes) : Outcome CffPayload :=
  if b = exCffBytes then .ok exCffFontL.payload else .err "unknown table"

end SfntV.Props.C01
