/-
C01 — the abstract table codecs of the font-level model (`codecHead`, `codecOs2`, `codecPost`,
identity for maxp / hmtx widths / name strings / cmap / glyf) instantiated with the concrete
byte-level codecs that C12, C14, C09 and C11 model and prove round trips for.  Where the record
types line up, the statement is "decode (encode (concrete record)) projects to `codec (abstract
record)`"; for cmap and glyf the font-level model only holds an opaque token, so the discharged
assumption *is* the cited theorem.
-/
import SfntV.Props.C01
import SfntV.Proofs.MetricsHead
import SfntV.Proofs.MetricsOs2
import SfntV.Proofs.MetricsDerived
import SfntV.Proofs.NamesTable
import SfntV.Props.C09b
import SfntV.Props.C11

namespace SfntV.Props.C01
open SfntV SfntV.Font

/-! ### head -/

def goTime (t : Time) : Metrics.GoTime := ⟨t.sec, t.nsec⟩
def ofGoTime (t : Metrics.GoTime) : Time := ⟨t.sec, t.nsec⟩

/-- the `head.Info` a `HeadRec` stands for (makeHead, write.go:161-176); the bounding box and the
loca format come from the glyph data -/
def headOf (h : HeadRec) (bbox : Metrics.Rect) (loca : Int) : Metrics.Head :=
  { fontRevision := h.fontRevision, hasYBaseAt0 := true, hasXBaseAt0 := true, isNonlinear := false,
    unitsPerEm := h.unitsPerEm, created := goTime h.created, modified := goTime h.modified, bbox := bbox,
    isBold := h.isBold, isItalic := h.isItalic, hasShadow := false, isCondensed := false,
    isExtended := false, lowestRecPPEM := h.lowestRecPPEM, locaFormat := loca }

def recOfHead (h : Metrics.Head) : HeadRec :=
  { fontRevision := h.fontRevision, unitsPerEm := h.unitsPerEm, created := ofGoTime h.created,
    modified := ofGoTime h.modified, isBold := h.isBold, isItalic := h.isItalic,
    lowestRecPPEM := h.lowestRecPPEM }

/-- times whose `Unix() - zeroTime` does not wrap in int64 -/
def timeInRange (t : Time) : Prop := -4611686018427387904 < t.sec ∧ t.sec < 4611686018427387904

theorem C01_time_bridge (t : Time) (h : timeInRange t) :
    ofGoTime (Metrics.decodeTime (Metrics.encodeTime (goTime t))) = decodeTime (encodeTime t) := by
  obtain ⟨h1, h2⟩ := h
  obtain ⟨sec, nsec⟩ := t
  simp only at h1 h2
  have hz : (goTime ⟨sec, nsec⟩).isZero = (Time.isZero ⟨sec, nsec⟩) := rfl
  unfold Metrics.encodeTime Font.encodeTime
  rw [hz]
  cases hzz : Time.isZero ⟨sec, nsec⟩
  · simp only [Bool.false_eq_true, if_false, goTime]
    have hw : Metrics.wrap64 (sec - Gen.metricsZeroTime) = sec - epoch1904 := by
      unfold Metrics.wrap64 Gen.metricsZeroTime epoch1904; omega
    rw [hw]
    unfold Metrics.decodeTime Font.decodeTime
    by_cases he : sec - epoch1904 = 0
    · simp only [he, if_true]; rfl
    · simp only [he, if_false]
      have hw2 : Metrics.wrap64 (Gen.metricsZeroTime + (sec - epoch1904)) = epoch1904 + (sec - epoch1904) := by
        unfold Metrics.wrap64 Gen.metricsZeroTime epoch1904; omega
      rw [hw2]; rfl
  · simp only [if_true]
    rfl

/-- head: the byte-level codec of C12, projected to the fields of `HeadRec`, is `codecHead`. -/
theorem C01_head_codec (h : HeadRec) (bbox : Metrics.Rect) (loca : Int)
    (d : Metrics.HeadDom (headOf h bbox loca)) (hc : timeInRange h.created) (hm : timeInRange h.modified) :
    ∃ H, Metrics.decodeHead (Metrics.encodeHead (headOf h bbox loca)) = .ok H ∧ recOfHead H = codecHead h := by
  refine ⟨_, Metrics.head_roundtrip (headOf h bbox loca) d, ?_⟩
  unfold recOfHead codecHead
  simp only [headOf, C01_time_bridge h.created hc, C01_time_bridge h.modified hm]

/-! ### OS/2 -/

/-- the `os2.Info` an `Os2Rec` stands for; `x` supplies the fields the font-level model does not
carry (character range, Win metrics, sub/superscript metrics, panose, vendor, Unicode ranges) -/
def os2Of (o : Os2Rec) (x : Metrics.Os2) : Metrics.Os2 :=
  { x with weightClass := o.weightClass, widthClass := o.widthClass, isBold := o.isBold, isItalic := o.isItalic,
           isRegular := o.isRegular, isOblique := o.isOblique, ascent := o.ascent, descent := o.descent,
           lineGap := o.lineGap, capHeight := o.capHeight, xHeight := o.xHeight,
           avgGlyphWidth := o.avgGlyphWidth, familyClass := o.familyClass,
           codePageRange := o.codePageRange, permUse := o.permUse }

def recOfOs2 (o : Metrics.Os2) : Os2Rec :=
  { weightClass := o.weightClass, widthClass := o.widthClass, isBold := o.isBold, isItalic := o.isItalic,
    isRegular := o.isRegular, isOblique := o.isOblique, ascent := o.ascent, descent := o.descent,
    lineGap := o.lineGap, capHeight := o.capHeight, xHeight := o.xHeight, avgGlyphWidth := o.avgGlyphWidth,
    familyClass := o.familyClass, codePageRange := o.codePageRange, permUse := o.permUse }

/-- OS/2: on the domain of C12 (REGULAR excludes BOLD/ITALIC, heights ≥ 0, fsType value 0..3, fields in
range) the byte-level codec is the identity, and so is `codecOs2`.  The three normalisations
`codecOs2` applies outside that domain are the ones C12 lists as forced (`C12_os2_domain_forced`);
they stay modelled and are checked by the streams font.derive / metrics.os2enc. -/
theorem C01_os2_codec (o : Os2Rec) (x : Metrics.Os2) (d : Metrics.Os2Dom (os2Of o x)) :
    Metrics.decodeOs2 (Metrics.encodeOs2 (os2Of o x)) = .ok (os2Of o x) ∧
    recOfOs2 (os2Of o x) = codecOs2 o ∧ codecOs2 o = o := by
  refine ⟨Metrics.os2_roundtrip _ d, ?_⟩
  have hreg := d.reg
  have hcap := d.cap0
  have hxh := d.xh0
  have hperm := d.perm
  simp only [os2Of] at hreg hcap hxh hperm
  have hfix : codecOs2 o = o := by
    obtain ⟨wt, wd, bold, ital, reg, obl, asc, des, gap, cap, xh, avg, fc, cpr, perm⟩ := o
    simp only at hreg hcap hxh hperm
    unfold codecOs2
    simp only [Os2Rec.mk.injEq, true_and]
    refine ⟨?_, ?_, ?_, ?_, ?_⟩
    · cases reg <;> cases bold <;> simp_all
    · cases reg <;> cases ital <;> simp_all
    · split <;> omega
    · split <;> omega
    · split <;> omega
  exact ⟨by rw [hfix]; rfl, hfix⟩

/-! ### post header -/

/-- the 32-byte post header `makePost` writes for a `PostRec` -/
def postHdrOf (p : PostRec) : Metrics.PostHdr :=
  ⟨toInt32 p.italicAngle.round16, p.underlinePosition, p.underlineThickness, p.isFixedPitch⟩

/-- `post.Read`: `ItalicAngle = float64(n) / 65536` -/
def recOfPostHdr (h : Metrics.PostHdr) : PostRec :=
  ⟨⟨h.italicAngle, 16⟩, h.underlinePosition, h.underlineThickness, h.isFixedPitch⟩

/-- post: the byte-level header codec of C12, composed with the 16.16 conversion, is `codecPost`. -/
theorem C01_post_codec (v : Nat) (hv : v = 0x00010000 ∨ v = 0x00030000 ∨ v = 0x00040000) (p : PostRec)
    (hp : isInt16 p.underlinePosition) (ht : isInt16 p.underlineThickness) :
    Metrics.decodePost (Metrics.encodePost v (postHdrOf p)) = .ok (v, postHdrOf p) ∧
    recOfPostHdr (postHdrOf p) = codecPost p := by
  refine ⟨Metrics.post_roundtrip v (postHdrOf p) hv ?_ hp ht, rfl⟩
  have := toInt32_range p.italicAngle.round16
  simp only [postHdrOf]
  omega

/-! ### maxp, hmtx widths, name strings, cmap, glyf: identity, by citation -/

/-- the twelve strings of a `NameRec` as Windows en-US and Macintosh en entries of a `name.Info`
(what `makeName` builds); empty strings are not entered -/
def nameEntries (n : NameRec) : List Names.Entry :=
  let strs : List (Nat × Str) :=
    [(0, n.copyright), (1, n.family), (2, n.subfamily), (3, n.identifier), (4, n.fullName), (5, n.version),
     (6, n.postScriptName), (7, n.trademark), (10, n.description), (13, n.license), (14, n.licenseURL),
     (19, n.sampleText)]
  let live := strs.filter fun p => !p.2.isEmpty
  (live.map fun p => ⟨1, "en", p.1, p.2.map Char.toNat⟩) ++
  (live.map fun p => ⟨3, "en-US", p.1, p.2.map Char.toNat⟩)

/-- The assumptions "the codec is the identity on …" of the font-level model, each discharged by
the theorem of the property that owns the codec. -/
structure CodecFacts : Prop where
  /-- head (C12) -/
  head : ∀ (h : HeadRec) (bbox : Metrics.Rect) (loca : Int), Metrics.HeadDom (headOf h bbox loca) →
    timeInRange h.created → timeInRange h.modified →
    ∃ H, Metrics.decodeHead (Metrics.encodeHead (headOf h bbox loca)) = .ok H ∧ recOfHead H = codecHead h
  /-- OS/2 (C12) -/
  os2 : ∀ (o : Os2Rec) (x : Metrics.Os2), Metrics.Os2Dom (os2Of o x) →
    Metrics.decodeOs2 (Metrics.encodeOs2 (os2Of o x)) = .ok (os2Of o x) ∧ recOfOs2 (os2Of o x) = codecOs2 o
  /-- post header (C12) -/
  post : ∀ (v : Nat), (v = 0x00010000 ∨ v = 0x00030000 ∨ v = 0x00040000) → ∀ p : PostRec,
    isInt16 p.underlinePosition → isInt16 p.underlineThickness →
    Metrics.decodePost (Metrics.encodePost v (postHdrOf p)) = .ok (v, postHdrOf p) ∧
    recOfPostHdr (postHdrOf p) = codecPost p
  /-- maxp.NumGlyphs (C12) -/
  maxp : ∀ (n : Nat) (ttf : Option (List Nat)), 1 ≤ n → n < 65536 →
    (∀ vs, ttf = some vs → vs.length = 13 ∧ ∀ v ∈ vs, v < 65536) →
    ∃ b, Metrics.encodeMaxp ⟨n, ttf⟩ = .ok b ∧ Metrics.decodeMaxp b = .ok ⟨n, ttf⟩
  /-- name strings (C14): every string of the record comes back under its platform, tag and id -/
  name : ∀ (n : NameRec) (macOrder winOrder : List (Nat × String)),
    Names.NameDom Gen.appleBCP Gen.msBCP macOrder winOrder (nameEntries n) 1 →
    ∃ dec, Names.nameDecode (Names.nameEncodeWith macOrder winOrder (nameEntries n) 1) = some dec ∧
      ∀ p t i, Names.getVal dec p t i = Names.getVal (nameEntries n) p t i
  /-- cmap (C09): the payload the model keeps as the token `Outline.cmap` -/
  cmap : ∀ (t : CmapTable.Table), (∀ kd ∈ t, CmapTable.ValidSub kd.1 kd.2) → t.length < 65536 →
    (CmapTable.encode t).length < 4294967296 → CmapTable.decode (CmapTable.encode t) = .ok t
  /-- glyf/loca (C11): the payload the model keeps as the token `Outline.glyphs` -/
  glyf : ∀ (gs : Glyf.Glyphs), SfntV.Props.C11.WFGlyphs gs →
    ∃ e, Glyf.encode gs = .ok e ∧ Glyf.decode (e.fmt : Int) e.loca e.glyf = .ok gs

/-- head, OS/2, post, maxp, name, cmap and glyf no longer enter `C01_read_write` as assumptions:
the abstract `codec` agrees with the concrete codecs of C12/C14/C09/C11 on their domains. -/
theorem C01_codec_assumptions_discharged : CodecFacts where
  head := C01_head_codec
  os2 := fun o x d => ⟨(C01_os2_codec o x d).1, (C01_os2_codec o x d).2.1⟩
  post := C01_post_codec
  maxp := fun n ttf h1 h2 ht => Metrics.maxp_roundtrip ⟨n, ttf⟩ ⟨by simp only; omega, by simp only; omega⟩ ht
  name := fun n mo wo h => Names.name_roundtrip_with Gen.appleBCP Gen.msBCP mo wo (nameEntries n) 1 h
  cmap := fun t hv hn hsz => C09b.C09_table_roundtrip t hv hn hsz
  glyf := fun gs h => SfntV.Props.C11.C11_roundtrip gs h

/-! ### non-vacuity of the bridges -/

def sampleHead : HeadRec :=
  { fontRevision := 65536, unitsPerEm := 1000, created := ⟨1700000000, 5⟩, modified := ⟨epoch1904, 0⟩,
    isBold := false, isItalic := true, lowestRecPPEM := 7 }

example : ∃ H, Metrics.decodeHead (Metrics.encodeHead (headOf sampleHead ⟨0, -200, 600, 800⟩ 0)) = .ok H ∧
    recOfHead H = codecHead sampleHead :=
  C01_head_codec sampleHead ⟨0, -200, 600, 800⟩ 0
    ⟨by decide, by decide, ⟨by decide, by decide⟩, ⟨by decide, by decide⟩, ⟨by decide, by decide⟩,
      ⟨by decide, by decide⟩, by decide, ⟨by decide, by decide⟩⟩
    ⟨by decide, by decide⟩ ⟨by decide, by decide⟩
example : codecHead sampleHead ≠ sampleHead := by decide

example : recOfPostHdr (postHdrOf ⟨⟨-25, 1⟩, -75, 50, false⟩) = codecPost ⟨⟨-25, 1⟩, -75, 50, false⟩ ∧
    codecPost ⟨⟨-25, 1⟩, -75, 50, false⟩ ≠ ⟨⟨-25, 1⟩, -75, 50, false⟩ :=
  ⟨(C01_post_codec 0x00030000 (Or.inr (Or.inl rfl)) _ ⟨by decide, by decide⟩ ⟨by decide, by decide⟩).2, by decide⟩

end SfntV.Props.C01
