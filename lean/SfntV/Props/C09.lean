/-
C09 — character maps encode and decode faithfully (format 4 part; format 12 / table-level
theorems are in Props/C09b).  Only property theorems and non-vacuity examples live here;
helper lemmas are in Proofs/Cmap4.
-/
import SfntV.Proofs.Cmap4
import SfntV.Proofs.Cmap4Fits

namespace SfntV.Props.C09
open SfntV SfntV.Cmap4

/-- Every segment proposed by `AppendEdges` at vertex `v` starts at or after `v`, is consistent
with the map on its whole range, and every code skipped before it is unmapped. -/
theorem C09_edge_sound (m : M) (v : Nat) :
    ∀ s ∈ appendEdges m v, v ≤ s.first ∧ s.Sound m ∧ (∀ c, v ≤ c → c < s.first → m c % 65536 = 0) :=
  appendEdges_sound m v

/-- Whatever path of proposed edges from 0 to 0x10000 the shortest-path routine returns, it is
a chain of sound segments covering all of 0..0xFFFF. -/
theorem C09_path_chain (m : M) (path : List Seg) (h : IsPath m 0 path) : Chain m 0 path :=
  isPath_chain m 0 path h

/-- …and it ends with the segment [0xFFFF, 0xFFFF] the format requires. -/
theorem C09_last_segment (m : M) (path : List Seg) (h : IsPath m 0 path) :
    ∃ s, path.getLast? = some s ∧ s.first = 0xFFFF ∧ s.last = 0xFFFF :=
  isPath_last m path h

/-- For any chain of sound segments, the OpenType lookup over the assembled arrays returns the
map's glyph for every code 0..0xFFFF and glyph 0 for every unmapped one (glyph ids mod 65536). -/
theorem C09_fmt4_arrays (m : M) (ss : List Seg) (h : Chain m 0 ss) :
    ∀ c, c < 65536 → specLookup (assemble m ss) c = m c % 65536 :=
  lookup_assemble m ss h

/-- The same on the emitted bytes, for every path `Format4.Encode` can take: whenever the
encoder does not refuse (panic "too many mappings"), an independent decoder reading the bytes by
the OpenType rules gets exactly the map.  Hypothesis `hlen` (fewer than 32768 segments) is
necessary: `IsPath` admits any path of proposed edges, e.g. 65536 one-code delta segments for
the map c ↦ (1 if c even else 3); the encoder does not refuse it, segCountX2 = 2·65536 mod 65536
= 0 is written and every lookup in the bytes returns 0. -/
theorem C09_fmt4 (m : M) (lang : Nat) (path : List Seg) (b : Bytes) (h : IsPath m 0 path)
    (hlen : path.length < 32768) (hb : encode m lang path = some b) :
    ∀ c, c < 65536 → specLookupBytes b c = m c % 65536 :=
  lookup_encode m lang path b h hlen hb

/-- The statement at full strength on the property's domain ("up to the 64 KiB subtable limit"):
for every map, every language value and every path the shortest-path routine may return, if the
emitted subtable is shorter than 64 KiB then the independent decoder reads exactly the map.  (A
subtable shorter than 64 KiB has fewer than 8190 segments, so segCountX2 cannot wrap.) -/
theorem C09_fmt4_64k (m : M) (lang : Nat) (path : List Seg) (b : Bytes) (h : IsPath m 0 path)
    (hb : encode m lang path = some b) (hl : b.length < 65536) :
    ∀ c, c < 65536 → specLookupBytes b c = m c % 65536 :=
  lookup_encode_64k m lang path b h hb hl

/-- Header fields follow the OpenType formulae: format 4, segCountX2, searchRange =
2·2^⌊log2 segCount⌋, entrySelector = ⌊log2 segCount⌋, rangeShift = segCountX2 − searchRange,
and the length field is the number of bytes emitted (when it fits 16 bits). -/
theorem C09_fmt4_header (m : M) (lang : Nat) (path : List Seg) (b : Bytes) (h : IsPath m 0 path)
    (hb : encode m lang path = some b) (hl : b.length < 65536) (hlang : lang < 65536) :
    (wordsOf b).take 7 =
      [4, b.length, lang, 2 * path.length, 2 * 2 ^ Nat.log2 path.length, Nat.log2 path.length,
       2 * path.length - 2 * 2 ^ Nat.log2 path.length] :=
  encode_header m lang path b h hb hl hlang

/-- The model of the library's decoder agrees with the specification on every subtable it accepts
(after repair 823b071): for all byte strings and all codes. -/
theorem C09_impl_eq_spec_4 (b : Bytes) (l : List (Nat × Nat)) (h : decode b = some l) :
    ∀ c, c < 65536 → alistGet l c = specLookupBytes b c :=
  decode_eq_spec b l h

/-! Non-vacuity -/
def exM : M := fun c => if c = 65 then 10 else if c = 66 then 11 else if c = 70 then 3 else 0
def exPath : List Seg := [⟨65, 70, 0, true⟩, ⟨65535, 65535, 1, false⟩]

/-- the edges proposed at vertex 0: a delta segment for 65..66 and a values segment 65..70 -/
example : appendEdges exM 0 = [⟨65, 66, 65481, false⟩, ⟨65, 70, 0, true⟩] := by decide

theorem exPath_isPath : IsPath exM 0 exPath := by
  refine ⟨by decide, ?_, rfl⟩
  have h : skipNotdef exM 65536 71 = 0xFFFF :=
    skipNotdef_all_zero exM 65536 71 (by omega) (by omega) (by
      intro c h1 h2
      have e1 : ¬ c = 65 := by omega
      have e2 : ¬ c = 66 := by omega
      have e3 : ¬ c = 70 := by omega
      simp only [exM, e1, e2, e3, if_false])
  show _ ∈ appendEdges exM 71
  unfold appendEdges
  rw [h]
  decide

example : Chain exM 0 exPath := isPath_chain exM 0 exPath exPath_isPath

example : (encode exM 0 exPath).isSome = true := by decide

/-- the library decoder accepts the emitted bytes and reads 70 ↦ 3, 66 ↦ 11, 67 ↦ 0 -/
example : ((encode exM 0 exPath).bind decode).map (fun l => (alistGet l 70, alistGet l 66, alistGet l 67))
    = some (3, 11, 0) := by decide

end SfntV.Props.C09
