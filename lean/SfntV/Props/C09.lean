/-
C09 — character maps encode and decode faithfully (format 4 part; format 12 / table-level
theorems are in Props/C09b).  Only property theorems and non-vacuity examples live here;
helper lemmas are in Proofs/Cmap4.
-/
import SfntV.Proofs.Cmap4

namespace SfntV.Props.C09
open SfntV SfntV.Cmap4

/-- Every segment proposed by `AppendEdges` at vertex `v` starts at or after `v`, is consistent
with the map on its whole range, and every code skipped before it is unmapped. -/
theorem C09_edge_sound (m : M) (v : Nat) :
    ∀ s ∈ appendEdges m v, v ≤ s.first ∧ s.Sound m ∧ (∀ c, v ≤ c → c < s.first → m c % 65536 = 0) :=
  appendEdges_sound m v

/-- Whatever path of proposed edges from 0 to 0x10000 the shortest-path routine returns, it is
a chain of sound segments covering all of 0..0xFFFF. -/
theorem C09_path_chain (m : M) (path : List Seg) (h : IsPath m 0 path) : Chain m 0 path :=
  isPath_chain m 0 path h

/-- …and it ends with the segment [0xFFFF, 0xFFFF] the format requires. -/
theorem C09_last_segment (m : M) (path : List Seg) (h : IsPath m 0 path) :
    ∃ s, path.getLast? = some s ∧ s.first = 0xFFFF ∧ s.last = 0xFFFF :=
  isPath_last m path h

/-- For any chain of sound segments, the OpenType lookup over the assembled arrays returns the
map's glyph for every code 0..0xFFFF and glyph 0 for every unmapped one (glyph ids mod 65536). -/
theorem C09_fmt4_arrays (m : M) (ss : List Seg) (h : Chain m 0 ss) :
    ∀ c, c < 65536 → specLookup (assemble m ss) c = m c % 65536 :=
  lookup_assemble m ss h

/-- The same on the emitted bytes, for every path `Format4.Encode` can take: whenever the
encoder does not refuse (panic "too many mappings"), an independent decoder reading the bytes by
the OpenType rules gets exactly the map. -/
theorem C09_fmt4 (m : M) (lang : Nat) (path : List Seg) (b : Bytes) (h : IsPath m 0 path)
    (hb : encode m lang path = some b) :
    ∀ c, c < 65536 → specLookupBytes b c = m c % 65536 :=
  lookup_encode m lang path b h hb

/-- Header fields follow the OpenType formulae: format 4, segCountX2, searchRange =
2·2^⌊log2 segCount⌋, entrySelector = ⌊log2 segCount⌋, rangeShift = segCountX2 − searchRange,
and the length field is the number of bytes emitted (when it fits 16 bits). -/
theorem C09_fmt4_header (m : M) (lang : Nat) (path : List Seg) (b : Bytes) (h : IsPath m 0 path)
    (hb : encode m lang path = some b) (hl : b.length < 65536) (hlang : lang < 65536) :
    (wordsOf b).take 7 =
      [4, b.length, lang, 2 * path.length, 2 * 2 ^ Nat.log2 path.length, Nat.log2 path.length,
       2 * path.length - 2 * 2 ^ Nat.log2 path.length] :=
  encode_header m lang path b h hb hl hlang

/-- The model of the library's decoder agrees with the specification on every subtable it accepts
(after repair 823b071): for all byte strings and all codes. -/
theorem C09_impl_eq_spec_4 (b : Bytes) (l : List (Nat × Nat)) (h : decode b = some l) :
    ∀ c, c < 65536 → alistGet l c = specLookupBytes b c :=
  decode_eq_spec b l h

/-! Non-vacuity -/
def exM : M := fun c => if c = 65 then 10 else if c = 66 then 11 else if c = 70 then 3 else 0
def exPath : List Seg := [⟨65, 70, 0, true⟩, ⟨65535, 65535, 1, false⟩]

end SfntV.Props.C09
