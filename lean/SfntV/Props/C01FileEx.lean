/-
C01 (bytes) — non-vacuity of `C01_file_roundtrip`: the concrete two-glyph TrueType font
`exFileFont` of Props/C01File.lean lies in `InDomainFile`, so the theorem applies to it.
Every guard is a closed statement and is checked by evaluation (`decide`, in the kernel where the
elaborator's evaluator is too slow).  Only `List.mergeSort` (well-founded recursion) does not
evaluate in the kernel: the records `Encode` builds for the example are already in order, so the
sort is the identity (`List.mergeSort_of_pairwise`).
-/
import SfntV.Props.C01File

namespace SfntV.Props.C01
open SfntV SfntV.Font SfntV.FontFile

/-! ### glyphs, widths, maxp, hhea, side tables -/

theorem ex_glyphs : Props.C11.WFGlyphs exGlyphs := by decide +kernel
theorem ex_count : exFileFont.glyphs.length < 65536 := by decide
theorem ex_widthsLen : exFileFont.widths.length = exFileFont.glyphs.length := by decide
theorem ex_widthsRange : ∀ w ∈ exFileFont.widths, isInt16 w := by unfold isInt16; decide
theorem ex_extents : ∀ e ∈ exFileFont.glyphs.map rectOf, isInt16 e.llx := by unfold isInt16; decide +kernel
theorem ex_maxp : exFileFont.maxpTtf.length = 13 ∧ ∀ v ∈ exFileFont.maxpTtf, v < 65536 := by decide
theorem ex_ctime : timeInRange exFileFont.scalars.creationTime := by unfold timeInRange; decide
theorem ex_mtime : timeInRange exFileFont.scalars.modificationTime := by unfold timeInRange; decide
theorem ex_ascent : isInt16 exFileFont.scalars.ascent := by unfold isInt16; decide
theorem ex_descent : isInt16 exFileFont.scalars.descent := by unfold isInt16; decide
theorem ex_lineGap : isInt16 exFileFont.scalars.lineGap := by unfold isInt16; decide
theorem ex_caret : isInt16 (exEnvF.riseRun exFileFont.scalars.italicAngle).1 ∧ isInt16 (exEnvF.riseRun exFileFont.scalars.italicAngle).2 := by unfold isInt16; decide
theorem ex_version : exFileFont.scalars.version < 4294967296 := by decide
theorem ex_sideTags : ∀ t ∈ exFileFont.sideTables, t.1 ∈ sideTags := by decide
theorem ex_sideNodup : (exFileFont.sideTables.map (·.1)).Nodup := by decide
theorem ex_sideCount : exFileFont.sideTables.length ≤ 4 := by decide

/-! ### head, OS/2 -/

theorem ex_head : Metrics.HeadDom (headInfoOf exFileFont) where
  rev := by decide +kernel
  upm := by decide +kernel
  llx := by unfold Metrics.I16; decide +kernel
  lly := by unfold Metrics.I16; decide +kernel
  urx := by unfold Metrics.I16; decide +kernel
  ury := by unfold Metrics.I16; decide +kernel
  ppem := by decide +kernel
  loca := by unfold Metrics.I16; decide +kernel

theorem ex_os2 : Metrics.Os2Dom (os2InfoOf exFileFont) where
  wc := by decide +kernel
  wd := by decide +kernel
  reg := by decide +kernel
  first := by decide +kernel
  last := by decide +kernel
  asc := by unfold Metrics.I16; decide +kernel
  desc := by unfold Metrics.I16; decide +kernel
  wasc := by unfold Metrics.I16; decide +kernel
  wdesc := by unfold Metrics.I16; decide +kernel
  gap := by unfold Metrics.I16; decide +kernel
  cap := by unfold Metrics.I16; decide +kernel
  xh := by unfold Metrics.I16; decide +kernel
  cap0 := by decide +kernel
  xh0 := by decide +kernel
  avg := by unfold Metrics.I16; decide +kernel
  fam := by unfold Metrics.I16; decide +kernel
  sub_len := by decide +kernel
  sub_rng := by unfold Metrics.I16; decide +kernel
  panose_len := by decide +kernel
  panose_rng := by decide +kernel
  vendor_len := by decide +kernel
  ur_len := by decide +kernel
  ur_rng := by decide +kernel
  bit57 := by
    have h : (os2InfoOf exFileFont).unicodeRange = [0,0,0,0] := by decide +kernel
    have h2 : (os2InfoOf exFileFont).lastCharIndex = 72 := by decide +kernel
    rw [h, h2]
    intro u hu
    simp at hu
    subst hu
    decide
  cpr := by decide +kernel
  perm := by decide +kernel

/-! ### cmap, glyph names -/

theorem ex_validSub (k : CmapTable.Key) (hp : k.p ≤ 4) (he : k.e < 65536) (hl : k.l = 0) (hk : k.p ≠ 1) :
    CmapTable.ValidSub k exCmap4 := by
  refine ⟨hp, he, 4, by decide +kernel, ?_⟩
  have hk4 : CmapTable.hdrKind 4 = .len16 := by decide
  rw [hk4]
  refine ⟨by decide, by decide +kernel, 0, by decide +kernel, ?_⟩
  rw [hl, if_pos hk]

theorem ex_cmap : ∀ t, exFileFont.cmap = some t → (∀ kd ∈ t, CmapTable.ValidSub kd.1 kd.2) ∧ t.length < 65536 ∧
    (CmapTable.encode t).length < 4294967296 := by
  intro t ht
  cases ht
  refine ⟨?_, by decide, by decide +kernel⟩
  intro kd hkd
  simp only [List.mem_cons, List.not_mem_nil, or_false] at hkd
  rcases hkd with rfl | rfl
  · exact ex_validSub _ (by decide) (by decide) rfl (by decide)
  · exact ex_validSub _ (by decide) (by decide) rfl (by decide)

theorem ex_names : NamesOK exFileFont.glyphNames := by
  intro ns h
  cases h
  exact ⟨by decide, by decide +kernel, by decide +kernel⟩

theorem ex_namesLen : ∀ ns, exFileFont.glyphNames = some ns → ns.length = exFileFont.glyphs.length := by
  intro ns h
  cases h
  rfl

/-! ### name -/

def exNameEntries : List Names.Entry :=
  [⟨1, "en", 0, [40, 99, 41, 32, 120]⟩,
   ⟨1, "en", 1, [84, 101, 115, 116]⟩,
   ⟨1, "en", 2, [66, 111, 108, 100]⟩,
   ⟨1, "en", 3, [84, 101, 115, 116, 32, 66, 111, 108, 100, 59, 32, 49, 46, 50, 51, 53, 59, 32, 50, 48, 50, 51,
                 45, 49, 49, 45, 49, 52]⟩,
   ⟨1, "en", 4, [84, 101, 115, 116, 32, 66, 111, 108, 100]⟩,
   ⟨1, "en", 5, [86, 101, 114, 115, 105, 111, 110, 32, 49, 46, 50, 51, 53]⟩,
   ⟨1, "en", 6, [84, 101, 115, 116, 45, 66, 111, 108, 100]⟩,
   ⟨1, "en", 10, [100, 101, 115, 99]⟩,
   ⟨1, "en", 13, [120]⟩,
   ⟨1, "en", 14, [120]⟩,
   ⟨3, "en-US", 0, [40, 99, 41, 32, 120]⟩,
   ⟨3, "en-US", 1, [84, 101, 115, 116]⟩,
   ⟨3, "en-US", 2, [66, 111, 108, 100]⟩,
   ⟨3, "en-US", 3, [84, 101, 115, 116, 32, 66, 111, 108, 100, 59, 32, 49, 46, 50, 51, 53, 59, 32, 50, 48, 50, 51,
                    45, 49, 49, 45, 49, 52]⟩,
   ⟨3, "en-US", 4, [84, 101, 115, 116, 32, 66, 111, 108, 100]⟩,
   ⟨3, "en-US", 5, [86, 101, 114, 115, 105, 111, 110, 32, 49, 46, 50, 51, 53]⟩,
   ⟨3, "en-US", 6, [84, 101, 115, 116, 45, 66, 111, 108, 100]⟩,
   ⟨3, "en-US", 10, [100, 101, 115, 99]⟩,
   ⟨3, "en-US", 13, [120]⟩,
   ⟨3, "en-US", 14, [120]⟩]

theorem ex_nameEntries : nameEntries (deriveName exEnvF.env (metaOf exFileFont)) = exNameEntries := by
  decide +kernel

theorem ex_name : Names.NameDom Gen.appleBCP Gen.msBCP (Names.sortLangs Gen.appleBCP) (Names.sortLangs Gen.msBCP)
    exNameEntries 1 where
  apple_ok := by constructor <;> decide +kernel
  ms_ok := by constructor <;> decide +kernel
  mac_order := fun lt => Names.mem_sortLangs lt _
  win_order := fun lt => Names.mem_sortLangs lt _
  keys := by unfold Names.keysNodup; decide +kernel
  plat := by decide +kernel
  mac := by
    intro e he hp
    have h1 : (0, e.tag) ∈ Gen.appleBCP ∧ ∀ c ∈ e.val, Names.macRepresentable c = true := by
      revert e
      decide +kernel
    exact ⟨⟨0, h1.1⟩, h1.2⟩
  win := by
    intro e he hp
    have h1 : (1033, e.tag) ∈ Gen.msBCP ∧ ∀ c ∈ e.val, Names.isScalar c = true := by
      revert e
      decide +kernel
    exact ⟨⟨1033, h1.1⟩, h1.2⟩
  ids := by decide +kernel
  eid := Or.inl rfl
  fits_records := by decide +kernel
  fits_storage := by decide +kernel

/-! ### file size -/

/-- the name records of the example are built in sorted order: `Encode` is the unsorted encoding -/
theorem ex_nameEncode :
    Names.nameEncode (nameEntries (deriveName exEnvF.env (metaOf exFileFont))) 1 =
      Names.encodeBytes
        (Names.nameBuild (Names.sortLangs Gen.appleBCP) (Names.sortLangs Gen.msBCP)
          (nameEntries (deriveName exEnvF.env (metaOf exFileFont))) 1).2
        (Names.nameBuild (Names.sortLangs Gen.appleBCP) (Names.sortLangs Gen.msBCP)
          (nameEntries (deriveName exEnvF.env (metaOf exFileFont))) 1).1.data := by
  unfold Names.nameEncode
  rw [Names.nameEncodeWith_eq, List.mergeSort_of_pairwise (by decide +kernel)]

theorem ex_size : ∀ ts, writeTables exEnvF exFileFont = .ok ts → Header.fileSize (Header.named ts) < 4294967296 := by
  have : (match writeTables exEnvF exFileFont with | .ok ts => Header.fileSize (Header.named ts) | _ => 0) < 4294967296 := by
    unfold writeTables
    simp only []
    rw [ex_nameEncode]
    decide +kernel
  intro ts h; rw [h] at this; exact this

theorem C01_file_example_in_domain : InDomainFile exLayoutDec exEnvF exFileFont where
  glyphs := ex_glyphs
  count := ex_count
  widthsLen := ex_widthsLen
  widthsRange := ex_widthsRange
  extents := ex_extents
  maxp := ex_maxp
  head := ex_head
  ctime := ex_ctime
  mtime := ex_mtime
  os2 := ex_os2
  ascent := ex_ascent
  descent := ex_descent
  lineGap := ex_lineGap
  caret := ex_caret
  name := ex_nameEntries ▸ ex_name
  cmap := ex_cmap
  names := ex_names
  namesLen := ex_namesLen
  gdef := by intro b h; cases h
  gsub := by intro b h; cases h; exact ⟨by decide, rfl⟩
  gpos := by intro b h; cases h
  version := ex_version
  sideTags := ex_sideTags
  sideNodup := ex_sideNodup
  sideCount := ex_sideCount
  size := ex_size

/-- the theorem applied to the example: a 1084-byte file that reads back as the normal form -/
theorem C01_file_example : ∃ b, writeFile exEnvF exFileFont = .ok b ∧
    readFile exLayoutDec (fun _ _ => 0) b = .ok (nfFile exFileFont) :=
  C01_file_roundtrip exLayoutDec exEnvF (fun _ _ => 0) exFileFont C01_file_example_in_domain

end SfntV.Props.C01
