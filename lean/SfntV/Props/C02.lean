/-
C02 — decoders are total on untrusted bytes: value or error, never a panic, cost linear in the
input.  Only the property theorems and non-vacuity examples live here; helper lemmas are in
Proofs/Total*.  Checked-index models (every Go index / slice / make / parser read is a checked
operation yielding `panic site`; results carry a step and an allocation counter):
`kern.Read` (as repaired), `maxp.Read`, `header.Read`, `gdef.Read` (classdef / coverage
sub-readers abstract).  All other decoders named by the property are tied by the fuzz stream
only (cfg `partial`).
-/
import SfntV.Proofs.TotalKern
import SfntV.Proofs.TotalMaxp
import SfntV.Proofs.TotalGdef
import SfntV.Proofs.TotalHeader
import SfntV.Generated.Total

namespace SfntV.Props.C02
open SfntV SfntV.Total

/-- What C02 asks of one decoder model `D`: it never panics, and a successful decode took at
most `a·|b| + k` steps and allocated at most `a'·|b| + k'` elements. -/
structure TotalLinear {α : Type} (D : Bytes → Outcome (α × Cost)) (a k a' k' : Nat) : Prop where
  no_panic : ∀ b, (D b).noPanic
  cost : ∀ b r c, D b = .ok (r, c) → c.steps ≤ a * b.length + k ∧ c.alloc ≤ a' * b.length + k'

/-! ## kern.Read -/

/-- `kern.Read` (as repaired: the total number of pairs is bounded by the file size) returns a
value or an error for every byte string. -/
theorem C02_kern_no_panic (b : Bytes) : (Kern.read b).noPanic := Kern.read_noPanic b

/-- A successful `kern.Read` executed at most `|b| + 3` loop iterations/reads and created at most
`|b| + 1` map entries. -/
theorem C02_kern_cost (b : Bytes) (m : Kern.KMap) (c : Cost) (h : Kern.read b = .ok (m, c)) :
    c.steps ≤ b.length + 3 ∧ c.alloc ≤ b.length + 1 := Kern.read_cost b m c h

/-- Both clauses together, in the shape of the property. -/
theorem C02_kern : TotalLinear Kern.read 1 3 1 1 :=
  ⟨Kern.read_noPanic, fun b r c h => by have := Kern.read_cost b r c h; omega⟩

/-- The finding (§9 #35) about the code BEFORE the repair: `nPairs` was not bounded, so subtable
headers 14 bytes apart could each re-read the same bytes.  On the witness `Kern.adv n`
(`4 + 28·n` bytes) the old reader takes `2 + n + n²` steps. -/
theorem C02_kern_unrepaired_quadratic (n : Nat) (hn : n < 65536) :
    ∃ m c, Kern.readOld (Kern.adv n) = .ok (m, c) ∧ c.steps = 2 + n + n * n ∧
      (Kern.adv n).length = 4 + 28 * n := by
  obtain ⟨m, c, h, hs⟩ := Kern.readOld_adv n hn
  exact ⟨m, c, h, hs, Kern.adv_length n⟩

/-- … hence no bound `2000·|b| + 2000` held for the unrepaired reader. -/
theorem C02_kern_unrepaired_cost_fails :
    ¬ ∀ b m c, Kern.readOld b = .ok (m, c) → c.steps ≤ 2000 * b.length + 2000 :=
  Kern.readOld_cost_fails

/-- non-vacuity: a well-formed table with two pairs decodes (value −10 kept as 65526) -/
example : ∃ c, Kern.read [0,0, 0,1, 0,0, 0,26, 0,1, 0,2, 0,0,0,0,0,0, 0,1,0,2,0xFF,0xF6, 0,3,0,4,0,10]
    = .ok ([((1,2),65526), ((3,4),10)], c) := ⟨⟨5, 3⟩, by decide +kernel⟩

/-! ## maxp.Read -/

/-- `maxp.Read` returns a value or an error for every byte string. -/
theorem C02_maxp_no_panic (b : Bytes) : (Maxp.read b).noPanic := Maxp.read_noPanic b

/-- A successful `maxp.Read` made at most two reads and allocated at most two objects. -/
theorem C02_maxp_cost (b : Bytes) (r : Maxp.Info) (c : Cost) (h : Maxp.read b = .ok (r, c)) :
    c.steps ≤ 2 ∧ c.alloc ≤ 2 := Maxp.read_cost b r c h

theorem C02_maxp : TotalLinear Maxp.read 0 2 0 2 :=
  ⟨Maxp.read_noPanic, fun b r c h => by have := Maxp.read_cost b r c h; omega⟩

example : Maxp.read [0, 0, 0x50, 0, 0, 3] = .ok (⟨3, none⟩, ⟨1, 1⟩) := by decide

/-! ## header.Read -/

/-- `header.Read` returns a value or an error for every byte string (whatever the table limit). -/
theorem C02_header_no_panic (mt : Nat) (f : Bytes) : (Total.Header.read mt f).noPanic :=
  Total.Header.read_noPanic mt f

/-- With the code's limit of 280 tables a successful `header.Read` costs at most a constant. -/
theorem C02_header_cost (f : Bytes) (r : Nat × List Total.Header.Rec) (c : Cost)
    (h : Total.Header.read 280 f = .ok (r, c)) : c.steps ≤ 3100 ∧ c.alloc ≤ 840 :=
  Total.Header.read_cost f r c h

/-- The checked-index model and the value-level model of `header.Read` used by C03
(`SfntV.Header.read`) compute the same outcome once the cost counters are erased. -/
theorem C02_header_agrees (mt : Nat) (f : Bytes) :
    Total.Header.erase (Total.Header.read mt f) = SfntV.Header.read mt f := Total.Header.read_erase mt f

theorem C02_header : TotalLinear (Total.Header.read 280) 0 3100 0 840 :=
  ⟨Total.Header.read_noPanic 280, fun b r c h => by have := Total.Header.read_cost b r c h; omega⟩

/-! ## gdef.Read -/

/-- `gdef.Read` never panics provided its two sub-readers (classdef.Read, coverage.ReadSet) do
not. -/
theorem C02_gdef_no_panic (cls cov : Gdef.Sub) (b : Bytes)
    (hcls : ∀ p, (cls p).noPanic) (hcov : ∀ p, (cov p).noPanic) :
    (Gdef.read cls cov b).noPanic := Gdef.read_noPanic cls cov b hcls hcov

/-- The true cost of `gdef.Read`: if one sub-read costs at most `C`, the whole read costs at most
about `(|b|/4)·C` — every mark-glyph-set offset (4 bytes) may trigger a full sub-read, aliased or
not.  Linear in `|b|`, but with the constant `C/4` per input byte, where `C` is the cost of the
most expensive 10-byte coverage table (65 536 set entries). -/
theorem C02_gdef_cost_partial (cls cov : Gdef.Sub) (b : Bytes) (C : Nat)
    (hcls : ∀ p sz d, cls p = .ok (sz, d) → d.steps ≤ C ∧ d.alloc ≤ C)
    (hcov : ∀ p sz d, cov p = .ok (sz, d) → d.steps ≤ C ∧ d.alloc ≤ C)
    (t : Gdef.Table) (c : Cost) (h : Gdef.read cls cov b = .ok (t, c)) :
    c.steps ≤ (b.length / 4 + 3) * (C + 2) + 4 ∧ c.alloc ≤ (b.length / 4 + 3) * (C + 2) + 1 :=
  Gdef.read_cost cls cov b C hcls hcov t c h

/-- The allocation clause of C02 for `gdef.Read`, with the constants the harness checks
(4096 elements per input byte + 16 Mi), against a coverage sub-reader that returns a
65 536-glyph set (what a 10-byte format-2 coverage table `0..65535` decodes to). -/
def C02_gdef_alloc_proportional : Prop :=
  ∀ (cls : Gdef.Sub) (b : Bytes) (t : Gdef.Table) (c : Cost),
    Gdef.read cls (Gdef.covK 65536) b = .ok (t, c) → c.alloc ≤ 4096 * b.length + 16777216

/-- It fails (§9 #37): all mark-glyph-set offsets may point at one coverage table, and every
visit is charged. -/
theorem C02_gdef_alloc_fails : ¬ C02_gdef_alloc_proportional := fun h =>
  Gdef.read_alloc_not_proportional (fun _ => .err "none") (fun b t c => h _ b t c)

/-! ## regenerated limits the models use as literals -/

/-- The literals in the models are the constants found in the Go source on this run. -/
theorem C02_facts : Gen.kernMinSubtableLen = 14 ∧ Gen.kernFlagMask = 0xF5 ∧ Gen.kernFlagValue = 1 ∧
    Gen.headerMaxTables = 280 := by decide

end SfntV.Props.C02
