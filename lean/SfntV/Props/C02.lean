/-
C02 — decoders are total on untrusted bytes: value or error, never a panic, cost linear in the
input.  Only the property theorems and non-vacuity examples live here; helper lemmas are in
Proofs/Total*.  Checked-index models (every Go index / slice / make / parser read is a checked
operation yielding `panic site`; results carry a step and an allocation counter):
`kern.Read` (as repaired), `maxp.Read`, `header.Read`, `gdef.Read` (classdef / coverage
sub-readers abstract).  All other decoders named by the property are tied by the fuzz stream
only (cfg `partial`).
-/
import SfntV.Proofs.TotalKern
import SfntV.Proofs.TotalMaxp
import SfntV.Proofs.TotalGdef
import SfntV.Proofs.TotalHeader
import SfntV.Generated.Total
import SfntV.Proofs.TotalGlyfDec
import SfntV.Proofs.TotalGlyfLazy

namespace SfntV.Props.C02
open SfntV SfntV.Total

/-- What C02 asks of one decoder model `D`: it never panics, and a successful decode took at
most `a·|b| + k` steps and allocated at most `a'·|b| + k'` elements. -/
structure TotalLinear {α : Type} (D : Bytes → Outcome (α × Cost)) (a k a' k' : Nat) : Prop where
  no_panic : ∀ b, (D b).noPanic
  cost : ∀ b r c, D b = .ok (r, c) → c.steps ≤ a * b.length + k ∧ c.alloc ≤ a' * b.length + k'

/-! ## kern.Read -/

/-- `kern.Read` (as repaired: the total number of pairs is bounded by the file size) returns a
value or an error for every byte string. -/
theorem C02_kern_no_panic (b : Bytes) : (Kern.read b).noPanic := Kern.read_noPanic b

/-- A successful `kern.Read` executed at most `|b| + 3` loop iterations/reads and created at most
`|b| + 1` map entries. -/
theorem C02_kern_cost (b : Bytes) (m : Kern.KMap) (c : Cost) (h : Kern.read b = .ok (m, c)) :
    c.steps ≤ b.length + 3 ∧ c.alloc ≤ b.length + 1 := Kern.read_cost b m c h

/-- Both clauses together, in the shape of the property. -/
theorem C02_kern : TotalLinear Kern.read 1 3 1 1 :=
  ⟨Kern.read_noPanic, fun b r c h => by have := Kern.read_cost b r c h; omega⟩

/-- The finding (§9 #35) about the code BEFORE the repair: `nPairs` was not bounded, so subtable
headers 14 bytes apart could each re-read the same bytes.  On the witness `Kern.adv n`
(`4 + 28·n` bytes) the old reader takes `2 + n + n²` steps. -/
theorem C02_kern_unrepaired_quadratic (n : Nat) (hn : n < 65536) :
    ∃ m c, Kern.readOld (Kern.adv n) = .ok (m, c) ∧ c.steps = 2 + n + n * n ∧
      (Kern.adv n).length = 4 + 28 * n := by
  obtain ⟨m, c, h, hs⟩ := Kern.readOld_adv n hn
  exact ⟨m, c, h, hs, Kern.adv_length n⟩

/-- … hence no bound `2000·|b| + 2000` held for the unrepaired reader. -/
theorem C02_kern_unrepaired_cost_fails :
    ¬ ∀ b m c, Kern.readOld b = .ok (m, c) → c.steps ≤ 2000 * b.length + 2000 :=
  Kern.readOld_cost_fails

/-- non-vacuity: a well-formed table with two pairs decodes (value −10 kept as 65526) -/
example : ∃ c, Kern.read [0,0, 0,1, 0,0, 0,26, 0,1, 0,2, 0,0,0,0,0,0, 0,1,0,2,0xFF,0xF6, 0,3,0,4,0,10]
    = .ok ([((1,2),65526), ((3,4),10)], c) := ⟨⟨5, 3⟩, by decide +kernel⟩

/-! ## maxp.Read -/

/-- `maxp.Read` returns a value or an error for every byte string. -/
theorem C02_maxp_no_panic (b : Bytes) : (Maxp.read b).noPanic := Maxp.read_noPanic b

/-- A successful `maxp.Read` made at most two reads and allocated at most two objects. -/
theorem C02_maxp_cost (b : Bytes) (r : Maxp.Info) (c : Cost) (h : Maxp.read b = .ok (r, c)) :
    c.steps ≤ 2 ∧ c.alloc ≤ 2 := Maxp.read_cost b r c h

theorem C02_maxp : TotalLinear Maxp.read 0 2 0 2 :=
  ⟨Maxp.read_noPanic, fun b r c h => by have := Maxp.read_cost b r c h; omega⟩

example : Maxp.read [0, 0, 0x50, 0, 0, 3] = .ok (⟨3, none⟩, ⟨1, 1⟩) := by decide

/-! ## header.Read -/

/-- `header.Read` returns a value or an error for every byte string (whatever the table limit). -/
theorem C02_header_no_panic (mt : Nat) (f : Bytes) : (Total.Header.read mt f).noPanic :=
  Total.Header.read_noPanic mt f

/-- With the code's limit of 280 tables a successful `header.Read` costs at most a constant. -/
theorem C02_header_cost (f : Bytes) (r : Nat × List Total.Header.Rec) (c : Cost)
    (h : Total.Header.read 280 f = .ok (r, c)) : c.steps ≤ 3100 ∧ c.alloc ≤ 840 :=
  Total.Header.read_cost f r c h

/-- The checked-index model and the value-level model of `header.Read` used by C03
(`SfntV.Header.read`) compute the same outcome once the cost counters are erased. -/
theorem C02_header_agrees (mt : Nat) (f : Bytes) :
    Total.Header.erase (Total.Header.read mt f) = SfntV.Header.read mt f := Total.Header.read_erase mt f

theorem C02_header : TotalLinear (Total.Header.read 280) 0 3100 0 840 :=
  ⟨Total.Header.read_noPanic 280, fun b r c h => by have := Total.Header.read_cost b r c h; omega⟩

/-! ## gdef.Read -/

/-- `gdef.Read` never panics provided its two sub-readers (classdef.Read, coverage.ReadSet) do
not. -/
theorem C02_gdef_no_panic (cls cov : Gdef.Sub) (b : Bytes)
    (hcls : ∀ p, (cls p).noPanic) (hcov : ∀ p, (cov p).noPanic) :
    (Gdef.read cls cov b).noPanic := Gdef.read_noPanic cls cov b hcls hcov

/-- The true cost of `gdef.Read`: if one sub-read costs at most `C`, the whole read costs at most
about `(|b|/4)·C` — every mark-glyph-set offset (4 bytes) may trigger a full sub-read, aliased or
not.  Linear in `|b|`, but with the constant `C/4` per input byte, where `C` is the cost of the
most expensive 10-byte coverage table (65 536 set entries). -/
theorem C02_gdef_cost_partial (cls cov : Gdef.Sub) (b : Bytes) (C : Nat)
    (hcls : ∀ p sz d, cls p = .ok (sz, d) → d.steps ≤ C ∧ d.alloc ≤ C)
    (hcov : ∀ p sz d, cov p = .ok (sz, d) → d.steps ≤ C ∧ d.alloc ≤ C)
    (t : Gdef.Table) (c : Cost) (h : Gdef.read cls cov b = .ok (t, c)) :
    c.steps ≤ (b.length / 4 + 3) * (C + 2) + 4 ∧ c.alloc ≤ (b.length / 4 + 3) * (C + 2) + 1 :=
  Gdef.read_cost cls cov b C hcls hcov t c h

/-- The allocation clause of C02 for `gdef.Read`, with the constants the harness checks
(4096 elements per input byte + 16 Mi), against a coverage sub-reader that returns a
65 536-glyph set (what a 10-byte format-2 coverage table `0..65535` decodes to). -/
def C02_gdef_alloc_proportional : Prop :=
  ∀ (cls : Gdef.Sub) (b : Bytes) (t : Gdef.Table) (c : Cost),
    Gdef.read cls (Gdef.covK 65536) b = .ok (t, c) → c.alloc ≤ 4096 * b.length + 16777216

/-- It fails (§9 #37): all mark-glyph-set offsets may point at one coverage table, and every
visit is charged. -/
theorem C02_gdef_alloc_fails : ¬ C02_gdef_alloc_proportional := fun h =>
  Gdef.read_alloc_not_proportional (fun _ => .err "none") (fun b t c => h _ b t c)

/-! ## regenerated limits the models use as literals -/

/-- The literals in the models are the constants found in the Go source on this run. -/
theorem C02_facts : Gen.kernMinSubtableLen = 14 ∧ Gen.kernFlagMask = 0xF5 ∧ Gen.kernFlagValue = 1 ∧
    Gen.headerMaxTables = 280 := by decide

/-! # Round 2: further tier-A decoders in checked-index style

## glyf: decodeLoca, glyf.Decode (per-glyph slicing), decodeGlyph, removePadding -/

/-- `decodeLoca` (both formats, any format number) returns a value or an error. -/
theorem C02_loca_no_panic (fmt : Int) (loca : Bytes) (glyfLen : Nat) :
    (GlyfDec.decodeLoca fmt loca glyfLen).noPanic := GlyfDec.decodeLoca_noPanic fmt loca glyfLen

/-- … in at most |loca|/2 steps and slice elements; the offsets it returns are non-empty, monotone
and inside the glyf table (this is what makes `GlyfData[offs[i]:offs[i+1]]` safe). -/
theorem C02_loca_cost {fmt : Int} {loca : Bytes} {gl : Nat} {offs : List Nat} {c : Cost}
    (h : GlyfDec.decodeLoca fmt loca gl = .ok (offs, c)) :
    (c.steps ≤ loca.length / 2 ∧ c.alloc ≤ loca.length / 2) ∧
      (offs ≠ [] ∧ offs.Pairwise (· ≤ ·) ∧ ∀ x ∈ offs, x ≤ gl) :=
  ⟨GlyfDec.decodeLoca_cost h, GlyfDec.decodeLoca_ok_spec h⟩

/-- `SimpleGlyph.removePadding` never panics, for every contour count and every byte string. -/
theorem C02_removePadding_no_panic (nc : Nat) (buf : Bytes) : (GlyfDec.removePadding nc buf).noPanic :=
  GlyfDec.removePadding_noPanic nc buf

theorem C02_removePadding_cost {nc : Nat} {buf enc : Bytes} {c : Cost}
    (h : GlyfDec.removePadding nc buf = .ok (enc, c)) : c.steps ≤ buf.length ∧ c.alloc = 0 :=
  GlyfDec.removePadding_cost h

/-- `decodeGlyphComposite` never panics and is linear. -/
theorem C02_composite_no_panic (data : Bytes) : (GlyfLazy.decodeGlyphComposite data).noPanic :=
  GlyfLazy.decodeGlyphComposite_noPanic data

theorem C02_composite_cost (data : Bytes) (r : List Glyf.Component × Option Bytes) (c : Cost)
    (h : GlyfLazy.decodeGlyphComposite data = .ok (r, c)) :
    c.steps ≤ data.length + 1 ∧ c.alloc ≤ data.length + 1 := by
  have := GlyfLazy.decodeGlyphComposite_cost data r c h; omega

/-- `glyf.Decode` — loca decoding, per-glyph slicing, glyph headers, padding removal and composite
decoding together — returns a value or an error for every (glyf, loca, format). -/
theorem C02_glyf_no_panic (fmt : Int) (loca glyf : Bytes) :
    (GlyfDec.decode GlyfLazy.decodeGlyphComposite fmt loca glyf).noPanic :=
  GlyfDec.Decode_noPanic _ GlyfLazy.decodeGlyphComposite_noPanic fmt loca glyf

/-- … with cost linear in |glyf| + |loca|. -/
theorem C02_glyf_cost {fmt : Int} {loca glyf : Bytes}
    {gg : List (Option (GlyfDec.Glyph (List Glyf.Component × Option Bytes)))} {c : Cost}
    (h : GlyfDec.decode GlyfLazy.decodeGlyphComposite fmt loca glyf = .ok (gg, c)) :
    c.steps ≤ 2 * glyf.length + 4 * (loca.length / 2) ∧ c.alloc ≤ glyf.length + 5 * (loca.length / 2) := by
  have := GlyfDec.Decode_cost GlyfLazy.decodeGlyphComposite 1 1 1 1
    (fun d r c hc => by have := GlyfLazy.decodeGlyphComposite_cost d r c hc; omega) h
  omega

/-- Bridges to C11's value-level models (Model/Glyf.lean): erasing sites and costs gives their
`decodeLoca`, `removePadding`, `decodeComposite` and `decode` on every input. -/
theorem C02_glyf_agrees (k : Bytes → Cost) (fmt : Int) (loca glyf : Bytes) :
    GlyfDec.erase (GlyfDec.decodeLoca fmt loca glyf.length) = Glyf.decodeLoca fmt loca glyf.length ∧
    GlyfLazy.toOpt (GlyfLazy.decodeGlyphComposite glyf) = Glyf.decodeComposite glyf ∧
    GlyfDec.omap (List.map (Option.map GlyfDec.toC11))
      (GlyfDec.erase (GlyfDec.decode (GlyfDec.compC11 k) fmt loca glyf)) = Glyf.decode fmt loca glyf :=
  ⟨GlyfDec.decodeLoca_erase fmt loca glyf.length, GlyfLazy.decodeGlyphComposite_erase glyf,
   GlyfDec.Decode_erase k fmt loca glyf⟩

/-! ## C02_lazy_safe, TrueType part: SimpleGlyph.Decode and Components on ANY value -/

/-- `SimpleGlyph.Decode` (as repaired by d60b209) returns a value or an error for EVERY
`SimpleGlyph` value — any contour count, any bytes — not only those `glyf.Decode` hands out. -/
theorem C02_lazy_safe_simple (nc : Int16) (buf : Bytes) : (GlyfLazy.decode nc buf).noPanic :=
  GlyfLazy.decode_noPanic nc buf

/-- Its cost is capped by the 65536-point limit and also linear in the input (at most 128 points
per flag byte pair): both bounds. -/
theorem C02_lazy_simple_cost (nc : Int16) (buf : Bytes) (g : Glyf.GlyphInfo) (c : Cost)
    (h : GlyfLazy.decode nc buf = .ok (g, c)) :
    (c.steps ≤ 2 * buf.length + 8 * 65536 + 1 ∧ c.alloc ≤ buf.length + 4 * 65536 + 1) ∧
      c.steps ≤ 1026 * buf.length + 1 ∧ c.alloc ≤ 513 * buf.length + 1 :=
  GlyfLazy.decode_cost nc buf g c h

/-- `Glyph.Components` does not panic on anything `decodeGlyphComposite` returned (its only panic
is the explicit one for a foreign `Data` type, which the decoder never stores). -/
theorem C02_lazy_safe_components (data : Bytes) (cs : List Glyf.Component) (ins : Option Bytes) (c : Cost)
    (h : GlyfLazy.decodeGlyphComposite data = .ok ((cs, ins), c)) (hlen : data.length < 2 ^ 47) :
    (GlyfLazy.components (some (GlyfLazy.GData.composite cs ins))).noPanic :=
  GlyfLazy.components_decoded_noPanic data cs ins c h hlen

end SfntV.Props.C02
