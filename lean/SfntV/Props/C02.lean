/-
C02 — decoders are total on untrusted bytes: value or error, never a panic, cost linear in the
input.  Only the property theorems and non-vacuity examples live here; helper lemmas are in
Proofs/Total*.  Checked-index models (every Go index / slice / make / parser read is a checked
operation yielding `panic site`; results carry a step and an allocation counter):
`kern.Read` (as repaired), `maxp.Read`, `header.Read`, `gdef.Read` (classdef / coverage
sub-readers abstract).  All other decoders named by the property are tied by the fuzz stream
only (cfg `partial`).
-/
import SfntV.Proofs.TotalKern
import SfntV.Proofs.TotalMaxp
import SfntV.Proofs.TotalGdef
import SfntV.Proofs.TotalHeader
import SfntV.Generated.Total
import SfntV.Proofs.TotalGlyfDec
import SfntV.Proofs.TotalGlyfLazy
import SfntV.Proofs.TotalCmap4
import SfntV.Proofs.TotalCmap12
import SfntV.Proofs.TotalMetrics
import SfntV.Proofs.TotalMetricsPost
import SfntV.Proofs.TotalMetricsErase
import SfntV.Proofs.TotalMetricsExamples
import SfntV.Proofs.TotalName
import SfntV.Proofs.TotalCffIndex
import SfntV.Proofs.TotalCmapDir
import SfntV.Proofs.TotalOtl
import SfntV.Proofs.TotalOtlBridge
import SfntV.Proofs.TotalCffDict
import SfntV.Proofs.TotalGlyfLazyBridge
import SfntV.Proofs.TotalMetricsPostBridge

namespace SfntV.Props.C02
open SfntV SfntV.Total

/-- What C02 asks of one decoder model `D`: it never panics, and a successful decode took at
most `a·|b| + k` steps and allocated at most `a'·|b| + k'` elements. -/
structure TotalLinear {α : Type} (D : Bytes → Outcome (α × Cost)) (a k a' k' : Nat) : Prop where
  no_panic : ∀ b, (D b).noPanic
  cost : ∀ b r c, D b = .ok (r, c) → c.steps ≤ a * b.length + k ∧ c.alloc ≤ a' * b.length + k'

/-! ## kern.Read -/

/-- `kern.Read` (as repaired: the total number of pairs is bounded by the file size) returns a
value or an error for every byte string. -/
theorem C02_kern_no_panic (b : Bytes) : (Kern.read b).noPanic := Kern.read_noPanic b

/-- A successful `kern.Read` executed at most `|b| + 3` loop iterations/reads and created at most
`|b| + 1` map entries. -/
theorem C02_kern_cost (b : Bytes) (m : Kern.KMap) (c : Cost) (h : Kern.read b = .ok (m, c)) :
    c.steps ≤ b.length + 3 ∧ c.alloc ≤ b.length + 1 := Kern.read_cost b m c h

/-- Both clauses together, in the shape of the property. -/
theorem C02_kern : TotalLinear Kern.read 1 3 1 1 :=
  ⟨Kern.read_noPanic, fun b r c h => by have := Kern.read_cost b r c h; omega⟩

/-- The finding (§9 #35) about the code BEFORE the repair: `nPairs` was not bounded, so subtable
headers 14 bytes apart could each re-read the same bytes.  On the witness `Kern.adv n`
(`4 + 28·n` bytes) the old reader takes `2 + n + n²` steps. -/
theorem C02_kern_unrepaired_quadratic (n : Nat) (hn : n < 65536) :
    ∃ m c, Kern.readOld (Kern.adv n) = .ok (m, c) ∧ c.steps = 2 + n + n * n ∧
      (Kern.adv n).length = 4 + 28 * n := by
  obtain ⟨m, c, h, hs⟩ := Kern.readOld_adv n hn
  exact ⟨m, c, h, hs, Kern.adv_length n⟩

/-- … hence no bound `2000·|b| + 2000` held for the unrepaired reader. -/
theorem C02_kern_unrepaired_cost_fails :
    ¬ ∀ b m c, Kern.readOld b = .ok (m, c) → c.steps ≤ 2000 * b.length + 2000 :=
  Kern.readOld_cost_fails

/-- non-vacuity: a well-formed table with two pairs decodes (value −10 kept as 65526) -/
example : ∃ c, Kern.read [0,0, 0,1, 0,0, 0,26, 0,1, 0,2, 0,0,0,0,0,0, 0,1,0,2,0xFF,0xF6, 0,3,0,4,0,10]
    = .ok ([((1,2),65526), ((3,4),10)], c) := ⟨⟨5, 3⟩, by decide +kernel⟩

/-! ## maxp.Read -/

/-- `maxp.Read` returns a value or an error for every byte string. -/
theorem C02_maxp_no_panic (b : Bytes) : (Maxp.read b).noPanic := Maxp.read_noPanic b

/-- A successful `maxp.Read` made at most two reads and allocated at most two objects. -/
theorem C02_maxp_cost (b : Bytes) (r : Maxp.Info) (c : Cost) (h : Maxp.read b = .ok (r, c)) :
    c.steps ≤ 2 ∧ c.alloc ≤ 2 := Maxp.read_cost b r c h

theorem C02_maxp : TotalLinear Maxp.read 0 2 0 2 :=
  ⟨Maxp.read_noPanic, fun b r c h => by have := Maxp.read_cost b r c h; omega⟩

example : Maxp.read [0, 0, 0x50, 0, 0, 3] = .ok (⟨3, none⟩, ⟨1, 1⟩) := by decide

/-! ## header.Read -/

/-- `header.Read` returns a value or an error for every byte string (whatever the table limit). -/
theorem C02_header_no_panic (mt : Nat) (f : Bytes) : (Total.Header.read mt f).noPanic :=
  Total.Header.read_noPanic mt f

/-- With the code's limit of 280 tables a successful `header.Read` costs at most a constant. -/
theorem C02_header_cost (f : Bytes) (r : Nat × List Total.Header.Rec) (c : Cost)
    (h : Total.Header.read 280 f = .ok (r, c)) : c.steps ≤ 3100 ∧ c.alloc ≤ 840 :=
  Total.Header.read_cost f r c h

/-- The checked-index model and the value-level model of `header.Read` used by C03
(`SfntV.Header.read`) compute the same outcome once the cost counters are erased. -/
theorem C02_header_agrees (mt : Nat) (f : Bytes) :
    Total.Header.erase (Total.Header.read mt f) = SfntV.Header.read mt f := Total.Header.read_erase mt f

theorem C02_header : TotalLinear (Total.Header.read 280) 0 3100 0 840 :=
  ⟨Total.Header.read_noPanic 280, fun b r c h => by have := Total.Header.read_cost b r c h; omega⟩

/-! ## gdef.Read -/

/-- `gdef.Read` never panics provided its two sub-readers (classdef.Read, coverage.ReadSet) do
not. -/
theorem C02_gdef_no_panic (cls cov : Gdef.Sub) (b : Bytes)
    (hcls : ∀ p, (cls p).noPanic) (hcov : ∀ p, (cov p).noPanic) :
    (Gdef.read cls cov b).noPanic := Gdef.read_noPanic cls cov b hcls hcov

/-- The true cost of `gdef.Read`: if one sub-read costs at most `C`, the whole read costs at most
about `(|b|/4)·C` — every mark-glyph-set offset (4 bytes) may trigger a full sub-read, aliased or
not.  Linear in `|b|`, but with the constant `C/4` per input byte, where `C` is the cost of the
most expensive 10-byte coverage table (65 536 set entries). -/
theorem C02_gdef_cost_partial (cls cov : Gdef.Sub) (b : Bytes) (C : Nat)
    (hcls : ∀ p sz d, cls p = .ok (sz, d) → d.steps ≤ C ∧ d.alloc ≤ C)
    (hcov : ∀ p sz d, cov p = .ok (sz, d) → d.steps ≤ C ∧ d.alloc ≤ C)
    (t : Gdef.Table) (c : Cost) (h : Gdef.read cls cov b = .ok (t, c)) :
    c.steps ≤ (b.length / 4 + 3) * (C + 2) + 4 ∧ c.alloc ≤ (b.length / 4 + 3) * (C + 3) + 1 :=
  Gdef.read_cost cls cov b C hcls hcov t c h

/-- The allocation clause of C02 for `gdef.Read`, with the constants the harness checks
(4096 elements per input byte + 16 Mi), against a coverage sub-reader that returns a
65 536-glyph set (what a 10-byte format-2 coverage table `0..65535` decodes to). -/
def C02_gdef_alloc_proportional : Prop :=
  ∀ (cls : Gdef.Sub) (b : Bytes) (t : Gdef.Table) (c : Cost),
    Gdef.read cls (Gdef.covK 65536) b = .ok (t, c) → c.alloc ≤ 4096 * b.length + 16777216

/-- It fails (§9 #37).  Before the repair (patches/C02/04) all offsets could alias ONE table and every
visit was charged (`C02_gdef_unrepaired_alias`); since the repair each distinct offset is decoded
once, but distinct offsets still cost a full sub-read each (witness `Gdef.advDistinct 1000`). -/
theorem C02_gdef_alloc_fails : ¬ C02_gdef_alloc_proportional := fun h =>
  Gdef.read_alloc_not_proportional (fun _ => .err "none") (fun b t c => h _ b t c)

/-- The code before patches/C02/04: `n` aliased offsets cost `n·K`. -/
theorem C02_gdef_unrepaired_alias (n K : Nat) (hn : n < 65536) (cls : Gdef.Sub) :
    ∃ t c, Gdef.readOld cls (Gdef.covK K) (Gdef.adv n) = .ok (t, c) ∧ c.alloc = 1 + 2 * n + n * K ∧
      (Gdef.adv n).length = 18 + 4 * n := Gdef.readOld_adv_alloc n K hn cls

/-- The repaired code on the same aliasing input: ONE sub-read. -/
theorem C02_gdef_alias_cached (n K : Nat) (hn : n < 65536) (cls : Gdef.Sub) :
    ∃ t c, Gdef.read cls (Gdef.covK K) (Gdef.adv n) = .ok (t, c) ∧ c.alloc ≤ 3 + 2 * n + K ∧
      (Gdef.adv n).length = 18 + 4 * n := Gdef.adv_alloc_cached n K hn cls

/-! ## regenerated limits the models use as literals -/

/-- The literals in the models are the constants found in the Go source on this run. -/
theorem C02_facts : Gen.kernMinSubtableLen = 14 ∧ Gen.kernFlagMask = 0xF5 ∧ Gen.kernFlagValue = 1 ∧
    Gen.headerMaxTables = 280 := by decide

/-! # Round 2: further tier-A decoders in checked-index style

## glyf: decodeLoca, glyf.Decode (per-glyph slicing), decodeGlyph, removePadding -/

/-- `decodeLoca` (both formats, any format number) returns a value or an error. -/
theorem C02_loca_no_panic (fmt : Int) (loca : Bytes) (glyfLen : Nat) :
    (GlyfDec.decodeLoca fmt loca glyfLen).noPanic := GlyfDec.decodeLoca_noPanic fmt loca glyfLen

/-- … in at most |loca|/2 steps and slice elements; the offsets it returns are non-empty, monotone
and inside the glyf table (this is what makes `GlyfData[offs[i]:offs[i+1]]` safe). -/
theorem C02_loca_cost {fmt : Int} {loca : Bytes} {gl : Nat} {offs : List Nat} {c : Cost}
    (h : GlyfDec.decodeLoca fmt loca gl = .ok (offs, c)) :
    (c.steps ≤ loca.length / 2 ∧ c.alloc ≤ loca.length / 2) ∧
      (offs ≠ [] ∧ offs.Pairwise (· ≤ ·) ∧ ∀ x ∈ offs, x ≤ gl) :=
  ⟨GlyfDec.decodeLoca_cost h, GlyfDec.decodeLoca_ok_spec h⟩

/-- `SimpleGlyph.removePadding` never panics, for every contour count and every byte string. -/
theorem C02_removePadding_no_panic (nc : Nat) (buf : Bytes) : (GlyfDec.removePadding nc buf).noPanic :=
  GlyfDec.removePadding_noPanic nc buf

theorem C02_removePadding_cost {nc : Nat} {buf enc : Bytes} {c : Cost}
    (h : GlyfDec.removePadding nc buf = .ok (enc, c)) : c.steps ≤ buf.length ∧ c.alloc = 0 :=
  GlyfDec.removePadding_cost h

/-- `decodeGlyphComposite` never panics and is linear. -/
theorem C02_composite_no_panic (data : Bytes) : (GlyfLazy.decodeGlyphComposite data).noPanic :=
  GlyfLazy.decodeGlyphComposite_noPanic data

theorem C02_composite_cost (data : Bytes) (r : List Glyf.Component × Option Bytes) (c : Cost)
    (h : GlyfLazy.decodeGlyphComposite data = .ok (r, c)) :
    c.steps ≤ data.length + 1 ∧ c.alloc ≤ data.length + 1 := by
  have := GlyfLazy.decodeGlyphComposite_cost data r c h; omega

/-- `glyf.Decode` — loca decoding, per-glyph slicing, glyph headers, padding removal and composite
decoding together — returns a value or an error for every (glyf, loca, format). -/
theorem C02_glyf_no_panic (fmt : Int) (loca glyf : Bytes) :
    (GlyfDec.decode GlyfLazy.decodeGlyphComposite fmt loca glyf).noPanic :=
  GlyfDec.Decode_noPanic _ GlyfLazy.decodeGlyphComposite_noPanic fmt loca glyf

/-- … with cost linear in |glyf| + |loca|. -/
theorem C02_glyf_cost {fmt : Int} {loca glyf : Bytes}
    {gg : List (Option (GlyfDec.Glyph (List Glyf.Component × Option Bytes)))} {c : Cost}
    (h : GlyfDec.decode GlyfLazy.decodeGlyphComposite fmt loca glyf = .ok (gg, c)) :
    c.steps ≤ 2 * glyf.length + 4 * (loca.length / 2) ∧ c.alloc ≤ glyf.length + 5 * (loca.length / 2) := by
  have := GlyfDec.Decode_cost GlyfLazy.decodeGlyphComposite 1 1 1 1
    (fun d r c hc => by have := GlyfLazy.decodeGlyphComposite_cost d r c hc; omega) h
  omega

/-- Bridges to C11's value-level models (Model/Glyf.lean): erasing sites and costs gives their
`decodeLoca`, `removePadding`, `decodeComposite` and `decode` on every input. -/
theorem C02_glyf_agrees (k : Bytes → Cost) (fmt : Int) (loca glyf : Bytes) :
    GlyfDec.erase (GlyfDec.decodeLoca fmt loca glyf.length) = Glyf.decodeLoca fmt loca glyf.length ∧
    GlyfLazy.toOpt (GlyfLazy.decodeGlyphComposite glyf) = Glyf.decodeComposite glyf ∧
    GlyfDec.omap (List.map (Option.map GlyfDec.toC11))
      (GlyfDec.erase (GlyfDec.decode (GlyfDec.compC11 k) fmt loca glyf)) = Glyf.decode fmt loca glyf :=
  ⟨GlyfDec.decodeLoca_erase fmt loca glyf.length, GlyfLazy.decodeGlyphComposite_erase glyf,
   GlyfDec.Decode_erase k fmt loca glyf⟩

/-! ## C02_lazy_safe, TrueType part: SimpleGlyph.Decode and Components on ANY value -/

/-- `SimpleGlyph.Decode` (as repaired by d60b209) returns a value or an error for EVERY
`SimpleGlyph` value — any contour count, any bytes — not only those `glyf.Decode` hands out. -/
theorem C02_lazy_safe_simple (nc : Int16) (buf : Bytes) : (GlyfLazy.decode nc buf).noPanic :=
  GlyfLazy.decode_noPanic nc buf

/-- Its cost is capped by the 65536-point limit and also linear in the input (at most 128 points
per flag byte pair): both bounds. -/
theorem C02_lazy_simple_cost (nc : Int16) (buf : Bytes) (g : Glyf.GlyphInfo) (c : Cost)
    (h : GlyfLazy.decode nc buf = .ok (g, c)) :
    (c.steps ≤ 2 * buf.length + 8 * 65536 + 1 ∧ c.alloc ≤ buf.length + 4 * 65536 + 1) ∧
      c.steps ≤ 1026 * buf.length + 1 ∧ c.alloc ≤ 513 * buf.length + 1 :=
  GlyfLazy.decode_cost nc buf g c h

/-- `Glyph.Components` does not panic on anything `decodeGlyphComposite` returned (its only panic
is the explicit one for a foreign `Data` type, which the decoder never stores). -/
theorem C02_lazy_safe_components (data : Bytes) (cs : List Glyf.Component) (ins : Option Bytes) (c : Cost)
    (h : GlyfLazy.decodeGlyphComposite data = .ok ((cs, ins), c)) (hlen : data.length < 2 ^ 47) :
    (GlyfLazy.components (some (GlyfLazy.GData.composite cs ins))).noPanic :=
  GlyfLazy.components_decoded_noPanic data cs ins c h hlen

/-! ## cmap format 4 -/

/-- `decodeFormat4` returns a value or an error for every byte string. -/
theorem C02_cmap4_no_panic (b : Bytes) : (Total.Cmap4.decodeFormat4 b).noPanic :=
  Total.Cmap4.decodeFormat4_noPanic b

/-- Its cost is linear plus the constant 65536 (segments must be increasing, so the fill loops run
at most once per 16-bit code). -/
theorem C02_cmap4_cost (b : Bytes) (r : List (Nat × Nat)) (c : Cost)
    (h : Total.Cmap4.decodeFormat4 b = .ok (r, c)) :
    c.steps ≤ b.length / 2 + b.length / 8 + 65536 ∧ c.alloc ≤ b.length / 2 + 65536 :=
  Total.Cmap4.decodeFormat4_cost b r c h

/-- Bridge to C09's value-level model. -/
theorem C02_cmap4_agrees (b : Bytes) :
    Total.Cmap4.erase (Total.Cmap4.decodeFormat4 b) = SfntV.Cmap4.decode b :=
  Total.Cmap4.decodeFormat4_erase b

/-- lazy accessors of a format 4/6 map: `Lookup` (any rune, negative ones included) and `CodeRange` -/
theorem C02_lazy_safe_cmap4 (m : List (Nat × Nat)) (r : Int) :
    (Total.Cmap4.lookup m r).noPanic ∧ (Total.Cmap4.codeRange m).noPanic :=
  ⟨Total.Cmap4.lookup_noPanic m r, Total.Cmap4.codeRange_noPanic m⟩

/-! ## cmap format 12 -/

theorem C02_cmap12_no_panic (data : Bytes) (c2r : Bool) : (Total.Cmap12.decodeFormat12 data c2r).noPanic :=
  Total.Cmap12.decodeFormat12_noPanic data c2r

/-- Because the 65536 cap is on the CUMULATIVE number of mappings, a successful decode writes at
most 65536 entries whatever the number of groups. -/
theorem C02_cmap12_cost (data : Bytes) (c2r : Bool) (m : Total.Cmap12.KV) (c : Cost)
    (h : Total.Cmap12.decodeFormat12 data c2r = .ok (m, c)) :
    c.steps ≤ data.length / 12 + 65536 ∧ c.alloc ≤ 65536 + 1 ∧ m.length ≤ 65536 :=
  let t := Total.Cmap12.decodeFormat12_cost data c2r m c h; ⟨t.1, t.2.1, t.2.2.1⟩

/-- Why the cap must be cumulative: the variant whose counter is reset per group allocates
`n·65536` entries from `16 + 12·n` bytes (this is the seeded change the fuzz stream must catch). -/
theorem C02_cmap12_per_group_cap_fails :
    ¬ ∀ b m c, Total.Cmap12.decodeFormat12PerGroup b = .ok (m, c) → c.alloc ≤ 5000 * b.length + 65537 :=
  Total.Cmap12.perGroup_unbounded

theorem C02_cmap12_agrees (data : Bytes) (c2r : Bool) :
    Total.Cmap12.erase (Total.Cmap12.decodeFormat12 data c2r) =
      Total.Cmap12.ofExcept ((SfntV.Cmap12.decode data c2r).map SfntV.Cmap12.expand) :=
  Total.Cmap12.decodeFormat12_erase data c2r

theorem C02_lazy_safe_cmap12 (m : Total.Cmap12.KV) (code : Int) (keys : List Nat) :
    (Total.Cmap12.lookup m code).noPanic ∧ (Total.Cmap12.codeRange keys).noPanic :=
  ⟨Total.Cmap12.lookup_noPanic m code, Total.Cmap12.codeRange_noPanic keys⟩

/-! ## hmtx.Decode, head.Read, os2.Read, post.Read -/

theorem C02_hmtx_no_panic (hhea : Bytes) (hmtx : Option Bytes) : (Metrics.hmtxDecode hhea hmtx).noPanic :=
  Metrics.hmtxDecode_noPanic hhea hmtx

theorem C02_hmtx_cost (hhea : Bytes) (hmtx : Option Bytes) (d : Metrics.Decoded) (c : Cost)
    (h : Metrics.hmtxDecode hhea hmtx = .ok (d, c)) :
    c.steps ≤ (hmtx.getD []).length / 2 + 1 ∧ c.alloc ≤ (hmtx.getD []).length + 1 :=
  let t := Metrics.hmtxDecode_cost hhea hmtx d c h; ⟨t.1, t.2.1⟩

theorem C02_head_no_panic (b : Bytes) : (Metrics.headRead b).noPanic := Metrics.headRead_noPanic b
theorem C02_head_cost (b : Bytes) (r : Metrics.Head) (c : Cost) (h : Metrics.headRead b = .ok (r, c)) :
    c.steps ≤ 1 ∧ c.alloc ≤ 1 := let t := Metrics.headRead_cost b r c h; ⟨t.1, t.2.1⟩

theorem C02_os2_no_panic (b : Bytes) : (Metrics.os2Read b).noPanic := Metrics.os2Read_noPanic b
theorem C02_os2_cost (b : Bytes) (r : Metrics.Os2) (c : Cost) (h : Metrics.os2Read b = .ok (r, c)) :
    c.steps ≤ 4 ∧ c.alloc ≤ 5 := let t := Metrics.os2Read_cost b r c h; ⟨t.1, t.2.1⟩

/-- `post.Read` (header and format 2 names) for any table of standard names. -/
theorem C02_post_no_panic (tbl : List Bytes) (b : Bytes) : (Metrics.postRead tbl b).noPanic :=
  Metrics.postRead_noPanic tbl b
theorem C02_post_cost (tbl : List Bytes) (b : Bytes) (r : Metrics.PostInfo) (c : Cost)
    (h : Metrics.postRead tbl b = .ok (r, c)) : c.steps ≤ 2 * b.length ∧ c.alloc ≤ b.length :=
  Metrics.postRead_cost tbl b r c h

/-- Bridges to C12's value-level models (Model/Metrics.lean); for post only the header part. -/
theorem C02_metrics_agree (hhea b : Bytes) (hmtx : Option Bytes) :
    Metrics.erase (Metrics.hmtxDecode hhea hmtx) = SfntV.Metrics.decode hhea hmtx ∧
    Metrics.erase (Metrics.headRead b) = SfntV.Metrics.decodeHead b ∧
    Metrics.erase (Metrics.os2Read b) = SfntV.Metrics.decodeOs2 b :=
  ⟨Metrics.hmtxDecode_erase hhea hmtx, Metrics.headRead_erase b, Metrics.os2Read_erase b⟩

/-! ## name.Decode and CFF readIndex -/

theorem C02_name_no_panic (apple ms : Nat → String) (mac : UInt8 → Nat) (data : Bytes) :
    (NameCff.decode apple ms mac data).noPanic := NameCff.nameDecode_noPanic apple ms mac data

/-- The TRUE cost of `name.Decode`: (number of records ≤ min(|b|/12, 5460)) × (record length ≤ 65535):
quadratic up to a cap, because records may share storage and each is decoded again. -/
theorem C02_name_cost_partial (apple ms : Nat → String) (mac : UInt8 → Nat) (data : Bytes)
    (r : List Names.Entry) (c : Cost) (h : NameCff.decode apple ms mac data = .ok (r, c)) :
    c.steps ≤ 2 + min (data.length / 12) 5460 * (1 + min 65535 data.length) ∧
      c.alloc ≤ 2 + min (data.length / 12) 5460 * (3 + 2 * min 65535 data.length) :=
  NameCff.nameDecode_cost apple ms mac data r c h

/-- The linear clause fails for `name.Decode` (known finding C02-name-record-alias). -/
theorem C02_name_cost_fails (apple ms : Nat → String) (mac : UInt8 → Nat) (hms : ms 1033 ≠ "") :
    ¬ ∀ b r c, NameCff.decode apple ms mac b = .ok (r, c) → c.steps ≤ 1024 * b.length + 16777216 :=
  NameCff.decode_steps_not_linear apple ms mac hms

theorem C02_name_agrees (data : Bytes) :
    NameCff.toOpt (NameCff.decode (Names.langGet Gen.appleBCP) (Names.langGet Gen.msBCP)
      (fun c => Names.fixRune (Names.macDecodeByte c.toNat)) data) = Names.nameDecode (NameCff.nat data) :=
  NameCff.decode_erase_gen data

theorem C02_cffindex_no_panic (b : Bytes) (pos : Nat) : (NameCff.readIndex b pos).noPanic :=
  NameCff.readIndex_noPanic b pos
theorem C02_cffindex_cost (b : Bytes) (pos : Nat) (r : List Bytes × Nat) (c : Cost)
    (h : NameCff.readIndex b pos = .ok (r, c)) :
    c.steps ≤ 2 * b.length + b.length / 1024 + 3 ∧ c.alloc ≤ 3 * b.length :=
  NameCff.readIndex_cost b pos r c h
theorem C02_cffindex_agrees (b : Bytes) (pos : Nat) :
    NameCff.eraseC (NameCff.readIndex b pos) = Cff.readIndex b pos := NameCff.readIndex_erase b pos

/-! ## cmap.Decode (table directory), Table.Get, formats 0 and 6 -/

theorem C02_cmap_no_panic (b : Bytes) : (CmapDir.decode b).noPanic := CmapDir.Decode_noPanic b

/-- The TRUE cost of `cmap.Decode`: allocation linear, steps QUADRATIC in the number of records
(`sort.Search` + `slices.Insert` per record): 64·steps ≤ 64 + |b|². -/
theorem C02_cmap_cost_partial (b : Bytes) (t : CmapTable.Table) (c : Cost)
    (h : CmapDir.decode b = .ok (t, c)) : 64 * c.steps ≤ 64 + b.length * b.length ∧ c.alloc ≤ b.length :=
  CmapDir.Decode_cost b t c h

theorem C02_cmap_agrees (b : Bytes) : CmapDir.erase (CmapDir.decode b) = CmapTable.decode b :=
  CmapDir.Decode_erase b

/-- the format-4 and format-12 decoders as `Table.Get` dispatches to them -/
def cmapDec4 : CmapDir.Dec CmapDir.Sub := fun d _ =>
  Total.Cmap4.decodeFormat4 d >>= fun r => pure (.m16 r.1)
def cmapDec12 : CmapDir.Dec CmapDir.Sub := fun d mac =>
  Total.Cmap12.decodeFormat12 d mac >>= fun _ => pure (.ext 12)

/-- `C02_lazy_safe`, cmap part: on whatever `cmap.Decode` returned, `Table.Get(key)` — the index
reads `data[0]`, `data[1]`, the `decoders[format]` lookup (a missing entry would be a nil-func call)
and the format 0/4/6/12 decoders it dispatches to — returns a value or an error, for every key. -/
theorem C02_lazy_safe_cmap_get (b : Bytes) (t : CmapTable.Table) (c : Cost)
    (h : CmapDir.decode b = .ok (t, c)) (key : CmapTable.Key) :
    (CmapDir.get (CmapDir.decoders cmapDec4 cmapDec12) t key).noPanic := by
  have h4 : ∀ (d : Bytes) (mac : Bool), 10 ≤ d.length → (cmapDec4 d mac).noPanic := fun d _ _ =>
    Total.Gdef.bind_noPanic (Total.Cmap4.decodeFormat4_noPanic d) (fun _ _ => True.intro)
  have h12 : ∀ (d : Bytes) (mac : Bool), 12 ≤ d.length → (cmapDec12 d mac).noPanic := fun d mac _ =>
    Total.Gdef.bind_noPanic (Total.Cmap12.decodeFormat12_noPanic d mac) (fun _ _ => True.intro)
  obtain ⟨hreg, hdec⟩ := CmapDir.decoders_spec cmapDec4 cmapDec12 h4 h12
  exact CmapDir.Get_noPanic _ hreg hdec b t c h key

/-- `decodeFormat0` slices `data[6:]` unguarded; `cmap.Decode` only stores subtables of ≥ 10 bytes. -/
theorem C02_cmap0_no_panic (data : Bytes) (h : 6 ≤ data.length) : (CmapDir.decodeFormat0 data).noPanic :=
  CmapDir.decodeFormat0_noPanic data h

/-- Since 0c896bc `decodeFormat0` uses its code2rune argument: under a Macintosh key it builds a
unicode-indexed map in a 256-iteration loop.  That branch never panics either (same `data[6:]` guard),
costs exactly 256 steps and at most 257 elements, and equals C09b's `Cmap06.decode0c2r`. -/
theorem C02_cmap0_mac_no_panic (c2r : Nat → Nat) (data : Bytes) (h : 6 ≤ data.length) :
    (CmapDir.decodeFormat0C2r c2r data).noPanic := CmapDir.decodeFormat0C2r_noPanic c2r data h

theorem C02_cmap0_mac_cost (c2r : Nat → Nat) (data : Bytes) (ws : List (Nat × Nat)) (c : Cost)
    (h : CmapDir.decodeFormat0C2r c2r data = .ok (ws, c)) : c.steps = 256 ∧ c.alloc ≤ 257 :=
  let t := CmapDir.decodeFormat0C2r_cost c2r data ws c h; ⟨t.2.1, t.2.2.1⟩

theorem C02_cmap0_mac_agrees (c2r : Nat → Nat) (b : Bytes) :
    CmapDir.erase (CmapDir.decodeFormat0C2r c2r b) = CmapDir.unsite (Cmap06.decode0c2r c2r b) :=
  CmapDir.decodeFormat0C2r_erase c2r b

/-- `Format0.Lookup` (as repaired: negative runes are refused) is safe for every rune. -/
theorem C02_lazy_safe_cmap0 (d : Bytes) (h : d.length = 256) (r : Int) : (CmapDir.lookup0 d r).noPanic :=
  CmapDir.Format0_lookup_safe d h r

/-- Before the repair every negative rune indexed `cmap.Data[r]` out of range. -/
theorem C02_cmap0_lookup_unrepaired_panics (d : Bytes) (r : Int) (h : r < 0) :
    CmapDir.lookup0Old d r = .panic "format0.go:54#cmap.Data[r]" :=
  CmapDir.Format0_lookup_negative_panics d r h

theorem C02_cmap6_no_panic (c2r : Nat → Nat) (data : Bytes) : (CmapDir.decodeFormat6 c2r data).noPanic :=
  CmapDir.decodeFormat6_noPanic c2r data

theorem C02_cmap6_cost (c2r : Nat → Nat) (data : Bytes) (ws : List (Nat × Nat)) (c : Cost)
    (h : CmapDir.decodeFormat6 c2r data = .ok (ws, c)) :
    c.steps ≤ data.length / 2 ∧ c.alloc ≤ data.length / 2 := CmapDir.decodeFormat6_cost c2r data ws c h

theorem C02_cmap06_agree (c2r : Nat → Nat) (b : Bytes) :
    CmapDir.erase (CmapDir.decodeFormat0 b) = CmapDir.unsite (Cmap06.decode0 b) ∧
    CmapDir.erase (CmapDir.decodeFormat6 c2r b) = CmapDir.ofRes6 (Cmap06.decode6 b c2r) :=
  ⟨CmapDir.decodeFormat0_erase b, CmapDir.decodeFormat6_erase c2r b⟩

/-! ## coverage.Read, coverage.ReadSet, classdef.Read -/

theorem C02_coverage_no_panic (b : Bytes) (pos : Nat) :
    (Total.Otl.coverageRead b pos).noPanic ∧ (Total.Otl.readSet b pos).noPanic :=
  ⟨Total.Otl.coverageRead_noPanic b pos, Total.Otl.readSet_noPanic b pos⟩

/-- Coverage tables: linear plus a constant cap (format 2 ranges must be increasing, so at most
65536 entries — 131072 writes for ReadSet, which lets ranges touch).  A 10-byte table reaches the cap. -/
theorem C02_coverage_cost (b : Bytes) (pos : Nat) :
    (∀ r c, Total.Otl.coverageRead b pos = .ok (r, c) → c.steps ≤ b.length / 2 + 65538 ∧ c.alloc ≤ 65537) ∧
    (∀ r c, Total.Otl.readSet b pos = .ok (r, c) → c.steps ≤ b.length / 2 + 131073 ∧ c.alloc ≤ 131072) :=
  ⟨Total.Otl.coverageRead_cost b pos, Total.Otl.readSet_cost b pos⟩

theorem C02_classdef_no_panic (b : Bytes) (pos : Nat) : (Total.Otl.classdefRead b pos).noPanic :=
  Total.Otl.classdefRead_noPanic b pos

/-- `classdef.Read` (as repaired by 92dc1a2: format 2 ranges with end < start are refused): linear
plus the constant cap of 65536 entries. -/
theorem C02_classdef_cost (b : Bytes) (pos : Nat) (r : List (Nat × Nat)) (c : Cost)
    (h : Total.Otl.classdefRead b pos = .ok (r, c)) : c.steps ≤ b.length / 2 + 65538 ∧ c.alloc ≤ 65537 :=
  Total.Otl.classdefRead_cost b pos r c h

/-- Finding #36 about the code BEFORE the repair (`classdefReadOld`): ranges with end < start lowered
`prevEnd`, so the pair (1..65534),(65535..0) could repeat: `12·n + 4` bytes cost `2 + n·65536` steps. -/
theorem C02_classdef_unrepaired_cost_fails :
    ¬ ∀ b pos r c, Total.Otl.classdefReadOld b pos = .ok (r, c) → c.steps ≤ 2000 * b.length + 2000 :=
  Total.Otl.classdefReadOld_not_linear

/-- The true bound of the unrepaired reader: (number of ranges) × 65536. -/
theorem C02_classdef_unrepaired_cost (b : Bytes) (pos : Nat) (r : List (Nat × Nat)) (c : Cost)
    (h : Total.Otl.classdefReadOld b pos = .ok (r, c)) :
    c.steps ≤ b.length / 6 * 65537 + b.length / 2 + 2 ∧ c.alloc ≤ b.length / 6 * 65536 + b.length / 2 + 1 :=
  Total.Otl.classdefReadOld_cost b pos r c h

/-- Bridges to C08's value-level models (Model/OtlCoverage.lean, OtlClassDef.lean). -/
theorem C02_otl_agree (b : Bytes) (pos : Nat) :
    Total.Otl.erase (Total.Otl.coverageRead b pos) = SfntV.Otl.Cov.read (b.drop pos) ∧
    Total.Otl.erase (Total.Otl.readSet b pos) = SfntV.Otl.Cov.readSet (b.drop pos) ∧
    Total.Otl.erase (Total.Otl.classdefRead b pos) = SfntV.Otl.ClassDef.read (b.drop pos) :=
  ⟨Total.Otl.coverageRead_erase b pos, Total.Otl.readSet_erase b pos, Total.Otl.classdefRead_erase b pos⟩

/-- `gdef.Read` with its real sub-readers plugged in: no hypothesis left. -/
theorem C02_gdef_concrete_no_panic (b : Bytes) :
    (Gdef.read (fun pos => Total.Otl.classdefRead b pos >>= fun r => pure (r.1.length, r.2))
               (fun pos => Total.Otl.readSet b pos >>= fun r => pure (r.1.length, r.2)) b).noPanic :=
  Gdef.read_noPanic _ _ b
    (fun pos => Total.Gdef.bind_noPanic (Total.Otl.classdefRead_noPanic b pos) (fun _ _ => True.intro))
    (fun pos => Total.Gdef.bind_noPanic (Total.Otl.readSet_noPanic b pos) (fun _ _ => True.intro))

/-! # Round 3: remaining bridges, readIndexAt, tier B

## bridges completed -/

/-- `SimpleGlyph.Decode`: the checked model equals C11's `Glyf.simpleDecode` on every value. -/
theorem C02_simple_agrees (nc : Int16) (buf : Bytes) :
    GlyfLazy.toOpt (GlyfLazy.decode nc buf) = Glyf.simpleDecode nc.toInt buf := GlyfLazy.decode_erase nc buf

/-- `post.Read`, every version incl. the format 2 names: equals C14's `Names.postReadWith`. -/
theorem C02_post_agrees (tbl : List Bytes) (b : Bytes) :
    Total.Metrics.postResOf (Total.Metrics.erase (Total.Metrics.postRead tbl b)) =
      Names.postReadWith (tbl.map Total.Metrics.toNats) (Total.Metrics.toNats b) :=
  Total.Metrics.postRead_erase_names tbl b

/-! ## CFF readIndexAt -/

theorem C02_cffindexat_no_panic (b : Bytes) (pos : Int) : (NameCff.readIndexAt b pos).noPanic :=
  NameCff.readIndexAt_noPanic b pos
theorem C02_cffindexat_cost (b : Bytes) (pos : Int) (r : List Bytes × Nat) (c : Cost)
    (h : NameCff.readIndexAt b pos = .ok (r, c)) :
    c.steps ≤ 2 * b.length + b.length / 1024 + 3 ∧ c.alloc ≤ 3 * b.length := NameCff.readIndexAt_cost b pos r c h
theorem C02_cffindexat_agrees (b : Bytes) (pos : Int) :
    NameCff.eraseAt (NameCff.readIndexAt b pos) = Cff.readIndexAt b pos := NameCff.readIndexAt_erase b pos

/-! ## CFF DICT: decodeDict, decodeFloat -/

/-- `decodeDict` never panics, for every byte string, string table and float parser. -/
theorem C02_cffdict_no_panic (E : Total.CffDict.Env) (buf : Bytes) : (Total.CffDict.decodeDict E buf).noPanic :=
  Total.CffDict.decodeDict_noPanic E buf

/-- … and is linear (every operand costs at least one byte; there is no operand-stack limit). -/
theorem C02_cffdict_cost (E : Total.CffDict.Env) (buf : Bytes) (d : Total.CffDict.Dict) (c : Cost)
    (h : Total.CffDict.decodeDict E buf = .ok (d, c)) : c.steps ≤ 3 * buf.length ∧ c.alloc ≤ 9 * buf.length + 1 :=
  Total.CffDict.decodeDict_cost E buf d c h

theorem C02_cfffloat_no_panic (E : Total.CffDict.Env) (buf : Bytes) : (Total.CffDict.decodeFloat E buf).noPanic :=
  Total.CffDict.decodeFloat_noPanic E buf

theorem C02_cfffloat_cost (E : Total.CffDict.Env) (buf : Bytes) (r : Bytes × List Nat × Total.CffDict.Real) (c : Cost)
    (h : Total.CffDict.decodeFloat E buf = .ok (r, c)) : c.steps ≤ 2 * buf.length ∧ c.alloc ≤ 8 * buf.length :=
  Total.CffDict.decodeFloat_cost E buf r c h

/-- Bridge to C13's `Cff.decodeDict`. -/
theorem C02_cffdict_agrees (std custom : Array String) (buf : Bytes) :
    Total.CffDict.eraseCost (Total.CffDict.decodeDict (Total.CffDict.envC13 std custom) buf) =
      Cff.decodeDict std custom buf := Total.CffDict.decodeDict_erase std custom buf

end SfntV.Props.C02
