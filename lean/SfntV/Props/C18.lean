/-
C18 — I/O faults and truncation surface as errors with accurate byte counts.
Only property theorems and non-vacuity examples live here; helper lemmas are in
Proofs/Faults (destinations) and Proofs/FaultsRead (sources).
-/
import SfntV.Proofs.Faults
import SfntV.Proofs.FaultsRead
import SfntV.Proofs.FaultsParser
import SfntV.Proofs.FaultsAccept

namespace SfntV.Props.C18
open SfntV SfntV.Header SfntV.Faults

/-- The domain of the reading half (that of C03): the entries come from a Go map (distinct
keys); offsets and lengths fit the 32-bit fields; the table count fits the 16-bit search fields.
The writing half needs no domain. -/
structure Dom (ts : List Entry) : Prop where
  keys_nodup : (ts.map (·.name)).Nodup
  size_ok : fileSize (named ts) < 4294967296
  count_ok : (named ts).length < 4096

/-! ## failing destinations -/

/-- A destination that accepts exactly `k` bytes and then fails, writing short: `header.Write`
returns a non-nil error exactly when the file (`total` bytes) does not fit, the count it returns
is `min k total`, it equals the number of bytes the destination took, those bytes are the first
`n` bytes of the file, and on success the count is the file length and the destination holds
the whole file.  For every table set and every `k`. -/
theorem C18_write (sc : Nat) (ts : List Entry) (k : Nat) (w : Written) (hw : write sc ts = .ok w) :
    ∃ r, faultWrite (shortW k) 0 sc ts = .ok r ∧
      (r.err = true ↔ k < w.bytes.length) ∧ r.n = min k w.bytes.length ∧
      r.n = r.out.length ∧ r.out = w.bytes.take r.n ∧
      (r.err = false → r.n = w.bytes.length ∧ r.out = w.bytes) := by
  refine ⟨writeTo (shortW k) 0 w.header (w.bodies.map (·.2)), by simp only [faultWrite, hw], ?_⟩
  have hg := writeTo_good (shortW k) (shortW_honest k) 0 w.header (w.bodies.map (·.2))
  rw [← bytes_eq] at hg
  have hc := countTo_eq (shortW k) 0 w.header (w.bodies.map (·.2))
  have hf := countTo_failsAt k (shortW k) (shortW_honest k) (shortW_failsAt k) w.header.length
    ((w.bodies.map (·.2)).map List.length)
  have hs := countTo_short k w.header.length ((w.bodies.map (·.2)).map List.length)
  rw [hc, ← length_bytes] at hf hs
  exact ⟨hf.1, hs, hg.count, hg.take.1, fun h => ⟨(hg.take.2.2 h).2, (hg.take.2.2 h).1⟩⟩

/-- When `header.Write` refuses its arguments (no tables, head table too short) it returns
`(0, err)`; nothing is offered to the destination, whatever the destination is. -/
theorem C18_write_refused (d : Dest σ) (s : σ) (sc : Nat) (ts : List Entry) (e : String)
    (hw : write sc ts = .err e) : faultWrite d s sc ts = .err e := by
  simp only [faultWrite, hw]

/-- Any destination that keeps the `io.Writer` contract (`n ≤ len p`, error whenever
`n < len p`), failing when, where and how often it likes: the count returned is the number of
bytes the destination took, these are the first `n` bytes of the file, and a nil error means
the destination holds the whole file and `n` is its length. -/
theorem C18_write_honest (d : Dest σ) (hd : d.Honest) (s : σ) (sc : Nat) (ts : List Entry)
    (w : Written) (hw : write sc ts = .ok w) :
    ∃ r, faultWrite d s sc ts = .ok r ∧ r.n = r.out.length ∧ r.out = w.bytes.take r.n ∧
      (r.err = false → r.n = w.bytes.length ∧ r.out = w.bytes) := by
  refine ⟨writeTo d s w.header (w.bodies.map (·.2)), by simp only [faultWrite, hw], ?_⟩
  have hg := writeTo_good d hd s w.header (w.bodies.map (·.2))
  rw [← bytes_eq] at hg
  exact ⟨hg.count, hg.take.1, fun h => ⟨(hg.take.2.2 h).2, (hg.take.2.2 h).1⟩⟩

/-- A destination that fails without short-writing (the call crossing `k` is refused whole):
error exactly when the file does not fit, and the count never exceeds `k`. -/
theorem C18_write_atomic (sc : Nat) (ts : List Entry) (k : Nat) (w : Written) (hw : write sc ts = .ok w) :
    ∃ r, faultWrite (atomicW k) 0 sc ts = .ok r ∧
      (r.err = true ↔ k < w.bytes.length) ∧ r.n ≤ k ∧ r.n = r.out.length ∧ r.out = w.bytes.take r.n := by
  refine ⟨writeTo (atomicW k) 0 w.header (w.bodies.map (·.2)), by simp only [faultWrite, hw], ?_⟩
  have hg := writeTo_good (atomicW k) (atomicW_honest k) 0 w.header (w.bodies.map (·.2))
  rw [← bytes_eq] at hg
  have hc := countTo_eq (atomicW k) 0 w.header (w.bodies.map (·.2))
  have hf := countTo_failsAt k (atomicW k) (atomicW_honest k) (atomicW_failsAt k) w.header.length
    ((w.bodies.map (·.2)).map List.length)
  have hs := countTo_atomic k w.header.length ((w.bodies.map (·.2)).map List.length)
  rw [hc, ← length_bytes] at hf
  rw [hc] at hs
  exact ⟨hf.1, hs, hg.count, hg.take.1⟩

/-- A destination that takes the whole slice and reports the failure with `n = len p > 0`:
error exactly when the file does not fit; the count is still what the destination took. -/
theorem C18_write_late (sc : Nat) (ts : List Entry) (k : Nat) (w : Written) (hw : write sc ts = .ok w) :
    ∃ r, faultWrite (lateW k) 0 sc ts = .ok r ∧
      (r.err = true ↔ k < w.bytes.length) ∧ r.n = r.out.length ∧ r.out = w.bytes.take r.n := by
  refine ⟨writeTo (lateW k) 0 w.header (w.bodies.map (·.2)), by simp only [faultWrite, hw], ?_⟩
  have hg := writeTo_good (lateW k) (lateW_honest k) 0 w.header (w.bodies.map (·.2))
  rw [← bytes_eq] at hg
  have hc := countTo_eq (lateW k) 0 w.header (w.bodies.map (·.2))
  have hf := countTo_failsAt k (lateW k) (lateW_honest k) (lateW_failsAt k) w.header.length
    ((w.bodies.map (·.2)).map List.length)
  rw [hc, ← length_bytes] at hf
  exact ⟨hf.1, hg.count, hg.take.1⟩

/-- The function the driver evaluates for every fault point (the loop over chunk lengths) is
the `(n, err)` of the byte-level loop the theorems above are about. -/
theorem C18_counts (d : Dest σ) (s : σ) (hdr : Bytes) (bodies : List Bytes) :
    countTo d s hdr.length (bodies.map List.length) =
      ((writeTo d s hdr bodies).n, (writeTo d s hdr bodies).err) :=
  countTo_eq d s hdr bodies

/-- The CFF section loop (`(*cff.Font).Write`): against a contract-keeping destination that
fails at the call crossing `k`, an error is returned exactly when the sections do not fit, and
the destination holds a prefix of the CFF data — all of it when no error is returned. -/
theorem C18_cff_sections (k : Nat) (d : Dest Nat) (hd : d.Honest) (hf : FailsAt k d) (secs : List Bytes) :
    ((sectionsTo d 0 secs).1 = true ↔ k < secs.flatten.length) ∧
    ∃ rest, secs.flatten = (sectionsTo d 0 secs).2 ++ rest ∧ ((sectionsTo d 0 secs).1 = false → rest = []) := by
  refine ⟨?_, sectionsTo_good d hd secs 0⟩
  rw [← sectionsErr_eq, sectionsErr_failsAt k d hf _ 0 (Nat.zero_le _), List.length_flatten]
  simp

/-- the three modelled destinations are of that kind -/
theorem C18_destinations (k : Nat) :
    ((shortW k).Honest ∧ FailsAt k (shortW k)) ∧ ((atomicW k).Honest ∧ FailsAt k (atomicW k)) ∧
    ((lateW k).Honest ∧ FailsAt k (lateW k)) :=
  ⟨⟨shortW_honest k, shortW_failsAt k⟩, ⟨atomicW_honest k, atomicW_failsAt k⟩,
   ⟨lateW_honest k, lateW_failsAt k⟩⟩

/-! ## truncated files and failing sources -/

/- `tableSpans w` (defined in Proofs/FaultsRead) lists (offset, length) of every table of the
written file: the first body starts after the header, each next one where the previous body,
padded to a multiple of 4, ends.  `Limited f k ra` says the source `ra` delivers only bytes of
`f` and nothing beyond its first `k` bytes. -/
example (w : Written) : tableSpans w = spans w.header.length (w.bodies.map (·.2.length)) := rfl
example (o l : Nat) (r : List Nat) : spans o (l :: r) = (o, l) :: spans (o + 4 * ((l + 3) / 4)) r := rfl
/- An empty table laid out last has the span `(end of file, 0)`: with it `C18_truncated` rejects
every `k` below the end of the file — in particular every cut inside the last table that carries
data, and inside its padding (`header.Read` probes byte `End − 1` of the last allocation, which
for an empty last table is the last byte before it). -/
example : spans 28 [5, 0] = [(28, 5), (36, 0)] := rfl
example (f : Bytes) (k : Nat) (ra : ReaderAt) : Limited f k ra =
    ∀ off n b, ra off n = .ok b → off + n ≤ k ∧ off + n ≤ f.length ∧ b = (f.drop off).take n := rfl

/-- A written file cut at `k` bytes, where `k` lies before the end of some table (`sp` is the
offset and length of a table as laid out by the writer): `header.Read` on the `k`-byte file
fails, hence `sfnt.Read` returns an error whatever the table decoders would do — from a
seekable source and from a plain `io.Reader` (which is read to its end first) alike. -/
theorem C18_truncated (sc : Nat) (ts : List Entry) (h : Dom ts) (w : Written) (hw : write sc ts = .ok w)
    (k : Nat) (sp : Nat × Nat) (hsp : sp ∈ tableSpans w) (hk : k < sp.1 + sp.2)
    (decode : Nat × List TocRec → ReaderAt → Outcome α) :
    (sfntRead decode (memReader (w.bytes.take k))).isOk = false ∧
    (sfntReadStream decode (w.bytes.take k) none).isOk = false := by
  have := written_reject sc ts h.keys_nodup h.size_ok h.count_ok w hw k _ (limited_trunc w.bytes k) sp hsp hk Gen.headerMaxTables
  exact ⟨sfntRead_reject this, sfntRead_reject this⟩

/-- A source that returns a non-EOF error for every access touching an offset `≥ k`, with `k`
before the end of some table: `header.Read` needs the last byte of the last table, so it fails
and `sfnt.Read` returns an error; a plain `io.Reader` failing after `k < len(file)` bytes makes
`io.ReadAll`, hence `sfnt.Read`, return that error. -/
theorem C18_reader_fault (sc : Nat) (ts : List Entry) (h : Dom ts) (w : Written) (hw : write sc ts = .ok w)
    (k : Nat) (sp : Nat × Nat) (hsp : sp ∈ tableSpans w) (hk : k < sp.1 + sp.2)
    (decode : Nat × List TocRec → ReaderAt → Outcome α) :
    (sfntRead decode (faultReader w.bytes k)).isOk = false ∧
    (∀ j, j < w.bytes.length → (sfntReadStream decode w.bytes (some j)).isOk = false) := by
  have := written_reject sc ts h.keys_nodup h.size_ok h.count_ok w hw k _ (limited_fault w.bytes k) sp hsp hk Gen.headerMaxTables
  refine ⟨sfntRead_reject this, fun j hj => ?_⟩
  simp only [sfntReadStream, readAll, hj, if_true]
  rfl

/-- The same for any file, written by this library or not: if the directory of `f` (as
`header.Read` decodes it) has an entry ending beyond `k`, and no entry wraps around 2^32, then
no source limited to the first `k` bytes of `f` gets past `header.Read`. -/
theorem C18_limited (f : Bytes) (k : Nat) (ra : ReaderAt) (hl : Limited f k ra)
    (hnw : ∀ e ∈ specDir f, e.off + e.len < 4294967296)
    (e : DirEnt) (he : e ∈ specDir f) (hk : k < e.off + e.len) (m : Nat) :
    (readR m ra).isOk = false := by
  apply limited_reject hl (r := (e.tag, e.off, e.len)) _ _ hk
  · rw [dirFrom_specDir]
    intro r hr
    obtain ⟨e', he', rfl⟩ := List.mem_map.mp hr
    exact hnw e' he'
  · rw [dirFrom_specDir]
    exact List.mem_map.mpr ⟨e, he, rfl⟩

/-- truncation and the failing `ReaderAt` are such limited sources -/
theorem C18_sources (f : Bytes) (k : Nat) :
    Limited f k (memReader (f.take k)) ∧ Limited f k (faultReader f k) :=
  ⟨limited_trunc f k, limited_fault f k⟩

/-! ## acceptance of the complete file, and the dichotomy in `k` -/

/-- The model of `header.Read` against an abstract `io.ReaderAt`, used for all fault theorems
here, is on an in-memory file the same function as C03's model of `header.Read`. -/
theorem C18_model_agrees (m : Nat) (f : Bytes) : readR m (memReader f) = Header.read m f :=
  readR_mem m f

/-- The unfaulted source is accepted: for every supported scaler type and every table set in the
domain of `C03_read_write` (printable names, at most 280 tables), `header.Read` on the complete
written file succeeds with one record per body, each pointing at exactly the bytes written. -/
theorem C18_accepts_complete (sc : Nat) (hsc : scalerOk sc = true) (ts : List Entry) (h : Dom ts)
    (hn : (named ts).length ≤ 280) (hpr : ∀ t ∈ named ts, ∀ b ∈ t.1, 0x20 ≤ b ∧ b ≤ 0x7e)
    (w : Written) (hw : write sc ts = .ok w) :
    ∃ recs, readR 280 (memReader w.bytes) = .ok (sc, recs) ∧ recs.length = w.bodies.length ∧
      ∀ r ∈ recs, ∃ body, (r.1, body) ∈ w.bodies ∧ (w.bytes.drop r.2.1).take r.2.2 = body := by
  rw [readR_mem]
  exact read_write sc hsc ts h.keys_nodup h.size_ok h.count_ok hn hpr w hw

/-- The dichotomy in the fault point `k`, for every written file of that domain: there is one
result `(sc, recs)` — that of the unfaulted read — such that for every `k`
* if `k` lies before the end of some table, `header.Read` fails on the file cut at `k` and on the
  `ReaderAt` failing at `k`;
* if `k ≥ |file|`, both succeed with exactly that result.
(Between the end of the last allocation and the end of the file — padding — nothing is claimed:
the code accepts, see the diagnostic stream.) -/
theorem C18_dichotomy (sc : Nat) (hsc : scalerOk sc = true) (ts : List Entry) (h : Dom ts)
    (hn : (named ts).length ≤ 280) (hpr : ∀ t ∈ named ts, ∀ b ∈ t.1, 0x20 ≤ b ∧ b ≤ 0x7e)
    (w : Written) (hw : write sc ts = .ok w) :
    ∃ recs, readR 280 (memReader w.bytes) = .ok (sc, recs) ∧ ∀ k,
      ((∃ sp ∈ tableSpans w, k < sp.1 + sp.2) →
        (readR 280 (memReader (w.bytes.take k))).isOk = false ∧
        (readR 280 (faultReader w.bytes k)).isOk = false) ∧
      (w.bytes.length ≤ k →
        readR 280 (memReader (w.bytes.take k)) = .ok (sc, recs) ∧
        readR 280 (faultReader w.bytes k) = .ok (sc, recs)) := by
  obtain ⟨recs, hr, _⟩ := C18_accepts_complete sc hsc ts h hn hpr w hw
  refine ⟨recs, hr, fun k => ⟨?_, ?_⟩⟩
  · rintro ⟨sp, hsp, hk⟩
    exact ⟨written_reject sc ts h.keys_nodup h.size_ok h.count_ok w hw k _ (limited_trunc w.bytes k) sp hsp hk 280,
      written_reject sc ts h.keys_nodup h.size_ok h.count_ok w hw k _ (limited_fault w.bytes k) sp hsp hk 280⟩
  · intro hk
    exact ⟨by rw [List.take_of_length_le hk]; exact hr,
      readR_mono (faultReader_ge w.bytes k hk) 280 _ hr⟩

/-! ## the buffered parser (parser/parser.go) on a source that ends at offset `k` -/

open SfntV.Parser SfntV.FaultsParser in
/-- The parser on a source that delivers `f[0,k)` — in pieces of any sizes (`o`) — and then ends,
by EOF (file cut at `k`) or by another error (reader failing at `k`), while `Size()` reports the
complete length: for every history of operations its outputs are those of a cursor over the
`k`-byte view (`viewRun`).  (`ReadBytes(n)` with `n ≤ 1024`, as documented.) -/
theorem C18_parser_fault (o : Oracle) (f : Bytes) (k : Nat) (ops : List Op) (hops : ∀ op ∈ ops, op.ok) :
    faultRun o f.length (initAt f k) ops = viewRun f k 0 ops := by
  have := faultRun_eq o f k ops hops (initAt f k) (init_inv _) rfl
  simpa [initAt, P.init, P.cursor] using this

open SfntV.Parser SfntV.FaultsParser in
/-- Results before the fault are unaffected: an operation all of whose bytes lie below `k`
(`needEnd f c op ≤ k`) returns exactly what it returns on the complete file, and moves the
cursor the same way. -/
theorem C18_parser_unaffected (f : Bytes) (k c : Nat) (op : Op) (h : needEnd f c op ≤ k) :
    viewStep f k c op = specStep f c op :=
  viewStep_unaffected f k c op h

open SfntV.Parser SfntV.FaultsParser in
/-- Any operation whose byte range reaches `k` yields an error — no value, or for the bulk
`Read(buf)` a count together with the error — and a bulk read never reports fewer bytes than
requested without that error (a short count `b.length < n` only occurs in the error form). -/
theorem C18_parser_error (f : Bytes) (k c : Nat) (op : Op) (h : k < needEnd f c op) :
    isErr (viewStep f k c op).2 = true ∧
    (∀ n b, op = .read n → (viewStep f k c op).2 = .short b → b.length < n) :=
  viewStep_error f k c op h

/-! ## facts regenerated from the source on every run -/

/-- The statements of `header.Write`'s write loop, as extracted from header/write.go, are the
ones `writeTo`/`bodiesTo` mirror: the count accumulates every result, every error returns at
once with the count so far, and the padding length is computed from the returned count `n`.
(If the loop is edited this theorem fails and the model has to be revisited.) -/
theorem C18_loop_shape : Gen.writeLoopStmts =
    ["n, err := w.Write(headerBytes)", "totalSize += int64(n)", "return totalSize, err",
     "range tableNames", "n, err := w.Write(body)", "totalSize += int64(n)", "return totalSize, err",
     "if k := n % 4; k != 0", "l, err := w.Write(pad[:4-k])", "totalSize += int64(l)",
     "return totalSize, err", "return totalSize, nil"] := by decide

/-- The only optional interface the reading and writing code (header/, parser/, read.go,
write.go) asks a source or destination for is `io.ReaderAt` in `sfnt.Read`; the other type
assertions concern error values, the outline kind and the extra-table arguments.  The models
consult a source only through `ReadAt` (or the whole stream) and a destination only through
`Write`.  (A new assertion — `Size()`, `io.Seeker`, `io.WriterTo`… — makes this theorem fail.) -/
theorem C18_type_asserts : Gen.ioTypeAsserts =
    ["header/error.go: err.(*ErrMissing)", "parser/error.go: err.(*NotSupportedError)",
     "read.go: r.(io.ReaderAt)", "write.go: f.Outlines.(type)", "write.go: f.Outlines.(*glyf.Outlines)",
     "write.go: extraTables[i].(string)", "write.go: extraTables[i+1].([]byte)",
     "write.go: f.Outlines.(*cff.Outlines)", "write.go: f.Outlines.(*glyf.Outlines)"] := by decide

/-- the scaler types `header.Read` admits are those of the model (`scalerOk`) -/
theorem C18_scalers : ∀ s, scalerOk s = true ↔ s ∈ Gen.scalerTypes := by
  intro s
  simp only [scalerOk, Gen.scalerTypes, Bool.or_eq_true, beq_iff_eq, List.mem_cons, List.not_mem_nil,
    or_false, or_assoc]

/-! ## Non-vacuity -/

/-- a table set in the domain that is written, and whose written form has tables to cut into -/
def exTabs : List Entry :=
  [⟨strBytes "abcd", some [1, 2, 3]⟩, ⟨strBytes "head", some (List.replicate 54 7)⟩,
   ⟨strBytes "OS/2", some [9, 9, 9, 9, 9]⟩, ⟨strBytes "nil ", none⟩]

example : Dom exTabs := ⟨by decide, by decide, by decide⟩
example : ∃ w, write 0x00010000 exTabs = .ok w :=
  write_ok_of _ _ (by decide) (fun d h =>
    (by decide : ∀ t ∈ named exTabs, t.1 = headTag → 12 ≤ t.2.length) (headTag, d) h rfl)
example : ∀ w, write 0x00010000 exTabs = .ok w → ∃ sp, sp ∈ tableSpans w ∧ 0 < sp.1 + sp.2 := by
  intro w hw
  obtain ⟨l0, g, L, _, hh, hbl⟩ := written_layout _ _ (by decide) (by decide) (by decide) w hw
  rw [tableSpans, hh, hbl]
  cases l0 with
  | nil => exact absurd rfl L.ne
  | cons t l => exact ⟨_, List.mem_cons_self, by simp only [List.length_cons]; omega⟩

/-- a literal one-table file (36 bytes: table `abcd` at offset 28, 5 bytes, 3 bytes padding):
the model of `header.Read` accepts it whole and with only the padding missing — so the rejections
above are not the model rejecting everything — and `C18_limited` applies to it cut inside the table -/
def lit : Bytes :=
  [0,1,0,0, 0,1, 0,16, 0,0, 0,0,  97,98,99,100, 1,2,3,4, 0,0,0,28, 0,0,0,5,  9,9,9,9,9,0,0,0]

/-- non-vacuity witness: `header.Read` (model) accepts the literal file through any source that
shows at least its first 33 bytes -/
theorem C18_lit_accepted (k : Nat) (hk : 33 ≤ k) : (readR 280 (faultReader lit k)).isOk = true := by
  have h0 : faultReader lit k 0 6 = .ok [0,1,0,0,0,1] := by
    simp only [faultReader, show ¬ 0 + 6 > k by omega, if_false]; decide
  have h1 : faultReader lit k 12 16 = .ok [97,98,99,100, 1,2,3,4, 0,0,0,28, 0,0,0,5] := by
    simp only [faultReader, show ¬ 12 + 16 > k by omega, if_false]; decide
  have h2 : faultReader lit k 32 1 = .ok [9] := by
    simp only [faultReader, show ¬ 32 + 1 > k by omega, if_false]; decide
  have hd : readDir (faultReader lit k) 0 1 [] = .ok [([97,98,99,100], 28, 5)] := by
    simp only [readDir, Nat.mul_zero, Nat.add_zero, h1]
    decide
  have hc : coverage [(([97,98,99,100], 28, 5) : TocRec)] = [(28, 33)] := by simp [coverage]
  have hn : beVal (List.take 2 (List.drop 4 ([0, 1, 0, 0, 0, 1] : Bytes))) = 1 := by decide
  unfold readR readRG
  rw [h0]
  simp only
  rw [hn, hd]
  simp only [hc]
  rw [show (([(28, 33)] : List (Nat × Nat)).head? = some (28, 33)) from rfl,
    show (([(28, 33)] : List (Nat × Nat)).getLast? = some (28, 33)) from rfl]
  simp only
  rw [show (33 - 1 = 32) from rfl, h2]
  decide

example : (readR 280 (faultReader lit 33)).isOk = true := C18_lit_accepted 33 (by omega)
example : (readR 280 (faultReader lit 32)).isOk = false :=
  C18_limited lit 32 _ (limited_fault lit 32) (by decide) ⟨[97,98,99,100], 16909060, 28, 5⟩ (by decide) (by decide) 280
example : (readR 280 (memReader (lit.take 32))).isOk = false :=
  C18_limited lit 32 _ (limited_trunc lit 32) (by decide) ⟨[97,98,99,100], 16909060, 28, 5⟩ (by decide) (by decide) 280

example : countTo (shortW 100) 0 60 [54, 5, 3] = (100, true) := by decide
example : countTo (shortW 128) 0 60 [54, 5, 3] = (128, false) := by decide
example : countTo (atomicW 100) 0 60 [54, 5, 3] = (60, true) := by decide
example : countTo (lateW 100) 0 60 [54, 5, 3] = (114, true) := by decide

end SfntV.Props.C18
