/-
Property C09 (character maps), the parts outside format 4: format 12 encode/decode, formats 0
and 6 decoding, the cmap table container, GetBest.  Area `cmapx`.
-/
import SfntV.Proofs.Cmapx12
import SfntV.Proofs.Cmapx06
import SfntV.Proofs.CmapxTable
import SfntV.Proofs.CmapxRT
import SfntV.Proofs.CmapxMac

namespace SfntV.C09b
open SfntV SfntV.Cmap12 SfntV.Cmap06

/-- A Go map `uint32 → glyph.ID` as the list of its entries sorted by key (what `Format12.Encode`
has after `sort.Slice`): keys strictly ascending and 32-bit, glyph ids 16-bit. -/
def Map32 (m : KV) : Prop :=
  m.Pairwise (fun a b => a.1 < b.1) ∧ ∀ k ∈ m, k.1 < 4294967296 ∧ k.2 < 65536

theorem Map32.chain {m : KV} (h : Map32 m) :
    m = [] ∨ ∃ k rest, m = k :: rest ∧ k.1 < 4294967296 ∧ Chain k.1 rest := by
  cases m with
  | nil => exact Or.inl rfl
  | cons k rest =>
    right
    have hp := h.1
    rw [List.pairwise_cons] at hp
    exact ⟨k, rest, rfl, (h.2 k List.mem_cons_self).1,
      chain_of_pairwise rest k.1 (fun x hx => ⟨hp.1 x hx, (h.2 x (List.mem_cons_of_mem _ hx)).1⟩) hp.2⟩

theorem specGroups_encode {m : KV} {lang : Nat} {b : Bytes} (hm : Map32 m) (hb : encode m lang = some b) :
    b = header lang (group m).length ++ (group m).flatMap grpBytes ∧ specGroups b = group m := by
  unfold encode encodeGroups at hb
  split at hb
  · cases hb
  · rename_i hlen
    cases hb
    refine ⟨rfl, ?_⟩
    rw [specGroups_eq_read, u32At_header_n _ _ _ (by omega)]
    have := readGroups_packed (header lang (group m).length) (header_length _ _) (group m) [] 0 rfl
      (group_ok m hm.2)
    simpa using this

/-- **Format 12 encoding is faithful for an independent decoder.**  For every map
`uint32 → glyph id` (any size, any codes up to 0xFFFFFFFF, any language value), the bytes written by
(the model of) `Format12.Encode`, read by the OpenType specification of format 12 (sequential map
groups, glyph = startGlyphID + (c − startCharCode)), give the map's glyph for every mapped code and
glyph 0 for every other code `c` (all natural numbers `c`, in particular 0..0x10FFFF); the groups are
sorted by start code and pairwise disjoint as the specification requires. -/
theorem C09_fmt12 (m : KV) (lang : Nat) (hm : Map32 m) (b : Bytes) (hb : encode m lang = some b) :
    (∀ c, specLookup b c = lookupKV m c) ∧ SortedDisjoint (specGroups b) := by
  have hg := (specGroups_encode hm hb).2
  refine ⟨?_, ?_⟩
  · intro c
    unfold specLookup
    rw [hg]
    exact findGroup_group m (Or.inr hm.chain) c
  · unfold SortedDisjoint
    rw [hg]
    rcases hm.chain with rfl | ⟨k, rest, rfl, hk, hch⟩
    · rfl
    · simp only [group]
      exact sdFrom_mono _ k.1 0 (Nat.zero_le _) (sdFrom_groupAux rest k k (Nat.le_refl _) hk hch)

/-- **The format 12 header.**  The subtable written by (the model of) `Format12.Encode` has format 12,
reserved 0, a 32-bit LENGTH field (offset 4) equal to its byte length 16 + 12·numGroups — all four
bytes, also for subtables of 64 KiB and more —, the language at offset 8 and the 32-bit group count at
offset 12; a decoder that walks the subtable by its length field sees every group, so `C09_fmt12` holds
for it as well. -/
theorem C09_fmt12_header (m : KV) (lang : Nat) (hm : Map32 m) (hl : lang < 65536) (b : Bytes)
    (hb : encode m lang = some b) :
    b.length = 16 + 12 * (group m).length ∧ u16At b 0 = 12 ∧ u16At b 2 = 0 ∧
    u32At b 4 = b.length ∧ u32At b 8 = lang ∧ u32At b 12 = (group m).length ∧
    specGroupsLen b = specGroups b ∧ (∀ c, specLookupLen b c = lookupKV m c) := by
  have hg := (specGroups_encode hm hb).2
  have hbe := (specGroups_encode hm hb).1
  have hlt : 16 + (group m).length * 12 < 4294967296 := by
    unfold encode encodeGroups at hb
    split at hb
    · cases hb
    · omega
  have hlen : b.length = 16 + 12 * (group m).length := by
    rw [hbe, List.length_append, header_length, flatMap_grpBytes_length]; omega
  have h4 : u32At b 4 = 16 + (group m).length * 12 := by
    rw [hbe]
    unfold u32At
    simp only [header, be32, be16, List.cons_append, List.nil_append, List.drop_succ_cons, List.drop_zero]
    exact be32_val _ hlt _ _ _ _ rfl rfl rfl rfl
  have h8 : u32At b 8 = lang := by
    rw [hbe]
    unfold u32At
    simp only [header, be32, be16, List.cons_append, List.nil_append, List.drop_succ_cons, List.drop_zero,
      UInt8.toNat_ofNat']
    show ((0 * 256 + 0) * 256 + lang / 256 % 256 % 256) * 256 + lang % 256 % 256 = lang
    omega
  have hsl : specGroupsLen b = specGroups b := by
    unfold specGroupsLen
    rw [h4, hg]
    apply List.take_of_length_le
    omega
  refine ⟨hlen, ?_, ?_, by rw [h4, hlen]; omega, h8, ?_, hsl, ?_⟩
  · rw [hbe]; rfl
  · rw [hbe]; rfl
  · rw [hbe]; exact u32At_header_n _ _ _ (by omega)
  · intro c
    unfold specLookupLen
    rw [hsl]
    exact (C09_fmt12 m lang hm b hb).1 c

/-- `Format12.Encode` does not panic unless the output would reach 4 GiB. -/
theorem C09_fmt12_total (m : KV) (lang : Nat) (h : 16 + m.length * 12 < 4294967296) :
    (encode m lang).isSome = true := by
  unfold encode encodeGroups
  have := group_length m
  rw [if_neg (by omega)]
  rfl

/-- **The library decoder computes the specification's mapping.**  On every byte string that (the
model of) `decodeFormat12` accepts, the decoded Go map gives, for every code `c`, exactly the glyph
the OpenType format 12 specification assigns (0 when no group covers `c`). -/
theorem C09_impl_eq_spec_12 (b : Bytes) (kv : KV) (h : decodeMap b = .ok kv) :
    ∀ c, lookupKV kv c = specLookup b c := by
  unfold decodeMap decode at h
  simp only [Bool.false_eq_true, if_false] at h
  split at h
  · cases h
  · split at h
    · cases h
    · split at h
      · rename_i hck
        simp only [Except.map] at h
        cases h
        have hs := checkGroups_sound _ true 0 0 hck (fun _ => rfl) (by intro h; cases h) (by omega)
          (readGroups_stop_lt b _ _)
        intro c
        rw [lookupKV_expand _ (fun g hg => ⟨(hs.1 g hg).1, (hs.1 g hg).2.1⟩)]
        unfold specLookup
        rw [specGroups_eq_read]
      · cases h

/-- **The library reads back what it wrote** (format 12, the property's domain: up to 65 536
entries).  For every map with at most 65 536 entries and no key 0xFFFFFFFF, `decodeFormat12` accepts
the bytes of `Format12.Encode` and the decoded map agrees with the original at every code.
(The key 0xFFFFFFFF is refused by the decoder by design, "avoid integer overflow in the loop": see
`C09_fmt12_maxkey_refused`.) -/
theorem C09_fmt12_lib (m : KV) (lang : Nat) (hm : Map32 m) (hmax : ∀ k ∈ m, k.1 ≠ 4294967295)
    (hsize : m.length ≤ 65536) :
    ∃ b kv, encode m lang = some b ∧ decodeMap b = .ok kv ∧ ∀ c, lookupKV kv c = lookupKV m c := by
  have hlen := group_length m
  have hsome : encode m lang = some (header lang (group m).length ++ (group m).flatMap grpBytes) := by
    unfold encode encodeGroups
    rw [if_neg (by omega)]
  have hdec : decodeMap (header lang (group m).length ++ (group m).flatMap grpBytes) = .ok (expand (group m)) := by
    have hread : readGroups (header lang (group m).length ++ (group m).flatMap grpBytes) 0 (group m).length = group m := by
      have := readGroups_packed (header lang (group m).length) (header_length _ _) (group m) [] 0 rfl
        (group_ok m hm.2)
      simpa using this
    have hck : checkGroups true 0 0 (group m) = true := by
      cases m with
      | nil => rfl
      | cons k rest =>
        have hp := hm.1
        rw [List.pairwise_cons] at hp
        have hk := hm.2 k List.mem_cons_self
        have hk' := hmax k List.mem_cons_self
        simp only [group]
        refine checkGroups_groupAux rest k k true 0 0 (Nat.le_refl _) (by omega) (by omega) (by omega) ?_
          (by intro h; cases h) (by simp only [List.length_cons] at hsize; omega)
        apply chainLib_of_pairwise rest k.1 _ hp.2
        intro x hx
        have hx1 := hm.2 x (List.mem_cons_of_mem _ hx)
        have hx2 := hmax x (List.mem_cons_of_mem _ hx)
        exact ⟨hp.1 x hx, by omega, by omega⟩
    unfold decodeMap decode
    simp only [Bool.false_eq_true, if_false]
    rw [u32At_header_n _ _ _ (by omega)]
    have hl : (header lang (group m).length ++ (group m).flatMap grpBytes).length = 16 + (group m).length * 12 := by
      rw [List.length_append, header_length, flatMap_grpBytes_length]
    rw [if_neg (by omega), if_neg (by omega), hread, hck]
    rfl
  refine ⟨_, expand (group m), hsome, hdec, ?_⟩
  intro c
  rw [C09_impl_eq_spec_12 _ _ hdec c]
  exact (C09_fmt12 m lang hm _ hsome).1 c

/-! ## formats 0 and 6 -/

/-- **Format 0 (byte encoding table) decodes as specified.**  Whenever (the model of)
`decodeFormat0` accepts a byte string, `Format0.Lookup` returns for every code `c ≥ 0` the glyph the
OpenType specification assigns: `glyphIdArray[c]` for `c < 256`, glyph 0 above. -/
theorem C09_impl_eq_spec_0 (b d : Bytes) (h : decode0 b = .ok d) : ∀ c, lookup0 d c = spec0 b c := by
  unfold decode0 at h
  split at h
  · cases h
  · dsimp only at h
    split at h
    · cases h
    · cases h
      intro c
      unfold lookup0 spec0
      by_cases hc : c > 255
      · rw [if_pos hc, if_neg (by omega)]
      · rw [if_neg hc, if_pos (by omega)]
        simp [List.getD_eq_getElem?_getD, List.getElem?_drop]

/-- `decodeFormat0` accepts exactly the 262-byte strings (it panics below 6 bytes: `data[6:]`). -/
theorem C09_fmt0_accepts (b : Bytes) : (∃ d, decode0 b = .ok d) ↔ b.length = 262 := by
  unfold decode0
  constructor
  · intro ⟨d, h⟩
    split at h
    · cases h
    · dsimp only at h
      split at h
      · cases h
      · rename_i h1 h2
        simp only [List.length_drop] at h2
        omega
  · intro h
    rw [if_neg (by omega), if_neg (by simp [h])]
    exact ⟨_, rfl⟩

/-- `Format0.Encode` followed by `decodeFormat0` is the identity on 256-entry tables. -/
theorem C09_fmt0_roundtrip (d : Bytes) (lang : Nat) (h : d.length = 256) :
    decode0 (encode0 d lang) = .ok d := by
  unfold decode0 encode0
  simp [be16, h]

/-- **Format 6 (trimmed table mapping) decodes as specified**, including subtables with the
tolerated excess 0x0000 word.  Whenever (the model of) `decodeFormat6` with the identity code mapping
accepts a byte string, looking up any code `c ≥ 0` in the resulting Go map (`Format4.Lookup`) gives
the glyph the specification assigns: `glyphIdArray[c − firstCode]` if
`firstCode ≤ c < firstCode + entryCount` and 0 otherwise. -/
theorem C09_impl_eq_spec_6 (b : Bytes) (ws : List (Nat × Nat)) (h : decode6 b = .ok ws) :
    ∀ c, lookup16 ws c = spec6 b c := by
  suffices hs : (∀ c, c < 65536 → lastWrite ws c = spec6 b c) ∧ (∀ c, 65536 ≤ c → spec6 b c = 0) by
    intro c
    unfold lookup16
    by_cases hc : c < 65536
    · rw [if_pos hc]; exact hs.1 c hc
    · rw [if_neg hc]; exact (hs.2 c (by omega)).symm
  unfold decode6 at h
  split at h
  · cases h
  · rename_i hlen
    dsimp only at h
    have hspec : ∀ (arr : Bytes), (∀ i, i < u16At b 8 → u16At arr (2 * i) = u16At b (10 + 2 * i)) →
        u16At b 6 + u16At b 8 ≤ 65536 →
        (∀ c, c < 65536 → lastWrite (loop6 id arr (u16At b 6) 0 (u16At b 8)) c = spec6 b c) ∧
        (∀ c, 65536 ≤ c → spec6 b c = 0) := by
      intro arr harr hfc
      refine ⟨?_, ?_⟩
      · intro c _
        rw [lastWrite_loop6 _ _ _ _ _ (by omega)]
        unfold spec6
        simp only [Nat.add_zero]
        by_cases hc : u16At b 6 ≤ c ∧ c < u16At b 6 + u16At b 8
        · rw [if_pos hc, if_pos hc, harr _ (by omega)]
        · rw [if_neg hc, if_neg hc]
      · intro c hc
        unfold spec6
        dsimp only
        rw [if_neg (by omega)]
    by_cases htr : b.length = 10 + 2 * u16At b 8 + 2 ∧ u16At b (10 + 2 * u16At b 8) = 0
    · simp only [if_pos htr] at h
      split at h
      · cases h
      · rename_i hok
        cases h
        apply hspec _ _ (by omega)
        intro i hi
        rw [u16At_drop, u16At_take _ _ _ (by omega)]
    · simp only [if_neg htr] at h
      split at h
      · cases h
      · rename_i hok
        cases h
        apply hspec _ _ (by omega)
        intro i hi
        rw [u16At_drop]

/-! ## the cmap table container -/

open SfntV.CmapTable in
/-- **`cmap.Decode` never panics**: on every byte string the model of `Decode` (every slice index
and slice expression checked as Go checks them) returns a table or an error. -/
theorem C09_table_no_panic (b : Bytes) : (CmapTable.decode b).noPanic := (decode_spec b).1

open SfntV.CmapTable in
/-- What `Decode` promises about the subtables it returns (its doc comment): at least 10 bytes, a
format among 0, 2, 4, 6, 8, 10, 12, 13, 14 in the first two bytes; platform ≤ 4; language 0 unless
platform 1. -/
theorem C09_table_entries (b : Bytes) (t : Table) (h : CmapTable.decode b = .ok t) :
    ∀ kd ∈ t, 10 ≤ kd.2.length ∧ kd.1.p ≤ 4 ∧ (kd.1.p ≠ 1 → kd.1.l = 0) ∧
      ∃ f, rd16 kd.2 0 = .ok f ∧ f ∈ [0, 2, 4, 6, 8, 10, 12, 13, 14] := by
  intro kd hkd
  obtain ⟨h1, h2, h3, f, hf, hk⟩ := (decode_spec b).2 t h kd hkd
  refine ⟨h1, h2, h3, f, hf, ?_⟩
  unfold hdrKind at hk
  simp only [List.mem_cons, List.mem_nil_iff, or_false]
  split at hk
  · omega
  · split at hk
    · omega
    · split at hk
      · omega
      · exact absurd rfl hk

open SfntV.CmapTable in
/-- **`Get` on a decoded table never panics** (in particular never calls a nil decoder function):
for every byte string accepted by `Decode`, every key and every format-4 decoder that does not
panic itself, `Table.Get` returns a subtable or an error; the formats 2, 8, 10, 13, 14 give the error
"unsupported cmap format". -/
theorem C09_get_no_panic (dec4 : Bytes → Bool → Outcome (List (Nat × Nat)))
    (h4 : ∀ d m, (dec4 d m).noPanic) (b : Bytes) (t : Table) (h : CmapTable.decode b = .ok t) (key : Key) :
    (CmapTable.get dec4 t key).noPanic := by
  unfold CmapTable.get
  cases hg : tableGet t key with
  | none => trivial
  | some d =>
    simp only []
    split
    · trivial
    · obtain ⟨h1, _, _, f, hf, hmem⟩ := C09_table_entries b t h (key, d) (tableGet_mem t key d hg)
      simp only [] at hf h1
      rw [hf]
      simp only []
      unfold decodeSub
      split
      · have h0 : ∀ m, Cmap06.decode0 d ≠ .panic m := by
          intro m
          unfold Cmap06.decode0
          rw [if_neg (by omega)]
          dsimp only
          split <;> simp
        split
        · unfold Cmap06.decode0c2r
          cases hd0 : Cmap06.decode0 d with
          | ok x => trivial
          | err e => trivial
          | panic m => exact absurd hd0 (h0 m)
        · cases hd0 : Cmap06.decode0 d with
          | ok x => trivial
          | err e => trivial
          | panic m => exact absurd hd0 (h0 m)
      · split
        · have := h4 d (decide (key.p = 1))
          cases hd : dec4 d (decide (key.p = 1)) with
          | ok x => trivial
          | err e => trivial
          | panic s => rw [hd] at this; exact this
        · split
          · split <;> trivial
          · split
            · split <;> trivial
            · split
              · trivial
              · simp only [List.mem_cons, List.mem_nil_iff, or_false] at hmem
                omega

open SfntV.CmapTable in
/-- **A cmap table survives Encode/Decode with all keys and subtables intact.**  For every table
(list of entries in `Table.Encode`'s sorted order; in fact any order) whose subtables carry a valid
format/length header (`ValidSub`: format 0/2/4/6 with a 16-bit length, 8/10/12/13 with a 32-bit
length at offset 4, 14 with a 32-bit length at offset 2, the length field equal to the subtable's
size, at least 10 resp. 12 bytes), whose keys have platform ≤ 4, a 16-bit encoding and the language
rule (language = the subtable's language field on platform 1, 0 elsewhere), with fewer than 65 536
entries and an encoding shorter than 4 GiB: the model of `cmap.Decode` applied to the model of
`Table.Encode` returns exactly the same entries — every (platform, encoding, language) key with
exactly its bytes, also when several keys share one stored subtable. -/
theorem C09_table_roundtrip (t : Table) (hv : ∀ kd ∈ t, ValidSub kd.1 kd.2) (hn : t.length < 65536)
    (hsz : (CmapTable.encode t).length < 4294967296) :
    CmapTable.decode (CmapTable.encode t) = .ok t := by
  have hmod : (4 + 8 * t.length) % 4294967296 = 4 + 8 * t.length := Nat.mod_eq_of_lt (by omega)
  have henc : CmapTable.encode t = ([0, 0] ++ be16 t.length ++ [] ++
      (assign [] (4 + 8 * t.length) t).flatMap recBytes) ++ ([] ++ (assign [] (4 + 8 * t.length) t).flatMap (·.data)) := by
    unfold CmapTable.encode
    simp only [hmod, List.append_nil, List.nil_append]
  have hloop := loop_encode t [] (4 + 8 * t.length) 0 [] ([0, 0] ++ be16 t.length) [] [] (CmapTable.encode t)
    (4 + 8 * t.length) (by simp [be16]) rfl (by omega) rfl hv (by intro q hq; cases hq) (Nat.le_refl _) henc hsz
  have hlen : 4 + 8 * t.length ≤ (CmapTable.encode t).length := by
    rw [henc]
    simp only [List.length_append, flatMap_recBytes_length, assign_length, be16, List.length_cons, List.length_nil]
    omega
  have hv0 : rd16 (CmapTable.encode t) 0 = .ok 0 := by
    rw [henc]
    simp [rd16, rd8, be16]
  have hv2 : rd16 (CmapTable.encode t) 2 = .ok t.length := by
    rw [henc]
    simp only [rd16, rd8, be16, List.cons_append, List.nil_append, List.append_nil, List.getElem?_cons_zero,
      List.getElem?_cons_succ, UInt8.toNat_ofNat']
    congr 1; omega
  unfold CmapTable.decode
  rw [if_neg (by omega)]
  simp only [hv0, hv2]
  rw [if_neg (by omega), if_neg (by omega), hmod]
  exact hloop

open SfntV.CmapTable in
/-- **Shared subtables stay shared.**  `Table.Encode` stores every distinct (non-empty) subtable
exactly once, in the order of first occurrence: the data region after the 4 + 8·n header bytes is
the concatenation of the distinct subtables, however many keys refer to each.  (Together with
`C09_table_roundtrip`: every key still decodes to its full bytes.) -/
theorem C09_table_shared (t : Table) (hne : ∀ kd ∈ t, kd.2 ≠ []) :
    ∃ hdr : Bytes, hdr.length = 4 + 8 * t.length ∧
      CmapTable.encode t = hdr ++ (stored [] t).flatMap id := by
  refine ⟨[0, 0] ++ be16 t.length ++ (assign [] ((4 + 8 * t.length) % 4294967296) t).flatMap recBytes, ?_, ?_⟩
  · simp only [List.length_append, flatMap_recBytes_length, assign_length, be16, List.length_cons, List.length_nil]
  · unfold CmapTable.encode
    simp only []
    rw [assign_data t [] _ [] hne]
    intro d _
    constructor
    · intro ⟨q, hq, _⟩; cases hq
    · intro h; cases h

open SfntV.CmapTable in
theorem bestLoop_ok (dec4 : Bytes → Bool → Outcome (List (Nat × Nat))) (t : Table) (s : Sub) :
    ∀ cs, bestLoop dec4 t cs = .ok s ↔
      ∃ pre c post, cs = pre ++ c :: post ∧ (∀ x ∈ pre, ∃ e, CmapTable.get dec4 t ⟨x.1, x.2, 0⟩ = .err e) ∧
        CmapTable.get dec4 t ⟨c.1, c.2, 0⟩ = .ok s := by
  intro cs
  induction cs with
  | nil =>
    constructor
    · intro h; cases h
    · intro ⟨pre, c, post, h, _⟩; cases pre <;> cases h
  | cons c cs ih =>
    unfold bestLoop
    cases hg : CmapTable.get dec4 t ⟨c.1, c.2, 0⟩ with
    | ok s' =>
      simp only []
      constructor
      · intro h; cases h
        exact ⟨[], c, cs, rfl, (by intro x hx; cases hx), hg⟩
      · intro ⟨pre, c', post, he, hpre, hc⟩
        cases pre with
        | nil => cases he; rw [hg] at hc; exact hc
        | cons x pre =>
          cases he
          obtain ⟨e, he⟩ := hpre _ List.mem_cons_self
          rw [hg] at he; cases he
    | err e =>
      simp only []
      rw [ih]
      constructor
      · intro ⟨pre, c', post, he, hpre, hc⟩
        refine ⟨c :: pre, c', post, by rw [he]; rfl, ?_, hc⟩
        intro x hx
        rcases List.mem_cons.mp hx with rfl | hx
        · exact ⟨e, hg⟩
        · exact hpre x hx
      · intro ⟨pre, c', post, he, hpre, hc⟩
        cases pre with
        | nil => cases he; rw [hg] at hc; cases hc
        | cons x pre =>
          cases he
          exact ⟨pre, c', post, rfl, fun y hy => hpre y (List.mem_cons_of_mem _ hy), hc⟩
    | panic m =>
      simp only []
      constructor
      · intro h; cases h
      · intro ⟨pre, c', post, he, hpre, hc⟩
        cases pre with
        | nil => cases he; rw [hg] at hc; cases hc
        | cons x pre =>
          cases he
          obtain ⟨e, he⟩ := hpre _ List.mem_cons_self
          rw [hg] at he; cases he

open SfntV.CmapTable in
/-- **`GetBest` prefers full Unicode over BMP over legacy encodings.**  The candidate list
regenerated from cmap.go is (3,10) ≻ (0,4) ≻ (3,1) ≻ (0,3) ≻ (1,0), and `GetBest` returns `s`
exactly when `s` is the decoded subtable of the first candidate (language 0) in that order whose
subtable exists and decodes without error, all earlier candidates having failed with an error. -/
theorem C09_best (dec4 : Bytes → Bool → Outcome (List (Nat × Nat))) (t : Table) (s : Sub) :
    Gen.cmapxCandidates = [(3, 10), (0, 4), (3, 1), (0, 3), (1, 0)] ∧
    (getBest dec4 t = .ok s ↔
      ∃ pre c post, Gen.cmapxCandidates = pre ++ c :: post ∧
        (∀ x ∈ pre, ∃ e, CmapTable.get dec4 t ⟨x.1, x.2, 0⟩ = .err e) ∧ CmapTable.get dec4 t ⟨c.1, c.2, 0⟩ = .ok s) :=
  ⟨by decide, bestLoop_ok dec4 t s _⟩

open SfntV.CmapTable in
/-- `GetBest` fails (with "no suitable subtable") exactly when every candidate fails. -/
theorem C09_best_none (dec4 : Bytes → Bool → Outcome (List (Nat × Nat))) (t : Table) :
    (∀ c ∈ Gen.cmapxCandidates, ∃ e, CmapTable.get dec4 t ⟨c.1, c.2, 0⟩ = .err e) →
    getBest dec4 t = .err "nosuitable" := by
  unfold getBest
  generalize Gen.cmapxCandidates = cs
  induction cs with
  | nil => intro _; rfl
  | cons c cs ih =>
    intro h
    obtain ⟨e, he⟩ := h c List.mem_cons_self
    unfold bestLoop
    rw [he]
    exact ih (fun x hx => h x (List.mem_cons_of_mem _ hx))

set_option maxRecDepth 8192 in
open SfntV.CmapTable in
/-- **`InstallCMap` and `GetBest` agree.**  `Font.InstallCMap` stores the encoded subtable under
(0,4)+(3,10) when the code range exceeds the BMP and under (0,3)+(3,1) otherwise, both keys sharing
the same bytes; whenever that subtable decodes, `GetBest` on the installed table returns exactly it
(through the Windows key, which precedes the Unicode-platform key of the same repertoire). -/
theorem C09_install (dec4 : Bytes → Bool → Outcome (List (Nat × Nat))) (high : Int) (sub : Bytes) (s : Sub)
    (f : Nat) (hf : rd16 sub 0 = .ok f) (hdec : decodeSub dec4 f sub false = .ok s) :
    getBest dec4 (install high sub) = .ok s ∧
    (install high sub).map (·.2) = [sub, sub] ∧
    (∀ kd ∈ install high sub, (kd.1.p, kd.1.e) ∈ Gen.cmapxCandidates ∧ kd.1.l = 0) := by
  have hc : Gen.cmapxCandidates = [(3, 10), (0, 4), (3, 1), (0, 3), (1, 0)] := by decide
  unfold install
  by_cases hh : high > 0xFFFF
  · rw [if_pos hh]
    refine ⟨?_, rfl, ?_⟩
    · unfold getBest
      rw [hc]
      simp [bestLoop, CmapTable.get, tableGet, hf, hdec]
    · intro kd hkd
      simp only [List.mem_cons, List.mem_nil_iff, or_false] at hkd
      rcases hkd with rfl | rfl <;> exact ⟨by rw [hc]; simp, rfl⟩
  · rw [if_neg hh]
    refine ⟨?_, rfl, ?_⟩
    · unfold getBest
      rw [hc]
      simp [bestLoop, CmapTable.get, tableGet, hf, hdec]
    · intro kd hkd
      simp only [List.mem_cons, List.mem_nil_iff, or_false] at hkd
      rcases hkd with rfl | rfl <;> exact ⟨by rw [hc]; simp, rfl⟩

open SfntV.CmapTable in
/-- **`InstallCMap` picks the encoding ids by code range.**  The model of `Format12.CodeRange`'s `high`
(two independent `if`s inside a loop over the Go map) is the maximum of the code points, whatever the
order of the entries, and the keys the model of `Font.InstallCMap` files the subtable under are the ones
the specification demands: (0,4)+(3,10) exactly when some code point lies beyond the BMP, (0,3)+(3,1)
otherwise. -/
theorem C09_install_keys (m : KV) (sub : Bytes) :
    codeRangeHigh12 m = (specCodeRange (m.map fun k => toRune k.1)).2 ∧
    (install (codeRangeHigh12 m) sub).map (·.1) = specInstallKeys (m.map fun k => toRune k.1) := by
  have h1 : codeRangeHigh12 m = (specCodeRange (m.map fun k => toRune k.1)).2 := by
    cases m with
    | nil => rfl
    | cons k rest =>
      simp only [codeRangeHigh12, List.map_cons, specCodeRange, List.foldl_map]
      congr 1
      funext h x
      rw [Int.max_def]
      split <;> split <;> omega
  refine ⟨h1, ?_⟩
  unfold install specInstallKeys
  rw [h1]
  split <;> rfl

open SfntV.CmapTable in
/-- the result does not depend on the order in which a Go map is visited: any permutation of the
entries gives the same maximum -/
theorem C09_coderange_order (a b : List Int) (h : a.Perm b) : specCodeRange a = specCodeRange b := by
  -- both components are determined by the set of elements
  have key : ∀ l : List Int, ∀ x, (l.foldl min x ≤ x ∧ (∀ y ∈ l, l.foldl min x ≤ y) ∧ (l.foldl min x = x ∨ l.foldl min x ∈ l)) ∧
      (x ≤ l.foldl max x ∧ (∀ y ∈ l, y ≤ l.foldl max x) ∧ (l.foldl max x = x ∨ l.foldl max x ∈ l)) := by
    intro l
    induction l with
    | nil => intro x; simp
    | cons z l ih =>
      intro x
      have h1 := (ih (min x z)).1
      have h2 := (ih (max x z)).2
      simp only [List.foldl_cons, List.mem_cons]
      refine ⟨⟨by omega, ?_, ?_⟩, ⟨by omega, ?_, ?_⟩⟩
      · intro y hy; rcases hy with rfl | hy
        · omega
        · exact h1.2.1 y hy
      · rcases h1.2.2 with h | h
        · rw [h]; omega
        · exact Or.inr (Or.inr h)
      · intro y hy; rcases hy with rfl | hy
        · omega
        · exact h2.2.1 y hy
      · rcases h2.2.2 with h | h
        · rw [h]; omega
        · exact Or.inr (Or.inr h)
  cases a with
  | nil => rw [h.symm.eq_nil]
  | cons x l =>
    cases b with
    | nil => exact absurd h.symm (by simp)
    | cons x' l' =>
      have ka := key l x
      have kb := key l' x'
      have hm : ∀ y, y ∈ x :: l ↔ y ∈ x' :: l' := fun y => h.mem_iff
      simp only [specCodeRange]
      have e1 : l.foldl min x = l'.foldl min x' := by
        apply Int.le_antisymm
        · rcases kb.1.2.2 with e | e
          · have := (hm x').mpr List.mem_cons_self
            rcases List.mem_cons.mp this with r | r
            · rw [e, r]; exact ka.1.1
            · rw [e]; exact ka.1.2.1 _ r
          · have := (hm _).mpr (List.mem_cons_of_mem _ e)
            rcases List.mem_cons.mp this with r | r
            · rw [r]; exact ka.1.1
            · exact ka.1.2.1 _ r
        · rcases ka.1.2.2 with e | e
          · have := (hm x).mp List.mem_cons_self
            rcases List.mem_cons.mp this with r | r
            · rw [e, r]; exact kb.1.1
            · rw [e]; exact kb.1.2.1 _ r
          · have := (hm _).mp (List.mem_cons_of_mem _ e)
            rcases List.mem_cons.mp this with r | r
            · rw [r]; exact kb.1.1
            · exact kb.1.2.1 _ r
      have e2 : l.foldl max x = l'.foldl max x' := by
        apply Int.le_antisymm
        · rcases ka.2.2.2 with e | e
          · have := (hm x).mp List.mem_cons_self
            rcases List.mem_cons.mp this with r | r
            · rw [e, r]; exact kb.2.1
            · rw [e]; exact kb.2.2.1 _ r
          · have := (hm _).mp (List.mem_cons_of_mem _ e)
            rcases List.mem_cons.mp this with r | r
            · rw [r]; exact kb.2.1
            · exact kb.2.2.1 _ r
        · rcases kb.2.2.2 with e | e
          · have := (hm x').mpr List.mem_cons_self
            rcases List.mem_cons.mp this with r | r
            · rw [e, r]; exact ka.2.1
            · rw [e]; exact ka.2.2.1 _ r
          · have := (hm _).mpr (List.mem_cons_of_mem _ e)
            rcases List.mem_cons.mp this with r | r
            · rw [r]; exact ka.2.1
            · exact ka.2.2.1 _ r
      rw [e1, e2]

set_option maxRecDepth 8192 in
/-- The facts regenerated from the Go source that the models hard-code: the formats accepted by
`Decode`'s switch all have an entry in the `decoders` map (so `Get` never calls nil), which formats
have a real decoder, `minLength`, and the numeric limits of the format 12 and 6 decoders. -/
theorem C09_generated_facts :
    Gen.decodeCase16 = [0, 2, 4, 6] ∧ Gen.decodeCase32 = [8, 10, 12, 13] ∧ Gen.decodeCase14 = [14] ∧
    Gen.cmapxMinLength = 10 ∧
    Gen.decodersImplemented = [0, 4, 6, 12] ∧ Gen.decodersNotImplemented = [2, 8, 10, 13, 14] ∧
    (∀ f ∈ Gen.decodeCase16 ++ Gen.decodeCase32 ++ Gen.decodeCase14,
        f ∈ Gen.decodersImplemented ++ Gen.decodersNotImplemented) ∧
    Gen.decode12Literals.count 65535 = 2 ∧ Gen.decode12Literals.count 1114111 = 0 ∧
    Gen.decode12Literals.count 65536 = 1 ∧ Gen.decode12Literals.count 4294967295 = 1 ∧
    Gen.decode6Literals.count 65536 = 1 ∧ Gen.cmapxMacDec.length = 128 := by
  refine ⟨by decide, by decide, by decide, by decide, by decide, by decide, by decide, ?_, ?_, ?_, ?_, ?_, ?_⟩ <;> rfl

/-! ## the Macintosh platform: decoders composed with the MacRoman table -/

open SfntV.CmapTable in
/-- **The MacRoman table is injective.**  The 256-entry code → rune table regenerated from
mac/encoding.go (`mac.DecodeOne`, the `code2rune` that `Table.Get` passes to every decoder for
platform 1 / encoding 0 — shape of that source checked by the extractor) has 256 pairwise different
BMP entries, so at most one MacRoman code has a given Unicode character and "which code wins" does not
arise for codes below 256. -/
theorem C09_macroman_injective :
    Gen.macRomanTable.length = 256 ∧ Gen.getMacClosureShape = true ∧
    (∀ a b, a < 256 → b < 256 → macRoman a = macRoman b → a = b) ∧ (∀ a, macRoman a < 65536) ∧
    (∀ a, macRoman a = macRoman (a % 256)) :=
  ⟨macTable_length, by decide, macRoman_inj, macRoman_lt, by intro a; unfold macRoman; rw [Nat.mod_mod]⟩

open SfntV.CmapTable in
/-- **Subtables under a Macintosh key decode to the specification's mapping composed with
MacRoman.**  For every table and key with platform 1 on which (the model of) `Table.Get` succeeds
(format 4 decoded by the model of Model/Cmap4.lean): the encoding id is 0, and `Lookup(r)` of the
result is, for EVERY rune `r ≥ 0`, the glyph that the OpenType specification of the subtable's format
assigns to the MacRoman code `c < 256` whose character is `r` — glyph 0 if MacRoman has no such
character — for
* format 0 (after repair 0c896bc), unconditionally;
* format 6 whose range `firstCode + entryCount` stays within the 256 single-byte codes;
* format 4 whenever the decoder wrote no code above 255.
(Codes above 255 do not exist in MacRoman; what the library does with them is `C09_mac_high_codes`.) -/
theorem C09_mac_decoders (t : Table) (key : Key) (d : Bytes) (s : Sub) (hp : key.p = 1)
    (hd : tableGet t key = some d) (hs : CmapTable.get (dec4Of Cmap4.decode) t key = .ok s) :
    key.e = 0 ∧
    (rd16 d 0 = .ok 0 → ∀ r, s.lookup r = specRune macRoman (spec0 d) r) ∧
    (rd16 d 0 = .ok 6 → u16At d 6 + u16At d 8 ≤ 256 → ∀ r, s.lookup r = specRune macRoman (spec6 d) r) ∧
    (rd16 d 0 = .ok 4 → (∀ ws, Cmap4.decode d = some ws → ∀ w ∈ ws, w.1 < 256) →
      ∀ r, s.lookup r = specRune macRoman (Cmap4.specLookupBytes d) r) := by
  -- runes outside the BMP: both sides are 0
  have hbig : ∀ (f : Nat → Nat) r, 65536 ≤ r → specRune macRoman f r = 0 := by
    intro f r hr
    cases hf : (List.range 256).find? (fun c => macRoman c == r) with
    | none => exact (specRune_none macRoman f r hf).1
    | some c =>
      have := (specRune_some macRoman f r c hf).2.2
      have := macRoman_lt c
      omega
  unfold CmapTable.get at hs
  rw [hd] at hs
  dsimp only at hs
  by_cases hmac : key.p = 1 ∧ key.e ≠ 0
  · rw [if_pos hmac] at hs; cases hs
  rw [if_neg hmac] at hs
  have he : key.e = 0 := by
    false_or_by_contra
    rename_i hne
    exact hmac ⟨hp, hne⟩
  have hdec : decide (key.p = 1) = true := by simp [hp]
  refine ⟨he, ?_, ?_, ?_⟩
  · intro hf
    rw [hf] at hs
    simp only [decodeSub, hdec, if_true] at hs
    cases h0 : decode0c2r macRoman d with
    | err e => rw [h0] at hs; cases hs
    | panic e => rw [h0] at hs; cases hs
    | ok ws =>
      rw [h0] at hs
      cases hs
      obtain ⟨d0, hd0, hws⟩ := decode0c2r_eq macRoman d ws h0
      intro r
      show lookup16 ws r = _
      unfold lookup16
      by_cases hr : r < 65536
      · rw [if_pos hr, hws, lastWrite_map_inj macRoman macRoman_inj macRoman_lt r _
          (fun w hw => by have := writes0_keys d0 256 0 w hw; omega)]
        apply specRune_congr
        intro c hc
        rw [lastWrite_writes0, if_pos (by omega)]
        have := C09_impl_eq_spec_0 d d0 hd0 c
        unfold lookup0 at this
        rw [if_neg (by omega)] at this
        exact this
      · rw [if_neg hr, hbig _ r (by omega)]
  · intro hf hrange
    rw [hf] at hs
    simp only [decodeSub, hdec, if_true] at hs
    cases h6 : decode6 d macRoman with
    | err => rw [h6] at hs; cases hs
    | ok ws =>
      rw [h6] at hs
      cases hs
      obtain ⟨ws0, hws0, hws, hkeys⟩ := decode6_c2r macRoman d ws h6
      intro r
      show lookup16 ws r = _
      unfold lookup16
      by_cases hr : r < 65536
      · rw [if_pos hr, hws, lastWrite_map_inj macRoman macRoman_inj macRoman_lt r _
          (fun w hw => by have := hkeys w hw; omega)]
        apply specRune_congr
        intro c hc
        have := C09_impl_eq_spec_6 d ws0 hws0 c
        unfold lookup16 at this
        rw [if_pos (by omega)] at this
        exact this
      · rw [if_neg hr, hbig _ r (by omega)]
  · intro hf hcodes
    rw [hf] at hs
    simp only [decodeSub, hdec] at hs
    unfold dec4Of at hs
    cases h4 : Cmap4.decode d with
    | none => rw [h4] at hs; cases hs
    | some ws =>
      rw [h4] at hs
      simp only [if_true] at hs
      cases hs
      intro r
      show (if r < 65536 then Cmap4.alistGet _ r else 0) = _
      by_cases hr : r < 65536
      · rw [if_pos hr, alistGet_map_inj macRoman macRoman_inj macRoman_lt r ws (hcodes ws h4)]
        apply specRune_congr
        intro c hc
        exact Cmap4.decode_eq_spec d ws h4 c (by omega)
      · rw [if_neg hr, hbig _ r (by omega)]

open SfntV.CmapTable in
/-- **What happens to codes above 255 under a Macintosh key** (behaviour recorded, not specified:
MacRoman is a single-byte encoding).  `Table.Get` converts with `mac.DecodeOne(byte(code))`, so a code
`c ≥ 256` of a format 4 or 6 subtable is written to the character of its LOW BYTE, after (and over)
the codes below it: with the format 6 subtable firstCode = 0x41, 257 entries, 'A' = glyph 1 and code
0x141 = glyph 9, `Lookup('A')` is 9. -/
theorem C09_mac_high_codes :
    let sub : Bytes := [0, 6, 2, 12, 0, 0, 0, 65, 1, 1, 0, 1] ++ List.replicate 510 0 ++ [0, 9]
    decode6 sub macRoman = .ok [(65, 1), (65, 9)] ∧ lookup16 [(65, 1), (65, 9)] 65 = 9 ∧
    specRune macRoman (spec6 sub) 65 = 1 := by
  decide +kernel

/-- the input of the repaired finding C09-mac-format0: glyphIdArray[c] = c -/
def exMac0 : Bytes := [0, 0, 1, 6, 0, 0] ++ (List.range 256).map UInt8.ofNat

/-- Get succeeds on it under the key (1,0,0), and U+00E9 'é' (MacRoman 0x8E) gets glyph 142, U+00C4
(MacRoman 0x80) glyph 128, U+008E (not in MacRoman) glyph 0, U+2020 '†' (MacRoman 0xA0) glyph 160 —
the values the library returned 233, 196, 142, 0 for before repair 0c896bc. -/
example : ∃ s, CmapTable.get (CmapTable.dec4Of Cmap4.decode) [(⟨1, 0, 0⟩, exMac0)] ⟨1, 0, 0⟩ = .ok s ∧
    [65, 233, 196, 142, 8224].map s.lookup = [65, 142, 128, 0, 160] := by
  refine ⟨.f6 ((List.range' 1 255).map fun c => (CmapTable.macRoman c, c)), by decide +kernel, by decide +kernel⟩

/-! ## non-vacuity and the counterexamples that forced the repairs -/

/-- a map with a run crossing the BMP boundary, glyph 0xFFFF followed by an explicit glyph 0 -/
def exMap : KV := [(65, 3), (66, 4), (65535, 10), (65536, 11), (128512, 65535), (128513, 0), (4294967294, 7)]

example : Map32 exMap := by
  refine ⟨by decide, ?_⟩
  intro k hk
  simp only [exMap, List.mem_cons, List.mem_nil_iff, or_false] at hk
  rcases hk with rfl | rfl | rfl | rfl | rfl | rfl | rfl <;> decide

example : (group exMap).length = 5 := by decide

example : ∃ b, encode exMap 0 = some b ∧ specLookup b 128513 = 0 ∧ specLookup b 128512 = 65535 ∧
    specLookup b 65536 = 11 := by
  have h := C09_fmt12_total exMap 0 (by decide)
  cases hb : encode exMap 0 with
  | none => rw [hb] at h; cases h
  | some b =>
    have hm : Map32 exMap := by
      refine ⟨by decide, ?_⟩
      intro k hk
      simp only [exMap, List.mem_cons, List.mem_nil_iff, or_false] at hk
      rcases hk with rfl | rfl | rfl | rfl | rfl | rfl | rfl <;> decide
    have := (C09_fmt12 exMap 0 hm b hb).1
    exact ⟨b, rfl, by rw [this]; decide, by rw [this]; decide, by rw [this]; decide⟩

/-- **The defect repaired in `Format12.Encode`.**  The original loop compared glyph ids in 16-bit
arithmetic (`cmap[keys[i]] != cmap[keys[i-1]]+1`, 0xFFFF+1 = 0): the map {100 ↦ 0xFFFF, 101 ↦ 0} was
written as ONE group (100..101, start glyph 0xFFFF), which the specification reads as 101 ↦ 65536,
not the map's glyph 0. -/
theorem C09_fmt12_orig_wrap :
    groupOrig [(100, 65535), (101, 0)] = [⟨100, 101, 65535⟩] ∧
    findGroup (groupOrig [(100, 65535), (101, 0)]) 101 = 65536 ∧
    lookupKV [(100, 65535), (101, 0)] 101 = 0 ∧
    group [(100, 65535), (101, 0)] = [⟨100, 100, 65535⟩, ⟨101, 101, 0⟩] := by decide

/-- The decoder refuses a group ending at 0xFFFFFFFF ("avoid integer overflow in the loop"), so the
one-entry map {0xFFFFFFFF ↦ 3} is written by Encode but not read back: the hypothesis `hmax` of
`C09_fmt12_lib` is forced by the code (0xFFFFFFFF is not a Unicode code point). -/
theorem C09_fmt12_maxkey_refused :
    checkGroups true 0 0 (group [(4294967295, 3)]) = false := by decide

set_option maxRecDepth 8192 in
/-- a format 6 subtable with the tolerated excess 0x0000 word -/
example : decode6 [0, 6, 0, 12, 0, 0, 0, 65, 0, 1, 0, 7, 0, 0] = .ok [(65, 7)] := by decide

set_option maxRecDepth 8192 in
/-- **The defect repaired in `decodeFormat6`.**  With firstCode = 0xFFFE and entryCount = 3 the
original decoder wrapped the third code to 0 (`uint16(i+firstCode)`): code 0 ↦ glyph 3, where the
specification has no entry for code 0. -/
theorem C09_fmt6_orig_wrap :
    decode6Orig [0, 6, 0, 16, 0, 0, 255, 254, 0, 3, 0, 1, 0, 2, 0, 3] = .ok [(65534, 1), (65535, 2), (0, 3)] ∧
    spec6 [0, 6, 0, 16, 0, 0, 255, 254, 0, 3, 0, 1, 0, 2, 0, 3] 0 = 0 ∧
    decode6 [0, 6, 0, 16, 0, 0, 255, 254, 0, 3, 0, 1, 0, 2, 0, 3] = .err := by decide

/-- two keys sharing one (empty) format 6 subtable, and a Macintosh key with language 5 -/
def exTable : CmapTable.Table :=
  [(⟨0, 3, 0⟩, [0, 6, 0, 10, 0, 0, 0, 0, 0, 0]),
   (⟨1, 0, 5⟩, [0, 6, 0, 10, 0, 5, 0, 0, 0, 0]),
   (⟨3, 1, 0⟩, [0, 6, 0, 10, 0, 0, 0, 0, 0, 0])]

example : ∀ kd ∈ exTable, CmapTable.ValidSub kd.1 kd.2 := by
  intro kd hkd
  simp only [exTable, List.mem_cons, List.mem_nil_iff, or_false] at hkd
  rcases hkd with rfl | rfl | rfl
  · exact ⟨by decide, by decide, 6, rfl, by decide, rfl, 0, rfl, rfl⟩
  · exact ⟨by decide, by decide, 6, rfl, by decide, rfl, 5, rfl, rfl⟩
  · exact ⟨by decide, by decide, 6, rfl, by decide, rfl, 0, rfl, rfl⟩

example : CmapTable.stored [] exTable = [[0, 6, 0, 10, 0, 0, 0, 0, 0, 0], [0, 6, 0, 10, 0, 5, 0, 0, 0, 0]] := by
  decide

/-- the shared subtable is stored once: 4 + 3·8 + 2·10 bytes -/
example : (CmapTable.encode exTable).length = 48 := by decide

end SfntV.C09b
