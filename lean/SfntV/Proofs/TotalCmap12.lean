/-
C02 (decoders are total): proofs about the checked-index model of `decodeFormat12`
(`SfntV.Total.Cmap12`): no panic on any byte string, the cost bound that rests on the CUMULATIVE
size counter, the witness that a per-group counter would not bound the allocation, agreement
with the value-level model of C09 (`SfntV.Cmap12.decode`), safety of the lazy accessors.
-/
import SfntV.Model.TotalCmap12
import SfntV.Proofs.TotalGdef
import SfntV.Proofs.Cmapx12

namespace SfntV.Total.Cmap12
open SfntV SfntV.Total
open SfntV.Total.Gdef (idx_ok ok_bind bind_noPanic bind_eq_ok)

/-! ## reads -/

theorem at32_get (site : String) (data : Bytes) (base k j : Nat) (v : UInt8)
    (hj : (base + k) % 4294967296 = j) (h : data[j]? = some v) : at32 site data base k = .ok v := by
  unfold at32 idx
  rw [hj, h]

theorem u32At_get (data : Bytes) (o : Nat) (a b c d : UInt8) (ha : data[o]? = some a)
    (hb : data[o + 1]? = some b) (hc : data[o + 2]? = some c) (hd : data[o + 3]? = some d) :
    SfntV.Cmap12.u32At data o = u32 a b c d := by
  have h0 : o < data.length := (List.getElem?_eq_some_iff.mp ha).1
  have h1 : o + 1 < data.length := (List.getElem?_eq_some_iff.mp hb).1
  have h2 : o + 2 < data.length := (List.getElem?_eq_some_iff.mp hc).1
  have h3 : o + 3 < data.length := (List.getElem?_eq_some_iff.mp hd).1
  have e0 : data[o] = a := (List.getElem?_eq_some_iff.mp ha).2
  have e1 : data[o + 1] = b := (List.getElem?_eq_some_iff.mp hb).2
  have e2 : data[o + 2] = c := (List.getElem?_eq_some_iff.mp hc).2
  have e3 : data[o + 3] = d := (List.getElem?_eq_some_iff.mp hd).2
  unfold SfntV.Cmap12.u32At
  rw [List.drop_eq_getElem_cons h0, List.drop_eq_getElem_cons h1, List.drop_eq_getElem_cons h2,
    List.drop_eq_getElem_cons h3, e0, e1, e2, e3]
  rfl

/-- inside the buffer (and below 2^32) the four checked reads succeed and give the big-endian
word at `base + k` -/
theorem rd32_eq (s0 s1 s2 s3 : String) (data : Bytes) (base k : Nat)
    (h : base + k + 3 < data.length) (h2 : base + k + 3 < 4294967296) :
    rd32 s0 s1 s2 s3 data base k = .ok (SfntV.Cmap12.u32At data (base + k)) := by
  have g0 : data[base + k]? = some data[base + k] := List.getElem?_eq_getElem (by omega)
  have g1 : data[base + k + 1]? = some data[base + k + 1] := List.getElem?_eq_getElem (by omega)
  have g2 : data[base + k + 2]? = some data[base + k + 2] := List.getElem?_eq_getElem (by omega)
  have g3 : data[base + k + 3]? = some data[base + k + 3] := List.getElem?_eq_getElem (by omega)
  unfold rd32
  rw [at32_get s0 data base k _ _ (by omega) g0, ok_bind,
    at32_get s1 data base (k + 1) _ _ (by omega) g1, ok_bind,
    at32_get s2 data base (k + 2) _ _ (by omega) g2, ok_bind,
    at32_get s3 data base (k + 3) _ _ (by omega) g3, ok_bind,
    u32At_get data (base + k) _ _ _ _ g0 g1 g2 g3]
  rfl

/-! ## the fill loop in closed form -/

/-- the entries written for one group, in write order -/
def writes (start stop gid c : Nat) : KV :=
  (List.range' c (stop + 1 - c)).map fun x => (x, gidAt start gid x)

/-- For `stop ≠ 0xFFFFFFFF` the fill loop started at `c ≤ stop + 1` with at least
`stop + 1 - c` units of fuel performs exactly `stop + 1 - c` iterations (it leaves by its own
condition; spare fuel is not used), writes the codes `c … stop` in order and charges one step
and one allocation per write. -/
theorem fill_closed (start stop gid : Nat) (hstop : stop + 1 < 4294967296) :
    ∀ (fuel c : Nat) (m : KV) (k : Cost), c ≤ stop + 1 → stop + 1 - c ≤ fuel →
      fill start stop gid fuel c m k =
        ((writes start stop gid c).reverse ++ m,
          ⟨k.steps + (stop + 1 - c), k.alloc + (stop + 1 - c)⟩)
  | 0, c, m, k, hc, hf => by
    have : stop + 1 - c = 0 := by omega
    unfold fill writes
    rw [this]
    rfl
  | fuel+1, c, m, k, hc, hf => by
    unfold fill
    by_cases hle : c ≤ stop
    · rw [if_pos hle, show (c + 1) % 4294967296 = c + 1 by omega,
        fill_closed start stop gid hstop fuel (c + 1) _ _ (by omega) (by omega)]
      have hw : writes start stop gid c = (c, gidAt start gid c) :: writes start stop gid (c + 1) := by
        unfold writes
        rw [show stop + 1 - c = (stop + 1 - (c + 1)) + 1 by omega, List.range'_succ, List.map_cons]
      rw [hw, List.reverse_cons, List.append_assoc]
      simp only [mapSet, Cost.tick, Cost.mem, List.singleton_append]
      congr 2 <;> omega
    · rw [if_neg hle]
      have : stop + 1 - c = 0 := by omega
      unfold writes
      rw [this]
      rfl

theorem writes_length (start stop gid c : Nat) : (writes start stop gid c).length = stop + 1 - c := by
  unfold writes
  rw [List.length_map, List.length_range']

/-! ## one iteration of the group loop, with the reads resolved -/

/-- the counter the iteration starts from: the accumulated one, or 0 in the per-group variant -/
def size0 (reset : Bool) (size : Nat) : Nat := if reset then 0 else size

/-- the loop body after the three reads: `s e g` = startCharCode, endCharCode, startGlyphID;
`k` already carries the step of this iteration -/
def step (reset : Bool) (data : Bytes) (n i prevEnd size : Nat) (m : KV) (k : Cost) (s e g : Nat) :
    Outcome (KV × Cost) :=
  if (i > 0 ∧ s ≤ prevEnd) ∨ e < s ∨ e = 0xFFFFFFFF ∨ g > 0xFFFF
      ∨ (g + (e + 4294967296 - s) % 4294967296) % 4294967296 > 0xFFFF then .err "malformed"
  else
  if (size0 reset size + ((e + 4294967296 - s) % 4294967296 + 1) % 4294967296) % 4294967296 > 65536 then
    .err "malformed"
  else
    loop reset data n ((i + 1) % 4294967296) e
      ((size0 reset size + ((e + 4294967296 - s) % 4294967296 + 1) % 4294967296) % 4294967296)
      (fill s e g (e + 1 - s) s m k).1 (fill s e g (e + 1 - s) s m k).2

theorem loop_step (reset : Bool) (data : Bytes) (n i prevEnd size : Nat) (m : KV) (k : Cost)
    (h : 16 + i * 12 + 12 ≤ data.length) (hi : i ≤ 1000000) :
    loop reset data (n + 1) i prevEnd size m k =
      step reset data n i prevEnd size m k.tick (SfntV.Cmap12.u32At data (16 + i * 12))
        (SfntV.Cmap12.u32At data (16 + i * 12 + 4)) (SfntV.Cmap12.u32At data (16 + i * 12 + 8)) := by
  have hb : (16 + i * 12) % 4294967296 = 16 + i * 12 := by omega
  rw [loop]
  simp only [hb]
  rw [rd32_eq _ _ _ _ data (16 + i * 12) 0 (by omega) (by omega), ok_bind,
    rd32_eq _ _ _ _ data (16 + i * 12) 4 (by omega) (by omega), ok_bind,
    rd32_eq _ _ _ _ data (16 + i * 12) 8 (by omega) (by omega), ok_bind]
  rfl

/-! ## no panic -/

theorem loop_noPanic (reset : Bool) (data : Bytes) : ∀ (n i prevEnd size : Nat) (m : KV) (k : Cost),
    16 + (i + n) * 12 ≤ data.length → i + n ≤ 1000000 → (loop reset data n i prevEnd size m k).noPanic
  | 0, _, _, _, _, _, _, _ => True.intro
  | n+1, i, prevEnd, size, m, k, h, hi => by
    rw [loop_step reset data n i prevEnd size m k (by omega) (by omega)]
    unfold step
    split
    · exact True.intro
    split
    · exact True.intro
    rw [show (i + 1) % 4294967296 = i + 1 by omega]
    exact loop_noPanic reset data n (i + 1) _ _ _ _ (by rw [show i + 1 + n = i + (n + 1) by omega]; exact h)
      (by omega)

theorem decodeWith_noPanic (reset : Bool) (data : Bytes) (c2r : Bool) :
    (decodeWith reset data c2r).noPanic := by
  unfold decodeWith
  split
  · exact True.intro
  split
  · exact True.intro
  rw [rd32_eq _ _ _ _ data 12 0 (by omega) (by omega), ok_bind]
  split
  · exact True.intro
  · rename_i hc
    exact loop_noPanic reset data _ 0 0 0 [] _ (by omega) (by omega)

/-- `decodeFormat12` returns a value or an error on EVERY byte string (and either value of
"code2rune ≠ nil") -/
theorem decodeFormat12_noPanic (data : Bytes) (c2r : Bool) : (decodeFormat12 data c2r).noPanic :=
  decodeWith_noPanic false data c2r

theorem decodeFormat12PerGroup_noPanic (data : Bytes) (c2r : Bool) :
    (decodeFormat12PerGroup data c2r).noPanic :=
  decodeWith_noPanic true data c2r

/-! ## cost: the cumulative counter bounds the whole map -/

theorem size0_false (size : Nat) : size0 false size = size := rfl
theorem size0_true (size : Nat) : size0 true size = 0 := rfl

/-- **the uint32 counter cannot wrap.**  Beware: the five-way validity test alone does NOT bound
the group size, because `startGlyphID+(endCharCode-startCharCode)` is itself uint32 arithmetic
(start 0, end 0xFFFFFFFE, glyph 2 passes it: the sum wraps to 0).  What excludes a wrap of `size`
is monotonicity: the groups so far lie below `startCharCode`, so the counter `sz` is at most
`startCharCode`, and `sz + (end - start + 1) ≤ end + 1 < 2^32`.  Hence `size' > 65536` tests the
true total; and once the total is at most 65536 the glyph-id sum did not wrap either. -/
theorem size_no_wrap (i prevEnd s e g sz : Nat) (hs : s < 4294967296) (he : e < 4294967296)
    (hchk : ¬ ((i > 0 ∧ s ≤ prevEnd) ∨ e < s ∨ e = 0xFFFFFFFF ∨ g > 0xFFFF
      ∨ (g + (e + 4294967296 - s) % 4294967296) % 4294967296 > 0xFFFF))
    (hsz : sz ≤ s) :
    s ≤ e ∧ e + 1 < 4294967296 ∧ (i > 0 → prevEnd < s) ∧
      (sz + ((e + 4294967296 - s) % 4294967296 + 1) % 4294967296) % 4294967296 = sz + (e + 1 - s) ∧
      (sz + (e + 1 - s) ≤ 65536 → g + (e - s) ≤ 65535) := by
  have h0 : i > 0 → prevEnd < s := fun hi => Nat.lt_of_not_le (fun h => hchk (Or.inl ⟨hi, h⟩))
  have h1 : s ≤ e := Nat.le_of_not_lt (fun h => hchk (Or.inr (Or.inl h)))
  have h3 : e ≠ 0xFFFFFFFF := fun h => hchk (Or.inr (Or.inr (Or.inl h)))
  have h4 : g ≤ 0xFFFF := Nat.le_of_not_lt (fun h => hchk (Or.inr (Or.inr (Or.inr (Or.inl h)))))
  have h5 : ¬ _ := fun h => hchk (Or.inr (Or.inr (Or.inr (Or.inr h))))
  clear hchk
  have h2 : (e + 4294967296 - s) % 4294967296 = e - s := by
    rw [show e + 4294967296 - s = (e - s) + 4294967296 by omega, Nat.add_mod_right]
    exact Nat.mod_eq_of_lt (by omega)
  rw [h2] at h5 ⊢
  refine ⟨h1, by omega, h0, by omega, fun hcap => ?_⟩
  have h6 : (g + (e - s)) % 4294967296 = g + (e - s) := Nat.mod_eq_of_lt (by omega)
  rw [h6] at h5
  omega

/-- **the accumulation lemma**: over ALL groups of a successful run of the loop as it stands the
number of map writes `total` satisfies `size + total ≤ 65536`; the map grows by `total` entries,
the allocation by `total`, the steps by `n + total`.  (`size` counts codes below the next
admissible start: `size = 0` at `i = 0`, `size ≤ prevEnd + 1` afterwards.) -/
theorem fill_total (data : Bytes) : ∀ (n i prevEnd size : Nat) (m : KV) (k : Cost) (m' : KV) (k' : Cost),
    16 + (i + n) * 12 ≤ data.length → i + n ≤ 1000000 → size ≤ 65536 → (i = 0 → size = 0) →
    (i > 0 → size ≤ prevEnd + 1) →
    loop false data n i prevEnd size m k = .ok (m', k') →
    ∃ total, size + total ≤ 65536 ∧ m'.length = m.length + total ∧
      k'.alloc = k.alloc + total ∧ k'.steps = k.steps + n + total
  | 0, _, _, size, m, k, m', k', _, _, _, _, _, h => by
    rw [loop] at h
    cases h
    exact ⟨0, by omega, rfl, rfl, rfl⟩
  | n+1, i, prevEnd, size, m, k, m', k', hlen, hi, hsz, hz, hp, h => by
    rw [loop_step false data n i prevEnd size m k (by omega) (by omega)] at h
    unfold step at h
    split at h
    · cases h
    rename_i hchk
    rw [size0_false] at h
    have hs := SfntV.Cmap12.u32At_lt data (16 + i * 12)
    have he := SfntV.Cmap12.u32At_lt data (16 + i * 12 + 4)
    have hszs : size ≤ SfntV.Cmap12.u32At data (16 + i * 12) := by
      by_cases h0 : i = 0
      · rw [hz h0]; omega
      · have := hp (by omega)
        have : prevEnd < SfntV.Cmap12.u32At data (16 + i * 12) :=
          Nat.lt_of_not_le (fun hle => hchk (Or.inl ⟨by omega, hle⟩))
        omega
    obtain ⟨hse, hstop, _, hsize, _⟩ := size_no_wrap _ _ _ _ _ size hs he hchk hszs
    rw [hsize] at h
    split at h
    · cases h
    rename_i hcap
    rw [fill_closed _ _ _ hstop _ _ _ _ (by omega) (Nat.le_refl _),
      show (i + 1) % 4294967296 = i + 1 by omega] at h
    obtain ⟨t, ht, hm, ha, hst⟩ := fill_total data n (i + 1) _ _ _ _ m' k'
      (by rw [show i + 1 + n = i + (n + 1) by omega]; exact hlen) (by omega) (by omega) (by omega)
      (fun _ => by omega) h
    refine ⟨(SfntV.Cmap12.u32At data (16 + i * 12 + 4) + 1 - SfntV.Cmap12.u32At data (16 + i * 12)) + t,
      ?_, ?_, ?_, ?_⟩
    · omega
    · rw [hm, List.length_append, List.length_reverse, writes_length]; omega
    · rw [ha]; simp only [Cost.tick]; omega
    · rw [hst]; simp only [Cost.tick]; omega

/-- **cost of `decodeFormat12`**: a successful decode runs at most `|data|/12 + 65536` loop
iterations (group loop + fill loop) and allocates at most 65536 map entries (+ 1 for the map
object), whatever the number of groups: the bound is the cap of the cumulative counter, not a
multiple of the input length (16 + 12 bytes already reach it). -/
theorem decodeFormat12_cost (data : Bytes) (c2r : Bool) (m : KV) (c : Cost)
    (h : decodeFormat12 data c2r = .ok (m, c)) :
    c.steps ≤ data.length / 12 + 65536 ∧ c.alloc ≤ 65536 + 1 ∧ m.length ≤ 65536 ∧
      c.alloc = m.length + 1 := by
  unfold decodeFormat12 decodeWith at h
  split at h
  · cases h
  split at h
  · cases h
  rw [rd32_eq _ _ _ _ data 12 0 (by omega) (by omega), ok_bind] at h
  split at h
  · cases h
  rename_i hc
  obtain ⟨t, ht, hm, ha, hst⟩ := fill_total data _ 0 0 0 [] _ m c (by omega) (by omega) (by omega) (fun _ => rfl) (fun h => by omega) h
  simp only [Cost.zero, Cost.mem, List.length_nil] at hm ha hst
  omega

/-! ## agreement with the value-level model of C09 -/

/-- C09's result type as an `Outcome` -/
def ofExcept : Except SfntV.Cmap12.Err SfntV.Cmap12.KV → Outcome KV
  | .ok m => .ok m
  | .error .malformed => .err "malformed"
  | .error .code2rune => .err "code2rune"

/-- forget the cost and the panic sites' bookkeeping: the write log in write order -/
def erase : Outcome (KV × Cost) → Outcome KV
  | .ok (m, _) => .ok m.reverse
  | .err e => .err e
  | .panic s => .panic s

theorem writes_eq_expandOne (s e g : Nat) (hse : s ≤ e) (he : e + 1 < 4294967296)
    (hg : g + (e - s) ≤ 65535) : writes s e g s = SfntV.Cmap12.expandOne ⟨s, e, g⟩ := by
  unfold writes SfntV.Cmap12.expandOne
  apply List.map_congr_left
  intro x hx
  have := List.mem_range'_1.mp hx
  unfold gidAt
  congr 1
  dsimp only
  have hb : g + x - s < 65536 := by omega
  rw [Nat.mod_eq_of_lt hb]
  by_cases hA : g + x < 4294967296
  · rw [Nat.mod_eq_of_lt hA, show g + x + 4294967296 - s = (g + x - s) + 4294967296 by omega,
      Nat.add_mod_right]
    omega
  · have h1 : (g + x) % 4294967296 = g + x - 4294967296 := by omega
    rw [h1, show g + x - 4294967296 + 4294967296 - s = g + x - s by omega]
    omega

theorem step_erase (data : Bytes) (n i prevEnd size : Nat) (m : KV) (k : Cost) (s e g : Nat)
    (gs : List SfntV.Cmap12.Grp) (hs : s < 4294967296) (he : e < 4294967296)
    (hi : i + 1 ≤ 1000000) (hsz : size ≤ 65536) (hz : i = 0 → size = 0) (hp : i > 0 → size ≤ prevEnd + 1)
    (ih : ∀ (pe sz : Nat) (m : KV) (k : Cost), sz ≤ 65536 → sz ≤ pe + 1 →
      erase (loop false data n (i + 1) pe sz m k) =
        if SfntV.Cmap12.checkGroups false pe sz gs = true
        then .ok (m.reverse ++ SfntV.Cmap12.expand gs) else .err "malformed") :
    erase (step false data n i prevEnd size m k s e g) =
      if SfntV.Cmap12.checkGroups (decide (i = 0)) prevEnd size (⟨s, e, g⟩ :: gs) = true
      then .ok (m.reverse ++ SfntV.Cmap12.expand (⟨s, e, g⟩ :: gs)) else .err "malformed" := by
  unfold step
  simp only [SfntV.Cmap12.checkGroups, SfntV.Cmap12.gidMax, size0_false]
  by_cases hchk : i > 0 ∧ s ≤ prevEnd ∨ e < s ∨ e = 4294967295 ∨ g > 65535 ∨
      (g + (e + 4294967296 - s) % 4294967296) % 4294967296 > 65535
  · have hc : (!decide (i = 0)) = true ∧ s ≤ prevEnd ∨ e < s ∨ e = 4294967295 ∨ g > 65535 ∨
        (g + (e - s)) % 4294967296 > 65535 := by
      rcases hchk with h | h | h | h | h
      · exact Or.inl ⟨by simp; omega, h.2⟩
      · exact Or.inr (Or.inl h)
      · exact Or.inr (Or.inr (Or.inl h))
      · exact Or.inr (Or.inr (Or.inr (Or.inl h)))
      · by_cases hlt : e < s
        · exact Or.inr (Or.inl hlt)
        · refine Or.inr (Or.inr (Or.inr (Or.inr ?_)))
          have h2 : (e + 4294967296 - s) % 4294967296 = e - s := by
            rw [show e + 4294967296 - s = (e - s) + 4294967296 by omega, Nat.add_mod_right]
            exact Nat.mod_eq_of_lt (by omega)
          rw [h2] at h
          exact h
    rw [if_pos hchk, if_pos hc]
    rfl
  · have hszs : size ≤ s := by
      by_cases h0 : i = 0
      · rw [hz h0]; omega
      · have := hp (by omega)
        have : prevEnd < s := Nat.lt_of_not_le (fun hle => hchk (Or.inl ⟨by omega, hle⟩))
        omega
    obtain ⟨hse, hstop, hprev, hsize, hgid⟩ := size_no_wrap i prevEnd s e g size hs he hchk hszs
    have h2 : (e + 4294967296 - s) % 4294967296 = e - s := by
      rw [show e + 4294967296 - s = (e - s) + 4294967296 by omega, Nat.add_mod_right]
      exact Nat.mod_eq_of_lt (by omega)
    have hc : ¬ ((!decide (i = 0)) = true ∧ s ≤ prevEnd ∨ e < s ∨ e = 4294967295 ∨ g > 65535 ∨
        (g + (e - s)) % 4294967296 > 65535) := by
      intro hc
      apply hchk
      rcases hc with h | h | h | h | h
      · exact Or.inl ⟨by have := h.1; simp at this; omega, h.2⟩
      · exact Or.inr (Or.inl h)
      · exact Or.inr (Or.inr (Or.inl h))
      · exact Or.inr (Or.inr (Or.inr (Or.inl h)))
      · refine Or.inr (Or.inr (Or.inr (Or.inr ?_)))
        rw [h2]
        exact h
    have hsize' : (size + (e - s) + 1) % 4294967296 = size + (e + 1 - s) := by omega
    rw [if_neg hchk, if_neg hc]
    simp only [hsize, hsize']
    by_cases hcap : size + (e + 1 - s) > 65536
    · rw [if_pos hcap, if_pos hcap]
      rfl
    · rw [if_neg hcap, if_neg hcap, fill_closed _ _ _ hstop _ _ _ _ (by omega) (Nat.le_refl _),
        show (i + 1) % 4294967296 = i + 1 by omega, ih _ _ _ _ (by omega) (by omega)]
      have hw := writes_eq_expandOne s e g hse hstop (hgid (by omega))
      simp only [List.reverse_append, List.reverse_reverse, hw, SfntV.Cmap12.expand, List.flatMap_cons,
        List.append_assoc]

theorem loop_erase (data : Bytes) : ∀ (n i prevEnd size : Nat) (m : KV) (k : Cost),
    16 + (i + n) * 12 ≤ data.length → i + n ≤ 1000000 → size ≤ 65536 → (i = 0 → size = 0) →
    (i > 0 → size ≤ prevEnd + 1) →
    erase (loop false data n i prevEnd size m k) =
      if SfntV.Cmap12.checkGroups (decide (i = 0)) prevEnd size (SfntV.Cmap12.readGroups data i n) = true
      then .ok (m.reverse ++ SfntV.Cmap12.expand (SfntV.Cmap12.readGroups data i n))
      else .err "malformed"
  | 0, i, prevEnd, size, m, k, _, _, _, _, _ => by
    rw [loop]
    simp [SfntV.Cmap12.readGroups, SfntV.Cmap12.checkGroups, SfntV.Cmap12.expand, erase]
  | n+1, i, prevEnd, size, m, k, hlen, hi, hsz, hz, hp => by
    rw [loop_step false data n i prevEnd size m k (by omega) (by omega)]
    simp only [SfntV.Cmap12.readGroups]
    refine step_erase data n i prevEnd size m k.tick _ _ _ _ (SfntV.Cmap12.u32At_lt _ _)
      (SfntV.Cmap12.u32At_lt _ _) (by omega) hsz hz hp (fun pe sz m k h1 h2 => ?_)
    have := loop_erase data n (i + 1) pe sz m k
      (by rw [show i + 1 + n = i + (n + 1) by omega]; exact hlen) (by omega) h1 (by omega) (fun _ => h2)
    rw [this]
    simp

/-- **bridging**: with costs and panic sites erased (and the write log put in write order) the
checked-index model IS the value-level model of C09 (`SfntV.Cmap12.decode` followed by `expand`),
on every byte string and either value of "code2rune ≠ nil" -/
theorem decodeFormat12_erase (data : Bytes) (c2r : Bool) :
    erase (decodeFormat12 data c2r) =
      ofExcept ((SfntV.Cmap12.decode data c2r).map SfntV.Cmap12.expand) := by
  unfold decodeFormat12 decodeWith SfntV.Cmap12.decode
  by_cases h1 : c2r = true
  · rw [if_pos h1, if_pos h1]; rfl
  rw [if_neg h1, if_neg h1]
  by_cases h2 : data.length < 16
  · rw [if_pos h2, if_pos h2]; rfl
  rw [if_neg h2, if_neg h2, rd32_eq _ _ _ _ data 12 0 (by omega) (by omega), ok_bind]
  dsimp only
  by_cases h3 : data.length ≠ 16 + SfntV.Cmap12.u32At data (12 + 0) * 12 ∨ SfntV.Cmap12.u32At data (12 + 0) > 1000000
  · rw [if_pos h3, if_pos h3]; rfl
  rw [if_neg h3, if_neg h3, loop_erase data _ 0 0 0 [] _ (by omega) (by omega) (by omega) (fun _ => rfl)
    (fun h => by omega)]
  simp only [decide_true, List.reverse_nil, List.nil_append, Nat.add_zero]
  split <;> rfl

/-- the same for C09's `decodeMap` -/
theorem decodeFormat12_erase_map (data : Bytes) :
    erase (decodeFormat12 data) = ofExcept (SfntV.Cmap12.decodeMap data) :=
  decodeFormat12_erase data false

/-! ## why the counter must be cumulative: the per-group variant

`adv n` = `n` full groups: group `j` covers the codes `[j·65536, j·65536 + 65535]` with
`startGlyphID` 0.  Every group passes the validity test, and a per-group counter never exceeds
65536: the variant accepts the table (`16 + 12·n` bytes) and creates `n·65536` map entries. -/

def fullGroup (j : Nat) : SfntV.Cmap12.Grp := ⟨j * 65536, j * 65536 + 65535, 0⟩

def adv (n : Nat) : Bytes :=
  SfntV.Cmap12.header 0 n ++ ((List.range' 0 n).map fullGroup).flatMap SfntV.Cmap12.grpBytes

theorem loop_full (data hdr : Bytes) (hh : hdr.length = 16) :
    ∀ (cnt i : Nat) (pre : Bytes) (prevEnd size : Nat) (m : KV) (k : Cost),
      data = hdr ++ (pre ++ ((List.range' i cnt).map fullGroup).flatMap SfntV.Cmap12.grpBytes) →
      pre.length = i * 12 → i + cnt ≤ 65535 → (i > 0 → prevEnd < i * 65536) →
      ∃ m' k', loop true data cnt i prevEnd size m k = .ok (m', k') ∧
        k'.alloc = k.alloc + cnt * 65536 ∧ m'.length = m.length + cnt * 65536
  | 0, _, _, _, _, m, k, _, _, _, _ => ⟨m, k, by rw [loop], by omega, by omega⟩
  | cnt+1, i, pre, prevEnd, size, m, k, hd, hp, hi, hprev => by
    have hd' : data = (hdr ++ pre) ++ (SfntV.Cmap12.grpBytes (fullGroup i) ++
        ((List.range' (i + 1) cnt).map fullGroup).flatMap SfntV.Cmap12.grpBytes) := by
      rw [hd, List.range'_succ, List.map_cons, List.flatMap_cons, List.append_assoc]
    have hlen : 16 + i * 12 + 12 ≤ data.length := by
      rw [hd']
      simp only [List.length_append, SfntV.Cmap12.grpBytes_length, hh, hp]
      omega
    obtain ⟨r1, r2, r3⟩ := SfntV.Cmap12.read_record (hdr ++ pre) (fullGroup i)
      (((List.range' (i + 1) cnt).map fullGroup).flatMap SfntV.Cmap12.grpBytes) (16 + i * 12)
      (by rw [List.length_append, hh, hp]) (by simp only [fullGroup]; omega)
      (by simp only [fullGroup]; omega) (by simp only [fullGroup]; omega)
    rw [← hd'] at r1 r2 r3
    rw [loop_step true data cnt i prevEnd size m k hlen (by omega), r1, r2, r3]
    simp only [fullGroup]
    unfold step
    rw [if_neg (by have := hprev; omega), size0_true]
    have hsz : (0 + ((i * 65536 + 65535 + 4294967296 - i * 65536) % 4294967296 + 1) % 4294967296) %
        4294967296 = 65536 := by omega
    simp only [hsz]
    rw [if_neg (by omega), fill_closed _ _ _ (by omega) _ _ _ _ (by omega) (Nat.le_refl _),
      show (i + 1) % 4294967296 = i + 1 by omega]
    obtain ⟨m', k', hl, ha, hm⟩ := loop_full data hdr hh cnt (i + 1)
      (pre ++ SfntV.Cmap12.grpBytes (fullGroup i)) (i * 65536 + 65535) 65536
      ((writes (i * 65536) (i * 65536 + 65535) 0 (i * 65536)).reverse ++ m)
      ⟨k.tick.steps + (i * 65536 + 65535 + 1 - i * 65536), k.tick.alloc + (i * 65536 + 65535 + 1 - i * 65536)⟩
      (by rw [hd']; simp only [List.append_assoc])
      (by rw [List.length_append, SfntV.Cmap12.grpBytes_length, hp]; omega) (by omega) (fun _ => by omega)
    refine ⟨m', k', hl, ?_, ?_⟩
    · rw [ha]; simp only [Cost.tick]; omega
    · rw [hm, List.length_append, List.length_reverse, writes_length]; omega

theorem adv_length (n : Nat) : (adv n).length = 16 + 12 * n := by
  unfold adv
  rw [List.length_append, SfntV.Cmap12.header_length, SfntV.Cmap12.flatMap_grpBytes_length,
    List.length_map, List.length_range']
  omega

/-- **witness**: with a per-group counter the table of `n ≤ 65535` full groups (`16 + 12·n`
bytes) is accepted and costs `n·65536` map entries -/
theorem perGroup_alloc (n : Nat) (hn : n ≤ 65535) :
    ∃ m c, decodeFormat12PerGroup (adv n) = .ok (m, c) ∧ c.alloc = 1 + n * 65536 ∧
      m.length = n * 65536 ∧ (adv n).length = 16 + 12 * n := by
  have hl := adv_length n
  have hN : SfntV.Cmap12.u32At (adv n) (12 + 0) = n := by
    unfold adv
    exact SfntV.Cmap12.u32At_header_n 0 n _ (by omega)
  obtain ⟨m, c, h, ha, hm⟩ := loop_full (adv n) (SfntV.Cmap12.header 0 n) (SfntV.Cmap12.header_length 0 n)
    n 0 [] 0 0 [] (Cost.zero.mem 1) (by unfold adv; rfl) rfl (by omega) (fun h => by omega)
  refine ⟨m, c, ?_, ?_, ?_, hl⟩
  · unfold decodeFormat12PerGroup decodeWith
    rw [if_neg (by decide), if_neg (by omega), rd32_eq _ _ _ _ (adv n) 12 0 (by omega) (by omega), ok_bind, hN]
    rw [if_neg (by omega)]
    exact h
  · simp only [Cost.zero, Cost.mem] at ha; omega
  · rw [hm]; simp

/-- so no bound `alloc ≤ a·|data| + k` with the constants of `decodeFormat12_cost` (or any
constants below 5461 per byte) holds for the per-group variant: 65535 groups, 786 436 bytes,
4 294 901 761 entries -/
theorem perGroup_unbounded :
    ¬ ∀ b m c, decodeFormat12PerGroup b = .ok (m, c) → c.alloc ≤ 5000 * b.length + 65537 := by
  intro h
  obtain ⟨m, c, hd, ha, _, hl⟩ := perGroup_alloc 65535 (Nat.le_refl _)
  have := h _ m c hd
  rw [ha, hl] at this
  omega

/-! ## every write creates a new entry -/

theorem mem_writes {start stop gid c : Nat} {p : Nat × Nat} (h : p ∈ writes start stop gid c) :
    c ≤ p.1 ∧ p.1 ≤ stop := by
  unfold writes at h
  obtain ⟨x, hx, rfl⟩ := List.mem_map.mp h
  have := List.mem_range'_1.mp hx
  dsimp only
  omega

theorem writes_sorted (start stop gid c : Nat) :
    (writes start stop gid c).Pairwise (fun a b => a.1 < b.1) := by
  unfold writes
  rw [List.pairwise_map]
  exact List.pairwise_lt_range'

/-- on success the keys of the write log are strictly decreasing (newest first): no key is
written twice, so the number of map entries equals the number of writes (= `alloc - 1`) -/
theorem loop_sorted (data : Bytes) : ∀ (n i prevEnd size : Nat) (m : KV) (k : Cost) (m' : KV) (k' : Cost),
    16 + (i + n) * 12 ≤ data.length → i + n ≤ 1000000 → (i = 0 → m = []) →
    (∀ p ∈ m, p.1 ≤ prevEnd) → m.Pairwise (fun a b => a.1 > b.1) →
    loop false data n i prevEnd size m k = .ok (m', k') → m'.Pairwise (fun a b => a.1 > b.1)
  | 0, _, _, _, m, k, m', k', _, _, _, _, hs, h => by
    rw [loop] at h
    cases h
    exact hs
  | n+1, i, prevEnd, size, m, k, m', k', hlen, hi, hz, hb, hs, h => by
    rw [loop_step false data n i prevEnd size m k (by omega) (by omega)] at h
    unfold step at h
    split at h
    · cases h
    rename_i hchk
    split at h
    · cases h
    have he := SfntV.Cmap12.u32At_lt data (16 + i * 12 + 4)
    have h1 : SfntV.Cmap12.u32At data (16 + i * 12) ≤ SfntV.Cmap12.u32At data (16 + i * 12 + 4) :=
      Nat.le_of_not_lt (fun h => hchk (Or.inr (Or.inl h)))
    have h3 : SfntV.Cmap12.u32At data (16 + i * 12 + 4) ≠ 0xFFFFFFFF :=
      fun h => hchk (Or.inr (Or.inr (Or.inl h)))
    rw [fill_closed _ _ _ (by omega) _ _ _ _ (by omega) (Nat.le_refl _),
      show (i + 1) % 4294967296 = i + 1 by omega] at h
    refine loop_sorted data n (i + 1) _ _ _ _ m' k'
      (by rw [show i + 1 + n = i + (n + 1) by omega]; exact hlen) (by omega) (fun h0 => by omega) ?_ ?_ h
    · intro p hp
      rcases List.mem_append.mp hp with hp | hp
      · exact (mem_writes (List.mem_reverse.mp hp)).2
      · have := hb p hp
        by_cases h0 : i = 0
        · rw [hz h0] at hp; cases hp
        · have : prevEnd < SfntV.Cmap12.u32At data (16 + i * 12) :=
            Nat.lt_of_not_le (fun hle => hchk (Or.inl ⟨by omega, hle⟩))
          omega
    · rw [List.pairwise_append]
      refine ⟨?_, hs, ?_⟩
      · rw [List.pairwise_reverse]
        exact writes_sorted _ _ _ _
      · intro a ha b hb'
        have h1 := (mem_writes (List.mem_reverse.mp ha)).1
        by_cases h0 : i = 0
        · rw [hz h0] at hb'; cases hb'
        · have := hb b hb'
          have : prevEnd < SfntV.Cmap12.u32At data (16 + i * 12) :=
            Nat.lt_of_not_le (fun hle => hchk (Or.inl ⟨by omega, hle⟩))
          omega

theorem decode_keys_sorted (data : Bytes) (c2r : Bool) (m : KV) (c : Cost)
    (h : decodeFormat12 data c2r = .ok (m, c)) : m.Pairwise (fun a b => a.1 > b.1) := by
  unfold decodeFormat12 decodeWith at h
  split at h
  · cases h
  split at h
  · cases h
  rw [rd32_eq _ _ _ _ data 12 0 (by omega) (by omega), ok_bind] at h
  split at h
  · cases h
  exact loop_sorted data _ 0 0 0 [] _ m c (by omega) (by omega) (fun _ => rfl) (fun p hp => by cases hp)
    List.Pairwise.nil h

/-! ## lazy accessors -/

/-- `Format12.Lookup` cannot panic: for every map and every rune (negative ones included) -/
theorem lookup_noPanic (m : KV) (code : Int) : (lookup m code).noPanic := True.intro

/-- the key actually read is `uint32(code)`, a number below 2^32, also for negative runes -/
theorem lookup_key (m : KV) (code : Int) :
    ∃ key : Nat, key < 4294967296 ∧ (key : Int) = code % 4294967296 ∧ lookup m code = .ok (mapGet m key) := by
  refine ⟨(code % 4294967296).toNat, ?_, ?_, rfl⟩ <;> omega

/-- `Format12.CodeRange` cannot panic, whatever the key set and the iteration order -/
theorem codeRange_noPanic (keys : List Nat) : (codeRange keys).noPanic := True.intro

theorem codeRangeLoop_spec : ∀ (cs : List Nat) (lo hi : Int),
    (codeRangeLoop cs false lo hi).1 ≤ lo ∧ hi ≤ (codeRangeLoop cs false lo hi).2 ∧
    (∀ c ∈ cs, (codeRangeLoop cs false lo hi).1 ≤ toRune c ∧ toRune c ≤ (codeRangeLoop cs false lo hi).2) ∧
    ((codeRangeLoop cs false lo hi).1 = lo ∨ ∃ c ∈ cs, (codeRangeLoop cs false lo hi).1 = toRune c) ∧
    ((codeRangeLoop cs false lo hi).2 = hi ∨ ∃ c ∈ cs, (codeRangeLoop cs false lo hi).2 = toRune c)
  | [], lo, hi => by simp [codeRangeLoop]
  | c :: cs, lo, hi => by
    simp only [codeRangeLoop, Bool.false_eq_true, false_or]
    have a1 : (if toRune c < lo then toRune c else lo) ≤ lo := by split <;> omega
    have a2 : (if toRune c < lo then toRune c else lo) ≤ toRune c := by split <;> omega
    have a3 : (if toRune c < lo then toRune c else lo) = lo ∨
        (if toRune c < lo then toRune c else lo) = toRune c := by split <;> simp
    have b1 : hi ≤ (if toRune c > hi then toRune c else hi) := by split <;> omega
    have b2 : toRune c ≤ (if toRune c > hi then toRune c else hi) := by split <;> omega
    have b3 : (if toRune c > hi then toRune c else hi) = hi ∨
        (if toRune c > hi then toRune c else hi) = toRune c := by split <;> simp
    generalize (if toRune c < lo then toRune c else lo) = lo' at *
    generalize (if toRune c > hi then toRune c else hi) = hi' at *
    obtain ⟨h1, h2, h3, h4, h5⟩ := codeRangeLoop_spec cs lo' hi'
    refine ⟨by omega, by omega, ?_, ?_, ?_⟩
    · intro x hx
      rcases List.mem_cons.mp hx with rfl | hx
      · exact ⟨by omega, by omega⟩
      · exact h3 x hx
    · rcases h4 with h | ⟨x, hx, h⟩
      · rcases a3 with e | e
        · exact Or.inl (h.trans e)
        · exact Or.inr ⟨c, List.mem_cons_self, h.trans e⟩
      · exact Or.inr ⟨x, List.mem_cons_of_mem _ hx, h⟩
    · rcases h5 with h | ⟨x, hx, h⟩
      · rcases b3 with e | e
        · exact Or.inl (h.trans e)
        · exact Or.inr ⟨c, List.mem_cons_self, h.trans e⟩
      · exact Or.inr ⟨x, List.mem_cons_of_mem _ hx, h⟩

set_option linter.unusedSimpArgs false in
/-- `CodeRange` of a non-empty map returns the least and the greatest key (as runes), whatever
the iteration order of the Go map is; of the empty map, (0, 0) -/
theorem codeRange_spec (keys : List Nat) (hk : keys ≠ []) :
    ∃ lo hi, codeRange keys = .ok (lo, hi) ∧ (∀ c ∈ keys, lo ≤ toRune c ∧ toRune c ≤ hi) ∧
      (∃ c ∈ keys, lo = toRune c) ∧ (∃ c ∈ keys, hi = toRune c) := by
  cases keys with
  | nil => exact absurd rfl hk
  | cons c cs =>
    refine ⟨_, _, rfl, ?_, ?_, ?_⟩
    all_goals
      simp only [codeRangeLoop, true_or, if_true]
      obtain ⟨h1, h2, h3, h4, h5⟩ := codeRangeLoop_spec cs (toRune c) (toRune c)
    · intro x hx
      rcases List.mem_cons.mp hx with rfl | hx
      · exact ⟨h1, h2⟩
      · exact h3 x hx
    · rcases h4 with h | ⟨x, hx, h⟩
      · exact ⟨c, List.mem_cons_self, h⟩
      · exact ⟨x, List.mem_cons_of_mem _ hx, h⟩
    · rcases h5 with h | ⟨x, hx, h⟩
      · exact ⟨c, List.mem_cons_self, h⟩
      · exact ⟨x, List.mem_cons_of_mem _ hx, h⟩

example : codeRange [] = .ok (0, 0) := rfl

/-! ## non-vacuity -/

/-- one group: the codes 65, 66 ↦ glyphs 1, 2 -/
def exTable : Bytes :=
  [0,12, 0,0, 0,0,0,28, 0,0,0,0, 0,0,0,1,  0,0,0,65, 0,0,0,66, 0,0,0,1]

example : decodeFormat12 exTable = .ok ([(66, 2), (65, 1)], ⟨3, 3⟩) := by decide +kernel

example : lookup [(66, 2), (65, 1)] 66 = .ok 2 := by decide +kernel
/-- a negative rune reads the key `2^32 - 1`, which no decoded map contains -/
example : lookup [(66, 2), (65, 1)] (-1) = .ok 0 := by decide +kernel
example : codeRange [66, 65] = .ok (65, 66) := by decide +kernel

/-- hence (by `decodeFormat12_erase_map`) C09's model decodes it to the same map -/
example : SfntV.Cmap12.decodeMap exTable = .ok [(65, 1), (66, 2)] := by
  have h := decodeFormat12_erase_map exTable
  rw [show decodeFormat12 exTable = .ok ([(66, 2), (65, 1)], ⟨3, 3⟩) by decide +kernel] at h
  cases hd : SfntV.Cmap12.decodeMap exTable with
  | ok m => rw [hd] at h; simp only [erase, ofExcept] at h; cases h; rfl
  | error e => rw [hd] at h; cases e <;> simp [erase, ofExcept] at h

end SfntV.Total.Cmap12
