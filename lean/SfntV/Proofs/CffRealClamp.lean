/-
The range check, clamps and normalisation of `decodeFloat` do not interfere with the decimals
`encodeFloat` writes (nine-digit mantissa, decimal point within ±280 places).
-/
import SfntV.Proofs.CffReal

namespace SfntV.Cff
open SfntV

/-! ### number of decimal digits -/

theorem digitsAux_length : ∀ (fuel x : Nat) (acc : List Nat), 0 < x → x < fuel →
    ∃ n, (digitsAux fuel x acc).length = acc.length + n ∧ 1 ≤ n ∧ 10 ^ (n - 1) ≤ x ∧ x < 10 ^ n := by
  intro fuel
  induction fuel with
  | zero => intro x acc _ h; omega
  | succ fuel ih =>
    intro x acc hx hf
    simp only [digitsAux]
    have hx0 : ¬ x = 0 := by omega
    simp only [hx0, if_false]
    by_cases h10 : x / 10 = 0
    · refine ⟨1, ?_, Nat.le_refl _, by simp; omega, by simp; omega⟩
      cases fuel with
      | zero => omega
      | succ f => simp [digitsAux, h10]
    · obtain ⟨n, h1, h2, h3, h4⟩ := ih (x / 10) (x % 10 :: acc) (by omega) (by omega)
      refine ⟨n + 1, by rw [h1]; simp; omega, by omega, ?_, ?_⟩
      · have : n + 1 - 1 = (n - 1) + 1 := by omega
        rw [this, Nat.pow_succ]
        omega
      · rw [Nat.pow_succ]; omega

theorem numDigits_bounds (x : Nat) (hx : 0 < x) :
    1 ≤ numDigits x ∧ 10 ^ (numDigits x - 1) ≤ x ∧ x < 10 ^ numDigits x := by
  obtain ⟨n, h1, h2, h3, h4⟩ := digitsAux_length (x + 1) x [] hx (by omega)
  have : numDigits x = n := by simp [numDigits, digitsOf, h1]
  rw [this]
  exact ⟨h2, h3, h4⟩

theorem pow10_pos (n : Nat) : 0 < 10 ^ n := Nat.pow_pos (by omega)

theorem digits_unique (x a b : Nat) (ha : 1 ≤ a) (hb : 1 ≤ b)
    (ha1 : 10 ^ (a - 1) ≤ x) (ha2 : x < 10 ^ a) (hb1 : 10 ^ (b - 1) ≤ x) (hb2 : x < 10 ^ b) : a = b := by
  rcases Nat.lt_trichotomy a b with h | h | h
  · have : 10 ^ a ≤ 10 ^ (b - 1) := Nat.pow_le_pow_right (by omega) (by omega)
    omega
  · exact h
  · have : 10 ^ b ≤ 10 ^ (a - 1) := Nat.pow_le_pow_right (by omega) (by omega)
    omega

theorem numDigits_mul_pow (x k : Nat) (hx : 0 < x) : numDigits (x * 10 ^ k) = numDigits x + k := by
  obtain ⟨h1, h2, h3⟩ := numDigits_bounds x hx
  have hp := pow10_pos k
  have hxk : 0 < x * 10 ^ k := Nat.mul_pos hx hp
  obtain ⟨g1, g2, g3⟩ := numDigits_bounds (x * 10 ^ k) hxk
  apply digits_unique (x * 10 ^ k) _ _ g1 (by omega) g2 g3
  · have : numDigits x + k - 1 = (numDigits x - 1) + k := by omega
    rw [this, Nat.pow_add]
    exact Nat.mul_le_mul_right _ h2
  · rw [Nat.pow_add]
    exact Nat.mul_lt_mul_of_pos_right h3 hp

theorem numDigits_le_of_lt (x n : Nat) (hx : 0 < x) (h : x < 10 ^ n) : numDigits x ≤ n := by
  obtain ⟨h1, h2, _⟩ := numDigits_bounds x hx
  rcases Nat.lt_or_ge n (numDigits x) with hlt | hge
  · have : 10 ^ n ≤ 10 ^ (numDigits x - 1) := Nat.pow_le_pow_right (by omega) (by omega)
    omega
  · exact hge

/-! ### trailing zeros -/

theorem stripZeros_le (fuel i : Nat) : stripZeros fuel i ≤ i := by
  induction fuel generalizing i with
  | zero => exact Nat.le_refl _
  | succ fuel ih =>
    simp only [stripZeros]
    split
    · have := ih (i / 10); omega
    · exact Nat.le_refl _

theorem stripZeros_mod (fuel i : Nat) (hi : 0 < i) (hf : i < 10 ^ fuel) : stripZeros fuel i % 10 ≠ 0 := by
  induction fuel generalizing i with
  | zero => simp at hf; omega
  | succ fuel ih =>
    simp only [stripZeros]
    split
    · rename_i h
      apply ih (i / 10) (by omega)
      rw [Nat.pow_succ] at hf; omega
    · rename_i h
      intro h0; exact h ⟨h0, by omega⟩

theorem stripZeros_mul_pow (x : Nat) (hx : x % 10 ≠ 0) : ∀ (k fuel : Nat), k ≤ fuel →
    stripZeros fuel (x * 10 ^ k) = x := by
  intro k
  induction k with
  | zero =>
    intro fuel _
    simp only [Nat.pow_zero, Nat.mul_one]
    cases fuel with
    | zero => rfl
    | succ f =>
      simp only [stripZeros]
      have : ¬ (x % 10 = 0 ∧ x ≠ 0) := fun h => hx h.1
      simp [this]
  | succ k ih =>
    intro fuel hf
    obtain ⟨f, rfl⟩ : ∃ f, fuel = f + 1 := ⟨fuel - 1, by omega⟩
    simp only [stripZeros]
    have hpos : 0 < x * 10 ^ (k + 1) := Nat.mul_pos (by omega) (pow10_pos _)
    have hmod : x * 10 ^ (k + 1) % 10 = 0 := by
      rw [Nat.pow_succ, ← Nat.mul_assoc]; exact Nat.mul_mod_left _ _
    have hdiv : x * 10 ^ (k + 1) / 10 = x * 10 ^ k := by
      rw [Nat.pow_succ, ← Nat.mul_assoc]; exact Nat.mul_div_cancel _ (by omega)
    have : x * 10 ^ (k + 1) % 10 = 0 ∧ x * 10 ^ (k + 1) ≠ 0 := ⟨hmod, by omega⟩
    rw [if_pos this, hdiv]
    exact ih f (by omega)

/-! ### the bounds -/

set_option exponentiation.threshold 2000 in
theorem bound_290 : 10 ^ 290 < overflowBound := by decide +kernel
theorem bound_290_300 : (10 : Nat) ^ 290 ≤ 10 ^ 300 := Nat.pow_le_pow_right (by omega) (by omega)

/-- For a mantissa `x` without trailing zeros of at most nine digits, `k ≤ 2` appended zeros and a
decimal point position `l` within ±280, `clampValue` returns the decimal in normal form. -/
theorem clampValue_written (neg : Bool) (x k : Nat) (l : Int) (hx : 0 < x) (hx9 : x < 10 ^ 9)
    (hmod : x % 10 ≠ 0) (hk : k ≤ 2) (hl : -280 ≤ l ∧ l ≤ 280) :
    clampValue (neg, x * 10 ^ k, l - (numDigits x : Int) - (k : Int))
      = .ok (neg, x, l - (numDigits x : Int)) := by
  obtain ⟨hm1, hm2, hm3⟩ := numDigits_bounds x hx
  have hm9 : numDigits x ≤ 9 := numDigits_le_of_lt x 9 hx hx9
  have hM : 0 < x * 10 ^ k := Nat.mul_pos hx (pow10_pos k)
  have hnd : numDigits (x * 10 ^ k) = numDigits x + k := numDigits_mul_pow x k hx
  have hMlt : x * 10 ^ k < 10 ^ (numDigits x + k) := by
    rw [Nat.pow_add]; exact Nat.mul_lt_mul_of_pos_right hm3 (pow10_pos k)
  have hM11 : x * 10 ^ k < 10 ^ 11 :=
    Nat.lt_of_lt_of_le hMlt (Nat.pow_le_pow_right (by omega) (by omega))
  generalize hMM : x * 10 ^ k = M at *
  generalize hEE : l - (numDigits x : Int) - (k : Int) = E at *
  have hmag : (numDigits M : Int) + E = l := by rw [hnd, ← hEE]; omega
  unfold clampValue
  simp only
  have hM0 : ¬ M = 0 := by omega
  simp only [hM0, if_false, hmag]
  rw [if_neg (by omega), if_neg (by omega)]
  -- the value is below 10^290
  have hval : ∀ (T : Nat), 10 ^ 290 ≤ T → decGe M E T = false ∧ (10 ^ 11 ≤ T → decGt M E T = false) := by
    intro T hT
    unfold decGe decGt
    by_cases hE : E ≥ 0
    · simp only [hE, if_true]
      have h1 : M * 10 ^ E.toNat < 10 ^ (numDigits x + k) * 10 ^ E.toNat :=
        Nat.mul_lt_mul_of_pos_right hMlt (pow10_pos _)
      rw [← Nat.pow_add] at h1
      have h2 : 10 ^ (numDigits x + k + E.toNat) ≤ 10 ^ 290 := Nat.pow_le_pow_right (by omega) (by omega)
      refine ⟨by simp; omega, fun _ => by simp; omega⟩
    · simp only [hE, if_false]
      have h1 : T ≤ T * 10 ^ (-E).toNat := Nat.le_mul_of_pos_right _ (pow10_pos _)
      have h3 : (10:Nat) ^ 11 ≤ 10 ^ 290 := Nat.pow_le_pow_right (by omega) (by omega)
      refine ⟨by simp; omega, fun _ => by simp; omega⟩
  rw [(hval overflowBound (Nat.le_of_lt bound_290)).1]
  simp only [Bool.false_eq_true, if_false]
  rw [(hval (10 ^ 300) bound_290_300).2 (Nat.pow_le_pow_right (by omega) (by omega))]
  simp only [Bool.false_eq_true, if_false]
  have hge : decGe M (E + 300) 1 = true := by
    unfold decGe
    have hE : E + 300 ≥ 0 := by omega
    simp only [hE, if_true]
    have : 1 ≤ M * 10 ^ (E + 300).toNat := Nat.mul_pos (by omega) (pow10_pos _)
    simpa using this
  simp only [hge, Bool.not_true, Bool.false_eq_true, if_false]
  -- normal form
  unfold normReal
  simp only [hM0, if_false]
  have hstrip : stripZeros (numDigits M) M = x := by
    rw [hnd, ← hMM]; exact stripZeros_mul_pow x hmod k _ (by omega)
  rw [hstrip, hnd]
  congr 3
  omega


/-- Reals written by `encodeFloat` (nine-digit mantissa `i`, decimal point position `l` within
±280) are decoded by `decodeFloat` to exactly the written decimal, in normal form. -/
theorem decodeReal_encodeReal_full (neg : Bool) (i : Nat) (l : Int) (rest : Bytes)
    (hi : 0 < i) (hi9 : i < 10 ^ 9) (hl : -280 ≤ l ∧ l ≤ 280) :
    decodeReal (encodeReal neg i l ++ rest)
      = .ok (.real neg (stripZeros 20 i) (l - (numDigits (stripZeros 20 i) : Int)), rest) := by
  obtain ⟨k, hk, h⟩ := decodeReal_encodeReal neg i hi l rest
  have hpos := stripZeros_pos 20 i hi
  have hle := stripZeros_le 20 i
  have hmod := stripZeros_mod 20 i hi
    (Nat.lt_of_lt_of_le hi9 (Nat.pow_le_pow_right (by omega) (by omega)))
  have hc := clampValue_written neg (stripZeros 20 i) k l hpos (by omega) hmod hk hl
  have hnum : ((digitsOf (stripZeros 20 i)).length : Int) = (numDigits (stripZeros 20 i) : Int) := rfl
  rw [h, hnum, hc]

end SfntV.Cff
