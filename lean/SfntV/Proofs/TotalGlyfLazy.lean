/-
C02 (decoders are total), lazy part for TrueType glyphs: proofs about the checked-index models of
`(*SimpleGlyph).Decode`, `decodeGlyphComposite`, `(*Glyph).Components`
(`SfntV.Total.GlyfLazy`): no panic on EVERY input, explicit cost bounds, bridging to the
value-level models of C11 (`SfntV.Glyf`).
-/
import SfntV.Model.TotalGlyfLazy
import SfntV.Proofs.TotalGdef

namespace SfntV.Total.GlyfLazy
open SfntV SfntV.Total
open SfntV.Total.Gdef (idx_ok ok_bind bind_noPanic bind_eq_ok w16_ok w16_lt)
open SfntV.Glyf (bit wrap16 Point GlyphInfo Component compSkip flagOnCurve flagXShortVec
  flagYShortVec flagRepeat flagXSameOrPos flagYSameOrPos FlagMoreComponents FlagWeHaveInstructions)

/-! ## the checked operations succeed inside their bounds -/

theorem sliceFrom_ok (site : String) (xs : List α) (a : Nat) (h : a ≤ xs.length) :
    sliceFrom site xs a = .ok (xs.drop a) := by
  unfold sliceFrom
  rw [if_pos h]

theorem slice_ok (site : String) (xs : List α) (a b : Nat) (h : a ≤ b ∧ b ≤ xs.length) :
    slice site xs a b = .ok ((xs.drop a).take (b - a)) := by
  unfold slice
  rw [if_pos h]

theorem chk_ok (site : String) (n i : Nat) (h : i < n) : chk site n i = .ok () := by
  unfold chk
  rw [if_pos h]

theorem idxA_ok (site : String) (xs : Array α) (i : Nat) (h : i < xs.size) :
    idxA site xs i = .ok xs[i] := by
  unfold idxA
  rw [Array.getElem?_eq_getElem h]

theorem mkSlice_ok' (site : String) (n : Nat) (c : Cost) (h : n ≤ 65536) :
    mkSlice site n c = .ok (c.mem n) := by
  unfold mkSlice
  rw [if_neg (by omega)]

/-! ## `(*SimpleGlyph).Decode`: the loops -/

theorem endLoop_noPanic (buf : Bytes) (n : Nat) : ∀ (k i : Nat), 2 * (i + k) ≤ buf.length →
    i + k ≤ n → (endLoop buf n k i).noPanic
  | 0, _, _, _ => True.intro
  | k+1, i, h1, h2 => by
    unfold endLoop
    rw [idx_ok _ buf (2 * i) (by omega), ok_bind, idx_ok _ buf (2 * i + 1) (by omega), ok_bind,
      chk_ok _ _ _ (by omega), ok_bind]
    exact bind_noPanic (endLoop_noPanic buf n k (i + 1) (by omega) (by omega)) (fun _ _ => True.intro)

theorem endLoop_ok (buf : Bytes) (n : Nat) : ∀ (k i : Nat) (r : List Nat),
    endLoop buf n k i = .ok r → r.length = k ∧ ∀ v ∈ r, v < 65536
  | 0, _, r, h => by
    unfold endLoop at h
    cases h
    simp
  | k+1, i, r, h => by
    unfold endLoop at h
    obtain ⟨hi, _, h⟩ := bind_eq_ok h
    obtain ⟨lo, _, h⟩ := bind_eq_ok h
    obtain ⟨_, _, h⟩ := bind_eq_ok h
    obtain ⟨rest, hr, h⟩ := bind_eq_ok h
    cases h
    obtain ⟨hl, hv⟩ := endLoop_ok buf n k (i + 1) rest hr
    refine ⟨by simp [hl], ?_⟩
    intro v hv'
    rcases List.mem_cons.mp hv' with rfl | hm
    · unfold be
      have h1 := hi.toNat_lt
      have h2 := lo.toNat_lt
      omega
    · exact hv v hm

theorem repLoop_noPanic (np f : Nat) : ∀ (c i : Nat), (repLoop np f c i).noPanic
  | 0, _ => True.intro
  | c+1, i => by
    unfold repLoop
    split
    · rename_i h
      rw [chk_ok _ _ _ h, ok_bind]
      exact bind_noPanic (repLoop_noPanic np f c (i + 1)) (fun ⟨_, _⟩ _ => True.intro)
    · exact True.intro

theorem repLoop_ok (np f : Nat) : ∀ (c i : Nat) (r : List Nat) (i' : Nat),
    repLoop np f c i = .ok (r, i') → r.length ≤ c ∧ i' = i + r.length ∧ (i ≤ np → i' ≤ np)
  | 0, i, r, i', h => by
    unfold repLoop at h
    cases h
    simp
  | c+1, i, r, i', h => by
    unfold repLoop at h
    split at h
    · obtain ⟨_, _, h⟩ := bind_eq_ok h
      obtain ⟨⟨r0, i0⟩, h0, h⟩ := bind_eq_ok h
      cases h
      obtain ⟨a, b, d⟩ := repLoop_ok np f c (i + 1) _ _ h0
      simp only [List.length_cons]
      refine ⟨by omega, by omega, fun _ => d (by omega)⟩
    · cases h
      simp

theorem flagLoop_noPanic (np : Nat) : ∀ (fuel : Nat) (buf : Bytes) (i : Nat),
    (flagLoop np fuel buf i).noPanic
  | 0, _, _ => True.intro
  | fuel+1, buf, i => by
    unfold flagLoop
    split
    · rename_i hi
      split
      · exact True.intro
      · rw [idx_ok _ buf 0 (by omega), ok_bind, sliceFrom_ok _ buf 1 (by omega), ok_bind,
          chk_ok _ _ _ hi, ok_bind]
        dsimp only
        split
        · split
          · exact True.intro
          · rw [idx_ok _ _ 0 (by omega), ok_bind, sliceFrom_ok _ _ 1 (by omega), ok_bind]
            refine bind_noPanic (repLoop_noPanic _ _ _ _) (fun ⟨r, i'⟩ _ => ?_)
            exact bind_noPanic (flagLoop_noPanic np fuel _ _) (fun ⟨_, _, _, _⟩ _ => True.intro)
        · exact bind_noPanic (flagLoop_noPanic np fuel _ _) (fun ⟨_, _, _, _⟩ _ => True.intro)
    · exact True.intro

/-- what a successful flag loop delivers: `i` stays `≤ numPoints`, one flag per point, at most 3
steps per point, and at most 128 points per consumed byte (a repeat pair of 2 bytes stands for at
most 256 points) -/
theorem flagLoop_ok (np : Nat) : ∀ (fuel : Nat) (buf : Bytes) (i : Nat) (ff : List Nat) (b : Bytes)
    (i' s : Nat), flagLoop np fuel buf i = .ok (ff, b, i', s) → i ≤ np →
    i' ≤ np ∧ i' = i + ff.length ∧ s ≤ 3 * ff.length ∧ b.length ≤ buf.length ∧
      ff.length ≤ 128 * (buf.length - b.length)
  | 0, buf, i, ff, b, i', s, h, hi => by
    unfold flagLoop at h
    cases h
    simp
    exact hi
  | fuel+1, buf, i, ff, b, i', s, h, hi => by
    unfold flagLoop at h
    split at h
    · split at h
      · cases h
      · rename_i hlt hb
        rw [idx_ok _ buf 0 (by omega), ok_bind, sliceFrom_ok _ buf 1 (by omega), ok_bind,
          chk_ok _ _ _ hlt, ok_bind] at h
        dsimp only at h
        split at h
        · split at h
          · cases h
          · rename_i hb2
            have hl1 : (buf.drop 1).length = buf.length - 1 := List.length_drop
            rw [idx_ok _ _ 0 (by omega), ok_bind, sliceFrom_ok _ _ 1 (by omega), ok_bind] at h
            obtain ⟨⟨r, i1⟩, hr, h⟩ := bind_eq_ok h
            obtain ⟨⟨fs, b0, i2, s0⟩, hf, h⟩ := bind_eq_ok h
            cases h
            obtain ⟨r1, r2, r3⟩ := repLoop_ok _ _ _ _ _ _ hr
            have hc := ((buf.drop 1)[0]'(by omega)).toNat_lt
            obtain ⟨f1, f2, f3, f4, f5⟩ := flagLoop_ok np fuel _ _ _ _ _ _ hf (r3 (by omega))
            have hl2 : ((buf.drop 1).drop 1).length = buf.length - 2 := by
              rw [List.length_drop, List.length_drop]; omega
            rw [hl2] at f4 f5
            simp only [List.length_cons, List.length_append]
            refine ⟨f1, by omega, by omega, by omega, by omega⟩
        · obtain ⟨⟨fs, b0, i2, s0⟩, hf, h⟩ := bind_eq_ok h
          cases h
          have hl1 : (buf.drop 1).length = buf.length - 1 := List.length_drop
          obtain ⟨f1, f2, f3, f4, f5⟩ := flagLoop_ok np fuel _ _ _ _ _ _ hf (by omega)
          rw [hl1] at f4 f5
          simp only [List.length_cons]
          refine ⟨f1, by omega, by omega, by omega, by omega⟩
    · cases h
      simp
      exact hi

theorem coordStep_noPanic (st : CoordSites) (short same f : Nat) (buf : Bytes) (x : Int) :
    (coordStep st short same f buf x).noPanic := by
  unfold coordStep
  split
  · split
    · exact True.intro
    · rw [idx_ok _ buf 0 (by omega), ok_bind, sliceFrom_ok _ buf 1 (by omega), ok_bind]
      exact True.intro
  · split
    · split
      · exact True.intro
      · rw [idx_ok _ buf 0 (by omega), ok_bind, idx_ok _ buf 1 (by omega), ok_bind,
          sliceFrom_ok _ buf 2 (by omega), ok_bind]
        exact True.intro
    · exact True.intro

theorem coordStep_ok {st : CoordSites} {short same f : Nat} {buf : Bytes} {x x' : Int} {buf' : Bytes}
    {s : Nat} (h : coordStep st short same f buf x = .ok (x', buf', s)) : s ≤ 1 := by
  unfold coordStep at h
  split at h
  · split at h
    · cases h
    · obtain ⟨_, _, h⟩ := bind_eq_ok h
      obtain ⟨_, _, h⟩ := bind_eq_ok h
      cases h
      omega
  · split at h
    · split at h
      · cases h
      · obtain ⟨_, _, h⟩ := bind_eq_ok h
        obtain ⟨_, _, h⟩ := bind_eq_ok h
        obtain ⟨_, _, h⟩ := bind_eq_ok h
        cases h
        omega
    · cases h
      omega

theorem coordLoop_noPanic (st : CoordSites) (short same n : Nat) : ∀ (fs : List Nat) (i : Nat)
    (buf : Bytes) (x : Int), i + fs.length ≤ n → (coordLoop st short same n fs i buf x).noPanic
  | [], _, _, _, _ => True.intro
  | f :: fs, i, buf, x, h => by
    unfold coordLoop
    refine bind_noPanic (coordStep_noPanic _ _ _ _ _ _) (fun ⟨x', buf', s⟩ _ => ?_)
    dsimp only
    simp only [List.length_cons] at h
    rw [chk_ok _ _ _ (by omega), ok_bind]
    exact bind_noPanic (coordLoop_noPanic st short same n fs (i + 1) buf' x' (by omega))
      (fun ⟨_, _, _⟩ _ => True.intro)

theorem coordLoop_ok (st : CoordSites) (short same n : Nat) : ∀ (fs : List Nat) (i : Nat)
    (buf : Bytes) (x : Int) (xs : List Int) (r : Bytes) (s : Nat),
    coordLoop st short same n fs i buf x = .ok (xs, r, s) → xs.length = fs.length ∧ s ≤ 2 * fs.length
  | [], _, _, _, xs, r, s, h => by
    unfold coordLoop at h
    cases h
    simp
  | f :: fs, i, buf, x, xs, r, s, h => by
    unfold coordLoop at h
    obtain ⟨⟨x', buf', s1⟩, h1, h⟩ := bind_eq_ok h
    dsimp only at h
    obtain ⟨_, _, h⟩ := bind_eq_ok h
    obtain ⟨⟨xs0, r0, s0⟩, h0, h⟩ := bind_eq_ok h
    cases h
    have k1 := coordStep_ok h1
    obtain ⟨k2, k3⟩ := coordLoop_ok st short same n fs (i + 1) buf' x' xs0 r0 s0 h0
    simp only [List.length_cons]
    omega

theorem ptLoop_noPanic (xx yy : Array Int) (ff : Array Nat) (start len : Nat) : ∀ (k j : Nat),
    j + k ≤ xx.size → j + k ≤ yy.size → j + k ≤ ff.size → start ≤ j → j - start + k ≤ len →
    (ptLoop xx yy ff start len k j).noPanic
  | 0, _, _, _, _, _, _ => True.intro
  | k+1, j, h1, h2, h3, h4, h5 => by
    unfold ptLoop
    rw [idxA_ok _ xx j (by omega), ok_bind, idxA_ok _ yy j (by omega), ok_bind,
      idxA_ok _ ff j (by omega), ok_bind, chk_ok _ _ _ (by omega), ok_bind]
    exact bind_noPanic (ptLoop_noPanic xx yy ff start len k (j + 1) (by omega) (by omega) (by omega)
      (by omega) (by omega)) (fun _ _ => True.intro)

theorem contourLoop_noPanic (xx yy : Array Int) (ff : Array Nat) (endPts : List Nat) (np nc : Nat)
    (hx : np ≤ xx.size) (hy : np ≤ yy.size) (hf : np ≤ ff.size) (hnp : np ≤ 65536) :
    ∀ (k i start : Nat) (c : Cost), i + k ≤ endPts.length → i + k ≤ nc →
      (contourLoop xx yy ff endPts np nc k i start c).noPanic
  | 0, _, _, _, _, _ => True.intro
  | k+1, i, start, c, h1, h2 => by
    unfold contourLoop
    rw [idx_ok _ endPts i (by omega), ok_bind]
    dsimp only
    split
    · exact True.intro
    · rename_i hg
      rw [mkSlice_ok' _ _ _ (by omega), ok_bind]
      refine bind_noPanic (ptLoop_noPanic xx yy ff _ _ _ _ (by omega) (by omega) (by omega)
        (Nat.le_refl _) (by omega)) (fun pp _ => ?_)
      rw [chk_ok _ _ _ (by omega), ok_bind]
      exact bind_noPanic (contourLoop_noPanic xx yy ff endPts np nc hx hy hf hnp k (i + 1) _ _
        (by omega) (by omega)) (fun ⟨_, _⟩ _ => True.intro)

/-- cost of the contour loop: one step per contour and per point, one `Point` per point; the
contours are disjoint ranges below `numPoints` -/
theorem contourLoop_cost (xx yy : Array Int) (ff : Array Nat) (endPts : List Nat) (np nc : Nat) :
    ∀ (k i start : Nat) (c : Cost) (cs : List (List Point)) (c' : Cost),
      contourLoop xx yy ff endPts np nc k i start c = .ok (cs, c') → start ≤ np →
      c'.steps + start ≤ c.steps + k + np ∧ c'.alloc + start ≤ c.alloc + np
  | 0, _, _, c, cs, c', h, hs => by
    unfold contourLoop at h
    cases h
    omega
  | k+1, i, start, c, cs, c', h, hs => by
    unfold contourLoop at h
    obtain ⟨e, _, h⟩ := bind_eq_ok h
    dsimp only at h
    split at h
    · cases h
    · rename_i hg
      obtain ⟨c1, hc1, h⟩ := bind_eq_ok h
      have k1 : c1 = c.mem (e + 1 - start) := by
        unfold mkSlice at hc1
        split at hc1
        · cases hc1
        · cases hc1; rfl
      obtain ⟨pp, _, h⟩ := bind_eq_ok h
      obtain ⟨_, _, h⟩ := bind_eq_ok h
      obtain ⟨⟨cs0, c2⟩, h2, h⟩ := bind_eq_ok h
      cases h
      obtain ⟨a1, a2⟩ := contourLoop_cost xx yy ff endPts np nc k (i + 1) (e + 1) _ cs0 c2 h2 (by omega)
      subst k1
      simp only [Cost.tick, Cost.mem] at a1 a2
      dsimp only
      omega

/-! ## `(*SimpleGlyph).Decode` never panics -/

theorem mkSlice_eq {site : String} {n : Nat} {c c1 : Cost} (h : mkSlice site n c = .ok c1) :
    c1 = c.mem n := by
  unfold mkSlice at h
  split at h
  · cases h
  · cases h; rfl

/-- `numPoints` is at most 65536 -/
theorem numPoints_le {endPts : List Nat} {n np : Nat} (hel : endPts.length = n)
    (hev : ∀ v ∈ endPts, v < 65536)
    (hnp : (if n > 0 then do
        let e ← idx "simple.go:61#endPtsOfContours[numContours-1]" endPts (n - 1)
        pure (e + 1)
      else pure 0 : Outcome Nat) = .ok np) : np ≤ 65536 := by
  split at hnp
  · rw [idx_ok _ endPts _ (by omega), ok_bind] at hnp
    cases hnp
    have := hev _ (List.getElem_mem (l := endPts) (n := n - 1) (by omega))
    omega
  · cases hnp
    omega

theorem decodeI_noPanic (nc : Int) (enc : Bytes) (hnc : nc ≤ 32767) : (decodeI nc enc).noPanic := by
  unfold decodeI
  split
  · exact True.intro
  rename_i hg
  have hn : 2 * nc.toNat + 2 ≤ enc.length := by omega
  have hn2 : nc.toNat ≤ 32767 := by omega
  dsimp only
  rw [mkSlice_ok' _ _ _ (by omega), ok_bind]
  refine bind_noPanic (endLoop_noPanic enc _ _ 0 (by omega) (by omega)) (fun endPts hend => ?_)
  obtain ⟨hel, hev⟩ := endLoop_ok _ _ _ _ _ hend
  rw [sliceFrom_ok _ enc _ (by omega), ok_bind]
  refine bind_noPanic ?_ (fun np hnp => ?_)
  · split
    · rw [idx_ok _ endPts _ (by omega), ok_bind]
      exact True.intro
    · exact True.intro
  have hnp' : np ≤ 65536 := numPoints_le hel hev hnp
  have hdl : (enc.drop (2 * nc.toNat)).length = enc.length - 2 * nc.toNat := List.length_drop
  obtain ⟨il, hil, _⟩ := w16_ok "simple.go:64#buf[0],buf[1]" (enc.drop (2 * nc.toNat)) 0 (by omega)
  rw [hil, ok_bind]
  split
  · exact True.intro
  rw [slice_ok _ _ _ _ (by omega), ok_bind, sliceFrom_ok _ _ _ (by omega), ok_bind,
    mkSlice_ok' _ _ _ hnp', ok_bind]
  refine bind_noPanic (flagLoop_noPanic _ _ _ _) (fun ⟨ff, buf1, i, s⟩ hfl => ?_)
  dsimp only
  split
  · exact True.intro
  rename_i hi
  obtain ⟨_, f2, _, _, _⟩ := flagLoop_ok _ _ _ _ _ _ _ _ hfl (Nat.zero_le _)
  have hffl : ff.length = np := by omega
  rw [mkSlice_ok' _ _ _ hnp', ok_bind]
  refine bind_noPanic (coordLoop_noPanic _ _ _ _ _ _ _ _ (by omega)) (fun ⟨xx, buf2, s2⟩ hx => ?_)
  dsimp only
  rw [mkSlice_ok' _ _ _ hnp', ok_bind]
  refine bind_noPanic (coordLoop_noPanic _ _ _ _ _ _ _ _ (by omega)) (fun ⟨yy, buf3, s3⟩ hy => ?_)
  dsimp only
  rw [mkSlice_ok' _ _ _ (by omega), ok_bind]
  obtain ⟨hxl, _⟩ := coordLoop_ok _ _ _ _ _ _ _ _ _ _ _ hx
  obtain ⟨hyl, _⟩ := coordLoop_ok _ _ _ _ _ _ _ _ _ _ _ hy
  refine bind_noPanic (contourLoop_noPanic _ _ _ _ _ _ ?_ ?_ ?_ hnp' _ _ _ _ (by omega) (by omega))
    (fun ⟨_, _⟩ _ => True.intro)
  · rw [List.size_toArray]; omega
  · rw [List.size_toArray]; omega
  · rw [List.size_toArray]; omega

/-- FULL strength: for EVERY `SimpleGlyph` value (any `NumContours : int16`, any `Encoded` bytes —
not only those accepted by `removePadding`) `Decode` returns a value or an error -/
theorem decode_noPanic (nc : Int16) (buf : Bytes) : (decode nc buf).noPanic := by
  unfold decode
  have := Int16.toInt_lt nc
  exact decodeI_noPanic _ _ (by omega)

/-! ## cost of `(*SimpleGlyph).Decode` -/

/-- On success: at most `4·numContours + 8·numPoints + 1` steps and `2·numContours + 4·numPoints + 1`
allocated elements, where `2·numContours + 2 ≤ |buf|`, `numPoints ≤ 65536` AND
`numPoints ≤ 128·|buf|` (a repeat pair of two flag bytes stands for at most 256 points; coordinates
may take no bytes at all).  So both a bound with the cap 65536 and a linear bound with the (large)
constant 128 per byte hold. -/
theorem decodeI_cost (nc : Int) (enc : Bytes) (g : GlyphInfo) (c : Cost)
    (h : decodeI nc enc = .ok (g, c)) :
    (c.steps ≤ 2 * enc.length + 8 * 65536 + 1 ∧ c.alloc ≤ enc.length + 4 * 65536 + 1) ∧
    (c.steps ≤ 1026 * enc.length + 1 ∧ c.alloc ≤ 513 * enc.length + 1) := by
  unfold decodeI at h
  split at h
  · cases h
  rename_i hg
  have hn : 2 * nc.toNat + 2 ≤ enc.length := by omega
  dsimp only at h
  obtain ⟨c0, hc0, h⟩ := bind_eq_ok h
  have e0 := mkSlice_eq hc0
  obtain ⟨endPts, hend, h⟩ := bind_eq_ok h
  obtain ⟨hel, hev⟩ := endLoop_ok _ _ _ _ _ hend
  obtain ⟨buf0, hb0, h⟩ := bind_eq_ok h
  obtain ⟨np, hnp, h⟩ := bind_eq_ok h
  have hnp' : np ≤ 65536 := numPoints_le hel hev hnp
  obtain ⟨il, _, h⟩ := bind_eq_ok h
  split at h
  · cases h
  obtain ⟨instr, _, h⟩ := bind_eq_ok h
  obtain ⟨buf1, hb1, h⟩ := bind_eq_ok h
  obtain ⟨c1, hc1, h⟩ := bind_eq_ok h
  have e1 := mkSlice_eq hc1
  obtain ⟨⟨ff, buf2, i, s⟩, hfl, h⟩ := bind_eq_ok h
  dsimp only at h
  split at h
  · cases h
  rename_i hi
  obtain ⟨_, f2, f3, f4, f5⟩ := flagLoop_ok _ _ _ _ _ _ _ _ hfl (Nat.zero_le _)
  have hffl : ff.length = np := by omega
  obtain ⟨c2, hc2, h⟩ := bind_eq_ok h
  have e2 := mkSlice_eq hc2
  obtain ⟨⟨xx, buf3, sx⟩, hx, h⟩ := bind_eq_ok h
  dsimp only at h
  obtain ⟨c3, hc3, h⟩ := bind_eq_ok h
  have e3 := mkSlice_eq hc3
  obtain ⟨⟨yy, buf4, sy⟩, hy, h⟩ := bind_eq_ok h
  dsimp only at h
  obtain ⟨c4, hc4, h⟩ := bind_eq_ok h
  have e4 := mkSlice_eq hc4
  obtain ⟨⟨cc, c5⟩, hcl, h⟩ := bind_eq_ok h
  cases h
  obtain ⟨_, kx⟩ := coordLoop_ok _ _ _ _ _ _ _ _ _ _ _ hx
  obtain ⟨_, ky⟩ := coordLoop_ok _ _ _ _ _ _ _ _ _ _ _ hy
  obtain ⟨k1, k2⟩ := contourLoop_cost _ _ _ _ _ _ _ _ _ _ _ _ hcl (Nat.zero_le _)
  have hb1l : buf1.length ≤ enc.length := by
    unfold sliceFrom at hb0 hb1
    split at hb0
    · cases hb0
      split at hb1
      · cases hb1
        simp only [List.length_drop]
        omega
      · cases hb1
    · cases hb0
  subst e0 e1 e2 e3 e4
  simp only [Cost.tick, Cost.mem, Cost.zero] at k1 k2 ⊢
  omega

theorem decode_cost (nc : Int16) (buf : Bytes) (g : GlyphInfo) (c : Cost)
    (h : decode nc buf = .ok (g, c)) :
    (c.steps ≤ 2 * buf.length + 8 * 65536 + 1 ∧ c.alloc ≤ buf.length + 4 * 65536 + 1) ∧
    (c.steps ≤ 1026 * buf.length + 1 ∧ c.alloc ≤ 513 * buf.length + 1) :=
  decodeI_cost _ _ _ _ h

/-! ## `decodeGlyphComposite` -/

theorem compSkip_ge (fl : Nat) : 2 ≤ compSkip fl := by
  unfold compSkip
  split <;> omega

theorem compLoop_noPanic : ∀ (fuel : Nat) (data : Bytes) (wh : Bool) (c : Cost),
    (compLoop fuel data wh c).noPanic
  | 0, _, _, _ => True.intro
  | fuel+1, data, wh, c => by
    unfold compLoop
    split
    · exact True.intro
    obtain ⟨fl, hfl, _⟩ := w16_ok "composite.go:160#data[0],data[1]" data 0 (by omega)
    obtain ⟨gid, hgid, _⟩ := w16_ok "composite.go:161#data[2],data[3]" data 2 (by omega)
    rw [hfl, ok_bind, hgid, ok_bind, sliceFrom_ok _ data 4 (by omega), ok_bind]
    dsimp only
    split
    · exact True.intro
    rw [slice_ok _ _ 0 _ (by omega), ok_bind, sliceFrom_ok _ _ _ (by omega), ok_bind]
    split
    · exact bind_noPanic (compLoop_noPanic fuel _ _ _) (fun ⟨_, _, _, _⟩ _ => True.intro)
    · exact True.intro

/-- every component record read costs 3 steps and one allocation and consumes at least 6 bytes -/
theorem compLoop_cost : ∀ (fuel : Nat) (data : Bytes) (wh : Bool) (c : Cost) (cs : List Component)
    (rest : Bytes) (wh' : Bool) (c' : Cost), compLoop fuel data wh c = .ok (cs, rest, wh', c') →
    2 * c'.steps + rest.length ≤ 2 * c.steps + data.length ∧
    6 * c'.alloc + rest.length ≤ 6 * c.alloc + data.length ∧ c'.alloc = c.alloc + cs.length
  | 0, _, _, _, _, _, _, _, h => by
    unfold compLoop at h
    cases h
  | fuel+1, data, wh, c, cs, rest, wh', c', h => by
    unfold compLoop at h
    split at h
    · cases h
    obtain ⟨fl, _, h⟩ := bind_eq_ok h
    obtain ⟨gid, _, h⟩ := bind_eq_ok h
    obtain ⟨d4, hd4, h⟩ := bind_eq_ok h
    dsimp only at h
    split at h
    · cases h
    obtain ⟨args, _, h⟩ := bind_eq_ok h
    obtain ⟨d5, hd5, h⟩ := bind_eq_ok h
    have hsk := compSkip_ge fl
    have hl4 : d4.length = data.length - 4 := by
      unfold sliceFrom at hd4
      split at hd4
      · cases hd4; exact List.length_drop
      · cases hd4
    have hl5 : d5.length = d4.length - compSkip fl := by
      unfold sliceFrom at hd5
      split at hd5
      · cases hd5; exact List.length_drop
      · cases hd5
    split at h
    · obtain ⟨⟨cs0, r0, w0, c0⟩, h0, h⟩ := bind_eq_ok h
      cases h
      obtain ⟨a1, a2, a3⟩ := compLoop_cost fuel _ _ _ _ _ _ _ h0
      simp only [Cost.tick, Cost.mem, List.length_cons] at a1 a2 a3 ⊢
      omega
    · cases h
      simp only [Cost.tick, Cost.mem, List.length_cons, List.length_nil]
      refine ⟨by omega, by omega, trivial⟩

theorem decodeGlyphComposite_noPanic (data : Bytes) : (decodeGlyphComposite data).noPanic := by
  unfold decodeGlyphComposite
  refine bind_noPanic (compLoop_noPanic _ _ _ _) (fun ⟨cs, rest, wh, c⟩ _ => ?_)
  dsimp only
  split
  · rename_i hc
    have hl : 2 ≤ rest.length := by
      rw [Bool.and_eq_true] at hc
      exact of_decide_eq_true hc.2
    obtain ⟨L, hL, _⟩ := w16_ok "composite.go:197#data[0],data[1]" rest 0 (by omega)
    rw [hL, ok_bind, sliceFrom_ok _ rest 2 hl, ok_bind]
    refine bind_noPanic ?_ (fun _ _ => True.intro)
    split
    · rw [slice_ok _ _ 0 _ (by omega)]
      exact True.intro
    · exact True.intro
  · exact True.intro

/-- cost of `decodeGlyphComposite`: at most `|data|/2 + 1` steps and `|data|/6 + 1` allocated elements -/
theorem decodeGlyphComposite_cost (data : Bytes) (r : List Component × Option Bytes) (c : Cost)
    (h : decodeGlyphComposite data = .ok (r, c)) :
    2 * c.steps ≤ data.length + 2 ∧ 6 * c.alloc ≤ data.length + 6 ∧
      c.steps ≤ data.length + 1 ∧ c.alloc ≤ data.length + 1 ∧ r.1.length ≤ data.length / 6 := by
  unfold decodeGlyphComposite at h
  obtain ⟨⟨cs, rest, wh, c0⟩, h0, h⟩ := bind_eq_ok h
  obtain ⟨a1, a2, a3⟩ := compLoop_cost _ _ _ _ _ _ _ _ h0
  dsimp only at h
  simp only [Cost.zero] at a1 a2 a3
  split at h
  · obtain ⟨L, _, h⟩ := bind_eq_ok h
    obtain ⟨d2, _, h⟩ := bind_eq_ok h
    obtain ⟨d3, _, h⟩ := bind_eq_ok h
    cases h
    simp only [Cost.tick, Cost.mem]
    omega
  · cases h
    simp only [Cost.mem]
    omega

/-! ## `(*Glyph).Components` -/

theorem compIds_noPanic (n : Nat) : ∀ (cs : List Component) (i : Nat), i + cs.length ≤ n →
    (compIds n cs i).noPanic
  | [], _, _ => True.intro
  | cp :: cs, i, h => by
    unfold compIds
    simp only [List.length_cons] at h
    rw [chk_ok _ _ _ (by omega), ok_bind]
    exact bind_noPanic (compIds_noPanic n cs (i + 1) (by omega)) (fun _ _ => True.intro)

/-- `Components()` on a nil glyph, a simple glyph or a composite glyph returns; the only panic of
the function is the explicit `panic("unexpected glyph type")` for a `Data` field of a foreign
dynamic type, which `decodeGlyph` never stores.  (`make` of `len(d.Components)` ids: a Go slice of
32-byte component records has fewer than 2^47 elements.) -/
theorem components_noPanic (g : Option GData) (hty : g ≠ some .other)
    (hlen : ∀ cs ins, g = some (.composite cs ins) → cs.length < 2 ^ 47) : (components g).noPanic := by
  match g, hty, hlen with
  | none, _, _ => exact True.intro
  | some (.simple _ _), _, _ => exact True.intro
  | some .other, hty, _ => exact absurd rfl hty
  | some (.composite cs ins), _, hlen =>
    have hl := hlen cs ins rfl
    simp only [components, mkSlice]
    rw [if_neg (by omega), ok_bind]
    exact bind_noPanic (compIds_noPanic _ cs 0 (by omega)) (fun _ _ => True.intro)

/-- whatever `decodeGlyphComposite` returns for a glyph of fewer than 2^47 bytes is safe to hand to
`Components()` -/
theorem components_decoded_noPanic (data : Bytes) (cs : List Component) (ins : Option Bytes) (c : Cost)
    (h : decodeGlyphComposite data = .ok ((cs, ins), c)) (hd : data.length < 2 ^ 47) :
    (components (some (.composite cs ins))).noPanic := by
  have := (decodeGlyphComposite_cost data _ c h).2.2.2.2
  refine components_noPanic _ (by intro h; cases h) (fun cs' ins' he => ?_)
  cases he
  dsimp only at this
  omega

theorem compIds_length (n : Nat) : ∀ (cs : List Component) (i : Nat) (r : List Nat),
    compIds n cs i = .ok r → r.length = cs.length
  | [], _, r, h => by
    unfold compIds at h
    cases h
    rfl
  | cp :: cs, i, r, h => by
    unfold compIds at h
    obtain ⟨_, _, h⟩ := bind_eq_ok h
    obtain ⟨r0, h0, h⟩ := bind_eq_ok h
    cases h
    simp only [List.length_cons, compIds_length n cs (i + 1) r0 h0]

/-- cost of `Components()`: one step and one element per component -/
theorem components_cost (g : Option GData) (r : Option (List Nat)) (c : Cost)
    (h : components g = .ok (r, c)) :
    ∃ k, (∀ cs ins, g = some (.composite cs ins) → k = cs.length) ∧ c.steps ≤ k ∧ c.alloc ≤ k := by
  match g, h with
  | none, h => cases h; exact ⟨0, fun _ _ he => (by cases he), Nat.le_refl _, Nat.le_refl _⟩
  | some (.simple _ _), h => cases h; exact ⟨0, fun _ _ he => (by cases he), Nat.le_refl _, Nat.le_refl _⟩
  | some .other, h => cases h
  | some (.composite cs ins), h =>
    simp only [components] at h
    obtain ⟨c0, hc0, h⟩ := bind_eq_ok h
    have e0 := mkSlice_eq hc0
    obtain ⟨ids, _, h⟩ := bind_eq_ok h
    cases h
    subst e0
    refine ⟨cs.length, fun _ _ he => (by cases he; rfl), ?_, ?_⟩ <;>
      simp [Cost.tick, Cost.mem, Cost.zero]

/-! ## bridging to the value-level models of C11 (`SfntV.Glyf`) -/

/-- forget the cost; errors (and panics, of which there are none) become `none`, the convention of
the C11 models -/
def toOpt : Outcome (α × Cost) → Option α
  | .ok (a, _) => some a
  | _ => none

theorem w16_rd16 (site : String) (b : Bytes) (k : Nat) (h : k + 1 < b.length) :
    w16 site b k = .ok (Glyf.rd16 b k) := by
  unfold w16 Glyf.rd16
  rw [idx_ok _ b k (by omega), ok_bind, idx_ok _ b (k + 1) h, ok_bind,
    List.getElem?_eq_getElem (by omega : k < b.length), List.getElem?_eq_getElem h]
  rfl

/-- the component loops agree: same components, same remaining bytes, and the model's
`weHaveInstructions` accumulator is the C11 model's `any` over the components -/
theorem compLoop_bridge : ∀ (fuel : Nat) (data : Bytes) (wh : Bool) (c : Cost),
    match compLoop fuel data wh c, Glyf.compLoop fuel data with
    | .ok (cs, rest, wh', _), some (cs2, rest2) =>
      cs = cs2 ∧ rest = rest2 ∧ wh' = (wh || cs.any fun c => bit c.flags FlagWeHaveInstructions)
    | .err _, none => True
    | _, _ => False
  | 0, _, _, _ => by
    unfold compLoop Glyf.compLoop
    exact True.intro
  | fuel+1, data, wh, c => by
    unfold compLoop Glyf.compLoop
    by_cases h4 : data.length < 4
    · rw [if_pos h4, if_pos h4]
      exact True.intro
    rw [if_neg h4, if_neg h4, w16_rd16 _ data 0 (by omega), ok_bind, w16_rd16 _ data 2 (by omega),
      ok_bind, sliceFrom_ok _ data 4 (by omega), ok_bind]
    dsimp only
    by_cases hs : (data.drop 4).length < compSkip (Glyf.rd16 data 0)
    · rw [if_pos hs, if_pos hs]
      exact True.intro
    rw [if_neg hs, if_neg hs, slice_ok _ _ 0 _ (by omega), ok_bind, sliceFrom_ok _ _ _ (by omega), ok_bind]
    simp only [List.drop_zero, Nat.sub_zero]
    by_cases hm : bit (Glyf.rd16 data 0) FlagMoreComponents = true
    · rw [if_pos hm, if_pos hm]
      have ih := compLoop_bridge fuel ((data.drop 4).drop (compSkip (Glyf.rd16 data 0)))
        (wh || bit (Glyf.rd16 data 0) FlagWeHaveInstructions) ((c.tick 3).mem 1)
      revert ih
      cases compLoop fuel ((data.drop 4).drop (compSkip (Glyf.rd16 data 0)))
          (wh || bit (Glyf.rd16 data 0) FlagWeHaveInstructions) ((c.tick 3).mem 1) with
      | ok r =>
        obtain ⟨cs, rest, wh', c'⟩ := r
        cases Glyf.compLoop fuel ((data.drop 4).drop (compSkip (Glyf.rd16 data 0))) with
        | none => exact fun h => h
        | some p =>
          obtain ⟨cs2, rest2⟩ := p
          intro ⟨e1, e2, e3⟩
          subst e1 e2 e3
          rw [ok_bind]
          exact ⟨rfl, rfl, by simp [Bool.or_assoc]⟩
      | err e =>
        cases Glyf.compLoop fuel ((data.drop 4).drop (compSkip (Glyf.rd16 data 0))) with
        | none => exact fun h => h
        | some p => exact fun h => h
      | panic s =>
        cases Glyf.compLoop fuel ((data.drop 4).drop (compSkip (Glyf.rd16 data 0))) with
        | none => exact fun h => h
        | some p => exact fun h => h
    · rw [if_neg hm, if_neg hm]
      simp

/-- D_erase for `decodeGlyphComposite`: forgetting panic sites and costs gives the C11 model
`Glyf.decodeComposite` on EVERY input -/
theorem decodeGlyphComposite_erase (data : Bytes) :
    toOpt (decodeGlyphComposite data) = Glyf.decodeComposite data := by
  unfold decodeGlyphComposite Glyf.decodeComposite
  have hb := compLoop_bridge (data.length + 1) data false Cost.zero
  revert hb
  cases compLoop (data.length + 1) data false Cost.zero with
  | ok r =>
    obtain ⟨cs, rest, wh', c'⟩ := r
    cases Glyf.compLoop (data.length + 1) data with
    | none => exact fun h => h.elim
    | some p =>
      obtain ⟨cs2, rest2⟩ := p
      intro ⟨e1, e2, e3⟩
      subst e1 e2 e3
      rw [ok_bind]
      dsimp only
      rw [Bool.false_or]
      by_cases hc : (cs.any (fun c => bit c.flags FlagWeHaveInstructions) && decide (rest.length ≥ 2)) = true
      · rw [if_pos hc, if_pos hc]
        have hl : 2 ≤ rest.length := by
          rw [Bool.and_eq_true] at hc
          exact of_decide_eq_true hc.2
        rw [w16_rd16 _ rest 0 (by omega), ok_bind, sliceFrom_ok _ rest 2 hl, ok_bind]
        by_cases hL : (rest.drop 2).length > Glyf.rd16 rest 0
        · rw [if_pos hL, slice_ok _ _ 0 _ (by omega), ok_bind]
          simp [toOpt]
        · rw [if_neg hL]
          rw [List.take_of_length_le (by omega)]
          rfl
      · rw [if_neg hc, if_neg hc]
        rfl
  | err e =>
    cases Glyf.compLoop (data.length + 1) data with
    | none => exact fun _ => rfl
    | some p => exact fun h => h.elim
  | panic s =>
    cases Glyf.compLoop (data.length + 1) data with
    | none => exact fun h => h.elim
    | some p => exact fun h => h.elim

/-- D_erase for `Components()` -/
theorem compIds_eq (n : Nat) : ∀ (cs : List Component) (i : Nat), i + cs.length ≤ n →
    compIds n cs i = .ok (cs.map (·.gid))
  | [], _, _ => rfl
  | cp :: cs, i, h => by
    unfold compIds
    simp only [List.length_cons] at h
    rw [chk_ok _ _ _ (by omega), ok_bind, compIds_eq n cs (i + 1) (by omega)]
    rfl

/-- D_erase for `Components()` on a composite glyph: the ids the C11 model `Glyf.components` gives -/
theorem components_erase (llx lly urx ury : Nat) (cs : List Component) (ins : Option Bytes)
    (h : cs.length < 2 ^ 47) :
    toOpt (components (some (.composite cs ins))) =
      some (Glyf.components (some ⟨llx, lly, urx, ury, .composite cs ins⟩)) := by
  simp only [components, mkSlice]
  rw [if_neg (by omega), ok_bind, compIds_eq _ cs 0 (by omega), ok_bind]
  rfl

/-- nil and simple glyphs: `Components()` returns the nil slice, as in the C11 model -/
theorem components_erase_nil : toOpt (components none) = some (Glyf.components none) := rfl
theorem components_erase_simple (llx lly urx ury nc : Nat) (nc' : Int) (enc : Bytes) :
    toOpt (components (some (.simple nc' enc))) =
      some (Glyf.components (some ⟨llx, lly, urx, ury, .simple nc enc⟩)) := rfl

/-! ## non-vacuity -/

/-- a two-contour glyph (3 points; short/long/same coordinates, a repeat flag, one instruction byte) -/
example : decodeI 2 [0,1, 0,2, 0,1, 0xAA, 0x37, 0x09, 1, 5, 0,1, 0xff,0xfe, 6, 0,3, 0xff,0xfd] =
    .ok (⟨[[⟨5, 6, true⟩, ⟨6, 9, true⟩], [⟨4, 6, true⟩]], [0xAA]⟩, ⟨30, 17⟩) := by decide +kernel

example : decode 2 [0,1, 0,2, 0,1, 0xAA, 0x37, 0x09, 1, 5, 0,1, 0xff,0xfe, 6, 0,3, 0xff,0xfd] =
    .ok (⟨[[⟨5, 6, true⟩, ⟨6, 9, true⟩], [⟨4, 6, true⟩]], [0xAA]⟩, ⟨30, 17⟩) := by decide +kernel

/-- two components (word arguments + MORE_COMPONENTS + WE_HAVE_INSTRUCTIONS; byte arguments + scale)
and one instruction byte (the announced length 2 exceeds the single byte left) -/
example : decodeGlyphComposite [0x01,0x21, 0,5, 1,2,3,4,  0x00,0x08, 0,7, 1,2, 9,9,  0,2, 0xAB] =
    .ok (([⟨0x121, 5, [1,2,3,4]⟩, ⟨8, 7, [1,2,9,9]⟩], some [0xAB]), ⟨7, 3⟩) := by decide +kernel

example : components (some (.composite [⟨0x121, 5, [1,2,3,4]⟩, ⟨8, 7, [1,2,9,9]⟩] (some [0xAB]))) =
    .ok (some [5, 7], ⟨2, 2⟩) := by decide +kernel

/-- the explicit panic of `Components()` is reachable only with a foreign `Data` type -/
example : components (some .other) = .panic "composite.go:307#panic(\"unexpected glyph type\")" := rfl

end SfntV.Total.GlyfLazy
