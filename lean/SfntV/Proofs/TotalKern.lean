/-
C02: `kern.Read` (as repaired) never panics and does work linear in the size of the table
(model: Model/TotalKern.lean).
-/
import SfntV.Model.TotalKern

namespace SfntV.Total.Kern
open SfntV SfntV.Total

theorem idx_of_lt (site : String) (xs : List α) (i : Nat) (h : i < xs.length) :
    idx site xs i = .ok xs[i] := by
  unfold idx
  simp [h]

theorem w16_of_lt (site : String) (buf : Bytes) (i : Nat) (h : i + 1 < buf.length) :
    w16 site buf i = .ok (be (buf[i]'(by omega)) buf[i + 1]) := by
  unfold w16
  rw [idx_of_lt site buf i (by omega), idx_of_lt site buf (i + 1) h]
  rfl

theorem readBytes_ok_length (site : String) (b : Bytes) (pos n : Nat) (buf : Bytes)
    (h : readBytes site b pos n = .ok buf) : buf.length = n ∧ pos + n ≤ b.length := by
  unfold readBytes at h
  split at h
  · cases h
  · split at h
    · injection h with h
      subst h
      simp only [List.length_take, List.length_drop]
      omega
    · cases h

/-- a read of at most 1024 bytes never panics: I/O error, or exactly `n` bytes -/
theorem readBytes_cases (site : String) (b : Bytes) (pos n : Nat) (hn : n ≤ 1024) :
    readBytes site b pos n = .err "io" ∨
    ∃ buf, readBytes site b pos n = .ok buf ∧ buf.length = n ∧ pos + n ≤ b.length := by
  by_cases h : pos + n ≤ b.length
  · right
    have : readBytes site b pos n = .ok ((b.drop pos).take n) := by
      unfold readBytes
      simp [h, Nat.not_lt.mpr hn]
    exact ⟨_, this, readBytes_ok_length site b pos n _ this⟩
  · left
    unfold readBytes
    simp [h, Nat.not_lt.mpr hn]

/-- the pair loop: no panic; exactly `j` steps and at most `j` new map entries -/
theorem pairs_spec (b : Bytes) (mode : Mode) : ∀ j pos m c,
    (pairs b mode j pos m c).noPanic ∧
    ∀ m' c', pairs b mode j pos m c = .ok (m', c') →
      c'.steps = c.steps + j ∧ c'.alloc ≤ c.alloc + j := by
  intro j
  induction j with
  | zero =>
    intro pos m c
    refine ⟨trivial, ?_⟩
    intro m' c' h
    simp only [pairs] at h
    injection h with h
    injection h with h1 h2
    subst h2
    exact ⟨rfl, Nat.le_refl _⟩
  | succ j ih =>
    intro pos m c
    rcases readBytes_cases "kern.go:109#ReadBytes(6)" b pos 6 (by omega) with h | ⟨buf, h, hl, _⟩
    · simp [pairs, h, bind, Outcome.noPanic]
    · simp only [pairs, bind, h, w16_of_lt _ buf 0 (by omega), w16_of_lt _ buf 2 (by omega),
        w16_of_lt _ buf 4 (by omega)]
      generalize update m mode _ _ = u
      obtain ⟨m1, fresh⟩ := u
      have := ih (pos + 6) m1 ((c.tick).mem (if fresh then 1 else 0))
      refine ⟨this.1, ?_⟩
      intro m' c' hh
      have := this.2 m' c' hh
      simp only [Cost.tick, Cost.mem] at this
      split at this <;> omega

/-- the subtable loop: no panic; on success `iters` headers were read, `total' - total` pairs
were accepted, and both are bounded by the size of the input -/
theorem subtables_spec (b : Bytes) : ∀ fuel pos total m c,
    (subtables b fuel pos total m c).noPanic ∧
    ∀ m' c', subtables b fuel pos total m c = .ok (m', c') →
      ∃ iters total', total ≤ total' ∧ (6 * total' ≤ b.length ∨ total' = total) ∧
        (iters = 0 ∨ 14 * iters + pos ≤ b.length + 8) ∧
        c'.steps = c.steps + iters + (total' - total) ∧
        c'.alloc ≤ c.alloc + (total' - total) := by
  intro fuel
  induction fuel with
  | zero =>
    intro pos total m c
    refine ⟨trivial, ?_⟩
    intro m' c' h
    simp only [subtables] at h
    injection h with h
    injection h with h1 h2
    subst h2
    exact ⟨0, total, Nat.le_refl _, .inr rfl, .inl rfl, by omega, by omega⟩
  | succ fuel ih =>
    intro pos total m c
    rcases readBytes_cases "kern.go:68#ReadBytes(6)" b pos 6 (by omega) with h | ⟨buf, h, hl, hb⟩
    · simp [subtables, h, bind, Outcome.noPanic]
    · simp only [subtables, bind, h, w16_of_lt _ buf 0 (by omega), w16_of_lt _ buf 2 (by omega),
        idx_of_lt _ buf 4 (by omega), idx_of_lt _ buf 5 (by omega)]
      generalize be (buf[2]'(by omega)) (buf[2 + 1]'(by omega)) = len
      split
      · simp [Outcome.noPanic]
      · rename_i hlen
        split
        · have := ih (pos + len) total m c.tick
          refine ⟨this.1, ?_⟩
          intro m' c' hh
          obtain ⟨it, t', h1, h2, h3, h4, h5⟩ := this.2 m' c' hh
          refine ⟨it + 1, t', h1, h2, .inr ?_, ?_, ?_⟩
          · omega
          · simp only [Cost.tick] at h4; omega
          · simp only [Cost.tick] at h5; omega
        · generalize (if (buf[5]'(by omega)).toNat &&& 2 ≠ 0 then Mode.minimum
              else if (buf[5]'(by omega)).toNat &&& 8 ≠ 0 then Mode.override else Mode.add) = mode
          rcases readBytes_cases "kern.go:91#ReadUint16" b (pos + 6) 2 (by omega)
            with h' | ⟨nb, h', hl', _⟩
          · simp [h', Outcome.noPanic]
          · simp only [h', w16_of_lt _ nb 0 (by omega)]
            generalize be (nb[0]'(by omega)) (nb[0 + 1]'(by omega)) = nPairs
            split
            · simp [Outcome.noPanic]
            · rename_i htot
              have hp := pairs_spec b mode nPairs (pos + 14) m c.tick
              cases hpr : pairs b mode nPairs (pos + 14) m c.tick with
              | err e => simp [Outcome.noPanic]
              | panic s => rw [hpr] at hp; exact absurd hp.1 (by simp [Outcome.noPanic])
              | ok r =>
                obtain ⟨m1, c1⟩ := r
                obtain ⟨hs1, ha1⟩ := hp.2 m1 c1 hpr
                simp only [Cost.tick] at hs1 ha1
                have := ih (pos + len) (total + nPairs) m1 c1
                refine ⟨this.1, ?_⟩
                intro m' c' hh
                obtain ⟨it, t', h1, h2, h3, h4, h5⟩ := this.2 m' c' hh
                refine ⟨it + 1, t', by omega, .inl (by omega), .inr (by omega), by omega, by omega⟩

/-- what `read` returns, in all cases -/
theorem read_spec (b : Bytes) :
    (read b).noPanic ∧
    ∀ m c, read b = .ok (m, c) →
      4 ≤ b.length ∧ 84 * c.steps ≤ 20 * b.length + 192 ∧ 6 * c.alloc ≤ b.length + 6 := by
  unfold read
  rcases readBytes_cases "kern.go:43#ReadUint16" b 0 2 (by omega) with h | ⟨vb, h, hl, _⟩
  · simp [h, bind, Outcome.noPanic]
  · simp only [bind, h, w16_of_lt _ vb 0 (by omega)]
    split
    · simp [Outcome.noPanic]
    · rcases readBytes_cases "kern.go:54#ReadUint16" b 2 2 (by omega) with h' | ⟨nb, h', hl', hb'⟩
      · simp [h', Outcome.noPanic]
      · simp only [h', w16_of_lt _ nb 0 (by omega)]
        have := subtables_spec b (be (nb[0]'(by omega)) (nb[0 + 1]'(by omega))) 4 0 []
          (Cost.zero.tick 2 |>.mem 1)
        refine ⟨this.1, ?_⟩
        intro m c hh
        obtain ⟨it, t', h1, h2, h3, h4, h5⟩ := this.2 m c hh
        simp only [Cost.zero, Cost.tick, Cost.mem] at h4 h5
        refine ⟨by omega, ?_, ?_⟩ <;> omega

theorem read_noPanic (b : Bytes) : (read b).noPanic := (read_spec b).1

theorem read_cost (b : Bytes) (m : KMap) (c : Cost) (h : read b = .ok (m, c)) :
    c.steps ≤ b.length + 3 ∧ c.alloc ≤ b.length + 1 := by
  obtain ⟨h1, h2, h3⟩ := (read_spec b).2 m c h
  omega

/-- non-vacuity: version 0, one format-0 subtable with two pairs, read in 5 steps with
3 allocations (the map and two entries) -/
example : read [0,0, 0,1, 0,0, 0,26, 0,1, 0,2, 0,0,0,0,0,0, 0,1,0,2,0xFF,0xF6, 0,3,0,4,0,10]
    = .ok ([((1, 2), 65526), ((3, 4), 10)], ⟨5, 3⟩) := by decide +kernel

/-! ### The code before the repair: quadratic work (finding §9 #35) -/

/-- the pair loop succeeds when the input is long enough -/
theorem pairs_ok (b : Bytes) (mode : Mode) : ∀ j pos m c, pos + 6 * j ≤ b.length →
    ∃ m' c', pairs b mode j pos m c = .ok (m', c') := by
  intro j
  induction j with
  | zero => intro pos m c _; exact ⟨m, c, rfl⟩
  | succ j ih =>
    intro pos m c hlen
    rcases readBytes_cases "kern.go:109#ReadBytes(6)" b pos 6 (by omega) with h | ⟨buf, h, hl, _⟩
    · unfold readBytes at h
      simp [show pos + 6 ≤ b.length by omega] at h
    · simp only [pairs, bind, h, w16_of_lt _ buf 0 (by omega), w16_of_lt _ buf 2 (by omega),
        w16_of_lt _ buf 4 (by omega)]
      generalize update m mode _ _ = u
      obtain ⟨m1, fresh⟩ := u
      exact ih (pos + 6) m1 _ (by omega)

/-- a subtable header: version 0, length 14, format 0, coverage 1, `p` pairs -/
def hdr (p : Nat) : Bytes := [0,0,0,14,0,1] ++ be16 p ++ [0,0,0,0,0,0]

def body (p k : Nat) : Bytes := (List.replicate k (hdr p)).flatten

/-- adversarial input of length `4 + 28*n`: `n` subtables, each claiming `n` pairs that overlap
the following headers -/
def adv (n : Nat) : Bytes := [0,0] ++ be16 n ++ (List.replicate (2*n) (hdr n)).flatten

theorem body_succ (p k : Nat) : body p (k + 1) = hdr p ++ body p k := by
  simp [body, List.replicate_succ]

theorem hdr_length (p : Nat) : (hdr p).length = 14 := rfl

theorem body_length (p : Nat) : ∀ k, (body p k).length = 14 * k
  | 0 => rfl
  | k+1 => by rw [body_succ, List.length_append, body_length p k, hdr_length]; omega

theorem body_drop (p : Nat) : ∀ i k, i ≤ k → (body p k).drop (14 * i) = body p (k - i)
  | 0, k, _ => by simp
  | i+1, 0, h => by omega
  | i+1, k+1, h => by
    rw [body_succ, List.drop_append, hdr_length]
    have : List.drop (14 * (i + 1)) (hdr p) = [] := by
      apply List.drop_eq_nil_of_le; rw [hdr_length]; omega
    rw [this, List.nil_append, show 14 * (i + 1) - 14 = 14 * i by omega, body_drop p i k (by omega)]
    congr 1
    omega

theorem adv_length (n : Nat) : (adv n).length = 4 + 28 * n := by
  have := body_length n (2 * n)
  simp only [adv, body, List.length_append, be16, List.length_cons, List.length_nil] at this ⊢
  omega

theorem adv_drop (n i : Nat) (h : i < 2 * n) :
    (adv n).drop (4 + 14 * i) = hdr n ++ body n (2 * n - i - 1) := by
  have : adv n = [0, 0, UInt8.ofNat (n / 256 % 256), UInt8.ofNat (n % 256)] ++ body n (2 * n) := rfl
  rw [this, List.drop_append]
  simp only [List.length_cons, List.length_nil]
  rw [show 4 + 14 * i - (0 + 1 + 1 + 1 + 1) = 14 * i by omega, body_drop n i (2 * n) (by omega),
    show 2 * n - i = (2 * n - i - 1) + 1 by omega, body_succ,
    List.drop_eq_nil_of_le (by simp), List.nil_append, Nat.add_sub_cancel]

theorem be_be16 (n : Nat) (h : n < 65536) :
    be (UInt8.ofNat (n / 256 % 256)) (UInt8.ofNat (n % 256)) = n := by
  simp only [be, UInt8.toNat_ofNat']
  omega

theorem adv_hdr6 (site : String) (n i : Nat) (h : i < 2 * n) :
    readBytes site (adv n) (4 + 14 * i) 6 = .ok [0,0,0,14,0,1] := by
  unfold readBytes
  rw [adv_length, adv_drop n i h]
  simp only [show ¬ 6 > 1024 by omega, if_false, show 4 + 14 * i + 6 ≤ 4 + 28 * n by omega, if_true]
  rfl

theorem adv_np (site : String) (n i : Nat) (h : i < 2 * n) :
    readBytes site (adv n) (4 + 14 * i + 6) 2 = .ok (be16 n) := by
  unfold readBytes
  rw [adv_length, ← List.drop_drop, adv_drop n i h]
  simp only [show ¬ 2 > 1024 by omega, if_false, show 4 + 14 * i + 6 + 2 ≤ 4 + 28 * n by omega,
    if_true]
  rfl

/-- one round of the old subtable loop on a `hdr`-shaped header -/
theorem subtablesOld_step (b : Bytes) (k pos n : Nat) (m : KMap) (c : Cost) (hn : n < 65536)
    (h1 : readBytes "kern.go:68#ReadBytes(6)" b pos 6 = .ok [0,0,0,14,0,1])
    (h2 : readBytes "kern.go:91#ReadUint16" b (pos + 6) 2 = .ok (be16 n)) :
    subtablesOld b (k + 1) pos m c =
      (match pairs b Mode.add n (pos + 14) m c.tick with
       | .ok (m', c') => subtablesOld b k (pos + 14) m' c'
       | .err e => .err e
       | .panic s => .panic s) := by
  have e0 : w16 "kern.go:72#buf[0],buf[1]" [0,0,0,14,0,1] 0 = .ok 0 := rfl
  have e2 : w16 "kern.go:73#buf[2],buf[3]" [0,0,0,14,0,1] 2 = .ok 14 := rfl
  have e4 : idx "kern.go:74#buf[4]" ([0,0,0,14,0,1] : Bytes) 4 = .ok 0 := rfl
  have e5 : idx "kern.go:75#buf[5]" ([0,0,0,14,0,1] : Bytes) 5 = .ok 1 := rfl
  have en : w16 "kern.go:91#ReadUint16" (be16 n) 0 = .ok n := by
    rw [be16, w16_of_lt _ _ 0 (by simp)]
    exact congrArg Outcome.ok (be_be16 n hn)
  simp only [subtablesOld, bind, h1, h2, e0, e2, e4, e5, en]
  rw [if_neg (by decide), if_neg (by decide)]
  simp only [show ¬ ((1 : UInt8).toNat &&& 2 ≠ 0) by decide,
    show ¬ ((1 : UInt8).toNat &&& 8 ≠ 0) by decide, if_false]
  cases pairs b Mode.add n (pos + 14) m c.tick with
  | ok r => rfl
  | err e => rfl
  | panic s => rfl

theorem subtablesOld_adv (n : Nat) (hn : n < 65536) : ∀ k i m c, i + k ≤ n →
    ∃ m' c', subtablesOld (adv n) k (4 + 14 * i) m c = .ok (m', c') ∧
      c'.steps = c.steps + k + k * n := by
  intro k
  induction k with
  | zero => intro i m c _; exact ⟨m, c, rfl, by simp⟩
  | succ k ih =>
    intro i m c hik
    rw [subtablesOld_step (adv n) k (4 + 14 * i) n m c hn (adv_hdr6 _ n i (by omega))
      (adv_np _ n i (by omega))]
    obtain ⟨m1, c1, hp⟩ := pairs_ok (adv n) Mode.add n (4 + 14 * i + 14) m c.tick
      (by rw [adv_length]; omega)
    obtain ⟨hs, _⟩ := (pairs_spec (adv n) Mode.add n (4 + 14 * i + 14) m c.tick).2 m1 c1 hp
    simp only [hp]
    obtain ⟨m', c', hr, hc⟩ := ih (i + 1) m1 c1 (by omega)
    rw [show 4 + 14 * i + 14 = 4 + 14 * (i + 1) by omega]
    refine ⟨m', c', hr, ?_⟩
    simp only [Cost.tick] at hs
    rw [hc, hs, Nat.succ_mul]
    omega

/-- before the repair, an input of `4 + 28 n` bytes makes `kern.Read` do `n²` pair reads -/
theorem readOld_adv (n : Nat) (hn : n < 65536) :
    ∃ m c, readOld (adv n) = .ok (m, c) ∧ c.steps = 2 + n + n * n := by
  have r0 : readBytes "kern.go:43#ReadUint16" (adv n) 0 2 = .ok [0, 0] := by
    unfold readBytes
    rw [adv_length]
    simp only [show ¬ 2 > 1024 by omega, if_false, show 0 + 2 ≤ 4 + 28 * n by omega, if_true]
    rfl
  have r2 : readBytes "kern.go:54#ReadUint16" (adv n) 2 2 = .ok (be16 n) := by
    unfold readBytes
    rw [adv_length]
    simp only [show ¬ 2 > 1024 by omega, if_false, show 2 + 2 ≤ 4 + 28 * n by omega, if_true]
    rfl
  have e0 : w16 "kern.go:43#ReadUint16" [0, 0] 0 = .ok 0 := rfl
  have en : w16 "kern.go:54#ReadUint16" (be16 n) 0 = .ok n := by
    rw [be16, w16_of_lt _ _ 0 (by simp)]
    exact congrArg Outcome.ok (be_be16 n hn)
  obtain ⟨m, c, h, hc⟩ := subtablesOld_adv n hn n 0 [] (Cost.zero.tick 2 |>.mem 1) (by omega)
  refine ⟨m, c, ?_, ?_⟩
  · simp only [readOld, bind, r0, r2, e0, en]
    rw [if_neg (by decide)]
    exact h
  · simp only [Cost.zero, Cost.tick, Cost.mem] at hc
    omega

/-- no linear bound with these constants holds for the code before the repair -/
theorem readOld_cost_fails :
    ¬ ∀ b m c, readOld b = .ok (m, c) → c.steps ≤ 2000 * b.length + 2000 := by
  intro hall
  obtain ⟨m, c, h, hc⟩ := readOld_adv 60000 (by omega)
  have := hall _ m c h
  rw [adv_length] at this
  omega

end SfntV.Total.Kern
