/-
GPOS 2.2 (pair adjustment by glyph classes): decode ∘ encode = id up to the normal form of value
records, and the declared size is the emitted size, for the model of the repaired `Gpos2_2.encode` and of
`readGpos2_2`.
-/
import SfntV.Proofs.OtlGposMark
import SfntV.Proofs.OtlGdef

namespace SfntV.Otl.Cov

/-- `coverage.ReadSet` on the emitted words, whatever follows them -/
theorem readSetW_encodeW_append (gs : List Nat) (h : Valid gs) (tail : List Nat) :
    readSetW (encodeW gs ++ tail) = .ok gs := by
  have hb := total_bound gs h
  unfold encodeW
  split
  · rename_i hf
    simp only [fmt1Len, fmt2Len] at hf
    have hn : gs.length < 65536 := by omega
    rw [w16_of_lt hn]
    simp only [List.cons_append, readSetW]
    exact readSet1_spec tail gs
  · rename_i hf
    simp only [fmt1Len, fmt2Len, Nat.not_le] at hf
    have e : (4 + 6 * rangeCountFrom 65535 gs - 4) / 6 = rangeCountFrom 65535 gs := by omega
    simp only [fmt2Len, e]
    have hr : rangeCountFrom 65535 gs < 65536 := by omega
    rw [w16_of_lt hr]
    cases gs with
    | nil => simp [rangeCountFrom] at hf
    | cons g gs' =>
      have hg : g < 65536 := h.small g (by simp)
      have hlen : (ranges (g :: gs')).length = rangeCountFrom 65535 (g :: gs') :=
        ranges_length _ h.small
      have hd := rangeCount_first g gs' hg
      simp only [List.length_cons] at hb hf
      simp only [List.cons_append, readSetW]
      rw [← hlen]
      simp only [ranges]
      have := readSet2_rangesLoop tail gs' g 0 g 1 (-1) (Nat.le_refl g) (by omega) h.sorted
        (fun x hx => h.small x (by simp [hx])) hg (by omega) (by omega)
      rw [this]
      have e4 : g + 1 - g = 1 := by omega
      simp [e4]

end SfntV.Otl.Cov

namespace SfntV.Otl.GposMark
open SfntV SfntV.Otl SfntV.Otl.Gpos

/-- what a class definition table contributes: its bytes, their number, and what the reader makes of
them whatever follows -/
structure PartGood (c : ClassPart) (B : Bytes) (k : List (Nat × Nat)) : Prop where
  bytes : c.bytes = .ok B
  len : c.len = B.length
  read : ∀ tail, ClassDef.read (B ++ tail) = .ok k

/-- … which is what `classdef.Table.Append` / `AppendLen` give for a table with 16-bit glyph ids and
classes -/
theorem partGood_of_table (m : ClassDef.Tab) (hm : Gdef.ClassGood m) (B : Bytes)
    (hB : ClassDef.append m = .ok B) :
    ∃ k, PartGood ⟨ClassDef.append m, ClassDef.appendLen m⟩ B k ∧ ∀ g, ClassDef.classOf k g = ClassDef.get m g := by
  obtain ⟨hl, ws, es, rfl, hlt, hr, hc⟩ := Gdef.classPart_spec m hm B hB
  refine ⟨es, ⟨hB, hl.symm, ?_⟩, hc⟩
  intro tail
  unfold ClassDef.read
  rw [bytesToWords_append _ hlt]
  exact ClassDef.readW_append_of_ok _ _ _ hr

def maskPair (f1 f2 : Nat) (p : VR × VR) : VR × VR := (masked p.1 f1, masked p.2 f2)

def pairWords (f1 f2 : Nat) (p : VR × VR) : List Nat := vrWords p.1 f1 ++ vrWords p.2 f2

theorem readRecs22_spec (f1 f2 : Nat) (tail : List Nat) : ∀ (ps : List (VR × VR)),
    readRecs22 f1 f2 ps.length (ps.flatMap (pairWords f1 f2) ++ tail) = .ok (ps.map (maskPair f1 f2))
  | [] => rfl
  | p :: ps => by
    simp only [List.length_cons, List.flatMap_cons, pairWords, List.append_assoc, readRecs22, vrRead_spec,
      List.map_cons, maskPair]
    have := readRecs22_spec f1 f2 tail ps
    rw [this]

theorem pairWords_length (f1 f2 : Nat) (h1 : f1 < 256) (h2 : f2 < 256) : ∀ (ps : List (VR × VR)),
    (ps.flatMap (pairWords f1 f2)).length = ps.length * (popcount16 f1 + popcount16 f2)
  | [] => by simp
  | p :: ps => by
    simp only [List.flatMap_cons, List.length_append, pairWords, vrWords_length _ _ h1, vrWords_length _ _ h2,
      List.length_cons, Nat.succ_mul]
    have := pairWords_length f1 f2 h1 h2 ps
    omega

theorem pairWords_lt (f1 f2 : Nat) (ps : List (VR × VR)) (h : ∀ p ∈ ps, VROk p.1 ∧ VROk p.2) :
    ∀ w ∈ ps.flatMap (pairWords f1 f2), w < 65536 := by
  intro w hw
  rw [List.mem_flatMap] at hw
  obtain ⟨p, hp, hw⟩ := hw
  simp only [pairWords, List.mem_append] at hw
  rcases hw with hw | hw
  · exact vrWords_lt _ (h p hp).1 _ w hw
  · exact vrWords_lt _ (h p hp).2 _ w hw

theorem flatMap_rows {β} (g : (VR × VR) → List β) : ∀ (rows : List Row),
    (rows.flatMap fun r => r.flatMap g) = (rows.flatMap id).flatMap g
  | [] => rfl
  | r :: rows => by simp [flatMap_rows g rows]

theorem rows_flat_length (n2 : Nat) : ∀ (rows : List Row), (∀ r ∈ rows, r.length = n2) →
    (rows.flatMap id).length = rows.length * n2
  | [], _ => by simp
  | r :: rows, h => by
    simp only [List.flatMap_cons, id, List.length_append, List.length_cons, Nat.succ_mul,
      rows_flat_length n2 rows (fun r' hr' => h r' (by simp [hr'])), h r (by simp)]
    omega

theorem chunk_flat {α} (n2 : Nat) : ∀ (rows : List (List α)), (∀ r ∈ rows, r.length = n2) →
    chunk n2 rows.length (rows.flatMap id) = rows
  | [], _ => rfl
  | r :: rows, h => by
    have hr : r.length = n2 := h r (by simp)
    simp only [List.length_cons, chunk, List.flatMap_cons, id]
    rw [← hr, List.take_left, List.drop_left, hr,
      chunk_flat n2 rows (fun r' hr' => h r' (by simp [hr']))]

/-- **GPOS 2.2 round trip**: whenever the encoder returns bytes, the reader gives the coverage set, both
class definition tables and the class1 × class2 matrix back - every value record in the normal form
of the two formats chosen (`masked`) - and `encodeLen` is the number of bytes written -/
theorem roundtrip22 (cov : List Nat) (hcov : Cov.Valid cov) (c1 c2 : ClassPart) (B1 B2 : Bytes)
    (k1 k2 : List (Nat × Nat)) (g1 : PartGood c1 B1 k1) (g2 : PartGood c2 B2 k2) (rows : List Row)
    (hrows : ∀ r ∈ rows, r.length = class2Count rows)
    (hok : ∀ r ∈ rows, ∀ p ∈ r, VROk p.1 ∧ VROk p.2)
    (hn1 : rows.length < 65536) (hn2 : class2Count rows < 65536) (b : Bytes)
    (henc : encode22 cov c1 c2 rows = .ok b) :
    read22 b = .ok ⟨cov, k1, k2, rows.map fun r => r.map (maskPair (fmt1 rows) (fmt2 rows))⟩ ∧
    encodeLen22 cov c1 c2 rows = .ok b.length := by
  have hf1 : fmt1 rows < 256 := orFormat_lt _
  have hf2 : fmt2 rows < 256 := orFormat_lt _
  unfold encode22 at henc
  simp only [Cov.encodeLen_eq cov hcov, ← Cov.encodeW_length cov hcov, Cov.encode_eq cov hcov, g1.bytes,
    g2.bytes, g1.len] at henc
  split at henc
  · simp at henc
  rename_i hn
  split at henc
  · simp at henc
  rename_i hfit
  simp only [Outcome.ok.injEq] at henc
  generalize hF1 : fmt1 rows = f1 at *
  generalize hF2 : fmt2 rows = f2 at *
  generalize hN2 : class2Count rows = n2 at *
  have hflat := rows_flat_length n2 rows hrows
  have hRW : (rows.flatMap fun r => r.flatMap fun p => vrWords p.1 f1 ++ vrWords p.2 f2) =
      (rows.flatMap id).flatMap (pairWords f1 f2) := flatMap_rows (pairWords f1 f2) rows
  rw [hRW] at henc
  generalize hfl : rows.flatMap id = flat at *
  have hRWl := pairWords_length f1 f2 hf1 hf2 flat
  have hflok : ∀ p ∈ flat, VROk p.1 ∧ VROk p.2 := by
    intro p hp
    rw [← hfl, List.mem_flatMap] at hp
    obtain ⟨r, hr, hp⟩ := hp
    exact hok r hr p hp
  have hRWlt := pairWords_lt f1 f2 flat hflok
  -- the coverage offset in words
  have hcovOff : 16 + rows.length * n2 * (vrLen f1 + vrLen f2) = 2 * (8 + (flat.flatMap (pairWords f1 f2)).length) := by
    rw [hRWl, hflat]
    simp only [vrLen]
    rw [← Nat.mul_add 2, ← Nat.mul_assoc, Nat.mul_comm (rows.length * n2) 2, Nat.mul_assoc]
    omega
  generalize hRWg : flat.flatMap (pairWords f1 f2) = RW at *
  rw [hcovOff] at henc hfit
  have w1 : w16 (2 * (8 + RW.length)) = 2 * (8 + RW.length) := w16_of_lt (by omega)
  have w2 : w16 (2 * (8 + RW.length) + 2 * (Cov.encodeW cov).length) =
      2 * (8 + RW.length) + 2 * (Cov.encodeW cov).length := w16_of_lt (by omega)
  have w3 : w16 (2 * (8 + RW.length) + 2 * (Cov.encodeW cov).length + B1.length) =
      2 * (8 + RW.length) + 2 * (Cov.encodeW cov).length + B1.length := w16_of_lt (by omega)
  have w4 : w16 rows.length = rows.length := w16_of_lt hn1
  have w5 : w16 n2 = n2 := w16_of_lt hn2
  rw [w1, w2, w3, w4, w5] at henc
  generalize hH : [2, 2 * (8 + RW.length), f1, f2, 2 * (8 + RW.length) + 2 * (Cov.encodeW cov).length,
    2 * (8 + RW.length) + 2 * (Cov.encodeW cov).length + B1.length, rows.length, n2] = H at *
  have hHl : H.length = 8 := by rw [← hH]; rfl
  have hHlt : ∀ w ∈ H ++ RW, w < 65536 := by
    intro w hw
    rw [List.mem_append] at hw
    rcases hw with hw | hw
    · rw [← hH] at hw
      simp only [List.mem_cons, List.not_mem_nil, or_false] at hw
      rcases hw with rfl | rfl | rfl | rfl | rfl | rfl | rfl | rfl <;> omega
    · exact hRWlt w hw
  have hw : bytesToWords b = H ++ (RW ++ (Cov.encodeW cov ++ bytesToWords (B1 ++ B2))) := by
    rw [← henc, List.append_assoc, List.append_assoc, bytesToWords_append _ hHlt,
      bytesToWords_append _ (Cov.encodeW_lt cov hcov)]
    simp [List.append_assoc]
  have hd1 : b.drop (2 * (8 + RW.length)) = wordsToBytes (Cov.encodeW cov) ++ (B1 ++ B2) := by
    have : 2 * (8 + RW.length) = 2 * (H ++ RW).length := by rw [List.length_append, hHl]
    rw [← henc, this, List.append_assoc, List.append_assoc]
    exact drop_wordsToBytes_append _ _
  have hd2 : b.drop (2 * (8 + RW.length) + 2 * (Cov.encodeW cov).length) = B1 ++ B2 := by
    rw [← List.drop_drop, hd1, ← length_wordsToBytes]
    exact List.drop_left
  have hd3 : b.drop (2 * (8 + RW.length) + 2 * (Cov.encodeW cov).length + B1.length) = B2 ++ [] := by
    rw [← List.drop_drop, hd2, List.append_nil]
    exact List.drop_left
  refine ⟨?_, ?_⟩
  · unfold read22
    rw [hw, ← hH]
    simp only [List.cons_append, List.nil_append]
    rw [if_neg (by omega)]
    have hrecs := readRecs22_spec f1 f2 (Cov.encodeW cov ++ bytesToWords (B1 ++ B2)) flat
    rw [hflat, hRWg] at hrecs
    rw [hrecs]
    simp only [hd1, hd2, hd3, g1.read, g2.read]
    have : Cov.readSet (wordsToBytes (Cov.encodeW cov) ++ (B1 ++ B2)) = .ok cov := by
      unfold Cov.readSet
      rw [bytesToWords_append _ (Cov.encodeW_lt cov hcov)]
      exact Cov.readSetW_encodeW_append cov hcov _
    rw [this]
    simp only
    congr 2
    have hmapflat : flat.map (maskPair f1 f2) = (rows.map fun r => r.map (maskPair f1 f2)).flatMap id := by
      rw [← hfl]
      clear hrecs hw hd1 hd2 hd3 henc hflat hrows hok hn hn1 hflok hfl
      induction rows with
      | nil => rfl
      | cons r rows _ => simp
    rw [hmapflat]
    have := chunk_flat n2 (rows.map fun r => r.map (maskPair f1 f2)) (by
      intro r hr
      rw [List.mem_map] at hr
      obtain ⟨r0, hr0, rfl⟩ := hr
      rw [List.length_map]; exact hrows r0 hr0)
    rw [List.length_map] at this
    exact this
  · simp only [encodeLen22, Cov.encodeLen_eq cov hcov, ← Cov.encodeW_length cov hcov, hF1, hF2, hN2,
      hcovOff, g1.len, g2.len]
    rw [← henc]
    simp only [List.length_append, length_wordsToBytes, hHl]

end SfntV.Otl.GposMark
