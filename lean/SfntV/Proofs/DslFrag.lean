/-
C19 — fragments: a piece list the printer writes together with the parser function that reads
it back.  `Frag m ps r stop N` bundles what is needed to compose round trips: the pieces lex
(given that the rune after them satisfies `N`), their bytes decode canonically, and `m` run
on their items returns `r` (given that the item after them satisfies `stop`).
-/
import SfntV.Proofs.DslGlyphList

set_option linter.unusedSimpArgs false
set_option linter.unusedVariables false

namespace SfntV.Dsl

/-- number of items in the pieces -/
def tokCount : List Piece → Nat
  | [] => 0
  | .ws _ :: ps => tokCount ps
  | .tok _ _ :: ps => tokCount ps + 1

theorem mkToks_length (ps : List Piece) : ∀ line, (mkToks line ps).length = tokCount ps := by
  induction ps with
  | nil => intro line; rfl
  | cons p ps ih =>
    intro line
    cases p with
    | ws w => simp [mkToks, tokCount, ih]
    | tok typ val => simp [mkToks, tokCount, ih]

theorem tokCount_append (a b : List Piece) : tokCount (a ++ b) = tokCount a + tokCount b := by
  induction a with
  | nil => simp [tokCount]
  | cons p a ih => cases p <;> simp [tokCount, ih] <;> omega

structure Frag {α : Type} (m : PM α) (ps : List Piece) (r : α) (stop : Tok → Prop)
    (N : Option Nat → Prop) : Prop where
  chain : ∀ nx, N nx → ChainOk ps nx
  canon : ∀ rb ∈ render ps, Canon rb
  runs : ∀ line, Runs m (mkToks line ps) r stop

/-- a fragment whose result is not used -/
structure FragU {α : Type} (m : PM α) (ps : List Piece) (stop : Tok → Prop)
    (N : Option Nat → Prop) : Prop where
  chain : ∀ nx, N nx → ChainOk ps nx
  canon : ∀ rb ∈ render ps, Canon rb
  runs : ∀ line, ∃ r, Runs m (mkToks line ps) r stop

abbrev anyNext : Option Nat → Prop := fun _ => True

theorem Frag.toU {α : Type} {m : PM α} {ps : List Piece} {r : α} {P : Tok → Prop} {N : Option Nat → Prop}
    (h : Frag m ps r P N) : FragU m ps P N := ⟨h.chain, h.canon, fun line => ⟨r, h.runs line⟩⟩

theorem frag_weaken {α : Type} {m : PM α} {ps : List Piece} {r : α} {P Q : Tok → Prop}
    {N M : Option Nat → Prop} (h : Frag m ps r P N) (hq : ∀ t, Q t → P t) (hm : ∀ nx, M nx → N nx) :
    Frag m ps r Q M :=
  ⟨fun nx hn => h.chain nx (hm nx hn), h.canon, fun line => runs_weaken (h.runs line) hq⟩

theorem frag_pure {α : Type} (a : α) (P : Tok → Prop) : Frag (pure a : PM α) [] a P anyNext :=
  ⟨fun _ _ => trivial, by simp [render], fun _ => runs_pure a P⟩

theorem frag_bind {α β : Type} {m : PM α} {f : α → PM β} {a b : List Piece} {x : α} {y : β}
    {P1 P : Tok → Prop} {N1 N : Option Nat → Prop}
    (ha : Frag m a x P1 N1) (hb : Frag (f x) b y P N)
    (hN : ∀ nx, N nx → N1 (nextRune b nx))
    (hP : ∀ line t, P t → P1 ((mkToks line b).head?.getD t)) : Frag (m >>= f) (a ++ b) y P N := by
  refine ⟨?_, ?_, ?_⟩
  · intro nx hn
    exact chain_append a b nx (ha.chain _ (hN nx hn)) (hb.chain nx hn)
  · intro rb hrb
    rw [render_append, List.mem_append] at hrb
    rcases hrb with h | h
    · exact ha.canon rb h
    · exact hb.canon rb h
  · intro line
    rw [mkToks_append]
    exact runs_bind (ha.runs line) (hb.runs _) (hP _)

theorem frag_then {α β : Type} {m : PM α} {k : PM β} {a b : List Piece} {y : β}
    {P1 P : Tok → Prop} {N1 N : Option Nat → Prop}
    (ha : FragU m a P1 N1) (hb : Frag k b y P N)
    (hN : ∀ nx, N nx → N1 (nextRune b nx))
    (hP : ∀ line t, P t → P1 ((mkToks line b).head?.getD t)) :
    Frag (m >>= fun _ => k) (a ++ b) y P N := by
  refine ⟨?_, ?_, ?_⟩
  · intro nx hn
    exact chain_append a b nx (ha.chain _ (hN nx hn)) (hb.chain nx hn)
  · intro rb hrb
    rw [render_append, List.mem_append] at hrb
    rcases hrb with h | h
    · exact ha.canon rb h
    · exact hb.canon rb h
  · intro line
    rw [mkToks_append]
    obtain ⟨r, hr⟩ := ha.runs line
    exact runs_bind hr (hb.runs _) (hP _)

/-- blanks in front of a fragment -/
theorem frag_ws {α : Type} {m : PM α} {ps : List Piece} {r : α} {P : Tok → Prop} {N : Option Nat → Prop}
    (w : List RB) (hw : ∀ c ∈ w, wsChar c = true ∧ Canon c) (h : Frag m ps r P N) :
    Frag m (.ws w :: ps) r P N := by
  refine ⟨fun nx hn => ⟨fun c hc => (hw c hc).1, h.chain nx hn⟩, ?_, fun line => h.runs line⟩
  intro rb hrb
  rw [render_cons, List.mem_append] at hrb
  rcases hrb with hrb | hrb
  · exact (hw rb hrb).2
  · exact h.canon rb hrb

theorem ws_sp : ∀ c ∈ [a1 32], wsChar c = true ∧ Canon c := by
  intro c hc; simp at hc; subst hc; exact ⟨by decide, canon_ascii 32 (by decide)⟩
theorem ws_tab : ∀ c ∈ [a1 9], wsChar c = true ∧ Canon c := by
  intro c hc; simp at hc; subst hc; exact ⟨by decide, canon_ascii 9 (by decide)⟩

/-- one lexeme read by `required` -/
theorem fragU_required (typ : Nat) (val : List RB) (N : Option Nat → Prop)
    (hok : ∀ nx, N nx → TokOk typ val nx) (hc : ∀ rb ∈ val, Canon rb) :
    FragU (required typ) [.tok typ val] anyTok N := by
  refine ⟨fun nx hn => ⟨hok _ hn, trivial⟩, by simpa [render, Piece.rbs] using hc, fun line => ?_⟩
  exact ⟨_, by simpa [mkToks] using runs_required { typ := typ, val := val, line := line } typ rfl⟩

theorem frag_optional_yes (types : List Nat) (typ : Nat) (val : List RB) (N : Option Nat → Prop)
    (ht : types.contains typ = true) (hok : ∀ nx, N nx → TokOk typ val nx) (hc : ∀ rb ∈ val, Canon rb) :
    Frag (optional types) [.tok typ val] true anyTok N := by
  refine ⟨fun nx hn => ⟨hok _ hn, trivial⟩, by simpa [render, Piece.rbs] using hc, fun line => ?_⟩
  simpa [mkToks] using runs_optional_yes { typ := typ, val := val, line := line } types ht

theorem frag_optional_no (types : List Nat) :
    Frag (optional types) [] false (fun t => types.contains t.typ = false) anyNext :=
  ⟨fun _ _ => trivial, by simp [render], fun _ => runs_optional_no types⟩

theorem frag_readItem_then {β : Type} (typ : Nat) (val : List RB) (k : Tok → PM β) (b : List Piece) (y : β)
    (P : Tok → Prop) (N N1 : Option Nat → Prop)
    (hok : ∀ nx, N1 nx → TokOk typ val nx) (hc : ∀ rb ∈ val, Canon rb)
    (hb : ∀ line, Frag (k { typ := typ, val := val, line := line }) b y P N)
    (hN : ∀ nx, N nx → N1 (nextRune b nx)) :
    Frag (readItem >>= k) (.tok typ val :: b) y P N := by
  refine ⟨?_, ?_, ?_⟩
  · intro nx hn
    exact ⟨hok _ (hN nx hn), (hb 0).chain nx hn⟩
  · intro rb hrb
    rw [render_cons, List.mem_append] at hrb
    rcases hrb with h | h
    · exact hc rb h
    · exact (hb 0).canon rb h
  · intro line
    have := runs_bind (runs_readItem { typ := typ, val := val, line := line }) ((hb line).runs (nextLine typ line))
      (fun t _ => trivial)
    simpa [mkToks] using this

/-- the glyph list fragment -/
theorem frag_glyphList (f : Font) (hf : FontOk f) (gl : List Nat) (hgl : ∀ g ∈ gl, g < f.numGlyphs)
    (fuel : Nat) (hfuel : tokCount ((newExplainer f).writeGlyphList gl) < fuel) :
    Frag (readGlyphList f fuel) ((newExplainer f).writeGlyphList gl) gl
      (fun t => glyphItem f t = false) Safe := by
  obtain ⟨qs, hps, hgs, hq⟩ := writeGlyphList_pieces f hf gl hgl
  obtain ⟨hchain, htoks, hcan⟩ := glyphPieces_facts f qs hq
  rw [← hps] at hchain htoks hcan
  refine ⟨hchain, hcan, ?_⟩
  intro line
  obtain ⟨items, e1, e2, e3, _⟩ := htoks line
  have hl : items.length < fuel := by
    have := mkToks_length ((newExplainer f).writeGlyphList gl) line
    rw [e1] at this
    simp at this
    omega
  have := glyph_loop f items fuel [] hl e3
  rw [e1]
  unfold readGlyphList
  simpa [e2, hgs] using this

/-- a single glyph written by `writeGlyph`, read by `readGlyphList` -/
theorem frag_glyph (f : Font) (hf : FontOk f) (g : Nat) (hg : g < f.numGlyphs) (fuel : Nat) (hfuel : 1 < fuel) :
    Frag (readGlyphList f fuel) [(newExplainer f).writeGlyph g] [g] (fun t => glyphItem f t = false) Safe := by
  have := frag_glyphList f hf [g] (by intro x hx; simp at hx; subst hx; exact hg) fuel (by
    simp [Explainer.writeGlyphList]
    obtain ⟨⟨typ, val, hp, _, _⟩, _⟩ := writeGlyph_piece f hf g hg
    rw [hp]; simp [tokCount]; omega)
  simpa [Explainer.writeGlyphList] using this

end SfntV.Dsl
