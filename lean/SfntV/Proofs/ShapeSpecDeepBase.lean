/-
C06, contextual lookups nested to any depth: definitions shared by the proofs.  Everything is
indexed by the nesting depth `d` of a match; the tags of the other depths are payload.
-/
import SfntV.Proofs.ShapeSpecMergeBase

namespace SfntV.C06
open SfntV
open SfntV.Shape (Glyph Gdef Lookup LookupList Subtable Action Nested)
open SfntV.Spec.Shape (TG gl inputPositions windowEnd)

/-- the glyph carries no tag of depth `d` -/
def OutD (d : Nat) (t : TG) : Prop := t.hasWin d = false ∧ t.hasInp d = false

/-- The buffer seen from the match at depth `d`: a prefix of length `a` without tags of depth `d`,
the window `A` whose glyphs all carry the window tag `d`, a suffix without tags of depth `d`. -/
structure FormD (d a : Nat) (P A D ts : List TG) : Prop where
  eq : ts = P ++ A ++ D
  len : P.length = a
  outP : ∀ x ∈ P, OutD d x
  inA : ∀ x ∈ A, x.hasWin d = true
  outD : ∀ x ∈ D, OutD d x

/-- the depth-`d` tag flags of a buffer, position by position -/
def flagsD (d : Nat) (ts : List TG) : List (Bool × Bool) := ts.map fun t => (t.hasInp d, t.hasWin d)

/-- the same tags (of all depths) -/
def SameTags (c c' : TG) : Prop := c'.inp = c.inp ∧ c'.win = c.win

/-- the stack entry of the match at depth `d` that corresponds to the tagged buffer -/
def entryD (d : Nat) (ts : List TG) (acts : List Action) : Nested :=
  ⟨(inputPositions d ts).map Int.ofNat, acts, ((windowEnd d ts : Nat) : Int)⟩

end SfntV.C06
