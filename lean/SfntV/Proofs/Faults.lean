/-
Lemmas for property C18: the write loops against failing destinations.
-/
import SfntV.Model.Faults
import SfntV.Proofs.Header

namespace SfntV.Faults
open SfntV SfntV.Header

/-! ## destinations -/

theorem shortW_honest (k : Nat) : (shortW k).Honest := by
  intro s len
  simp only [shortW, decide_eq_false_iff_not]
  omega

theorem atomicW_honest (k : Nat) : (atomicW k).Honest := by
  intro s len
  simp only [atomicW]
  split <;> simp

theorem lateW_honest (k : Nat) : (lateW k).Honest := by
  intro s len
  simp [lateW]

theorem shortW_step (k acc len : Nat) : (shortW k).step acc len =
    (min len (k - acc), decide (min len (k - acc) < len), acc + min len (k - acc)) := rfl

theorem atomicW_step (k acc len : Nat) : (atomicW k).step acc len =
    if acc + len ≤ k then (len, false, acc + len) else (0, true, acc) := rfl

/-- a destination whose state is the number of bytes offered so far and which reports an
error exactly for the call that crosses `k` -/
def FailsAt (k : Nat) (d : Dest Nat) : Prop :=
  ∀ acc len, acc ≤ k →
    ((d.step acc len).2.1 = true ↔ k < acc + len) ∧
    ((d.step acc len).2.1 = false → (d.step acc len).2.2 = acc + len)

theorem shortW_failsAt (k : Nat) : FailsAt k (shortW k) := by
  intro acc len h
  simp only [shortW, decide_eq_true_eq, decide_eq_false_iff_not]
  omega

theorem atomicW_failsAt (k : Nat) : FailsAt k (atomicW k) := by
  intro acc len h
  simp only [atomicW]
  split <;> simp <;> omega

theorem lateW_failsAt (k : Nat) : FailsAt k (lateW k) := by
  intro acc len h
  simp [lateW]

/-! ## the loop over lengths is the loop over bytes -/

theorem length_padOf (n : Nat) : (padOf n).length = 4 - n % 4 := by simp [padOf]

theorem countBodies_eq (d : Dest σ) : ∀ (bodies : List Bytes) (s : σ),
    countBodies d s (bodies.map List.length) = ((bodiesTo d s bodies).n, (bodiesTo d s bodies).err) := by
  intro bodies
  induction bodies with
  | nil => intro s; rfl
  | cons b rest ih =>
    intro s
    simp only [List.map_cons, countBodies, bodiesTo, length_padOf]
    split
    · rfl
    · split
      · split
        · rfl
        · rw [ih]; simp [Res.pre]
      · rw [ih]; simp [Res.pre]

theorem countTo_eq (d : Dest σ) (s : σ) (hdr : Bytes) (bodies : List Bytes) :
    countTo d s hdr.length (bodies.map List.length) =
      ((writeTo d s hdr bodies).n, (writeTo d s hdr bodies).err) := by
  simp only [countTo, writeTo]
  split
  · rfl
  · rw [countBodies_eq]; simp [Res.pre]

theorem sectionsErr_eq (d : Dest σ) : ∀ (bodies : List Bytes) (s : σ),
    sectionsErr d s (bodies.map List.length) = (sectionsTo d s bodies).1 := by
  intro bodies
  induction bodies with
  | nil => intro s; rfl
  | cons b rest ih =>
    intro s
    simp only [List.map_cons, sectionsErr, sectionsTo]
    split
    · rfl
    · rw [ih]

/-! ## honest destinations: the count is what was taken, and what was taken is a prefix -/

def flatB (bodies : List Bytes) : Bytes := bodies.flatMap pad4

/-- what a result must satisfy with respect to the complete output `all` -/
structure Res.Good (r : Res) (all : Bytes) : Prop where
  count : r.n = r.out.length
  pref : ∃ rest, all = r.out ++ rest ∧ (r.err = false → rest = [])

theorem Res.Good.pre {r : Res} {all : Bytes} (h : r.Good all) (b : Bytes) :
    (r.pre b.length b).Good (b ++ all) := by
  obtain ⟨hc, rest, he, hr⟩ := h
  refine ⟨by simp [Res.pre, hc], rest, ?_, hr⟩
  simp [Res.pre, he]

theorem pad4_of_rem (b : Bytes) (h : b.length % 4 ≠ 0) : pad4 b = b ++ padOf b.length := by
  simp only [pad4, padOf, padLen]
  congr 2
  omega

theorem pad4_of_aligned (b : Bytes) (h : ¬ b.length % 4 ≠ 0) : pad4 b = b := by
  simp only [pad4, padLen]
  have : (4 - b.length % 4) % 4 = 0 := by omega
  rw [this]; simp

theorem bodiesTo_good (d : Dest σ) (hd : d.Honest) : ∀ (bodies : List Bytes) (s : σ),
    (bodiesTo d s bodies).Good (flatB bodies) := by
  intro bodies
  induction bodies with
  | nil => intro s; exact ⟨rfl, [], rfl, fun _ => rfl⟩
  | cons b rest ih =>
    intro s
    have h1 := hd s b.length
    simp only [bodiesTo, flatB, List.flatMap_cons]
    split
    · -- the body write fails
      refine ⟨by simp only [List.length_take]; omega, b.drop (d.step s b.length).1 ++
        (List.replicate (padLen b.length) 0 ++ rest.flatMap pad4), ?_, fun h => by cases h⟩
      have e : pad4 b = b.take (d.step s b.length).1 ++ (b.drop (d.step s b.length).1 ++
          List.replicate (padLen b.length) 0) := by
        rw [← List.append_assoc, List.take_append_drop]; rfl
      rw [e]; simp only [List.append_assoc]
    · rename_i he
      have hn : (d.step s b.length).1 = b.length := h1.2 (by simpa using he)
      rw [hn, List.take_length]
      split
      · rename_i hrem
        have h2 := hd (d.step s b.length).2.2 (padOf b.length).length
        rw [pad4_of_rem b hrem]
        split
        · -- the padding write fails
          refine ⟨by simp only [List.length_append, List.length_take]; omega,
            (padOf b.length).drop (d.step (d.step s b.length).2.2 (padOf b.length).length).1 ++
              rest.flatMap pad4, ?_, fun h => by cases h⟩
          simp only [List.append_assoc]
          rw [← List.append_assoc (List.take _ _), List.take_append_drop]
        · rename_i he2
          have hq : (d.step (d.step s b.length).2.2 (padOf b.length).length).1 = (padOf b.length).length :=
            h2.2 (by simpa using he2)
          rw [hq, List.take_length]
          have := (ih (d.step (d.step s b.length).2.2 (padOf b.length).length).2.2).pre (b ++ padOf b.length)
          simpa [List.length_append, flatB] using this
      · rename_i hrem
        rw [pad4_of_aligned b hrem]
        exact (ih (d.step s b.length).2.2).pre b

theorem writeTo_good (d : Dest σ) (hd : d.Honest) (s : σ) (hdr : Bytes) (bodies : List Bytes) :
    (writeTo d s hdr bodies).Good (hdr ++ flatB bodies) := by
  have h1 := hd s hdr.length
  simp only [writeTo]
  split
  · refine ⟨by simp only [List.length_take]; omega,
      hdr.drop (d.step s hdr.length).1 ++ flatB bodies, ?_, fun h => by cases h⟩
    rw [← List.append_assoc, List.take_append_drop]
  · rename_i he
    have hn : (d.step s hdr.length).1 = hdr.length := h1.2 (by simpa using he)
    rw [hn, List.take_length]
    exact (bodiesTo_good d hd bodies _).pre hdr

theorem sectionsTo_good (d : Dest σ) (hd : d.Honest) : ∀ (bodies : List Bytes) (s : σ),
    ∃ rest, bodies.flatten = (sectionsTo d s bodies).2 ++ rest ∧
      ((sectionsTo d s bodies).1 = false → rest = []) := by
  intro bodies
  induction bodies with
  | nil => intro s; exact ⟨[], rfl, fun _ => rfl⟩
  | cons b rest ih =>
    intro s
    have h1 := hd s b.length
    simp only [sectionsTo, List.flatten_cons]
    split
    · refine ⟨b.drop (d.step s b.length).1 ++ rest.flatten, ?_, fun h => by cases h⟩
      rw [← List.append_assoc, List.take_append_drop]
    · rename_i he
      have hn : (d.step s b.length).1 = b.length := h1.2 (by simpa using he)
      obtain ⟨r, hr, hr0⟩ := ih (d.step s b.length).2.2
      refine ⟨r, ?_, hr0⟩
      simp only [hn, List.take_length, List.append_assoc, hr]

/-- consequences in the `take` form -/
theorem Res.Good.take {r : Res} {all : Bytes} (h : r.Good all) :
    r.out = all.take r.n ∧ r.n ≤ all.length ∧ (r.err = false → r.out = all ∧ r.n = all.length) := by
  obtain ⟨hc, rest, he, hr⟩ := h
  refine ⟨?_, ?_, ?_⟩
  · rw [he, hc, List.take_left]
  · rw [he, hc, List.length_append]; omega
  · intro h0
    have := hr h0
    subst this
    simp only [List.append_nil] at he
    exact ⟨he.symm, by rw [hc, he]⟩

/-! ## destinations failing at `k`: an error exactly when the file does not fit -/

def padded (l : Nat) : Nat := 4 * ((l + 3) / 4)

def sumPadded (lens : List Nat) : Nat := (lens.map padded).sum

theorem sumPadded_cons (b : Nat) (rest : List Nat) : sumPadded (b :: rest) = padded b + sumPadded rest := by
  simp [sumPadded]

theorem countBodies_failsAt (k : Nat) (d : Dest Nat) (hd : d.Honest) (hf : FailsAt k d) :
    ∀ (lens : List Nat) (acc : Nat), acc ≤ k →
      ((countBodies d acc lens).2 = true ↔ k < acc + sumPadded lens) ∧
      ((countBodies d acc lens).2 = false → (countBodies d acc lens).1 = sumPadded lens) := by
  intro lens
  induction lens with
  | nil => intro acc h; simpa [countBodies, sumPadded] using h
  | cons b rest ih =>
    intro acc hacc
    have h1 := hd acc b
    have f1 := hf acc b hacc
    rw [sumPadded_cons]
    simp only [countBodies, padded]
    split
    · rename_i he
      have := f1.1.mp he
      refine ⟨⟨fun _ => by omega, fun _ => rfl⟩, fun h => by cases h⟩
    · rename_i he
      have he' : (d.step acc b).2.1 = false := by simpa using he
      have hn := h1.2 he'
      have hs := f1.2 he'
      have hk : ¬ k < acc + b := fun h => he (f1.1.mpr h)
      rw [hn, hs]
      split
      · rename_i hrem
        have h2 := hd (acc + b) (4 - b % 4)
        have f2 := hf (acc + b) (4 - b % 4) (by omega)
        split
        · rename_i he2
          have := f2.1.mp he2
          refine ⟨⟨fun _ => by omega, fun _ => rfl⟩, fun h => by cases h⟩
        · rename_i he2
          have he2' : (d.step (acc + b) (4 - b % 4)).2.1 = false := by simpa using he2
          have hq := h2.2 he2'
          have hs2 := f2.2 he2'
          have hk2 : ¬ k < acc + b + (4 - b % 4) := fun h => he2 (f2.1.mpr h)
          rw [hq, hs2]
          have := ih (acc + b + (4 - b % 4)) (by omega)
          simp only
          refine ⟨?_, ?_⟩
          · rw [this.1]; omega
          · intro h; rw [this.2 h]; omega
      · rename_i hrem
        have := ih (acc + b) (by omega)
        simp only
        refine ⟨?_, ?_⟩
        · rw [this.1]; omega
        · intro h; rw [this.2 h]; omega

theorem countTo_failsAt (k : Nat) (d : Dest Nat) (hd : d.Honest) (hf : FailsAt k d)
    (hdr : Nat) (lens : List Nat) :
    ((countTo d 0 hdr lens).2 = true ↔ k < hdr + sumPadded lens) ∧
    ((countTo d 0 hdr lens).2 = false → (countTo d 0 hdr lens).1 = hdr + sumPadded lens) := by
  have h1 := hd 0 hdr
  have f1 := hf 0 hdr (Nat.zero_le _)
  simp only [countTo]
  split
  · rename_i he
    have := f1.1.mp he
    refine ⟨⟨fun _ => by omega, fun _ => rfl⟩, fun h => by cases h⟩
  · rename_i he
    have he' : (d.step 0 hdr).2.1 = false := by simpa using he
    have hn := h1.2 he'
    have hs := f1.2 he'
    have hk : ¬ k < 0 + hdr := fun h => he (f1.1.mpr h)
    rw [hn, hs]
    have := countBodies_failsAt k d hd hf lens (0 + hdr) (by omega)
    simp only
    refine ⟨?_, ?_⟩
    · rw [this.1]; omega
    · intro h; rw [this.2 h]

theorem sectionsErr_failsAt (k : Nat) (d : Dest Nat) (hf : FailsAt k d) :
    ∀ (lens : List Nat) (acc : Nat), acc ≤ k →
      (sectionsErr d acc lens = true ↔ k < acc + lens.sum) := by
  intro lens
  induction lens with
  | nil => intro acc h; simp [sectionsErr]; omega
  | cons b rest ih =>
    intro acc hacc
    have f1 := hf acc b hacc
    simp only [sectionsErr, List.sum_cons]
    split
    · rename_i he
      have := f1.1.mp he
      exact ⟨fun _ => by omega, fun _ => rfl⟩
    · rename_i he
      have he' : (d.step acc b).2.1 = false := by simpa using he
      have hk : ¬ k < acc + b := fun h => he (f1.1.mpr h)
      rw [f1.2 he', ih (acc + b) (by omega)]
      omega

/-! ## the short-writing destination: the count is `min k total` -/

theorem countBodies_short (k : Nat) : ∀ (lens : List Nat) (acc : Nat), acc ≤ k →
    (countBodies (shortW k) acc lens).1 = min (k - acc) (sumPadded lens) := by
  intro lens
  induction lens with
  | nil => intro acc h; simp [countBodies, sumPadded]
  | cons b rest ih =>
    intro acc hacc
    rw [sumPadded_cons]
    simp only [countBodies, padded]
    split
    · rename_i he
      simp only [shortW_step, decide_eq_true_eq] at he ⊢
      omega
    · rename_i he
      simp only [shortW_step, decide_eq_true_eq] at he
      have hm : min b (k - acc) = b := by omega
      simp only [shortW_step, hm]
      split
      · rename_i hrem
        split
        · rename_i he2
          simp only [decide_eq_true_eq] at he2
          omega
        · rename_i he2
          simp only [decide_eq_true_eq] at he2
          have hq : min (4 - b % 4) (k - (acc + b)) = 4 - b % 4 := by omega
          simp only [hq]
          rw [ih (acc + b + (4 - b % 4)) (by omega)]
          omega
      · rename_i hrem
        simp only
        rw [ih (acc + b) (by omega)]
        omega

theorem countTo_short (k hdr : Nat) (lens : List Nat) :
    (countTo (shortW k) 0 hdr lens).1 = min k (hdr + sumPadded lens) := by
  simp only [countTo]
  split
  · rename_i he
    simp only [shortW_step, decide_eq_true_eq] at he ⊢
    omega
  · rename_i he
    simp only [shortW_step, decide_eq_true_eq] at he
    have hm : min hdr (k - 0) = hdr := by omega
    simp only [shortW_step, hm]
    rw [countBodies_short k lens (0 + hdr) (by omega)]
    omega

/-- the atomic destination never reports more than `k` -/
theorem countBodies_atomic (k : Nat) : ∀ (lens : List Nat) (acc : Nat), acc ≤ k →
    acc + (countBodies (atomicW k) acc lens).1 ≤ k := by
  intro lens
  induction lens with
  | nil => intro acc h; simp [countBodies]; omega
  | cons b rest ih =>
    intro acc hacc
    simp only [countBodies]
    by_cases hfit : acc + b ≤ k
    · simp only [atomicW_step, hfit, if_true]
      split
      · rename_i he; cases he
      · split
        · by_cases hfit2 : acc + b + (4 - b % 4) ≤ k
          · simp only [hfit2, if_true]
            split
            · rename_i he; cases he
            · have := ih (acc + b + (4 - b % 4)) hfit2
              simp only
              omega
          · simp only [hfit2, if_false]
            simp
            omega
        · have := ih (acc + b) hfit
          simp only
          omega
    · simp only [atomicW_step, hfit, if_false]
      simp
      omega

theorem countTo_atomic (k hdr : Nat) (lens : List Nat) :
    (countTo (atomicW k) 0 hdr lens).1 ≤ k := by
  simp only [countTo, atomicW_step, Nat.zero_add]
  by_cases hfit : hdr ≤ k
  · simp only [hfit, if_true]
    have := countBodies_atomic k lens hdr hfit
    simp
    omega
  · simp only [hfit, if_false]
    simp

/-! ## total size of what `write` hands to the destination -/

theorem length_flatB_map (l : List (Bytes × Bytes)) :
    (flatB (l.map (·.2))).length = sumPadded ((l.map (·.2)).map List.length) := by
  induction l with
  | nil => rfl
  | cons t l ih =>
    simp only [List.map_cons, flatB, List.flatMap_cons, List.length_append, sumPadded_cons, padded]
    rw [length_pad4]
    simp only [flatB] at ih
    rw [ih]

theorem bytes_eq (w : Written) : w.bytes = w.header ++ flatB (w.bodies.map (·.2)) := by
  simp only [Written.bytes, flatB, List.flatMap_map]

theorem length_bytes (w : Written) :
    w.bytes.length = w.header.length + sumPadded ((w.bodies.map (·.2)).map List.length) := by
  rw [bytes_eq, List.length_append, length_flatB_map]

end SfntV.Faults
