/-
C19 — totality of the parser model (flags, glyph lists, GSUB 1–4, GPOS 1–4): started on the items of the
lexer it returns lookups or an error that carries a line number ≥ 1; in particular no loop of
the model runs out of fuel (the fuel marker is an error of line 0).  Method: a termination
measure `mu` (number of non-EOF/error items still deliverable), a state invariant `Good`, and
a Hoare-style triple `Tri` closed under bind.  The triple has a mode `cm`: in the mode `true` the
invariant also says that no pending item is the keyword of a form the model does not cover, and the
marker `unmodelled` is then impossible.
-/
import SfntV.Proofs.DslLexer
import SfntV.Model.DslParse

set_option linter.unusedSimpArgs false
set_option linter.unusedVariables false

namespace SfntV.Dsl

theorem bind_run {α β : Type} (m : PM α) (f : α → PM β) (s : PS) :
    (m >>= f) s = match m s with
      | .ok (a, s') => f a s'
      | .error e => .error e := by
  show (StateT.bind m f) s = _
  unfold StateT.bind
  cases m s with
  | error e => rfl
  | ok p => cases p; rfl

theorem pure_run {α : Type} (a : α) (s : PS) : (pure a : PM α) s = .ok (a, s) := rfl
theorem throw_run {α : Type} (e : PErr) (s : PS) : (throw e : PM α) s = .error e := rfl

/-- weight of an item for the termination measure: EOF/error items cost nothing (they can be
read for ever once the channel is closed) -/
def nt (t : Tok) : Nat := if t.terminal then 0 else 1

def wsum (l : List Tok) : Nat := (l.map nt).sum

def mu (s : PS) : Nat := wsum s.toks + wsum s.backlog

/-- the item the parser will see for ever once the channel is closed -/
def final (s : PS) : Tok := s.toks.getLast?.getD s.last

theorem final_cons (t : Tok) (ts b : List Tok) (l : Tok) :
    final { toks := ts, backlog := b, last := t } = final { toks := t :: ts, backlog := b, last := l } := by
  cases ts with
  | nil => simp [final]
  | cons u us =>
    simp only [final, List.getLast?_cons_cons]
    cases h : (u :: us).getLast? with
    | none => simp at h
    | some x => rfl

/-- an item that starts a lookup form the model does not cover -/
def Bad (t : Tok) : Bool := [kwGSUB 5, kwGSUB 6, kwGPOS 7, kwGPOS 8].any (isIdent t)

/-- items carry a line number; in the mode `cm = true` no item starts an unmodelled form -/
def TokL (cm : Bool) (t : Tok) : Prop := 1 ≤ t.line ∧ (cm = true → Bad t = false)

structure Good (cm : Bool) (s : PS) : Prop where
  toks : ∀ t ∈ s.toks, TokL cm t
  backlog : ∀ t ∈ s.backlog, TokL cm t
  fin : (final s).terminal = true ∧ TokL cm (final s)

/-- errors carry a line (every form of the language is modelled; the mode `cm` is a leftover of the
time when some were not and is not used any more) -/
def ErrOk (cm : Bool) (e : PErr) : Prop := 1 ≤ e.line

variable {cm : Bool}

/-- `m`, started in a good state with measure below `B`, either fails with a line number or
returns a value satisfying `P` in a good state whose measure went down by at least `d a` -/
def Tri {α : Type} (cm : Bool) (B : Nat) (m : PM α) (d : α → Nat) (P : α → Prop) : Prop :=
  ∀ s, Good cm s → mu s < B →
    match m s with
    | .ok (a, s') => Good cm s' ∧ mu s' + d a ≤ mu s ∧ P a
    | .error e => ErrOk cm e

abbrev d0 {α : Type} : α → Nat := fun _ => 0
abbrev pT {α : Type} : α → Prop := fun _ => True

theorem tri_zero {α : Type} (m : PM α) (d : α → Nat) (P : α → Prop) : Tri cm 0 m d P := by
  intro s _ h; omega

theorem tri_mono {α : Type} {B B' : Nat} {m : PM α} {d : α → Nat} {P : α → Prop} (h : B' ≤ B)
    (t : Tri cm B m d P) : Tri cm B' m d P := fun s g hs => t s g (by omega)

theorem tri_weaken {α : Type} {B : Nat} {m : PM α} {d d' : α → Nat} {P P' : α → Prop}
    (t : Tri cm B m d P) (h : ∀ a, d' a ≤ d a) (hp : ∀ a, P a → P' a) : Tri cm B m d' P' := by
  intro s g hs
  have := t s g hs
  cases hm : m s with
  | error e => rw [hm] at this; exact this
  | ok p =>
    obtain ⟨a, s'⟩ := p
    rw [hm] at this
    exact ⟨this.1, by have := h a; omega, hp a this.2.2⟩

theorem tri_pure {α : Type} (B : Nat) (a : α) : Tri cm B (pure a : PM α) d0 pT := by
  intro s g _
  simp [pure_run, g]

theorem tri_pureP {α : Type} (B : Nat) (a : α) (P : α → Prop) (h : P a) : Tri cm B (pure a : PM α) d0 P := by
  intro s g _
  simp [pure_run, g, h]

theorem tri_bind {α β : Type} {B : Nat} {m : PM α} {f : α → PM β} {d : α → Nat} {P : α → Prop}
    {e : β → Nat} {Q : β → Prop}
    (hm : Tri cm B m d P) (hf : ∀ a, P a → Tri cm (B - d a) (f a) e Q) : Tri cm B (m >>= f) e Q := by
  intro s g hs
  rw [bind_run]
  have h1 := hm s g hs
  cases hms : m s with
  | error err => rw [hms] at h1; simpa using h1
  | ok p =>
    obtain ⟨a, s'⟩ := p
    rw [hms] at h1
    simp only []
    have h2 := hf a h1.2.2 s' h1.1 (by omega)
    cases hfs : f a s' with
    | error err => rw [hfs] at h2; simpa using h2
    | ok q =>
      obtain ⟨b, s''⟩ := q
      rw [hfs] at h2
      exact ⟨h2.1, by omega, h2.2.2⟩

/-- what `readItem` does to a good state, and that the item can be pushed back -/
theorem readItem_spec (s : PS) (g : Good cm s) :
    ∃ t s1, readItem s = .ok (t, s1) ∧ Good cm s1 ∧ mu s1 + nt t = mu s ∧ TokL cm t ∧
      Good cm { s1 with backlog := t :: s1.backlog } ∧ mu { s1 with backlog := t :: s1.backlog } = mu s := by
  unfold readItem
  obtain ⟨toks, backlog, last⟩ := s
  cases backlog with
  | cons t b =>
    refine ⟨t, _, rfl, ⟨g.toks, fun u hu => g.backlog u (by simp [hu]), g.fin⟩, ?_, g.backlog t (by simp), g, rfl⟩
    simp [mu, wsum]; omega
  | nil =>
    cases toks with
    | cons t ts =>
      have hf : final { toks := ts, backlog := ([] : List Tok), last := t } = final { toks := t :: ts, backlog := [], last := last } :=
        final_cons t ts [] last
      have hl := g.toks t (by simp)
      refine ⟨t, _, rfl, ⟨fun u hu => g.toks u (by simp [hu]), by simp, ?_⟩, ?_, hl,
        ⟨fun u hu => g.toks u (by simp [hu]), by simp [hl], ?_⟩, ?_⟩
      · rw [hf]; exact g.fin
      · simp [mu, wsum]; omega
      · have := g.fin; rw [← hf] at this; exact this
      · simp [mu, wsum]; omega
    | nil =>
      have ht := g.fin.1
      have hl := g.fin.2
      simp [final] at ht hl
      refine ⟨last, _, rfl, g, by simp [mu, wsum, nt, ht], hl, ⟨by simp, by simp [hl], g.fin⟩, ?_⟩
      simp [mu, wsum, nt, ht]

theorem pushBack_run (t : Tok) (s : PS) : pushBack t s = .ok ((), { s with backlog := t :: s.backlog }) := rfl

theorem tri_readItem (B : Nat) : Tri cm B readItem (fun t => nt t) (fun t => TokL cm t) := by
  intro s g _
  obtain ⟨t, s1, h, g1, hm, hl, _, _⟩ := readItem_spec s g
  rw [h]
  exact ⟨g1, by show mu s1 + nt t ≤ mu s; omega, hl⟩

theorem tri_peek (B : Nat) : Tri cm B peek d0 (fun t => TokL cm t) := by
  intro s g _
  obtain ⟨t, s1, h, _, _, hl, g2, hm2⟩ := readItem_spec s g
  unfold peek
  rw [bind_run, h]
  simp only [bind_run, pushBack_run, pure_run]
  exact ⟨g2, by show mu _ + 0 ≤ mu s; omega, hl⟩

theorem tri_fatal {α : Type} (B : Nat) (cls : String) (d : α → Nat) (P : α → Prop) :
    Tri cm B (fatal cls : PM α) d P := by
  intro s g hs
  have := tri_peek B s g hs
  unfold fatal
  rw [bind_run]
  cases hp : peek s with
  | error e => rw [hp] at this; simpa using this
  | ok p =>
    obtain ⟨t, s'⟩ := p
    rw [hp] at this
    simp only [throw_run]
    exact this.2.2.1

/-- `optional` for item kinds that are not EOF/error: `true` means an item was consumed -/
theorem tri_optional (B : Nat) (types : List Nat) (h0 : ¬ tEOF ∈ types) (h1 : ¬ tError ∈ types) :
    Tri cm B (optional types) (fun b => if b then 1 else 0) pT := by
  intro s g _
  obtain ⟨t, s1, h, g1, hm, _, g2, hm2⟩ := readItem_spec s g
  unfold optional
  rw [bind_run, h]
  simp only []
  by_cases hc : types.contains t.typ = true
  · simp only [hc, if_true, pure_run]
    have : nt t = 1 := by
      have hmem : t.typ ∈ types := by simpa using hc
      have h0' : t.typ ≠ tEOF := fun e => h0 (e ▸ hmem)
      have h1' : t.typ ≠ tError := fun e => h1 (e ▸ hmem)
      simp [nt, Tok.terminal, h0', h1']
    exact ⟨g1, by first | omega | (simp; omega), trivial⟩
  · have hc' : types.contains t.typ = false := by simpa using hc
    simp only [hc', Bool.false_eq_true, if_false, bind_run, pushBack_run, pure_run]
    exact ⟨g2, by simp; omega, trivial⟩

theorem tri_required (B : Nat) (typ : Nat) : Tri cm B (required typ) d0 pT := by
  unfold required
  refine tri_bind (tri_readItem B) ?_
  intro t _
  split
  · exact tri_fatal _ _ _ _
  · exact tri_pure _ _

theorem tri_readIdentifier (B : Nat) : Tri cm B readIdentifier d0 pT := by
  unfold readIdentifier
  refine tri_bind (tri_readItem B) ?_
  intro t _
  split
  · exact tri_fatal _ _ _ _
  · exact tri_pure _ _

theorem tri_flagsLoop : ∀ (n B flags : Nat), B ≤ n → Tri cm B (readLookupFlagsLoop n flags) d0 pT := by
  intro n
  induction n with
  | zero => intro B flags h; have : B = 0 := by omega
            subst this; exact tri_zero _ _ _
  | succ n ih =>
    intro B flags h
    unfold readLookupFlagsLoop
    refine tri_bind (tri_optional B [tHyphen] (by decide) (by decide)) ?_
    intro b _
    cases b with
    | false => simp only [Bool.not_false, if_true]; exact tri_pure _ _
    | true =>
      simp only [Bool.not_true, Bool.false_eq_true, if_false]
      refine tri_bind (tri_readIdentifier _) ?_
      intro which _
      cases List.find? (fun x => x.fst == which) Gen.dslParseFlagsC with
      | some e => exact ih _ _ (by simp [d0]; omega)
      | none => exact tri_fatal _ _ _ _

theorem tri_readLookupFlags (fuel B : Nat) (h : B ≤ fuel) : Tri cm B (readLookupFlags fuel) d0 pT := by
  unfold readLookupFlags
  refine tri_bind (tri_flagsLoop fuel B 0 h) ?_
  intro flags _
  refine tri_bind (tri_weaken (tri_optional _ [tEOL] (by decide) (by decide)) (d' := d0) (fun _ => Nat.zero_le _) (fun _ h => h)) ?_
  intro _ _
  exact tri_pure _ _

theorem tri_takeIf (B : Nat) (p : Tok → Bool) (hp : ∀ t, p t = true → t.terminal = false) :
    Tri cm B (takeIf p) (fun r => if r.isSome then 1 else 0) pT := by
  intro s g _
  obtain ⟨t, s1, h, g1, hm, _, g2, hm2⟩ := readItem_spec s g
  unfold takeIf
  rw [bind_run, h]
  simp only []
  by_cases hc : p t = true
  · simp only [hc, if_true, pure_run]
    have : nt t = 1 := by simp [nt, hp t hc]
    exact ⟨g1, by first | omega | (simp; omega), trivial⟩
  · have hc' : p t = false := by simpa using hc
    simp only [hc', Bool.false_eq_true, if_false, bind_run, pushBack_run, pure_run]
    exact ⟨g2, by simp; omega, trivial⟩

theorem glyphItem_nonterminal (f : Font) (t : Tok) (h : glyphItem f t = true) : t.terminal = false := by
  unfold glyphItem at h
  simp only [Bool.or_eq_true, Bool.and_eq_true, beq_iff_eq] at h
  unfold Tok.terminal
  rcases h with ((h | h) | h) | h
  · simp [h.1, tIdentifier, tEOF, tError]
  · simp [h, tString, tEOF, tError]
  · simp [h, tInteger, tEOF, tError]
  · simp [h, tHyphen, tEOF, tError]

theorem tri_addGids (B : Nat) : ∀ (gs res : List Nat) (hy : Bool), Tri cm B (addGids gs res hy) d0 pT := by
  intro gs
  induction gs with
  | nil => intro res hy; unfold addGids; exact tri_pure _ _
  | cons g more ih =>
    intro res hy
    unfold addGids
    cases hy with
    | true =>
      simp only [if_true]
      cases res.getLast? with
      | none => exact tri_fatal _ _ _ _
      | some start => exact ih _ _
    | false => simp only [Bool.false_eq_true, if_false]; exact ih _ _

theorem tri_mapRunes (B : Nat) (f : Font) : ∀ rs, Tri cm B (mapRunes f rs) d0 pT := by
  intro rs
  induction rs with
  | nil => unfold mapRunes; exact tri_pure _ _
  | cons r rest ih =>
    unfold mapRunes
    simp only []
    split
    · exact tri_fatal _ _ _ _
    · refine tri_bind ih ?_
      intro more _
      exact tri_pure _ _

theorem tri_glyphListLoop (f : Font) : ∀ (n B : Nat) (res : List Nat) (hy : Bool), B ≤ n →
    Tri cm B (readGlyphListLoop f n res hy) d0 pT := by
  intro n
  induction n with
  | zero => intro B res hy h; have : B = 0 := by omega
            subst this; exact tri_zero _ _ _
  | succ n ih =>
    intro B res hy h
    unfold readGlyphListLoop
    refine tri_bind (tri_takeIf B (glyphItem f) (glyphItem_nonterminal f)) ?_
    intro r _
    cases r with
    | none =>
      refine tri_mono (B := B) (by simp) ?_
      simp only []
      split
      · exact tri_fatal _ _ _ _
      · exact tri_pure _ _
    | some item =>
      have hb : B - 1 ≤ n := by omega
      refine tri_mono (B := B - 1) (by simp) ?_
      simp only []
      split
      · cases f.byName item.bytes with
        | none => exact tri_pure _ _
        | some gid =>
          refine tri_bind (tri_addGids _ _ _ _) ?_
          intro x _
          obtain ⟨res', hy'⟩ := x
          exact ih _ _ _ (by simp [d0]; omega)
      split
      · split
        · exact tri_fatal _ _ _ _
        · refine tri_bind (tri_mapRunes _ f _) ?_
          intro next _
          refine tri_bind (tri_addGids _ _ _ _) ?_
          intro x _
          obtain ⟨res', hy'⟩ := x
          exact ih _ _ _ (by simp [d0]; omega)
      split
      · split
        · split
          · exact tri_fatal _ _ _ _
          · refine tri_bind (tri_addGids _ _ _ _) ?_
            intro x _
            obtain ⟨res', hy'⟩ := x
            exact ih _ _ _ (by simp [d0]; omega)
        · exact tri_fatal _ _ _ _
      · split
        · exact tri_fatal _ _ _ _
        · exact ih _ _ _ hb

theorem tri_readGlyphList (f : Font) (fuel B : Nat) (h : B ≤ fuel) : Tri cm B (readGlyphList f fuel) d0 pT :=
  tri_glyphListLoop f fuel B [] false h

theorem tri_opt0 (B : Nat) (types : List Nat) (h0 : ¬ tEOF ∈ types) (h1 : ¬ tError ∈ types) :
    Tri cm B (optional types) d0 pT :=
  tri_weaken (tri_optional B types h0 h1) (fun _ => Nat.zero_le _) (fun _ h => h)

theorem tri_pairsLoop {σ : Type} (one : σ → PM σ) : ∀ (n B : Nat) (st : σ), B ≤ n →
    (∀ st B', B' ≤ B → Tri cm B' (one st) d0 pT) → Tri cm B (pairsLoop one n st) d0 pT := by
  intro n
  induction n with
  | zero => intro B st h _; have : B = 0 := by omega
            subst this; exact tri_zero _ _ _
  | succ n ih =>
    intro B st h hone
    unfold pairsLoop
    refine tri_bind (hone st B (Nat.le_refl _)) ?_
    intro st' _
    refine tri_bind (tri_optional _ [tComma] (by decide) (by decide)) ?_
    intro b _
    cases b with
    | false => simp only [Bool.not_false, if_true]; exact tri_pure _ _
    | true =>
      refine tri_mono (B := B - 1) (by simp [d0]) ?_
      simp only [Bool.not_true, Bool.false_eq_true, if_false]
      refine tri_bind (tri_opt0 _ [tEOL] (by decide) (by decide)) ?_
      intro _ _
      exact ih _ _ (by simp [d0]; omega) (fun st B' hB => hone st B' (by simp [d0] at hB; omega))

theorem tri_subtablesLoop (one : PM Subtable) : ∀ (n B : Nat) (acc : List Subtable), B ≤ n →
    (∀ B', B' ≤ B → Tri cm B' one d0 pT) → Tri cm B (subtablesLoop one n acc) d0 pT := by
  intro n
  induction n with
  | zero => intro B acc h _; have : B = 0 := by omega
            subst this; exact tri_zero _ _ _
  | succ n ih =>
    intro B acc h hone
    unfold subtablesLoop
    refine tri_bind (hone B (Nat.le_refl _)) ?_
    intro st _
    refine tri_bind (tri_optional _ [tOr] (by decide) (by decide)) ?_
    intro b _
    cases b with
    | false => simp only [Bool.not_false, if_true]; exact tri_pure _ _
    | true =>
      refine tri_mono (B := B - 1) (by simp [d0]) ?_
      simp only [Bool.not_true, Bool.false_eq_true, if_false]
      refine tri_bind (tri_opt0 _ [tEOL] (by decide) (by decide)) ?_
      intro _ _
      exact ih _ _ (by simp [d0]; omega) (fun B' hB => hone B' (by simp [d0] at hB; omega))

theorem tri_header (fuel B : Nat) (h : B ≤ fuel) : Tri cm B (header fuel) d0 pT := by
  unfold header
  refine tri_bind (tri_opt0 _ [tColon] (by decide) (by decide)) ?_
  intro _ _
  refine tri_bind (tri_opt0 _ [tEOL] (by decide) (by decide)) ?_
  intro _ _
  exact tri_readLookupFlags fuel _ (by simp [d0]; omega)

theorem tri_zipInsert (B : Nat) : ∀ (gs ts : List Nat) (m : List (Nat × Nat)), Tri cm B (zipInsert gs ts m) d0 pT := by
  intro gs
  induction gs with
  | nil => intro ts m; unfold zipInsert; exact tri_pure _ _
  | cons g gs ih =>
    intro ts m
    cases ts with
    | nil => unfold zipInsert; exact tri_pure _ _
    | cons t ts =>
      unfold zipInsert
      split
      · exact tri_fatal _ _ _ _
      · exact ih _ _

theorem tri_gsub1Sub (f : Font) (fuel B : Nat) (h : B ≤ fuel) : Tri cm B (gsub1Sub f fuel) d0 pT := by
  unfold gsub1Sub
  refine tri_bind (tri_pairsLoop _ fuel B [] h ?_) ?_
  · intro m B' hB
    refine tri_bind (tri_readGlyphList f fuel B' (by omega)) ?_
    intro from_ _
    refine tri_bind (tri_required _ _) ?_
    intro _ _
    refine tri_bind (tri_readGlyphList f fuel _ (by simp [d0]; omega)) ?_
    intro to _
    split
    · exact tri_fatal _ _ _ _
    · exact tri_zipInsert _ _ _ _
  · intro res _
    split
    · exact tri_fatal _ _ _ _
    · exact tri_pure _ _

theorem tri_gsub2Sub (f : Font) (fuel B : Nat) (h : B ≤ fuel) : Tri cm B (gsub2Sub f fuel) d0 pT := by
  unfold gsub2Sub
  refine tri_bind (tri_pairsLoop _ fuel B [] h ?_) ?_
  · intro m B' hB
    refine tri_bind (tri_readGlyphList f fuel B' (by omega)) ?_
    intro from_ _
    split
    · exact tri_fatal _ _ _ _
    · refine tri_bind (tri_required _ _) ?_
      intro _ _
      refine tri_bind (tri_readGlyphList f fuel _ (by simp [d0]; omega)) ?_
      intro to _
      split
      · refine tri_bind (tri_weaken (tri_readItem _) (d' := d0) (fun _ => Nat.zero_le _) (fun _ _ => trivial)) ?_
        intro _ _
        exact tri_fatal _ _ _ _
      · simp only []
        split
        · exact tri_fatal _ _ _ _
        · exact tri_pure _ _
  · intro data _
    split
    · exact tri_fatal _ _ _ _
    · exact tri_pure _ _

theorem tri_gsub3Sub (f : Font) (fuel B : Nat) (h : B ≤ fuel) : Tri cm B (gsub3Sub f fuel) d0 pT := by
  unfold gsub3Sub
  refine tri_bind (tri_pairsLoop _ fuel B [] h ?_) ?_
  · intro m B' hB
    refine tri_bind (tri_readGlyphList f fuel B' (by omega)) ?_
    intro from_ _
    split
    · exact tri_fatal _ _ _ _
    · refine tri_bind (tri_required _ _) ?_
      intro _ _
      refine tri_bind (tri_required _ _) ?_
      intro _ _
      refine tri_bind (tri_readGlyphList f fuel _ (by simp [d0]; omega)) ?_
      intro to _
      refine tri_bind (tri_required _ _) ?_
      intro _ _
      simp only []
      split
      · exact tri_fatal _ _ _ _
      · exact tri_pure _ _
  · intro res _
    split
    · exact tri_fatal _ _ _ _
    · exact tri_pure _ _

theorem tri_gsub4Sub (f : Font) (fuel B : Nat) (h : B ≤ fuel) : Tri cm B (gsub4Sub f fuel) d0 pT := by
  unfold gsub4Sub
  refine tri_bind (tri_pairsLoop _ fuel B [] h ?_) ?_
  · intro m B' hB
    refine tri_bind (tri_readGlyphList f fuel B' (by omega)) ?_
    intro from_ _
    split
    · refine tri_bind (tri_weaken (tri_readItem _) (d' := d0) (fun _ => Nat.zero_le _) (fun _ _ => trivial)) ?_
      intro _ _
      exact tri_fatal _ _ _ _
    · refine tri_bind (tri_required _ _) ?_
      intro _ _
      refine tri_bind (tri_readGlyphList f fuel _ (by simp [d0]; omega)) ?_
      intro to _
      split
      · exact tri_fatal _ _ _ _
      · exact tri_pure _ _
  · intro data _
    exact tri_pure _ _

theorem tri_readGsub (f : Font) (fuel B : Nat) (h : B ≤ fuel) :
    Tri cm B (readGsub1 f fuel) d0 pT ∧ Tri cm B (readGsub2 f fuel) d0 pT ∧
    Tri cm B (readGsub3 f fuel) d0 pT ∧ Tri cm B (readGsub4 f fuel) d0 pT := by
  refine ⟨?_, ?_, ?_, ?_⟩
  · unfold readGsub1
    refine tri_bind (tri_header fuel B h) ?_
    intro flags _
    refine tri_bind (tri_subtablesLoop _ fuel _ [] (by simp [d0]; omega) (fun B' hB => tri_gsub1Sub f fuel B' (by simp [d0] at hB; omega))) ?_
    intro subs _
    exact tri_pure _ _
  · unfold readGsub2
    refine tri_bind (tri_header fuel B h) ?_
    intro flags _
    refine tri_bind (tri_subtablesLoop _ fuel _ [] (by simp [d0]; omega) (fun B' hB => tri_gsub2Sub f fuel B' (by simp [d0] at hB; omega))) ?_
    intro subs _
    exact tri_pure _ _
  · unfold readGsub3
    refine tri_bind (tri_header fuel B h) ?_
    intro flags _
    refine tri_bind (tri_subtablesLoop _ fuel _ [] (by simp [d0]; omega) (fun B' hB => tri_gsub3Sub f fuel B' (by simp [d0] at hB; omega))) ?_
    intro subs _
    exact tri_pure _ _
  · unfold readGsub4
    refine tri_bind (tri_header fuel B h) ?_
    intro flags _
    refine tri_bind (tri_subtablesLoop _ fuel _ [] (by simp [d0]; omega) (fun B' hB => tri_gsub4Sub f fuel B' (by simp [d0] at hB; omega))) ?_
    intro subs _
    exact tri_pure _ _

theorem tri_optionalIdentifier (B : Nat) (name : List Nat) : Tri cm B (optionalIdentifier name) d0 pT := by
  intro s g _
  obtain ⟨t, s1, h, g1, hm, _, g2, hm2⟩ := readItem_spec s g
  unfold optionalIdentifier
  rw [bind_run, h]
  simp only []
  by_cases hc : isIdent t name = true
  · simp only [hc, if_true, pure_run]
    exact ⟨g1, by show mu s1 + 0 ≤ mu s; omega, trivial⟩
  · have hc' : isIdent t name = false := by simpa using hc
    simp only [hc', Bool.false_eq_true, if_false, bind_run, pushBack_run, pure_run]
    exact ⟨g2, by show mu _ + 0 ≤ mu s; omega, trivial⟩

theorem tri_requiredIdentifier (B : Nat) (name : List Nat) : Tri cm B (requiredIdentifier name) d0 pT := by
  unfold requiredIdentifier
  refine tri_bind (tri_readItem B) ?_
  intro t _
  split
  · exact tri_pure _ _
  · exact tri_fatal _ _ _ _

/-- `required` of a kind that is not EOF/error consumes an item -/
theorem tri_required_dec (B : Nat) (typ : Nat) (h0 : typ ≠ tEOF) (h1 : typ ≠ tError) :
    Tri cm B (required typ) (fun _ => 1) pT := by
  intro s g hs
  obtain ⟨t, s1, h, g1, hm, hl, g2, hm2⟩ := readItem_spec s g
  unfold required
  rw [bind_run, h]
  simp only []
  by_cases hc : t.typ = typ
  · have : nt t = 1 := by simp [nt, Tok.terminal, hc, h0, h1]
    have hne : (t.typ != typ) = false := by simp [hc]
    simp only [hne, Bool.false_eq_true, if_false, pure_run]
    exact ⟨g1, by show mu s1 + 1 ≤ mu s; omega, trivial⟩
  · have hne : (t.typ != typ) = true := by simp [hc]
    simp only [hne, if_true]
    have := tri_fatal (α := Tok) B "expected-token" (fun _ => 1) pT s1 g1 (by omega)
    cases hf : (fatal "expected-token" : PM Tok) s1 with
    | error e => rw [hf] at this; exact this
    | ok p =>
      rw [hf] at this
      obtain ⟨a, s'⟩ := p
      have h2 : mu s' + 1 ≤ mu s1 := this.2.1
      exact ⟨this.1, by show mu s' + 1 ≤ mu s; omega, trivial⟩

theorem tri_readInt16 (B : Nat) : Tri cm B readInt16 d0 pT := by
  unfold readInt16
  refine tri_bind (tri_readItem B) ?_
  intro t _
  split
  · exact tri_fatal _ _ _ _
  · cases atoi t.bytes with
    | none => exact tri_fatal _ _ _ _
    | some v =>
      simp only []
      split
      · exact tri_fatal _ _ _ _
      · split
        · exact tri_fatal _ _ _ _
        · exact tri_pure _ _

theorem valueItem_nonterminal (t : Tok) (h : valueItem t = true) : t.terminal = false := by
  unfold valueItem isIdent at h
  simp only [Bool.or_eq_true, Bool.and_eq_true, beq_iff_eq] at h
  have ht : t.typ = tIdentifier := by
    rcases h with ((h | h) | h) | h <;> exact h.1
  simp [Tok.terminal, ht, tIdentifier, tEOF, tError]

theorem tri_valueLoop : ∀ (n B : Nat) (r : VR), B ≤ n → Tri cm B (valueLoop n r) d0 pT := by
  intro n
  induction n with
  | zero => intro B r h; have : B = 0 := by omega
            subst this; exact tri_zero _ _ _
  | succ n ih =>
    intro B r h
    unfold valueLoop
    refine tri_bind (tri_takeIf B valueItem valueItem_nonterminal) ?_
    intro o _
    cases o with
    | none => refine tri_mono (B := B) (by simp) ?_; exact tri_pure _ _
    | some t =>
      refine tri_mono (B := B - 1) (by simp) ?_
      simp only []
      refine tri_bind (tri_readInt16 _) ?_
      intro v _
      have hb : B - 1 - d0 v ≤ n := by simp [d0]; omega
      split
      · exact ih _ _ hb
      split
      · exact ih _ _ hb
      split
      · exact ih _ _ hb
      · exact ih _ _ hb

theorem tri_readGposValueRecord (fuel B : Nat) (h : B ≤ fuel) : Tri cm B (readGposValueRecord fuel) d0 pT := by
  unfold readGposValueRecord
  refine tri_bind (tri_optionalIdentifier B _) ?_
  intro b _
  split
  · exact tri_pure _ _
  · refine tri_bind (tri_valueLoop fuel _ _ (by simp [d0]; omega)) ?_
    intro r _
    split
    · exact tri_pure _ _
    · exact tri_pure _ _

theorem tri_readPairAdjust (fuel B : Nat) (h : B ≤ fuel) : Tri cm B (readPairAdjust fuel) d0 pT := by
  unfold readPairAdjust
  refine tri_bind (tri_readGposValueRecord fuel B h) ?_
  intro a1 _
  refine tri_bind (tri_opt0 _ [tAmpersand] (by decide) (by decide)) ?_
  intro b _
  split
  · refine tri_bind (tri_readGposValueRecord fuel _ (by simp [d0]; omega)) ?_
    intro a2 _
    exact tri_pure _ _
  · exact tri_pure _ _

theorem tri_readGlyphSet (f : Font) (fuel B : Nat) (h : B ≤ fuel) : Tri cm B (readGlyphSet f fuel) d0 pT := by
  unfold readGlyphSet
  refine tri_bind (tri_required _ _) ?_
  intro _ _
  refine tri_bind (tri_readGlyphList f fuel _ (by simp [d0]; omega)) ?_
  intro res _
  refine tri_bind (tri_required _ _) ?_
  intro _ _
  exact tri_pure _ _

theorem tri_gpos1Sub (f : Font) (fuel B : Nat) (h : B ≤ fuel) : Tri cm B (gpos1Sub f fuel) d0 pT := by
  unfold gpos1Sub
  refine tri_bind (tri_peek B) ?_
  intro t _
  split
  · refine tri_bind (tri_readGlyphSet f fuel _ (by simp [d0]; omega)) ?_
    intro from_ _
    refine tri_bind (tri_required _ _) ?_
    intro _ _
    refine tri_bind (tri_readGposValueRecord fuel _ (by simp [d0]; omega)) ?_
    intro adj _
    exact tri_pure _ _
  · refine tri_bind (tri_pairsLoop _ fuel _ [] (by simp [d0]; omega) ?_) ?_
    · intro m B' hB
      have hB' : B' ≤ fuel := by simp [d0] at hB; omega
      refine tri_bind (tri_readGlyphList f fuel B' hB') ?_
      intro gids _
      split
      · exact tri_fatal _ _ _ _
      · refine tri_bind (tri_required _ _) ?_
        intro _ _
        refine tri_bind (tri_readGposValueRecord fuel _ (by simp [d0]; omega)) ?_
        intro adj _
        exact tri_pure _ _
    · intro res _
      exact tri_pure _ _

theorem tri_classInsert (B : Nat) : ∀ (gs : List Nat) (c : Nat) (tbl : List (Nat × Nat)),
    Tri cm B (classInsert gs c tbl) d0 pT := by
  intro gs
  induction gs with
  | nil => intro c tbl; unfold classInsert; exact tri_pure _ _
  | cons g gs ih =>
    intro c tbl
    unfold classInsert
    split
    · exact tri_fatal _ _ _ _
    · exact ih _ _

theorem tri_classLoop (f : Font) (fuel : Nat) : ∀ (n B : Nat) (isFirst : Bool) (tbl : List (Nat × Nat)) (cnt : Nat),
    B + (if isFirst then 1 else 0) ≤ n → B ≤ fuel → Tri cm B (classLoop f fuel n isFirst tbl cnt) d0 pT := by
  intro n
  induction n with
  | zero => intro B isFirst tbl cnt h _; have : B = 0 := by omega
            subst this; exact tri_zero _ _ _
  | succ n ih =>
    intro B isFirst tbl cnt h hf
    unfold classLoop
    refine tri_bind (tri_opt0 B [tSemicolon] (by decide) (by decide)) ?_
    intro b _
    split
    · exact tri_pure _ _
    · cases isFirst with
      | true =>
        simp only [Bool.not_true, Bool.false_eq_true, if_false]
        refine tri_bind (tri_readGlyphList f fuel _ (by simp [d0]; omega)) ?_
        intro gg _
        refine tri_bind (tri_classInsert _ _ _ _) ?_
        intro tbl' _
        exact ih _ _ _ _ (by simp [d0] at h ⊢; omega) (by simp [d0]; omega)
      | false =>
        simp only [Bool.not_false, if_true]
        refine tri_bind (tri_required_dec _ tComma (by decide) (by decide)) ?_
        intro _ _
        refine tri_bind (tri_readGlyphList f fuel _ (by simp [d0]; omega)) ?_
        intro gg _
        refine tri_bind (tri_classInsert _ _ _ _) ?_
        intro tbl' _
        exact ih _ _ _ _ (by simp [d0] at h ⊢; omega) (by simp [d0]; omega)

theorem tri_adjustRow (fuel : Nat) : ∀ (k B j : Nat), B ≤ fuel → Tri cm B (adjustRow fuel k j) d0 pT := by
  intro k
  induction k with
  | zero => intro B j _; unfold adjustRow; exact tri_pure _ _
  | succ k ih =>
    intro B j h
    unfold adjustRow
    split
    · refine tri_bind (tri_opt0 B [tComma] (by decide) (by decide)) ?_
      intro _ _
      refine tri_bind (tri_readPairAdjust fuel _ (by simp [d0]; omega)) ?_
      intro a _
      refine tri_bind (ih _ _ (by simp [d0]; omega)) ?_
      intro rest _
      exact tri_pure _ _
    · refine tri_bind (tri_readPairAdjust fuel _ h) ?_
      intro a _
      refine tri_bind (ih _ _ (by simp [d0]; omega)) ?_
      intro rest _
      exact tri_pure _ _

theorem tri_adjustRows (fuel cols : Nat) : ∀ (k B : Nat), B ≤ fuel → Tri cm B (adjustRows fuel cols k) d0 pT := by
  intro k
  induction k with
  | zero => intro B _; unfold adjustRows; exact tri_pure _ _
  | succ k ih =>
    intro B h
    unfold adjustRows
    refine tri_bind (tri_adjustRow fuel _ _ _ h) ?_
    intro row _
    refine tri_bind (tri_opt0 _ [tComma, tSemicolon] (by decide) (by decide)) ?_
    intro _ _
    refine tri_bind (tri_opt0 _ [tEOL] (by decide) (by decide)) ?_
    intro _ _
    refine tri_bind (ih _ (by simp [d0]; omega)) ?_
    intro rest _
    exact tri_pure _ _

theorem tri_gpos2Sub (f : Font) (fuel B : Nat) (h : B < fuel) : Tri cm B (gpos2Sub f fuel) d0 pT := by
  unfold gpos2Sub
  refine tri_bind (tri_peek B) ?_
  intro t _
  split
  · refine tri_bind (tri_required _ _) ?_
    intro _ _
    refine tri_bind (tri_readGlyphList f fuel _ (by simp [d0]; omega)) ?_
    intro cov _
    refine tri_bind (tri_required _ _) ?_
    intro _ _
    refine tri_bind (tri_opt0 _ [tEOL] (by decide) (by decide)) ?_
    intro _ _
    refine tri_bind (tri_requiredIdentifier _ _) ?_
    intro _ _
    refine tri_bind (tri_classLoop f fuel fuel _ true [] 1 (by simp [d0]; omega) (by simp [d0]; omega)) ?_
    intro c1 _
    refine tri_bind (tri_opt0 _ [tEOL] (by decide) (by decide)) ?_
    intro _ _
    refine tri_bind (tri_requiredIdentifier _ _) ?_
    intro _ _
    refine tri_bind (tri_classLoop f fuel fuel _ true [] 1 (by simp [d0]; omega) (by simp [d0]; omega)) ?_
    intro c2 _
    refine tri_bind (tri_opt0 _ [tEOL] (by decide) (by decide)) ?_
    intro _ _
    refine tri_bind (tri_adjustRows fuel _ _ _ (by simp [d0]; omega)) ?_
    intro adjust _
    exact tri_pure _ _
  · refine tri_bind (tri_pairsLoop _ fuel _ [] (by simp [d0]; omega) ?_) ?_
    · intro m B' hB
      have hB' : B' ≤ fuel := by simp [d0] at hB; omega
      refine tri_bind (tri_readGlyphList f fuel B' hB') ?_
      intro from_ _
      split
      · exact tri_fatal _ _ _ _
      · refine tri_bind (tri_required _ _) ?_
        intro _ _
        refine tri_bind (tri_readPairAdjust fuel _ (by simp [d0]; omega)) ?_
        intro pair _
        exact tri_pure _ _
    · intro res _
      exact tri_pure _ _

theorem tri_readGpos (f : Font) (fuel B : Nat) (h : B < fuel) :
    Tri cm B (readGpos1 f fuel) d0 pT ∧ Tri cm B (readGpos2 f fuel) d0 pT := by
  refine ⟨?_, ?_⟩
  · unfold readGpos1
    refine tri_bind (tri_header fuel B (by omega)) ?_
    intro flags _
    refine tri_bind (tri_subtablesLoop _ fuel _ [] (by simp [d0]; omega) (fun B' hB => tri_gpos1Sub f fuel B' (by simp [d0] at hB; omega))) ?_
    intro subs _
    exact tri_pure _ _
  · unfold readGpos2
    refine tri_bind (tri_header fuel B (by omega)) ?_
    intro flags _
    refine tri_bind (tri_subtablesLoop _ fuel _ [] (by simp [d0]; omega) (fun B' hB => tri_gpos2Sub f fuel B' (by simp [d0] at hB; omega))) ?_
    intro subs _
    exact tri_pure _ _

theorem tri_ite {α : Type} {B : Nat} {c : Prop} [Decidable c] {a b : PM α} {d : α → Nat} {P : α → Prop}
    (ha : c → Tri cm B a d P) (hb : ¬c → Tri cm B b d P) : Tri cm B (if c then a else b) d P := by
  by_cases h : c
  · rw [if_pos h]; exact ha h
  · rw [if_neg h]; exact hb h

theorem tri_semiLoop {σ : Type} (one : σ → PM σ) : ∀ (n B : Nat) (st : σ), B ≤ n →
    (∀ st B', B' ≤ B → Tri cm B' (one st) d0 pT) → Tri cm B (semiLoop one n st) d0 pT := by
  intro n
  induction n with
  | zero => intro B st h _; have : B = 0 := by omega
            subst this; exact tri_zero _ _ _
  | succ n ih =>
    intro B st h hone
    unfold semiLoop
    refine tri_bind (hone st B (Nat.le_refl _)) ?_
    intro st' _
    refine tri_bind (tri_optional _ [tSemicolon] (by decide) (by decide)) ?_
    intro b _
    cases b with
    | false => simp only [Bool.not_false, if_true]; exact tri_pure _ _
    | true =>
      refine tri_mono (B := B - 1) (by simp [d0]) ?_
      simp only [Bool.not_true, Bool.false_eq_true, if_false]
      refine tri_bind (tri_opt0 _ [tEOL] (by decide) (by decide)) ?_
      intro _ _
      exact ih _ _ (by simp [d0]; omega) (fun st B' hB => hone st B' (by simp [d0] at hB; omega))

theorem tri_readGlyph (f : Font) (fuel B : Nat) (h : B ≤ fuel) : Tri cm B (readGlyph f fuel) d0 pT := by
  unfold readGlyph
  refine tri_bind (tri_readGlyphList f fuel B h) ?_
  intro gids _
  split
  · exact tri_fatal _ _ _ _
  · split
    · exact tri_fatal _ _ _ _
    · exact tri_pure _ _

theorem tri_gpos3Sub (f : Font) (fuel B : Nat) (h : B ≤ fuel) : Tri cm B (gpos3Sub f fuel) d0 pT := by
  unfold gpos3Sub
  refine tri_bind (tri_semiLoop _ fuel _ [] h ?_) ?_
  · intro m B' hB
    have hB' : B' ≤ fuel := by omega
    refine tri_bind (tri_readGlyph f fuel B' hB') ?_
    intro gid _
    refine tri_bind (tri_opt0 _ [tColon] (by decide) (by decide)) ?_
    intro _ _
    refine tri_bind (tri_readInt16 _) ?_
    intro x1 _
    refine tri_bind (tri_required _ _) ?_
    intro _ _
    refine tri_bind (tri_readInt16 _) ?_
    intro y1 _
    refine tri_bind (tri_requiredIdentifier _ _) ?_
    intro _ _
    refine tri_bind (tri_readInt16 _) ?_
    intro x2 _
    refine tri_bind (tri_required _ _) ?_
    intro _ _
    refine tri_bind (tri_readInt16 _) ?_
    intro y2 _
    exact tri_pure _ _
  · intro res _
    exact tri_pure _ _

theorem tri_readGpos3 (f : Font) (fuel B : Nat) (h : B < fuel) : Tri cm B (readGpos3 f fuel) d0 pT := by
  unfold readGpos3
  refine tri_bind (tri_header fuel B (by omega)) ?_
  intro flags _
  refine tri_bind (tri_subtablesLoop _ fuel _ [] (by simp [d0]; omega) (fun B' hB => tri_gpos3Sub f fuel B' (by simp [d0] at hB; omega))) ?_
  intro subs _
  exact tri_pure _ _

theorem tri_optionalIdentifier_dec (B : Nat) (name : List Nat) :
    Tri cm B (optionalIdentifier name) (fun b => if b then 1 else 0) pT := by
  intro s g _
  obtain ⟨t, s1, h, g1, hm, _, g2, hm2⟩ := readItem_spec s g
  unfold optionalIdentifier
  rw [bind_run, h]
  simp only []
  by_cases hc : isIdent t name = true
  · simp only [hc, if_true, pure_run]
    have : nt t = 1 := by
      have ht : t.typ = tIdentifier := by
        simp only [isIdent, Bool.and_eq_true, beq_iff_eq] at hc
        exact hc.1
      simp [nt, Tok.terminal, ht, tIdentifier, tEOF, tError]
    exact ⟨g1, by first | omega | (simp; omega), trivial⟩
  · have hc' : isIdent t name = false := by simpa using hc
    simp only [hc', Bool.false_eq_true, if_false, bind_run, pushBack_run, pure_run]
    exact ⟨g2, by simp; omega, trivial⟩

theorem tri_readUint16 (B : Nat) : Tri cm B readUint16 d0 pT := by
  unfold readUint16
  refine tri_bind (tri_readItem B) ?_
  intro t _
  split
  · exact tri_fatal _ _ _ _
  · cases atoi t.bytes with
    | none => exact tri_fatal _ _ _ _
    | some v =>
      simp only []
      split
      · exact tri_fatal _ _ _ _
      · split
        · exact tri_fatal _ _ _ _
        · exact tri_pure _ _

theorem tri_recLoop {α : Type} (kw : List Nat) (one : List α → PM α) : ∀ (n B : Nat) (acc : List α),
    B ≤ n → (∀ acc B', B' ≤ B → Tri cm B' (one acc) d0 pT) → Tri cm B (recLoop kw one n acc) d0 pT := by
  intro n
  induction n with
  | zero => intro B acc h _; have : B = 0 := by omega
            subst this; exact tri_zero _ _ _
  | succ n ih =>
    intro B acc h hone
    unfold recLoop
    refine tri_bind (tri_optionalIdentifier_dec B kw) ?_
    intro b _
    cases b with
    | false => simp only [Bool.not_false, if_true]; exact tri_pure _ _
    | true =>
      simp only [Bool.not_true, Bool.false_eq_true, if_false]
      refine tri_bind (hone acc _ (by simp)) ?_
      intro item _
      refine tri_bind (tri_opt0 _ [tSemicolon] (by decide) (by decide)) ?_
      intro _ _
      refine tri_bind (tri_opt0 _ [tEOL] (by decide) (by decide)) ?_
      intro _ _
      exact ih _ _ (by simp [d0]; omega) (fun acc B' hB => hone acc B' (by simp [d0] at hB; omega))

theorem tri_markOne (f : Font) (fuel B : Nat) (h : B ≤ fuel) (acc : List (Nat × Nat × Int × Int)) :
    Tri cm B (markOne f fuel acc) d0 pT := by
  unfold markOne
  refine tri_bind (tri_readGlyph f fuel _ h) ?_
  intro gid _
  refine tri_ite (fun _ => tri_fatal _ _ _ _) (fun _ => ?_)
  refine tri_bind (tri_opt0 _ [tColon] (by decide) (by decide)) ?_
  intro _ _
  refine tri_bind (tri_readUint16 _) ?_
  intro cls _
  refine tri_bind (tri_required _ _) ?_
  intro _ _
  refine tri_bind (tri_readInt16 _) ?_
  intro x _
  refine tri_bind (tri_required _ _) ?_
  intro _ _
  refine tri_bind (tri_readInt16 _) ?_
  intro y _
  exact tri_pure _ _

theorem tri_anchorsLoop : ∀ (k B i : Nat) (acc : List (Int × Int)), Tri cm B (anchorsLoop k i acc) d0 pT := by
  intro k
  induction k with
  | zero => intro B i acc; unfold anchorsLoop; exact tri_pure _ _
  | succ k ih =>
    intro B i acc
    unfold anchorsLoop
    have h1 : Tri cm B (if (i == 0) = true then (pure false : PM Bool) else optional [tComma]) d0 pT :=
      tri_ite (fun _ => tri_pure _ _) (fun _ => tri_opt0 _ [tComma] (by decide) (by decide))
    refine tri_bind h1 ?_
    intro _ _
    refine tri_bind (tri_required _ _) ?_
    intro _ _
    refine tri_bind (tri_readInt16 _) ?_
    intro x _
    refine tri_bind (tri_required _ _) ?_
    intro _ _
    refine tri_bind (tri_readInt16 _) ?_
    intro y _
    exact ih _ _ _

theorem tri_baseOne (f : Font) (fuel k B : Nat) (h : B ≤ fuel) (acc : List (Nat × List (Int × Int))) :
    Tri cm B (baseOne f fuel k acc) d0 pT := by
  unfold baseOne
  refine tri_bind (tri_readGlyph f fuel _ h) ?_
  intro gid _
  refine tri_ite (fun _ => tri_fatal _ _ _ _) (fun _ => ?_)
  refine tri_bind (tri_opt0 _ [tColon] (by decide) (by decide)) ?_
  intro _ _
  refine tri_bind (tri_anchorsLoop _ _ _ _) ?_
  intro anchors _
  exact tri_pure _ _

theorem tri_gpos4Sub (f : Font) (fuel B : Nat) (h : B ≤ fuel) : Tri cm B (gpos4Sub f fuel) d0 pT := by
  unfold gpos4Sub
  refine tri_bind (tri_recLoop kwMark _ fuel B [] h (fun acc B' hB => tri_markOne f fuel B' (by omega) acc)) ?_
  intro marks _
  refine tri_ite (fun _ => tri_fatal _ _ _ _) (fun _ => ?_)
  refine tri_bind (tri_recLoop kwBase _ fuel _ [] (by simp [d0]; omega)
    (fun acc B' hB => tri_baseOne f fuel _ B' (by simp [d0] at hB; omega) acc)) ?_
  intro bases _
  exact tri_pure _ _

theorem tri_readGpos4 (f : Font) (fuel B : Nat) (h : B < fuel) : Tri cm B (readGpos4 f fuel) d0 pT := by
  unfold readGpos4
  refine tri_bind (tri_header fuel B (by omega)) ?_
  intro flags _
  refine tri_bind (tri_subtablesLoop _ fuel _ [] (by simp [d0]; omega) (fun B' hB => tri_gpos4Sub f fuel B' (by simp [d0] at hB; omega))) ?_
  intro subs _
  exact tri_pure _ _

/-! ### contextual forms -/

theorem tri_optionalKeyword_dec (B : Nat) (kw : List Nat) :
    Tri cm B (optionalKeyword kw) (fun b => if b then 1 else 0) pT := by
  intro s g hs
  obtain ⟨t, s1, h, g1, hm, hl, g2, hm2⟩ := readItem_spec s g
  unfold optionalKeyword
  rw [bind_run, h]
  simp only []
  by_cases hc : isIdent t kw = true
  · simp only [hc, if_true]
    have hnt : nt t = 1 := by
      have ht : t.typ = tIdentifier := by
        simp only [isIdent, Bool.and_eq_true, beq_iff_eq] at hc
        exact hc.1
      simp [nt, Tok.terminal, ht, tIdentifier, tEOF, tError]
    rw [bind_run]
    have hp := tri_peek (cm := cm) B s1 g1 (by omega)
    cases hpk : peek s1 with
    | error e => rw [hpk] at hp; simpa using hp
    | ok p =>
      obtain ⟨t2, s2⟩ := p
      rw [hpk] at hp
      obtain ⟨g2', hmu2, _⟩ := hp
      simp only [d0] at hmu2
      by_cases hcol : (t2.typ == tColon) = true
      · simp only [hcol, if_true, pure_run]
        exact ⟨g2', by show mu s2 + 1 ≤ mu s; omega, trivial⟩
      · have hcol' : (t2.typ == tColon) = false := by simpa using hcol
        simp only [hcol', Bool.false_eq_true, if_false, bind_run, pushBack_run, pure_run]
        refine ⟨⟨g2'.toks, ?_, g2'.fin⟩, ?_, trivial⟩
        · intro u hu
          simp only [List.mem_cons] at hu
          rcases hu with rfl | hu
          · exact hl
          · exact g2'.backlog u hu
        · have : mu { s2 with backlog := t :: s2.backlog } = mu s2 + nt t := by
            simp [mu, wsum]; omega
          rw [this]
          show mu s2 + nt t + 0 ≤ mu s
          omega
  · have hc' : isIdent t kw = false := by simpa using hc
    simp only [hc', Bool.false_eq_true, if_false, bind_run, pushBack_run, pure_run]
    exact ⟨g2, by simp; omega, trivial⟩

theorem tri_peekType2 (B : Nat) : Tri cm B peekType2 d0 pT := by
  intro s g hs
  obtain ⟨t, s1, h, g1, hm, hl, g2, hm2⟩ := readItem_spec s g
  unfold peekType2
  rw [bind_run, h]
  simp only []
  by_cases hc : (t.typ == tBar) = true
  · simp only [hc, if_true]
    rw [bind_run]
    have hp := tri_peek (cm := cm) B s1 g1 (by omega)
    cases hpk : peek s1 with
    | error e => rw [hpk] at hp; simpa using hp
    | ok p =>
      obtain ⟨t2, s2⟩ := p
      rw [hpk] at hp
      simp only [bind_run, pushBack_run, pure_run]
      obtain ⟨g2', hmu2, _⟩ := hp
      refine ⟨⟨g2'.toks, ?_, g2'.fin⟩, ?_, trivial⟩
      · intro u hu
        simp only [List.mem_cons] at hu
        rcases hu with rfl | hu
        · exact hl
        · exact g2'.backlog u hu
      · have : mu { s2 with backlog := t :: s2.backlog } = mu s2 + nt t := by
          simp [mu, wsum]; omega
        rw [this]
        simp only [d0] at hmu2 ⊢
        omega
  · have hc' : (t.typ == tBar) = false := by simpa using hc
    simp only [hc', Bool.false_eq_true, if_false, bind_run, pushBack_run, pure_run]
    exact ⟨g2, by simp; omega, trivial⟩

theorem isInt_nonterminal (t : Tok) (h : isInt t = true) : t.terminal = false := by
  simp only [isInt, beq_iff_eq] at h
  simp [Tok.terminal, h, tInteger, tEOF, tError]

theorem tri_nestedLoop : ∀ (n B : Nat) (acc : List Action), B ≤ n → Tri cm B (nestedLoop n acc) d0 pT := by
  intro n
  induction n with
  | zero => intro B acc h; have : B = 0 := by omega
            subst this; exact tri_zero _ _ _
  | succ n ih =>
    intro B acc h
    unfold nestedLoop
    refine tri_bind (tri_takeIf B isInt isInt_nonterminal) ?_
    intro r _
    cases r with
    | none => exact tri_pure _ _
    | some item =>
      simp only []
      cases u16Of item with
      | none => exact tri_fatal _ _ _ _
      | some idx =>
        simp only []
        refine tri_bind (tri_required _ _) ?_
        intro _ _
        refine tri_bind (tri_weaken (tri_readItem _) (d' := d0) (fun _ => Nat.zero_le _) (fun _ _ => trivial)) ?_
        intro item2 _
        refine tri_ite (fun _ => tri_fatal _ _ _ _) (fun _ => ?_)
        cases u16Of item2 with
        | none => exact tri_fatal _ _ _ _
        | some pos => exact ih _ _ (by simp [d0]; omega)

theorem tri_bind_dec {α β : Type} {B k : Nat} {m : PM α} {f : α → PM β} {P : α → Prop}
    {Q : β → Prop}
    (hm : Tri cm B m (fun _ => k) P) (hf : ∀ a, P a → Tri cm (B - k) (f a) d0 Q) :
    Tri cm B (m >>= f) (fun _ => k) Q := by
  intro s g hs
  rw [bind_run]
  have h1 := hm s g hs
  cases hms : m s with
  | error err => rw [hms] at h1; simpa using h1
  | ok p =>
    obtain ⟨a, s'⟩ := p
    rw [hms] at h1
    simp only []
    have e1 : mu s' + k ≤ mu s := h1.2.1
    have h2 := hf a h1.2.2 s' h1.1 (by omega)
    cases hfs : f a s' with
    | error err => rw [hfs] at h2; simpa using h2
    | ok q =>
      obtain ⟨b, s''⟩ := q
      rw [hfs] at h2
      have e2 : mu s'' + 0 ≤ mu s' := h2.2.1
      exact ⟨h2.1, by show mu s'' + k ≤ mu s; omega, h2.2.2⟩

theorem tri_readClassName_dec (B : Nat) : Tri cm B readClassName (fun _ => 1) pT := by
  unfold readClassName
  refine tri_bind_dec (tri_required_dec _ tColon (by decide) (by decide)) ?_
  intro _ _
  refine tri_bind (tri_weaken (tri_readItem _) (d' := d0) (fun _ => Nat.zero_le _) (fun _ _ => trivial)) ?_
  intro item _
  refine tri_ite (fun _ => ?_) (fun _ => tri_ite (fun _ => tri_pure _ _) (fun _ => tri_fatal _ _ _ _))
  refine tri_bind (tri_required _ _) ?_
  intro _ _
  exact tri_pure _ _

theorem tri_classNamesLoop : ∀ (n B : Nat) (acc : List (List Nat)), B ≤ n → Tri cm B (classNamesLoop n acc) d0 pT := by
  intro n
  induction n with
  | zero => intro B acc h; have : B = 0 := by omega
            subst this; exact tri_zero _ _ _
  | succ n ih =>
    intro B acc h
    unfold classNamesLoop
    refine tri_bind (tri_peek B) ?_
    intro next _
    refine tri_ite (fun _ => tri_pure _ _) (fun _ => ?_)
    refine tri_bind (tri_readClassName_dec _) ?_
    intro nm _
    exact ih _ _ (by simp [d0]; omega)

theorem tri_readGlyphSet_dec (f : Font) (fuel B : Nat) (h : B ≤ fuel) :
    Tri cm B (readGlyphSet f fuel) (fun _ => 1) pT := by
  unfold readGlyphSet
  refine tri_bind_dec (tri_required_dec _ tSquareBracketOpen (by decide) (by decide)) ?_
  intro _ _
  refine tri_bind (tri_readGlyphList f fuel _ (by omega)) ?_
  intro res _
  refine tri_bind (tri_required _ _) ?_
  intro _ _
  exact tri_pure _ _

theorem tri_parseClassDef (f : Font) (fuel B : Nat) (h : B ≤ fuel) : Tri cm B (parseClassDef f fuel) d0 pT := by
  unfold parseClassDef
  refine tri_bind (tri_required _ _) ?_
  intro _ _
  refine tri_bind (tri_readIdentifier _) ?_
  intro name _
  refine tri_bind (tri_required _ _) ?_
  intro _ _
  refine tri_bind (tri_opt0 _ [tEqual] (by decide) (by decide)) ?_
  intro _ _
  refine tri_bind (tri_readGlyphSet f fuel _ (by simp [d0]; omega)) ?_
  intro gids _
  exact tri_ite (fun _ => tri_fatal _ _ _ _) (fun _ => tri_pure _ _)

theorem tri_addClass (B : Nat) (m1 m2 : String) (st : ClsSt) (name gids : List Nat) :
    Tri cm B (addClass m1 m2 st name gids) d0 pT := by
  unfold addClass
  exact tri_ite (fun _ => tri_fatal _ _ _ _) (fun _ => tri_ite (fun _ => tri_fatal _ _ _ _) (fun _ => tri_pure _ _))

theorem tri_resolveNames (B : Nat) (idx : List (List Nat)) : ∀ names, Tri cm B (resolveNames idx names) d0 pT := by
  intro names
  induction names with
  | nil => unfold resolveNames; exact tri_pure _ _
  | cons nm rest ih =>
    unfold resolveNames
    refine tri_ite (fun _ => ?_) (fun _ => tri_ite (fun _ => ?_) (fun _ => tri_fatal _ _ _ _))
    · refine tri_bind ih ?_; intro r _; exact tri_pure _ _
    · refine tri_bind ih ?_; intro r _; exact tri_pure _ _

theorem tri_ctx1Rule (f : Font) (fuel B : Nat) (h : B ≤ fuel) (res : List (Nat × List SeqRule)) :
    Tri cm B (ctx1Rule f fuel res) d0 pT := by
  unfold ctx1Rule
  refine tri_bind (tri_readGlyphList f fuel B h) ?_
  intro input _
  refine tri_bind (tri_required _ _) ?_
  intro _ _
  refine tri_bind (tri_nestedLoop fuel _ [] (by simp [d0]; omega)) ?_
  intro actions _
  refine tri_ite (fun _ => ?_) (fun _ => tri_pure _ _)
  refine tri_bind (tri_weaken (tri_readItem _) (d' := d0) (fun _ => Nat.zero_le _) (fun _ _ => trivial)) ?_
  intro _ _
  exact tri_fatal _ _ _ _

theorem tri_ctx2Rule (fuel B : Nat) (h : B ≤ fuel) (idx : List (List Nat)) (rules : List (List SeqRule)) :
    Tri cm B (ctx2Rule fuel idx rules) d0 pT := by
  unfold ctx2Rule
  refine tri_bind (tri_classNamesLoop fuel B [] h) ?_
  intro names _
  refine tri_bind (tri_required _ _) ?_
  intro _ _
  refine tri_bind (tri_nestedLoop fuel _ [] (by simp [d0]; omega)) ?_
  intro actions _
  refine tri_ite (fun _ => tri_fatal _ _ _ _) (fun _ => ?_)
  refine tri_bind (tri_resolveNames _ _ _) ?_
  intro input _
  exact tri_pure _ _

theorem tri_chain1Rule (f : Font) (fuel B : Nat) (h : B ≤ fuel) (res : List (Nat × List ChRule)) :
    Tri cm B (chain1Rule f fuel res) d0 pT := by
  unfold chain1Rule
  refine tri_bind (tri_readGlyphList f fuel B h) ?_
  intro backtrack _
  refine tri_bind (tri_required _ _) ?_
  intro _ _
  refine tri_bind (tri_readGlyphList f fuel _ (by simp [d0]; omega)) ?_
  intro input _
  refine tri_bind (tri_required _ _) ?_
  intro _ _
  refine tri_bind (tri_readGlyphList f fuel _ (by simp [d0]; omega)) ?_
  intro lookahead _
  refine tri_bind (tri_required _ _) ?_
  intro _ _
  refine tri_bind (tri_nestedLoop fuel _ [] (by simp [d0]; omega)) ?_
  intro actions _
  refine tri_ite (fun _ => ?_) (fun _ => tri_pure _ _)
  refine tri_bind (tri_weaken (tri_readItem _) (d' := d0) (fun _ => Nat.zero_le _) (fun _ _ => trivial)) ?_
  intro _ _
  exact tri_fatal _ _ _ _

theorem tri_chain2Rule (fuel B : Nat) (h : B ≤ fuel) (bidx iidx lidx : List (List Nat)) (rules : List (List ChRule)) :
    Tri cm B (chain2Rule fuel bidx iidx lidx rules) d0 pT := by
  unfold chain2Rule
  refine tri_bind (tri_classNamesLoop fuel B [] h) ?_
  intro bnames _
  refine tri_bind (tri_required _ _) ?_
  intro _ _
  refine tri_bind (tri_classNamesLoop fuel _ [] (by simp [d0]; omega)) ?_
  intro inames _
  refine tri_bind (tri_required _ _) ?_
  intro _ _
  refine tri_bind (tri_classNamesLoop fuel _ [] (by simp [d0]; omega)) ?_
  intro lnames _
  refine tri_bind (tri_required _ _) ?_
  intro _ _
  refine tri_bind (tri_nestedLoop fuel _ [] (by simp [d0]; omega)) ?_
  intro actions _
  refine tri_ite (fun _ => tri_fatal _ _ _ _) (fun _ => ?_)
  refine tri_bind (tri_resolveNames _ _ _) ?_
  intro input _
  refine tri_bind (tri_resolveNames _ _ _) ?_
  intro backtrack _
  refine tri_bind (tri_resolveNames _ _ _) ?_
  intro lookahead _
  exact tri_pure _ _

theorem tri_setsThen (f : Font) (fuel stop : Nat) (h0 : ¬ tEOF ∈ [stop]) (h1 : ¬ tError ∈ [stop]) :
    ∀ (n B : Nat) (acc : List (List Nat)), B ≤ n → B ≤ fuel → Tri cm B (setsThen f fuel stop n acc) d0 pT := by
  intro n
  induction n with
  | zero => intro B acc h _; have : B = 0 := by omega
            subst this; exact tri_zero _ _ _
  | succ n ih =>
    intro B acc h hf
    unfold setsThen
    refine tri_bind (tri_readGlyphSet_dec f fuel B hf) ?_
    intro st _
    refine tri_bind (tri_opt0 _ [stop] h0 h1) ?_
    intro b _
    refine tri_ite (fun _ => tri_pure _ _) (fun _ => ?_)
    exact ih _ _ (by simp [d0]; omega) (by simp [d0]; omega)

theorem tri_setsUntil (f : Font) (fuel stop : Nat) (h0 : ¬ tEOF ∈ [stop]) (h1 : ¬ tError ∈ [stop]) :
    ∀ (n B : Nat) (acc : List (List Nat)), B ≤ n → B ≤ fuel → Tri cm B (setsUntil f fuel stop n acc) d0 pT := by
  intro n
  induction n with
  | zero => intro B acc h _; have : B = 0 := by omega
            subst this; exact tri_zero _ _ _
  | succ n ih =>
    intro B acc h hf
    unfold setsUntil
    refine tri_bind (tri_opt0 _ [stop] h0 h1) ?_
    intro b _
    refine tri_ite (fun _ => tri_pure _ _) (fun _ => ?_)
    refine tri_bind (tri_readGlyphSet_dec f fuel _ (by simp [d0]; omega)) ?_
    intro st _
    exact ih _ _ (by simp [d0]; omega) (by simp [d0]; omega)

theorem tri_subEnd {σ : Type} (B : Nat) (r : Subtable × σ) (acc : List Subtable) (k : PM (List Subtable))
    (hk : Tri cm (B - 1) k d0 pT) :
    Tri cm B (optional [tOr] >>= fun b => if (!b) = true then pure (acc ++ [r.1]) else
      (optional [tEOL] >>= fun _ => k)) d0 pT := by
  refine tri_bind (tri_optional _ [tOr] (by decide) (by decide)) ?_
  intro b _
  cases b with
  | false => simp only [Bool.not_false, if_true]; exact tri_pure _ _
  | true =>
    simp only [Bool.not_true, Bool.false_eq_true, if_false]
    refine tri_bind (tri_opt0 _ [tEOL] (by decide) (by decide)) ?_
    intro _ _
    exact tri_mono (by simp [d0]) hk

theorem tri_ctxLoop (f : Font) (fuel : Nat) : ∀ (n B : Nat) (st : ClsSt) (acc : List Subtable),
    B ≤ n → B ≤ fuel → Tri cm B (ctxLoop f fuel n st acc) d0 pT := by
  intro n
  induction n with
  | zero => intro B st acc h _; have : B = 0 := by omega
            subst this; exact tri_zero _ _ _
  | succ n ih =>
    intro B st acc h hf
    unfold ctxLoop
    refine tri_bind (tri_optionalKeyword_dec B kwClass) ?_
    intro b _
    cases b with
    | true =>
      simp only [if_true]
      refine tri_bind (tri_parseClassDef f fuel _ (by simp; omega)) ?_
      intro d _
      refine tri_bind (tri_addClass _ _ _ _ _ _) ?_
      intro st' _
      refine tri_bind (tri_opt0 _ [tEOL] (by decide) (by decide)) ?_
      intro _ _
      exact ih _ _ _ (by simp [d0]; omega) (by simp [d0]; omega)
    | false =>
      simp only [Bool.false_eq_true, if_false]
      refine tri_bind (tri_peek _) ?_
      intro next _
      have hB : B - 0 - 0 ≤ fuel := by omega
      refine tri_bind (P := pT) (d := d0) ?_ ?_
      · refine tri_ite (fun _ => ?_) (fun _ => tri_ite (fun _ => ?_) (fun _ => ?_))
        · refine tri_bind (tri_required _ _) ?_
          intro _ _
          refine tri_bind (tri_readGlyphList f fuel _ (by simp [d0]; omega)) ?_
          intro fg _
          refine tri_bind (tri_required _ _) ?_
          intro _ _
          refine tri_bind (tri_pairsLoop _ fuel _ _ (by simp [d0]; omega)
            (fun rules B' hB' => tri_ctx2Rule fuel B' (by simp [d0] at hB'; omega) _ rules)) ?_
          intro rules _
          exact tri_pure _ _
        · refine tri_bind (tri_setsThen f fuel tArrow (by decide) (by decide) fuel _ [] (by simp [d0]; omega) (by simp [d0]; omega)) ?_
          intro input _
          refine tri_bind (tri_nestedLoop fuel _ [] (by simp [d0]; omega)) ?_
          intro actions _
          exact tri_pure _ _
        · refine tri_bind (tri_pairsLoop _ fuel _ _ (by simp [d0]; omega)
            (fun res B' hB' => tri_ctx1Rule f fuel B' (by simp [d0] at hB'; omega) res)) ?_
          intro res _
          exact tri_pure _ _
      · intro r _
        exact tri_subEnd _ r acc _ (ih _ _ _ (by simp [d0]; omega) (by simp [d0]; omega))

theorem tri_readSeqCtx (f : Font) (fuel typ B : Nat) (h : B < fuel) : Tri cm B (readSeqCtx f fuel typ) d0 pT := by
  unfold readSeqCtx
  refine tri_bind (tri_header fuel B (by omega)) ?_
  intro flags _
  refine tri_bind (tri_ctxLoop f fuel fuel _ _ [] (by simp [d0]; omega) (by simp [d0]; omega)) ?_
  intro subs _
  exact tri_pure _ _

theorem tri_chainLoop (f : Font) (fuel : Nat) : ∀ (n B : Nat) (st : ChSt) (acc : List Subtable),
    B ≤ n → B ≤ fuel → Tri cm B (chainLoop f fuel n st acc) d0 pT := by
  intro n
  induction n with
  | zero => intro B st acc h _; have : B = 0 := by omega
            subst this; exact tri_zero _ _ _
  | succ n ih =>
    intro B st acc h hf
    unfold chainLoop
    have hdef : ∀ (B' : Nat) (m1 m2 : String) (c0 : ClsSt) (k : ClsSt → PM (List Subtable)), B' ≤ B - 1 →
        (∀ c, Tri cm B' (k c) d0 pT) →
        Tri cm B' (parseClassDef f fuel >>= fun d => addClass m1 m2 c0 d.1 d.2 >>= fun c =>
          optional [tEOL] >>= fun _ => k c) d0 pT := by
      intro B' m1 m2 c0 k hB' hk
      refine tri_bind (tri_parseClassDef f fuel _ (by omega)) ?_
      intro d _
      refine tri_bind (tri_addClass _ _ _ _ _ _) ?_
      intro c _
      refine tri_bind (tri_opt0 _ [tEOL] (by decide) (by decide)) ?_
      intro _ _
      exact tri_mono (by simp [d0]) (hk c)
    refine tri_bind (tri_optionalKeyword_dec B kwInputclass) ?_
    intro b1 _
    cases b1 with
    | true =>
      simp only [if_true]
      refine tri_mono (B := B - 1) (by simp) ?_
      exact hdef (B - 1) _ _ _ _ (Nat.le_refl _) (fun c => ih _ _ _ (by omega) (by omega))
    | false =>
      simp only [Bool.false_eq_true, if_false]
      refine tri_bind (tri_optionalKeyword_dec _ kwBacktrackclass) ?_
      intro b2 _
      cases b2 with
      | true =>
        simp only [if_true]
        refine tri_mono (B := B - 1) (by simp) ?_
        exact hdef (B - 1) _ _ _ _ (Nat.le_refl _) (fun c => ih _ _ _ (by omega) (by omega))
      | false =>
        simp only [Bool.false_eq_true, if_false]
        refine tri_bind (tri_optionalKeyword_dec _ kwLookaheadclass) ?_
        intro b3 _
        cases b3 with
        | true =>
          simp only [if_true]
          refine tri_mono (B := B - 1) (by simp) ?_
          exact hdef (B - 1) _ _ _ _ (Nat.le_refl _) (fun c => ih _ _ _ (by omega) (by omega))
        | false =>
          simp only [Bool.false_eq_true, if_false]
          refine tri_bind (tri_peekType2 _) ?_
          intro nextType _
          refine tri_bind (P := pT) (d := d0) ?_ ?_
          · refine tri_ite (fun _ => ?_) (fun _ => tri_ite (fun _ => ?_) (fun _ => ?_))
            · refine tri_bind (tri_required _ _) ?_
              intro _ _
              refine tri_bind (tri_readGlyphList f fuel _ (by simp [d0]; omega)) ?_
              intro fg _
              refine tri_bind (tri_required _ _) ?_
              intro _ _
              refine tri_bind (tri_pairsLoop _ fuel _ _ (by simp [d0]; omega)
                (fun rules B' hB' => tri_chain2Rule fuel B' (by simp [d0] at hB'; omega) _ _ _ rules)) ?_
              intro rules _
              exact tri_pure _ _
            · refine tri_bind (tri_setsUntil f fuel tBar (by decide) (by decide) fuel _ [] (by simp [d0]; omega) (by simp [d0]; omega)) ?_
              intro back _
              refine tri_bind (tri_setsThen f fuel tBar (by decide) (by decide) fuel _ [] (by simp [d0]; omega) (by simp [d0]; omega)) ?_
              intro input _
              refine tri_bind (tri_setsUntil f fuel tArrow (by decide) (by decide) fuel _ [] (by simp [d0]; omega) (by simp [d0]; omega)) ?_
              intro look _
              refine tri_bind (tri_nestedLoop fuel _ [] (by simp [d0]; omega)) ?_
              intro actions _
              exact tri_pure _ _
            · refine tri_bind (tri_pairsLoop _ fuel _ _ (by simp [d0]; omega)
                (fun res B' hB' => tri_chain1Rule f fuel B' (by simp [d0] at hB'; omega) res)) ?_
              intro res _
              exact tri_pure _ _
          · intro r _
            exact tri_subEnd _ r acc _ (ih _ _ _ (by simp [d0]; omega) (by simp [d0]; omega))

theorem tri_readChainedSeqCtx (f : Font) (fuel typ B : Nat) (h : B < fuel) :
    Tri cm B (readChainedSeqCtx f fuel typ) d0 pT := by
  unfold readChainedSeqCtx
  refine tri_bind (tri_header fuel B (by omega)) ?_
  intro flags _
  refine tri_bind (tri_chainLoop f fuel fuel _ _ [] (by simp [d0]; omega) (by simp [d0]; omega)) ?_
  intro subs _
  exact tri_pure _ _

theorem tri_parseLoop (f : Font) (fuel : Nat) : ∀ (n B : Nat) (acc : List Lookup), B ≤ n → B < fuel →
    Tri cm B (parseLoop f fuel n acc) d0 pT := by
  intro n
  induction n with
  | zero => intro B acc h _; have : B = 0 := by omega
            subst this; exact tri_zero _ _ _
  | succ n ih =>
    intro B acc h hf
    unfold parseLoop
    refine tri_bind (tri_readItem B) ?_
    intro item hitem
    by_cases hterm : item.terminal = true
    · -- EOF or error item: the loop ends
      have ht : item.typ = tEOF ∨ item.typ = tError := by simpa [Tok.terminal] using hterm
      rcases ht with ht | ht
      · simp only [ht, beq_self_eq_true, if_true]; exact tri_pure _ _
      · have : (tError == tEOF) = false := by decide
        simp only [ht, this, Bool.false_eq_true, if_false, beq_self_eq_true, if_true]
        exact tri_fatal _ _ _ _
    · have hnt : nt item = 1 := by simp [nt, hterm]
      have hb : B - nt item ≤ n := by omega
      have hbf : B - nt item < fuel := by omega
      obtain ⟨r1, r2, r3, r4⟩ := tri_readGsub f fuel (B - nt item) (by omega)
      obtain ⟨p1, p2⟩ := tri_readGpos f fuel (B - nt item) hbf
      refine tri_mono (B := B - nt item) (Nat.le_refl _) ?_
      refine tri_ite (fun _ => tri_pure _ _) (fun _ => ?_)
      refine tri_ite (fun _ => tri_fatal _ _ _ _) (fun _ => ?_)
      refine tri_ite (fun _ => ih _ _ hb hbf) (fun _ => ?_)
      refine tri_ite (fun _ => ?_) (fun _ => ?_)
      · refine tri_bind r1 ?_; intro l _; exact ih _ _ (by simp [d0]; omega) (by simp [d0]; omega)
      refine tri_ite (fun _ => ?_) (fun _ => ?_)
      · refine tri_bind r2 ?_; intro l _; exact ih _ _ (by simp [d0]; omega) (by simp [d0]; omega)
      refine tri_ite (fun _ => ?_) (fun _ => ?_)
      · refine tri_bind r3 ?_; intro l _; exact ih _ _ (by simp [d0]; omega) (by simp [d0]; omega)
      refine tri_ite (fun _ => ?_) (fun _ => ?_)
      · refine tri_bind r4 ?_; intro l _; exact ih _ _ (by simp [d0]; omega) (by simp [d0]; omega)
      refine tri_ite (fun _ => ?_) (fun _ => ?_)
      · refine tri_bind p1 ?_; intro l _; exact ih _ _ (by simp [d0]; omega) (by simp [d0]; omega)
      refine tri_ite (fun _ => ?_) (fun _ => ?_)
      · refine tri_bind p2 ?_; intro l _; exact ih _ _ (by simp [d0]; omega) (by simp [d0]; omega)
      refine tri_ite (fun _ => ?_) (fun _ => ?_)
      · refine tri_bind (tri_readGpos3 f fuel (B - nt item) hbf) ?_
        intro l _; exact ih _ _ (by simp [d0]; omega) (by simp [d0]; omega)
      refine tri_ite (fun _ => ?_) (fun _ => ?_)
      · refine tri_bind (tri_readGpos4 f fuel (B - nt item) hbf) ?_
        intro l _; exact ih _ _ (by simp [d0]; omega) (by simp [d0]; omega)
      refine tri_ite (fun _ => ?_) (fun _ => ?_)
      · refine tri_bind (tri_readSeqCtx f fuel 5 (B - nt item) hbf) ?_
        intro l _; exact ih _ _ (by simp [d0]; omega) (by simp [d0]; omega)
      refine tri_ite (fun _ => ?_) (fun _ => ?_)
      · refine tri_bind (tri_readChainedSeqCtx f fuel 6 (B - nt item) hbf) ?_
        intro l _; exact ih _ _ (by simp [d0]; omega) (by simp [d0]; omega)
      refine tri_ite (fun _ => ?_) (fun _ => ?_)
      · refine tri_bind (tri_readSeqCtx f fuel 7 (B - nt item) hbf) ?_
        intro l _; exact ih _ _ (by simp [d0]; omega) (by simp [d0]; omega)
      refine tri_ite (fun _ => ?_) (fun _ => ?_)
      · refine tri_bind (tri_readChainedSeqCtx f fuel 8 (B - nt item) hbf) ?_
        intro l _; exact ih _ _ (by simp [d0]; omega) (by simp [d0]; omega)
      exact tri_fatal _ _ _ _

theorem wsum_le_length (l : List Tok) : wsum l ≤ l.length := by
  induction l with
  | nil => simp [wsum]
  | cons t ts ih =>
    simp [wsum] at ih ⊢
    have : nt t ≤ 1 := by unfold nt; split <;> omega
    omega

/-- the parser on any item list that ends in a terminal item and has lines ≥ 1 (and, in the mode
`cm = true`, contains no keyword of an unmodelled form) -/
theorem parseToks_total_gen (f : Font) (toks pre : List Tok) (t : Tok) (e : toks = pre ++ [t])
    (ht : t.terminal = true) (hl : ∀ u ∈ toks, TokL cm u) :
    match parseToks f toks with
    | .ok _ => True
    | .error err => ErrOk cm err := by
  unfold parseToks
  simp only []
  have g : Good cm { toks := toks, backlog := [], last := zeroTok } := by
    refine ⟨hl, by simp, ?_⟩
    have : final { toks := toks, backlog := [], last := zeroTok } = t := by simp [final, e]
    rw [this]
    exact ⟨ht, hl t (by simp [e])⟩
  have hmu : mu { toks := toks, backlog := [], last := zeroTok } < toks.length + 1 := by
    have := wsum_le_length toks
    simp [mu, wsum] at this ⊢
    omega
  have := tri_parseLoop (cm := cm) f (toks.length + 2) (toks.length + 2) (toks.length + 1) [] (by omega) (by omega) _ g hmu
  simp only [StateT.run]
  cases hp : parseLoop f (toks.length + 2) (toks.length + 2) [] { toks := toks, backlog := [], last := zeroTok } with
  | error err => rw [hp] at this; simpa using this
  | ok p => simp

/-- the parser on any item list that ends in a terminal item and has lines ≥ 1: lookups, or an
error that carries a line number ≥ 1 (in particular no loop of the model runs out of fuel) -/
theorem parseToks_total_full (f : Font) (toks pre : List Tok) (t : Tok) (e : toks = pre ++ [t])
    (ht : t.terminal = true) (hl : ∀ u ∈ toks, 1 ≤ u.line) :
    match parseToks f toks with
    | .ok _ => True
    | .error err => 1 ≤ err.line :=
  parseToks_total_gen (cm := false) f toks pre t e ht (fun u hu => ⟨hl u hu, fun h => by cases h⟩)

theorem parseToks_total (f : Font) (toks pre : List Tok) (t : Tok) (e : toks = pre ++ [t])
    (ht : t.terminal = true) (hl : ∀ u ∈ toks, 1 ≤ u.line) :
    match parseToks f toks with
    | .ok _ => True
    | .error err => 1 ≤ err.line ∨ err.cls = unmodelled := by
  have := parseToks_total_full f toks pre t e ht hl
  cases hp : parseToks f toks with
  | ok r => trivial
  | error err => rw [hp] at this; exact Or.inl this

theorem parseToks_total_clean (f : Font) (toks pre : List Tok) (t : Tok) (e : toks = pre ++ [t])
    (ht : t.terminal = true) (hl : ∀ u ∈ toks, 1 ≤ u.line) (hb : ∀ u ∈ toks, Bad u = false) :
    match parseToks f toks with
    | .ok _ => True
    | .error err => 1 ≤ err.line :=
  parseToks_total_full f toks pre t e ht hl


end SfntV.Dsl
